import Mdsort.Model.L0.Vector

/-!
# L0 model of the header handling of message.c

`skipseparator`, `findheader` (with its two in-place NUL writes into `me_buf`), the loop of
`message_parse_headers`, `unfoldheader`, `searchheader`.  `me_buf` is a `Buf`; `char *` into it are indices;
`struct header { id, key, val }` holds two such indices; the header table is a `Vec`.
-/

namespace Mdsort.L0
open Mdsort

/-! ## facts about the primitives needed for termination -/

theorem strchr_lt {b : Buf} {i : Nat} {c : UInt8} {r : Option Nat} (h : strchr b i c = .ok r) : i < b.size := by
  rw [strchr] at h
  split at h
  · cases h
  · rename_i x hx; exact Buf.lt_of_get? hx

theorem strchr_ge' {b : Buf} {i j : Nat} {c : UInt8} (h : strchr b i c = .ok (some j)) : i ≤ j := by
  fun_induction strchr b i c with
  | case1 i e he => cases h
  | case2 i x hx hc => cases h; exact Nat.le_refl _
  | case3 i x hx hc h0 => cases h
  | case4 i x hx hc h0 ih => have := ih h; omega

theorem strchr_get {b : Buf} {i j : Nat} {c : UInt8} (h : strchr b i c = .ok (some j)) : b.get? j = .ok c := by
  fun_induction strchr b i c with
  | case1 i e he => cases h
  | case2 i x hx hc => cases h; rw [hx]; simp at hc; rw [hc]
  | case3 i x hx hc h0 => cases h
  | case4 i x hx hc h0 ih => exact ih h

theorem strend_ge {b : Buf} {i j : Nat} (h : strend b i = .ok j) : i ≤ j := by
  fun_induction strend b i with
  | case1 i e he => cases h
  | case2 i c hc h0 => cases h; exact Nat.le_refl _
  | case3 i c hc h0 ih => have := ih h; omega

theorem strend_get {b : Buf} {i j : Nat} (h : strend b i = .ok j) : b.get? j = .ok 0 := by
  fun_induction strend b i with
  | case1 i e he => cases h
  | case2 i c hc h0 => cases h; rw [hc]; simp at h0; rw [h0]
  | case3 i c hc h0 ih => exact ih h

theorem skipBlanks_ge {b : Buf} {i j : Nat} (h : skipBlanks b i = .ok j) : i ≤ j := by
  fun_induction skipBlanks b i with
  | case1 i e he => cases h
  | case2 i c hc hb ih => have := ih h; omega
  | case3 i c hc hb => cases h; exact Nat.le_refl _

/-! ## skipseparator -/

/-- `skipseparator(&b[i])`. -/
def skipSeparator (b : Buf) (i : Nat) : M Nat :=
  match startsWithLit b i [70, 114, 111, 109, 32] with     -- strncmp(str, "From ", 5)
  | .error e => .error e
  | .ok false => .ok i
  | .ok true =>
    match strchr b i 10 with
    | .error e => .error e
    | .ok none => .ok i
    | .ok (some p) => .ok (p + 1)

/-! ## findheader -/

structure Slice where
  beg : Nat
  end_ : Nat
deriving Repr, DecidableEq, Inhabited

/-- `for (i = 0; str[i] != ':'; i++) if (str[i] == '\0' || isspace(str[i])) return 0;` - index of the colon. -/
def scanKey (b : Buf) (i : Nat) : M (Option Nat) :=
  match h : b.get? i with
  | .error e => .error e
  | .ok c =>
    if c == 58 then .ok (some i)
    else if c == 0 || isspace c then .ok none
    else scanKey b (i + 1)
termination_by b.size - i
decreasing_by have := Buf.lt_of_get? h; omega

/-- The `for (;;)` of `findheader` from index `i` of the value: index of the newline that ends the value. -/
def valueEnd (b : Buf) (i : Nat) : M (Option Nat) :=
  match h : strchr b i 10 with                    -- p = strchr(&str[i], '\n')
  | .error e => .error e
  | .ok none => .ok none
  | .ok (some p) =>
    match skipBlanks b (p + 1) with               -- n = nspaces(&str[i + 1])
    | .error e => .error e
    | .ok q => if q - (p + 1) == 0 then .ok (some p) else valueEnd b (p + (q - (p + 1)) + 1)
termination_by b.size - i
decreasing_by
  have := strchr_lt h
  have := strchr_ge' h
  omega

/-- Outcome of `findheader(&b[i], &ks, &vs)`. -/
inductive FindHdr where
  | notHeader                                  -- returned 0 before touching the buffer
  | cutAtColon (b : Buf)                       -- wrote NUL at the colon, then found no end of value
  | found (b : Buf) (ks vs : Slice)
deriving Repr

def findHeader (b : Buf) (i : Nat) : M FindHdr :=
  match scanKey b i with
  | .error e => .error e
  | .ok none => .ok .notHeader
  | .ok (some colon) =>
    match b.set colon 0 with                      -- *ks->s_end = '\0'
    | .error e => .error e
    | .ok b1 =>
      match skipBlanks b1 (colon + 1) with        -- i++; i += nspaces(&str[i])
      | .error e => .error e
      | .ok vbeg =>
        match valueEnd b1 vbeg with
        | .error e => .error e
        | .ok none => .ok (.cutAtColon b1)
        | .ok (some vend) =>
          match b1.set vend 0 with                -- *vs->s_end = '\0'
          | .error e => .error e
          | .ok b2 => .ok (.found b2 { beg := i, end_ := colon } { beg := vbeg, end_ := vend })

/-! ## message_parse_headers -/

/-- `struct header`: `key` and `val` point into `me_buf`. -/
structure Hdr0 where
  id : Nat
  key : Nat
  val : Nat
deriving Repr, DecidableEq, Inhabited

theorem scanKey_lt {b : Buf} {i : Nat} {r : Option Nat} (h : scanKey b i = .ok r) : i < b.size := by
  rw [scanKey] at h
  split at h
  · cases h
  · rename_i x hx; exact Buf.lt_of_get? hx

theorem scanKey_ge {b : Buf} {i j : Nat} (h : scanKey b i = .ok (some j)) : i ≤ j := by
  fun_induction scanKey b i with
  | case1 i e he => cases h
  | case2 i c hc h1 => cases h; exact Nat.le_refl _
  | case3 i c hc h1 h2 => cases h
  | case4 i c hc h1 h2 ih => have := ih h; omega

theorem valueEnd_ge {b : Buf} {i j : Nat} (h : valueEnd b i = .ok (some j)) : i ≤ j := by
  fun_induction valueEnd b i with
  | case1 i e he => cases h
  | case2 i he => cases h
  | case3 i p hp e he => cases h
  | case4 i p hp q hq h0 => cases h; exact strchr_ge' hp
  | case5 i p hp q hq h0 ih => have := ih h; have := strchr_ge' hp; omega

theorem size_set {b b' : Buf} {i : Nat} {v : UInt8} (h : b.set i v = .ok b') : b'.size = b.size := by
  unfold Buf.set at h
  split at h
  · cases h; simp [Buf.size]
  · cases h

/-- What the loop of `message_parse_headers` needs to know to terminate. -/
theorem findHeader_found {b b' : Buf} {i : Nat} {ks vs : Slice} (h : findHeader b i = .ok (.found b' ks vs)) :
    b'.size = b.size ∧ i < b.size ∧ i ≤ vs.end_ := by
  unfold findHeader at h
  split at h
  · cases h
  · cases h
  · rename_i colon hcolon
    have h1 := scanKey_lt hcolon
    have h2 := scanKey_ge hcolon
    split at h
    · cases h
    · rename_i b1 hb1
      split at h
      · cases h
      · rename_i vbeg hvbeg
        have h3 := skipBlanks_ge hvbeg
        split at h
        · cases h
        · cases h
        · rename_i vend hvend
          have h4 := valueEnd_ge hvend
          split at h
          · cases h
          · rename_i b2 hb2
            cases h
            refine ⟨by rw [size_set hb2, size_set hb1], h1, ?_⟩
            simp only; omega

/-- The `while (findheader(buf, &ks, &vs))` loop: the buffer after the NUL writes, the table, and `buf`. -/
def parseLoop (b : Buf) (buf : Nat) (hdrs : Vec Hdr0) : M (Buf × Vec Hdr0 × Nat) :=
  match h : findHeader b buf with
  | .error e => .error e
  | .ok .notHeader => .ok (b, hdrs, buf)
  | .ok (.cutAtColon b') => .ok (b', hdrs, buf)
  | .ok (.found b' ks vs) =>
    match hdrs.calloc default with                -- hdr = message_headers_alloc(msg)
    | .error e => .error e
    | .ok (hdrs1, p) =>
      -- hdr->id = VECTOR_LENGTH(msg->me_headers); hdr->key = ks.s_beg; hdr->val = vs.s_beg
      match hdrs1.store p { id := hdrs1.items.size, key := ks.beg, val := vs.beg } with
      | .error e => .error e
      | .ok hdrs2 => parseLoop b' (vs.end_ + 1) hdrs2    -- buf = vs.s_end + 1
termination_by b.size - buf
decreasing_by
  have := findHeader_found h
  omega

/-- `for (; *buf == '\n'; buf++)`. -/
def skipNewlines (b : Buf) (i : Nat) : M Nat :=
  match h : b.get? i with
  | .error e => .error e
  | .ok c => if c == 10 then skipNewlines b (i + 1) else .ok i
termination_by b.size - i
decreasing_by have := Buf.lt_of_get? h; omega

/-- `message_parse_headers(msg)` on `me_buf = b` before `VECTOR_SORT`: the buffer, the table in file order, and
`me_body`.  (Sorting permutes the table; it makes no access to `me_buf` other than `strcasecmp` on the keys.) -/
def parseHeaders (b : Buf) : M (Buf × Vec Hdr0 × Nat) :=
  match skipSeparator b 0 with
  | .error e => .error e
  | .ok buf =>
    match parseLoop b buf Vec.init with
    | .error e => .error e
    | .ok (b', hdrs, buf') =>
      match skipNewlines b' buf' with
      | .error e => .error e
      | .ok body => .ok (b', hdrs, body)

/-- The key strings, read as `cmpheaderkey` reads them during `VECTOR_SORT`. -/
def readKeys (b : Buf) : List Hdr0 → M (List (Bytes × Hdr0))
  | [] => .ok []
  | h :: r =>
    match readCStr b h.key [] with
    | .error e => .error e
    | .ok k =>
      match readKeys b r with
      | .error e => .error e
      | .ok ks => .ok ((k, h) :: ks)

/-- `VECTOR_SORT(msg->me_headers, cmpheaderkey)`: `qsort` (glibc: a stable merge sort) on the keys; the only
accesses to `me_buf` are the key comparisons. -/
def sortHeaders (b : Buf) (hs : Array Hdr0) : M (Array Hdr0) :=
  match readKeys b hs.toList with
  | .error e => .error e
  | .ok ks => .ok ((ks.mergeSort fun x y => Mdsort.strcasecmp x.1 y.1 != .gt).map (·.2)).toArray

/-- `message_parse_headers(msg)` in full: the buffer after the NUL writes, the sorted table, `me_body`. -/
def messageParseHeaders (b : Buf) : M (Buf × Array Hdr0 × Nat) :=
  match parseHeaders b with
  | .error e => .error e
  | .ok (b', hdrs, body) =>
    match sortHeaders b' hdrs.items with
    | .error e => .error e
    | .ok sorted => .ok (b', sorted, body)

/-! ## unfoldheader -/

/-- `while (str != end) dec[i++] = *str++;` -/
def copyRange (s : Buf) (str end_ : Nat) (dec : Buf) (i : Nat) : M (Buf × Nat) :=
  if str < end_ then
    match s.get? str with
    | .error e => .error e
    | .ok c =>
      match dec.set i c with
      | .error e => .error e
      | .ok dec' => copyRange s (str + 1) end_ dec' (i + 1)
  else .ok (dec, i)
termination_by end_ - str

/-- `for (; *str == '\t'; str++)`. -/
def skipTabs (b : Buf) (i : Nat) : M Nat :=
  match h : b.get? i with
  | .error e => .error e
  | .ok c => if c == 9 then skipTabs b (i + 1) else .ok i
termination_by b.size - i
decreasing_by have := Buf.lt_of_get? h; omega

theorem skipTabs_ge {b : Buf} {i j : Nat} (h : skipTabs b i = .ok j) : i ≤ j := by
  fun_induction skipTabs b i with
  | case1 i e he => cases h
  | case2 i c hc hb ih => have := ih h; omega
  | case3 i c hc hb => cases h; exact Nat.le_refl _

/-- `end = strchr(str, '\n'); if (end == NULL) end = str + strlen(str);` -/
def lineEnd (s : Buf) (str : Nat) : M Nat :=
  match strchr s str 10 with
  | .error e => .error e
  | .ok (some e) => .ok e
  | .ok none => strend s str

theorem lineEnd_ge {s : Buf} {str e : Nat} (h : lineEnd s str = .ok e) : str ≤ e := by
  unfold lineEnd at h
  split at h
  · cases h
  · rename_i e' he; cases h; exact strchr_ge' he
  · exact strend_ge h

theorem lineEnd_get {s : Buf} {str e : Nat} (h : lineEnd s str = .ok e) :
    s.get? e = .ok 10 ∨ s.get? e = .ok 0 := by
  unfold lineEnd at h
  split at h
  · cases h
  · rename_i e' he; cases h; exact .inl (strchr_get he)
  · exact .inr (strend_get h)

/-- The `for (;;)` of `unfoldheader`.  After the copy `*str` is read for the `'\n'` test; when it is not a
newline the next iteration reads the same byte again for its `'\0'` test, which is done here at once. -/
def unfoldLoop (s : Buf) (str : Nat) (dec : Buf) (i : Nat) : M (Buf × Nat) :=
  match h : s.get? str with
  | .error e => .error e
  | .ok c =>
    if c == 0 then .ok (dec, i)                       -- if (*str == '\0') break;
    else
      match ht : skipTabs s str with
      | .error e => .error e
      | .ok str1 =>
        match he : lineEnd s str1 with
        | .error e => .error e
        | .ok e =>
          match copyRange s str1 e dec i with
          | .error e => .error e
          | .ok (dec', i') =>
            match hc2 : s.get? e with                   -- if (*str == '\n') str++;
            | .error e => .error e
            | .ok c2 =>
              if h10 : c2 == 10 then unfoldLoop s (e + 1) dec' i'
              else if h0 : c2 == 0 then .ok (dec', i')
              else unfoldLoop s e dec' i'
termination_by s.size - str
decreasing_by
  · have := Buf.lt_of_get? h
    have := skipTabs_ge ht
    have := lineEnd_ge he
    omega
  · exfalso
    rcases lineEnd_get he with h1 | h1
    · rw [h1] at hc2; cases hc2; simp at h10
    · rw [h1] at hc2; cases hc2; simp at h0

/-- `unfoldheader(&s[i])`: the `strdup`ed copy after unfolding (a `Buf` of `strlen + 1` bytes). -/
def unfoldHeader (s : Buf) (i : Nat) : M Buf :=
  match strdup s i with
  | .error e => .error e
  | .ok dec =>
    match strchr s i 10 with                          -- if (strchr(str, '\n') == NULL) return dec;
    | .error e => .error e
    | .ok none => .ok dec
    | .ok (some _) =>
      match unfoldLoop s i dec 0 with
      | .error e => .error e
      | .ok (dec', k) => dec'.set k 0                 -- dec[i] = '\0'

/-! ## searchheader -/

/-- `strcasecmp(&a[i], &b[j])` in the C locale, reading both strings byte by byte. -/
def strcasecmp (a : Buf) (i : Nat) (b : Buf) (j : Nat) : M Ordering :=
  match h : a.get? i with
  | .error e => .error e
  | .ok x =>
    match b.get? j with
    | .error e => .error e
    | .ok y =>
      let lx := tolower x
      let ly := tolower y
      if lx < ly then .ok .lt
      else if lx > ly then .ok .gt
      else if x == 0 then .ok .eq
      else strcasecmp a (i + 1) b (j + 1)
termination_by a.size - i
decreasing_by have := Buf.lt_of_get? h; omega

/-- `cmpheaderkey(&needle, headers + idx)`: the element is read with `idx < nmemb` checked. -/
def cmpKey (kb : Buf) (k : Nat) (buf : Buf) (hs : Array Hdr0) (nmemb : Nat) (idx : Nat) : M Ordering :=
  if idx < nmemb then
    match hs[idx]? with
    | some h => strcasecmp kb k buf h.key
    | none => .error (.oob idx)
  else .error (.oob idx)

/-- `for (beg = mi; beg > 0; beg--) if (cmpheaderkey(&needle, headers + beg - 1)) break;` -/
def scanBeg (kb : Buf) (k : Nat) (buf : Buf) (hs : Array Hdr0) (nmemb : Nat) : Nat → M Nat
  | 0 => .ok 0
  | beg + 1 =>
    match cmpKey kb k buf hs nmemb beg with
    | .error e => .error e
    | .ok .eq => scanBeg kb k buf hs nmemb beg
    | .ok _ => .ok (beg + 1)

/-- `for (end = mi + 1; end < nmemb; end++) if (cmpheaderkey(&needle, headers + end)) break;` -/
def scanEnd (kb : Buf) (k : Nat) (buf : Buf) (hs : Array Hdr0) (nmemb : Nat) (e : Nat) : M Nat :=
  if e < nmemb then
    match cmpKey kb k buf hs nmemb e with
    | .error e => .error e
    | .ok .eq => scanEnd kb k buf hs nmemb (e + 1)
    | .ok _ => .ok e
  else .ok e
termination_by nmemb - e

/-- The `while (lo <= hi)` of `searchheader`; `none` is `-1`, `some (beg, nfound)` otherwise. -/
def bsearch (kb : Buf) (k : Nat) (buf : Buf) (hs : Array Hdr0) (nmemb : Nat) (lo hi : Nat) : M (Option (Nat × Nat)) :=
  if lo ≤ hi then
    let mi := lo + (hi - lo) / 2
    match cmpKey kb k buf hs nmemb mi with
    | .error e => .error e
    | .ok .eq =>
      match scanBeg kb k buf hs nmemb mi with
      | .error e => .error e
      | .ok beg =>
        match scanEnd kb k buf hs nmemb (mi + 1) with
        | .error e => .error e
        | .ok e => .ok (some (beg, e - beg))
    | .ok .gt => bsearch kb k buf hs nmemb (mi + 1) hi
    | .ok .lt => if mi > 0 then bsearch kb k buf hs nmemb lo (mi - 1) else .ok none
  else .ok none
termination_by hi + 1 - lo
decreasing_by all_goals omega

/-- `searchheader(headers, nmemb, key, &nfound)`. -/
def searchHeader (kb : Buf) (k : Nat) (buf : Buf) (hs : Array Hdr0) (nmemb : Nat) : M (Option (Nat × Nat)) :=
  if nmemb == 0 then .ok none
  else bsearch kb k buf hs nmemb 0 (nmemb - 1)

end Mdsort.L0
