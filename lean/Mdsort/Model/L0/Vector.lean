import Mdsort.Model.L0.Basic

/-!
# L0 model of libks/vector.c

A vector is its elements (`vc_len = items.size`), its capacity `vc_siz`, and a generation number that changes
whenever `vector_reserve1` calls `realloc` (which may move the storage).  A pointer to an element is
(generation, index); using it after the vector has been reallocated is `Fault.uaf`.

`size_t` overflow (`ULONG_MAX` elements) is not modelled.
-/

namespace Mdsort.L0

/-- `struct foo *` into a vector: valid while the vector's generation is `gen`. -/
structure Ptr where
  gen : Nat
  idx : Nat
deriving Repr, DecidableEq, Inhabited

structure Vec (α : Type) where
  items : Array α
  siz : Nat
  gen : Nat
deriving Repr

namespace Vec
variable {α : Type}

/-- `VECTOR_INIT`: `calloc(1, sizeof(struct vector))`. -/
def init : Vec α := { items := #[], siz := 0, gen := 0 }

/-- `while (newsiz < vc->vc_len + len) newsiz *= 2;` -/
def growSiz (newsiz need : Nat) : Nat :=
  if newsiz < need ∧ 0 < newsiz then growSiz (newsiz * 2) need else newsiz
termination_by need - newsiz
decreasing_by omega

/-- `vector_reserve1(&vc, 1)`: nothing when `vc_len + 1 < vc_siz`, otherwise `realloc` to the doubled size. -/
def reserve1 (v : Vec α) : Vec α :=
  if v.items.size + 1 < v.siz then v
  else { v with siz := growSiz (if v.siz = 0 then 16 else v.siz) (v.items.size + 1), gen := v.gen + 1 }

/-- `vector_alloc(&v, 1)` (`VECTOR_CALLOC`): reserve, `memset` the slot `vc_len` (inside the capacity, checked),
`vc_len++`; returns the pointer to the new element. -/
def calloc (v : Vec α) (zero : α) : M (Vec α × Ptr) :=
  let v' := v.reserve1
  if v'.items.size < v'.siz then
    .ok ({ v' with items := v'.items.push zero }, { gen := v'.gen, idx := v'.items.size })
  else .error (.oob v'.items.size)

/-- `*p` (read). -/
def deref (v : Vec α) (p : Ptr) : M α :=
  if p.gen ≠ v.gen then .error .uaf
  else match v.items[p.idx]? with
    | some a => .ok a
    | none => .error (.oob p.idx)

/-- `*p = a` (write). -/
def store (v : Vec α) (p : Ptr) (a : α) : M (Vec α) :=
  if p.gen ≠ v.gen then .error .uaf
  else if p.idx < v.items.size then .ok { v with items := v.items.setIfInBounds p.idx a }
  else .error (.oob p.idx)

/-- `v[i]` with `i < VECTOR_LENGTH(v)` checked. -/
def at? (v : Vec α) (i : Nat) : M α :=
  match v.items[i]? with
  | some a => .ok a
  | none => .error (.oob i)

end Vec

end Mdsort.L0
