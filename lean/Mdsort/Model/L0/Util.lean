import Mdsort.Model.L0.Message
import Mdsort.Model.L0.Decode

/-!
# L0 model of util.c `pathslice`, macro.c `ismacro`, match.c `isbackref`

(`nspaces` is `L0.nspaces` in `Basic.lean`.)  The destination `buf` of `pathslice` is a `Buf` of which the caller
promises `bufsiz` bytes; `strtoul` is a primitive reading white space, a sign and digits byte by byte.
-/

namespace Mdsort.L0
open Mdsort

/-! ## pathslice -/

/-- `for (p = path; (p = strchr(p, '/')) != NULL; p++) ncomps++;` -/
def countSlashes (b : Buf) (p : Nat) (n : Nat) : M Nat :=
  match h : strchr b p 47 with
  | .error e => .error e
  | .ok none => .ok n
  | .ok (some q) => countSlashes b (q + 1) (n + 1)
termination_by b.size - p
decreasing_by
  have := strchr_lt h
  have := strchr_ge' h
  omega

/-- State of the copy: `p`, the destination, `bp - buf`, and the `bufsiz` left. -/
structure SliceSt where
  p : Nat
  buf : Buf
  bp : Nat
  room : Nat
deriving Repr

/-- `for (p++; *p != '/' && *p != '\0'; p++) { if (!docopy) continue; if (bufsiz == 0) return NULL;
*bp++ = *p; bufsiz--; }` from the incremented `p`; `none` is `return NULL`. -/
def sliceComp (path : Buf) (docopy : Bool) (st : SliceSt) : M (Option SliceSt) :=
  match h : path.get? st.p with
  | .error e => .error e
  | .ok c =>
    if c == 47 || c == 0 then .ok (some st)
    else if !docopy then sliceComp path docopy { st with p := st.p + 1 }
    else if st.room == 0 then .ok none
    else
      match st.buf.set st.bp c with
      | .error e => .error e
      | .ok buf' => sliceComp path docopy { p := st.p + 1, buf := buf', bp := st.bp + 1, room := st.room - 1 }
termination_by path.size - st.p
decreasing_by all_goals (have := Buf.lt_of_get? h; (try simp only []); omega)

/-- The first byte of a component: `if (docopy) { if (bufsiz == 0) return NULL; if (isabs && isrange) { *bp++ = '/';
bufsiz--; } else if (!isabs) { *bp++ = *p; bufsiz--; } }` with `c = *p`. -/
def sliceFirst (isabs isrange docopy : Bool) (c : UInt8) (st : SliceSt) : M (Option SliceSt) :=
  if docopy then
    if st.room == 0 then .ok none
    else if isabs && isrange then
      match st.buf.set st.bp 47 with
      | .error e => .error e
      | .ok buf' => .ok (some { st with buf := buf', bp := st.bp + 1, room := st.room - 1 })
    else if !isabs then
      match st.buf.set st.bp c with
      | .error e => .error e
      | .ok buf' => .ok (some { st with buf := buf', bp := st.bp + 1, room := st.room - 1 })
    else .ok (some st)
  else .ok (some st)

/-- The `for (i = 0; i < ncomps; i++)` loop with `n = ncomps - i` iterations left. -/
def sliceLoop (path : Buf) (isrange : Bool) (beg end_ : Int) : Nat → Nat → Bool → SliceSt → M (Option SliceSt)
  | 0, _, _, st => .ok (some st)
  | n + 1, i, isabs, st =>
    match path.get? st.p with
    | .error e => .error e
    | .ok c =>
      if c == 0 then .ok (some st)                                  -- if (*p == '\0') break
      else
        match sliceFirst isabs isrange (decide (beg ≤ (i : Int)) && decide ((i : Int) ≤ end_)) c st with
        | .error e => .error e
        | .ok none => .ok none
        | .ok (some s1) =>                                           -- isabs = 1; for (p++; ...)
          match sliceComp path (decide (beg ≤ (i : Int)) && decide ((i : Int) ≤ end_)) { s1 with p := s1.p + 1 } with
          | .error e => .error e
          | .ok none => .ok none
          | .ok (some s2) => sliceLoop path isrange beg end_ n (i + 1) true s2

/-- The index arithmetic of `pathslice`: `isrange` and the normalised `beg`, `end`; `none` is `return NULL`. -/
def sliceBounds (nc : Nat) (beg end_ : Int) : Option (Bool × Int × Int) :=
  let ncomps : Int := nc
  let isrange := !(end_ - beg == 0)
  let r : Int := if isrange then 1 else 0
  let end1 := if end_ < 0 then ncomps + end_ - r else end_
  let beg1 := if beg < 0 then ncomps + beg - r else beg
  if beg1 < 0 || beg1 > end1 || end1 < 0 || end1 ≥ ncomps then none else some (isrange, beg1, end1)

/-- `pathslice(&path[0], buf, bufsiz, beg, end)`: the destination after the final `*bp = '\0'`; `none` for NULL. -/
def pathslice (path : Buf) (buf : Buf) (bufsiz : Nat) (beg end_ : Int) : M (Option Buf) :=
  match path.get? 0 with
  | .error e => .error e
  | .ok c0 =>
    let isabs := c0 == 47
    match countSlashes path 0 (if isabs then 0 else 1) with
    | .error e => .error e
    | .ok nc =>
      match sliceBounds nc beg end_ with
      | none => .ok none
      | some (isrange, beg1, end1) =>
        match sliceLoop path isrange beg1 end1 nc 0 isabs { p := 0, buf := buf, bp := 0, room := bufsiz } with
        | .error e => .error e
        | .ok none => .ok none
        | .ok (some st) =>
          if st.room == 0 then .ok none
          else
            match st.buf.set st.bp 0 with                               -- *bp = '\0'
            | .error e => .error e
            | .ok b' => .ok (some b')

/-! ## ismacro -/

/-- `for (i = 2; str[i] != '}'; i++) if (str[i] == '\0') return -1;` - index of the brace, `none` for -1. -/
def scanBrace (b : Buf) (i : Nat) : M (Option Nat) :=
  match h : b.get? i with
  | .error e => .error e
  | .ok c => if c == 125 then .ok (some i) else if c == 0 then .ok none else scanBrace b (i + 1)
termination_by b.size - i
decreasing_by have := Buf.lt_of_get? h; omega

/-- `ismacro(&b[i], &macro)`: `.inl (len, macro)`, `.inr false` = 0, `.inr true` = -1. -/
def isMacro (b : Buf) (i : Nat) : M (Sum (Nat × Buf) Bool) :=
  match b.get? i with
  | .error e => .error e
  | .ok c0 =>
    if c0 != 36 then .ok (.inr false)                       -- str[0] != '$' ||
    else
      match b.get? (i + 1) with
      | .error e => .error e
      | .ok c1 =>
        if c1 != 123 then .ok (.inr false)                  -- str[1] != '{'
        else
          match scanBrace b (i + 2) with
          | .error e => .error e
          | .ok none => .ok (.inr true)
          | .ok (some k) =>
            match strndup b (i + 2) (k - (i + 2)) with      -- strndup(&str[2], i - 2)
            | .error e => .error e
            | .ok name => .ok (.inl (k + 1 - i, name))

/-! ## isbackref -/

/-- The digits of `strtoul`: value and index of the first byte that is not a digit. -/
def strtoulDigits (b : Buf) (i : Nat) (acc : Nat) : M (Nat × Nat) :=
  match h : b.get? i with
  | .error e => .error e
  | .ok c => if isdigit c then strtoulDigits b (i + 1) (acc * 10 + (c.toNat - 48)) else .ok (acc, i)
termination_by b.size - i
decreasing_by have := Buf.lt_of_get? h; omega

/-- The value `strtoul` returns for `-v` (unsigned negation modulo 2^64, ERANGE when `v` itself does not fit) as seen by the
caller's `> INT_MAX` test; same as `Model.strtoulNeg`. -/
def strtoulNeg (v : Nat) : Option Nat :=
  if v == 0 then some 0
  else if v > 18446744073709551615 then none
  else if 18446744073709551616 - v > 2147483647 then none
  else some (18446744073709551616 - v)

/-- `val = strtoul(&b[i], &end, 10)` followed by the caller's `val > INT_MAX` test: `none` when it is, and `end`
(`= i` when there are no digits). -/
def strtoul (b : Buf) (i : Nat) : M (Option Nat × Nat) :=
  match skipIsspace b i with
  | .error e => .error e
  | .ok j =>
    match b.get? j with
    | .error e => .error e
    | .ok sg =>
      let neg := sg == 45
      let k := if sg == 45 || sg == 43 then j + 1 else j
      match strtoulDigits b k 0 with
      | .error e => .error e
      | .ok (v, e) =>
        if e == k then .ok (some 0, i)                       -- no conversion: end = nptr
        else if neg then .ok (strtoulNeg v, e)
        else if v > 2147483647 then .ok (none, e) else .ok (some v, e)

/-- `isbackref(&b[i], &br)`: `.inl (len, mi, si)`, `.inr false` = 0, `.inr true` = -1. -/
def isBackref (b : Buf) (i : Nat) : M (Sum (Nat × Nat × Nat) Bool) :=
  match b.get? i with
  | .error e => .error e
  | .ok c0 =>
    if c0 != 92 then .ok (.inr false)                        -- s[0] != '\\' ||
    else
      match b.get? (i + 1) with
      | .error e => .error e
      | .ok c1 =>
        if !isdigit c1 then .ok (.inr false)                 -- !isdigit(s[1])
        else
          match strtoul b (i + 1) with
          | .error e => .error e
          | .ok (none, _) => .ok (.inr true)
          | .ok (some val, e) =>
            match b.get? e with                              -- s = end; s[0] == '.'
            | .error e => .error e
            | .ok d =>
              if d == 46 then
                match strtoul b (e + 1) with
                | .error e => .error e
                | .ok (none, _) => .ok (.inr true)
                | .ok (some v2, e2) => .ok (.inl (e2 - i, val, v2))
              else if d == 92 then                           -- s[0] == '\\' && s[1] == '.'
                match b.get? (e + 1) with
                | .error e => .error e
                | .ok d1 => if d1 == 46 then .ok (.inl (e + 1 - i, 0, val)) else .ok (.inl (e - i, 0, val))
              else .ok (.inl (e - i, 0, val))

end Mdsort.L0
