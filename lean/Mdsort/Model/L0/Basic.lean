import Mdsort.Bytes

/-!
# L0: index-level vocabulary

The list models (L1) cannot express a read beyond the terminator: a suffix is always in bounds.  Here a C
object is an array of bytes with a fixed size, a `char *` into it is an index, every read goes through
`Buf.get?` and every write through `Buf.set`; both fail with `Fault.oob i` when `i` is not inside the
object.  An L0 function returns `Except Fault _`; "no invalid access" is the theorem that it returns `.ok _`.

The `<string.h>` functions used by mdsort are primitives that themselves read byte by byte through `get?` and
stop at the first NUL (or after `n` bytes), exactly their contract.

No Mathlib here: the driver links against this file.
-/

namespace Mdsort.L0
open Mdsort

/-- What can go wrong with a memory access. -/
inductive Fault where
  | oob (i : Nat)      -- read or write at index `i` outside the object
  | uaf                -- use of a pointer into a vector that has been reallocated since
  | nullDeref
deriving Repr, DecidableEq, Inhabited

abbrev M := Except Fault

/-- A C object holding bytes: the message buffer, a `malloc`ed string, a `char[N]`. -/
structure Buf where
  bytes : Array UInt8
deriving Repr, DecidableEq, Inhabited

namespace Buf

def size (b : Buf) : Nat := b.bytes.size

/-- Checked read `b[i]`. -/
def get? (b : Buf) (i : Nat) : M UInt8 :=
  if h : i < b.bytes.size then .ok b.bytes[i] else .error (.oob i)

/-- Checked write `b[i] = v`. -/
def set (b : Buf) (i : Nat) (v : UInt8) : M Buf :=
  if i < b.bytes.size then .ok ⟨b.bytes.setIfInBounds i v⟩ else .error (.oob i)

/-- A C string as `buffer_str`/`strdup` hand it out: the bytes and the terminating NUL. -/
def ofBytes (s : Bytes) : Buf := ⟨(s ++ [0]).toArray⟩

/-- `malloc(n)`: `n` bytes of garbage (never NUL, so that nothing is terminated by accident). -/
def malloc (n : Nat) : Buf := ⟨Array.replicate n 0xAA⟩

/-- The buffer ends in a NUL: what `buffer_str` (message.c `message_parse`), `strdup`, `strndup` guarantee. -/
def Terminated (b : Buf) : Prop := b.bytes.back? = some 0

instance (b : Buf) : Decidable b.Terminated := by unfold Terminated; infer_instance

/-- The bytes `[i, j)` (for results; not an access made by the C code). -/
def slice (b : Buf) (i j : Nat) : Bytes := (b.bytes.extract i j).toList

/-- What a C reader sees from index `i`: the bytes up to the next NUL. -/
def view (b : Buf) (i : Nat) : Bytes := cstr (b.bytes.toList.drop i)

theorem lt_of_get? {b : Buf} {i : Nat} {c : UInt8} (h : b.get? i = .ok c) : i < b.size := by
  unfold get? at h
  split at h
  · assumption
  · cases h

end Buf

/-! ## `<string.h>` -/

/-- Index of the first NUL at or after `i` (`s + strlen(s)`). -/
def strend (b : Buf) (i : Nat) : M Nat :=
  match h : b.get? i with
  | .error e => .error e
  | .ok c => if c == 0 then .ok i else strend b (i + 1)
termination_by b.size - i
decreasing_by have := Buf.lt_of_get? h; omega

/-- `strlen(&b[i])`. -/
def strlen (b : Buf) (i : Nat) : M Nat :=
  match strend b i with
  | .error e => .error e
  | .ok j => .ok (j - i)

/-- `strchr(&b[i], c)`: index of the first `c`, `none` for NULL.  (`c = 0` finds the terminator.) -/
def strchr (b : Buf) (i : Nat) (c : UInt8) : M (Option Nat) :=
  match h : b.get? i with
  | .error e => .error e
  | .ok x => if x == c then .ok (some i) else if x == 0 then .ok none else strchr b (i + 1) c
termination_by b.size - i
decreasing_by have := Buf.lt_of_get? h; omega

/-- `strncmp(&a[i], &p[j], n) == 0`: compares byte by byte, stops at the first difference, at a NUL, or
after `n` bytes. -/
def strncmpEq (a : Buf) (i : Nat) (p : Buf) (j : Nat) : Nat → M Bool
  | 0 => .ok true
  | n + 1 =>
    match a.get? i with
    | .error e => .error e
    | .ok x =>
      match p.get? j with
      | .error e => .error e
      | .ok y =>
        if x != y then .ok false
        else if x == 0 then .ok true
        else strncmpEq a (i + 1) p (j + 1) n

/-- `strncmp(&b[i], lit, strlen(lit)) == 0` for a string literal. -/
def startsWithLit (b : Buf) (i : Nat) (lit : Bytes) : M Bool :=
  strncmpEq b i (Buf.ofBytes lit) 0 lit.length

/-- `strstr(&b[i], lit)`: index of the first occurrence, `none` for NULL. -/
def strstr (b : Buf) (i : Nat) (lit : Bytes) : M (Option Nat) :=
  match h : b.get? i with
  | .error e => .error e
  | .ok c =>
    match startsWithLit b i lit with
    | .error e => .error e
    | .ok true => .ok (some i)
    | .ok false => if c == 0 then .ok none else strstr b (i + 1) lit
termination_by b.size - i
decreasing_by have := Buf.lt_of_get? h; omega

/-- `i + strspn(&b[i], " \t")` (util.c `nspaces`): index of the first byte that is not a blank. -/
def skipBlanks (b : Buf) (i : Nat) : M Nat :=
  match h : b.get? i with
  | .error e => .error e
  | .ok c => if isblank c then skipBlanks b (i + 1) else .ok i
termination_by b.size - i
decreasing_by have := Buf.lt_of_get? h; omega

/-- util.c `nspaces(&b[i])`. -/
def nspaces (b : Buf) (i : Nat) : M Nat :=
  match skipBlanks b i with
  | .error e => .error e
  | .ok j => .ok (j - i)

/-- The copy loop of `strndup`/`strdup`/`strlcpy`: reads `src[i], src[i+1], ...` until a NUL or `n` bytes,
writing them to `dst[k], dst[k+1], ...`; returns the destination and the index after the last byte written. -/
def copyN (src : Buf) (i : Nat) (dst : Buf) (k : Nat) : Nat → M (Buf × Nat)
  | 0 => .ok (dst, k)
  | n + 1 =>
    match src.get? i with
    | .error e => .error e
    | .ok c =>
      if c == 0 then .ok (dst, k)
      else match dst.set k c with
        | .error e => .error e
        | .ok dst' => copyN src (i + 1) dst' (k + 1) n

/-- `strnlen(&b[i], n)`. -/
def strnlen (b : Buf) (i : Nat) : Nat → M Nat
  | 0 => .ok 0
  | n + 1 =>
    match b.get? i with
    | .error e => .error e
    | .ok c => if c == 0 then .ok 0 else
      match strnlen b (i + 1) n with
      | .error e => .error e
      | .ok l => .ok (l + 1)

/-- `strndup(&src[i], n)`: `malloc(strnlen + 1)`, copy, terminate. -/
def strndup (src : Buf) (i : Nat) (n : Nat) : M Buf := do
  let len ← strnlen src i n
  let (dst, k) ← copyN src i (Buf.malloc (len + 1)) 0 len
  dst.set k 0

/-- `strdup(&src[i])`. -/
def strdup (src : Buf) (i : Nat) : M Buf := do
  let len ← strlen src i
  let (dst, k) ← copyN src i (Buf.malloc (len + 1)) 0 len
  dst.set k 0

/-- Appending `&b[i]` as a C string to a libks buffer (`buffer_printf(bf, "%s", s)`, `buffer_puts`): the bytes
read up to the NUL. -/
def readCStr (b : Buf) (i : Nat) (acc : Bytes) : M Bytes :=
  match h : b.get? i with
  | .error e => .error e
  | .ok c => if c == 0 then .ok acc else readCStr b (i + 1) (acc ++ [c])
termination_by b.size - i
decreasing_by have := Buf.lt_of_get? h; omega

end Mdsort.L0
