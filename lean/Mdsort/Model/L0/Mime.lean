import Mdsort.Model.L0.Message
import Mdsort.Model.L0.Decode

/-!
# L0 model of the MIME handling of message.c

`skipline`, `parseboundary`, `findboundary`, `message_get_header(1)`/`decodeheader` as far as `parseattachments`
needs them, and `parseattachments` itself with the parent's attachment table as a `Vec`: `attach` and `msg` are
pointers (generation, index) into it and every `msg->...`/`attach->...` is a checked `deref`/`store`, so that a use
after `VECTOR_CALLOC` moved the table is `Fault.uaf`.

`struct message` here: `me_buf`, `me_headers` (sorted), `me_body`, and `me_path` (which, being a `char[PATH_MAX]`
inside the struct, lives in the table).  The per-header cache `hdr->values` of `message_get_header` is a separate
heap object and is not modelled.
-/

namespace Mdsort.L0
open Mdsort

/-! ## skipline -/

/-- `skipline(&b[i])`. -/
def skipLine (b : Buf) (i : Nat) : M Nat :=
  match h : b.get? i with
  | .error e => .error e
  | .ok c => if c == 0 then .ok i else if c == 10 then .ok (i + 1) else skipLine b (i + 1)
termination_by b.size - i
decreasing_by have := Buf.lt_of_get? h; omega

theorem skipLine_ge {b : Buf} {i j : Nat} (h : skipLine b i = .ok j) : i ≤ j := by
  fun_induction skipLine b i with
  | case1 i e he => cases h
  | case2 i c hc h0 => cases h; exact Nat.le_refl _
  | case3 i c hc h0 h10 => cases h; omega
  | case4 i c hc h0 h10 ih => have := ih h; omega

/-- `skipline` returns its argument only at the terminator. -/
theorem skipLine_gt {b : Buf} {i j : Nat} {c : UInt8} (h : skipLine b i = .ok j) (hg : b.get? i = .ok c) (hc : c ≠ 0) :
    i < j := by
  rw [skipLine] at h
  split at h
  · cases h
  · rename_i c' hc'
    rw [hg] at hc'; cases hc'
    simp only [beq_iff_eq, hc, if_false] at h
    split at h
    · cases h; omega
    · have := skipLine_ge h; omega

/-! ## parseboundary -/

/-- `for (; *str != '\0' && *str != c; str++)`. -/
def scanUntil (b : Buf) (i : Nat) (c : UInt8) : M Nat :=
  match h : b.get? i with
  | .error e => .error e
  | .ok x => if x != 0 && x != c then scanUntil b (i + 1) c else .ok i
termination_by b.size - i
decreasing_by have := Buf.lt_of_get? h; omega

/-- Result of `parseboundary`: 0, -1, or 1 with the `strndup`ed boundary. -/
inductive Boundary where
  | notMultipart
  | invalid
  | ok (b : Buf)
deriving Repr

def multipartLit : Bytes := [109, 117, 108, 116, 105, 112, 97, 114, 116, 47]          -- "multipart/"
def boundaryLit : Bytes := [98, 111, 117, 110, 100, 97, 114, 121, 61, 34]             -- "boundary=\""

/-- `strncasecmp(&a[i], &p[j], n) == 0`: compares `tolower` of the bytes, stops at the first difference, at a NUL, or
after `n` bytes (/repo 098cbec). -/
def strncasecmpEq (a : Buf) (i : Nat) (p : Buf) (j : Nat) : Nat → M Bool
  | 0 => .ok true
  | n + 1 =>
    match a.get? i with
    | .error e => .error e
    | .ok x =>
      match p.get? j with
      | .error e => .error e
      | .ok y =>
        if tolower x != tolower y then .ok false
        else if x == 0 then .ok true
        else strncasecmpEq a (i + 1) p (j + 1) n

/-- `strncasecmp(&b[i], lit, strlen(lit)) == 0` for a string literal. -/
def startsWithLitCI (b : Buf) (i : Nat) (lit : Bytes) : M Bool :=
  strncasecmpEq b i (Buf.ofBytes lit) 0 lit.length

/-- `parseboundary(&t[i], &boundary)`. -/
def parseBoundary (t : Buf) (i : Nat) : M Boundary :=
  match startsWithLitCI t i multipartLit with
  | .error e => .error e
  | .ok false => .ok .notMultipart
  | .ok true =>
    match scanUntil t (i + 10) 59 with                     -- str += len; for (; *str != '\0' && *str != ';'; str++)
    | .error e => .error e
    | .ok s1 =>
      match t.get? s1 with
      | .error e => .error e
      | .ok c =>
        if c == 0 then .ok .notMultipart
        else
          match skipBlanks t (s1 + 1) with                 -- str++; str += nspaces(str)
          | .error e => .error e
          | .ok s2 =>
            match startsWithLitCI t s2 boundaryLit with
            | .error e => .error e
            | .ok false => .ok .notMultipart
            | .ok true =>
              match scanUntil t (s2 + 10) 34 with          -- str += len; p = str; for (; *p != '\0' && *p != '"'; p++)
              | .error e => .error e
              | .ok p =>
                match t.get? p with
                | .error e => .error e
                | .ok q =>
                  if q != 34 then .ok .invalid
                  else if p - (s2 + 10) == 0 then .ok .invalid
                  else
                    match strndup t (s2 + 10) (p - (s2 + 10)) with
                    | .error e => .error e
                    | .ok bnd => .ok (.ok bnd)

/-! ## findboundary -/

/-- `if (skip) s = skipline(s);` -/
def lineStart (b : Buf) (s : Nat) (skip : Bool) : M Nat := if skip then skipLine b s else .ok s

theorem lineStart_ge {b : Buf} {s s1 : Nat} {skip : Bool} (h : lineStart b s skip = .ok s1) : s ≤ s1 := by
  unfold lineStart at h
  split at h
  · exact skipLine_ge h
  · cases h; exact Nat.le_refl _

theorem lineStart_gt {b : Buf} {s s1 : Nat} {c : UInt8} (h : lineStart b s true = .ok s1)
    (hg : b.get? s1 = .ok c) (hc : c ≠ 0) : s < s1 := by
  simp only [lineStart, if_true] at h
  rcases Nat.lt_or_ge s s1 with h1 | h1
  · exact h1
  · have : s1 = s := Nat.le_antisymm h1 (skipLine_ge h)
    subst this
    exact skipLine_gt h hg hc

/-- `if (strncmp(s, "--", 2) == 0) { s += 2; *term = 1; }` -/
def afterDashes (s : Nat) (term : Bool) : Nat := if term then s + 2 else s

theorem le_afterDashes (s : Nat) (term : Bool) : s ≤ afterDashes s term := by
  unfold afterDashes; split <;> omega

/-- The `for (;;)` of `findboundary` with `len = strlen(boundary)`: `some (beg, term)`, `none` for NULL.
`skip` is the C variable; a `continue` re-enters with `skip = 1` and the current `s`. -/
def findBoundaryLoop (bnd : Buf) (len : Nat) (b : Buf) (s : Nat) (skip : Bool) : M (Option (Nat × Bool)) :=
  match hs : lineStart b s skip with                            -- if (skip) s = skipline(s)
  | .error e => .error e
  | .ok s1 =>
    match h : b.get? s1 with
    | .error e => .error e
    | .ok c =>
      if hc0 : c == 0 then .ok none                             -- if (*s == '\0') break
      else
        match startsWithLit b s1 [45, 45] with                  -- strncmp(s, "--", 2)
        | .error e => .error e
        | .ok false => findBoundaryLoop bnd len b s1 true
        | .ok true =>
          match strncmpEq b (s1 + 2) bnd 0 len with             -- s += 2; strncmp(s, boundary, len)
          | .error e => .error e
          | .ok false => findBoundaryLoop bnd len b (s1 + 2) true
          | .ok true =>
            match startsWithLit b (s1 + 2 + len) [45, 45] with  -- s += len; strncmp(s, "--", 2) == 0
            | .error e => .error e
            | .ok term =>
              match b.get? (afterDashes (s1 + 2 + len) term) with   -- if (*s == '\n') return beg
              | .error e => .error e
              | .ok c4 =>
                if c4 == 10 then .ok (some (s1, term))
                else findBoundaryLoop bnd len b (afterDashes (s1 + 2 + len) term) true
termination_by 2 * (b.size - s) + (if skip then 0 else 1)
decreasing_by
  all_goals
    have hlt := Buf.lt_of_get? h
    have hge := lineStart_ge hs
    have hgt : skip = true → s < s1 := fun e => by subst e; exact lineStart_gt hs h (by simpa using hc0)
    try have h4 := le_afterDashes (s1 + 2 + len) term
    cases skip <;> simp at hgt ⊢ <;> omega

/-- `findboundary(boundary, &b[s], &term)`. -/
def findBoundary (bnd : Buf) (b : Buf) (s : Nat) : M (Option (Nat × Bool)) :=
  match strlen bnd 0 with
  | .error e => .error e
  | .ok len => findBoundaryLoop bnd len b s false

/-! ## message_get_header -/

/-- `struct message` as far as the MIME code uses it. -/
structure Att where
  buf : Buf                 -- me_buf
  headers : Array Hdr0      -- me_headers, sorted by key
  body : Nat                -- me_body, into me_buf
  path : Bytes              -- me_path, me_name (inside the struct)
deriving Repr, Inhabited

/-- `decodeheader(&b[val])`: unfold, RFC 2047; the result is a fresh C string. -/
def decodeHeader (b : Buf) (val : Nat) : M Buf :=
  match unfoldHeader b val with
  | .error e => .error e
  | .ok u =>
    match rfc2047Decode u 0 with
    | .error e => .error e
    | .ok d => .ok (Buf.ofBytes d)

/-- `for (i = 0, tmp = hdr; i < nfound; i++, tmp++) *VECTOR_ALLOC(hdr->values) = decodeheader(tmp->val);` -/
def decodeRange (m : Att) (idx : Nat) : Nat → M (List Buf)
  | 0 => .ok []
  | n + 1 =>
    match m.headers[idx]? with
    | none => .error (.oob idx)
    | some h =>
      match decodeHeader m.buf h.val with
      | .error e => .error e
      | .ok d =>
        match decodeRange m (idx + 1) n with
        | .error e => .error e
        | .ok ds => .ok (d :: ds)

/-- `message_get_header(msg, header)`. -/
def getHeader (m : Att) (name : Bytes) : M (Option (List Buf)) :=
  match searchHeader (Buf.ofBytes name) 0 m.buf m.headers m.headers.size with
  | .error e => .error e
  | .ok none => .ok none
  | .ok (some (idx, nfound)) =>
    match decodeRange m idx nfound with
    | .error e => .error e
    | .ok ds => .ok (some ds)

/-- `message_get_header1(msg, header)`. -/
def getHeader1 (m : Att) (name : Bytes) : M (Option Buf) :=
  match getHeader m name with
  | .error e => .error e
  | .ok (some (v :: _)) => .ok (some v)
  | .ok _ => .ok none

/-! ## parseattachments -/

/-- `struct message *`: the top-level message, or an element of the parent's attachment table. -/
inductive MsgRef where
  | root
  | att (p : Ptr)
deriving Repr

/-- `*msg`. -/
def derefMsg (root : Att) (v : Vec Att) : MsgRef → M Att
  | .root => .ok root
  | .att p => v.deref p

def contentTypeName : Bytes := [67, 111, 110, 116, 101, 110, 116, 45, 84, 121, 112, 101]   -- "Content-Type"

theorem findBoundaryLoop_ge {bnd : Buf} {len : Nat} {b : Buf} {s : Nat} {skip : Bool} {r : Nat} {t : Bool}
    (h : findBoundaryLoop bnd len b s skip = .ok (some (r, t))) :
    s ≤ r ∧ ∃ c, b.get? r = .ok c ∧ c ≠ 0 := by
  fun_induction findBoundaryLoop bnd len b s skip with
  | case1 s skip e hs => cases h
  | case2 s skip s1 hs e he => cases h
  | case3 s skip s1 hs c hc h0 => cases h
  | case4 s skip s1 hs c hc h0 e he => cases h
  | case5 s skip s1 hs c hc h0 he ih =>
    obtain ⟨h1, h2⟩ := ih h
    exact ⟨by have := lineStart_ge hs; omega, h2⟩
  | case6 s skip s1 hs c hc h0 he e he2 => cases h
  | case7 s skip s1 hs c hc h0 he he2 ih =>
    obtain ⟨h1, h2⟩ := ih h
    exact ⟨by have := lineStart_ge hs; omega, h2⟩
  | case8 s skip s1 hs c hc h0 he he2 e he3 => cases h
  | case9 s skip s1 hs c hc h0 he he2 term he3 e he4 => cases h
  | case10 s skip s1 hs c hc h0 he he2 term he3 c4 hc4 h10 =>
    cases h
    exact ⟨lineStart_ge hs, c, hc, by simpa using h0⟩
  | case11 s skip s1 hs c hc h0 he he2 term he3 c4 hc4 h10 ih =>
    obtain ⟨h1, h2⟩ := ih h
    refine ⟨?_, h2⟩
    have := le_afterDashes (s1 + 2 + len) term
    have := lineStart_ge hs
    omega

theorem findBoundary_ge {bnd b : Buf} {s r : Nat} {t : Bool} (h : findBoundary bnd b s = .ok (some (r, t))) :
    s ≤ r ∧ ∃ c, b.get? r = .ok c ∧ c ≠ 0 := by
  unfold findBoundary at h
  split at h
  · cases h
  · exact findBoundaryLoop_ge h

/-- The `while (!term)` loop of `parseattachments(msg, parent, depth)`.  `m` is what was read through `msg` before
the loop (`me_body`, and `me_path` copied to the local `path`); `sub v p` is
`parseattachments(attach, parent, depth + 1)`.  The result is the table and `true` for `return 1`. -/
def partsLoop (sub : Vec Att → Ptr → M (Vec Att × Bool)) (bnd : Buf) (m : Att)
    (body : Nat) (beg : Option Nat) (v : Vec Att) : M (Vec Att × Bool) :=
  match hf : findBoundary bnd m.buf body with                     -- b = findboundary(boundary, body, &term)
  | .error e => .error e
  | .ok none => .ok (v, true)                                     -- if (b == NULL) break;  (term = 0)
  | .ok (some (b, term)) =>
    match beg with
    | none =>
      match hsl : skipLine m.buf b with                            -- beg = b = skipline(b); body = b; continue
      | .error e => .error e
      | .ok b' => if term then .ok (v, false) else partsLoop sub bnd m b' (some b') v
    | some bg =>                                                   -- end = b; body = b
      match v.calloc default with                                  -- attach = VECTOR_CALLOC(parent->me_attachments)
      | .error e => .error e
      | .ok (v1, p) =>
        match strndup m.buf bg (b - bg) with                       -- attach->me_buf = strndup(beg, end - beg)
        | .error e => .error e
        | .ok abuf =>
          match messageParseHeaders abuf with                      -- attach->me_body = message_parse_headers(attach)
          | .error e => .error e
          | .ok (ab, hdrs, abody) =>
            match v1.store p { buf := ab, headers := hdrs, body := abody, path := m.path } with
            | .error e => .error e
            | .ok v2 =>
              match sub v2 p with                                  -- parseattachments(attach, parent, depth + 1)
              | .error e => .error e
              | .ok (v3, true) => .ok (v3, true)                   -- term = 0; break
              | .ok (v3, false) =>                                 -- beg = end = NULL
                if term then .ok (v3, false) else partsLoop sub bnd m b none v3
termination_by 2 * (m.buf.size - body) + (if beg.isSome then 1 else 0)
decreasing_by
  · obtain ⟨h1, c, hc, hc0⟩ := findBoundary_ge hf
    have := skipLine_gt hsl hc hc0
    have := Buf.lt_of_get? hc
    simp; omega
  · obtain ⟨h1, c, hc, hc0⟩ := findBoundary_ge hf
    have := Buf.lt_of_get? hc
    simp; omega

/-- `parseattachments(msg, parent, depth)` with `fuel = 5 - depth`: the parent's table and `true` for `return 1`. -/
def parseAttachments : Nat → Att → Vec Att → MsgRef → M (Vec Att × Bool)
  | 0, root, v, msg =>
    match derefMsg root v msg with                                 -- warnx("%s: ...", msg->me_path)
    | .error e => .error e
    | .ok _ => .ok (v, true)
  | fuel + 1, root, v, msg =>
    match derefMsg root v msg with                                 -- msg->me_headers, me_path, me_name, me_body
    | .error e => .error e
    | .ok m =>
      match getHeader1 m contentTypeName with
      | .error e => .error e
      | .ok none => .ok (v, false)
      | .ok (some type) =>
        match parseBoundary type 0 with
        | .error e => .error e
        | .ok .notMultipart => .ok (v, false)
        | .ok .invalid => .ok (v, true)
        | .ok (.ok bnd) =>
          partsLoop (fun v' p => parseAttachments fuel root v' (.att p)) bnd m m.body none v

/-- `message_get_attachments(msg)` for a freshly parsed message: `none` for NULL. -/
def getAttachments (root : Att) : M (Option (Array Att)) :=
  match parseAttachments 5 root Vec.init .root with
  | .error e => .error e
  | .ok (_, true) => .ok none
  | .ok (v, false) => .ok (some v.items)

end Mdsort.L0
