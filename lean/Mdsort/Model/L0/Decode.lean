import Mdsort.Model.L0.Basic
import Mdsort.Gen.Tables

/-!
# L0 model of decode.c

The same control flow as `Model/Decode.lean`, with indices where the C code has pointers: every `*src`,
`str[i]`, `str[i + 1]` is a `Buf.get?`, every `target[tarindex] = ...` a `Buf.set`.  The libks output buffer
(`buffer_putc`, grows on demand) is the list of bytes appended so far, as in L1.

`ch = (unsigned char)*src++` followed by tests of `ch` is written as a read at the index of `ch`; the sequence
of indices read is the same.
-/

namespace Mdsort.L0
open Mdsort

/-! ## b64_pton -/

/-- The string literal `Base64` of `b64_pton`. -/
def base64Lit : Buf := Buf.ofBytes Gen.base64Alphabet

/-- `pos = strchr(Base64, ch)`; `pos - Base64`. -/
def b64Idx (ch : UInt8) : M (Option UInt8) :=
  match strchr base64Lit 0 ch with
  | .error e => .error e
  | .ok none => .ok none
  | .ok (some k) => .ok (some k.toUInt8)

/-- Decoder state: `state`, `tarindex`, and the target array. -/
structure B64 where
  state : Nat
  tarindex : Nat
  target : Buf
deriving Repr, DecidableEq

/-- `t[i] |= v`. -/
def orAt (t : Buf) (i : Nat) (v : UInt8) : M Buf :=
  match t.get? i with
  | .error e => .error e
  | .ok x => t.set i (x ||| v)

/-- One alphabet character with index `v` (the `switch (state)`), `targsize = n`; `none` is `return -1`. -/
def b64Step (n : Nat) (st : B64) (v : UInt8) : M (Option B64) :=
  match st.state with
  | 0 =>
    if st.tarindex ≥ n then .ok none
    else match st.target.set st.tarindex (v <<< 2) with
      | .error e => .error e
      | .ok t => .ok (some { state := 1, tarindex := st.tarindex, target := t })
  | 1 =>
    if st.tarindex ≥ n then .ok none
    else match orAt st.target st.tarindex (v >>> 4) with
      | .error e => .error e
      | .ok t =>
        let nextbyte := (v &&& 0x0f) <<< 4
        if st.tarindex + 1 < n then
          match t.set (st.tarindex + 1) nextbyte with
          | .error e => .error e
          | .ok t' => .ok (some { state := 2, tarindex := st.tarindex + 1, target := t' })
        else if nextbyte != 0 then .ok none
        else .ok (some { state := 2, tarindex := st.tarindex + 1, target := t })
  | 2 =>
    if st.tarindex ≥ n then .ok none
    else match orAt st.target st.tarindex (v >>> 2) with
      | .error e => .error e
      | .ok t =>
        let nextbyte := (v &&& 0x03) <<< 6
        if st.tarindex + 1 < n then
          match t.set (st.tarindex + 1) nextbyte with
          | .error e => .error e
          | .ok t' => .ok (some { state := 3, tarindex := st.tarindex + 1, target := t' })
        else if nextbyte != 0 then .ok none
        else .ok (some { state := 3, tarindex := st.tarindex + 1, target := t })
  | _ =>
    if st.tarindex ≥ n then .ok none
    else match orAt st.target st.tarindex v with
      | .error e => .error e
      | .ok t => .ok (some { state := 0, tarindex := st.tarindex + 1, target := t })

/-- Outcome of the main `while` loop. -/
inductive B64P1 where
  | err
  | eos (st : B64)                -- read the terminating NUL
  | pad (st : B64) (rest : Nat)   -- read Pad64; `rest` is the index after it (`src`)
deriving Repr, DecidableEq

/-- `while ((ch = (unsigned char)*src++) != '\0')`. -/
def b64Loop (n : Nat) (src : Buf) (i : Nat) (st : B64) : M B64P1 :=
  match h : src.get? i with
  | .error e => .error e
  | .ok ch =>
    if ch == 0 then .ok (.eos st)
    else if isspace ch then b64Loop n src (i + 1) st
    else if ch == Gen.pad64 then .ok (.pad st (i + 1))
    else match b64Idx ch with
      | .error e => .error e
      | .ok none => .ok .err
      | .ok (some v) =>
        match b64Step n st v with
        | .error e => .error e
        | .ok none => .ok .err
        | .ok (some st') => b64Loop n src (i + 1) st'
termination_by src.size - i
decreasing_by all_goals (have := Buf.lt_of_get? h; omega)

/-- `for (; ch != '\0'; ch = (unsigned char)*src++) if (!isspace(ch)) break;` - index of the byte it stops at. -/
def skipSpaces (src : Buf) (q : Nat) : M Nat :=
  match h : src.get? q with
  | .error e => .error e
  | .ok ch => if ch != 0 && isspace ch then skipSpaces src (q + 1) else .ok q
termination_by src.size - q
decreasing_by have := Buf.lt_of_get? h; omega

/-- `for (; ch != '\0'; ch = (unsigned char)*src++) if (!isspace(ch)) return -1;` - `false` is `return -1`. -/
def onlySpaces (src : Buf) (q : Nat) : M Bool :=
  match h : src.get? q with
  | .error e => .error e
  | .ok ch => if ch == 0 then .ok true else if !isspace ch then .ok false else onlySpaces src (q + 1)
termination_by src.size - q
decreasing_by have := Buf.lt_of_get? h; omega

/-- The tail after the last pad character: only white space, and `target[tarindex]` must be zero. -/
def b64Tail (n : Nat) (st : B64) (src : Buf) (q : Nat) : M (Option (Nat × Buf)) :=
  match onlySpaces src q with
  | .error e => .error e
  | .ok false => .ok none
  | .ok true =>
    if st.tarindex < n then
      match st.target.get? st.tarindex with
      | .error e => .error e
      | .ok x => if x != 0 then .ok none else .ok (some (st.tarindex, st.target))
    else .ok (some (st.tarindex, st.target))

/-- `b64_pton(&src[i], target, n)` with a non-NULL target: `some (tarindex, target)`, `none` for `-1`. -/
def b64pton (src : Buf) (i : Nat) (target : Buf) (n : Nat) : M (Option (Nat × Buf)) :=
  match b64Loop n src i { state := 0, tarindex := 0, target := target } with
  | .error e => .error e
  | .ok .err => .ok none
  | .ok (.eos st) => if st.state != 0 then .ok none else .ok (some (st.tarindex, st.target))
  | .ok (.pad st q) =>
    match src.get? q with               -- ch = *src++: skip the pad, get next
    | .error e => .error e
    | .ok _ =>
      match st.state with
      | 0 => .ok none
      | 1 => .ok none
      | 2 =>
        match skipSpaces src q with
        | .error e => .error e
        | .ok q2 =>
          match src.get? q2 with
          | .error e => .error e
          | .ok c => if c != Gen.pad64 then .ok none else b64Tail n st src (q2 + 1)
      | _ => b64Tail n st src q

/-- `base64_decode(&s[i])`: `dec` (with `dec[n] = '\0'` written) and `n`; `none` for NULL. -/
def base64Decode (s : Buf) (i : Nat) : M (Option (Buf × Nat)) :=
  match strlen s i with
  | .error e => .error e
  | .ok len =>
    match b64pton s i (Buf.malloc (len + 1)) (len + 1) with
    | .error e => .error e
    | .ok none => .ok none
    | .ok (some (n, dec)) =>
      match dec.set n 0 with
      | .error e => .error e
      | .ok dec' => .ok (some (dec', n))

/-! ## quoted-printable -/

def htoa (c : UInt8) : Option UInt8 :=
  if 65 ≤ c && c ≤ 70 then some (10 + (c - 65))
  else if 48 ≤ c && c ≤ 57 then some (c - 48)
  else none

/-- `quoted_printable_decode_buffer(bf, &b[base], len, dospace)` from `i` on; `out` is the buffer contents. -/
def qpLoop (dospace : Bool) (b : Buf) (base len : Nat) (i : Nat) (out : Bytes) : M Bytes :=
  if i < len then
    match b.get? (base + i) with
    | .error e => .error e
    | .ok c =>
      if c == 95 && dospace then qpLoop dospace b base len (i + 1) (out ++ [32])
      else if c != 61 then qpLoop dospace b base len (i + 1) (out ++ [c])
      else if i + 1 == len then .ok (out ++ [c])
      else
        match b.get? (base + (i + 1)) with          -- i++; str[i]
        | .error e => .error e
        | .ok d =>
          if d == 10 then qpLoop dospace b base len (i + 2) out
          else if i + 2 == len then qpLoop dospace b base len (i + 1) (out ++ [61])
          else match htoa d with
            | none => qpLoop dospace b base len (i + 1) (out ++ [61])
            | some hi =>
              match b.get? (base + (i + 2)) with    -- str[i + 1], only when htoa(str[i]) succeeded
              | .error e => .error e
              | .ok l =>
                match htoa l with
                | none => qpLoop dospace b base len (i + 1) (out ++ [61])
                | some lo => qpLoop dospace b base len (i + 3) (out ++ [(hi <<< 4) ||| lo])
  else .ok out
termination_by len - i

/-- `quoted_printable_decode(&s[i])`: the buffer before the final `buffer_putc(bf, '\0')`. -/
def quotedPrintableDecode (s : Buf) (i : Nat) : M Bytes :=
  match strlen s i with
  | .error e => .error e
  | .ok len => qpLoop false s i len 0 []

/-! ## rfc2047_decode -/

theorem strchr_ge {b : Buf} {i j : Nat} {c : UInt8} (h : strchr b i c = .ok (some j)) : i ≤ j := by
  fun_induction strchr b i c with
  | case1 i e he => cases h
  | case2 i x hx hc => cases h; exact Nat.le_refl _
  | case3 i x hx hc h0 => cases h
  | case4 i x hx hc h0 ih => have := ih h; omega

theorem strstr_ge {b : Buf} {i j : Nat} {lit : Bytes} (h : strstr b i lit = .ok (some j)) : i ≤ j := by
  fun_induction strstr b i lit with
  | case1 i e he => cases h
  | case2 i c hc e he => cases h
  | case3 i c hc hs => cases h; exact Nat.le_refl _
  | case4 i c hc hs h0 => cases h
  | case5 i c hc hs h0 ih => have := ih h; omega

/-- `while (isspace((unsigned char)p[0])) p++;` -/
def skipIsspace (b : Buf) (p : Nat) : M Nat :=
  match h : b.get? p with
  | .error e => .error e
  | .ok c => if isspace c then skipIsspace b (p + 1) else .ok p
termination_by b.size - p
decreasing_by have := Buf.lt_of_get? h; omega

/-- One encoded word, `es` right after `"=?"`: the bytes to append and the index after `"?="`; `none` is `goto err`. -/
def rfc2047Word (s : Buf) (es : Nat) : M (Option (Bytes × Nat)) :=
  match strchr s es 63 with                       -- es = strchr(es, '?')
  | .error e => .error e
  | .ok none => .ok none
  | .ok (some q) =>
    match s.get? (q + 1) with                     -- es += 1; *es == '\0'
    | .error e => .error e
    | .ok enc =>
      if enc == 0 then .ok none
      else match s.get? (q + 2) with              -- es += 1; *es != '?'
        | .error e => .error e
        | .ok d =>
          if d != 63 then .ok none
          else match strstr s (q + 3) [63, 61] with   -- es += 1; ee = strstr(es, "?=")
            | .error e => .error e
            | .ok none => .ok none
            | .ok (some ee) =>
              let len := ee - (q + 3)
              match toupper enc with
              | 66 =>
                match strndup s (q + 3) len with
                | .error e => .error e
                | .ok src =>
                  match base64Decode src 0 with
                  | .error e => .error e
                  | .ok none => .ok none
                  | .ok (some (dst, _)) =>
                    match readCStr dst 0 [] with          -- buffer_printf(bf, "%s", dst)
                    | .error e => .error e
                    | .ok w => .ok (some (w, ee + 2))
              | 81 =>
                match qpLoop true s (q + 3) len 0 [] with
                | .error e => .error e
                | .ok w => .ok (some (w, ee + 2))
              | _ => .ok none

/-- Spaces between encoded words are ignored. -/
def rfc2047SkipSpace (s : Buf) (es : Nat) : M Nat :=
  match strstr s es [61, 63] with
  | .error e => .error e
  | .ok none => .ok es
  | .ok (some ee) =>
    match skipIsspace s es with
    | .error e => .error e
    | .ok p => if p == ee then .ok p else .ok es

theorem rfc2047Word_ge {s : Buf} {es rest : Nat} {w : Bytes} (h : rfc2047Word s es = .ok (some (w, rest))) :
    es + 5 ≤ rest := by
  unfold rfc2047Word at h
  split at h
  · cases h
  · cases h
  · rename_i q hq
    have h1 := strchr_ge hq
    split at h
    · cases h
    · split at h
      · cases h
      · split at h
        · cases h
        · split at h
          · cases h
          · split at h
            · cases h
            · cases h
            · rename_i ee hee
              have h2 := strstr_ge hee
              simp only at h
              split at h
              · split at h
                · cases h
                · split at h
                  · cases h
                  · cases h
                  · split at h
                    · cases h
                    · cases h; omega
              · split at h
                · cases h
                · cases h; omega
              · cases h

theorem skipIsspace_ge {b : Buf} {p r : Nat} (h : skipIsspace b p = .ok r) : p ≤ r := by
  fun_induction skipIsspace b p with
  | case1 p e he => cases h
  | case2 p c hc hs ih => have := ih h; omega
  | case3 p c hc hs => cases h; exact Nat.le_refl _

theorem rfc2047SkipSpace_ge {s : Buf} {es r : Nat} (h : rfc2047SkipSpace s es = .ok r) : es ≤ r := by
  unfold rfc2047SkipSpace at h
  split at h
  · cases h
  · cases h; exact Nat.le_refl _
  · split at h
    · cases h
    · rename_i p hp
      have := skipIsspace_ge hp
      split at h <;> cases h <;> omega

/-- The main loop of `rfc2047_decode`; `none` = `goto err`. -/
def rfc2047Loop (s : Buf) (es : Nat) (out : Bytes) : M (Option Bytes) :=
  match h : s.get? es with
  | .error e => .error e
  | .ok c =>
    if c == 0 then .ok (some out)
    else match startsWithLit s es [61, 63] with       -- strncmp(es, "=?", 2) == 0
      | .error e => .error e
      | .ok true =>
        match hw : rfc2047Word s (es + 2) with
        | .error e => .error e
        | .ok none => .ok none
        | .ok (some (w, rest)) =>
          match hs : rfc2047SkipSpace s rest with
          | .error e => .error e
          | .ok es' => rfc2047Loop s es' (out ++ w)
      | .ok false => rfc2047Loop s (es + 1) (out ++ [c])  -- buffer_putc(bf, *es++)
termination_by s.size - es
decreasing_by
  · have := Buf.lt_of_get? h
    have := rfc2047Word_ge hw
    have := rfc2047SkipSpace_ge hs
    omega
  · have := Buf.lt_of_get? h; omega

/-- `rfc2047_decode(&s[i])`: the buffer before the final NUL; on error `strdup(str)`. -/
def rfc2047Decode (s : Buf) (i : Nat) : M Bytes :=
  match strlen s i with                              -- buffer_alloc(strlen(str))
  | .error e => .error e
  | .ok _ =>
    match rfc2047Loop s i [] with
    | .error e => .error e
    | .ok (some out) => .ok out
    | .ok none => readCStr s i []                    -- strdup(str)

end Mdsort.L0
