import Mdsort.Model.World
import Mdsort.Model.Eval

/-!
# Scripts: the file-system code of mdsort as programs over `Call`

Transcription of maildir.c (`maildir_open/close/walk/move/unlink/write/genname/stdin`),
message.c (`message_parse` I/O, `message_write`, `message_get_fd`, `message_set_file`,
`writefd`), match.c (`matches_exec`), util.c (`exec`) and the loop of `main` (mdsort.c).
Same order of calls, same error handling, same cleanup.
-/

namespace Mdsort.Model
open Mdsort

/-- Pinned process environment (`struct environment`). -/
structure PEnv where
  now : Int
  pid : Nat
  host : Bytes
  random : Nat
  tmpdir : Bytes
  home : Bytes
  confpath : Bytes
  dryrun : Bool
  syntaxOnly : Bool
  stdinMode : Bool
  /-- GHOST (not part of `struct environment`): iterations granted to the model's `readdir` loops (`walk`,
  `closeStdin`) on top of their standard allowance.  The C loops are unbounded (`while ((ent = readdir(..)))`); a
  `Prog` is a well-founded tree, so the model's loops carry fuel.  Every theorem about `mainP` is quantified over the
  environment and therefore holds for EVERY value of this field; a run that ends with `MainSt.fuelOut = false` is the
  same for every larger value (`C04_fuel_irrelevant`). -/
  extraFuel : Nat := 0
deriving Repr

/-- `struct maildir`. -/
structure Maildir where
  root : Bytes
  path : Bytes
  dirH : Option Handle
  subdir : Subdir
  walk : Bool
  stdin : Bool
deriving Repr, DecidableEq

/-- The message being processed (`struct message` as far as I/O is concerned). -/
structure MsgSt where
  name : Bytes
  path : Bytes
  fd : Option Handle
  msg : Msg
  parts : List Msg
  flags : MFlags
  loc : Option (Bytes × Bytes)      -- ghost: directory and name the message's file really has now
  content : Bytes                   -- ghost: what that file contains
deriving Repr

def subdirName : Subdir → Bytes
  | .new => [110, 101, 119]
  | .cur => [99, 117, 114]

def decimal (n : Nat) : Bytes := (toString n).toUTF8.toList
def decimalInt (n : Int) : Bytes := (toString n).toUTF8.toList

def isOk : Res → Bool
  | .err _ => false
  | _ => true

def resHandle : Res → Option Handle
  | .ok v => some v
  | _ => none

/-! ## maildir.c -/

/-- `count` is an `unsigned int` in `maildir_genname`: `count++` wraps at `2 ^ 32`, `%u` prints the wrapped value. -/
def gennameWrap : Nat := 2 ^ Gen.gennameCountBits

/-- `maildir_genname`: the descriptor of the newly created file and its name.  The C loop is `for (;;)`: it
ends with a name that does not fit (ENAMETOOLONG), with an error other than EEXIST, or with success - there
is no retry bound.  `fuel` bounds the retries on EEXIST in the model; `count` is the number of increments
so far, the counter of the C code is `count % gennameWrap` (what `%u` prints). -/
def genname (env : PEnv) (md : Maildir) (flags : Option Bytes) : Nat → Nat → Prog (Option (Handle × Bytes))
  | 0, _ => pure none
  | fuel + 1, count =>
    let count := count + 1
    let name := decimalInt env.now ++ [46] ++ decimal env.pid ++ [95] ++ decimal (count % gennameWrap) ++ [46] ++ env.host ++ flags.getD []
    if name.length ≥ NAME_MAX1 then pure none
    else
      match md.dirH with
      | none => pure none
      | some d => do
        let r ← call (.openExcl d name)
        match r with
        | .ok h => pure (some (h, name))
        | .err e => if e == "EEXIST" then genname env md flags fuel count else pure none
        | _ => pure none

/-- The number of attempts the model makes: the bound of the C loop if it has one (`Gen.gennameLoopBound`,
regenerated from maildir.c; `none` = `for (;;)`), else one full cycle of the 32-bit counter - after
`gennameWrap` consecutive EEXIST answers every name the loop can ever produce has been tried once, and the
C code goes on trying the same names again (it never gives up by itself). -/
def gennameAttempts : Nat := Gen.gennameLoopBound.getD gennameWrap

def gennameStart (env : PEnv) (md : Maildir) (flags : Option Bytes) : Prog (Option (Handle × Bytes)) :=
  genname env md flags gennameAttempts (env.random % Gen.gennameModulus)

/-- `maildir_opendir`. -/
def maildirOpendir (md : Maildir) (path : Bytes) : Prog (Maildir × Bool) := do
  match md.dirH with
  | some d => let _ ← call (.closedir d)
  | none => pure ()
  let r ← call (.opendir path)
  match r with
  | .ok h => pure ({ md with dirH := some h }, false)
  | _ => pure ({ md with dirH := none }, true)

/-- `maildir_close` for a non-stdin maildir. -/
def maildirClose (md : Maildir) : Prog Unit :=
  match md.dirH with
  | some d => do let _ ← call (.closedir d); pure ()
  | none => pure ()

/-- `maildir_open(path, 0, env)`: destination of a move/flag/flags action. `none` = NULL.
(`maildir_set_path` exits the process when the joined path does not fit: `none` as well,
flagged separately by the caller through `setPathFits`.) -/
def maildirOpenDst (path : Bytes) : Prog (Option Maildir) :=
  match parseSubdir path with
  | none => pure none
  | some sd =>
    match pathslice path PATH_MAX 0 (-1) with
    | none => pure none
    | some root =>
      match pathjoin PATH_MAX root (subdirName sd) with
      | none => pure none
      | some p => do
        let (md, failed) ← maildirOpendir { root := root, path := p, dirH := none, subdir := sd, walk := false, stdin := false } p
        if failed then pure none else pure (some md)

/-- `maildir_unlink`. -/
def maildirUnlink (md : Maildir) (name : Bytes) : Prog Bool :=
  match md.dirH with
  | none => pure true
  | some d => do
    let r ← call (.unlinkat d name)
    pure (!isOk r)

/-! ## message.c -/

/-- `message_write(msg, fd)`: returns the error flag. The header table order is restored. -/
def messageWriteP (m : Msg) (fd : Handle) : Prog Bool := do
  let r ← call (.dupfd fd)
  match r with
  | .ok newfd =>
    let r2 ← call (.fdopen newfd)
    if !isOk r2 then
      let _ ← call (.close newfd)
      pure true
    else
      let byId := sortById m.headers
      let rec hdrs (hs : List Hdr) : Prog Bool :=
        match hs with
        | [] => pure false
        | h :: rest => do
          let line := h.key ++ [58, 32] ++ h.val ++ [10]
          let r ← call (.fprintf newfd line)
          if isOk r then hdrs rest else pure true
      let herr ← hdrs byId
      let err1 ← (if herr then pure true else do
        let r ← call (.fprintf newfd ([10] ++ m.body))
        if !isOk r then pure true
        else
          let r ← call (.fflush newfd)
          if !isOk r then pure true
          else
            let r ← call (.fsync newfd)
            pure (!isOk r))
      let r3 ← call (.fclose newfd)
      pure (err1 || !isOk r3)
  | _ => pure true

/-- `message_set_file(msg, path, name, fd)`. -/
def messageSetFile (ms : MsgSt) (dir name : Bytes) (fd : Option Handle) : Prog (MsgSt × Bool) :=
  match pathjoin PATH_MAX dir name with
  | none => pure (ms, true)
  | some p =>
    match strlcpyFits NAME_MAX1 name with
    | none => pure ({ ms with path := p }, true)
    | some n =>
      match fd with
      | some h => do
        match ms.fd with
        | some old => let _ ← call (.close old)
        | none => pure ()
        pure ({ ms with path := p, name := n, fd := some h }, false)
      | none => pure ({ ms with path := p, name := n }, false)

/-- The message's own flag set after a move between subdirectories: `S` gained new -> cur, lost cur -> new
(`maildir_move` after a successful move, /repo commit 7589fcb). -/
def adjustSeen (src dst : Subdir) (mf : MFlags) : MFlags :=
  match src, dst with
  | .new, .cur => (flagsSet mf 83).getD mf
  | .cur, .new => (flagsClr mf 83).getD mf
  | _, _ => mf

/-- The end of a successful `maildir_move`: `message_set_file(msg, dst->md_path, dstname, -1)` and, if that succeeded, the
seen-flag transition applied to the flags of the message itself (so that a later rewrite names the file correctly). -/
def messageSetFileMoved (ms : MsgSt) (src dst : Subdir) (dir name : Bytes) : Prog (MsgSt × Bool) :=
  match pathjoin PATH_MAX dir name with
  | none => pure (ms, true)
  | some p =>
    match strlcpyFits NAME_MAX1 name with
    | none => pure ({ ms with path := p }, true)
    | some n => pure ({ ms with path := p, name := n, flags := adjustSeen src dst ms.flags }, false)

/-- `sb.st_mtim` of a successful `fstatat`. -/
def statMtime : Res → Option Nat
  | .ok v => some v
  | _ => none

/-- `maildir_move(src, dst, msg, env)`. -/
def maildirMove (env : PEnv) (src dst : Maildir) (ms : MsgSt) : Prog (MsgSt × Bool) := do
  if src.stdin && src.root == dst.root then pure (ms, true)
  else
    match src.dirH, dst.dirH with
    | some sh, some dh =>
      -- `times[1] = sb.st_mtim; doutime = 1` when fstatat succeeds
      let mt ← (if !src.stdin then do
          let r ← call (.fstatat sh ms.name)
          pure (statMtime r)
        else pure none)
      let doutime := mt.isSome
      match msgflags src.subdir dst.subdir ms.flags with
      | none => pure (ms, true)
      | some fl =>
        let g ← gennameStart env dst (some fl)
        match g with
        | none => pure (ms, true)
        | some (fd, dstname) =>
          let r ← call (.renameat sh ms.name dh dstname)
          let (err1, ms) ← (match r with
            | .err e =>
              if e == "EXDEV" then do
                let we ← messageWriteP ms.msg fd
                if we then pure (true, ms)
                else do
                  let ue ← maildirUnlink src ms.name
                  pure (ue, if ue then ms else { ms with loc := some (dst.path, dstname), content := (messageWrite ms.msg).1 })
              else pure (true, ms)
            | _ => pure (false, { ms with loc := some (dst.path, dstname) }))
          if err1 then
            let _ ← maildirUnlink dst dstname
            pure ()
          let _ ← call (.close fd)
          let err2 ← (if !err1 && doutime then do
              let r ← call (.utimensat dh dstname none mt)      -- times[0] = UTIME_OMIT, times[1] = source mtime
              pure (!isOk r)
            else pure err1)
          if err2 then pure (ms, true)
          else messageSetFileMoved ms src.subdir dst.subdir dst.path dstname
    | _, _ => pure (ms, true)

/-- `maildir_write(md, msg, env)`. -/
def maildirWrite (env : PEnv) (md : Maildir) (ms : MsgSt) : Prog (MsgSt × Bool) := do
  match msgflags md.subdir md.subdir ms.flags with
  | none => pure (ms, true)
  | some fl =>
    let g ← gennameStart env md (some fl)
    match g with
    | none => pure (ms, true)
    | some (fd, name) =>
      let we ← messageWriteP ms.msg fd
      let _ ← call (.close fd)
      let err ← (if we then pure true else maildirUnlink md ms.name)
      if err then
        let _ ← maildirUnlink md name
        pure (ms, true)
      else
        let ms := { ms with loc := some (md.path, name), content := (messageWrite ms.msg).1 }
        match md.dirH with
        | none => pure (ms, true)
        | some d =>
          let r ← call (.openRd d name)
          match r with
          | .ok rdfd =>
            let (ms', e) ← messageSetFile ms md.path name (some rdfd)
            if e then
              let _ ← call (.close rdfd)
              pure (ms', true)
            else pure (ms', false)
          | _ => pure (ms, true)

/-- `writefd(dir)`. -/
def writefd (tmpdir : Bytes) : Prog (Option Handle) :=
  match pathjoin PATH_MAX tmpdir (ofString "mdsort-XXXXXXXX") with
  | none => pure none
  | some tmpl => do
    let r ← call (.mkostemp tmpl)
    match r with
    | .ok fd =>
      let r2 ← call (.unlink tmpl)      -- the created path; the trace canonicaliser maps it to the template
      if isOk r2 then pure (some fd)
      else
        let _ ← call (.close fd)
        pure none
    | _ => pure none

/-- The `write` loop of `message_get_fd`. -/
def writeAll (fd : Handle) : Nat → Bytes → Prog Bool
  | 0, _ => pure true
  | fuel + 1, data =>
    if data.isEmpty then pure false
    else do
      let r ← call (.write fd data)
      match r with
      | .ok n => if n == 0 then pure true else writeAll fd fuel (data.drop n)
      | _ => pure true

/-- `message_get_fd(msg, env, dobody)` for the message (`part = none`) or an attachment. -/
def messageGetFd (env : PEnv) (ms : MsgSt) (part : Option Msg) (dobody : Bool) : Prog (Option Handle) := do
  let target := part.getD ms.msg
  let fdo ← (if dobody then
      match getBody target with
      | none => pure none
      | some body => do
        let f ← writefd env.tmpdir
        match f with
        | none => pure none
        | some fd =>
          let e ← writeAll fd (body.length + 1) (cstr body)
          if e then
            let _ ← call (.close fd)
            pure none
          else pure (some fd)
    else if part.isSome then do
      let f ← writefd env.tmpdir
      match f with
      | none => pure none
      | some fd =>
        let e ← messageWriteP target fd
        if e then
          let _ ← call (.close fd)
          pure none
        else pure (some fd)
    else
      match ms.fd with
      | none => pure none
      | some mfd => do
        let r ← call (.dupfd mfd)
        pure (resHandle r))
  match fdo with
  | none => pure none
  | some fd =>
    let r ← call (.lseek fd)
    if isOk r then pure (some fd)
    else
      let _ ← call (.close fd)
      pure none

/-! ## util.c -/

/-! ### `<sys/wait.h>` on the raw wait status (glibc `bits/waitstatus.h`), and `exec()`'s mapping of it -/

/-- `WIFEXITED(status)`: `(status & 0x7f) == 0`. -/
def wifexited (status : Nat) : Bool := status % 128 == 0
/-- `WEXITSTATUS(status)`: `(status & 0xff00) >> 8`. -/
def wexitstatus (status : Nat) : Nat := (status / 256) % 256
/-- `WIFSIGNALED(status)`: `((signed char)((status & 0x7f) + 1) >> 1) > 0`, i.e. the low seven bits are neither 0
(exited) nor 0x7f (stopped). -/
def wifsignaled (status : Nat) : Bool := status % 128 != 0 && status % 128 != 127
/-- `WTERMSIG(status)`: `status & 0x7f`. -/
def wtermsig (status : Nat) : Nat := status % 128

/-- The tail of `exec()` (util.c) after a successful `waitpid`:
```
int error = 1;
if (WIFEXITED(status)) { error = WEXITSTATUS(status); if (error == 127) error = -1; }
if (WIFSIGNALED(status)) error = 128 + WTERMSIG(status);
```
(a stopped child - not reported by `waitpid(pid, &status, 0)` - would leave the initial value 1). -/
def execStatus (status : Nat) : Int :=
  let error : Int := Gen.execInitialValue
  let error : Int :=
    if wifexited status then (if wexitstatus status == Gen.execFatalExit then Gen.execFatalValue else (wexitstatus status : Int)) else error
  if wifsignaled status then ((Gen.execSignalBase + wtermsig status : Nat) : Int) else error

/-- The child of `exec()`: `execvp(argv[0], argv); warn(...); _exit(127);` - whatever the reason `execvp` fails for
(ENOENT, EACCES, ENOTDIR, ENOEXEC, ...), the child exits with this status, which the parent maps to -1. -/
def execvpFailedStatus : Nat := Gen.execChildExit

/-- The variable `fdin` of `exec()` at the `fork`: the descriptor handed in, else the `/dev/null` the function has
just opened (`fdin = open("/dev/null", ...)`).  (`none, none` does not occur: without a descriptor handed in `exec()`
reaches the `fork` only after a successful `open`.) -/
def childStdin (fdin devnull : Option Handle) : Handle :=
  match fdin, devnull with
  | some fd, _ => fd
  | none, some h => h
  | none, none => 0

/-- `exec(argv, fdin)`: `> 0` exited non-zero / signalled, `0` success, `< 0` fatal.  The call `fork argv s` carries
what the child does between `fork` and `execvp`: `dup2(s, 0)` with `s` = the value of the variable `fdin` at that
point, then `execvp(argv[0], argv)` with the vector `exec()` was handed - the same vector, no shell in between. -/
def execP (argv : List Bytes) (fdin : Option Handle) : Prog Int := do
  let dn ← (match fdin with
    | some _ => pure (some none)
    | none => do
      let r ← call (.openPath (ofString "/dev/null"))
      match r with
      | .ok h => pure (some (some h))
      | _ => pure none)
  match dn with
  | none => pure (-1)
  | some devnull =>
    let r ← call (.fork argv (childStdin fdin devnull))
    let res ← (match r with
      | .ok _ => do
        let w ← call .waitpid
        match w with
        | .ok status => pure (execStatus status)      -- the raw wait status
        | _ => pure (-1 : Int)
      | _ => pure (-1 : Int))
    match devnull with
    | some h => let _ ← call (.close h)
    | none => pure ()
    pure res

/-- The value `exec()` derives from what `fork`/`waitpid` report: 0 for a clean exit, the exit
code for a non-zero exit other than 127, -1 for 127, 128 + signal for a signalled child, and -1
when /dev/null cannot be opened or `fork`/`waitpid` fail. -/
def execValue (devnullOk : Bool) (forkRes waitRes : Res) : Int :=
  if !devnullOk then -1
  else match forkRes with
    | .ok _ =>
      match waitRes with
      | .ok status => execStatus status
      | _ => -1
    | _ => -1

/-! ## match.c: matches_exec -/

structure ExecSt where
  src : Maildir
  chsrc : Bool
  ms : MsgSt
  reject : Bool
deriving Repr

/-- One iteration of the `TAILQ_FOREACH` of `matches_exec`; returns the error value. -/
def execOne (env : PEnv) (mh : Match) (st : ExecSt) : Prog (ExecSt × Bool) :=
  match mh.ty with
  | .move | .flag | .flags => do
    let d ← maildirOpenDst mh.path
    match d with
    | none => pure (st, true)
    | some dst =>
      let (ms', e) ← maildirMove env st.src dst st.ms
      if e then
        maildirClose dst
        pure ({ st with ms := ms' }, true)
      else if st.src.subdir != dst.subdir || st.src.root != dst.root then
        if st.chsrc then maildirClose st.src
        pure ({ st with src := dst, chsrc := true, ms := ms' }, false)
      else
        maildirClose dst
        pure ({ st with ms := ms' }, false)
  | .discard => do
    let e ← maildirUnlink st.src st.ms.name
    pure (if e then st else { st with ms := { st.ms with loc := none } }, e)
  | .label | .addHeader => do
    let (ms', e) ← maildirWrite env st.src st.ms
    pure ({ st with ms := ms' }, e)
  | .reject => pure ({ st with reject := true }, false)
  | .exec => do
    let part : Option Msg := if mh.part == 0 then none else st.ms.parts[mh.part - 1]?
    let fdr ← (if mh.execStdin then do
        let f ← messageGetFd env st.ms part mh.execBody
        pure (f.map some)
      else pure (some none))
    match fdr with
    | none => pure (st, true)
    | some fd =>
      let rc ← execP mh.argv fd
      match fd with
      | some h => let _ ← call (.close h)
      | none => pure ()
      pure (st, rc != 0)
  | _ => pure (st, false)

def matchesExec (env : PEnv) (ml : MatchList) (st : ExecSt) : Prog (ExecSt × Bool) :=
  match ml with
  | [] => do
    if st.chsrc then maildirClose st.src
    pure (st, false)
  | mh :: rest => do
    let (st', e) ← execOne env mh st
    if e then
      if st'.chsrc then maildirClose st'.src
      pure (st', true)
    else matchesExec env rest st'

end Mdsort.Model
