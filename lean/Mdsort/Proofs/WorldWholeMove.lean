import Mdsort.Proofs.WorldWholeBasic

/-!
# `maildir_move` under EVERY fault plan: frame and ghost location

The single-fault analysis (WorldSingleMove) without the budget: after every call every other entry
is as it was (`WholeK`); at the end the message is at the entry its ghost location names, complete,
and that entry is the source entry or was free before.
-/

namespace Mdsort.Proofs.World
set_option linter.unusedSimpArgs false
open Mdsort Mdsort.Model

/-- What `maildir_move` guarantees under every fault plan, on every path. -/
def WholeMovePost (H : Nat) (w : World) (src dst : Maildir) (ms : MsgSt) (r : MsgSt × Bool) (w' : World) : Prop :=
  WholeK (src.path, ms.name) H w w' ∧
  (∀ h, h < w.handles.length → w'.obj h = w.obj h) ∧
  ∃ nb, Located w' r.1 nb ∧ (nb = (src.path, ms.name) ∨ lk w nb = none) ∧
    r.1.msg = ms.msg ∧ r.1.fd = ms.fd ∧
    (r.1.content = ms.content ∨ r.1.content = (messageWrite ms.msg).1) ∧
    (r.2 = false → nb = (dst.path, r.1.name))

theorem WholeMovePost.unchanged {H : Nat} {w w' : World} {src dst : Maildir} {ms : MsgSt}
    (hL : Located w ms (src.path, ms.name)) (hH : H ≤ w.handles.length) (m : Mid w w' (lk w)) :
    WholeMovePost H w src dst ms (ms, true) w' :=
  ⟨WholeK.of_mid_same m hH, m.objs, _, hL.whole_of_mid m rfl, .inl rfl, rfl, rfl, .inl rfl, by intro h; cases h⟩

/-- The roll-back failed: the placeholder stays behind under its fresh name. -/
theorem WholeMovePost.stray {H N : Nat} {w w' : World} {src dst : Maildir} {ms : MsgSt} {b : Ent}
    (hL : Located w ms (src.path, ms.name)) (hH : H ≤ w.handles.length)
    (m : Mid w w' (fun x => if x = b then some N else lk w x)) (hb : lk w b = none) :
    WholeMovePost H w src dst ms (ms, true) w' := by
  have hne : (src.path, ms.name) ≠ b := by
    rintro rfl
    obtain ⟨_, fid, hlk, _⟩ := hL
    rw [hb] at hlk; cases hlk
  exact ⟨WholeK.of_mid_new m hb hH, m.objs, _, hL.whole_of_mid m (by simp only [hne, if_false]), .inl rfl, rfl, rfl, .inl rfl,
    by intro h; cases h⟩

/-- After the rename step (every fault plan): it failed and the placeholder is still there; or the
message is now at the new entry (the same file, or the complete copy). -/
def WholeMoveMid (w : World) (src dst : Maildir) (ms : MsgSt) (dstname : Bytes) (N : Nat)
    (x : Bool × MsgSt) (w3 : World) : Prop :=
  (x.1 = true ∧ x.2 = ms ∧ Mid w w3 (fun y => if y = (dst.path, dstname) then some N else lk w y)) ∨
  (x.1 = false ∧ ∃ fid', Mid w w3 (fun y => if y = (dst.path, dstname) then some fid' else
        if y = (src.path, ms.name) then none else lk w y) ∧
      fid' < w3.nextFid ∧ w3.file fid' = some ⟨x.2.content, x.2.content⟩ ∧
      x.2 = { ms with loc := some (dst.path, dstname), content := x.2.content } ∧
      (x.2.content = ms.content ∨ x.2.content = (messageWrite ms.msg).1))

theorem whole_moveCore {H : Nat} {w w2 : World} {src dst : Maildir} {ms : MsgSt} {sh dh fd : Handle} {dstname : Bytes} {fid0 N : Nat}
    (I : MoveIn w w2 src dst ms sh dh fd dstname fid0 N) (hH : H ≤ w.handles.length) :
    wp (fun w' => WholeK (src.path, ms.name) H w w') (moveCore1F src dst ms sh dh fd dstname)
      (WholeMoveMid w src dst ms dstname N) w2 := by
  have hps2 := I.mid.dirPath I.hps
  have hpd2 := I.mid.dirPath I.hpd
  have hne : (src.path, ms.name) ≠ (dst.path, dstname) := by
    intro h
    have h2 := I.free
    rw [← h, I.hlk] at h2
    cases h2
  have hl2 : w2.lookup src.path ms.name = some fid0 := by
    have := I.mid.look (src.path, ms.name)
    simp only [hne, if_false] at this
    rw [I.hlk] at this
    exact this
  have hdir2 : (w2.dir dst.path).isSome := by rw [I.mid.dirSome]; exact I.hdd
  unfold moveCore1F
  simp only [bind_eq, pure_eq, call_bind]
  intro ft
  rcases renameat_results ft w2 sh ms.name dh dstname with ⟨e, he⟩ | ⟨he, p1, p2, fidS, hp1, hp2, hlS⟩
  · -- the rename failed
    rw [he]
    have hcore := core_err w2 (.renameat sh ms.name dh dstname) e (by intro _ h; cases h) (by intro _ h; cases h) (by intro _ h; cases h)
    have m3 := I.mid.err (.renameat sh ms.name dh dstname) e (by intro _ h; cases h) (by intro _ h; cases h) (by intro _ h; cases h)
    have k3 : WholeK (src.path, ms.name) H w _ := WholeK.of_mid_new m3 I.free hH
    refine ⟨k3, ?_⟩
    dsimp only
    by_cases hx : (e == "EXDEV") = true
    · -- across devices: copy, then unlink the source
      simp only [hx, if_true]
      generalize hw3 : stepWorld w2 (.renameat sh ms.name dh dstname) (.err e) = w3 at m3 k3 ⊢
      have ho3 : w3.obj fd = .file N 0 true := by rw [← hw3, stepWorld_obj, hcore]; exact I.obj
      have hf3 : w3.file N = some ⟨[], []⟩ := by rw [← hw3, stepWorld_file, hcore]; exact I.file
      have hn3 : N < w3.nextFid := by rw [← hw3, stepWorld_nextFid, hcore]; exact I.nhi
      refine wp_bind_mono (whole_messageWriteP ms.msg fd k3 ho3 hf3 I.nlo) ?_
      rintro we w4 ⟨fr, f, hf4, hcont⟩
      have m4 := m3.frame fr (fun g hg => by subst hg; exact I.nlo)
      have hn4 : N < w4.nextFid := Nat.lt_of_lt_of_le hn3 fr.nextFid
      cases we with
      | true =>
        simp only [if_true]
        exact Or.inl ⟨rfl, rfl, m4⟩
      | false =>
        simp only [Bool.false_eq_true, if_false]
        unfold maildirUnlink
        simp only [I.hsh, bind_eq, pure_eq, call_bind, call_bind', ret_bind]
        have hps4 := m4.dirPath I.hps
        have hl4 : w4.lookup src.path ms.name = some fid0 := by
          have := m4.look (src.path, ms.name)
          simp only [hne, if_false] at this
          rw [I.hlk] at this
          exact this
        intro ft2
        rcases whole_unlinkat_results ft2 w4 sh ms.name with ⟨e', he'⟩ | ⟨he', -⟩
        · rw [he']
          have m5 := m4.err (.unlinkat sh ms.name) e' (by intro _ h; cases h) (by intro _ h; cases h) (by intro _ h; cases h)
          exact ⟨WholeK.of_mid_new m5 I.free hH, Or.inl ⟨rfl, rfl, m5⟩⟩
        · rw [he']
          have m5 := m4.unlink hps4 hl4 0
          have m5' : Mid w (stepWorld w4 (.unlinkat sh ms.name) (.ok 0))
              (fun y => if y = (dst.path, dstname) then some N else if y = (src.path, ms.name) then none else lk w y) := by
            refine m5.congr ?_
            intro x
            by_cases h : x = (dst.path, dstname)
            · subst h; simp [Ne.symm hne]
            · simp [h]
          obtain ⟨hdat, hdur⟩ := hcont rfl
          have hf5 := file_step hf4 hn4 (.unlinkat sh ms.name) (.ok 0) trivial
          refine ⟨WholeK.of_mid_moved m5' I.free hH, Or.inr ⟨rfl, N, m5', hf5.2, ?_, rfl, .inr rfl⟩⟩
          rw [hf5.1]
          obtain ⟨fd', fu'⟩ := f
          simp only [List.nil_append] at hdat hdur
          subst hdat
          subst hdur
          rfl
    · simp only [hx, Bool.false_eq_true, if_false]
      exact Or.inl ⟨rfl, rfl, m3⟩
  · -- renamed
    rw [he]
    have hp1' : p1 = src.path := by rw [hps2] at hp1; cases hp1; rfl
    have hp2' : p2 = dst.path := by rw [hpd2] at hp2; cases hp2; rfl
    subst hp1' hp2'
    have m3 := I.mid.rename hps2 hpd2 hl2 hdir2 0 (n2 := dstname)
    have m3' : Mid w (stepWorld w2 (.renameat sh ms.name dh dstname) (.ok 0))
        (fun y => if y = (dst.path, dstname) then some fid0 else if y = (src.path, ms.name) then none else lk w y) := by
      refine m3.congr ?_
      intro x
      by_cases h : x = (dst.path, dstname) <;> simp [h]
    exact ⟨WholeK.of_mid_moved m3' I.free hH,
      Or.inr ⟨rfl, fid0, m3', Nat.lt_of_lt_of_le I.hlt m3.nextFid, (m3.files fid0 I.hlt).trans I.hf, rfl, .inl rfl⟩⟩

theorem whole_moveRest {H : Nat} {w : World} {src dst : Maildir} {ms : MsgSt} {dh fd : Handle} {dstname : Bytes} {N : Nat}
    (hdh : dst.dirH = some dh) (hpd : w.dirPath dh = some dst.path)
    (hL : Located w ms (src.path, ms.name)) (hH : H ≤ w.handles.length)
    (free : lk w (dst.path, dstname) = none) (fdlo : w.handles.length ≤ fd) (mt : Option Nat)
    (x : Bool × MsgSt) (w3 : World) (h : WholeMoveMid w src dst ms dstname N x w3) :
    wp (fun w' => WholeK (src.path, ms.name) H w w') (moveRest1F src dst dh fd dstname mt x)
      (WholeMovePost H w src dst ms) w3 := by
  obtain ⟨err1, ms'⟩ := x
  rcases h with ⟨h1, h2, m3⟩ | ⟨h1, fid', m3, hlt', hf', hms', hcont⟩
  · -- roll back (the roll-back itself may fail)
    simp only at h1 h2
    subst h1 h2
    unfold moveRest1F maildirUnlink
    simp only [hdh, if_true, Bool.not_true, Bool.false_and, Bool.false_eq_true, if_false, bind_eq, pure_eq, call_bind,
      call_bind', ret_bind]
    have hpd3 := m3.dirPath hpd
    have hl3 : w3.lookup dst.path dstname = some N := by
      have := m3.look (dst.path, dstname)
      simp only [if_true] at this
      exact this
    intro ft
    rcases whole_unlinkat_results ft w3 dh dstname with ⟨e, he⟩ | ⟨he, -⟩
    · rw [he]
      have m4 := m3.err (.unlinkat dh dstname) e (by intro _ h; cases h) (by intro _ h; cases h) (by intro _ h; cases h)
      refine ⟨WholeK.of_mid_new m4 free hH, ?_⟩
      refine wp_call_any fun r2 => ?_
      have m5 := m4.step (.close fd) r2 rfl (by intro h hh; cases hh; exact fdlo) (fun _ _ => trivial)
      exact ⟨WholeK.of_mid_new m5 free hH, WholeMovePost.stray hL hH m5 free⟩
    · rw [he]
      have m4 : Mid w (stepWorld w3 (.unlinkat dh dstname) (.ok 0)) (lk w) := by
        refine (m3.unlink hpd3 hl3 0).congr ?_
        intro x
        by_cases h : x = (dst.path, dstname)
        · subst h; simp [free]
        · simp [h]
      refine ⟨WholeK.of_mid_same m4 hH, ?_⟩
      refine wp_call_any fun r2 => ?_
      have m5 := m4.step (.close fd) r2 rfl (by intro h hh; cases hh; exact fdlo) (fun _ _ => trivial)
      exact ⟨WholeK.of_mid_same m5 hH, WholeMovePost.unchanged hL hH m5⟩
  · -- moved
    simp only at h1 hlt' hf' hms' hcont
    subst h1
    unfold moveRest1F
    simp only [Bool.false_eq_true, if_false, Bool.not_false, Bool.true_and, bind_eq, pure_eq, call_bind, call_bind', ret_bind]
    refine wp_call_any fun r => ?_
    have m4 := m3.step (.close fd) r rfl (by intro h hh; cases hh; exact fdlo) (fun _ _ => trivial)
    have hf4 := file_step hf' hlt' (.close fd) r trivial
    refine ⟨WholeK.of_mid_moved m4 free hH, ?_⟩
    refine wp_bind_mono (R := fun _ w5 => Mid w w5 (fun y => if y = (dst.path, dstname) then some fid' else
        if y = (src.path, ms.name) then none else lk w y) ∧ w5.file fid' = some ⟨ms'.content, ms'.content⟩ ∧
        fid' < w5.nextFid) ?_ ?_
    · split
      · refine wp_call_any fun r2 => ?_
        have m5 := m4.step (.utimensat dh dstname none mt) r2 rfl (by intro _ h; cases h) (fun _ _ => trivial)
        exact ⟨WholeK.of_mid_moved m5 free hH, m5, file_step hf4.1 hf4.2 _ r2 trivial⟩
      · exact ⟨m4, hf4⟩
    · rintro err2 w5 ⟨m5, hf5, hlt5⟩
      have hlocp : ms'.loc = some (dst.path, dstname) := by rw [hms']
      have hmsg : ms'.msg = ms.msg := by rw [hms']
      have hfd : ms'.fd = ms.fd := by rw [hms']
      have post : ∀ (ms'' : MsgSt) (e : Bool), ms''.loc = ms'.loc → ms''.content = ms'.content → ms''.msg = ms'.msg →
          ms''.fd = ms'.fd → (e = false → ms''.name = dstname) → WholeMovePost H w src dst ms (ms'', e) w5 := by
        intro ms'' e h1 h2 h3 h4 h5
        refine ⟨WholeK.of_mid_moved m5 free hH, m5.objs, (dst.path, dstname), ⟨h1.trans hlocp, fid', ?_, hlt5, ?_⟩, .inr free,
          h3.trans hmsg, h4.trans hfd, by rw [h2]; exact hcont, ?_⟩
        · rw [m5.look]; simp
        · rw [h2]; exact hf5
        · intro he; rw [h5 he]
      split
      · exact post ms' true rfl rfl rfl rfl (by intro h; cases h)
      · unfold messageSetFileMoved
        split
        · exact post ms' true rfl rfl rfl rfl (by intro h; cases h)
        · split
          · exact post _ true rfl rfl rfl rfl (by intro h; cases h)
          · rename_i n hn
            exact post _ false rfl rfl rfl rfl (fun _ => strlcpyFits_eq hn)

/-- `maildir_move` under every fault plan. -/
theorem whole_maildirMove (env : PEnv) {H : Nat} {w : World} {src dst : Maildir} {ms : MsgSt} {sh dh : Handle}
    (hsh : src.dirH = some sh) (hdh : dst.dirH = some dh)
    (hps : w.dirPath sh = some src.path) (hpd : w.dirPath dh = some dst.path) (hdd : (w.dir dst.path).isSome)
    (hL : Located w ms (src.path, ms.name)) (hH : H ≤ w.handles.length) :
    wp (fun w' => WholeK (src.path, ms.name) H w w') (maildirMove env src dst ms) (WholeMovePost H w src dst ms) w := by
  by_cases hst : (src.stdin && src.root == dst.root) = true
  · unfold maildirMove
    simp only [hst, if_true, pure_eq]
    exact WholeMovePost.unchanged hL hH (Mid.refl w)
  · rw [maildirMove_split env src dst ms hsh hdh (by simpa using hst)]
    refine wp_bind_mono (R := fun _ w1 => Mid w w1 (lk w)) ?_ ?_
    · split
      · simp only [call_bind]
        refine wp_call_any fun r => ?_
        have m1 := (Mid.refl w).step (.fstatat sh ms.name) r rfl (by intro _ h; cases h) (fun _ _ => trivial)
        exact ⟨WholeK.of_mid_same m1 hH, m1⟩
      · exact Mid.refl w
    · intro mt w1 m1
      split
      · exact WholeMovePost.unchanged hL hH m1
      · rename_i fl _
        unfold gennameStart
        refine wp_bind_mono (whole_genname env dst (some fl) hdh hpd hdd hH gennameAttempts _ m1) ?_
        rintro g w2 ⟨hnone, hsome⟩
        cases g with
        | none => exact WholeMovePost.unchanged hL hH (hnone rfl)
        | some x =>
          obtain ⟨fd, dstname⟩ := x
          obtain ⟨N, hfree, m2, nlo, nhi, fdlo, _, ho, hfN⟩ := hsome fd dstname rfl
          dsimp only
          obtain ⟨hloc, fid0, hlk, hlt, hf⟩ := hL
          have I : MoveIn w w2 src dst ms sh dh fd dstname fid0 N :=
            ⟨hsh, hps, hpd, hdd, hlk, hlt, hf, hfree, m2, nlo, nhi, fdlo, ho, hfN⟩
          refine wp_bind_mono (whole_moveCore I hH) ?_
          intro x w3 h3
          exact whole_moveRest hdh hpd ⟨hloc, fid0, hlk, hlt, hf⟩ hH hfree fdlo mt x w3 h3

end Mdsort.Proofs.World
