import Mdsort.Model.Header
import Mdsort.Spec.Message

/-! `strcasecmp` is a total preorder; generic facts about the stable `List.mergeSort`. -/

set_option linter.unusedSimpArgs false

namespace Mdsort.Proofs
open Mdsort Mdsort.Model

/-! ## strcasecmp -/

theorem u8_tri (x y : UInt8) : x < y ∨ x = y ∨ y < x := by
  rcases Nat.lt_trichotomy x.toNat y.toNat with h | h | h
  · exact Or.inl (UInt8.lt_iff_toNat_lt.mpr h)
  · exact Or.inr (Or.inl (UInt8.toNat_inj.mp h))
  · exact Or.inr (Or.inr (UInt8.lt_iff_toNat_lt.mpr h))

theorem strcasecmp_cons (a b : UInt8) (as bs : Bytes) :
    strcasecmp (a :: as) (b :: bs) =
      if tolower a < tolower b then .lt else if tolower b < tolower a then .gt else strcasecmp as bs := by
  rw [strcasecmp]

theorem strcasecmp_swap (a b : Bytes) : strcasecmp b a = (strcasecmp a b).swap := by
  induction a generalizing b with
  | nil => cases b <;> simp [strcasecmp]
  | cons x xs ih =>
    cases b with
    | nil => simp [strcasecmp]
    | cons y ys =>
      simp only [strcasecmp_cons]
      rcases u8_tri (tolower x) (tolower y) with h | h | h
      · simp [h, UInt8.lt_asymm h]
      · simp [h, ih]
      · simp [h, UInt8.lt_asymm h]

theorem strcasecmp_refl (a : Bytes) : strcasecmp a a = .eq := by
  induction a with
  | nil => simp [strcasecmp]
  | cons x xs ih => simp [strcasecmp_cons, ih]

theorem strcasecmp_le_trans (a b c : Bytes) (h1 : strcasecmp a b ≠ .gt) (h2 : strcasecmp b c ≠ .gt) :
    strcasecmp a c ≠ .gt := by
  induction a generalizing b c with
  | nil => cases c <;> simp [strcasecmp]
  | cons x xs ih =>
    cases b with
    | nil => simp [strcasecmp] at h1
    | cons y ys =>
      cases c with
      | nil => simp [strcasecmp] at h2
      | cons z zs =>
        simp only [strcasecmp_cons] at h1 h2 ⊢
        rcases u8_tri (tolower x) (tolower y) with hxy | hxy | hxy
        · rcases u8_tri (tolower y) (tolower z) with hyz | hyz | hyz
          · simp [UInt8.lt_trans hxy hyz]
          · simp [← hyz, hxy]
          · simp [hyz, UInt8.lt_asymm hyz] at h2
        · rw [hxy] at h1 ⊢
          simp only [UInt8.lt_irrefl, if_false] at h1
          rcases u8_tri (tolower y) (tolower z) with hyz | hyz | hyz
          · simp [hyz]
          · rw [hyz] at h2 ⊢
            simp only [UInt8.lt_irrefl, if_false] at h2 ⊢
            exact ih ys zs h1 h2
          · simp [hyz, UInt8.lt_asymm hyz] at h2
        · simp [hxy, UInt8.lt_asymm hxy] at h1

theorem strcasecmp_eq_iff (a b : Bytes) : strcasecmp a b = .eq ↔ a.map tolower = b.map tolower := by
  induction a generalizing b with
  | nil => cases b <;> simp [strcasecmp]
  | cons x xs ih =>
    cases b with
    | nil => simp [strcasecmp]
    | cons y ys =>
      simp only [strcasecmp_cons, List.map_cons, List.cons.injEq]
      rcases u8_tri (tolower x) (tolower y) with h | h | h
      · have : tolower x ≠ tolower y := fun e => by rw [e] at h; exact UInt8.lt_irrefl _ h
        simp [h, this]
      · simp [h, ih]
      · have : tolower x ≠ tolower y := fun e => by rw [e] at h; exact UInt8.lt_irrefl _ h
        simp [h, UInt8.lt_asymm h, this]

theorem keyLe_trans (a b c : Hdr) (h1 : keyLe a b = true) (h2 : keyLe b c = true) : keyLe a c = true := by
  unfold keyLe at *
  simp only [bne_iff_ne, ne_eq] at *
  exact strcasecmp_le_trans _ _ _ h1 h2

theorem keyLe_total (a b : Hdr) : (keyLe a b || keyLe b a) = true := by
  unfold keyLe
  rw [strcasecmp_swap a.key b.key]
  cases strcasecmp a.key b.key <;> rfl

theorem idLe_trans (a b c : Hdr) (h1 : idLe a b = true) (h2 : idLe b c = true) : idLe a c = true := by
  unfold idLe at *
  simp only [decide_eq_true_eq] at *
  omega

theorem idLe_total (a b : Hdr) : (idLe a b || idLe b a) = true := by
  unfold idLe
  simp only [Bool.or_eq_true, decide_eq_true_eq]
  omega

/-- `key > x` and `y ≤ x` give `key > y`. -/
theorem strcasecmp_gt_of_gt_of_le (key x y : Bytes) (h1 : strcasecmp key x = .gt) (h2 : strcasecmp y x ≠ .gt) :
    strcasecmp key y = .gt := by
  apply Classical.byContradiction
  intro h
  exact strcasecmp_le_trans key y x h h2 h1

/-- `key < x` and `x ≤ y` give `key < y`. -/
theorem strcasecmp_lt_of_lt_of_le (key x y : Bytes) (h1 : strcasecmp key x = .lt) (h2 : strcasecmp x y ≠ .gt) :
    strcasecmp key y = .lt := by
  have e1 : strcasecmp x key = .gt := by rw [strcasecmp_swap key x, h1]; rfl
  have e2 : strcasecmp y key = .gt := by
    apply Classical.byContradiction
    intro h
    exact strcasecmp_le_trans x y key h2 h e1
  rw [strcasecmp_swap y key, e2]; rfl

/-! ## mergeSort -/

section SortLemmas
variable {α : Type} {le : α → α → Bool}

/-- Stability, as an equation: a class of mutually `le` elements keeps its order. -/
theorem filter_mergeSort_class
    (trans : ∀ (a b c : α), le a b → le b c → le a c)
    (total : ∀ (a b : α), le a b || le b a)
    (p : α → Bool) (hp : ∀ a b, p a = true → p b = true → le a b = true) (l : List α) :
    (l.mergeSort le).filter p = l.filter p := by
  have hsub : List.Sublist (l.filter p) (l.mergeSort le) := by
    apply List.sublist_mergeSort trans total _ List.filter_sublist
    apply List.pairwise_of_forall_mem_list
    intro a ha b hb
    exact hp a b (List.mem_filter.mp ha).2 (List.mem_filter.mp hb).2
  have h2 := hsub.filter p
  rw [List.filter_filter] at h2
  simp only [Bool.and_self] at h2
  have hlen : (l.filter p).length = ((l.mergeSort le).filter p).length :=
    ((List.mergeSort_perm l le).filter p).length_eq.symm
  exact (h2.eq_of_length hlen).symm

/-- Two sorted lists with the same elements in every equivalence class, in the same
order within the class, are equal. -/
theorem eq_of_sorted_of_class
    (total : ∀ (a b : α), le a b || le b a)
    (l1 l2 : List α) (h1 : l1.Pairwise (le · ·)) (h2 : l2.Pairwise (le · ·))
    (hc : ∀ x, l1.filter (fun y => le x y && le y x) = l2.filter (fun y => le x y && le y x)) :
    l1 = l2 := by
  have refl : ∀ a, le a a = true := fun a => by simpa using total a a
  induction l1 generalizing l2 with
  | nil =>
    cases l2 with
    | nil => rfl
    | cons b t2 =>
      have := hc b
      simp [refl] at this
  | cons a t1 ih =>
    cases l2 with
    | nil =>
      have := hc a
      simp [refl] at this
    | cons b t2 =>
      have ha : a ∈ b :: t2 := by
        have : a ∈ (a :: t1).filter (fun y => le a y && le y a) := by simp [refl]
        rw [hc a] at this
        exact (List.mem_filter.mp this).1
      have hb : b ∈ a :: t1 := by
        have : b ∈ (b :: t2).filter (fun y => le b y && le y b) := by simp [refl]
        rw [← hc b] at this
        exact (List.mem_filter.mp this).1
      have hba : le b a = true := by
        rcases List.mem_cons.mp ha with e | hm
        · rw [e]; exact refl b
        · exact List.rel_of_pairwise_cons h2 hm
      have hab : le a b = true := by
        rcases List.mem_cons.mp hb with e | hm
        · rw [e]; exact refl a
        · exact List.rel_of_pairwise_cons h1 hm
      have hcab := hc a
      simp only [List.filter_cons, refl, hab, hba, Bool.and_self, if_true, List.cons.injEq] at hcab
      have e : a = b := hcab.1
      subst e
      congr 1
      apply ih t2 h1.tail h2.tail
      intro x
      have hx := hc x
      simp only [List.filter_cons] at hx
      split at hx
      · exact (List.cons.inj hx).2
      · exact hx

/-- `mergeSort` commutes with a `filterMap` whose images compare like their sources. -/
theorem mergeSort_filterMap
    (trans : ∀ (a b c : α), le a b → le b c → le a c)
    (total : ∀ (a b : α), le a b || le b a)
    (f : α → Option α)
    (hf : ∀ a a', f a = some a' → ∀ y, le y a' = le y a ∧ le a' y = le a y)
    (l : List α) :
    (l.filterMap f).mergeSort le = (l.mergeSort le).filterMap f := by
  apply eq_of_sorted_of_class total
  · exact List.pairwise_mergeSort trans total _
  · apply List.Pairwise.filterMap f _ (List.pairwise_mergeSort trans total l)
    intro a b hab a' ha' b' hb'
    have e1 := (hf b b' hb' a').1
    have e2 := (hf a a' ha' b).2
    show le a' b' = true
    rw [e1, e2]; exact hab
  · intro x
    have hcls : ∀ a b, (le x a && le a x) = true → (le x b && le b x) = true → le a b = true := by
      intro a b ha hb
      simp only [Bool.and_eq_true] at ha hb
      exact trans _ _ _ ha.2 hb.1
    rw [filter_mergeSort_class trans total _ hcls]
    have hcomm : ∀ L : List α, (L.filterMap f).filter (fun y => le x y && le y x) =
        (L.filter (fun y => le x y && le y x)).filterMap f := by
      intro L
      induction L with
      | nil => rfl
      | cons a t ih =>
        cases hfa : f a with
        | none =>
          simp only [List.filterMap_cons, hfa, List.filter_cons]
          split
          · simp [List.filterMap_cons, hfa, ih]
          · exact ih
        | some a' =>
          have e := hf a a' hfa x
          simp only [List.filterMap_cons, hfa, List.filter_cons, e.1, e.2]
          split
          · simp [List.filterMap_cons, hfa, ih]
          · exact ih
    rw [hcomm, hcomm, filter_mergeSort_class trans total _ hcls]

theorem mergeSort_filter
    (trans : ∀ (a b c : α), le a b → le b c → le a c)
    (total : ∀ (a b : α), le a b || le b a)
    (p : α → Bool) (l : List α) :
    (l.filter p).mergeSort le = (l.mergeSort le).filter p := by
  have := mergeSort_filterMap trans total (Option.guard p)
    (by
      intro a a' h y
      rw [Option.guard_eq_some_iff] at h
      rw [h.1]; exact ⟨rfl, rfl⟩) l
  simpa [List.filterMap_eq_filter] using this

/-- A permutation sorted by a key with no repetitions is unique. -/
theorem eq_of_perm_of_strict (k : α → Nat) (l1 l2 : List α)
    (h1 : l1.Pairwise (fun a b => k a < k b)) (h2 : l2.Pairwise (fun a b => k a ≤ k b))
    (hp : l1.Perm l2) : l1 = l2 := by
  induction l1 generalizing l2 with
  | nil => exact hp.nil_eq
  | cons a t1 ih =>
    cases l2 with
    | nil => exact absurd hp.length_eq (by simp)
    | cons b t2 =>
      by_cases e : a = b
      · subst e
        congr 1
        exact ih t2 h1.tail h2.tail (List.perm_cons a |>.mp hp)
      · exfalso
        have ha : a ∈ b :: t2 := hp.subset List.mem_cons_self
        have hb : b ∈ a :: t1 := hp.symm.subset List.mem_cons_self
        have ha' : a ∈ t2 := by
          rcases List.mem_cons.mp ha with h | h
          · exact absurd h e
          · exact h
        have hb' : b ∈ t1 := by
          rcases List.mem_cons.mp hb with h | h
          · exact absurd h.symm e
          · exact h
        have := List.rel_of_pairwise_cons h1 hb'
        have := List.rel_of_pairwise_cons h2 ha'
        omega

end SortLemmas

end Mdsort.Proofs
