import Mdsort.Proofs.WorldFrameMain

/-!
# Dry run in stdin mode (`-d -`): every call is one of the spool's own calls (C05)

`DrySpoolCall env cm sa tr c` is the complete description of a call `c` issued when the trace so far is
`tr` by a run with `-d` and `-`: the configuration file, the spool (`mkdtemp`, `mkdir`, `opendir`,
exclusive create, `write`, `fsync`, `readdir`, `openat` for reading, `unlinkat`, `rmdir`, `closedir` -
all of them on the paths / handles / descriptors the run itself obtained from `mkdtemp` of the
template below TMPDIR), `read` and `close`; and the calls of the conditions that ask the operating system:
`open("/dev/null")`, `fork`, `waitpid` if the rules have a `command` condition (`cm`), `stat` if they have an
`isdirectory` or file-time `date` condition (`sa`).  Nothing else: no `renameat`, `unlink`, `utimensat`,
`mkostemp`, `fprintf`, no `opendir` of a configured maildir or a destination; no process for an ACTION.
The statement is proved for ARBITRARY results of the calls (`runOracle`), hence for every fault plan.
-/

namespace Mdsort.Proofs
open Mdsort Mdsort.Model

/-- `root` is a directory `mkdtemp` returned in `tr`. -/
def dry_IsRoot (tr : List (Call × Res)) (root : Bytes) : Prop := ∃ t, (Call.mkdtemp t, Res.name root) ∈ tr

/-- `p` is `root/new` for such a directory: the spool proper. -/
def dry_IsNew (tr : List (Call × Res)) (p : Bytes) : Prop :=
  ∃ root, dry_IsRoot tr root ∧ pathjoin PATH_MAX root (subdirName .new) = some p

/-- `d` is a directory stream a successful `opendir` of the spool returned in `tr`. -/
def dry_IsDir (tr : List (Call × Res)) (d : Handle) : Prop := ∃ p, dry_IsNew tr p ∧ (Call.opendir p, Res.ok d) ∈ tr

/-- `fd` is a descriptor a successful exclusive create in the spool returned in `tr`. -/
def dry_IsFd (tr : List (Call × Res)) (fd : Handle) : Prop :=
  ∃ d n, dry_IsDir tr d ∧ (Call.openExcl d n, Res.ok fd) ∈ tr

/-- What a call of a run with `-d -` can be, given the trace so far. -/
def DrySpoolCall (env : PEnv) (cm sa : Bool) (tr : List (Call × Res)) : Call → Prop
  | .openPath p => cm = true ∧ p = ofString "/dev/null"
  | .fork _ _ => cm = true
  | .waitpid => cm = true
  | .stat _ => sa = true
  | .fopen p => p = env.confpath
  | .fclose h => (Call.fopen env.confpath, Res.ok h) ∈ tr
  | .mkdtemp t => pathjoin PATH_MAX env.tmpdir (ofString "mdsort-XXXXXXXX") = some t
  | .mkdir p => dry_IsNew tr p
  | .opendir p => dry_IsNew tr p
  | .openExcl d _ => dry_IsDir tr d
  | .write fd _ => dry_IsFd tr fd
  | .fsync fd => dry_IsFd tr fd
  | .read _ => True
  | .close _ => True
  | .readdir d => dry_IsDir tr d
  | .rewinddir d => dry_IsDir tr d
  | .closedir d => dry_IsDir tr d
  | .openRd d _ => dry_IsDir tr d
  | .unlinkat d n => dry_IsDir tr d ∧ (Call.readdir d, Res.name n) ∈ tr
  | .rmdir p => p = [] ∨ dry_IsRoot tr p ∨ dry_IsNew tr p
  | _ => False

/-- The mutating calls among these, and a `fork` only for a `command` condition. -/
theorem DrySpoolCall.kinds {env : PEnv} {cm sa : Bool} {tr : List (Call × Res)} {c : Call} (h : DrySpoolCall env cm sa tr c) :
    (c.isFork = true → cm = true) ∧ (c.mutating = true →
      (∃ t, c = .mkdtemp t ∧ pathjoin PATH_MAX env.tmpdir (ofString "mdsort-XXXXXXXX") = some t) ∨
      (∃ p, c = .mkdir p ∧ dry_IsNew tr p) ∨
      (∃ d n, c = .openExcl d n ∧ dry_IsDir tr d) ∨
      (∃ fd data, c = .write fd data ∧ dry_IsFd tr fd) ∨
      (∃ d n, c = .unlinkat d n ∧ dry_IsDir tr d ∧ (Call.readdir d, Res.name n) ∈ tr) ∨
      (∃ p, c = .rmdir p ∧ (p = [] ∨ dry_IsRoot tr p ∨ dry_IsNew tr p))) := by
  cases c <;> first
    | exact h.elim
    | exact ⟨fun _ => h, fun hm => by cases hm⟩
    | (refine ⟨(fun e => by cases e), fun hm => ?_⟩; first
        | exact .inl ⟨_, rfl, h⟩
        | exact .inr (.inl ⟨_, rfl, h⟩)
        | exact .inr (.inr (.inl ⟨_, _, rfl, h⟩))
        | exact .inr (.inr (.inr (.inl ⟨_, _, rfl, h⟩)))
        | exact .inr (.inr (.inr (.inr (.inl ⟨_, _, rfl, h.1, h.2⟩))))
        | exact .inr (.inr (.inr (.inr (.inr ⟨_, rfl, h⟩))))
        | cases hm)

/-! ## monotonicity in the trace -/

theorem dry_IsRoot.mono {tr : List (Call × Res)} {root : Bytes} (h : dry_IsRoot tr root) (L : List (Call × Res)) : dry_IsRoot (tr ++ L) root := by
  obtain ⟨t, ht⟩ := h
  exact ⟨t, List.mem_append_left _ ht⟩

theorem dry_IsNew.mono {tr : List (Call × Res)} {p : Bytes} (h : dry_IsNew tr p) (L : List (Call × Res)) : dry_IsNew (tr ++ L) p := by
  obtain ⟨root, hr, hp⟩ := h
  exact ⟨root, hr.mono L, hp⟩

theorem dry_IsDir.mono {tr : List (Call × Res)} {d : Handle} (h : dry_IsDir tr d) (L : List (Call × Res)) : dry_IsDir (tr ++ L) d := by
  obtain ⟨p, hp, hm⟩ := h
  exact ⟨p, hp.mono L, List.mem_append_left _ hm⟩

theorem dry_IsFd.mono {tr : List (Call × Res)} {fd : Handle} (h : dry_IsFd tr fd) (L : List (Call × Res)) : dry_IsFd (tr ++ L) fd := by
  obtain ⟨d, n, hd, hm⟩ := h
  exact ⟨d, n, hd.mono L, List.mem_append_left _ hm⟩


end Mdsort.Proofs

namespace Mdsort.Proofs.Own
open Mdsort Mdsort.Model Mdsort.Proofs
open Mdsort.Proofs.World (bind_eq pure_eq ret_bind call_bind' call_bind bind_assoc Calls All)

variable {R : Call → Res → Prop} {cm sa : Bool}

theorem dry_mem_snoc (tr : Trace) (x : Call × Res) : x ∈ tr ++ [x] := by simp

/-- What is known about the maildir of a stdin session. -/
structure DryMd (tr : Trace) (md : Maildir) : Prop where
  stdin : md.stdin = true
  dir : ∀ d, md.dirH = some d → dry_IsDir tr d
  path : md.path = [] ∨ dry_IsNew tr md.path
  root : md.root = [] ∨ dry_IsRoot tr md.root

theorem DryMd.mono {tr : Trace} {md : Maildir} (h : DryMd tr md) (L : Trace) : DryMd (tr ++ L) md :=
  ⟨h.stdin, fun d hd => (h.dir d hd).mono L, h.path.imp id (fun x => x.mono L), h.root.imp id (fun x => x.mono L)⟩

/-- Calls of a fixed kind `C` that are allowed as long as a monotone fact `J` about the trace holds. -/
theorem dry_wp_calls {α} {I : Trace → Call → Prop} {C : Call → Prop} {J : Trace → Prop} {P : α → Prop}
    (hJ : ∀ tr x, J tr → J (tr ++ [x])) (hC : ∀ tr c, J tr → C c → I tr c) {p : Prog α}
    (hc : Calls C p) (ha : All P p) (tr : Trace) (hj : J tr) : wp R I p (fun a tr' => P a ∧ J tr') tr := by
  induction p generalizing tr with
  | ret a => exact ⟨ha, hj⟩
  | call c k ih => exact ⟨hC _ _ hj hc.1, fun r _ => ih r (hc.2 r) (ha r) _ (hJ _ _ hj)⟩

/-! ## the spool is made -/

theorem dry_genname (env envc : PEnv) (md : Maildir) (flags : Option Bytes) (fuel count : Nat) (tr : Trace)
    (hmd : ∀ d, md.dirH = some d → dry_IsDir tr d) :
    wp R (DrySpoolCall envc cm sa) (genname env md flags fuel count)
      (fun res tr' => ∀ h name, res = some (h, name) → dry_IsFd tr' h) tr := by
  induction fuel generalizing count tr with
  | zero => unfold genname; intro _ _ h; cases h
  | succ fuel ih =>
    unfold genname
    simp only [bind_eq, pure_eq, call_bind]
    generalize (decimalInt env.now ++ [46] ++ decimal env.pid ++ [95] ++ decimal ((count + 1) % gennameWrap) ++ [46] ++ env.host ++
          flags.getD []) = nm
    split
    · intro _ _ h; cases h
    split
    · intro _ _ h; cases h
    rename_i d hd
    refine wp_call (hmd d hd) fun r _ => ?_
    cases r with
    | ok h =>
      intro h' name e
      cases e
      exact ⟨d, nm, (hmd d hd).mono _, dry_mem_snoc _ _⟩
    | err e =>
      dsimp only
      split
      · exact ih _ _ (fun d' hd' => (hmd d' hd').mono _)
      · intro _ _ h; cases h
    | name n => intro _ _ h; cases h
    | eof => intro _ _ h; cases h

theorem dry_wr (env : PEnv) (fd : Handle) (fuel : Nat) (chunk : Bytes) (tr : Trace) (h : dry_IsFd tr fd) :
    wp R (DrySpoolCall env cm sa) (copyStdin.wr fd fuel chunk) (fun _ _ => True) tr := by
  induction fuel generalizing chunk tr with
  | zero => unfold copyStdin.wr; exact True.intro
  | succ fuel ih =>
    unfold copyStdin.wr
    simp only [bind_eq, pure_eq, call_bind]
    split
    · exact True.intro
    · refine wp_call h fun r _ => ?_
      cases r with
      | ok nw =>
        dsimp only
        split
        · exact True.intro
        · exact ih _ _ (h.mono _)
      | err e => exact True.intro
      | name n => exact True.intro
      | eof => exact True.intro

theorem dry_copyStdin (env : PEnv) (fd : Handle) (fuel : Nat) (input : Bytes) (tr : Trace) (h : dry_IsFd tr fd) :
    wp R (DrySpoolCall env cm sa) (copyStdin fd fuel input) (fun _ _ => True) tr := by
  induction fuel generalizing input tr with
  | zero => unfold copyStdin; exact True.intro
  | succ fuel ih =>
    unfold copyStdin
    simp only [bind_eq, pure_eq, call_bind]
    refine wp_call True.intro fun r _ => ?_
    cases r with
    | ok nr =>
      dsimp only
      split
      · exact True.intro
      · refine wp_bind_ext (dry_wr env fd _ _ _ (h.mono _)) ?_
        intro e L _
        split
        · exact True.intro
        · exact ih _ _ ((h.mono _).mono _)
    | err e => exact True.intro
    | name n => exact True.intro
    | eof => exact True.intro

theorem dry_md0 (tr : Trace) :
    DryMd tr { root := [], path := [], dirH := none, subdir := .new, walk := true, stdin := true } :=
  ⟨rfl, (fun _ h => by cases h), .inl rfl, .inl rfl⟩

theorem dry_maildirStdin (env : PEnv) (input : Bytes) (tr : Trace) :
    wp R (DrySpoolCall env cm sa) (maildirStdin env input) (fun r tr' => DryMd tr' r.1) tr := by
  unfold maildirStdin gennameStart maildirOpendir
  simp only [bind_eq, pure_eq, call_bind, call_bind', ret_bind]
  split
  · exact dry_md0 _
  rename_i tmpl htmpl
  refine wp_call htmpl fun r _ => ?_
  cases r with
  | name root =>
    dsimp only
    have hroot : dry_IsRoot (tr ++ [(Call.mkdtemp tmpl, Res.name root)]) root := ⟨tmpl, dry_mem_snoc _ _⟩
    generalize tr ++ [(Call.mkdtemp tmpl, Res.name root)] = tr1 at hroot ⊢
    split
    · exact ⟨rfl, (fun _ h => by cases h), .inl rfl, .inr hroot⟩
    rename_i p hp
    have hnew : dry_IsNew tr1 p := ⟨root, hroot, hp⟩
    refine wp_call hnew fun r2 _ => ?_
    have hmd1 : ∀ tr' (dh : Option Handle), (∀ d, dh = some d → dry_IsDir (tr1 ++ tr') d) →
        DryMd (tr1 ++ tr') { root := root, path := p, dirH := dh, subdir := .new, walk := true, stdin := true } :=
      fun tr' dh hdh => ⟨rfl, hdh, .inr (hnew.mono _), .inr (hroot.mono _)⟩
    split
    · exact hmd1 _ none (fun _ h => by cases h)
    · refine wp_call (hnew.mono _) fun r3 _ => ?_
      cases r3 with
      | ok h =>
        simp only [ret_bind, Bool.false_eq_true, if_false]
        have hdir : dry_IsDir (tr1 ++ [(Call.mkdir p, r2)] ++ [(Call.opendir p, Res.ok h)]) h :=
          ⟨p, (hnew.mono _).mono _, dry_mem_snoc _ _⟩
        refine wp_bind_ext (dry_genname env env _ none gennameAttempts _ _ ?_) ?_
        · intro d hd
          cases hd
          exact hdir
        intro g L hg
        have hmd2 := hmd1 ([(Call.mkdir p, r2)] ++ [(Call.opendir p, Res.ok h)] ++ L) (some h)
          (fun d hd => by cases hd; simpa [List.append_assoc] using hdir.mono L)
        cases g with
        | none => exact wp_ret (by simpa [List.append_assoc] using hmd2)
        | some x =>
          obtain ⟨fd, name⟩ := x
          dsimp only
          have hfd := hg fd name rfl
          refine wp_bind_ext (dry_copyStdin env fd _ input _ hfd) ?_
          intro e1 L2 _
          have fin : ∀ (tr' : Trace) (e2 : Bool),
              wp R (DrySpoolCall env cm sa) (Prog.call (Call.close fd) fun r3 =>
                Prog.ret (({ root := root, path := p, dirH := some h, subdir := .new, walk := true, stdin := true } : Maildir),
                  e2 || !isOk r3, some name)) (fun r tr' => DryMd tr' r.1)
                (tr1 ++ [(Call.mkdir p, r2)] ++ [(Call.opendir p, Res.ok h)] ++ L ++ L2 ++ tr') := by
            intro tr' e2
            refine wp_call True.intro fun r3 _ => ?_
            have := ((hmd2.mono L2).mono tr').mono [(Call.close fd, r3)]
            exact wp_ret (by simpa [List.append_assoc] using this)
          split
          · simpa using fin [] true
          · refine wp_call (hfd.mono _) fun r4 _ => ?_
            exact fin [(Call.fsync fd, r4)] _
      | err e =>
        simp only [ret_bind, if_true]
        exact wp_ret (by simpa [List.append_assoc] using hmd1 [(Call.mkdir p, r2), (Call.opendir p, Res.err e)] none (fun _ h => by cases h))
      | name n =>
        simp only [ret_bind, if_true]
        exact wp_ret (by simpa [List.append_assoc] using hmd1 [(Call.mkdir p, r2), (Call.opendir p, Res.name n)] none (fun _ h => by cases h))
      | eof =>
        simp only [ret_bind, if_true]
        exact wp_ret (by simpa [List.append_assoc] using hmd1 [(Call.mkdir p, r2), (Call.opendir p, Res.eof)] none (fun _ h => by cases h))
  | ok v => exact dry_md0 _
  | err e => exact dry_md0 _
  | eof => exact dry_md0 _

/-! ## the walk over the spool without execution -/

theorem dry_afterVerdict (env : PEnv) (md : Maildir) (name : Bytes) (st : MainSt) (ms : MsgSt) (v : Verdict)
    (hd : env.dryrun = true) :
    Calls IsClose (afterVerdict env md name st ms v) ∧ All (fun r => r.2 = md) (afterVerdict env md name st ms v) := by
  have hfree : ∀ (ms' : MsgSt) (r : MainSt × Maildir), r.2 = md →
      Calls IsClose ((freeP ms').bind fun _ => .ret r) ∧ All (fun x => x.2 = md) ((freeP ms').bind fun _ => .ret r) :=
    fun ms' r hr => ⟨World.Calls.bind (freeP_calls ms') fun _ => calls_ret _, World.All.bind_of_forall _ fun _ => hr⟩
  cases v with
  | act ml msgs fl =>
    simp only [afterVerdict, hd, if_true]
    exact hfree _ _ rfl
  | unparsable => exact hfree _ _ rfl
  | error => exact hfree _ _ rfl
  | interpFail => exact hfree _ _ rfl
  | «nomatch» => exact hfree _ _ rfl

theorem dry_processMessage_calls (env : PEnv) (orc : EvalOracles) (expr : Expr) (md : Maildir) (name : Bytes) (st : MainSt)
    (d : Handle) (hd : env.dryrun = true) (hdir : md.dirH = some d) :
    Calls (ParseEvalCall d expr) (processMessage env orc expr md name st) ∧
    All (fun r => r.2 = md) (processMessage env orc expr md name st) := by
  cases hf : st.files.get md.path name with
  | none =>
    rw [processMessage_unknown env orc expr md name st d hdir hf]
    exact ⟨calls_ret _, rfl⟩
  | some content =>
    rw [processMessage_eq env orc expr md name st d content hdir hf]
    have hK : ∀ pm, Calls (ParseEvalCall d expr) (afterParse env orc expr md name st pm) ∧
        All (fun r => r.2 = md) (afterParse env orc expr md name st pm) := by
      intro pm
      cases pm with
      | none => exact ⟨calls_ret _, rfl⟩
      | some ms =>
        refine ⟨World.Calls.bind (calls_mono (evalMs_calls env orc expr ms) fun c hc => .inr hc) fun ev =>
          calls_mono (dry_afterVerdict env md name st ms _ hd).1 fun c hc => .inl (.inr (.inr hc)),
          World.All.bind_of_forall _ fun ev => (dry_afterVerdict env md name st ms _ hd).2⟩
    refine ⟨?_, World.All.bind_of_forall _ fun pm => (hK pm).2⟩
    exact calls_bind_all (calls_mono (parse_messageParseP d md.path name content) fun c hc => .inl hc) (All.trivial _)
      fun pm _ => (hK pm).1

theorem dry_processMessage (env : PEnv) (orc : EvalOracles) (expr : Expr) (md : Maildir) (name : Bytes) (st : MainSt)
    (hd : env.dryrun = true) (hcm : hasCommand expr = true → cm = true)
    (hsa : (hasIsDir expr = true ∨ hasFileDate expr = true) → sa = true) (tr : Trace) (hmd : DryMd tr md) :
    wp R (DrySpoolCall env cm sa) (processMessage env orc expr md name st) (fun r tr' => r.2 = md) tr := by
  cases hdir : md.dirH with
  | none =>
    rw [processMessage_noDir env orc expr md name st hdir]
    exact rfl
  | some d =>
    obtain ⟨hc, ha⟩ := dry_processMessage_calls env orc expr md name st d hd hdir
    refine wp_mono (dry_wp_calls (J := fun tr => dry_IsDir tr d) (fun tr x h => dry_IsDir.mono h [x]) ?_ hc ha tr (hmd.dir d hdir))
      fun _ _ h => h.1
    intro tr' c hj hc'
    rcases hc' with (⟨nm, rfl⟩ | ⟨fd, rfl⟩ | ⟨fd, rfl⟩) | ⟨h1, rfl | hfk | rfl | ⟨h, rfl⟩⟩ | ⟨h1, p, rfl⟩
    · exact hj
    · exact True.intro
    · exact True.intro
    · exact ⟨hcm h1, rfl⟩
    · obtain ⟨_, _, rfl⟩ := Call.isFork_iff.1 hfk
      exact hcm h1
    · exact hcm h1
    · exact True.intro
    · exact hsa h1

theorem dry_walk (env : PEnv) (orc : EvalOracles) (expr : Expr) (hd : env.dryrun = true)
    (hcm : hasCommand expr = true → cm = true) (hsa : (hasIsDir expr = true ∨ hasFileDate expr = true) → sa = true)
    (fuel : Nat) (md : Maildir)
    (st : MainSt) (tr : Trace) (hmd : DryMd tr md) :
    wp R (DrySpoolCall env cm sa) (walk env orc expr fuel md st) (fun r tr' => DryMd tr' r.2) tr := by
  induction fuel generalizing md st tr with
  | zero => exact hmd
  | succ fuel ih =>
    rw [walk_succ]
    split
    · exact hmd
    rename_i d hdir
    refine wp_call (hmd.dir d hdir) fun r _ => ?_
    unfold walkK
    cases r with
    | name n =>
      dsimp only
      split
      · exact ih _ _ _ (hmd.mono _)
      · refine wp_bind_ext (dry_processMessage env orc expr md n st hd hcm hsa _ (hmd.mono _)) ?_
        intro x L hx
        rw [hx]
        exact ih _ _ _ ((hmd.mono _).mono _)
    | eof =>
      simp only [hmd.stdin, if_true]
      exact hmd.mono _
    | ok v => exact hmd.mono _
    | err e => exact hmd.mono _

/-! ## the spool is removed -/

theorem dry_closeLoop (env : PEnv) (d : Handle) (fuel : Nat) (tr : Trace) (hdir : dry_IsDir tr d) :
    wp R (DrySpoolCall env cm sa) (closeStdin.loop d fuel) (fun _ _ => True) tr := by
  induction fuel generalizing tr with
  | zero => unfold closeStdin.loop; exact True.intro
  | succ fuel ih =>
    unfold closeStdin.loop
    simp only [bind_eq, pure_eq, call_bind]
    refine wp_call hdir fun r _ => ?_
    cases r with
    | name n =>
      dsimp only
      split
      · exact ih _ (hdir.mono _)
      · refine wp_call ⟨hdir.mono _, dry_mem_snoc _ _⟩ fun r2 _ => ?_
        exact ih _ ((hdir.mono _).mono _)
    | ok v => exact True.intro
    | err e => exact True.intro
    | eof => exact True.intro

theorem dry_closeStdin (env : PEnv) (fuel : Nat) (md : Maildir) (tr : Trace) (hmd : DryMd tr md) :
    wp R (DrySpoolCall env cm sa) (closeStdin fuel md) (fun _ _ => True) tr := by
  have hpath : ∀ L, DrySpoolCall env cm sa (tr ++ L) (.rmdir md.path) :=
    fun L => hmd.path.imp id (fun h => .inr (dry_IsNew.mono h L))
  have hroot : ∀ L, DrySpoolCall env cm sa (tr ++ L) (.rmdir md.root) :=
    fun L => hmd.root.imp id (fun h => .inl (dry_IsRoot.mono h L))
  cases hdir : md.dirH with
  | none =>
    unfold closeStdin
    simp only [bind_eq, pure_eq, call_bind, hdir, ret_bind]
    refine wp_call (by simpa using hpath []) fun r1 _ => ?_
    refine wp_call (hroot _) fun r2 _ => ?_
    exact True.intro
  | some d =>
    have hd := hmd.dir d hdir
    unfold closeStdin
    simp only [bind_eq, pure_eq, call_bind, call_bind', hdir, ret_bind]
    refine wp_call hd fun r0 _ => ?_
    refine wp_bind_ext (dry_closeLoop env d fuel _ (hd.mono _)) ?_
    intro _ L _
    refine wp_call (by simpa [List.append_assoc] using hpath ([(Call.rewinddir d, r0)] ++ L)) fun r1 _ => ?_
    refine wp_call (by simpa [List.append_assoc] using hroot ([(Call.rewinddir d, r0)] ++ L ++ [(Call.rmdir md.path, r1)]))
      fun r2 _ => ?_
    refine wp_call (((hd.mono _).mono _).mono _ |>.mono _) fun r3 _ => ?_
    exact True.intro

/-! ## the whole run -/

theorem dry_paths (env : PEnv) (orc : EvalOracles) (input : Bytes) (b : ConfBlock) (hd : env.dryrun = true)
    (hm : env.stdinMode = true) (hcm : hasCommand b.expr = true → cm = true)
    (hsa : (hasIsDir b.expr = true ∨ hasFileDate b.expr = true) → sa = true) (ps : List Bytes) (st : MainSt) (tr : Trace) :
    wp R (DrySpoolCall env cm sa) (mainP.blocks.paths env orc input b ps st) (fun _ _ => True) tr := by
  induction ps generalizing st tr with
  | nil => rw [paths_nil]; exact True.intro
  | cons p more ih =>
    rw [paths_cons]
    split
    · exact ih _ _
    · rename_i hsk
      split
      · refine wp_bind_ext (dry_maildirStdin env input _) ?_
        intro x L hx
        split
        · refine wp_bind_ext (dry_closeStdin env _ x.1 _ hx) ?_
          intro _ L2 _
          exact ih _ _
        · refine wp_bind_ext (dry_walk env orc b.expr hd hcm hsa _ x.1 _ _ hx) ?_
          intro y L2 hy
          refine wp_bind_ext (dry_closeStdin env _ y.2 _ hy) ?_
          intro _ L3 _
          exact ih _ _
      · rename_i hs
        exact absurd (by simp [skipPath, hm, hs]) hsk

theorem dry_blocks (env : PEnv) (orc : EvalOracles) (input : Bytes) (hd : env.dryrun = true) (hm : env.stdinMode = true)
    (bs : List ConfBlock) (hcm : ∀ b ∈ bs, hasCommand b.expr = true → cm = true)
    (hsa : ∀ b ∈ bs, (hasIsDir b.expr = true ∨ hasFileDate b.expr = true) → sa = true) (st : MainSt) (tr : Trace) :
    wp R (DrySpoolCall env cm sa) (mainP.blocks env orc input bs st) (fun _ _ => True) tr := by
  induction bs generalizing st tr with
  | nil => rw [blocks_nil]; exact True.intro
  | cons b rest ih =>
    rw [blocks_cons]
    refine wp_bind_ext (dry_paths env orc input b hd hm (hcm b (List.mem_cons_self ..)) (hsa b (List.mem_cons_self ..)) _ _ _) ?_
    intro st' L _
    exact ih (fun b' hb' => hcm b' (List.mem_cons_of_mem _ hb')) (fun b' hb' => hsa b' (List.mem_cons_of_mem _ hb')) _ _

theorem dry_mainP (env : PEnv) (orc : EvalOracles) (ok : Bool) (conf : List ConfBlock) (files : Files) (input : Bytes)
    (hd : env.dryrun = true) (hm : env.stdinMode = true) :
    wp R (DrySpoolCall env (confHasCommand conf) (confHasStat conf)) (mainP env orc ok conf files input) (fun _ _ => True) [] := by
  rw [mainP_eq]
  refine wp_call rfl fun r _ => ?_
  cases r with
  | ok h =>
    dsimp only
    refine wp_call (dry_mem_snoc _ _) fun r2 _ => ?_
    unfold mainK
    split
    · exact True.intro
    · split
      · exact True.intro
      · refine wp_bind_ext (dry_blocks env orc input hd hm conf
            (fun b hb h => by simp only [confHasCommand, List.any_eq_true]; exact ⟨b, hb, h⟩)
            (fun b hb h => by
              simp only [confHasStat, List.any_eq_true, Bool.or_eq_true]; exact ⟨b, hb, h⟩) _ _) ?_
        intro stf L _
        exact True.intro
  | err e => exact True.intro
  | name n => exact True.intro
  | eof => exact True.intro

end Mdsort.Proofs.Own

namespace Mdsort.Proofs
open Mdsort Mdsort.Model

/-! ## every run under a fault plan is a run against some oracle of results -/

/-- The calls and results of `run plan p w i`. -/
def dry_planTrace {α} (plan : Plan) : Prog α → World → Nat → List (Call × Res)
  | .ret _, _, _ => []
  | .call c k, w, i =>
    (c, World.faultResult (plan i) w c) ::
      dry_planTrace plan (k (World.faultResult (plan i) w c)) (stepWorld w c (World.faultResult (plan i) w c)) (i + 1)

theorem dry_run_trace {α} (plan : Plan) (p : Prog α) (w : World) (i : Nat) :
    (World.run plan p w i).2.1.trace = w.trace ++ dry_planTrace plan p w i := by
  induction p generalizing w i with
  | ret a => simp [World.run, dry_planTrace]
  | call c k ih =>
    simp only [World.run, dry_planTrace]
    rw [ih, World.stepWorld_trace]
    simp

theorem dry_runO_of_plan {α} (plan : Plan) (p : Prog α) (w : World) (i : Nat) (orcl : Nat → Call → Res)
    (h : ∀ j x, (dry_planTrace plan p w i)[j]? = some x → ∀ c, orcl (i + j) c = x.2) :
    (Own.runO orcl p i).1 = (World.run plan p w i).1 ∧ (Own.runO orcl p i).2.1 = dry_planTrace plan p w i := by
  induction p generalizing w i with
  | ret a => exact ⟨rfl, rfl⟩
  | call c k ih =>
    have h0 : orcl i c = World.faultResult (plan i) w c := by
      have := h 0 (c, World.faultResult (plan i) w c) (by simp [dry_planTrace]) c
      simpa using this
    have := ih (World.faultResult (plan i) w c) (stepWorld w c (World.faultResult (plan i) w c)) (i + 1) (by
      intro j x hx c'
      have := h (j + 1) x (by simpa [dry_planTrace] using hx) c'
      rw [← this]
      congr 1
      omega)
    rw [Own.runO_call, h0]
    simp only [World.run, dry_planTrace]
    exact ⟨this.1, by rw [this.2]⟩

/-- The oracle that replays the results of the run under `plan`. -/
def dry_oracleOf {α} (plan : Plan) (p : Prog α) (w : World) : Nat → Call → Res :=
  fun j _ => (((dry_planTrace plan p w 0)[j]?).map (·.2)).getD (.ok 0)

/-- **Every run under a fault plan is a run against an oracle**: same value, same calls and results. -/
theorem dry_runPlan_as_oracle {α} (plan : Plan) (p : Prog α) (w : World) :
    (runOracle (dry_oracleOf plan p w) p 0 []).1 = (runPlan plan p w 0 []).1 ∧
    (runOracle (dry_oracleOf plan p w) p 0 []).2 = (runPlan plan p w 0 []).2.1.trace.drop w.trace.length := by
  have h := dry_runO_of_plan plan p w 0 (dry_oracleOf plan p w) (by
    intro j x hx c
    simp [dry_oracleOf, hx])
  rw [Own.runOracle_eq, World.runPlan_eq]
  simp only [List.nil_append]
  refine ⟨h.1, ?_⟩
  rw [dry_run_trace, List.drop_left]
  exact h.2

/-! ## the statements -/

/-- `-d -` against arbitrary call results: every call is one of the spool's own calls. -/
theorem dry_stdin_calls (env : PEnv) (orc : EvalOracles) (ok : Bool) (conf : List ConfBlock) (files : Files) (input : Bytes)
    (hd : env.dryrun = true) (hm : env.stdinMode = true) (orcl : Nat → Call → Res) :
    ∀ i c r, (runOracle orcl (mainP env orc ok conf files input) 0 []).2[i]? = some (c, r) →
      DrySpoolCall env (confHasCommand conf) (confHasStat conf)
        ((runOracle orcl (mainP env orc ok conf files input) 0 []).2.take i) c := by
  intro i c r hget
  exact (Own.wp_sound (R := fun _ _ => True) orcl (fun _ _ => True.intro)
    (Own.dry_mainP env orc ok conf files input hd hm) 0).2.2 i c r (Nat.zero_le _) hget

/-- The same for a run on the abstract file system under any fault plan. -/
theorem dry_stdin_calls_plan (env : PEnv) (orc : EvalOracles) (ok : Bool) (conf : List ConfBlock) (files : Files) (input : Bytes)
    (w : World) (plan : Plan) (hd : env.dryrun = true) (hm : env.stdinMode = true) :
    ∀ i c r, ((runPlan plan (mainP env orc ok conf files input) w 0 []).2.1.trace.drop w.trace.length)[i]? = some (c, r) →
      DrySpoolCall env (confHasCommand conf) (confHasStat conf)
        (((runPlan plan (mainP env orc ok conf files input) w 0 []).2.1.trace.drop w.trace.length).take i) c := by
  have h := dry_runPlan_as_oracle plan (mainP env orc ok conf files input) w
  rw [← h.2]
  exact dry_stdin_calls env orc ok conf files input hd hm _

end Mdsort.Proofs
