import Mdsort.Proofs.WorldStdinWalk

/-! The cleanup of the spool at the end of a stdin run: under every fault plan it leaves a message
stored outside the spool alone; without faults it removes everything `maildir_stdin` created. -/

namespace Mdsort.Proofs.World
open Mdsort Mdsort.Model

/-! ## `rmdir` never unbinds a bound name -/

theorem GoodAt.rmdir {w : World} {cs : List Bytes} {p n : Bytes} {fid : Nat} (hg : GoodAt w cs p n fid) (q : Bytes) (r : Res) :
    GoodAt (stepWorld w (.rmdir q) r) cs p n fid := by
  have same : core w (.rmdir q) r = w → GoodAt (stepWorld w (.rmdir q) r) cs p n fid := by
    intro h
    exact hg.sameFs (sameFs_of_core h)
  cases r with
  | ok v =>
    cases hq : w.dir q with
    | none => exact same (by simp [core, applyOk, hq])
    | some es =>
      cases es with
      | cons e es => exact same (by simp [core, applyOk, hq])
      | nil =>
        have hc : core w (.rmdir q) (.ok v) = { w with dirs := w.dirs.filter (·.1 != q) } := by
          simp [core, applyOk, hq]
        have hpq : p ≠ q := by
          intro e
          subst e
          have := hg.1
          simp [World.lookup, hq] at this
        obtain ⟨h1, h2, f, h3, h4, h5⟩ := hg
        refine ⟨?_, ?_, f, ?_, h4, h5⟩
        · rw [stepWorld_lookup, hc]
          unfold World.lookup
          rw [dir_filter_ne]
          simp only [hpq, if_false]
          exact h1
        · rw [stepWorld_nextFid, hc]; exact h2
        · rw [stepWorld_file, hc]; exact h3
  | err e => exact same (core_err w _ e (by intro _ h; cases h) (by intro _ h; cases h) (by intro _ h; cases h))
  | name x => exact same (by simp [core, applyOk])
  | eof => exact same (by simp [core, applyOk])

theorem obj_rewinddir_any (S : Spool) {w : World} {snap : Option (List Bytes)} {pos : Nat} (r : Res)
    (hobj : w.obj S.d = .dir S.sp snap pos) :
    ∃ snap' pos', (stepWorld w (.rewinddir S.d) r).obj S.d = .dir S.sp snap' pos' := by
  have hlt : S.d < w.handles.length := lt_of_obj_ne_closed w S.d (by simp [hobj])
  rw [stepWorld_obj]
  cases r with
  | ok v => exact ⟨none, 0, by simp [core, applyOk, hobj, obj_setObj, hlt]⟩
  | err e => exact ⟨_, _, by simpa [core, applyOk] using hobj⟩
  | name x => exact ⟨_, _, by simpa [core, applyOk] using hobj⟩
  | eof => exact ⟨_, _, by simpa [core, applyOk] using hobj⟩

/-- The removal loop leaves an entry outside the spool alone. -/
theorem closeLoop_keeps (S : Spool) {cs : List Bytes} {p n : Bytes} {fid : Nat} (hne : p ≠ S.sp) (fuel : Nat) {w : World}
    (hg : GoodAt w cs p n fid) (hd : ∃ snap pos, w.obj S.d = .dir S.sp snap pos) :
    wp (fun _ => True) (closeStdin.loop S.d fuel) (fun _ w' => GoodAt w' cs p n fid) w := by
  induction fuel generalizing w with
  | zero => exact hg
  | succ fuel ih =>
    obtain ⟨snap, pos, hobj⟩ := hd
    unfold closeStdin.loop
    simp only [bind_eq, pure_eq, call_bind]
    refine wp_call_any fun r => ⟨trivial, ?_⟩
    have hg1 := hg.step (.readdir S.d) r trivial trivial
    obtain ⟨snap1, pos1, hobj1⟩ := obj_readdir_any S r hobj
    generalize stepWorld w (.readdir S.d) r = w1 at hg1 hobj1 ⊢
    split
    · split
      · exact ih hg1 ⟨_, _, hobj1⟩
      · rename_i nm _
        refine wp_call_any fun r2 => ⟨trivial, ?_⟩
        have hlt : S.d < w1.handles.length := lt_of_obj_ne_closed w1 S.d (by simp [hobj1])
        refine ih (hg1.step (.unlinkat S.d nm) r2 ?_ trivial) ⟨snap1, pos1, ?_⟩
        · simp only [dirSafe, dirPath_of_obj hobj1, Option.some.injEq]
          rintro ⟨h, -⟩
          exact hne h.symm
        · rw [stepWorld_obj, core_obj w1 _ r2 S.d hlt (by simp [Call.subject])]
          exact hobj1
    · exact hg1

/-- `maildir_close` of the spool, under every fault plan, leaves an entry outside the spool alone. -/
theorem closeStdin_keeps (S : Spool) {cs : List Bytes} {p n : Bytes} {fid : Nat} (hne : p ≠ S.sp) (fuel : Nat) {w : World}
    (hg : GoodAt w cs p n fid) (hd : ∃ snap pos, w.obj S.d = .dir S.sp snap pos) :
    wp (fun _ => True) (closeStdin fuel (spoolMd S)) (fun _ w' => GoodAt w' cs p n fid) w := by
  obtain ⟨snap, pos, hobj⟩ := hd
  unfold closeStdin
  simp only [spoolMd, bind_eq, pure_eq, call_bind]
  refine wp_call_any fun r => ⟨trivial, ?_⟩
  have hg1 := hg.step (.rewinddir S.d) r trivial trivial
  have hd1 := obj_rewinddir_any S r hobj
  refine wp_bind_mono (closeLoop_keeps S hne fuel hg1 hd1) ?_
  intro _ w2 hg2
  refine wp_call_any fun r1 => ⟨trivial, ?_⟩
  have hg3 := hg2.rmdir S.sp r1
  refine wp_call_any fun r2 => ⟨trivial, ?_⟩
  have hg4 := hg3.rmdir S.sr r2
  refine wp_call_any fun r3 => ⟨trivial, ?_⟩
  exact hg4.step _ _ trivial trivial

/-! ## what the cleanup needs in order to remove everything -/

/-- The state in which `maildir_close` is entered, relative to the world `w0` before the spool was made. -/
def CleanPre (w0 w : World) (md : Maildir) : Prop :=
  (md.dirH = none ∧
    ∀ q, (w.dir q).isSome → (w0.dir q).isSome ∨ ((q = md.path ∨ q = md.root) ∧ w.dir q = some [])) ∨
  (∃ d es, md.dirH = some d ∧ md.root ≠ md.path ∧ w.dirPath d = some md.path ∧ w.dir md.path = some es ∧
    es.length ≤ 61 ∧ (∀ e ∈ es, (95 : UInt8) ∈ e.1) ∧ w.dir md.root = some [] ∧
    ∀ q, q ≠ md.path → q ≠ md.root → (w.dir q).isSome → (w0.dir q).isSome)

theorem closeStdin_clean {w0 w : World} {md : Maildir} (h : CleanPre w0 w md) (fuel : Nat) (hfuel : 64 ≤ fuel) :
    wpN (closeStdin fuel md) (fun fo w' => (∀ q, (w'.dir q).isSome → (w0.dir q).isSome) ∧ fo = false) w := by
  rcases h with ⟨hmd, hq⟩ | ⟨d, es, hmd, hne, hdp, hsp, hlen, hnm, hr, hq⟩
  · refine wpN_mono (spec_closeStdin_none fuel md hmd) ?_
    rintro _ w' ⟨hall, hp, hrt, hfo⟩
    refine ⟨?_, hfo⟩
    intro q hsome
    rcases hall q with h | h
    · rw [h] at hsome
      rcases hq q hsome with h0 | ⟨hpr, hemp⟩
      · exact h0
      · exfalso
        rcases hpr with rfl | rfl
        · rw [hp hemp] at h
          rw [← h] at hsome
          cases hsome
        · rw [hrt hemp] at h
          rw [← h] at hsome
          cases hsome
    · rw [h] at hsome; cases hsome
  · refine wpN_mono (spec_closeStdin_dir fuel md d hmd hne hdp hsp (by omega) hnm hr) ?_
    rintro _ w' ⟨h1, h2, h3, hfo⟩
    refine ⟨?_, hfo⟩
    intro q hsome
    by_cases hq1 : q = md.path
    · rw [hq1, h1] at hsome; cases hsome
    · by_cases hq2 : q = md.root
      · rw [hq2, h2] at hsome; cases hsome
      · rw [h3 q hq1 hq2] at hsome
        exact hq q hq1 hq2 hsome

end Mdsort.Proofs.World
