import Mdsort.Proofs.WorldSingleMove

/-! `maildir_write` (label, add-header) under at most one fault: the complete effect on the
directory entries, on every path. -/

namespace Mdsort.Proofs.World
set_option linter.unusedSimpArgs false
open Mdsort Mdsort.Model

theorem core_openRd_ok {w : World} {d : Handle} {n p : Bytes} {fid : Nat}
    (hp : w.dirPath d = some p) (hl : w.lookup p n = some fid) (v : Nat) :
    core w (.openRd d n) (.ok v) = (w.newHandle (.file fid 0 false)).1 := by
  simp [core, applyOk, hp, hl]

theorem maildirUnlink_some {md : Maildir} {d : Handle} (h : md.dirH = some d) (n : Bytes) :
    maildirUnlink md n = Prog.call (.unlinkat d n) fun r => Prog.ret (!isOk r) := by
  unfold maildirUnlink
  simp only [h, bind_eq, pure_eq, call_bind]

theorem lk_step (w : World) (c : Call) (r : Res) (hd : Call.dirOp c = false) (x : Ent) :
    lk (stepWorld w c r) x = lk w x := by
  have hdirs : (stepWorld w c r).dirs = w.dirs := by rw [stepWorld_dirs]; exact core_dirs w c r hd
  exact lookup_of_dirs hdirs x.1 x.2

/-- What `maildir_write` guarantees, under at most one fault, on every path. -/
def WritePost (w : World) (md : Maildir) (ms : MsgSt) (r : MsgSt × Bool) (w' : World) : Prop :=
  ∃ nb, Located w' r.1 nb ∧ Delta w w' (md.path, ms.name) nb ∧
    (∀ h, h < w.handles.length → ms.fd ≠ some h → w'.obj h = w.obj h) ∧
    r.1.msg = ms.msg ∧
    (r.1.content = ms.content ∨ r.1.content = (messageWrite ms.msg).1) ∧
    (r.2 = false → nb = (md.path, r.1.name) ∧ r.1.content = (messageWrite ms.msg).1 ∧
      ∃ rd, r.1.fd = some rd ∧ w.handles.length ≤ rd ∧ rd < w'.handles.length)

theorem WritePost.unchanged {w w' : World} {md : Maildir} {ms : MsgSt} {fid0 : Nat}
    (hlk : lk w (md.path, ms.name) = some fid0) (hlt : fid0 < w.nextFid)
    (hf : w.file fid0 = some ⟨ms.content, ms.content⟩) (hloc : ms.loc = some (md.path, ms.name))
    (m : Mid w w' (lk w)) : WritePost w md ms (ms, true) w' :=
  ⟨(md.path, ms.name), ⟨hloc, fid0, by rw [m.look]; exact hlk, Nat.lt_of_lt_of_le hlt m.nextFid, (m.files fid0 hlt).trans hf⟩,
    m.delta_same _, fun h hh _ => m.objs h hh, rfl, .inl rfl, by intro h; cases h⟩

/-- `maildir_write` under at most one fault. -/
theorem sf_maildirWrite (env : PEnv) {w : World} {md : Maildir} {ms : MsgSt} {sh : Handle} {fid0 : Nat}
    (hsh : md.dirH = some sh) (hps : w.dirPath sh = some md.path)
    (hlk : lk w (md.path, ms.name) = some fid0) (hlt : fid0 < w.nextFid)
    (hf : w.file fid0 = some ⟨ms.content, ms.content⟩) (hloc : ms.loc = some (md.path, ms.name)) (b : Bool) :
    wpS (maildirWrite env md ms) (fun _ => WritePost w md ms) b w := by
  have hdd : (w.dir md.path).isSome := dir_isSome_of_lookup hlk
  unfold maildirWrite gennameStart
  simp only [bind_eq, pure_eq, call_bind, maildirUnlink_some hsh, call_bind', ret_bind]
  split
  · exact WritePost.unchanged hlk hlt hf hloc (Mid.refl w)
  rename_i fl _
  refine wpS_bind_mono (wpS_of_wp b (frame_genname env md (some fl) hsh hps hdd gennameAttempts _ (Mid.refl w))) ?_
  rintro b1 g w2 ⟨hnone, hsome⟩
  cases g with
  | none => exact WritePost.unchanged hlk hlt hf hloc (hnone rfl)
  | some x =>
  obtain ⟨fd, name⟩ := x
  obtain ⟨N, hfree, m2, nlo, nhi, fdlo, _, ho, hfN⟩ := hsome fd name rfl
  dsimp only
  have hne : (md.path, ms.name) ≠ (md.path, name) := by
    intro h
    rw [← h, hlk] at hfree
    cases hfree
  -- message_write
  refine wpS_bind_mono (wpS_and (wpS_of_wp b1 (fr1_messageWriteP ms.msg fd ho hfN))
    ((clean_messageWriteP ms.msg fd).wpS b1 w2)) ?_
  rintro b2 we w3 ⟨⟨fr, f, hf3, hcont⟩, hclean⟩
  have m3 := m2.frame fr (fun g hg => by subst hg; exact nlo)
  have hn3 : N < w3.nextFid := Nat.lt_of_lt_of_le nhi fr.nextFid
  -- close
  refine wpS_call_any' fun rc b3 hb3 => ?_
  have m4 := m3.step (.close fd) rc rfl (by intro h hh; cases hh; exact fdlo) (fun _ _ => trivial)
  have hf4 := file_step hf3 hn3 (.close fd) rc trivial
  generalize hw4 : stepWorld w3 (.close fd) rc = w4 at m4 hf4 ⊢
  have hps4 := m4.dirPath hps
  have hla : w4.lookup md.path ms.name = some fid0 := by
    have := m4.look (md.path, ms.name)
    simp only [hne, if_false] at this
    rw [hlk] at this
    exact this
  -- the rollback, with the budget spent
  have rollback : ∀ w5, Mid w w5 (fun x => if x = (md.path, name) then some N else lk w x) →
      wpS (Prog.call (Call.unlinkat sh name) fun _ => Prog.ret (ms, true)) (fun _ => WritePost w md ms) false w5 := by
    intro w5 m5
    have hps5 := m5.dirPath hps
    have hl5 : w5.lookup md.path name = some N := by
      have := m5.look (md.path, name)
      simp only [if_true] at this
      exact this
    have hp : predict w5 (.unlinkat sh name) = .ok 0 := by simp [predict, hps5, hl5]
    refine wpS_call_spent ?_
    rw [hp]
    refine WritePost.unchanged hlk hlt hf hloc ((m5.unlink hps5 hl5 0).congr ?_)
    intro x
    by_cases h : x = (md.path, name)
    · subst h; simp [hfree]
    · simp [h]
  cases we with
  | true =>
    have hb2 : b2 = false := hclean rfl
    have hb3' : b3 = false := hb3 hb2
    subst hb3'
    simp only [if_true, ret_bind]
    exact rollback w4 m4
  | false =>
    simp only [Bool.false_eq_true, if_false, call_bind', ret_bind]
    refine wpS_call_res (by intro _ h; cases h) (by intro _ _ h; cases h) ?_
    intro r b4 hr
    have hp4 : predict w4 (.unlinkat sh ms.name) = .ok 0 := by simp [predict, hps4, hla]
    rw [hp4] at hr
    have hcases : r = .ok 0 ∨ ∃ e, r = .err e ∧ b4 = false := by
      rcases hr with ⟨hr, _⟩ | ⟨_, hb', hr | ⟨e, he⟩⟩
      · exact .inl hr
      · exact .inl hr
      · exact .inr ⟨e, he, hb'⟩
    rcases hcases with rfl | ⟨e, rfl, rfl⟩
    rotate_left
    · simp only [isOk, Bool.not_false, if_true]
      exact rollback _ (m4.err _ _ (by intro _ h; cases h) (by intro _ h; cases h) (by intro _ h; cases h))
    -- the old name is gone: the message is the new file
    simp only [isOk, Bool.not_true, Bool.false_eq_true, if_false, hsh]
    have m5 : Mid w (stepWorld w4 (.unlinkat sh ms.name) (.ok 0))
        (fun x => if x = (md.path, name) then some N else if x = (md.path, ms.name) then none else lk w x) := by
      refine (m4.unlink hps4 hla 0).congr ?_
      intro x
      by_cases h : x = (md.path, name)
      · subst h; simp [Ne.symm hne]
      · simp [h]
    have hf5 := file_step hf4.1 hf4.2 (.unlinkat sh ms.name) (.ok 0) trivial
    generalize hw5 : stepWorld w4 (.unlinkat sh ms.name) (.ok 0) = w5 at m5 hf5 ⊢
    obtain ⟨hdat, hdur⟩ := hcont rfl
    have hfile5 : w5.file N = some ⟨(messageWrite ms.msg).1, (messageWrite ms.msg).1⟩ := by
      rw [hf5.1]
      obtain ⟨fd', fu'⟩ := f
      simp only [List.nil_append] at hdat hdur
      subst hdat
      subst hdur
      rfl
    have hps5 := m5.dirPath hps
    have hl5 : w5.lookup md.path name = some N := by
      have := m5.look (md.path, name)
      simp only [if_true] at this
      exact this
    -- what has to be shown of any later world
    have post : ∀ (ms'' : MsgSt) (e : Bool) (w' : World),
        ms''.loc = some (md.path, name) → ms''.content = (messageWrite ms.msg).1 → ms''.msg = ms.msg →
        lk w' (md.path, name) = some N → N < w'.nextFid →
        w'.file N = some ⟨(messageWrite ms.msg).1, (messageWrite ms.msg).1⟩ →
        Delta w w' (md.path, ms.name) (md.path, name) →
        (∀ h, h < w.handles.length → ms.fd ≠ some h → w'.obj h = w.obj h) →
        (e = false → ms''.name = name ∧ ∃ rd, ms''.fd = some rd ∧ w.handles.length ≤ rd ∧ rd < w'.handles.length) →
        WritePost w md ms (ms'', e) w' := by
      intro ms'' e w' h1 h2 h3 h4 h5 h6 h7 h8 h9
      refine ⟨(md.path, name), ⟨h1, N, h4, h5, by rw [h2]; exact h6⟩, h7, h8, h3, .inr h2, ?_⟩
      intro he
      obtain ⟨hn, hrd⟩ := h9 he
      exact ⟨by rw [hn], h2, hrd⟩
    have postMid : ∀ (ms'' : MsgSt) (w' : World),
        ms''.loc = some (md.path, name) → ms''.content = (messageWrite ms.msg).1 → ms''.msg = ms.msg →
        Mid w w' (fun x => if x = (md.path, name) then some N else if x = (md.path, ms.name) then none else lk w x) →
        N < w'.nextFid → w'.file N = some ⟨(messageWrite ms.msg).1, (messageWrite ms.msg).1⟩ →
        WritePost w md ms (ms'', true) w' := by
      intro ms'' w' h1 h2 h3 m h5 h6
      refine post ms'' true w' h1 h2 h3 ?_ h5 h6 (m.delta_moved fun _ => hfree) (fun h hh _ => m.objs h hh)
        (by intro h; cases h)
      rw [m.look]; simp
    refine wpS_call_res (by intro _ h; cases h) (by intro _ _ h; cases h) ?_
    intro r b5 hr
    have hp5 : predict w5 (.openRd sh name) = .ok w5.handles.length := by simp [predict, hps5, hl5]
    rw [hp5] at hr
    have hcases : r = .ok w5.handles.length ∨ ∃ e, r = .err e := by
      rcases hr with ⟨hr, _⟩ | ⟨_, _, hr | ⟨e, he⟩⟩
      · exact .inl hr
      · exact .inl hr
      · exact .inr ⟨e, he⟩
    rcases hcases with rfl | ⟨e, rfl⟩
    rotate_left
    · -- the new file cannot be opened: an error, the message is in place
      have m6 := m5.err (.openRd sh name) e (by intro _ h; cases h) (by intro _ h; cases h) (by intro _ h; cases h)
      have hf6 := file_step hfile5 hf5.2 (.openRd sh name) (.err e) trivial
      exact postMid _ _ rfl rfl rfl m6 hf6.2 hf6.1
    have hc6 := core_openRd_ok hps5 hl5 w5.handles.length
    have m6 := m5.step (.openRd sh name) (.ok w5.handles.length) rfl (by intro _ h; cases h) (fun _ _ => trivial)
    have hf6 := file_step hfile5 hf5.2 (.openRd sh name) (.ok w5.handles.length) trivial
    have hlen6 : (stepWorld w5 (.openRd sh name) (.ok w5.handles.length)).handles.length = w5.handles.length + 1 := by
      rw [stepWorld_handles, hc6]; simp
    generalize hw6 : stepWorld w5 (.openRd sh name) (.ok w5.handles.length) = w6 at m6 hf6 hlen6 ⊢
    have hrdlo : w.handles.length ≤ w5.handles.length := m5.len
    -- closing the new descriptor after a failure of message_set_file
    have closeNew : ∀ (ms'' : MsgSt), ms''.loc = some (md.path, name) → ms''.content = (messageWrite ms.msg).1 →
        ms''.msg = ms.msg → ∀ b',
        wpS (Prog.call (Call.close w5.handles.length) fun _ => Prog.ret (ms'', true)) (fun _ => WritePost w md ms) b' w6 := by
      intro ms'' h1 h2 h3 b'
      refine wpS_call_any fun r7 b7 => ?_
      have m7 := m6.step (.close w5.handles.length) r7 rfl (by intro h hh; cases hh; exact hrdlo) (fun _ _ => trivial)
      have hf7 := file_step hf6.1 hf6.2 (.close w5.handles.length) r7 trivial
      exact postMid _ _ h1 h2 h3 m7 hf7.2 hf7.1
    dsimp only
    unfold messageSetFile
    split
    · simp only [bind_eq, pure_eq, ret_bind, if_true, call_bind]
      refine closeNew _ ?_ ?_ ?_ _ <;> rfl
    split
    · simp only [bind_eq, pure_eq, ret_bind, if_true, call_bind]
      refine closeNew _ ?_ ?_ ?_ _ <;> rfl
    rename_i n hn
    have hnn : n = name := strlcpyFits_eq hn
    simp only [bind_eq, pure_eq, call_bind]
    cases hfd : ms.fd with
    | none =>
      simp only [ret_bind, Bool.false_eq_true, if_false]
      refine post _ false w6 rfl rfl rfl ?_ hf6.2 hf6.1 (m6.delta_moved fun _ => hfree) (fun h hh _ => m6.objs h hh) ?_
      · rw [m6.look]; simp
      · intro _
        exact ⟨hnn, w5.handles.length, rfl, hrdlo, by rw [hlen6]; exact Nat.lt_succ_self _⟩
    | some old =>
      simp only [call_bind', ret_bind, Bool.false_eq_true, if_false]
      refine wpS_call_any fun r7 b7 => ?_
      have hf7 := file_step hf6.1 hf6.2 (.close old) r7 trivial
      have hlt7 : w5.handles.length < (stepWorld w6 (.close old) r7).handles.length := by
        have := core_len w6 (.close old) r7
        simp only [stepWorld_handles]
        omega
      refine post _ false _ rfl rfl rfl ?_ hf7.2 hf7.1
        ((m6.delta_moved fun _ => hfree).step (.close old) r7 rfl (fun _ _ => trivial)) ?_ ?_
      · rw [lk_step _ _ _ rfl, m6.look]; simp
      · intro h hh hne'
        rw [stepWorld_obj, core_obj w6 (.close old) r7 h (Nat.lt_of_lt_of_le hh m6.len), m6.objs h hh]
        simp only [Call.subject, ne_eq, Option.some.injEq]
        intro hc
        exact hne' (by rw [hfd, hc])
      · intro _
        exact ⟨hnn, w5.handles.length, rfl, hrdlo, hlt7⟩

end Mdsort.Proofs.World
