import Mdsort.Proofs.ConfBasic
import Mdsort.Proofs.LexLiteral

/-!
# `date_age` of the parser model on every literal (C15)

`parseDate` (Model/Conf.lean: `DATE date_field date_cmp date_age`) from the state in which the
comparison token is the lookahead and the lexer stands in front of `<digits> <unit>`: the rule is
accepted iff `N x unit` fits 32 bits, and the age in the tree is exactly `N x unit` - for every digit
string (any length, leading zeros) and every unit name or abbreviation.
-/

namespace Mdsort.Proofs.Conf
open Mdsort Mdsort.Model

def cmpTk : DateCmp → Tk
  | .lt => .lt
  | .gt => .gt

theorem wp_peek_have {Q : Tk → ParseSt → Prop} {E : ParseSt → Prop} {F : Prop} (cx : PCtx) (pf sf : Bool) {s : ParseSt} {t : Tk}
    (h : s.la = some t) (hQ : Q t s) : wp (peek cx pf sf) Q E F s := by
  unfold wp peek
  simp only [h]
  exact hQ

theorem wp_shift_tok {Q : Unit → ParseSt → Prop} {E : ParseSt → Prop} {F : Prop} {s : ParseSt} {t : Tk}
    (h : s.la = some t) (ht : t ≠ .eof) (hQ : Q () { s with la := none }) : wp shift Q E F s := by
  unfold wp shift
  simp only [h]
  cases t <;> first | exact absurd rfl ht | exact hQ

theorem wp_peek_lex {Q : Tk → ParseSt → Prop} {E : ParseSt → Prop} {F : Prop} (cx : PCtx) (pf sf : Bool) {s : ParseSt}
    (h : s.la = none) :
    wp (peek cx pf sf) Q E F s =
      (if (lex1 pf sf s.afterMacro s.rest).errors > 0 then
        E { s with rest := (lex1 pf sf s.afterMacro s.rest).rest, la := some (Tk.ofToken (lex1 pf sf s.afterMacro s.rest).tok),
                   tokLine := tokLineOf cx.nl s.rest,
                   afterMacro := (match (lex1 pf sf s.afterMacro s.rest).tok with | .macro _ => true | _ => false), nlex := s.nlex + 1 }
       else
        Q (Tk.ofToken (lex1 pf sf s.afterMacro s.rest).tok)
          { s with rest := (lex1 pf sf s.afterMacro s.rest).rest, la := some (Tk.ofToken (lex1 pf sf s.afterMacro s.rest).tok),
                   tokLine := tokLineOf cx.nl s.rest,
                   afterMacro := (match (lex1 pf sf s.afterMacro s.rest).tok with | .macro _ => true | _ => false), nlex := s.nlex + 1 }) := by
  unfold wp peek
  simp only [h]
  by_cases he : (lex1 pf sf s.afterMacro s.rest).errors > 0
  · simp only [he, if_true]; rfl
  · simp only [he, if_false]; rfl

theorem space_not_digit : ∀ c : UInt8, isspace c = true → isdigit c = false := by
  apply LexAux.forall_u8; decide +kernel

/-- `date_age` (`INT scalar` and the overflow test) from the state in which the comparison has been
shifted: the part of `parseDate` after `date_cmp`, for every field and comparison. -/
theorem age_tail (cx : PCtx) (f : DateField) (cmp : DateCmp) (s : ParseSt) (sp1 ds sp2 rest : Bytes) (w : String) (u : Nat)
    (hla : s.la = none) (ham : s.afterMacro = false)
    (hrest : s.rest = sp1 ++ ds ++ (sp2 ++ w.toUTF8.toList ++ rest))
    (hsp1 : ∀ x ∈ sp1, isspace x = true) (hne : ds ≠ []) (hd : ∀ d ∈ ds, isdigit d = true)
    (hsp2 : ∀ x ∈ sp2, isspace x = true) (hw : Spec.unitOf w = some u)
    (hr : ∀ c, rest.head? = some c → isKwChar c = false) :
    wp (parseInt cx) (fun n s' => wp (parseScalar cx) (fun v s' =>
        wp (if n * v ≥ 2 ^ 32 then failTok else do
              let l ← curLine cx
              pure (CTree.leaf (Expr.date l f cmp (n * v))))
          (fun t s' => Spec.decimal ds * u < 2 ^ 32 ∧
            t = .leaf (.date (lineOf cx.nl rest) f cmp (Spec.decimal ds * u)) ∧ s'.rest = rest ∧ s'.la = none)
          (fun _ => 2 ^ 32 ≤ Spec.decimal ds * u) False s')
        (fun _ => 2 ^ 32 ≤ Spec.decimal ds * u) False s')
      (fun _ => 2 ^ 32 ≤ Spec.decimal ds * u) False s := by
  obtain ⟨c, t, hwb, hlc⟩ := unit_bytes w u hw
  have hu := unit_pos w u hw
  -- what follows the digits is not a digit
  have hnd : ∀ x, (sp2 ++ w.toUTF8.toList ++ rest).head? = some x → isdigit x = false := by
    intro x hx
    cases sp2 with
    | nil =>
      rw [hwb] at hx
      simp only [List.nil_append, List.cons_append, List.head?_cons, Option.some.injEq] at hx
      rw [← hx]
      exact (LexAux.islower_facts _ hlc).2.2.2.2
    | cons a sp2 =>
      simp only [List.cons_append, List.head?_cons, Option.some.injEq] at hx
      rw [← hx]
      exact space_not_digit a (hsp2 a (by simp))
  have hlexd := lex_digits false sp1 ds (sp2 ++ w.toUTF8.toList ++ rest) hsp1 hne hd hnd
  have hlexu := lex_unit sp2 rest w u hsp2 hw hr
  simp only at hlexd
  obtain ⟨hfit, hbig, _⟩ := hlexd
  -- INT
  unfold parseInt
  simp only [wp_bind]
  rw [wp_peek_lex cx false false hla]
  simp only [ham, hrest]
  by_cases hn : Spec.decimal ds < 2 ^ 32
  · rw [hfit hn]
    simp only [Nat.lt_irrefl, if_false, gt_iff_lt, Tk.ofToken, wp_bind, wp_pure]
    apply wp_shift_tok rfl (by simp)
    -- SCALAR
    unfold parseScalar
    simp only [wp_bind]
    rw [wp_peek_lex cx false true rfl]
    simp only [hlexu]
    simp only [Nat.lt_irrefl, if_false, gt_iff_lt, Tk.ofToken, wp_bind, wp_pure]
    apply wp_shift_tok rfl (by simp)
    by_cases hp : Spec.decimal ds * u < 2 ^ 32
    · rw [wp_ite, if_neg (by omega), wp_bind, wp_curLine, wp_pure]
      exact ⟨hp, rfl, rfl, rfl⟩
    · rw [wp_ite, if_pos (by omega), wp_failTok]
      omega
  · have hb := hbig (by omega)
    have hpos : (lex1 false false false (sp1 ++ ds ++ (sp2 ++ w.toUTF8.toList ++ rest))).errors > 0 := by omega
    simp only [hpos, if_true]
    calc 2 ^ 32 ≤ Spec.decimal ds := by omega
      _ ≤ Spec.decimal ds * u := Nat.le_mul_of_pos_right _ hu

/-- The age literal through `parseDate` (no field keyword: the comparison is the lookahead). -/
theorem parseDate_literal (cx : PCtx) (s : ParseSt) (cmp : DateCmp) (sp1 ds sp2 rest : Bytes) (w : String) (u : Nat)
    (hla : s.la = some (cmpTk cmp)) (ham : s.afterMacro = false)
    (hrest : s.rest = sp1 ++ ds ++ (sp2 ++ w.toUTF8.toList ++ rest))
    (hsp1 : ∀ x ∈ sp1, isspace x = true) (hne : ds ≠ []) (hd : ∀ d ∈ ds, isdigit d = true)
    (hsp2 : ∀ x ∈ sp2, isspace x = true) (hw : Spec.unitOf w = some u)
    (hr : ∀ c, rest.head? = some c → isKwChar c = false) :
    wp (parseDate cx)
      (fun t s' => Spec.decimal ds * u < 2 ^ 32 ∧
        t = .leaf (.date (lineOf cx.nl rest) .header cmp (Spec.decimal ds * u)) ∧ s'.rest = rest ∧ s'.la = none)
      (fun _ => 2 ^ 32 ≤ Spec.decimal ds * u) False s := by
  unfold parseDate
  simp only [wp_bind]
  cases cmp <;> simp only [cmpTk] at hla
  all_goals
    unfold parseDateField
    simp only [wp_bind]
    apply wp_peek_have cx false false hla
    simp only [wp_pure]
    unfold parseDateCmp
    simp only [wp_bind]
    apply wp_peek_have cx false false hla
    simp only [wp_bind, wp_pure]
    apply wp_shift_tok hla (by simp)
    exact age_tail cx _ _ _ sp1 ds sp2 rest w u rfl ham hrest hsp1 hne hd hsp2 hw hr

def cmpChar : DateCmp → UInt8
  | .lt => 60
  | .gt => 62

def fieldKw : DateField → Kw
  | .header => .header
  | .access => .access
  | .modified => .modified
  | .created => .created

theorem lex1_space_cmp (sp r : Bytes) (cmp : DateCmp) (hsp : ∀ x ∈ sp, isspace x = true) :
    lex1 false false false (sp ++ cmpChar cmp :: r) = { tok := .char (cmpChar cmp), rest := r, errors := 0 } := by
  have hdw : (sp ++ cmpChar cmp :: r).dropWhile isspace = cmpChar cmp :: r := by
    rw [dropWhile_space_append sp _ hsp, List.dropWhile_cons, if_neg (by cases cmp <;> decide)]
  unfold lex1
  simp only [hdw]
  cases cmp <;> simp [lex1.lexTok, cmpChar, isdigit, islower]

/-- The age literal through `parseDate` with a field keyword (`header`, `access`, `modified`, `created`)
as the lookahead and the comparison still to be read. -/
theorem parseDate_literal_field (cx : PCtx) (s : ParseSt) (f : DateField) (cmp : DateCmp) (sp0 sp1 ds sp2 rest : Bytes)
    (w : String) (u : Nat)
    (hla : s.la = some (.kw (fieldKw f))) (ham : s.afterMacro = false)
    (hrest : s.rest = sp0 ++ cmpChar cmp :: (sp1 ++ ds ++ (sp2 ++ w.toUTF8.toList ++ rest)))
    (hsp0 : ∀ x ∈ sp0, isspace x = true)
    (hsp1 : ∀ x ∈ sp1, isspace x = true) (hne : ds ≠ []) (hd : ∀ d ∈ ds, isdigit d = true)
    (hsp2 : ∀ x ∈ sp2, isspace x = true) (hw : Spec.unitOf w = some u)
    (hr : ∀ c, rest.head? = some c → isKwChar c = false) :
    wp (parseDate cx)
      (fun t s' => Spec.decimal ds * u < 2 ^ 32 ∧
        t = .leaf (.date (lineOf cx.nl rest) f cmp (Spec.decimal ds * u)) ∧ s'.rest = rest ∧ s'.la = none)
      (fun _ => 2 ^ 32 ≤ Spec.decimal ds * u) False s := by
  have hlexc := lex1_space_cmp sp0 (sp1 ++ ds ++ (sp2 ++ w.toUTF8.toList ++ rest)) cmp hsp0
  unfold parseDate
  simp only [wp_bind]
  cases f <;> simp only [fieldKw] at hla
  all_goals
    unfold parseDateField
    simp only [wp_bind]
    apply wp_peek_have cx false false hla
    simp only [wp_bind, wp_pure]
    apply wp_shift_tok hla (by simp)
    unfold parseDateCmp
    simp only [wp_bind]
    rw [wp_peek_lex cx false false rfl]
    simp only [ham, hrest, hlexc]
    cases cmp
    all_goals
      simp only [Nat.lt_irrefl, if_false, gt_iff_lt, Tk.ofToken, cmpChar]
      simp only [show ((60 : UInt8) == 123) = false by decide, show ((60 : UInt8) == 125) = false by decide,
        show ((60 : UInt8) == 40) = false by decide, show ((60 : UInt8) == 41) = false by decide,
        show ((60 : UInt8) == 60) = true by decide, show ((62 : UInt8) == 123) = false by decide,
        show ((62 : UInt8) == 125) = false by decide, show ((62 : UInt8) == 40) = false by decide,
        show ((62 : UInt8) == 41) = false by decide, show ((62 : UInt8) == 60) = false by decide,
        show ((62 : UInt8) == 62) = true by decide, if_true, if_false, Bool.false_eq_true, wp_bind, wp_pure]
      apply wp_shift_tok rfl (by simp)
      exact age_tail cx _ _ _ sp1 ds sp2 rest w u rfl rfl rfl hsp1 hne hd hsp2 hw hr

end Mdsort.Proofs.Conf
