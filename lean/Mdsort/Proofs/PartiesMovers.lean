import Mdsort.Proofs.PartiesStep

/-! Exactly-once delivery for movers (rename-based deliveries on one device) and the client, on
every schedule that respects `H_iso`: the global invariant and its preservation. -/

namespace Mdsort.Proofs.Parties
set_option linter.unusedSimpArgs false
set_option linter.unusedVariables false
open Mdsort Mdsort.Model
open Mdsort.Proofs.World
open Mdsort.Proofs.Own

/-! ## isolation of one step -/

theorem mem_foreignInFlight (s : Shared) (a : Nat) (x : Bytes × Bytes) :
    x ∈ foreignInFlight s a ↔ ∃ i q, i ≠ a ∧ s.parties[i]? = some q ∧ x ∈ q.inFlight := by
  simp only [foreignInFlight, List.mem_flatMap, List.mem_filter]
  constructor
  · rintro ⟨⟨q, i⟩, ⟨hm, hne⟩, hx⟩
    exact ⟨i, q, by simpa using hne, List.mem_zipIdx_iff_getElem?.1 hm, hx⟩
  · rintro ⟨i, q, hne, hq, hx⟩
    exact ⟨(q, i), ⟨List.mem_zipIdx_iff_getElem?.2 hq, by simpa using hne⟩, hx⟩

theorem iso_facts {s : Shared} {a : Nat} {ps : PState} {c : Call} {k : Res → Prog Bool}
    (hp : s.parties[a]? = some ps) (hc : ps.prog = .call c k) (h : isoStep s a = true) :
    (∀ i q x, i ≠ a → s.parties[i]? = some q → x ∈ q.inFlight →
      callSrc (s.view ps) c ≠ some x ∧ (c.isRename = true → callDst (s.view ps) c ≠ some x)) ∧
    (c.isRename = true → ∀ x ∈ ps.inFlight, callSrc (s.view ps) c ≠ some x) := by
  unfold isoStep at h
  simp only [hp, hc, Bool.and_eq_true, List.all_eq_true, List.mem_append, Option.mem_toList, Bool.not_eq_true',
    Bool.or_eq_true, List.contains_iff_mem, decide_eq_false_iff_not] at h
  obtain ⟨h1, h2⟩ := h
  refine ⟨?_, ?_⟩
  · intro i q x hi hq hx
    have hmem : x ∈ foreignInFlight s a := (mem_foreignInFlight s a x).2 ⟨i, q, hi, hq, hx⟩
    refine ⟨fun e => ?_, fun hr e => ?_⟩
    · have := h1 x (.inl e)
      simp [List.contains_iff_mem, hmem] at this
    · have := h1 x (.inr (by simp [hr, e]))
      simp [List.contains_iff_mem, hmem] at this
  · intro hr x hx e
    rcases h2 with h2 | h2
    · simp [hr] at h2
    · have := h2 x e
      simp [List.contains_iff_mem, hx] at this

/-! ## kinds of calls -/

theorem dst_kind {w : World} {c : Call} {x : Bytes × Bytes} (h : callDst w c = some x) :
    isCreate c = true ∨ c.isRename = true := by
  cases c <;> simp [callDst] at h <;> simp [isCreate, Call.isRename]

theorem src_kind {w : World} {c : Call} {x : Bytes × Bytes} (h : callSrc w c = some x) :
    c.isRename = true ∨ isUnlink c = true := by
  cases c <;> simp [callSrc] at h <;> simp [isUnlink, Call.isRename]

theorem create_not_rename {c : Call} (h : isCreate c = true) : c.isRename = false ∧ isUnlink c = false := by
  cases c <;> simp [isCreate] at h <;> simp [Call.isRename, isUnlink]

theorem rename_not_unlink {c : Call} (h : c.isRename = true) : isUnlink c = false ∧ isCreate c = false := by
  cases c <;> simp [Call.isRename] at h <;> simp [isCreate, isUnlink]

theorem dst_dirPath {w : World} {c : Call} {x : Bytes × Bytes} (h : callDst w c = some x) : ∃ d, w.dirPath d = some x.1 := by
  cases c <;> simp [callDst] at h
  · obtain ⟨p, hp, rfl⟩ := h; exact ⟨_, hp⟩
  · obtain ⟨p, hp, rfl⟩ := h; exact ⟨_, hp⟩

/-- A successful create: the target was absent, is bound to the next file id, which advances. -/
theorem create_ok {w : World} {c : Call} (hk : isCreate c = true) (hok : isOk (predict w c) = true) :
    ∃ x, callDst w c = some x ∧ w.lookup x.1 x.2 = none ∧ boundBy w c = some w.nextFid ∧
      (core w c (predict w c)).nextFid = w.nextFid + 1 := by
  cases c <;> simp [isCreate] at hk
  rename_i d n
  rcases openExcl_cases w d n with ⟨p, hp, hl, hpr, hco⟩ | ⟨e, hpr⟩
  · refine ⟨(p, n), by simp [callDst, hp], hl, rfl, ?_⟩
    rw [hpr, hco]; simp [created]
  · rw [hpr] at hok; simp [isOk] at hok

theorem nextFid_not_create {w : World} {c : Call} (hk : ¬ (isCreate c = true ∧ isOk (predict w c) = true)) (ha : Allowed c) :
    (core w c (predict w c)).nextFid = w.nextFid := by
  cases c <;> first | exact ha.elim | (exact core_nextFid_eq w _ _ rfl) | skip
  rename_i d n
  rcases openExcl_cases w d n with ⟨p, hp, hl, hpr, hco⟩ | ⟨e, hpr⟩
  · exact absurd ⟨rfl, by rw [hpr]; rfl⟩ hk
  · rw [hpr, core_err_of_dirOp w _ e rfl]

/-- A successful rename: source bound, target resolved, target gets the source's file. -/
theorem rename_ok {w : World} {c : Call} (hk : c.isRename = true) (hok : isOk (predict w c) = true) :
    ∃ x y f, callSrc w c = some x ∧ callDst w c = some y ∧ w.lookup x.1 x.2 = some f ∧ boundBy w c = some f := by
  cases c <;> simp [Call.isRename] at hk
  rename_i d1 n1 d2 n2
  rcases renameat_cases w d1 n1 d2 n2 with ⟨p1, p2, f, hp1, hp2, hl, hpr, hco⟩ | ⟨e, hpr, _, _⟩
  · exact ⟨(p1, n1), (p2, n2), f, by simp [callSrc, hp1], by simp [callDst, hp2], hl,
      by simp [boundBy, World.lookupE, hp1, hl]⟩
  · rw [hpr] at hok; simp [isOk] at hok

/-- An unlink of a bound entry succeeds. -/
theorem unlink_ok {w : World} {c : Call} {x : Bytes × Bytes} {f : Nat} (hk : isUnlink c = true)
    (hs : callSrc w c = some x) (hl : w.lookup x.1 x.2 = some f) : isOk (predict w c) = true := by
  cases c <;> simp [isUnlink] at hk
  rename_i d n
  simp only [callSrc, Option.map_eq_some_iff] at hs
  obtain ⟨p, hp, rfl⟩ := hs
  rcases unlinkat_cases w d n with ⟨p', f', hp', _, hpr, _⟩ | ⟨hn, _⟩
  · rw [hpr]; rfl
  · rw [hn p hp] at hl; cases hl

theorem rename_boundBy {w : World} {c : Call} (hk : c.isRename = true) : boundBy w c = w.lookupE (callSrc w c) := by
  cases c <;> simp [Call.isRename] at hk
  rfl

/-! ## what the issuing party has in flight, by kind of call -/

theorem create_flight {ps : PState} {c : Call} {k : Res → Prog Bool} (h : LocalOK ps) (hc : ps.prog = .call c k)
    (hk : isCreate c = true) : ps.inFlight = [] := by
  have := localOK_shape h hc
  cases c <;> simp [isCreate] at hk
  exact inFlight_of_nil this

theorem rename_flight {s : Shared} {ps : PState} {c : Call} {k : Res → Prog Bool} (h : LocalOK ps) (hc : ps.prog = .call c k)
    (hres : ∀ x ∈ inFlightH ps.trace, (handlesDirPath ps.handles x.1).isSome)
    (hk : c.isRename = true) : (∃ y, callDst (s.view ps) c = some y ∧ ps.inFlight = [y]) ∨ ps.inFlight = [] := by
  have := localOK_shape h hc
  cases c <;> simp [Call.isRename] at hk
  rename_i d1 n1 d2 n2
  rcases this with h1 | h1
  · left
    obtain ⟨p, hp⟩ := Option.isSome_iff_exists.1 (hres (d2, n2) (by rw [h1]; exact List.mem_singleton.2 rfl))
    exact ⟨(p, n2), by simp [callDst, view_dirPath, hp], inFlight_of_singleton h1 hp⟩
  · exact .inr (inFlight_of_nil h1)

theorem unlink_flight {s : Shared} {ps : PState} {c : Call} {k : Res → Prog Bool} (h : LocalOK ps) (hc : ps.prog = .call c k)
    (hres : ∀ x ∈ inFlightH ps.trace, (handlesDirPath ps.handles x.1).isSome)
    (hk : isUnlink c = true) : (∃ x, callSrc (s.view ps) c = some x ∧ ps.inFlight = [x]) ∨ inFlightH ps.trace = [] := by
  have := localOK_shape h hc
  cases c <;> simp [isUnlink] at hk
  rename_i d n
  rcases this with h1 | h1
  · left
    obtain ⟨p, hp⟩ := Option.isSome_iff_exists.1 (hres (d, n) (by rw [h1]; exact List.mem_singleton.2 rfl))
    exact ⟨(p, n), by simp [callSrc, view_dirPath, hp], inFlight_of_singleton h1 hp⟩
  · exact .inr h1

/-! ## handles after a step -/

theorem handlesDirPath_append_inv (hs : List Obj) (o : Obj) (d : Nat) (p : Bytes)
    (h : handlesDirPath (hs ++ [o]) d = some p) :
    handlesDirPath hs d = some p ∨ (∃ sn pos, o = .dir p sn pos) := by
  by_cases hl : d < hs.length
  · left
    simp only [handlesDirPath, List.getD_eq_getElem?_getD, List.getElem?_append_left hl] at h ⊢
    exact h
  · by_cases he : d = hs.length
    · right
      subst he
      simp only [handlesDirPath, List.getD_eq_getElem?_getD, List.getElem?_append_right (Nat.le_refl _), Nat.sub_self,
        List.getElem?_cons_zero, Option.getD_some] at h
      cases o with
      | dir q sn pos => simp at h; subst h; exact ⟨sn, pos, rfl⟩
      | _ => simp at h
    · have : hs.length + 1 ≤ d := by omega
      simp [handlesDirPath, List.getD_eq_getElem?_getD, List.getElem?_eq_none (l := hs ++ [o]) (by simpa using this)] at h

/-- Directory handles after a step are the old ones, or the one a successful `opendir` added. -/
theorem dirPath_after (w : World) (c : Call) (hc : Allowed c) (d : Handle) (p : Bytes)
    (h : handlesDirPath (core w c (predict w c)).handles d = some p) :
    handlesDirPath w.handles d = some p ∨ (w.dir p).isSome := by
  rw [handles_step w c hc] at h
  cases c <;> first | exact hc.elim | exact .inl h | skip
  · rename_i q
    dsimp only at h
    split at h
    · rename_i hq
      rcases handlesDirPath_append_inv _ _ _ _ h with h | ⟨sn, pos, ho⟩
      · exact .inl h
      · cases ho; exact .inr hq
    · exact .inl h
  · exact .inl (handlesDirPath_set_closed _ _ _ _ h).1
  · dsimp only at h
    split at h
    · rcases handlesDirPath_append_inv _ _ _ _ h with h | ⟨sn, pos, ho⟩
      · exact .inl h
      · cases ho
    · exact .inl h
  · exact .inl (handlesDirPath_set_closed _ _ _ _ h).1

/-- Directory handles survive every call except their own close. -/
theorem dirPath_preserved (w : World) (c : Call) (hc : Allowed c) (d : Handle) (p : Bytes)
    (h : handlesDirPath w.handles d = some p) (hcl : ∀ h', c ≠ .close h' ∧ c ≠ .closedir h') :
    handlesDirPath (core w c (predict w c)).handles d = some p := by
  rw [handles_step w c hc]
  cases c <;> first | exact hc.elim | exact h | skip
  · dsimp only
    split
    · exact handlesDirPath_append _ _ _ _ h
    · exact h
  · exact absurd rfl (hcl _).2
  · dsimp only
    split
    · exact handlesDirPath_append _ _ _ _ h
    · exact h
  · exact absurd rfl (hcl _).1

end Mdsort.Proofs.Parties
