import Mdsort.Spec.Cmdline
import Mdsort.Proofs.World
import Mdsort.Proofs.MainText
import Mdsort.Proofs.MainTextMacros

/-!
# The command line: `parseArgs` computes the documented meaning; what a run from `argv` is

Lemmas for `Props.C05_options_select_mode`, `C14_usage_error_no_call`, `C04_usage_status`, `C12_D_overrides`.
-/

namespace Mdsort.Proofs.Opts
open Mdsort Mdsort.Model Mdsort.Spec

/-! ## `macros_insert` with `MACRO_FLAG_STICKY` (the `-D` form) -/

/-- The entry `-D name=value` creates. -/
def stickyEntry (n v : Bytes) (l : Nat) : Macro := { name := n, value := v, refs := 0, defs := 0, lno := l, sticky := true }

theorem insert_sticky (ms : List Macro) (n v : Bytes) (l : Nat) :
    macrosInsert ms n v l true =
      if isPathMacro n || ms.any (fun m => m.name == n) then none else some (ms ++ [stickyEntry n v l]) := by
  unfold macrosInsert stickyEntry
  by_cases hp : isPathMacro n = true
  · simp [hp]
  · by_cases ha : (ms.any fun m => m.name == n) = true
    · have h2 : (ms.any fun m => m.name == n && m.sticky && !true && m.defs == 0) = false := by simp
      simp only [hp, ha, h2, Bool.false_eq_true, if_false, if_true, Bool.false_or]
    · simp only [hp, ha, Bool.false_eq_true, if_false, Bool.or_self]

theorem any_name_eq_contains (ms : List Macro) (n : Bytes) :
    (ms.any fun m => m.name == n) = (ms.map (·.name)).contains n := by
  induction ms with
  | nil => rfl
  | cons m r ih =>
    simp only [List.any_cons, List.map_cons, List.contains_cons, ih]
    congr 1
    exact Bool.beq_comm

/-! ## the option string -/

theorem flagLetter_cases {c : UInt8} (h : isFlagLetter c = true) : c = 100 ∨ c = 110 ∨ c = 118 := by
  simp only [isFlagLetter, Bool.or_eq_true, beq_iff_eq] at h
  rcases h with (h | h) | h
  · exact .inl h
  · exact .inr (.inl h)
  · exact .inr (.inr h)

theorem look_flag {c : UInt8} (h : isFlagLetter c = true) : optLookup Gen.optstring c = some false := by
  rcases flagLetter_cases h with rfl | rfl | rfl <;> decide

theorem look_D : optLookup Gen.optstring 68 = some true := by decide
theorem look_f : optLookup Gen.optstring 102 = some true := by decide

theorem look_argopt (a : ArgOpt) : optLookup Gen.optstring a.letter = some true := by
  cases a with
  | conf _ => exact look_f
  | define _ _ => exact look_D

theorem flagLetter_ne_dash {c : UInt8} (h : isFlagLetter c = true) : c ≠ 45 := by
  rcases flagLetter_cases h with rfl | rfl | rfl <;> decide

theorem argLetter_ne_dash (a : ArgOpt) : a.letter ≠ 45 := by
  cases a with
  | conf _ => show (102 : UInt8) ≠ 45; decide
  | define _ _ => show (68 : UInt8) ≠ 45; decide

/-! ## one word -/

theorem cluster_flags (ls r : Bytes) (h : ls.all isFlagLetter = true) :
    cluster Gen.optstring (ls ++ r) = (ls.map OptEv.flag ++ (cluster Gen.optstring r).1, (cluster Gen.optstring r).2) := by
  induction ls with
  | nil => simp
  | cons c ls ih =>
    simp only [List.all_cons, Bool.and_eq_true] at h
    simp only [List.cons_append, cluster, look_flag h.1, ih h.2, List.map_cons]

theorem cluster_arg_last (c : UInt8) (h : optLookup Gen.optstring c = some true) :
    cluster Gen.optstring [c] = ([], some c) := by
  simp [cluster, h]

theorem cluster_arg_joined (c : UInt8) (p : Bytes) (h : optLookup Gen.optstring c = some true) (hp : p.isEmpty = false) :
    cluster Gen.optstring (c :: p) = ([.arg c p], none) := by
  simp [cluster, h, hp]

theorem word_not_dashdash (c : UInt8) (r : Bytes) (hc : c ≠ 45) : ((45 :: c :: r : Bytes) == dashdash) = false := by
  apply beq_eq_false_iff_ne.2
  intro h
  simp only [dashdash, List.cons.injEq] at h
  exact hc h.2.1

/-- One step of the scan over an option word whose cluster leaves no letter waiting. -/
theorem scan_word_none' (p : Bool) (c : UInt8) (r : Bytes) (rest sk : List Bytes) (hnd : ((45 :: c :: r : Bytes) == dashdash) = false)
    (h : (cluster Gen.optstring (c :: r)).2 = none) :
    getoptScan Gen.optstring p ((45 :: c :: r) :: rest) sk =
      ⟨(cluster Gen.optstring (c :: r)).1 ++ (getoptScan Gen.optstring p rest sk).events,
       (getoptScan Gen.optstring p rest sk).operands⟩ := by
  rw [getoptScan]
  simp only [hnd, isNonOption, List.drop_succ_cons, List.drop_zero, Bool.false_eq_true, if_false, h]

theorem scan_word_some' (p : Bool) (c : UInt8) (r : Bytes) (b : Bytes) (rest sk : List Bytes) (hnd : ((45 :: c :: r : Bytes) == dashdash) = false) (c' : UInt8)
    (h : (cluster Gen.optstring (c :: r)).2 = some c') :
    getoptScan Gen.optstring p ((45 :: c :: r) :: b :: rest) sk =
      ⟨(cluster Gen.optstring (c :: r)).1 ++ .arg c' b :: (getoptScan Gen.optstring p rest sk).events,
       (getoptScan Gen.optstring p rest sk).operands⟩ := by
  rw [getoptScan]
  simp only [hnd, isNonOption, List.drop_succ_cons, List.drop_zero, Bool.false_eq_true, if_false, h]

theorem scan_word_missing' (p : Bool) (c : UInt8) (r : Bytes) (sk : List Bytes) (hnd : ((45 :: c :: r : Bytes) == dashdash) = false) (c' : UInt8)
    (h : (cluster Gen.optstring (c :: r)).2 = some c') :
    getoptScan Gen.optstring p [45 :: c :: r] sk = ⟨(cluster Gen.optstring (c :: r)).1 ++ [.bad], sk⟩ := by
  rw [getoptScan]
  simp only [hnd, isNonOption, List.drop_succ_cons, List.drop_zero, Bool.false_eq_true, if_false, h]

/-- Whatever an option word ends with and whatever follows it: the events of its cluster come first. -/
theorem scan_word_prefix (p : Bool) (c : UInt8) (r : Bytes) (rest sk : List Bytes) (hnd : ((45 :: c :: r : Bytes) == dashdash) = false) :
    ∃ more, (getoptScan Gen.optstring p ((45 :: c :: r) :: rest) sk).events = (cluster Gen.optstring (c :: r)).1 ++ more := by
  cases h : (cluster Gen.optstring (c :: r)).2 with
  | none => exact ⟨_, by rw [scan_word_none' p c r rest sk hnd h]⟩
  | some c' =>
    cases rest with
    | nil => exact ⟨_, by rw [scan_word_missing' p c r sk hnd c' h]⟩
    | cons b rest' => exact ⟨_, by rw [scan_word_some' p c r b rest' sk hnd c' h]⟩

theorem scan_word_none (p : Bool) (c : UInt8) (r : Bytes) (rest sk : List Bytes) (hc : c ≠ 45)
    (h : (cluster Gen.optstring (c :: r)).2 = none) :
    getoptScan Gen.optstring p ((45 :: c :: r) :: rest) sk =
      ⟨(cluster Gen.optstring (c :: r)).1 ++ (getoptScan Gen.optstring p rest sk).events,
       (getoptScan Gen.optstring p rest sk).operands⟩ := by
  rw [getoptScan]
  simp only [word_not_dashdash c r hc, isNonOption, List.drop_succ_cons, List.drop_zero, Bool.false_eq_true, if_false, h]

/-- ... and over one whose last letter takes the next element. -/
theorem scan_word_some (p : Bool) (c : UInt8) (r : Bytes) (b : Bytes) (rest sk : List Bytes) (hc : c ≠ 45) (c' : UInt8)
    (h : (cluster Gen.optstring (c :: r)).2 = some c') :
    getoptScan Gen.optstring p ((45 :: c :: r) :: b :: rest) sk =
      ⟨(cluster Gen.optstring (c :: r)).1 ++ .arg c' b :: (getoptScan Gen.optstring p rest sk).events,
       (getoptScan Gen.optstring p rest sk).operands⟩ := by
  rw [getoptScan]
  simp only [word_not_dashdash c r hc, isNonOption, List.drop_succ_cons, List.drop_zero, Bool.false_eq_true, if_false, h]

theorem scan_word_missing (p : Bool) (c : UInt8) (r : Bytes) (sk : List Bytes) (hc : c ≠ 45) (c' : UInt8)
    (h : (cluster Gen.optstring (c :: r)).2 = some c') :
    getoptScan Gen.optstring p [45 :: c :: r] sk = ⟨(cluster Gen.optstring (c :: r)).1 ++ [.bad], sk⟩ := by
  rw [getoptScan]
  simp only [word_not_dashdash c r hc, isNonOption, List.drop_succ_cons, List.drop_zero, Bool.false_eq_true, if_false, h]

/-- What `getopt` returns for one option word. -/
def itemEvents (it : CmdItem) : List OptEv :=
  it.letters.map OptEv.flag ++
    match it.tail with
    | none => []
    | some (a, _) => [.arg a.letter a.payload]

/-- A non-empty word body starts with a letter other than `-`. -/
theorem body_head (ls x : Bytes) (hl : ls.all isFlagLetter = true) (hx : ∀ c r, x = c :: r → c ≠ 45) (hne : ls ++ x ≠ []) :
    ∃ c r, ls ++ x = c :: r ∧ c ≠ 45 := by
  cases ls with
  | nil =>
    cases x with
    | nil => exact absurd rfl hne
    | cons c r => exact ⟨c, r, rfl, hx c r rfl⟩
  | cons c ls =>
    simp only [List.all_cons, Bool.and_eq_true] at hl
    exact ⟨c, ls ++ x, rfl, flagLetter_ne_dash hl.1⟩

theorem scan_item (p : Bool) (it : CmdItem) (hwf : it.wf = true) (rest sk : List Bytes) :
    getoptScan Gen.optstring p (it.render ++ rest) sk =
      ⟨itemEvents it ++ (getoptScan Gen.optstring p rest sk).events, (getoptScan Gen.optstring p rest sk).operands⟩ := by
  obtain ⟨ls, tail⟩ := it
  simp only [CmdItem.wf, Bool.and_eq_true] at hwf
  obtain ⟨hl, ht⟩ := hwf
  cases tail with
  | none =>
    simp only [Bool.not_eq_true'] at ht
    have hne : ls ++ [] ≠ [] := by
      intro h; rw [List.append_nil] at h; rw [h] at ht; simp at ht
    obtain ⟨c, r, he, hc⟩ := body_head ls [] hl (fun _ _ h => by cases h) hne
    rw [List.append_nil] at he
    have hcl := cluster_flags ls [] hl
    rw [List.append_nil, he] at hcl
    simp only [CmdItem.render, itemEvents, List.cons_append, List.nil_append, List.append_nil]
    rw [he, scan_word_none p c r rest sk hc (by rw [hcl]; rfl), hcl]
    simp [cluster]
  | some aj =>
    obtain ⟨a, joined⟩ := aj
    simp only [Bool.and_eq_true, Bool.or_eq_true, Bool.not_eq_true'] at ht
    cases joined with
    | true =>
      have hpe : a.payload.isEmpty = false := by
        rcases ht.1 with h | h
        · cases h
        · exact h
      obtain ⟨c, r, he, hc⟩ := body_head ls (a.letter :: a.payload) hl
        (fun c r h => by cases h; exact argLetter_ne_dash a) (by simp)
      have hcl := cluster_flags ls (a.letter :: a.payload) hl
      rw [cluster_arg_joined a.letter a.payload (look_argopt a) hpe, he] at hcl
      simp only [CmdItem.render, itemEvents, List.cons_append, List.nil_append]
      rw [he, scan_word_none p c r rest sk hc (by rw [hcl]), hcl]
    | false =>
      obtain ⟨c, r, he, hc⟩ := body_head ls [a.letter] hl
        (fun c r h => by cases h; exact argLetter_ne_dash a) (by simp)
      have hcl := cluster_flags ls [a.letter] hl
      rw [cluster_arg_last a.letter (look_argopt a), he] at hcl
      simp only [CmdItem.render, itemEvents, List.cons_append, List.nil_append]
      rw [he, scan_word_some p c r a.payload rest sk hc a.letter (by rw [hcl]), hcl]
      simp

/-- The events of a whole command line of option words. -/
def itemsEvents (items : List CmdItem) : List OptEv := items.flatMap itemEvents

theorem scan_items (p : Bool) (items : List CmdItem) (hwf : ∀ it ∈ items, it.wf = true) (rest sk : List Bytes) :
    getoptScan Gen.optstring p (renderCmd items ++ rest) sk =
      ⟨itemsEvents items ++ (getoptScan Gen.optstring p rest sk).events, (getoptScan Gen.optstring p rest sk).operands⟩ := by
  induction items with
  | nil => simp [renderCmd, itemsEvents]
  | cons it r ih =>
    have h1 := hwf it (by simp)
    have h2 : ∀ x ∈ r, x.wf = true := fun x hx => hwf x (by simp [hx])
    have : renderCmd (it :: r) ++ rest = it.render ++ (renderCmd r ++ rest) := by simp [renderCmd]
    rw [this, scan_item p it h1, ih h2]
    simp [itemsEvents]

/-! ## operands -/

theorem nonOption_not_dashdash (a : Bytes) (h : isNonOption a = true) : (a == dashdash) = false := by
  apply beq_eq_false_iff_ne.2
  intro he
  rw [he] at h
  cases h

/-- Non-options only: no event; they are the operands (after the ones skipped before, in permute mode). -/
theorem scan_operands (p : Bool) (ops sk : List Bytes) (h : ops.all isNonOption = true) :
    getoptScan Gen.optstring p ops sk = ⟨[], sk ++ ops⟩ := by
  induction ops generalizing sk with
  | nil => simp [getoptScan]
  | cons a r ih =>
    simp only [List.all_cons, Bool.and_eq_true] at h
    rw [getoptScan]
    simp only [nonOption_not_dashdash a h.1, h.1, Bool.false_eq_true, if_false, if_true]
    cases p with
    | true => simp only [if_true]; rw [ih _ h.2]; simp
    | false => simp

theorem scan_dashdash (p : Bool) (ops sk : List Bytes) :
    getoptScan Gen.optstring p (dashdash :: ops) sk = ⟨[], sk ++ ops⟩ := by
  rw [getoptScan]; simp

/-- Permutation: non-options in front of further arguments are passed over and come back as operands. -/
theorem scan_skip (ops rest sk : List Bytes) (h : ops.all isNonOption = true) :
    getoptScan Gen.optstring true (ops ++ rest) sk = getoptScan Gen.optstring true rest (sk ++ ops) := by
  induction ops generalizing sk with
  | nil => simp
  | cons a r ih =>
    simp only [List.all_cons, Bool.and_eq_true] at h
    rw [List.cons_append, getoptScan]
    simp only [nonOption_not_dashdash a h.1, h.1, Bool.false_eq_true, if_false, if_true]
    rw [ih _ h.2]; simp

/-! ## the `switch` -/

theorem optLoop_append (e1 e2 : List OptEv) (st : OptSt) :
    optLoop (e1 ++ e2) st = match optLoop e1 st with
      | .ok st' => optLoop e2 st'
      | .error x => .error x := by
  induction e1 generalizing st with
  | nil => rfl
  | cons e r ih =>
    simp only [List.cons_append, optLoop]
    cases optStep st e with
    | ok st' => exact ih st'
    | error x => rfl

theorem optStep_flag (st : OptSt) {c : UInt8} (h : isFlagLetter c = true) :
    optStep st (.flag c) = .ok { st with opts := letterStep st.opts c } := by
  rcases flagLetter_cases h with rfl | rfl | rfl <;> rfl

theorem optLoop_flags (ls : Bytes) (h : ls.all isFlagLetter = true) (st : OptSt) :
    optLoop (ls.map OptEv.flag) st = .ok { st with opts := ls.foldl letterStep st.opts } := by
  induction ls generalizing st with
  | nil => rfl
  | cons c r ih =>
    simp only [List.all_cons, Bool.and_eq_true] at h
    simp only [List.map_cons, optLoop, optStep_flag st h.1, List.foldl_cons]
    rw [ih h.2]

theorem splitEq_join (n v : Bytes) (h : n.contains 61 = false) : splitEq (n ++ 61 :: v) = some (n, v) := by
  have hc : (n ++ 61 :: v).contains 61 = true := by simp
  have ht : ∀ (n : Bytes), n.contains 61 = false →
      (n ++ 61 :: v).takeWhile (· != 61) = n ∧ (n ++ 61 :: v).dropWhile (· != 61) = 61 :: v := by
    intro n
    induction n with
    | nil => intro _; simp
    | cons c r ih =>
      intro hn
      simp only [List.contains_cons, Bool.or_eq_false_iff] at hn
      have hc : (c != 61) = true := by
        have := hn.1
        simp only [bne, Bool.not_eq_true']
        rw [Bool.beq_comm]; exact this
      obtain ⟨h1, h2⟩ := ih hn.2
      exact ⟨by simp [List.takeWhile_cons, hc, h1], by simp [List.dropWhile_cons, hc, h2]⟩
  obtain ⟨h1, h2⟩ := ht n h
  simp only [splitEq, hc, if_true, h1, h2, List.drop_succ_cons, List.drop_zero]

/-- `cl.cl_macros` holds exactly the names of the `-D` options accepted so far. -/
def Inv (st : OptSt) : Prop := st.macros.map (·.name) = st.opts.defs.map (·.1)

theorem foldl_letterStep_defs (ls : Bytes) (o : Opts) : (ls.foldl letterStep o).defs = o.defs := by
  induction ls generalizing o with
  | nil => rfl
  | cons c r ih =>
    rw [List.foldl_cons, ih]
    unfold letterStep
    split
    · rfl
    · split <;> rfl

/-- The `switch` over the events of one option word computes the documented meaning of the word. -/
theorem loop_item (it : CmdItem) (hwf : it.wf = true) (st : OptSt) (hinv : Inv st) :
    match it.apply st.opts with
    | .error e => optLoop (itemEvents it) st = .error e
    | .ok o' => ∃ st', optLoop (itemEvents it) st = .ok st' ∧ st'.opts = o' ∧ Inv st' := by
  obtain ⟨ls, tail⟩ := it
  simp only [CmdItem.wf, Bool.and_eq_true] at hwf
  obtain ⟨hl, ht⟩ := hwf
  have hinv1 : Inv { st with opts := ls.foldl letterStep st.opts } := by
    show st.macros.map (·.name) = (ls.foldl letterStep st.opts).defs.map (·.1)
    rw [foldl_letterStep_defs]; exact hinv
  cases tail with
  | none =>
    simp only [CmdItem.apply, itemEvents, List.append_nil]
    exact ⟨_, optLoop_flags ls hl st, rfl, hinv1⟩
  | some aj =>
    obtain ⟨a, joined⟩ := aj
    simp only [itemEvents, optLoop_append, optLoop_flags ls hl st]
    cases a with
    | conf f =>
      simp only [CmdItem.apply]
      exact ⟨_, rfl, rfl, hinv1⟩
    | define n v =>
      simp only [Bool.and_eq_true, Bool.not_eq_true'] at ht
      have hn : n.contains 61 = false := ht.2
      simp only [CmdItem.apply, ArgOpt.letter, ArgOpt.payload, optLoop, optStep, splitEq_join n v hn, insert_sticky,
        any_name_eq_contains]
      have hnames : (st.macros.map (·.name)) = ((ls.foldl letterStep st.opts).defs.map (·.1)) := hinv1
      rw [hnames]
      by_cases hb : (isPathMacro n || ((ls.foldl letterStep st.opts).defs.map (·.1)).contains n) = true
      · simp only [hb, if_true]
      · simp only [hb, Bool.false_eq_true, if_false]
        refine ⟨_, rfl, rfl, ?_⟩
        show (st.macros ++ [stickyEntry n v 0]).map (·.name) = ((ls.foldl letterStep st.opts).defs ++ [(n, v)]).map (·.1)
        simp only [List.map_append, List.map_cons, List.map_nil, hnames, stickyEntry]

theorem loop_items (items : List CmdItem) (hwf : ∀ it ∈ items, it.wf = true) (st : OptSt) (hinv : Inv st) :
    match cmdMeaning items st.opts with
    | .error e => optLoop (itemsEvents items) st = .error e
    | .ok o' => ∃ st', optLoop (itemsEvents items) st = .ok st' ∧ st'.opts = o' ∧ Inv st' := by
  induction items generalizing st with
  | nil => exact ⟨st, rfl, rfl, hinv⟩
  | cons it r ih =>
    have h1 := hwf it (by simp)
    have h2 : ∀ x ∈ r, x.wf = true := fun x hx => hwf x (by simp [hx])
    have hi := loop_item it h1 st hinv
    have hev : itemsEvents (it :: r) = itemEvents it ++ itemsEvents r := by simp [itemsEvents]
    simp only [cmdMeaning, hev, optLoop_append]
    cases ha : it.apply st.opts with
    | error e =>
      rw [ha] at hi
      simp only [hi]
    | ok o' =>
      rw [ha] at hi
      obtain ⟨st', hs, ho, hinv'⟩ := hi
      simp only [hs]
      have := ih h2 st' hinv'
      rw [ho] at this
      exact this

/-! ## the whole of `parseArgs` -/

/-- Option words followed by non-options: the documented meaning of the words, then the operand test. -/
theorem parseArgs_words_operands (p : Bool) (items : List CmdItem) (hwf : ∀ it ∈ items, it.wf = true) (ops : List Bytes)
    (hops : ops.all isNonOption = true) :
    parseArgs p (renderCmd items ++ ops) =
      match cmdMeaning items {} with
      | .error e => .error e
      | .ok o =>
        match operandStep o ops with
        | .error e => .error e
        | .ok o' => .ok (dryVerbosity o') := by
  have hs := scan_items p items hwf ops []
  rw [scan_operands p ops [] hops] at hs
  have hl := loop_items items hwf {} rfl
  simp only [parseArgs, parseArgsWith, hs, List.append_nil, List.nil_append]
  cases hm : cmdMeaning items ({} : OptSt).opts with
  | error e =>
    rw [hm] at hl
    have hm' : cmdMeaning items {} = .error e := hm
    simp only [hl, hm']
  | ok o =>
    rw [hm] at hl
    obtain ⟨st', h1, h2, _⟩ := hl
    have hm' : cmdMeaning items {} = .ok o := hm
    simp only [h1, hm', h2] <;> rfl

/-- The same with `--` before the operands, which may then look like anything. -/
theorem parseArgs_words_dashdash (p : Bool) (items : List CmdItem) (hwf : ∀ it ∈ items, it.wf = true) (ops : List Bytes) :
    parseArgs p (renderCmd items ++ dashdash :: ops) =
      match cmdMeaning items {} with
      | .error e => .error e
      | .ok o =>
        match operandStep o ops with
        | .error e => .error e
        | .ok o' => .ok (dryVerbosity o') := by
  have hs := scan_items p items hwf (dashdash :: ops) []
  rw [scan_dashdash p ops []] at hs
  have hl := loop_items items hwf {} rfl
  simp only [parseArgs, parseArgsWith, hs, List.append_nil, List.nil_append]
  cases hm : cmdMeaning items ({} : OptSt).opts with
  | error e =>
    rw [hm] at hl
    have hm' : cmdMeaning items {} = .error e := hm
    simp only [hl, hm']
  | ok o =>
    rw [hm] at hl
    obtain ⟨st', h1, h2, _⟩ := hl
    have hm' : cmdMeaning items {} = .ok o := hm
    simp only [h1, hm', h2] <;> rfl

/-- The documented command line: option words, then `-` or nothing. -/
theorem parseArgs_cmdline (p : Bool) (items : List CmdItem) (hwf : ∀ it ∈ items, it.wf = true) (stdin : Bool) :
    parseArgs p (renderCmd items ++ (if stdin then [[45]] else [])) = cmdline items stdin := by
  have h := parseArgs_words_operands p items hwf (if stdin then [[45]] else []) (by cases stdin <;> rfl)
  rw [h]
  unfold cmdline
  cases cmdMeaning items {} with
  | error e => rfl
  | ok o => cases stdin <;> simp [operandStep]

/-- glibc's permutation: operands may stand between option words. -/
theorem parseArgs_permuted (items1 items2 : List CmdItem) (h1 : ∀ it ∈ items1, it.wf = true) (h2 : ∀ it ∈ items2, it.wf = true)
    (ops : List Bytes) (hops : ops.all isNonOption = true) :
    parseArgs true (renderCmd items1 ++ ops ++ renderCmd items2) = parseArgs true (renderCmd (items1 ++ items2) ++ ops) := by
  have hl : getoptScan Gen.optstring true (renderCmd items1 ++ ops ++ renderCmd items2) [] =
      getoptScan Gen.optstring true (renderCmd (items1 ++ items2) ++ ops) [] := by
    have e1 : renderCmd items1 ++ ops ++ renderCmd items2 = renderCmd items1 ++ (ops ++ (renderCmd items2 ++ [])) := by simp
    have e2 : renderCmd (items1 ++ items2) ++ ops = renderCmd items1 ++ (renderCmd items2 ++ ops) := by simp [renderCmd]
    rw [e1, e2, scan_items true items1 h1, scan_items true items1 h1, scan_skip ops _ [] hops, scan_items true items2 h2,
      scan_items true items2 h2, scan_operands true ops [] hops]
    simp [getoptScan]
  simp only [parseArgs, parseArgsWith, hl]

/-- POSIXLY_CORRECT: the first non-option ends the options; what follows is operands. -/
theorem parseArgs_posix_stops (items : List CmdItem) (hwf : ∀ it ∈ items, it.wf = true) (a : Bytes) (ha : isNonOption a = true)
    (rest : List Bytes) :
    parseArgs false (renderCmd items ++ a :: rest) =
      match cmdMeaning items {} with
      | .error e => .error e
      | .ok o =>
        match operandStep o (a :: rest) with
        | .error e => .error e
        | .ok o' => .ok (dryVerbosity o') := by
  have hs := scan_items false items hwf (a :: rest) []
  have h0 : getoptScan Gen.optstring false (a :: rest) [] = ⟨[], a :: rest⟩ := by
    rw [getoptScan]; simp [nonOption_not_dashdash a ha, ha]
  rw [h0] at hs
  have hl := loop_items items hwf {} rfl
  simp only [parseArgs, parseArgsWith, hs, List.append_nil]
  cases hm : cmdMeaning items ({} : OptSt).opts with
  | error e =>
    rw [hm] at hl
    have hm' : cmdMeaning items {} = .error e := hm
    simp only [hl, hm']
  | ok o =>
    rw [hm] at hl
    obtain ⟨st', h1, h2, _⟩ := hl
    have hm' : cmdMeaning items {} = .ok o := hm
    simp only [h1, hm', h2] <;> rfl

/-! ## the ways a command line is refused -/

/-- The first event the `switch` refuses decides the outcome, whatever follows it. -/
theorem parseArgs_of_events (p : Bool) (args : List Bytes) (evs1 : List OptEv) (e : OptEv) (more : List OptEv) (st : OptSt) (x : ArgsErr)
    (hs : (getoptScan Gen.optstring p args []).events = evs1 ++ e :: more)
    (h1 : optLoop evs1 {} = .ok st) (h2 : optStep st e = .error x) : parseArgs p args = .error x := by
  have : optLoop (evs1 ++ e :: more) {} = .error x := by
    rw [optLoop_append, h1]
    simp only [optLoop, h2]
  simp only [parseArgs, parseArgsWith, hs, this]

/-- The events of: accepted option words, then a word of flag letters that goes on with `rest of the word`. -/
theorem scan_items_then_word (p : Bool) (items : List CmdItem) (hwf : ∀ it ∈ items, it.wf = true) (ls : Bytes)
    (hl : ls.all isFlagLetter = true) (c : UInt8) (r : Bytes) (rest : List Bytes)
    (hnd : ls = [] → ((45 :: c :: r : Bytes) == dashdash) = false) :
    ∃ more, (getoptScan Gen.optstring p (renderCmd items ++ (45 :: (ls ++ c :: r)) :: rest) []).events =
      itemsEvents items ++ (ls.map OptEv.flag ++ (cluster Gen.optstring (c :: r)).1) ++ more := by
  rw [scan_items p items hwf]
  have hcl := cluster_flags ls (c :: r) hl
  cases ls with
  | nil =>
    obtain ⟨more, hm⟩ := scan_word_prefix p c r rest [] (hnd rfl)
    exact ⟨more, by simp only [List.nil_append, hm, List.map_nil, List.append_assoc]⟩
  | cons c0 ls' =>
    simp only [List.all_cons, Bool.and_eq_true] at hl
    obtain ⟨more, hm⟩ := scan_word_prefix p c0 (ls' ++ c :: r) rest [] (word_not_dashdash c0 _ (flagLetter_ne_dash hl.1))
    refine ⟨more, ?_⟩
    show itemsEvents items ++ (getoptScan Gen.optstring p ((45 :: c0 :: (ls' ++ c :: r)) :: rest) []).events = _
    rw [hm]
    have : c0 :: (ls' ++ c :: r) = (c0 :: ls') ++ c :: r := rfl
    rw [this, hcl]
    simp only [List.append_assoc]

/-- What the loop has computed after accepted option words and some more flag letters. -/
theorem loop_items_flags (items : List CmdItem) (hwf : ∀ it ∈ items, it.wf = true) (o : Opts) (hm : cmdMeaning items {} = .ok o)
    (ls : Bytes) (hl : ls.all isFlagLetter = true) :
    ∃ st, optLoop (itemsEvents items ++ ls.map OptEv.flag) {} = .ok st ∧ st.opts = ls.foldl letterStep o ∧ Inv st := by
  have h := loop_items items hwf {} rfl
  have hm' : cmdMeaning items ({} : OptSt).opts = .ok o := hm
  rw [hm'] at h
  obtain ⟨st', h1, h2, h3⟩ := h
  refine ⟨{ st' with opts := ls.foldl letterStep st'.opts }, ?_, by rw [h2], ?_⟩
  · rw [optLoop_append, h1]
    exact optLoop_flags ls hl st'
  · show st'.macros.map (·.name) = (ls.foldl letterStep st'.opts).defs.map (·.1)
    rw [foldl_letterStep_defs]; exact h3

/-- An unknown option letter - first in its word, or after letters of `d`, `n`, `v`: usage, whatever follows. -/
theorem parseArgs_unknown_option (p : Bool) (items : List CmdItem) (hwf : ∀ it ∈ items, it.wf = true) (o : Opts)
    (hm : cmdMeaning items {} = .ok o) (ls : Bytes) (hl : ls.all isFlagLetter = true) (c : UInt8) (r : Bytes) (rest : List Bytes)
    (hc : optLookup Gen.optstring c = none) (hnd : ls = [] → ((45 :: c :: r : Bytes) == dashdash) = false) :
    parseArgs p (renderCmd items ++ (45 :: (ls ++ c :: r)) :: rest) = .error .usage := by
  obtain ⟨more, hs⟩ := scan_items_then_word p items hwf ls hl c r rest hnd
  obtain ⟨st, h1, _, _⟩ := loop_items_flags items hwf o hm ls hl
  have hcl : (cluster Gen.optstring (c :: r)).1 = .bad :: (cluster Gen.optstring r).1 := by simp only [cluster, hc]
  rw [hcl] at hs
  refine parseArgs_of_events p _ (itemsEvents items ++ ls.map OptEv.flag) .bad ((cluster Gen.optstring r).1 ++ more) st .usage ?_ h1 rfl
  rw [hs]; simp only [List.append_assoc, List.cons_append]

/-- `-f` or `-D` as the last letter of the last word: "option requires an argument", usage. -/
theorem parseArgs_missing_argument (p : Bool) (items : List CmdItem) (hwf : ∀ it ∈ items, it.wf = true) (o : Opts)
    (hm : cmdMeaning items {} = .ok o) (ls : Bytes) (hl : ls.all isFlagLetter = true) (c : UInt8)
    (hc : optLookup Gen.optstring c = some true) (hc45 : c ≠ 45) :
    parseArgs p (renderCmd items ++ [45 :: (ls ++ [c])]) = .error .usage := by
  obtain ⟨st, h1, _, _⟩ := loop_items_flags items hwf o hm ls hl
  have hcl := cluster_flags ls [c] hl
  rw [cluster_arg_last c hc] at hcl
  have hs : (getoptScan Gen.optstring p (renderCmd items ++ [45 :: (ls ++ [c])]) []).events =
      (itemsEvents items ++ ls.map OptEv.flag) ++ .bad :: [] := by
    rw [scan_items p items hwf]
    obtain ⟨c0, r0, he, hc0⟩ := body_head ls [c] hl (fun _ _ h => by cases h; exact hc45) (by simp)
    rw [he] at hcl
    rw [he, scan_word_missing p c0 r0 [] hc0 c (by rw [hcl]), hcl]
    simp
  exact parseArgs_of_events p _ _ .bad [] st .usage hs h1 rfl

/-- `-D` with an argument without `=` (joined or as the next word): "missing macro separator". -/
theorem parseArgs_missing_separator (p : Bool) (items : List CmdItem) (hwf : ∀ it ∈ items, it.wf = true) (o : Opts)
    (hm : cmdMeaning items {} = .ok o) (ls : Bytes) (hl : ls.all isFlagLetter = true) (a : Bytes) (ha : a.contains 61 = false)
    (rest : List Bytes) :
    parseArgs p (renderCmd items ++ (45 :: (ls ++ [68])) :: a :: rest) = .error (.macroSeparator a) := by
  obtain ⟨st, h1, _, _⟩ := loop_items_flags items hwf o hm ls hl
  have hcl := cluster_flags ls [68] hl
  rw [cluster_arg_last 68 look_D] at hcl
  have hs : (getoptScan Gen.optstring p (renderCmd items ++ (45 :: (ls ++ [68])) :: a :: rest) []).events =
      (itemsEvents items ++ ls.map OptEv.flag) ++ .arg 68 a :: (getoptScan Gen.optstring p rest []).events := by
    rw [scan_items p items hwf]
    obtain ⟨c0, r0, he, hc0⟩ := body_head ls [68] hl (fun _ _ h => by cases h; decide) (by simp)
    rw [he] at hcl
    rw [he, scan_word_some p c0 r0 a rest [] hc0 68 (by rw [hcl]), hcl]
    simp
  refine parseArgs_of_events p _ _ (.arg 68 a) _ st (.macroSeparator a) hs h1 ?_
  simp only [optStep, splitEq, ha, Bool.false_eq_true, if_false]

/-- The operand test refuses everything but "nothing" and "exactly `-`". -/
theorem operandStep_usage (o : Opts) (ops : List Bytes) : operandStep o ops = .error .usage ↔ ops ≠ [] ∧ ops ≠ [[45]] := by
  cases ops with
  | nil => simp [operandStep]
  | cons a r =>
    cases r with
    | nil =>
      by_cases h : a = [45]
      · simp [operandStep, h]
      · simp [operandStep, h]
    | cons b r => simp [operandStep]

/-! ## what the accepted options are -/

theorem foldl_letterStep_syntax (ls : Bytes) (o : Opts) : (ls.foldl letterStep o).syntaxOnly = (o.syntaxOnly || ls.contains 110) := by
  induction ls generalizing o with
  | nil => simp
  | cons c r ih =>
    rw [List.foldl_cons, ih]
    unfold letterStep
    by_cases h1 : c = 100
    · subst h1; simp
    · by_cases h2 : c = 110
      · subst h2; simp
      · have h1' : (c == 100) = false := by simpa using h1
        have h2' : (c == 110) = false := by simpa using h2
        have h3 : decide ((110 : UInt8) = c) = false := by simpa using fun h => h2 h.symm
        simp [h1', h2', h3]

theorem foldl_letterStep_dry (ls : Bytes) (o : Opts) : (ls.foldl letterStep o).dryrun = (o.dryrun || ls.contains 100) := by
  induction ls generalizing o with
  | nil => simp
  | cons c r ih =>
    rw [List.foldl_cons, ih]
    unfold letterStep
    by_cases h1 : c = 100
    · subst h1; simp
    · have h1' : (c == 100) = false := by simpa using h1
      have h3 : decide ((100 : UInt8) = c) = false := by simpa using fun h => h1 h.symm
      by_cases h2 : c = 110
      · subst h2; simp
      · have h2' : (c == 110) = false := by simpa using h2
        simp [h1', h2', h3]

theorem apply_fields (it : CmdItem) (o o' : Opts) (h : it.apply o = .ok o') :
    o'.syntaxOnly = (o.syntaxOnly || it.letters.contains 110) ∧ o'.dryrun = (o.dryrun || it.letters.contains 100) ∧
    o'.stdinMode = o.stdinMode ∧ o'.defs = o.defs ++ it.defineOf.toList := by
  obtain ⟨ls, tail⟩ := it
  have hs := foldl_letterStep_syntax ls o
  have hd := foldl_letterStep_dry ls o
  have hdefs := foldl_letterStep_defs ls o
  have hstdin : (ls.foldl letterStep o).stdinMode = o.stdinMode := by
    clear hs hd hdefs h
    induction ls generalizing o with
    | nil => rfl
    | cons c r ih =>
      rw [List.foldl_cons, ih]
      unfold letterStep
      split
      · rfl
      · split <;> rfl
  cases tail with
  | none =>
    simp only [CmdItem.apply, Except.ok.injEq] at h
    subst h
    exact ⟨hs, hd, hstdin, by simp [CmdItem.defineOf, hdefs]⟩
  | some aj =>
    obtain ⟨a, j⟩ := aj
    cases a with
    | conf f =>
      simp only [CmdItem.apply, Except.ok.injEq] at h
      subst h
      exact ⟨hs, hd, hstdin, by simp [CmdItem.defineOf, hdefs]⟩
    | define n v =>
      simp only [CmdItem.apply] at h
      split at h
      · cases h
      · simp only [Except.ok.injEq] at h
        subst h
        exact ⟨hs, hd, hstdin, by simp [CmdItem.defineOf, hdefs]⟩

theorem cmdMeaning_fields (items : List CmdItem) (o o' : Opts) (h : cmdMeaning items o = .ok o') :
    o'.syntaxOnly = (o.syntaxOnly || items.any fun it => it.letters.contains 110) ∧
    o'.dryrun = (o.dryrun || items.any fun it => it.letters.contains 100) ∧
    o'.stdinMode = o.stdinMode ∧ o'.defs = o.defs ++ items.filterMap CmdItem.defineOf := by
  induction items generalizing o with
  | nil =>
    simp only [cmdMeaning, Except.ok.injEq] at h
    subst h; simp
  | cons it r ih =>
    simp only [cmdMeaning] at h
    cases ha : it.apply o with
    | error e => rw [ha] at h; cases h
    | ok o1 =>
      rw [ha] at h
      obtain ⟨a1, a2, a3, a4⟩ := apply_fields it o o1 ha
      obtain ⟨b1, b2, b3, b4⟩ := ih o1 h
      refine ⟨by rw [b1, a1]; simp [Bool.or_assoc], by rw [b2, a2]; simp [Bool.or_assoc], by rw [b3, a3], ?_⟩
      rw [b4, a4]
      cases hd : it.defineOf with
      | none => simp [List.filterMap_cons, hd]
      | some d => simp [List.filterMap_cons, hd]

theorem dryVerbosity_fields (o : Opts) :
    (dryVerbosity o).syntaxOnly = o.syntaxOnly ∧ (dryVerbosity o).dryrun = o.dryrun ∧ (dryVerbosity o).stdinMode = o.stdinMode ∧
    (dryVerbosity o).defs = o.defs ∧ (dryVerbosity o).confpath = o.confpath := by
  unfold dryVerbosity
  split <;> exact ⟨rfl, rfl, rfl, rfl, rfl⟩

/-! ## the macro table of the `-D` options -/

theorem macrosOfDefs_eq (ds : List (Bytes × Bytes)) (ms0 ms : List Macro) (h : macrosOfDefs ds ms0 = some ms) :
    ms = ms0 ++ ds.map fun d => stickyEntry d.1 d.2 0 := by
  induction ds generalizing ms0 with
  | nil => simp only [macrosOfDefs, Option.some.injEq] at h; simp [h]
  | cons d r ih =>
    obtain ⟨n, v⟩ := d
    simp only [macrosOfDefs] at h
    cases hi : macrosInsert ms0 n v 0 true with
    | none => rw [hi] at h; cases h
    | some ms1 =>
      rw [hi] at h
      rw [insert_sticky] at hi
      split at hi
      · cases hi
      · simp only [Option.some.injEq] at hi
        subst hi
        rw [ih _ h]; simp

theorem macrosOfDefs_append (ds : List (Bytes × Bytes)) (n v : Bytes) (ms0 : List Macro) :
    macrosOfDefs (ds ++ [(n, v)]) ms0 = match macrosOfDefs ds ms0 with
      | none => none
      | some ms => macrosInsert ms n v 0 true := by
  induction ds generalizing ms0 with
  | nil =>
    simp only [List.nil_append, macrosOfDefs]
    cases macrosInsert ms0 n v 0 true <;> rfl
  | cons d r ih =>
    obtain ⟨n0, v0⟩ := d
    simp only [List.cons_append, macrosOfDefs]
    cases macrosInsert ms0 n0 v0 0 true with
    | none => rfl
    | some ms1 => exact ih ms1

/-- Every accepted `-D name=value` is the first (only) entry of its name, sticky and not yet shadowed. -/
theorem macrosOfDefs_find (ds : List (Bytes × Bytes)) (ms0 ms : List Macro) (h : macrosOfDefs ds ms0 = some ms) (n v : Bytes)
    (hm : (n, v) ∈ ds) :
    (ms0.any fun m => m.name == n) = false ∧ isPathMacro n = false ∧ ms.find? (fun m => m.name == n) = some (stickyEntry n v 0) := by
  induction ds generalizing ms0 with
  | nil => cases hm
  | cons d r ih =>
    obtain ⟨n0, v0⟩ := d
    simp only [macrosOfDefs] at h
    cases hi : macrosInsert ms0 n0 v0 0 true with
    | none => rw [hi] at h; cases h
    | some ms1 =>
      rw [hi] at h
      rw [insert_sticky] at hi
      split at hi
      · cases hi
      · rename_i hcond
        simp only [Option.some.injEq] at hi
        subst hi
        simp only [Bool.or_eq_true, not_or, Bool.not_eq_true] at hcond
        rcases List.mem_cons.1 hm with he | hr
        · cases he
          refine ⟨hcond.2, hcond.1, ?_⟩
          rw [macrosOfDefs_eq r _ ms h, List.append_assoc, List.find?_append]
          have : ms0.find? (fun m => m.name == n) = none := by
            rw [List.find?_eq_none]
            intro x hx
            have := List.any_eq_false.1 hcond.2 x hx
            simpa using this
          simp [this, stickyEntry]
        · obtain ⟨i1, i2, i3⟩ := ih _ h hr
          rw [List.any_append] at i1
          simp only [Bool.or_eq_false_iff] at i1
          exact ⟨i1.1, i2, i3⟩

/-- The state of the option loop: the table holds exactly the accepted definitions. -/
def Inv2 (st : OptSt) : Prop := macrosOfDefs st.opts.defs [] = some st.macros

theorem optStep_inv2 (st st' : OptSt) (e : OptEv) (hi : Inv2 st) (h : optStep st e = .ok st') : Inv2 st' := by
  cases e with
  | bad => simp [optStep] at h
  | flag c =>
    unfold optStep at h
    split at h <;> first | (cases h; exact hi) | cases h | (rename_i hq; cases hq)
  | arg c a =>
    by_cases hc : c = 68
    · subst hc
      have hD : optStep st (.arg 68 a) =
          (match splitEq a with
           | none => .error (.macroSeparator a)
           | some (name, value) =>
             match macrosInsert st.macros name value 0 true with
             | none => .error (.macroInvalid name)
             | some ms => .ok { opts := { st.opts with defs := st.opts.defs ++ [(name, value)] }, macros := ms }) := rfl
      rw [hD] at h
      cases hsp : splitEq a with
      | none => rw [hsp] at h; cases h
      | some nv =>
        obtain ⟨name, value⟩ := nv
        rw [hsp] at h
        simp only at h
        cases hins : macrosInsert st.macros name value 0 true with
        | none => rw [hins] at h; cases h
        | some ms =>
          rw [hins] at h
          simp only [Except.ok.injEq] at h
          subst h
          show macrosOfDefs (st.opts.defs ++ [(name, value)]) [] = some ms
          rw [macrosOfDefs_append, hi]
          exact hins
    · unfold optStep at h
      split at h <;> first | (cases h; exact hi) | cases h | (rename_i hq; cases hq; exact absurd rfl hc)

theorem optLoop_inv2 (evs : List OptEv) (st st' : OptSt) (hi : Inv2 st) (h : optLoop evs st = .ok st') : Inv2 st' := by
  induction evs generalizing st with
  | nil => simp only [optLoop, Except.ok.injEq] at h; subst h; exact hi
  | cons e r ih =>
    simp only [optLoop] at h
    cases hs : optStep st e with
    | error x => rw [hs] at h; cases h
    | ok st1 => rw [hs] at h; exact ih st1 (optStep_inv2 st st1 e hi hs) h

theorem operandStep_defs (o o' : Opts) (ops : List Bytes) (h : operandStep o ops = .ok o') : o'.defs = o.defs := by
  unfold operandStep at h
  split at h
  · simp only [Except.ok.injEq] at h; subst h; rfl
  · split at h
    · simp only [Except.ok.injEq] at h; subst h; rfl
    · cases h
  · cases h

/-- Accepted command line: its `-D` options form a table (`macrosOfDefs` cannot fail afterwards). -/
theorem parseArgs_defs_table (p : Bool) (args : List Bytes) (o : Opts) (h : parseArgs p args = .ok o) :
    ∃ ms, macrosOfDefs o.defs [] = some ms := by
  simp only [parseArgs, parseArgsWith] at h
  cases hl : optLoop (getoptScan Gen.optstring p args []).events {} with
  | error e => rw [hl] at h; cases h
  | ok st =>
    rw [hl] at h
    simp only at h
    cases ho : operandStep st.opts (getoptScan Gen.optstring p args []).operands with
    | error e => rw [ho] at h; cases h
    | ok o1 =>
      rw [ho] at h
      simp only [Except.ok.injEq] at h
      subst h
      refine ⟨st.macros, ?_⟩
      rw [(dryVerbosity_fields o1).2.2.2.1, operandStep_defs _ _ _ ho]
      exact optLoop_inv2 _ {} st rfl hl

/-! ## the run -/

theorem mainArgs_refused (p : Bool) (args : List Bytes) (raw : RawEnv) (env : PEnv) (orc : EvalOracles) (rxOk : Pat → Bool)
    (confText : Bytes) (files : Files) (input : Bytes) (e : ArgsErr) (h : parseArgs p args = .error e) :
    mainArgs p args raw env orc rxOk confText files input = .ret (earlyExit files) := by
  simp only [mainArgs, h]

/-- The environment `mainArgs` hands on. -/
def runEnv (env : PEnv) (o : Opts) (home tmpdir confpath : Bytes) : PEnv :=
  { env with home := home, tmpdir := tmpdir, confpath := confpath, dryrun := o.dryrun, syntaxOnly := o.syntaxOnly, stdinMode := o.stdinMode }

theorem mainText_shape (env : PEnv) (orc : EvalOracles) (rxOk : Pat → Bool) (defs : List (Bytes × Bytes)) (confText : Bytes)
    (files : Files) (input : Bytes) :
    mainText env orc rxOk defs confText files input = .ret (earlyExit files) ∨
    ∃ ok conf, mainText env orc rxOk defs confText files input = mainP env orc ok conf files input := by
  cases hp : parseConfig env.home defs rxOk confText with
  | invalidDefs => left; simp only [mainText, hp]; rfl
  | ok blocks =>
    cases hc : confBlocksOf blocks with
    | some conf => exact .inr ⟨true, conf, by simp only [mainText, hp, hc]⟩
    | none => exact .inr ⟨false, [], by simp only [mainText, hp, hc]⟩
  | error l => exact .inr ⟨false, [], by simp only [mainText, hp]⟩
  | fuel => exact .inr ⟨false, [], by simp only [mainText, hp]⟩

/-- An accepted command line: the run ends with status 1 before any call (`readenv` / `defaultconf` give up), or it is
`mainP` in the modes and with the paths the options select. -/
theorem mainArgs_accepted (p : Bool) (args : List Bytes) (raw : RawEnv) (env : PEnv) (orc : EvalOracles) (rxOk : Pat → Bool)
    (confText : Bytes) (files : Files) (input : Bytes) (o : Opts) (h : parseArgs p args = .ok o) :
    mainArgs p args raw env orc rxOk confText files input = .ret (earlyExit files) ∨
    ∃ home tmpdir confpath ok conf, startPaths raw o.confpath = .ok (home, tmpdir, confpath) ∧
      mainArgs p args raw env orc rxOk confText files input = mainP (runEnv env o home tmpdir confpath) orc ok conf files input := by
  simp only [mainArgs, h]
  cases hs : startPaths raw o.confpath with
  | error e => exact .inl rfl
  | ok t =>
    obtain ⟨home, tmpdir, confpath⟩ := t
    rcases mainText_shape (runEnv env o home tmpdir confpath) orc rxOk o.defs confText files input with h1 | ⟨ok, conf, h2⟩
    · exact .inl h1
    · exact .inr ⟨home, tmpdir, confpath, ok, conf, rfl, h2⟩

theorem ret_run {α} (plan : Plan) (x : α) (w : World) :
    (runPlan plan (Prog.ret x) w 0 []).1 = x ∧ callsOf plan (Prog.ret x) w = [] := by
  simp [runPlan, callsOf]


end Mdsort.Proofs.Opts
