import Mdsort.Proofs.PartiesMovers
import Mdsort.Proofs.PartiesCopyScripts

/-! One call on the abstract file system, seen from the handle table: directory handles keep their
path, descriptors and streams keep their file; which calls release them. -/

namespace Mdsort.Proofs.Parties
set_option linter.unusedSimpArgs false
set_option linter.unusedVariables false
open Mdsort Mdsort.Model
open Mdsort.Proofs.World
open Mdsort.Proofs.Own

/-! ## shapes of objects under one call -/

/-- `h` is not a handle the call releases or turns into a stream. -/
def keepsHandle (c : Call) (h : Handle) : Prop :=
  c ≠ .close h ∧ c ≠ .closedir h ∧ c ≠ .fclose h ∧ c ≠ .fdopen h

theorem subject_cases {c : Call} {h : Handle} (hs : Call.subject c = some h) :
    c = .readdir h ∨ c = .rewinddir h ∨ c = .closedir h ∨ c = .read h ∨ (∃ d, c = .write h d) ∨ c = .close h ∨
      c = .fdopen h ∨ (∃ d, c = .fprintf h d) ∨ c = .fflush h ∨ c = .fclose h := by
  cases c <;> simp [Call.subject] at hs <;> subst hs <;> simp

theorem obj_applyWrite_file {w : World} {h : Handle} {g off : Nat} {wr : Bool} (ho : w.obj h = .file g off wr)
    (data : Bytes) (n : Nat) : ∃ off', (applyWrite w h data n).obj h = .file g off' wr := by
  have hl : h < w.handles.length := lt_of_obj_ne_closed w h (by simp [ho])
  unfold applyWrite
  simp only [ho]
  split
  · exact ⟨off + n, by simp [obj_setObj, hl]⟩
  · exact ⟨_, ho⟩

theorem obj_applyWrite_stream {w : World} {h : Handle} {g : Nat} {buf : Bytes} (ho : w.obj h = .stream g buf)
    (data : Bytes) (n : Nat) : (applyWrite w h data n).obj h = .stream g (buf ++ data.take n) := by
  have hl : h < w.handles.length := lt_of_obj_ne_closed w h (by simp [ho])
  unfold applyWrite
  simp only [ho]
  simp [obj_setObj, hl]

/-- A descriptor stays a descriptor on the same file, unless it is closed or made a stream. -/
theorem core_obj_file (w : World) (c : Call) (r : Res) (h : Handle) (g off : Nat) (wr : Bool)
    (ho : w.obj h = .file g off wr) (hk : keepsHandle c h) : ∃ off', (core w c r).obj h = .file g off' wr := by
  have hl : h < w.handles.length := lt_of_obj_ne_closed w h (by simp [ho])
  by_cases hs : Call.subject c = some h
  · rcases subject_cases hs with rfl | rfl | rfl | rfl | ⟨d, rfl⟩ | rfl | rfl | ⟨d, rfl⟩ | rfl | rfl
    · exact ⟨off, by cases r <;> simp [core, applyOk, ho]⟩
    · exact ⟨off, by cases r <;> simp [core, applyOk, ho]⟩
    · exact absurd rfl hk.2.1
    · cases r with
      | ok n =>
        simp only [core, applyOk, ho]
        cases hf : w.file g with
        | none => exact ⟨off, by simpa using ho⟩
        | some f =>
          simp only [Option.bind_some]
          split
          · exact ⟨off + n, by simp [obj_setObj, hl]⟩
          · exact ⟨off, by simpa using ho⟩
      | _ => exact ⟨off, by simp [core, applyOk, ho]⟩
    · cases r with
      | ok n =>
        simp only [core, applyOk]
        split
        · exact ⟨off, by simpa using ho⟩
        · simp only [Option.getD_some]; exact obj_applyWrite_file ho d n
      | _ => exact ⟨off, by simp [core, applyOk, ho]⟩
    · exact absurd rfl hk.1
    · exact absurd rfl hk.2.2.2
    · cases r with
      | ok n =>
        simp only [core, applyOk]
        split
        · exact ⟨off, by simpa using ho⟩
        · simp only [Option.getD_some]; exact obj_applyWrite_file ho d n
      | _ => exact ⟨off, by simp [core, applyOk, ho]⟩
    · exact ⟨off, by cases r <;> simp [core, applyOk, ho]⟩
    · exact absurd rfl hk.2.2.1
  · exact ⟨off, by rw [core_obj w c r h hl hs]; exact ho⟩

/-- A stream stays a stream on the same file, unless it is closed. -/
theorem core_obj_stream (w : World) (c : Call) (r : Res) (h : Handle) (g : Nat) (buf : Bytes)
    (ho : w.obj h = .stream g buf) (hk : keepsHandle c h) : ∃ buf', (core w c r).obj h = .stream g buf' := by
  have hl : h < w.handles.length := lt_of_obj_ne_closed w h (by simp [ho])
  by_cases hs : Call.subject c = some h
  · rcases subject_cases hs with rfl | rfl | rfl | rfl | ⟨d, rfl⟩ | rfl | rfl | ⟨d, rfl⟩ | rfl | rfl
    · exact ⟨buf, by cases r <;> simp [core, applyOk, ho]⟩
    · exact ⟨buf, by cases r <;> simp [core, applyOk, ho]⟩
    · exact absurd rfl hk.2.1
    · exact ⟨buf, by cases r <;> simp [core, applyOk, ho]⟩
    · cases r with
      | ok n =>
        simp only [core, applyOk]
        split
        · exact ⟨buf, by simpa using ho⟩
        · simp only [Option.getD_some]; exact ⟨_, obj_applyWrite_stream ho d n⟩
      | _ => exact ⟨buf, by simp [core, applyOk, ho]⟩
    · exact absurd rfl hk.1
    · exact absurd rfl hk.2.2.2
    · cases r with
      | ok n =>
        simp only [core, applyOk]
        split
        · exact ⟨buf, by simpa using ho⟩
        · simp only [Option.getD_some]; exact ⟨_, obj_applyWrite_stream ho d n⟩
      | _ => exact ⟨buf, by simp [core, applyOk, ho]⟩
    · cases r with
      | ok n =>
        simp only [core, applyOk, ho]
        cases hf : w.file g with
        | none => exact ⟨buf, by simpa using ho⟩
        | some f => exact ⟨[], by simp [obj_setObj, hl]⟩
      | _ => exact ⟨buf, by simp [core, applyOk, ho]⟩
    · exact absurd rfl hk.2.2.1
  · exact ⟨buf, by rw [core_obj w c r h hl hs]; exact ho⟩

/-- A directory handle keeps its path, unless it is closed. -/
theorem core_dirPath_keep (w : World) (c : Call) (r : Res) (d : Handle) (p : Bytes)
    (hp : w.dirPath d = some p) (hk : c ≠ .close d ∧ c ≠ .closedir d) : (core w c r).dirPath d = some p := by
  have hl : d < w.handles.length := lt_of_dirPath hp
  obtain ⟨sn, pos, ho⟩ : ∃ sn pos, w.obj d = .dir p sn pos := by
    unfold World.dirPath at hp
    split at hp
    · rename_i q sn pos ho; cases hp; exact ⟨sn, pos, ho⟩
    · cases hp
  by_cases hs : Call.subject c = some d
  · rcases subject_cases hs with rfl | rfl | rfl | rfl | ⟨x, rfl⟩ | rfl | rfl | ⟨x, rfl⟩ | rfl | rfl
    · cases r with
      | name n =>
        simp only [core, applyOk, ho]
        split
        · simp [World.dirPath, obj_setObj, hl]
        · simpa using hp
      | eof =>
        simp only [core, applyOk, ho]
        split
        · simp [World.dirPath, obj_setObj, hl]
        · simpa using hp
      | _ => simpa [core, applyOk, ho] using hp
    · cases r with
      | ok v => simp [core, applyOk, ho, World.dirPath, obj_setObj, hl]
      | _ => simpa [core, applyOk, ho] using hp
    · exact absurd rfl hk.2
    · cases r <;> simpa [core, applyOk, ho] using hp
    · cases r with
      | ok n =>
        simp only [core, applyOk]
        split
        · simpa using hp
        · simp only [Option.getD_some, World.dirPath, applyWrite, ho]
      | _ => simpa [core, applyOk, ho] using hp
    · exact absurd rfl hk.1
    · cases r <;> simpa [core, applyOk, ho] using hp
    · cases r with
      | ok n =>
        simp only [core, applyOk]
        split
        · simpa using hp
        · simp only [Option.getD_some, World.dirPath, applyWrite, ho]
      | _ => simpa [core, applyOk, ho] using hp
    · cases r <;> simpa [core, applyOk, ho] using hp
    · cases r <;> simpa [core, applyOk, ho] using hp
  · rw [dirPath_congr (core_obj w c r d hl hs)]; exact hp

/-! ## where directory handles come from -/

/-- Every directory handle in `w'` was one in `w` (same path) or is on an existing directory of `w`. -/
def DirsFrom (w w' : World) : Prop := ∀ d p, w'.dirPath d = some p → w.dirPath d = some p ∨ (w.dir p).isSome

theorem dirsFrom_handles {w w' : World} (h : w'.handles = w.handles) : DirsFrom w w' := by
  intro d p hd
  left
  simpa [World.dirPath, World.obj, h] using hd

theorem dirsFrom_set {w w' : World} {h : Handle} {o : Obj} (hh : w'.handles = w.handles.set h o)
    (ho : ∀ p sn pos, o = .dir p sn pos → w.dirPath h = some p) : DirsFrom w w' := by
  intro d p hd
  left
  have hobj : w'.obj d = if d = h ∧ h < w.handles.length then o else w.obj d := by
    have := obj_setObj w h d o
    simpa [World.obj, World.setObj, hh] using this
  unfold World.dirPath at hd
  rw [hobj] at hd
  split at hd
  · rename_i q sn pos heq
    cases hd
    split at heq
    · rename_i hc
      rw [hc.1]
      exact ho _ _ _ heq
    · simp [World.dirPath, heq]
  · cases hd

theorem dirsFrom_new {w w' : World} {o : Obj} (hh : w'.handles = w.handles ++ [o])
    (ho : ∀ p sn pos, o = .dir p sn pos → (w.dir p).isSome) : DirsFrom w w' := by
  intro d p hd
  have hobj : w'.obj d = if d = w.handles.length then o else w.obj d := by
    have := obj_newHandle w d o
    simpa [World.obj, World.newHandle, hh] using this
  unfold World.dirPath at hd
  rw [hobj] at hd
  split at hd
  · rename_i q sn pos heq
    cases hd
    split at heq
    · exact .inr (ho _ _ _ heq)
    · exact .inl (by simp [World.dirPath, heq])
  · cases hd

theorem handles_applyWrite (w : World) (fd : Handle) (data : Bytes) (n : Nat) :
    (applyWrite w fd data n).handles = w.handles ∨
      ∃ o, (applyWrite w fd data n).handles = w.handles.set fd o ∧ ∀ p sn pos, o ≠ .dir p sn pos := by
  unfold applyWrite
  split
  · split
    · exact .inr ⟨_, rfl, by intro _ _ _ h; cases h⟩
    · exact .inl rfl
  · exact .inr ⟨_, rfl, by intro _ _ _ h; cases h⟩
  · exact .inl rfl

theorem dirsFrom_applyWrite (w : World) (fd : Handle) (data : Bytes) (n : Nat) : DirsFrom w (applyWrite w fd data n) := by
  rcases handles_applyWrite w fd data n with h | ⟨o, h, ho⟩
  · exact dirsFrom_handles h
  · exact dirsFrom_set h (fun p sn pos e => absurd e (ho p sn pos))

theorem core_dirsFrom (w : World) (c : Call) (r : Res) : DirsFrom w (core w c r) := by
  have refl : DirsFrom w w := dirsFrom_handles rfl
  unfold core applyOk
  split <;>
    repeat' (first
      | exact refl
      | exact dirsFrom_applyWrite _ _ _ _
      | (apply getD_bind_P (P := DirsFrom w) refl; intro _ _)
      | (apply getD_map_P (P := DirsFrom w) refl; intro _ _)
      | exact dirsFrom_handles rfl
      | (refine dirsFrom_set (h := _) (o := _) rfl ?_; intro _ _ _ h;
          first | (cases h; done) | (cases h; simp [World.dirPath, *]; done))
      | (refine dirsFrom_new (o := _) rfl ?_; intro _ _ _ h; first | (cases h; done) | (cases h; simp [*]; done))
      | (refine dirsFrom_handles ?_; simp only [handles_bind, handles_unbind, handles_setFile, handles_setMtime]; done)
      | (refine dirsFrom_new (o := Obj.file w.nextFid 0 true) ?_ ?_
         · simp [World.newHandle]
         · intro _ _ _ h; cases h)
      | split
      | (show DirsFrom w ((if _ then _ else _ : Option World).getD w)))

end Mdsort.Proofs.Parties
