import Mdsort.Proofs.WorldLinScripts
import Mdsort.Proofs.WorldWholeMsg
import Mdsort.Proofs.WorldStdinProc

/-!
# `processMessage` under EVERY fault plan, by lineage

The message's entry `(md.path, name)` is bound to the file `fid`; `message_parse` opens exactly that file, which makes it
the message being processed (`Lin.cur`); from then on every file the action list makes descends from what `fid`
descended from.  After every call some entry is bound to a file that DESCENDS FROM the message and holds the message or
its complete rewrite, visibly and durably (`LGood`); the origin of every file that existed is unchanged (`LinPre`).
-/

namespace Mdsort.Proofs
open Mdsort Mdsort.Model
open Mdsort.Proofs.World (wp wp_mono wp_inv_mono wp_bind_mono wp_call_any GoodAt Good GoodN LG LGood LinPre LinCur LinInv Hist linAt
  bind_eq pure_eq call_bind ret_bind call_bind' All Calls NotOpenRd)

/-- The invariant of `processMessage` on a message that descends from `f0`. -/
def LPM (w0 : World) (l0 : Lin) (N0 : Nat) (o0 : Nat → Nat) (f0 : Nat) (cs : List Bytes) (w : World) : Prop :=
  LinPre w0 l0 N0 o0 w ∧ LGood w0 l0 f0 cs w

theorem LPM.of_lg {w0 : World} {l0 : Lin} {N0 : Nat} {o0 : Nat → Nat} {f0 fid0 : Nat} {cs : List Bytes} {w : World}
    (h : LG w0 l0 N0 o0 f0 fid0 cs w) (h0 : fid0 < N0) (ho : o0 fid0 = f0) : LPM w0 l0 N0 o0 f0 cs w :=
  ⟨h.1.1, h.lgood h0 ho⟩

namespace World

theorem nord_readAll (fd : Handle) (fuel : Nat) : Calls NotOpenRd (readAll fd fuel) := by
  induction fuel with
  | zero => exact Calls.ret_intro' _
  | succ n ih =>
    unfold readAll
    simp only [bind_eq, pure_eq, call_bind]
    repeat' (first | exact ih | nord_step)

theorem harmless_freeP (ms : MsgSt) : Calls Harmless (freeP ms) := by
  unfold freeP
  simp only [call_bind]
  repeat' harmless_step

theorem nord_freeP (ms : MsgSt) : Calls NotOpenRd (freeP ms) := by
  unfold freeP
  simp only [call_bind]
  repeat' nord_step

end World

/-- `message_parse` of the message bound to `fid`: the invariant after every call; if a message is returned, the
file that was opened is `fid` and the lineage invariant of the action list holds. -/
theorem lin_messageParseP {w0 : World} {l0 : Lin} (d : Handle) (dir name content : Bytes) (cs : List Bytes) {wP : World} {fid : Nat}
    (hH : Hist w0 wP) (hp : wP.dirPath d = some dir) (hl : wP.lookup dir name = some fid) (hg0 : GoodAt wP cs dir name fid) :
    wp (LPM w0 l0 wP.nextFid (linAt w0 l0 wP).org ((linAt w0 l0 wP).org fid) cs) (messageParseP d dir name content)
      (fun pm w' => LPM w0 l0 wP.nextFid (linAt w0 l0 wP).org ((linAt w0 l0 wP).org fid) cs w' ∧
        (pm.isSome → LG w0 l0 wP.nextFid (linAt w0 l0 wP).org ((linAt w0 l0 wP).org fid) fid cs w')) wP := by
  have hlt : fid < wP.nextFid := hg0.2.1
  have hpre0 : LinPre w0 l0 wP.nextFid (linAt w0 l0 wP).org wP := LinPre.start hH
  unfold messageParseP
  simp only [bind_eq, pure_eq, call_bind]
  refine wp_call_any fun ro => ?_
  have hpre1 := hpre0.step (.openRd d name) ro
  have hg1 := hg0.step (.openRd d name) ro trivial trivial
  have horg1 : (linAt w0 l0 (stepWorld wP (.openRd d name) ro)).org fid = (linAt w0 l0 wP).org fid := hpre1.old fid hlt
  have hlpm1 : LPM w0 l0 wP.nextFid (linAt w0 l0 wP).org ((linAt w0 l0 wP).org fid) cs (stepWorld wP (.openRd d name) ro) :=
    ⟨hpre1, dir, name, fid, hg1, horg1⟩
  refine ⟨hlpm1, ?_⟩
  cases ro with
  | ok fd =>
    have hopen : openedFile wP (.openRd d name) (.ok fd) = some fid := by simp [openedFile, hp, hl]
    have hLG : LG w0 l0 wP.nextFid (linAt w0 l0 wP).org ((linAt w0 l0 wP).org fid) fid cs (stepWorld wP (.openRd d name) (.ok fd)) := by
      refine ⟨⟨hpre1, ⟨fid, ?_, horg1⟩, ?_⟩, dir, name, fid, hg1, .inl rfl⟩
      · rw [World.linAt_step l0 hH, World.linStep_cur_some _ _ _ _ fid hopen]
      · intro g h1 h2
        rw [World.stepWorld_nextFid, World.core_nextFid_eq _ _ _ rfl] at h2
        omega
    dsimp only
    refine wp_mono (wp_inv_mono (World.lg_harmless_all (P := fun _ => True) ?_ ?_ (World.All.trivial' _) hLG)
      (fun _ h => LPM.of_lg h hlt rfl)) (fun pm w' h => ⟨LPM.of_lg h.1 hlt rfl, fun _ => h.1⟩)
    · repeat' (first | exact World.harmless_readAll _ _ | harmless_step)
    · repeat' (first | exact World.nord_readAll _ _ | nord_step)
  | err e => exact ⟨hlpm1, by intro h; cases h⟩
  | name x => exact ⟨hlpm1, by intro h; cases h⟩
  | eof => exact ⟨hlpm1, by intro h; cases h⟩

theorem GoodAt_mono {w : World} {cs cs' : List Bytes} {p n : Bytes} {g : Nat} (h : GoodAt w cs p n g)
    (hs : ∀ c ∈ cs, c ∈ cs') : GoodAt w cs' p n g := by
  obtain ⟨h1, h2, f, h3, h4, h5⟩ := h
  exact ⟨h1, h2, f, h3, hs _ h4, hs _ h5⟩

theorem LG.mono {w0 : World} {l0 : Lin} {N0 : Nat} {o0 : Nat → Nat} {f0 fid0 : Nat} {cs cs' : List Bytes} {w : World}
    (h : LG w0 l0 N0 o0 f0 fid0 cs w) (hs : ∀ c ∈ cs, c ∈ cs') : LG w0 l0 N0 o0 f0 fid0 cs' w := by
  obtain ⟨hli, p, n, g, hg, hA⟩ := h
  exact ⟨hli, p, n, g, GoodAt_mono hg hs, hA⟩

theorem LPM.mono {w0 : World} {l0 : Lin} {N0 : Nat} {o0 : Nat → Nat} {f0 : Nat} {cs cs' : List Bytes} {w : World}
    (h : LPM w0 l0 N0 o0 f0 cs w) (hs : ∀ c ∈ cs, c ∈ cs') : LPM w0 l0 N0 o0 f0 cs' w := by
  obtain ⟨hp, p, n, g, hg, ho⟩ := h
  exact ⟨hp, p, n, g, GoodAt_mono hg hs, ho⟩

/-- The invariant of `processMessage` while the answers of the operating system to the questions of evaluation
(`command`, `isdirectory`, file-time `date` conditions) are not known: for SOME answers `as`. -/
def LPMA (env : PEnv) (orc : EvalOracles) (expr : Expr) (w0 : World) (l0 : Lin) (N0 : Nat) (o0 : Nat → Nat) (f0 : Nat)
    (dir name content : Bytes) (w : World) : Prop :=
  ∃ as, LPM w0 l0 N0 o0 f0 [content, wholeRewrite env orc expr dir name content as] w

/-- **One message, by lineage**: `processMessage` on a registered message whose entry is bound to the file `fid`
(complete, as registered), rules without discard, under every fault plan: after every call the origin of every file that
existed is unchanged, and some entry is bound to a file that descends from what `fid` descended from and holds the
message or a complete rewrite of it by the rules (for some answers of the operating system), visibly and durably. -/
theorem lin_processMessage (env : PEnv) (orc : EvalOracles) (expr : Expr) (md : Maildir) (name : Bytes) (st : MainSt)
    {w0 : World} {l0 : Lin} {wP : World} {d : Handle} {content : Bytes} {fid : Nat}
    (hH : Hist w0 wP) (hd : md.dirH = some d) (hp : wP.dirPath d = some md.path)
    (hfc : st.files.get md.path name = some content)
    (hl : wP.lookup md.path name = some fid) (hlt : fid < wP.nextFid) (hf : wP.file fid = some ⟨content, content⟩)
    (hnd : WholeNoDiscard env orc expr) :
    wp (LPMA env orc expr w0 l0 wP.nextFid (linAt w0 l0 wP).org ((linAt w0 l0 wP).org fid) md.path name content)
      (processMessage env orc expr md name st)
      (fun _ w' => LPMA env orc expr w0 l0 wP.nextFid (linAt w0 l0 wP).org ((linAt w0 l0 wP).org fid) md.path name content w') wP := by
  rw [processMessage_eq env orc expr md name st d content hd hfc]
  have hg0 : GoodAt wP [content] md.path name fid := ⟨hl, hlt, _, hf, by simp, by simp⟩
  -- while the answers are not known: the message itself is there
  have inv0 : ∀ w', LPM w0 l0 wP.nextFid (linAt w0 l0 wP).org ((linAt w0 l0 wP).org fid) [content] w' →
      LPMA env orc expr w0 l0 wP.nextFid (linAt w0 l0 wP).org ((linAt w0 l0 wP).org fid) md.path name content w' :=
    fun w' h => ⟨[], h.mono (by intro c hc; simp only [List.mem_singleton] at hc; subst hc; simp)⟩
  refine wp_bind_mono (wp_inv_mono (whole_wp_all (lin_messageParseP (l0 := l0) d md.path name content _ hH hp hl hg0)
    (all_messageParseP_as d md.path name content)) inv0) ?_
  rintro pm w1 ⟨⟨hlpm, hlg⟩, hpa⟩
  cases pm with
  | none => exact inv0 _ hlpm
  | some ms =>
    have hLG0 := hlg rfl
    simp only [afterParse]
    -- evaluation: `open("/dev/null")`, `fork`, `waitpid`, `close`, `stat` only
    have hcE : Calls World.Harmless (evalMs env orc expr ms) :=
      calls_mono' (evalP_calls _ _ _ _) (by
        rintro c (h | h | h | ⟨x, h⟩ | ⟨x, h⟩)
        · subst h; exact True.intro
        · obtain ⟨_, _, rfl⟩ := Call.isFork_iff.1 h; exact True.intro
        all_goals subst h; exact True.intro)
    have hcN : Calls NotOpenRd (evalMs env orc expr ms) :=
      calls_mono' (evalP_calls _ _ _ _) (by
        rintro c (h | h | h | ⟨x, h⟩ | ⟨x, h⟩)
        · subst h; exact True.intro
        · obtain ⟨_, _, rfl⟩ := Call.isFork_iff.1 h; exact True.intro
        all_goals subst h; exact True.intro)
    refine wp_bind_mono (wp_inv_mono (World.whole_wp_and (World.lg_harmless hcE hcN hLG0)
      (World.wp_evalFoot (msgEnv env orc ms.path) expr ms.msg ms.flags w1))
      (fun w' h => inv0 w' (LPM.of_lg h.1 hlt rfl))) ?_
    rintro ev w2 ⟨hLG1, -, as, hev⟩
    have hv : evVerdict env orc ms ev = verdictA env orc expr md.path name content as := by
      rw [hev]; exact msVerdictA_of_parsed env orc expr md.path name content ms hpa as
    rw [hv]
    have hLG : LG w0 l0 wP.nextFid (linAt w0 l0 wP).org ((linAt w0 l0 wP).org fid) fid
        [content, wholeRewrite env orc expr md.path name content as] w2 :=
      LG.mono hLG1 (by intro c hc; simp only [List.mem_singleton] at hc; subst hc; simp)
    have invA : ∀ w', LG w0 l0 wP.nextFid (linAt w0 l0 wP).org ((linAt w0 l0 wP).org fid) fid
          [content, wholeRewrite env orc expr md.path name content as] w' →
        LPMA env orc expr w0 l0 wP.nextFid (linAt w0 l0 wP).org ((linAt w0 l0 wP).org fid) md.path name content w' :=
      fun w' h => ⟨as, LPM.of_lg h hlt rfl⟩
    have freeThen : ∀ (ms' : MsgSt) (r : MainSt × Maildir) (w3 : World),
        LG w0 l0 wP.nextFid (linAt w0 l0 wP).org ((linAt w0 l0 wP).org fid) fid
          [content, wholeRewrite env orc expr md.path name content as] w3 →
        wp (LPMA env orc expr w0 l0 wP.nextFid (linAt w0 l0 wP).org ((linAt w0 l0 wP).org fid) md.path name content)
          ((freeP ms').bind fun _ => Prog.ret r)
          (fun _ w' => LPMA env orc expr w0 l0 wP.nextFid (linAt w0 l0 wP).org ((linAt w0 l0 wP).org fid) md.path name content w') w3 := by
      intro ms' r w3 h3
      refine wp_bind_mono (wp_inv_mono (World.lg_harmless (World.harmless_freeP ms') (World.nord_freeP ms') h3) invA) ?_
      intro _ w4 h4
      exact invA _ h4
    cases hvd : verdictA env orc expr md.path name content as with
    | unparsable => simp only [afterVerdict]; exact freeThen ms _ _ hLG
    | error => simp only [afterVerdict]; exact freeThen ms _ _ hLG
    | interpFail => simp only [afterVerdict]; exact freeThen ms _ _ hLG
    | «nomatch» => simp only [afterVerdict]; exact freeThen ms _ _ hLG
    | act ml msgs fl =>
      simp only [afterVerdict]
      split
      · exact freeThen _ _ _ hLG
      · have hml : NoDiscard ml := hnd md.path name content as ml msgs fl hvd
        have hrw : wholeRewrite env orc expr md.path name content as = (messageWrite (msgs 0)).1 := by
          unfold wholeRewrite; rw [hvd]; rfl
        refine wp_bind_mono (wp_inv_mono (World.lin_matchesExec env ml
          { src := md, chsrc := false, ms := { ms with msg := msgs 0, flags := fl }, reject := false } hLG
          (by rw [hrw]; simp) hml) invA) ?_
        intro x w3 h3
        exact freeThen _ _ _ h3

end Mdsort.Proofs
