import Mdsort.Proofs.EvalAttParse

/-!
# The shape with `pass` / `break` last is a special case of the shape with them anywhere (C03)

`Spec.parseRulesA` (control action last) accepts a subset of what `Spec.parseRulesAW` accepts and
gives the same rules; a tree it accepts is `ctlPlaced`.  This is what makes the theorems stated
over `parseBlockA` corollaries of the ones stated over `parseBlockAW`.
-/

namespace Mdsort.Proofs
open Mdsort Mdsort.Model Mdsort.Spec

/-! ## what `parseRuleA` recognises (lists) -/

def att_parseActsL : List Expr → Option (List ActA)
  | [] => some []
  | x :: xs =>
    match parseActA x, att_parseActsL xs with
    | some a, some as => some (a :: as)
    | _, _ => Option.none

theorem att_parseActsL_snoc : ∀ (xs : List Expr) (as : List ActA) (x : Expr) (a : ActA),
    att_parseActsL xs = some as → parseActA x = some a → att_parseActsL (xs ++ [x]) = some (as ++ [a]) := by
  intro xs
  induction xs with
  | nil =>
    intro as x a h hx
    simp only [att_parseActsL, Option.some.injEq] at h
    subst h
    simp [att_parseActsL, hx]
  | cons y ys ih =>
    intro as x a h hx
    simp only [att_parseActsL] at h
    cases hy : parseActA y with
    | none => simp [hy] at h
    | some ry =>
      cases hys : att_parseActsL ys with
      | none => simp [hy, hys] at h
      | some rys =>
        simp only [hy, hys, Option.some.injEq] at h
        subst h
        simp [att_parseActsL, hy, ih rys x a hys hx]

theorem att_parseChainA_andChainL : ∀ (e : Expr) (as : List ActA), parseChainA e = some as →
    att_parseActsL (andChain e) = some as := by
  intro e
  induction e with
  | and lno l r ihl _ =>
    intro as h
    rw [parseChainA] at h
    cases hl : parseChainA l with
    | none => simp [hl] at h
    | some ls =>
      cases hr : parseActA r with
      | none => simp [hl, hr] at h
      | some x =>
        simp only [hl, hr, Option.some.injEq] at h
        subst h
        rw [andChain]
        exact att_parseActsL_snoc _ _ _ _ (ihl ls hl) hr
  | _ =>
    intro as h
    simp only [parseChainA, Option.map_eq_some_iff] at h
    obtain ⟨x, hx, rfl⟩ := h
    simp [andChain, att_parseActsL, hx]

/-- The two shapes `parseRuleA` accepts: a nested block, or actions `es` followed by at most one
control action. -/
theorem att_parseRuleA_specL {x : Expr} {r : RuleA} (h : parseRuleA x = some r) :
    (∃ lno c l e rs, x = .mtch lno c (.block l e) ∧ r = .blk lno c rs ∧ isCond c = true ∧
      parseRulesA e = some rs) ∨
    (∃ lno c rhs as ctl es tail, x = .mtch lno c rhs ∧ r = .acts lno c as ctl ∧ isCond c = true ∧
      (∀ l e, rhs ≠ .block l e) ∧ andChain rhs = es ++ tail ∧ att_parseActsL es = some as ∧
      ((ctl = .none ∧ tail = [] ∧ as ≠ []) ∨ (∃ xc, tail = [xc] ∧ isCtlExpr xc = some ctl))) := by
  cases x with
  | mtch lno c rhs =>
    by_cases hc : isCond c = true
    · cases rhs with
      | block l e =>
        left
        simp only [parseRuleA, hc, Bool.not_true, Bool.false_eq_true, if_false, Option.map_eq_some_iff] at h
        obtain ⟨rs, h1, h2⟩ := h
        exact ⟨lno, c, l, e, rs, rfl, h2.symm, hc, h1⟩
      | and l0 l r0 =>
        right
        simp only [parseRuleA, hc, Bool.not_true, Bool.false_eq_true, if_false] at h
        cases hctl : isCtlExpr r0 with
        | some ctl =>
          simp only [hctl, Option.map_eq_some_iff] at h
          obtain ⟨as, h1, h2⟩ := h
          exact ⟨lno, c, _, as, ctl, andChain l, [r0], rfl, h2.symm, hc, (by intro _ _ hh; cases hh), rfl,
            att_parseChainA_andChainL l as h1, Or.inr ⟨r0, rfl, hctl⟩⟩
        | none =>
          simp only [hctl] at h
          cases hl : parseChainA l with
          | none => simp [hl] at h
          | some ls =>
            cases hr : parseActA r0 with
            | none => simp [hl, hr] at h
            | some a =>
              simp only [hl, hr, Option.some.injEq] at h
              refine ⟨lno, c, _, ls ++ [a], .none, andChain l ++ [r0], [], rfl, h.symm, hc, (by intro _ _ hh; cases hh),
                by simp [andChain],
                att_parseActsL_snoc _ _ _ _ (att_parseChainA_andChainL l ls hl) hr, Or.inl ⟨rfl, rfl, by simp⟩⟩
      | _ =>
        right
        simp only [parseRuleA, hc, Bool.not_true, Bool.false_eq_true, if_false] at h
        first
          | (simp only [isCtlExpr, Option.some.injEq] at h
             exact ⟨lno, c, _, [], _, [], [_], rfl, h.symm, hc, (by intro _ _ hh; cases hh), rfl, rfl,
               Or.inr ⟨_, rfl, rfl⟩⟩)
          | (simp only [isCtlExpr, Option.map_eq_some_iff] at h
             obtain ⟨a, h1, h2⟩ := h
             exact ⟨lno, c, _, [a], .none, [_], [], rfl, h2.symm, hc, (by intro _ _ hh; cases hh), rfl,
               by simp [att_parseActsL, h1], Or.inl ⟨rfl, rfl, by simp⟩⟩)
    · cases rhs <;> simp [parseRuleA, hc] at h
  | _ => simp [parseRuleA] at h

/-! ## small facts -/

theorem att_sizeOf_andChain : ∀ (e : Expr), ∀ y ∈ andChain e, sizeOf y ≤ sizeOf e := by
  intro e
  induction e with
  | and lno l r ihl _ =>
    intro y hy
    rw [andChain] at hy
    simp only [Expr.and.sizeOf_spec]
    rcases List.mem_append.1 hy with hy | hy
    · have := ihl y hy; omega
    · simp only [List.mem_singleton] at hy; subst hy; omega
  | _ =>
    intro y hy
    simp only [andChain, List.mem_singleton] at hy
    subst hy
    exact Nat.le_refl _

theorem ctlPlaced_of_isCond : ∀ (c : Expr), isCond c = true → ctlPlaced c = true := by
  intro c
  induction c with
  | and _ l r ihl ihr =>
    intro h
    simp only [isCond, Bool.and_eq_true] at h
    simp [ctlPlaced, ihl h.1, ihr h.2]
  | or _ l r ihl ihr =>
    intro h
    simp only [isCond, Bool.and_eq_true] at h
    simp [ctlPlaced, ihl h.1, ihr h.2]
  | neg _ e ih => intro h; simp only [isCond] at h; simp [ctlPlaced, ih h]
  | attachment _ e ih => intro h; simp only [isCond] at h; simp [ctlPlaced, ih h]
  | _ => intro h; first | rfl | simp [isCond] at h

theorem ctlPlaced_of_andChain : ∀ (e : Expr), (∀ y ∈ andChain e, ctlPlaced y = true) → ctlPlaced e = true := by
  intro e
  induction e with
  | and lno l r ihl _ =>
    intro h
    rw [andChain] at h
    simp only [ctlPlaced, Bool.and_eq_true]
    exact ⟨ihl fun y hy => h y (by simp [hy]), h r (by simp)⟩
  | _ =>
    intro h
    exact h _ (by simp [andChain])

theorem placedOK_noctl : ∀ (es : List Expr), (∀ x ∈ es, isCtlExpr x = Option.none) → placedOK es = true := by
  intro es
  induction es with
  | nil => intro _; rfl
  | cons x xs ih =>
    intro h
    rw [placedOK_cons_plain x xs (h x (by simp))]
    exact ih fun y hy => h y (by simp [hy])

theorem placedOK_ctl_last : ∀ (es : List Expr) (xc : Expr), (∀ x ∈ es, isCtlExpr x = Option.none) →
    (isCtlExpr xc).isSome = true → placedOK (es ++ [xc]) = true := by
  intro es
  induction es with
  | nil =>
    intro xc _ hc
    rcases isCtlExpr_cases xc with hn | ⟨l, rfl⟩ | ⟨l, rfl⟩
    · rw [hn] at hc; cases hc
    · rfl
    · rfl
  | cons x xs ih =>
    intro xc h hc
    rw [List.cons_append, placedOK_cons_plain x _ (h x (by simp))]
    exact ih xc (fun y hy => h y (by simp [hy])) hc

/-- `parseRuleAW` on a rule with actions, in terms of the list of its items. -/
theorem parseRuleAW_acts_eq (lno : Nat) (c rhs : Expr) (hc : isCond c = true) (hnb : ∀ l e, rhs ≠ .block l e) :
    parseRuleAW (.mtch lno c rhs) =
      match ctlOfList (andChain rhs), att_parseItems (andChain rhs) with
      | some ctl, some as => some (RuleA.acts lno c as ctl)
      | _, _ => Option.none := by
  rw [← att_parseChainAW_andChain]
  cases rhs with
  | block l e => exact absurd rfl (hnb l e)
  | _ =>
    rw [parseRuleAW]
    · simp only [hc, Bool.not_true, Bool.false_eq_true, if_false]
      rfl
    · intro _ _ hh; cases hh

theorem att_isCtl_of_parseActA {x : Expr} {a : ActA} (h : parseActA x = some a) : isCtlExpr x = Option.none := by
  cases x <;> first | rfl | simp [parseActA, isActionExpr] at h

/-! ## the implication -/

theorem att_widen (n : Nat) : ∀ (e : Expr), sizeOf e < n →
    (∀ a, parseActA e = some a → parseActAW e = some a ∧ ctlPlaced e = true) ∧
    (∀ r, parseRuleA e = some r → parseRuleAW e = some r ∧ ctlPlaced e = true) ∧
    (∀ rs, parseRulesA e = some rs → parseRulesAW e = some rs ∧ ctlPlaced e = true) := by
  induction n with
  | zero => intro e h; omega
  | succ n ih =>
    intro e hsz
    -- one action
    have hact : ∀ a, parseActA e = some a → parseActAW e = some a ∧ ctlPlaced e = true := by
      intro a h
      cases e with
      | attBlock l b =>
        cases b with
        | block l' e' =>
          simp only [parseActA, Option.map_eq_some_iff] at h
          obtain ⟨rs, h1, h2⟩ := h
          have hs : sizeOf e' < n := by
            simp only [Expr.attBlock.sizeOf_spec, Expr.block.sizeOf_spec] at hsz; omega
          obtain ⟨g1, g2⟩ := (ih e' hs).2.2 rs h1
          simp only [parseActAW, g1, Option.map_some, h2, ctlPlaced, g2, and_self]
        | _ => simp [parseActA, isActionExpr] at h
      | _ =>
        simp only [parseActA, isActionExpr] at h
        first
          | (simp only [if_true, Option.some.injEq] at h
             subst h
             simp [parseActAW, isActionExpr, ctlPlaced])
          | (simp at h)
    -- one rule
    have hrule : ∀ r, parseRuleA e = some r → parseRuleAW e = some r ∧ ctlPlaced e = true := by
      intro r h
      rcases att_parseRuleA_specL h with ⟨lno, c, l, e', rs, rfl, rfl, hc, hpr⟩ |
        ⟨lno, c, rhs, as, ctl, es, tail, rfl, rfl, hc, hnb, hchain, hpacts, htail⟩
      · have hs : sizeOf e' < n := by
          simp only [Expr.mtch.sizeOf_spec, Expr.block.sizeOf_spec] at hsz; omega
        obtain ⟨g1, g2⟩ := (ih e' hs).2.2 rs hpr
        simp [parseRuleAW, hc, g1, ctlPlaced, g2, ctlPlaced_of_isCond c hc]
      · -- the items of the chain
        have hitem : ∀ y ∈ andChain rhs, sizeOf y < n := by
          intro y hy
          have := att_sizeOf_andChain rhs y hy
          simp only [Expr.mtch.sizeOf_spec] at hsz
          omega
        have hes : ∀ (xs : List Expr) (bs : List ActA), (∀ y ∈ xs, sizeOf y < n) → att_parseActsL xs = some bs →
            att_parseActs xs = some bs ∧ (∀ y ∈ xs, isCtlExpr y = Option.none) ∧ (∀ y ∈ xs, ctlPlaced y = true) := by
          intro xs
          induction xs with
          | nil =>
            intro bs _ hb
            simp only [att_parseActsL, Option.some.injEq] at hb
            subst hb
            exact ⟨rfl, by simp, by simp⟩
          | cons y ys ihy =>
            intro bs hsz' hb
            simp only [att_parseActsL] at hb
            cases hy : parseActA y with
            | none => simp [hy] at hb
            | some a =>
              cases hys : att_parseActsL ys with
              | none => simp [hy, hys] at hb
              | some bs' =>
                simp only [hy, hys, Option.some.injEq] at hb
                subst hb
                obtain ⟨g1, g2⟩ := (ih y (hsz' y (by simp))).1 a hy
                obtain ⟨k1, k2, k3⟩ := ihy bs' (fun z hz => hsz' z (by simp [hz])) hys
                refine ⟨by simp [att_parseActs, g1, k1], ?_, ?_⟩
                · intro z hz
                  rcases List.mem_cons.1 hz with rfl | hz
                  · exact att_isCtl_of_parseActA hy
                  · exact k2 z hz
                · intro z hz
                  rcases List.mem_cons.1 hz with rfl | hz
                  · exact g2
                  · exact k3 z hz
        obtain ⟨k1, k2, k3⟩ := hes es as (fun y hy => hitem y (by rw [hchain]; simp [hy])) hpacts
        rw [parseRuleAW_acts_eq lno c rhs hc hnb, hchain, att_parseItems_append es tail k2, k1]
        have hcp : ctlPlaced c = true := ctlPlaced_of_isCond c hc
        have hpm : ∀ (hpo : placedOK (andChain rhs) = true) (hcr : ctlPlaced rhs = true),
            ctlPlaced (.mtch lno c rhs) = true := by
          intro hpo hcr
          simp only [ctlPlaced, Bool.and_eq_true]
          refine ⟨⟨hcp, hcr⟩, ?_⟩
          cases rhs <;> first | exact hpo | exact absurd rfl (hnb _ _)
        rcases htail with ⟨rfl, rfl, _⟩ | ⟨xc, rfl, hcx⟩
        · rw [List.append_nil] at hchain ⊢
          rw [ctlOfList_noctl es k2]
          simp only [att_parseItems, List.append_nil, true_and]
          apply hpm
          · rw [hchain]; exact placedOK_noctl es k2
          · exact ctlPlaced_of_andChain rhs (by rw [hchain]; exact k3)
        · have hxc : (isCtlExpr xc).isSome = true := by rw [hcx]; rfl
          have hitems : att_parseItems [xc] = some [] := by simp [att_parseItems, hxc]
          have hctlv : ctlOfList (es ++ [xc]) = some ctl := by
            rcases isCtlExpr_spec hcx with ⟨rfl, lp, rfl⟩ | ⟨rfl, lb, rfl⟩
            · exact ctlOfList_pass es [] lp k2 (by simp)
            · exact ctlOfList_brk es [] lb k2 (by simp)
          rw [hctlv, hitems]
          simp only [List.append_nil, true_and]
          apply hpm
          · rw [hchain]; exact placedOK_ctl_last es xc k2 hxc
          · apply ctlPlaced_of_andChain rhs
            rw [hchain]
            intro y hy
            rcases List.mem_append.1 hy with hy | hy
            · exact k3 y hy
            · simp only [List.mem_singleton] at hy
              subst hy
              rcases isCtlExpr_spec hcx with ⟨_, lp, rfl⟩ | ⟨_, lb, rfl⟩ <;> rfl
    refine ⟨hact, hrule, ?_⟩
    -- the rules of a block
    intro rs h
    cases e with
    | or lno l r =>
      rw [parseRulesA] at h
      cases hl : parseRulesA l with
      | none => simp [hl] at h
      | some ls =>
        cases hr : parseRuleA r with
        | none => simp [hl, hr] at h
        | some x =>
          simp only [hl, hr, Option.some.injEq] at h
          have hs1 : sizeOf l < n := by simp only [Expr.or.sizeOf_spec] at hsz; omega
          have hs2 : sizeOf r < n := by simp only [Expr.or.sizeOf_spec] at hsz; omega
          obtain ⟨g1, g2⟩ := (ih l hs1).2.2 ls hl
          obtain ⟨k1, k2⟩ := (ih r hs2).2.1 x hr
          rw [parseRulesAW, g1, k1]
          simp [h, ctlPlaced, g2, k2]
    | _ =>
      simp only [parseRulesA, Option.map_eq_some_iff] at h
      obtain ⟨x, hx, rfl⟩ := h
      obtain ⟨g1, g2⟩ := hrule x hx
      simp [parseRulesAW, g1, g2]

/-- What `parseBlockA` accepts, `parseBlockAW` accepts with the same rules, and the tree is `ctlPlaced`. -/
theorem att_parseBlockAW_of_parseBlockA {e : Expr} {rs : List RuleA} (h : parseBlockA e = some rs) :
    parseBlockAW e = some rs ∧ ctlPlaced e = true := by
  cases e with
  | block lno e' =>
    simp only [parseBlockA] at h
    obtain ⟨g1, g2⟩ := (att_widen (sizeOf e' + 1) e' (Nat.lt_succ_self _)).2.2 rs h
    exact ⟨by simpa [parseBlockAW] using g1, by simpa [ctlPlaced] using g2⟩
  | _ => simp [parseBlockA] at h

end Mdsort.Proofs
