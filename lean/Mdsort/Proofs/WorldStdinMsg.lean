import Mdsort.Proofs.WorldStdinProc

/-! The processing of the spooled message (`message_parse` … `message_free`) in a stdin run. -/

namespace Mdsort.Proofs.World
open Mdsort Mdsort.Model

/-- `struct maildir` of the spool once `maildir_stdin` has opened it. -/
def spoolMd (S : Spool) : Maildir :=
  { root := S.sr, path := S.sp, dirH := some S.d, subdir := .new, walk := true, stdin := true }

theorem spec_processMessage_sp (S : Spool) (hS : SpoolShape S) (env : PEnv) (orc : EvalOracles) (expr : Expr) (st : MainSt)
    (name0 input : Bytes) (fid0 : Nat) {w : World}
    (hd : w.dirPath S.d = some S.sp) (hroot : w.dir S.sr = some []) (hsp : w.dir S.sp = some [(name0, fid0)])
    (hfile : w.file fid0 = some ⟨input, input⟩) (hfid : fid0 < w.nextFid) (h95 : (95 : UInt8) ∈ name0)
    (hfiles : st.files.get S.sp name0 = some input) :
    wp (fun _ => True) (processMessage env orc expr (spoolMd S) name0 st)
      (fun r w' => r.2 = spoolMd S ∧ SpoolAll S w w' ∧
        (r.1.error = false → st.error = false ∧ Done S env orc expr input name0 w')) w := by
  have hnames : NamesIn w S.sp [name0] := ⟨[(name0, fid0)], hsp, by simp, by simp⟩
  have two0 : ∀ w', (∀ q, w'.dir q = w.dir q) → ∃ a b, (95 : UInt8) ∈ a ∧ (95 : UInt8) ∈ b ∧ NamesIn w' S.sp [a, b] :=
    fun w' h => ⟨name0, name0, h95, h95, (hnames.congr (h _)).mono (by intro x hx; simp at hx; simp [hx])⟩
  have hgood0 : GoodAt w [input] S.sp name0 fid0 := by
    refine ⟨?_, hfid, _, hfile, by simp, by simp⟩
    simp [World.lookup, hsp]
  have hdlt : S.d < w.handles.length := lt_of_dirPath hd
  unfold processMessage
  simp only [spoolMd, bind_eq, pure_eq, call_bind, hfiles]
  refine wp_bind_mono (spec_messageParseP_sp S True [input] S.sp name0 S.d S.sp name0 input hroot
    (fun _ => ⟨fid0, hgood0⟩)) ?_
  rintro pm w10 ⟨inv10, hdirs10, htr10, hpm⟩
  cases pm with
  | none =>
    have all10 : SpoolAll S w w10 := ⟨inv10.toX _, two0 w10 (dir_of_dirs hdirs10)⟩
    exact ⟨rfl, all10, by intro h; cases h⟩
  | some ms =>
    obtain ⟨⟨hname, hpath, hmsg, hparts, hflags⟩, fd, hfd, hfdge, hfdlt0⟩ := hpm ms rfl
    obtain ⟨n, p, fdo, m, ps, fl, loc, ct⟩ := ms
    dsimp only at hname hpath hmsg hparts hflags hfd
    subst hname hpath hmsg hparts hfd
    dsimp only
    -- evaluation: the questions to the operating system leave directories, files and older handles alone
    refine wp_bind_mono (wp_inv_mono (wp_evalFoot _ expr (parseMessage input) fl w10) (fun _ _ => trivial)) ?_
    rintro ev w1 ⟨ef, as, hev⟩
    have inv1 : Inv S w w1 := inv10.ofFreshN ef.dirs (fun x hx => ef.objs x (Nat.lt_of_lt_of_le hx inv10.len)) ef.len
    have hdirs1 : w1.dirs = w.dirs := ef.dirs.trans hdirs10
    have hfdlt : fd < w1.handles.length := Nat.lt_of_lt_of_le hfdlt0 ef.len
    obtain ⟨f1, hg10⟩ := htr10 trivial
    have hg1 : GoodAt w1 [input] S.sp n f1 := by
      obtain ⟨a1, a2, f, a3, a4, a5⟩ := hg10
      exact ⟨by rw [lookup_of_dirs ef.dirs]; exact a1, by rw [ef.nextFid]; exact a2, f,
        by unfold World.file; rw [ef.files]; exact a3, a4, a5⟩
    have all1 : SpoolAll S w w1 := ⟨inv1.toX _, two0 w1 (dir_of_dirs hdirs1)⟩
    -- the verdict on the value of evaluation is the verdict for the answers the world gave
    have hva : verdictOfEv env orc (parseMessage input) ((getAttachments (parseMessage input)).getD []) (S.sp ++ [47] ++ n) ev =
        stdinVerdictA env orc expr input (S.sp ++ [47] ++ n) fl as := by
      rw [hev]; rfl
    have hdfd : S.d < fd := Nat.lt_of_lt_of_le hdlt hfdge
    have closeOnly : ∀ (res : MainSt × Maildir), res.2 = spoolMd S →
        (res.1.error = false → st.error = false ∧
          DoneV S env input (stdinVerdictA env orc expr input (S.sp ++ [47] ++ n) fl as) w1) →
        wp (fun _ => True)
          ((match (some fd : Option Handle) with
            | some h => Prog.call (Call.close h) fun _ => Prog.ret ()
            | none => Prog.ret ()).bind fun _ => Prog.ret res)
          (fun r w' => r.2 = spoolMd S ∧ SpoolAll S w w' ∧
            (r.1.error = false → st.error = false ∧ Done S env orc expr input n w')) w1 := by
      intro res h1 h2
      refine wp_free (some fd) res _ ?_
      rintro w3 (rfl | ⟨f, rc, hf, rfl⟩)
      · exact ⟨h1, all1, fun he => ⟨(h2 he).1, fl, as, hflags, (h2 he).2⟩⟩
      · cases hf
        exact ⟨h1, all1.close _ rc hdfd, fun he => ⟨(h2 he).1, fl, as, hflags, (h2 he).2.step _ _ trivial⟩⟩
    obtain ⟨t, est⟩ := ev
    cases t with
    | error => exact closeOnly _ rfl (by intro h; cases h)
    | «nomatch» =>
      refine closeOnly _ rfl (fun he => ⟨he, ?_⟩)
      rw [← hva]
      trivial
    | «match» =>
      dsimp only
      split
      · exact closeOnly _ rfl (by intro h; cases h)
      · rename_i ml msgs hint
        have hv : stdinVerdictA env orc expr input (S.sp ++ [47] ++ n) fl as = .actions ml (msgs 0) := by
          rw [← hva]
          simp only [verdictOfEv, evalEnv]
          rw [hint]
        split
        · rename_i hdry
          refine closeOnly _ rfl (fun he => ⟨he, ?_⟩)
          rw [hv]
          intro h
          rw [hdry] at h
          cases h
        · -- the actions are executed
          have pre : ∀ ms1 : MsgSt, ms1.name = n → ms1.fd = some fd → ms1.msg = msgs 0 →
              ActPre S (∀ m ∈ ml, m.ty ≠ .discard) (∀ m ∈ ml, moveTy m.ty → destPath m.path ≠ some S.sp)
                [input, (messageWrite (msgs 0)).1] w1
                { src := spoolMd S, chsrc := false, ms := ms1, reject := false } := by
            intro ms1 e1 e2 e3
            refine ⟨⟨S.d, rfl, inv1.dirPath hd, ?_, fun _ => rfl, (by intro h; cases h), ?_⟩, fun _ => rfl, hS.sp,
              inv1.dirPath hd, inv1.root, ?_, by rw [e1]; exact h95,
              fun _ => ⟨f1, by rw [e1]; exact hg1.mono_cs (by intro x hx; simp at hx; simp [hx])⟩,
              by rw [e3]; simp, by intro _ h; cases h⟩
            · show (w1.dir S.sp).isSome
              rw [dir_of_dirs hdirs1, hsp]; rfl
            · intro f hf
              rw [e2] at hf
              cases hf
              exact ⟨hdfd, Nat.ne_of_gt hdfd, hfdlt⟩
            · show NamesIn w1 S.sp (if S.sp = S.sp then [ms1.name] else [])
              rw [e1]
              simp only [if_true]
              exact hnames.congr (dir_of_dirs hdirs1 _)
          refine wp_bind_mono (spec_matchesExec_sp S hS _ _ _ env ml _ (pre _ rfl rfl rfl) (fun h => h) (fun h => h)) ?_
          rintro ⟨xs, e⟩ w2 ⟨all2, hok2⟩
          dsimp only at hok2 ⊢
          refine wp_free xs.ms.fd _ _ ?_
          intro w3 hw3
          have all2' : SpoolAll S w w2 := ⟨(inv1.toX _).trans all2.1, all2.2.1⟩
          have all3 : SpoolAll S w w3 := by
            rcases hw3 with rfl | ⟨f, rc, hf, rfl⟩
            · exact all2'
            · exact all2'.close f rc (all2.2.2.1 f hf)
          refine ⟨rfl, all3, ?_⟩
          intro he
          have he' : st.error = false ∧ e = false := by simpa using he
          refine ⟨he'.1, fl, as, hflags, ?_⟩
          rw [hv]
          intro _ hT hmv hnsd
          obtain ⟨hexok, hch⟩ := hok2 he'.2
          obtain ⟨f0, hg⟩ := hexok.trk hT
          have hchs := hch (.inr hmv)
          have hne := hexok.nsd hnsd hchs
          refine ⟨xs.src.path, xs.ms.name, f0, hne, ?_⟩
          rcases hw3 with rfl | ⟨f, rc, hf, rfl⟩
          · exact hg
          · exact hg.step _ _ trivial trivial

end Mdsort.Proofs.World
