import Mdsort.Proofs.WorldStdin

/-! `maildir_close` of the stdin maildir: when none of its calls fails, the spool directory, its
entries and its root are gone. -/

namespace Mdsort.Proofs.World
open Mdsort Mdsort.Model

/-! ## fault-free execution -/

/-- Weakest precondition for an execution in which every call returns what the abstract file
system predicts. -/
def wpN {α} : Prog α → (α → World → Prop) → World → Prop
  | .ret a, Q, w => Q a w
  | .call c k, Q, w => wpN (k (predict w c)) Q (stepWorld w c (predict w c))

theorem wpN_bind {α β} {p : Prog α} {f : α → Prog β} {Q : β → World → Prop} {w : World}
    (h : wpN p (fun a w' => wpN (f a) Q w') w) : wpN (p.bind f) Q w := by
  induction p generalizing w with
  | ret a => exact h
  | call c k ih => exact ih _ h

theorem wpN_mono {α} {p : Prog α} {Q Q' : α → World → Prop} {w : World}
    (h : wpN p Q w) (hq : ∀ a w', Q a w' → Q' a w') : wpN p Q' w := by
  induction p generalizing w with
  | ret a => exact hq _ _ h
  | call c k ih => exact ih _ h

theorem wpN_bind_mono {α β} {p : Prog α} {f : α → Prog β} {Q : β → World → Prop} {R : α → World → Prop} {w : World}
    (h : wpN p R w) (hf : ∀ a w', R a w' → wpN (f a) Q w') : wpN (p.bind f) Q w :=
  wpN_bind (wpN_mono h hf)

theorem wpN_call {α} {c : Call} {k : Res → Prog α} {Q : α → World → Prop} {w : World}
    (h : wpN (k (predict w c)) Q (stepWorld w c (predict w c))) : wpN (.call c k) Q w := h

/-- Soundness: a plan that injects nothing from call `i` on. -/
theorem wpN_sound {α} {p : Prog α} {Q : α → World → Prop} {w : World} (plan : Plan) (i : Nat)
    (hp : ∀ j, i ≤ j → plan j = none) (h : wpN p Q w) :
    Q (run plan p w i).1 (run plan p w i).2.1 := by
  induction p generalizing w i with
  | ret a => exact h
  | call c k ih =>
    have hr : faultResult (plan i) w c = predict w c := by rw [hp i (Nat.le_refl _)]; rfl
    simp only [run, hr]
    exact ih _ (i + 1) (fun j hj => hp j (by omega)) h

/-! ## directories after `unbind` / `rmdir` -/

theorem dir_unbind (w : World) (p n q : Bytes) :
    (w.unbind p n).dir q = if q = p then (w.dir p).map (fun es => es.filter (·.1 != n)) else w.dir q := by
  unfold World.unbind
  cases hd : w.dir p with
  | none => by_cases hq : q = p <;> simp [hq, hd]
  | some es =>
    simp only [dir_setDir, hd]
    by_cases hq : q = p <;> simp [hq]

theorem dir_filter_ne (w : World) (q r : Bytes) :
    ({ w with dirs := w.dirs.filter (·.1 != q) } : World).dir r = if r = q then none else w.dir r := by
  unfold World.dir
  simp only [find_filter_ne]
  by_cases h : r = q <;> simp [h]

theorem lookup_none_names {w : World} {p n : Bytes} {es : List (Bytes × Nat)} (hd : w.dir p = some es)
    (hl : w.lookup p n = none) : ∀ e ∈ es, e.1 ≠ n := by
  unfold World.lookup at hl
  rw [hd] at hl
  simp only [Option.bind_some, Option.map_eq_none_iff, List.find?_eq_none] at hl
  intro e he h
  exact hl e he (by simp [h])

/-- What a fault-free `rmdir` does. -/
theorem rmdir_nofault (w : World) (q : Bytes) :
    (∀ r, r ≠ q → (stepWorld w (.rmdir q) (predict w (.rmdir q))).dir r = w.dir r) ∧
    ((stepWorld w (.rmdir q) (predict w (.rmdir q))).dir q = w.dir q ∨
      (stepWorld w (.rmdir q) (predict w (.rmdir q))).dir q = none) ∧
    (w.dir q = some [] → (stepWorld w (.rmdir q) (predict w (.rmdir q))).dir q = none) ∧
    (∀ h, (stepWorld w (.rmdir q) (predict w (.rmdir q))).obj h = w.obj h) := by
  cases hq : w.dir q with
  | none =>
    have hp : predict w (.rmdir q) = .err "ENOENT" := by simp [predict, hq]
    rw [hp]
    have hs := sameFsS_err w (.rmdir q) "ENOENT" (by intro _ h; cases h) (by intro _ h; cases h) (by intro _ h; cases h)
    exact ⟨fun r _ => hs.dir r, .inl (by rw [hs.dir, hq]), (fun h => by cases h), fun h => hs.obj h⟩
  | some es =>
    cases es with
    | nil =>
      have hp : predict w (.rmdir q) = .ok 0 := by simp [predict, hq]
      rw [hp]
      have hc : core w (.rmdir q) (.ok 0) = { w with dirs := w.dirs.filter (·.1 != q) } := by
        simp [core, applyOk, hq]
      refine ⟨?_, .inr ?_, fun _ => ?_, fun h => ?_⟩
      · intro r hr; rw [stepWorld_dir, hc, dir_filter_ne]; simp [hr]
      · rw [stepWorld_dir, hc, dir_filter_ne]; simp
      · rw [stepWorld_dir, hc, dir_filter_ne]; simp
      · rw [stepWorld_obj, hc]; rfl
    | cons e es =>
      have hp : predict w (.rmdir q) = .err "ENOTEMPTY" := by simp [predict, hq]
      rw [hp]
      have hs := sameFsS_err w (.rmdir q) "ENOTEMPTY" (by intro _ h; cases h) (by intro _ h; cases h) (by intro _ h; cases h)
      exact ⟨fun r _ => hs.dir r, .inl (by rw [hs.dir, hq]), (fun h => by cases h), fun h => hs.obj h⟩

/-! ## the removal loop -/

theorem dirPath_of_obj {w : World} {d : Handle} {p : Bytes} {snap : Option (List Bytes)} {pos : Nat}
    (h : w.obj d = .dir p snap pos) : w.dirPath d = some p := by
  simp [World.dirPath, h]

/-- The loop of `maildir_close`: one `readdir` per name of the snapshot, `unlinkat` for every name
but `.` and `..`.  If the fuel covers the names left, the directory is empty afterwards. -/
theorem spec_closeLoop (d : Handle) (sp : Bytes) (names : List Bytes) (fuel : Nat) {w : World}
    {snap : Option (List Bytes)} {pos : Nat}
    (ho : w.obj d = .dir sp snap pos)
    (hn : snap.getD (((w.dir sp).map sortedNames).getD []) = names)
    (hfuel : names.length - pos ≤ fuel)
    (hes : ∀ es, w.dir sp = some es → ∀ e ∈ es, e.1 ∈ names.drop pos ∧ e.1 ≠ [46] ∧ e.1 ≠ [46, 46]) :
    wpN (closeStdin.loop d fuel)
      (fun fo w' => (∀ es, w'.dir sp = some es → es = []) ∧ (w'.dir sp).isSome = (w.dir sp).isSome ∧
        (∀ q, q ≠ sp → w'.dir q = w.dir q) ∧ w'.dirPath d = some sp ∧ (names.length - pos < fuel → fo = false)) w := by
  induction fuel generalizing w snap pos with
  | zero =>
    unfold closeStdin.loop
    refine ⟨?_, rfl, fun _ _ => rfl, dirPath_of_obj ho, fun h => absurd h (Nat.not_lt_zero _)⟩
    intro es hd
    have hdrop : names.drop pos = [] := by
      apply List.drop_eq_nil_of_le; omega
    apply List.eq_nil_iff_forall_not_mem.2
    intro e he
    have := (hes es hd e he).1
    rw [hdrop] at this
    simp at this
  | succ fuel ih =>
    unfold closeStdin.loop
    simp only [bind_eq, pure_eq, call_bind]
    apply wpN_call
    have hlt : d < w.handles.length := lt_of_obj_ne_closed w d (by simp [ho])
    cases hget : names[pos]? with
    | none =>
      have hp : predict w (.readdir d) = .eof := by simp [predict, ho, hn, hget]
      rw [hp]
      have hdirs : (stepWorld w (.readdir d) .eof).dirs = w.dirs := by
        rw [stepWorld_dirs]; exact core_dirs w _ _ rfl
      have hobj : (stepWorld w (.readdir d) .eof).dirPath d = some sp := by
        rw [stepWorld_dirPath]
        simp only [core, applyOk, ho, hn]
        split
        · simp [World.dirPath, obj_setObj, hlt]
        · simp [World.dirPath, ho]
      refine ⟨?_, by rw [dir_of_dirs hdirs], fun q _ => dir_of_dirs hdirs q, hobj, fun _ => rfl⟩
      intro es hd
      rw [dir_of_dirs hdirs] at hd
      have hdrop : names.drop pos = [] := by
        apply List.drop_eq_nil_of_le
        have := List.getElem?_eq_none_iff.1 hget
        omega
      apply List.eq_nil_iff_forall_not_mem.2
      intro e he
      have := (hes es hd e he).1
      rw [hdrop] at this
      simp at this
    | some n =>
      have hp : predict w (.readdir d) = .name n := by simp [predict, ho, hn, hget]
      rw [hp]
      have hc : core w (.readdir d) (.name n) = w.setObj d (.dir sp (some names) (pos + 1)) := by
        simp [core, applyOk, ho, hn, hget]
      have hposlt : pos < names.length := (List.getElem?_eq_some_iff.1 hget).1
      have hdropc : names.drop pos = n :: names.drop (pos + 1) := by
        rw [List.drop_eq_getElem_cons hposlt, (List.getElem?_eq_some_iff.1 hget).2]
      have ho1 : (stepWorld w (.readdir d) (.name n)).obj d = .dir sp (some names) (pos + 1) := by
        rw [stepWorld_obj, hc]; simp [obj_setObj, hlt]
      have hdir1 : ∀ q, (stepWorld w (.readdir d) (.name n)).dir q = w.dir q := by
        intro q; rw [stepWorld_dir, hc]; rfl
      generalize stepWorld w (.readdir d) (.name n) = w1 at ho1 hdir1 ⊢
      have hn1 : (some names).getD (((w1.dir sp).map sortedNames).getD []) = names := rfl
      have hfuel1 : names.length - (pos + 1) ≤ fuel := by omega
      dsimp only
      split
      · -- `.` or `..`
        rename_i hdot
        refine wpN_mono (ih ho1 hn1 hfuel1 ?_) ?_
        · intro es hd e he
          rw [hdir1] at hd
          obtain ⟨h1, h2, h3⟩ := hes es hd e he
          refine ⟨?_, h2, h3⟩
          rw [hdropc] at h1
          rcases List.mem_cons.1 h1 with h | h
          · exfalso
            simp only [Bool.or_eq_true, beq_iff_eq] at hdot
            rcases hdot with hd' | hd'
            · exact h2 (h.trans hd')
            · exact h3 (h.trans hd')
          · exact h
        · rintro _ w' ⟨a, b, c, e, f⟩
          exact ⟨a, by rw [b, hdir1], fun q hq => by rw [c q hq, hdir1], e, fun h => f (by omega)⟩
      · -- a real name: unlink it
        apply wpN_call
        have hdp1 : w1.dirPath d = some sp := dirPath_of_obj ho1
        cases hl : w1.lookup sp n with
        | none =>
          have hp2 : predict w1 (.unlinkat d n) = .err "ENOENT" := by simp [predict, hdp1, hl]
          rw [hp2]
          have hs := sameFsS_err w1 (.unlinkat d n) "ENOENT" (by intro _ h; cases h) (by intro _ h; cases h) (by intro _ h; cases h)
          refine wpN_mono (ih (w := stepWorld w1 (.unlinkat d n) (.err "ENOENT")) (by rw [hs.obj]; exact ho1) rfl hfuel1 ?_) ?_
          · intro es hd e he
            rw [hs.dir, hdir1] at hd
            obtain ⟨h1, h2, h3⟩ := hes es hd e he
            refine ⟨?_, h2, h3⟩
            rw [hdropc] at h1
            rcases List.mem_cons.1 h1 with h | h
            · exact absurd h (lookup_none_names (by rw [hdir1]; exact hd) hl e he)
            · exact h
          · rintro _ w' ⟨a, b, c, e, f⟩
            exact ⟨a, by rw [b, hs.dir, hdir1], fun q hq => by rw [c q hq, hs.dir, hdir1], e, fun h => f (by omega)⟩
        | some fid =>
          have hp2 : predict w1 (.unlinkat d n) = .ok 0 := by simp [predict, hdp1, hl]
          rw [hp2]
          have hc2 : core w1 (.unlinkat d n) (.ok 0) = w1.unbind sp n := by
            simp [core, applyOk, hdp1, hl]
          have ho2 : (stepWorld w1 (.unlinkat d n) (.ok 0)).obj d = .dir sp (some names) (pos + 1) := by
            rw [stepWorld_obj, hc2, obj_unbind]; exact ho1
          have hdir2 : ∀ q, (stepWorld w1 (.unlinkat d n) (.ok 0)).dir q =
              if q = sp then (w.dir sp).map (fun es => es.filter (·.1 != n)) else w.dir q := by
            intro q
            rw [stepWorld_dir, hc2, dir_unbind]
            by_cases hq : q = sp <;> simp [hq, hdir1]
          refine wpN_mono (ih ho2 rfl hfuel1 ?_) ?_
          · intro es hd e he
            rw [hdir2] at hd
            simp only [if_true] at hd
            cases hw : w.dir sp with
            | none => rw [hw] at hd; cases hd
            | some es0 =>
              rw [hw] at hd
              simp only [Option.map_some, Option.some.injEq] at hd
              subst hd
              obtain ⟨he0, hne⟩ := List.mem_filter.1 he
              obtain ⟨h1, h2, h3⟩ := hes es0 hw e he0
              refine ⟨?_, h2, h3⟩
              rw [hdropc] at h1
              rcases List.mem_cons.1 h1 with h | h
              · simp [h] at hne
              · exact h
          · rintro _ w' ⟨a, b, c, e, f⟩
            refine ⟨a, ?_, fun q hq => ?_, e, fun h => f (by omega)⟩
            · rw [b, hdir2]; simp
            · rw [c q hq, hdir2]; simp [hq]

theorem obj_of_dirPath {w : World} {d : Handle} {p : Bytes} (h : w.dirPath d = some p) :
    ∃ snap pos, w.obj d = .dir p snap pos := by
  unfold World.dirPath at h
  split at h
  · rename_i p' s n heq
    cases h
    exact ⟨s, n, heq⟩
  · cases h

theorem mem_sortedNames (es : List (Bytes × Nat)) (e : Bytes × Nat) (he : e ∈ es) : e.1 ∈ sortedNames es := by
  unfold sortedNames
  rw [List.mem_mergeSort]
  simp only [List.mem_cons, List.mem_map]
  exact .inr (.inr ⟨e, he, rfl⟩)

theorem length_sortedNames (es : List (Bytes × Nat)) : (sortedNames es).length = es.length + 2 := by
  unfold sortedNames
  simp [List.length_mergeSort]

theorem notDot_of_mem {n : Bytes} (h : (95 : UInt8) ∈ n) : n ≠ [46] ∧ n ≠ [46, 46] := by
  constructor <;> (intro e; subst e; simp at h)

/-- `maildir_close` of a spool whose directory stream is open, without faults: the entries, the
`new` directory and the root are removed; no other directory is touched. -/
theorem spec_closeStdin_dir (fuel : Nat) (md : Maildir) (d : Handle) {w : World} {es : List (Bytes × Nat)}
    (hmd : md.dirH = some d) (hne : md.root ≠ md.path)
    (hdp : w.dirPath d = some md.path) (hsp : w.dir md.path = some es) (hlen : es.length + 2 < fuel)
    (hnd : ∀ e ∈ es, (95 : UInt8) ∈ e.1) (hr : w.dir md.root = some []) :
    wpN (closeStdin fuel md) (fun fo w' => w'.dir md.path = none ∧ w'.dir md.root = none ∧
      (∀ q, q ≠ md.path → q ≠ md.root → w'.dir q = w.dir q) ∧ fo = false) w := by
  unfold closeStdin
  simp only [bind_eq, pure_eq, call_bind, hmd]
  apply wpN_call
  obtain ⟨snap, pos, ho⟩ := obj_of_dirPath hdp
  have hlt : d < w.handles.length := lt_of_obj_ne_closed w d (by simp [ho])
  have hp : predict w (.rewinddir d) = .ok 0 := rfl
  rw [hp]
  have hc : core w (.rewinddir d) (.ok 0) = w.setObj d (.dir md.path none 0) := by
    simp [core, applyOk, ho]
  have ho1 : (stepWorld w (.rewinddir d) (.ok 0)).obj d = .dir md.path none 0 := by
    rw [stepWorld_obj, hc]; simp [obj_setObj, hlt]
  have hdir1 : ∀ q, (stepWorld w (.rewinddir d) (.ok 0)).dir q = w.dir q := by
    intro q; rw [stepWorld_dir, hc]; rfl
  generalize stepWorld w (.rewinddir d) (.ok 0) = w1 at ho1 hdir1 ⊢
  refine wpN_bind_mono (spec_closeLoop d md.path (sortedNames es) fuel ho1 (by simp [hdir1, hsp])
    (by rw [length_sortedNames]; omega) ?_) ?_
  · intro es' hd' e he
    rw [hdir1, hsp] at hd'
    cases hd'
    exact ⟨by simpa using mem_sortedNames es e he, notDot_of_mem (hnd e he)⟩
  · rintro fo w2 ⟨hemp, hsome, hoth, _, hfo⟩
    have hfo' : fo = false := hfo (by rw [length_sortedNames]; omega)
    have hsp2 : w2.dir md.path = some [] := by
      rw [hdir1, hsp] at hsome
      obtain ⟨es2, hes2⟩ := Option.isSome_iff_exists.1 hsome
      rw [hes2, hemp es2 hes2]
    apply wpN_call
    obtain ⟨a1, _, a3, _⟩ := rmdir_nofault w2 md.path
    have hsp3 := a3 hsp2
    have hr3 : (stepWorld w2 (.rmdir md.path) (predict w2 (.rmdir md.path))).dir md.root = some [] := by
      rw [a1 _ hne, hoth _ hne, hdir1]; exact hr
    generalize stepWorld w2 (.rmdir md.path) (predict w2 (.rmdir md.path)) = w3 at a1 hsp3 hr3 ⊢
    apply wpN_call
    obtain ⟨b1, _, b3, _⟩ := rmdir_nofault w3 md.root
    have hr4 := b3 hr3
    have hsp4 : (stepWorld w3 (.rmdir md.root) (predict w3 (.rmdir md.root))).dir md.path = none := by
      rw [b1 _ (Ne.symm hne)]; exact hsp3
    generalize stepWorld w3 (.rmdir md.root) (predict w3 (.rmdir md.root)) = w4 at b1 hr4 hsp4 ⊢
    apply wpN_call
    have hdirs : (stepWorld w4 (.closedir d) (predict w4 (.closedir d))).dirs = w4.dirs := by
      rw [stepWorld_dirs]; exact core_dirs w4 _ _ rfl
    refine ⟨by rw [dir_of_dirs hdirs]; exact hsp4, by rw [dir_of_dirs hdirs]; exact hr4, ?_, hfo'⟩
    intro q hq1 hq2
    rw [dir_of_dirs hdirs, b1 q hq2, a1 q hq1, hoth q hq1, hdir1]

/-- `maildir_close` of a spool that has no directory stream (early failure), without faults. -/
theorem spec_closeStdin_none (fuel : Nat) (md : Maildir) (hmd : md.dirH = none) {w : World} :
    wpN (closeStdin fuel md) (fun fo w' =>
      (∀ q, w'.dir q = w.dir q ∨ w'.dir q = none) ∧
      (w.dir md.path = some [] → w'.dir md.path = none) ∧
      (w.dir md.root = some [] → w'.dir md.root = none) ∧ fo = false) w := by
  unfold closeStdin
  simp only [bind_eq, pure_eq, call_bind, hmd]
  apply wpN_call
  obtain ⟨a1, a2, a3, _⟩ := rmdir_nofault w md.path
  generalize stepWorld w (.rmdir md.path) (predict w (.rmdir md.path)) = w3 at a1 a2 a3 ⊢
  apply wpN_call
  obtain ⟨b1, b2, b3, _⟩ := rmdir_nofault w3 md.root
  generalize stepWorld w3 (.rmdir md.root) (predict w3 (.rmdir md.root)) = w4 at b1 b2 b3 ⊢
  have hall : ∀ q, w4.dir q = w.dir q ∨ w4.dir q = none := by
    intro q
    by_cases h2 : q = md.root
    · subst h2
      rcases b2 with h | h
      · by_cases h1 : md.root = md.path
        · rw [h1] at h ⊢
          rcases a2 with h' | h'
          · exact .inl (h.trans h')
          · exact .inr (h.trans h')
        · exact .inl (h.trans (a1 _ h1))
      · exact .inr h
    · by_cases h1 : q = md.path
      · subst h1
        rcases a2 with h | h
        · exact .inl ((b1 _ h2).trans h)
        · exact .inr ((b1 _ h2).trans h)
      · exact .inl ((b1 _ h2).trans (a1 _ h1))
  refine ⟨hall, ?_, ?_, rfl⟩
  · intro h
    have h3 := a3 h
    by_cases h2 : md.path = md.root
    · rcases b2 with h' | h'
      · rw [h2] at h3 ⊢; exact h'.trans h3
      · rw [h2]; exact h'
    · rw [b1 _ h2]; exact h3
  · intro h
    by_cases h1 : md.root = md.path
    · have h3 : w3.dir md.root = none := by rw [h1] at h ⊢; exact a3 h
      rcases b2 with h' | h'
      · exact h'.trans h3
      · exact h'
    · exact b3 (by rw [a1 _ h1]; exact h)

end Mdsort.Proofs.World
