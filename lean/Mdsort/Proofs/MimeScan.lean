import Mdsort.Model.Mime
import Mdsort.Spec.Mime

/-! Helper lemmas for C11, part 1: literals, the boundary parameter, and
`findBoundary` read line by line. -/

namespace Mdsort.Proofs
open Mdsort Mdsort.Model

/-! ### string literals of the model as byte lists -/

theorem ofString_multipart :
    ofString "multipart/" = [109, 117, 108, 116, 105, 112, 97, 114, 116, 47] := by decide +kernel
theorem ofString_boundaryq :
    ofString "boundary=\"" = [98, 111, 117, 110, 100, 97, 114, 121, 61, 34] := by decide +kernel
theorem ofString_alternative :
    ofString "multipart/alternative" =
      [109, 117, 108, 116, 105, 112, 97, 114, 116, 47, 97, 108, 116, 101, 114, 110, 97, 116, 105, 118, 101] := by
  decide +kernel
theorem ofString_plain :
    ofString "text/plain" = [116, 101, 120, 116, 47, 112, 108, 97, 105, 110] := by decide +kernel
theorem ofString_html :
    ofString "text/html" = [116, 101, 120, 116, 47, 104, 116, 109, 108] := by decide +kernel
theorem ofString_base64 :
    ofString "base64" = [98, 97, 115, 101, 54, 52] := by decide +kernel
theorem ofString_qp :
    ofString "quoted-printable" =
      [113, 117, 111, 116, 101, 100, 45, 112, 114, 105, 110, 116, 97, 98, 108, 101] := by decide +kernel

/-! ### `parseBoundary` = `Spec.boundaryParam` -/

def boundaryToSpec : Boundary → Spec.BoundaryParam
  | .notMultipart => .none
  | .invalid => .bad
  | .ok b => .some b

theorem drop_nspaces (s : Bytes) : s.drop (nspaces s) = s.dropWhile isblank := by
  unfold nspaces
  conv => lhs; arg 2; rw [← List.takeWhile_append_dropWhile (p := isblank) (l := s)]
  exact List.drop_left

theorem takeWhile_length_eq_iff {α} (p : α → Bool) (l : List α) :
    ((l.takeWhile p).length == l.length) = (l.dropWhile p).isEmpty := by
  have h : (l.takeWhile p).length + (l.dropWhile p).length = l.length := by
    rw [← List.length_append, List.takeWhile_append_dropWhile]
  cases hd : l.dropWhile p with
  | nil => simp [hd] at h; simp [h]
  | cons x r => simp [hd] at h; simp; omega

theorem tolower_eq_lowerAscii : tolower = Spec.lowerAscii := by
  funext c; rfl

/-- The model's `strncasecmp` test is the specification's token comparison of the prefix. -/
theorem startsWithCI_eq (s p : Bytes) : startsWithCI s p = Spec.tokenEq (s.take p.length) p := by
  unfold startsWithCI Spec.tokenEq
  rw [tolower_eq_lowerAscii]

theorem boundaryParam_eq (t : Bytes) :
    Spec.boundaryParam t = boundaryToSpec (parseBoundary t) := by
  unfold Spec.boundaryParam parseBoundary
  simp only [ofString_multipart, ofString_boundaryq, startsWithCI_eq, drop_nspaces, List.length_cons, List.length_nil, Nat.zero_add, Nat.reduceAdd]
  by_cases h1 : Spec.tokenEq (t.take 10)
      [109, 117, 108, 116, 105, 112, 97, 114, 116, 47]
  · simp only [h1, Bool.not_true, Bool.false_eq_true, if_false]
    generalize List.dropWhile (fun c => c != 59) (List.drop _ t) = s
    cases s with
    | nil => rfl
    | cons x s1 =>
      simp only
      generalize List.dropWhile isblank s1 = p
      by_cases h2 : Spec.tokenEq (p.take 10)
          [98, 111, 117, 110, 100, 97, 114, 121, 61, 34]
      · simp only [h2, Bool.not_true, Bool.false_eq_true, if_false]
        generalize List.drop _ p = v
        rw [takeWhile_length_eq_iff]
        cases hd : List.dropWhile (fun c => c != 34) v with
        | nil => rfl
        | cons y r =>
          simp only [List.isEmpty_cons, Bool.false_eq_true, if_false]
          split <;> rfl
      · simp [h2, boundaryToSpec]
  · simp [h1, boundaryToSpec]

/-! ### texts as lines -/

theorem lines_induction {P : Bytes → Prop}
    (h0 : ∀ t : Bytes, 10 ∉ t → P t)
    (h1 : ∀ l r : Bytes, 10 ∉ l → P r → P (l ++ 10 :: r)) : ∀ t, P t := by
  have key : ∀ t pre : Bytes, 10 ∉ pre → P (pre ++ t) := by
    intro t
    induction t with
    | nil => intro pre hp; simpa using h0 pre hp
    | cons c r ih =>
      intro pre hp
      by_cases hc : c = 10
      · subst hc
        exact h1 pre r hp (by simpa using ih [] (by simp))
      · have : 10 ∉ pre ++ [c] := by
          simp only [List.mem_append, List.mem_singleton, not_or]
          exact ⟨hp, fun h => hc h.symm⟩
        simpa using ih (pre ++ [c]) this
  intro t
  simpa using key t [] (by simp)

theorem termLines_noNL (l cur : Bytes) (hl : 10 ∉ l) : Spec.termLines l cur = ([], cur ++ l) := by
  induction l generalizing cur with
  | nil => simp [Spec.termLines]
  | cons c r ih =>
    have hc : c ≠ 10 := fun h => hl (by simp [h])
    have hr : 10 ∉ r := fun h => hl (by simp [h])
    simp [Spec.termLines, hc, ih _ hr]

theorem termLines_line (l r cur : Bytes) (hl : 10 ∉ l) :
    (Spec.termLines (l ++ 10 :: r) cur).1 = (cur ++ l) :: (Spec.termLines r []).1 := by
  induction l generalizing cur with
  | nil => simp [Spec.termLines]
  | cons c l' ih =>
    have hc : c ≠ 10 := fun h => hl (by simp [h])
    have hr : 10 ∉ l' := fun h => hl (by simp [h])
    simp [Spec.termLines, hc, ih _ hr]

theorem skipLine_line (l r : Bytes) (hl : 10 ∉ l) : skipLine (l ++ 10 :: r) = r := by
  induction l with
  | nil => simp [skipLine]
  | cons c l' ih =>
    have hc : c ≠ 10 := fun h => hl (by simp [h])
    have hr : 10 ∉ l' := fun h => hl (by simp [h])
    simp [skipLine, hc, ih hr]

theorem first_nl_unique {a b x y : Bytes} (ha : 10 ∉ a) (hb : 10 ∉ b)
    (h : a ++ 10 :: x = b ++ 10 :: y) : a = b := by
  induction a generalizing b with
  | nil =>
    cases b with
    | nil => rfl
    | cons c b' =>
      simp at h
      exact absurd h.1 (fun e => hb (by simp [e]))
  | cons c a' ih =>
    cases b with
    | nil =>
      simp at h
      exact absurd h.1 (fun e => ha (by simp [e]))
    | cons d b' =>
      simp at h
      have ha' : 10 ∉ a' := fun e => ha (by simp [e])
      have hb' : 10 ∉ b' := fun e => hb (by simp [e])
      rw [h.1, ih ha' hb' h.2]

/-! ### `delimiterLine` -/

/-- The separator and terminator lines for a boundary, as the specification writes them. -/
def sepOf (b : Bytes) : Bytes := [45, 45] ++ b
def finOf (b : Bytes) : Bytes := sepOf b ++ [45, 45]

theorem isPrefixOf_append_self (p x : Bytes) : p.isPrefixOf (p ++ x) = true :=
  List.isPrefixOf_iff_prefix.mpr (List.prefix_append _ _)

theorem delimiterLine_sep (bnd r : Bytes) : delimiterLine bnd (sepOf bnd ++ 10 :: r) = some false := by
  simp [sepOf, delimiterLine, startsWith, isPrefixOf_append_self, List.isPrefixOf]

theorem delimiterLine_fin (bnd r : Bytes) : delimiterLine bnd (finOf bnd ++ 10 :: r) = some true := by
  simp [finOf, sepOf, delimiterLine, startsWith, isPrefixOf_append_self]

theorem delimiterLine_some {bnd s : Bytes} {tm : Bool} (h : delimiterLine bnd s = some tm) :
    (tm = false ∧ ∃ r, s = sepOf bnd ++ 10 :: r) ∨ (tm = true ∧ ∃ r, s = finOf bnd ++ 10 :: r) := by
  unfold delimiterLine at h
  simp only [startsWith] at h
  by_cases h1 : List.isPrefixOf [45, 45] s
  · simp only [h1, Bool.not_true, Bool.false_eq_true, if_false] at h
    obtain ⟨s1, rfl⟩ := List.isPrefixOf_iff_prefix.mp h1
    simp only [List.cons_append, List.nil_append, List.drop_succ_cons, List.drop_zero] at h
    by_cases h2 : List.isPrefixOf bnd s1
    · simp only [h2, Bool.not_true, Bool.false_eq_true, if_false] at h
      obtain ⟨s2, rfl⟩ := List.isPrefixOf_iff_prefix.mp h2
      simp only [List.drop_left] at h
      by_cases h3 : List.isPrefixOf [45, 45] s2
      · simp only [h3, if_true] at h
        obtain ⟨s3, rfl⟩ := List.isPrefixOf_iff_prefix.mp h3
        simp only [List.cons_append, List.nil_append, List.drop_succ_cons, List.drop_zero] at h
        split at h
        · rename_i r
          right
          exact ⟨(Option.some.inj h).symm, r, by simp [finOf, sepOf]⟩
        · contradiction
      · simp only [h3, Bool.false_eq_true, if_false] at h
        split at h
        · rename_i r
          left
          exact ⟨(Option.some.inj h).symm, r, by simp [sepOf]⟩
        · contradiction
    · simp [h2] at h
  · simp [h1] at h

theorem delimiterLine_noNL {bnd l : Bytes} (hl : 10 ∉ l) : delimiterLine bnd l = none := by
  cases h : delimiterLine bnd l with
  | none => rfl
  | some tm =>
    rcases delimiterLine_some h with ⟨_, r, rfl⟩ | ⟨_, r, rfl⟩ <;> exact absurd (by simp) hl

theorem sepOf_noNL {bnd : Bytes} (hb : 10 ∉ bnd) : 10 ∉ sepOf bnd := by
  simp [sepOf, hb]

theorem finOf_noNL {bnd : Bytes} (hb : 10 ∉ bnd) : 10 ∉ finOf bnd := by
  simp [finOf, sepOf, hb]

theorem delimiterLine_line {bnd l : Bytes} (r : Bytes) (hb : 10 ∉ bnd) (hl : 10 ∉ l) :
    delimiterLine bnd (l ++ 10 :: r) =
      if l = finOf bnd then some true else if l = sepOf bnd then some false else none := by
  by_cases hf : l = finOf bnd
  · rw [if_pos hf, hf, delimiterLine_fin]
  · rw [if_neg hf]
    by_cases hs : l = sepOf bnd
    · rw [if_pos hs, hs, delimiterLine_sep]
    · rw [if_neg hs]
      cases h : delimiterLine bnd (l ++ 10 :: r) with
      | none => rfl
      | some tm =>
        rcases delimiterLine_some h with ⟨_, r', e⟩ | ⟨_, r', e⟩
        · exact absurd (first_nl_unique hl (sepOf_noNL hb) e) hs
        · exact absurd (first_nl_unique hl (finOf_noNL hb) e) hf

/-! ### `findBoundaryAux`: the loop of `findboundary` -/

def prependPre (l : Bytes) (x : Bytes × Bool × Bytes) : Bytes × Bool × Bytes := (l ++ x.1, x.2.1, x.2.2)

theorem findBoundaryAux_nil (bnd : Bytes) (n : Nat) : findBoundaryAux bnd [] n = none := by
  cases n <;> rfl

theorem findBoundaryAux_succ (bnd : Bytes) (c : UInt8) (r : Bytes) (n : Nat) :
    findBoundaryAux bnd (c :: r) (n + 1) = (findBoundaryAux bnd r n).map (prependPre [c]) := by
  conv => lhs; unfold findBoundaryAux
  rfl

theorem findBoundaryAux_cons (bnd : Bytes) (c : UInt8) (r : Bytes) :
    findBoundaryAux bnd (c :: r) 0 =
      match delimiterLine bnd (c :: r) with
      | some term => some ([], term, c :: r)
      | none => (findBoundaryAux bnd r (nextLineDist bnd (c :: r) - 1)).map (prependPre [c]) := by
  conv => lhs; unfold findBoundaryAux
  rfl

theorem map_prependPre_nil (o : Option (Bytes × Bool × Bytes)) : o.map (prependPre []) = o := by
  cases o <;> simp [prependPre]

theorem map_prependPre_append (o : Option (Bytes × Bool × Bytes)) (p q : Bytes) :
    (o.map (prependPre q)).map (prependPre p) = o.map (prependPre (p ++ q)) := by
  cases o <;> simp [prependPre]

/-- The bytes up to the next line examined are passed over unseen. -/
theorem findBoundaryAux_hop (bnd p t : Bytes) :
    findBoundaryAux bnd (p ++ t) p.length = (findBoundaryAux bnd t 0).map (prependPre p) := by
  induction p with
  | nil => simp [map_prependPre_nil]
  | cons c p ih =>
    simp only [List.cons_append, List.length_cons]
    rw [findBoundaryAux_succ, ih, map_prependPre_append]
    rfl

theorem findBoundaryAux_hop' (bnd s : Bytes) (n : Nat) (h : n ≤ s.length) :
    findBoundaryAux bnd s n = (findBoundaryAux bnd (s.drop n) 0).map (prependPre (s.take n)) := by
  have := findBoundaryAux_hop bnd (s.take n) (s.drop n)
  rw [List.take_append_drop, List.length_take, Nat.min_eq_left h] at this
  exact this

theorem skipLine_length_le (s : Bytes) : (skipLine s).length ≤ s.length := by
  induction s with
  | nil => simp [skipLine]
  | cons c r ih =>
    unfold skipLine
    split
    · simp
    · simp; omega

theorem skipLine_length_lt {s : Bytes} (h : s ≠ []) : (skipLine s).length < s.length := by
  cases s with
  | nil => contradiction
  | cons c r =>
    unfold skipLine
    split
    · simp
    · have := skipLine_length_le r
      simp; omega

theorem skipLine_suffix' (s : Bytes) : skipLine s <:+ s := by
  induction s with
  | nil => exact List.suffix_refl _
  | cons c r ih =>
    unfold skipLine
    split
    · exact List.suffix_cons _ _
    · exact ih.trans (List.suffix_cons _ _)

/-- What the comparisons of one round have passed over: nothing, `--`, `--` boundary, or `--` boundary `--`. -/
theorem continueAt_split (bnd s : Bytes) :
    ∃ p, s = p ++ continueAt bnd s ∧
      (p = [] ∨ p = [45, 45] ∨ p = [45, 45] ++ bnd ∨ p = [45, 45] ++ bnd ++ [45, 45]) := by
  unfold continueAt
  simp only [startsWith]
  by_cases h1 : List.isPrefixOf [45, 45] s
  · simp only [h1, Bool.not_true, Bool.false_eq_true, if_false]
    obtain ⟨s1, rfl⟩ := List.isPrefixOf_iff_prefix.mp h1
    have hd : ([45, 45] ++ s1 : Bytes).drop 2 = s1 := rfl
    simp only [hd]
    by_cases h2 : List.isPrefixOf bnd s1
    · simp only [h2, Bool.not_true, Bool.false_eq_true, if_false]
      obtain ⟨s2, rfl⟩ := List.isPrefixOf_iff_prefix.mp h2
      simp only [List.drop_left]
      by_cases h3 : List.isPrefixOf [45, 45] s2
      · simp only [h3, if_true]
        obtain ⟨s3, rfl⟩ := List.isPrefixOf_iff_prefix.mp h3
        have hd3 : ([45, 45] ++ s3 : Bytes).drop 2 = s3 := rfl
        exact ⟨[45, 45] ++ bnd ++ [45, 45], by rw [hd3]; simp, Or.inr (Or.inr (Or.inr rfl))⟩
      · simp only [h3, Bool.false_eq_true, if_false]
        exact ⟨[45, 45] ++ bnd, by simp, Or.inr (Or.inr (Or.inl rfl))⟩
    · simp only [h2, Bool.not_false, if_true]
      exact ⟨[45, 45], rfl, Or.inr (Or.inl rfl)⟩
  · simp only [h1, Bool.not_false, if_true]
    exact ⟨[], rfl, Or.inl rfl⟩

theorem continueAt_suffix (bnd s : Bytes) : continueAt bnd s <:+ s := by
  obtain ⟨p, hp, _⟩ := continueAt_split bnd s
  exact ⟨p, hp.symm⟩

theorem continueAt_length_le (bnd s : Bytes) : (continueAt bnd s).length ≤ s.length :=
  (continueAt_suffix bnd s).length_le

theorem continueAt_noNL_prefix (bnd s : Bytes) (hb : 10 ∉ bnd) : ∃ p, s = p ++ continueAt bnd s ∧ 10 ∉ p := by
  obtain ⟨p, hp, hc⟩ := continueAt_split bnd s
  refine ⟨p, hp, ?_⟩
  rcases hc with rfl | rfl | rfl | rfl <;> simp [hb]

/-- The line the next round examines. -/
def nextLine (bnd s : Bytes) : Bytes := skipLine (continueAt bnd s)

theorem nextLine_suffix (bnd s : Bytes) : nextLine bnd s <:+ s :=
  (skipLine_suffix' _).trans (continueAt_suffix bnd s)

theorem nextLine_length_lt (bnd : Bytes) {s : Bytes} (h : s ≠ []) : (nextLine bnd s).length < s.length := by
  unfold nextLine
  by_cases hc : continueAt bnd s = []
  · rw [hc]
    cases s with
    | nil => contradiction
    | cons c r => simp [skipLine]
  · have := skipLine_length_lt hc
    have := continueAt_length_le bnd s
    omega

theorem nextLine_split (bnd s : Bytes) : s = s.take (nextLineDist bnd s) ++ nextLine bnd s := by
  obtain ⟨p, hp⟩ := nextLine_suffix bnd s
  have hd : nextLineDist bnd s = p.length := by
    unfold nextLineDist
    show s.length - (nextLine bnd s).length = _
    have hl := congrArg List.length hp
    simp only [List.length_append] at hl
    omega
  rw [hd]
  conv => rhs; arg 1; rw [← hp]
  rw [List.take_left]
  exact hp.symm

/-- The loop of `findboundary`, one round: the line at `s` is a delimiter line, or the loop goes on with the line
`skipline` finds from where the comparisons stopped. -/
theorem findBoundaryAux_round (bnd s : Bytes) :
    findBoundaryAux bnd s 0 =
      match s, delimiterLine bnd s with
      | [], _ => none
      | _ :: _, some term => some ([], term, s)
      | _ :: _, none => (findBoundaryAux bnd (nextLine bnd s) 0).map (prependPre (s.take (nextLineDist bnd s))) := by
  cases s with
  | nil => rfl
  | cons c r =>
    rw [findBoundaryAux_cons]
    cases hd : delimiterLine bnd (c :: r) with
    | some term => rfl
    | none =>
      simp only
      have hlt := nextLine_length_lt bnd (List.cons_ne_nil c r)
      have hsp := nextLine_split bnd (c :: r)
      have hdist : nextLineDist bnd (c :: r) = (c :: r).length - (nextLine bnd (c :: r)).length := rfl
      have hpos : 0 < nextLineDist bnd (c :: r) := by omega
      obtain ⟨k, hk⟩ : ∃ k, nextLineDist bnd (c :: r) = k + 1 := ⟨_, (Nat.succ_pred_eq_of_pos hpos).symm⟩
      rw [hk] at hsp ⊢
      simp only [Nat.add_sub_cancel, List.take_succ_cons] at hsp ⊢
      have hr : r = r.take k ++ nextLine bnd (c :: r) := by
        have := hsp
        simp only [List.cons_append, List.cons.injEq, true_and] at this
        exact this
      have hkl : k ≤ r.length := by simp at hdist; omega
      have hdrop : r.drop k = nextLine bnd (c :: r) := by
        have h2 : r.take k ++ r.drop k = r.take k ++ nextLine bnd (c :: r) := by
          rw [List.take_append_drop]; exact hr
        exact List.append_cancel_left h2
      rw [findBoundaryAux_hop' bnd r k hkl, hdrop, map_prependPre_append]
      rfl

theorem findBoundaryAux_found {bnd s : Bytes} {term : Bool} (hd : delimiterLine bnd s = some term) :
    findBoundaryAux bnd s 0 = some ([], term, s) := by
  rw [findBoundaryAux_round bnd s, hd]
  cases s with
  | nil => simp [delimiterLine, startsWith] at hd
  | cons c r => rfl

theorem findBoundaryAux_continue {bnd s : Bytes} (hs : s ≠ []) (hd : delimiterLine bnd s = none) :
    findBoundaryAux bnd s 0 =
      (findBoundaryAux bnd (nextLine bnd s) 0).map (prependPre (s.take (nextLineDist bnd s))) := by
  rw [findBoundaryAux_round bnd s, hd]
  cases s with
  | nil => exact absurd rfl hs
  | cons c r => rfl

theorem findBoundaryAux_split {bnd s pre rest : Bytes} {n : Nat} {term : Bool}
    (h : findBoundaryAux bnd s n = some (pre, term, rest)) :
    s = pre ++ rest ∧ rest ≠ [] ∧ delimiterLine bnd rest = some term := by
  induction s generalizing pre n with
  | nil => rw [findBoundaryAux_nil] at h; cases h
  | cons c r ih =>
    cases n with
    | succ n =>
      rw [findBoundaryAux_succ] at h
      simp only [Option.map_eq_some_iff] at h
      obtain ⟨⟨a, t, b'⟩, hab, heq⟩ := h
      cases heq
      obtain ⟨h1, h2, h3⟩ := ih hab
      exact ⟨by rw [h1]; rfl, h2, h3⟩
    | zero =>
      rw [findBoundaryAux_cons] at h
      split at h
      · rename_i t ht
        cases h
        exact ⟨rfl, by simp, ht⟩
      · simp only [Option.map_eq_some_iff] at h
        obtain ⟨⟨a, t, b'⟩, hab, heq⟩ := h
        cases heq
        obtain ⟨h1, h2, h3⟩ := ih hab
        exact ⟨by rw [h1]; rfl, h2, h3⟩

theorem findBoundaryAux_noNL (bnd l : Bytes) (n : Nat) (hl : 10 ∉ l) : findBoundaryAux bnd l n = none := by
  cases h : findBoundaryAux bnd l n with
  | none => rfl
  | some x =>
    obtain ⟨pre, term, rest⟩ := x
    obtain ⟨h1, _, h3⟩ := findBoundaryAux_split h
    have : 10 ∉ rest := fun hm => hl (by rw [h1]; exact List.mem_append_right _ hm)
    rw [delimiterLine_noNL this] at h3
    cases h3

/-- A prefix without a newline of a text whose first line is `l` lies inside `l`. -/
theorem prefix_of_line {p q l r : Bytes} (h : p ++ q = l ++ 10 :: r) (hp : 10 ∉ p) :
    ∃ l', l = p ++ l' ∧ q = l' ++ 10 :: r := by
  rcases List.append_eq_append_iff.mp h with ⟨a', h1, h2⟩ | ⟨c', h1, h2⟩
  · exact ⟨a', h1, h2⟩
  · cases c' with
    | nil => exact ⟨[], by simpa using h1.symm, by simpa using h2.symm⟩
    | cons x c'' =>
      simp only [List.cons_append, List.cons.injEq] at h2
      exact absurd (by rw [h1, h2.1]; simp) hp

/-- For a newline-free boundary the next line examined is the next line of the text. -/
theorem nextLine_line (bnd l r : Bytes) (hb : 10 ∉ bnd) (hl : 10 ∉ l) : nextLine bnd (l ++ 10 :: r) = r := by
  obtain ⟨p, hp, hpn⟩ := continueAt_noNL_prefix bnd (l ++ 10 :: r) hb
  obtain ⟨l', hl', hq⟩ := prefix_of_line hp.symm hpn
  unfold nextLine
  rw [hq]
  exact skipLine_line l' r (fun hm => hl (by rw [hl']; exact List.mem_append_right _ hm))

theorem findBoundaryAux_line (bnd l r : Bytes) (hb : 10 ∉ bnd) (hl : 10 ∉ l) :
    findBoundaryAux bnd (l ++ 10 :: r) 0 =
      match delimiterLine bnd (l ++ 10 :: r) with
      | some tm => some ([], tm, l ++ 10 :: r)
      | none => (findBoundaryAux bnd r 0).map (prependPre (l ++ [10])) := by
  rw [findBoundaryAux_round bnd (l ++ 10 :: r)]
  have hne : ∃ c t, l ++ 10 :: r = c :: t := by
    cases l with
    | nil => exact ⟨10, r, rfl⟩
    | cons c l' => exact ⟨c, l' ++ 10 :: r, rfl⟩
  obtain ⟨c, t, hct⟩ := hne
  have hnl := nextLine_line bnd l r hb hl
  have hdist : nextLineDist bnd (l ++ 10 :: r) = (l ++ [10]).length := by
    show (l ++ 10 :: r).length - (nextLine bnd (l ++ 10 :: r)).length = _
    rw [hnl]; simp; omega
  have htake : (l ++ 10 :: r).take (nextLineDist bnd (l ++ 10 :: r)) = l ++ [10] := by
    rw [hdist]
    have : l ++ 10 :: r = (l ++ [10]) ++ r := by simp
    rw [this, List.take_left]
  rw [htake, hnl]
  generalize delimiterLine bnd (l ++ 10 :: r) = d
  rw [hct]
  cases d <;> rfl

/-! ### `findBoundary` in terms of the terminated lines -/

/-- The predicate of the specification's preamble scan. -/
abbrev notDelim (b : Bytes) : Bytes → Bool := fun l => l != sepOf b && l != finOf b

/-- For a newline-free boundary, `findBoundary` on a text at the beginning of a line finds the
first terminated line that is a delimiter line: nothing if there is none, otherwise the lines
before it, whether it is the terminator, and a text from which `skipLine` leads to the text
whose terminated lines are the remaining ones. -/
theorem findBoundary_lines (bnd : Bytes) (hb : 10 ∉ bnd) (t : Bytes) :
    ((Spec.termLines t []).1.dropWhile (notDelim bnd) = [] → findBoundary bnd t = none) ∧
    (∀ d rest, (Spec.termLines t []).1.dropWhile (notDelim bnd) = d :: rest →
      ∃ fromLine,
        findBoundary bnd t =
          some (Spec.unlines ((Spec.termLines t []).1.takeWhile (notDelim bnd)), d == finOf bnd, fromLine)
        ∧ (Spec.termLines (skipLine fromLine) []).1 = rest
        ∧ (skipLine fromLine).length < t.length) := by
  induction t using lines_induction with
  | h0 t ht =>
    simp [termLines_noNL t [] ht, findBoundary, findBoundaryAux_noNL bnd t 0 ht]
  | h1 l r hl ih =>
    have hls : (Spec.termLines (l ++ 10 :: r) []).1 = l :: (Spec.termLines r []).1 := by
      simpa using termLines_line l r [] hl
    rw [hls]
    have hfb : findBoundary bnd (l ++ 10 :: r) =
        if l = finOf bnd then some ([], true, l ++ 10 :: r)
        else if l = sepOf bnd then some ([], false, l ++ 10 :: r)
        else (findBoundary bnd r).map (prependPre (l ++ [10])) := by
      unfold findBoundary
      rw [findBoundaryAux_line bnd l r hb hl, delimiterLine_line r hb hl]
      by_cases hf : l = finOf bnd
      · simp only [if_pos hf]
      · by_cases hs : l = sepOf bnd
        · simp only [if_neg hf, if_pos hs]
        · simp only [if_neg hf, if_neg hs]
    rw [hfb]
    by_cases hf : l = finOf bnd
    · have hnd : notDelim bnd l = false := by simp [notDelim, hf]
      simp only [List.dropWhile_cons, List.takeWhile_cons, hnd, if_pos hf]
      refine ⟨by simp, ?_⟩
      intro d rest h
      simp only [Bool.false_eq_true, if_false, List.cons.injEq] at h
      refine ⟨l ++ 10 :: r, ?_, ?_, ?_⟩
      · simp [Spec.unlines, ← h.1, hf]
      · rw [skipLine_line l r hl, h.2]
      · rw [skipLine_line l r hl]; simp; omega
    · by_cases hs : l = sepOf bnd
      · have hnd : notDelim bnd l = false := by simp [notDelim, hs]
        simp only [List.dropWhile_cons, List.takeWhile_cons, hnd, if_neg hf, if_pos hs]
        refine ⟨by simp, ?_⟩
        intro d rest h
        simp only [Bool.false_eq_true, if_false, List.cons.injEq] at h
        refine ⟨l ++ 10 :: r, ?_, ?_, ?_⟩
        · have : (d == finOf bnd) = false := by rw [← h.1]; simp [hf]
          simp [Spec.unlines, this]
        · rw [skipLine_line l r hl, h.2]
        · rw [skipLine_line l r hl]; simp; omega
      · have hnd : notDelim bnd l = true := by simp [notDelim, hs, hf]
        simp only [List.dropWhile_cons, List.takeWhile_cons, hnd, if_neg hf, if_neg hs, if_true]
        refine ⟨fun h => by rw [ih.1 h]; rfl, ?_⟩
        intro d rest h
        obtain ⟨fromLine, h1, h2, h3⟩ := ih.2 d rest h
        refine ⟨fromLine, ?_, h2, ?_⟩
        · rw [h1]; simp [prependPre, Spec.unlines]
        · simp; omega

end Mdsort.Proofs
