import Mdsort.Proofs.HeaderSort

/-! `searchheader`: binary search plus linear scans on a table sorted by name (C10). -/

set_option linter.unusedSimpArgs false

namespace Mdsort.Proofs
open Mdsort Mdsort.Model

/-- The match predicate of `searchheader` (same as `keyMatch`). -/
def kmatch (key : Bytes) (h : Hdr) : Bool := strcasecmp key h.key == .eq

section Search
variable (hs : List Hdr) (key : Bytes)

theorem sorted_le (hsorted : hs.Pairwise (fun a b => keyLe a b = true))
    (i j : Nat) (hij : i ≤ j) (hj : j < hs.length) :
    strcasecmp (hs[i]'(by omega)).key hs[j].key ≠ .gt := by
  by_cases e : i = j
  · subst e; rw [strcasecmp_refl]; decide
  · have := List.pairwise_iff_getElem.mp hsorted i j (by omega) hj (by omega)
    simpa [keyLe] using this

theorem eq_of_le_of_ge (a b : Bytes) (h1 : strcasecmp a b ≠ .gt) (h2 : strcasecmp b a ≠ .gt) :
    strcasecmp a b = .eq := by
  rw [strcasecmp_swap a b] at h2
  revert h1 h2
  cases strcasecmp a b <;> simp [Ordering.swap]

theorem sandwich (hsorted : hs.Pairwise (fun a b => keyLe a b = true))
    (i j k : Nat) (hij : i ≤ j) (hjk : j ≤ k) (hk : k < hs.length)
    (hi : strcasecmp key (hs[i]'(by omega)).key = .eq) (hkk : strcasecmp key hs[k].key = .eq) :
    strcasecmp key (hs[j]'(by omega)).key = .eq := by
  apply eq_of_le_of_ge
  · exact strcasecmp_le_trans _ _ _ (by rw [hi]; decide) (sorted_le hs hsorted i j hij (by omega))
  · apply strcasecmp_le_trans _ _ _ (sorted_le hs hsorted j k hjk hk)
    rw [strcasecmp_swap key, hkk]; decide

theorem scanBeg_spec (m : Nat) (hm : m ≤ hs.length) :
    scanBeg hs.toArray key m ≤ m ∧
    (∀ i (h : i < hs.length), scanBeg hs.toArray key m ≤ i → i < m → strcasecmp key hs[i].key = .eq) ∧
    (∀ (_ : 0 < scanBeg hs.toArray key m) (h' : scanBeg hs.toArray key m - 1 < hs.length),
      strcasecmp key (hs[scanBeg hs.toArray key m - 1]).key ≠ .eq) := by
  induction m with
  | zero => simp [scanBeg]
  | succ b ih =>
    have hb : b < hs.length := by omega
    rw [scanBeg]
    have e : hs.toArray[b]! = hs[b] := by simp [hb]
    rw [e]
    by_cases hc : strcasecmp key hs[b].key = .eq
    · simp only [hc, bne_self_eq_false, Bool.false_eq_true, if_false]
      obtain ⟨h1, h2, h3⟩ := ih (by omega)
      refine ⟨by omega, ?_, h3⟩
      intro i hi hle hlt
      by_cases e : i = b
      · subst e; exact hc
      · exact h2 i hi hle (by omega)
    · have : (strcasecmp key hs[b].key != .eq) = true := by simpa using hc
      simp only [this, if_true]
      refine ⟨Nat.le_refl _, ?_, ?_⟩
      · intro i hi hle hlt; omega
      · intro _ _; simpa using hc

theorem scanEnd_spec (e : Nat) (he : e ≤ hs.length) :
    e ≤ scanEnd hs.toArray key e ∧ scanEnd hs.toArray key e ≤ hs.length ∧
    (∀ i (h : i < hs.length), e ≤ i → i < scanEnd hs.toArray key e → strcasecmp key hs[i].key = .eq) ∧
    (∀ (h : scanEnd hs.toArray key e < hs.length),
      strcasecmp key (hs[scanEnd hs.toArray key e]).key ≠ .eq) := by
  induction e using scanEnd.induct hs.toArray key with
  | case1 x h hc =>
    rw [scanEnd]
    simp only [h, dite_true, hc, if_true]
    refine ⟨Nat.le_refl _, he, ?_, ?_⟩
    · intro i hi h1 h2; omega
    · intro _
      simpa using hc
  | case2 x h hc ih =>
    have e : scanEnd hs.toArray key x = scanEnd hs.toArray key (x + 1) := by
      rw [scanEnd]
      simp only [h, dite_true]
      rw [if_neg hc]
    rw [e]
    have hx : x < hs.length := by simpa using h
    obtain ⟨h1, h2, h3, h4⟩ := ih (by omega)
    refine ⟨by omega, h2, ?_, h4⟩
    intro i hi hle hlt
    by_cases e : i = x
    · subst e
      simpa using hc
    · exact h3 i hi (by omega) hlt
  | case3 x h =>
    rw [scanEnd]
    simp only [h, dite_false]
    have : x = hs.length := by
      have : ¬ x < hs.length := by simpa using h
      omega
    subst this
    refine ⟨Nat.le_refl _, Nat.le_refl _, ?_, ?_⟩
    · intro i hi h1 h2; omega
    · intro h; omega

/-- Index form of the result of `searchheader`. -/
def RunAt (b cnt : Nat) : Prop :=
  0 < cnt ∧ b + cnt ≤ hs.length ∧
  (∀ i (h : i < hs.length), i < b → strcasecmp key hs[i].key ≠ .eq) ∧
  (∀ i (h : i < hs.length), b ≤ i → i < b + cnt → strcasecmp key hs[i].key = .eq) ∧
  (∀ i (h : i < hs.length), b + cnt ≤ i → strcasecmp key hs[i].key ≠ .eq)

theorem run_of_eq (hsorted : hs.Pairwise (fun a b => keyLe a b = true))
    (mi : Nat) (hmi : mi < hs.length) (hc : strcasecmp key hs[mi].key = .eq) :
    RunAt hs key (scanBeg hs.toArray key mi)
      (scanEnd hs.toArray key (mi + 1) - scanBeg hs.toArray key mi) := by
  obtain ⟨b1, b2, b3⟩ := scanBeg_spec hs key mi (by omega)
  obtain ⟨e1, e2, e3, e4⟩ := scanEnd_spec hs key (mi + 1) (by omega)
  generalize scanBeg hs.toArray key mi = b at *
  generalize scanEnd hs.toArray key (mi + 1) = e at *
  refine ⟨by omega, by omega, ?_, ?_, ?_⟩
  · intro i hi hlt heq
    have hb : 0 < b := by omega
    exact b3 hb (by omega) (sandwich hs key hsorted i (b - 1) mi (by omega) (by omega) hmi heq hc)
  · intro i hi h1 h2
    by_cases h : i < mi
    · exact b2 i hi h1 h
    · by_cases h' : i = mi
      · subst h'; exact hc
      · exact e3 i hi (by omega) (by omega)
  · intro i hi hle heq
    have he : e < hs.length := by omega
    exact e4 he (sandwich hs key hsorted mi e i (by omega) (by omega) hi hc heq)

theorem bsearch_spec (hsorted : hs.Pairwise (fun a b => keyLe a b = true))
    (fuel lo hi : Nat) (hhi : hi < hs.length) (hfuel : hi + 1 - lo < fuel)
    (hlo : ∀ i (h : i < hs.length), i < lo → strcasecmp key hs[i].key = .gt)
    (hup : ∀ i (h : i < hs.length), hi < i → strcasecmp key hs[i].key = .lt) :
    match bsearch hs.toArray key lo hi fuel with
    | none => ∀ i (h : i < hs.length), strcasecmp key hs[i].key ≠ .eq
    | some (b, cnt) => RunAt hs key b cnt := by
  induction fuel generalizing lo hi with
  | zero => omega
  | succ fuel ih =>
    rw [bsearch]
    by_cases hle : lo ≤ hi
    · simp only [hle, if_true]
      have hmi : lo + (hi - lo) / 2 < hs.length := by omega
      have hmi1 : lo ≤ lo + (hi - lo) / 2 := by omega
      have hmi2 : lo + (hi - lo) / 2 ≤ hi := by omega
      generalize lo + (hi - lo) / 2 = mi at *
      have e : hs.toArray[mi]! = hs[mi] := by simp [hmi]
      rw [e]
      cases hc : strcasecmp key hs[mi].key with
      | eq => exact run_of_eq hs key hsorted mi hmi hc
      | gt =>
        simp only
        by_cases hlast : mi + 1 ≤ hi
        · apply ih (mi + 1) hi hhi (by omega) _ hup
          intro i hi' hlt
          exact strcasecmp_gt_of_gt_of_le key hs[mi].key hs[i].key hc
            (sorted_le hs hsorted i mi (by omega) hmi)
        · -- the range is empty now
          have hnone : bsearch hs.toArray key (mi + 1) hi fuel = none := by
            cases fuel with
            | zero => rfl
            | succ f => rw [bsearch]; simp [hlast]
          rw [hnone]
          intro i hi'
          by_cases h : i ≤ mi
          · rw [strcasecmp_gt_of_gt_of_le key hs[mi].key hs[i].key hc
              (sorted_le hs hsorted i mi h hmi)]
            decide
          · rw [hup i hi' (by omega)]; decide
      | lt =>
        simp only
        have hge : ∀ i (h : i < hs.length), mi ≤ i → strcasecmp key hs[i].key = .lt := by
          intro i hi' hle'
          exact strcasecmp_lt_of_lt_of_le key hs[mi].key hs[i].key hc
            (sorted_le hs hsorted mi i hle' hi')
        by_cases h0 : mi > 0
        · simp only [h0, if_true]
          by_cases hfirst : lo ≤ mi - 1
          · apply ih lo (mi - 1) (by omega) (by omega) hlo
            intro i hi' hlt
            exact hge i hi' (by omega)
          · have hnone : bsearch hs.toArray key lo (mi - 1) fuel = none := by
              cases fuel with
              | zero => rfl
              | succ f => rw [bsearch]; simp [hfirst]
            rw [hnone]
            intro i hi'
            by_cases h : i < lo
            · rw [hlo i hi' h]; decide
            · rw [hge i hi' (by omega)]; decide
        · simp only [h0, if_false]
          intro i hi'
          rw [hge i hi' (by omega)]; decide
    · simp only [hle, if_false]
      intro i hi'
      by_cases h : i < lo
      · rw [hlo i hi' h]; decide
      · rw [hup i hi' (by omega)]; decide

theorem searchHeader_index (hsorted : hs.Pairwise (fun a b => keyLe a b = true)) :
    match searchHeader hs key with
    | none => ∀ i (h : i < hs.length), strcasecmp key hs[i].key ≠ .eq
    | some (b, cnt) => RunAt hs key b cnt := by
  unfold searchHeader
  by_cases h0 : hs.length = 0
  · simp only [h0, beq_self_eq_true, if_true]
    intro i hi; omega
  · have : (hs.length == 0) = false := by simpa using h0
    simp only [this, Bool.false_eq_true, if_false]
    apply bsearch_spec hs key hsorted (hs.length + 1) 0 (hs.length - 1) (by omega) (by omega)
    · intro i hi hlt; omega
    · intro i hi hlt; omega

end Search

/-- From the index form to the list form. -/
theorem run_list (hs : List Hdr) (p : Hdr → Bool) (b cnt : Nat) (hb : b + cnt ≤ hs.length)
    (h1 : ∀ i (h : i < hs.length), i < b → p hs[i] = false)
    (h2 : ∀ i (h : i < hs.length), b ≤ i → i < b + cnt → p hs[i] = true)
    (h3 : ∀ i (h : i < hs.length), b + cnt ≤ i → p hs[i] = false) :
    (hs.drop b).take cnt = hs.filter p ∧
    (∀ h ∈ hs.take b, p h = false) ∧ (∀ h ∈ hs.drop (b + cnt), p h = false) := by
  have m1 : ∀ h ∈ hs.take b, p h = false := by
    intro h hm
    obtain ⟨j, hj, rfl⟩ := List.mem_take_iff_getElem.mp hm
    exact h1 j (by omega) (by omega)
  have m3 : ∀ h ∈ hs.drop (b + cnt), p h = false := by
    intro h hm
    obtain ⟨j, hj, rfl⟩ := List.mem_drop_iff_getElem.mp hm
    exact h3 (b + cnt + j) (by omega) (by omega)
  have m2 : ∀ h ∈ (hs.drop b).take cnt, p h = true := by
    intro h hm
    obtain ⟨j, hj, rfl⟩ := List.mem_take_iff_getElem.mp hm
    rw [List.getElem_drop]
    have : j < cnt := by omega
    exact h2 (b + j) (by omega) (by omega) (by omega)
  refine ⟨?_, m1, m3⟩
  have split : hs = hs.take b ++ ((hs.drop b).take cnt ++ hs.drop (b + cnt)) := by
    rw [← List.drop_drop, List.take_append_drop, List.take_append_drop]
  conv => rhs; rw [split]
  rw [List.filter_append, List.filter_append]
  rw [List.filter_eq_nil_iff (l := hs.take b) |>.mpr (by intro a ha; simp [m1 a ha])]
  rw [List.filter_eq_nil_iff (l := hs.drop (b + cnt)) |>.mpr (by intro a ha; simp [m3 a ha])]
  rw [List.filter_eq_self.mpr m2]
  simp

theorem searchHeader_list (hs : List Hdr) (key : Bytes)
    (hsorted : hs.Pairwise (fun a b => keyLe a b = true)) :
    match searchHeader hs key with
    | none => hs.filter (kmatch key) = []
    | some (i, n) => 0 < n ∧ i + n ≤ hs.length ∧ (hs.drop i).take n = hs.filter (kmatch key) ∧
        (∀ h ∈ hs.take i, kmatch key h = false) ∧ (∀ h ∈ hs.drop (i + n), kmatch key h = false) := by
  have := searchHeader_index hs key hsorted
  cases hres : searchHeader hs key with
  | none =>
    rw [hres] at this
    simp only at this ⊢
    apply List.filter_eq_nil_iff.mpr
    intro a ha
    obtain ⟨i, hi, rfl⟩ := List.mem_iff_getElem.mp ha
    simpa [kmatch] using this i hi
  | some r =>
    obtain ⟨b, cnt⟩ := r
    rw [hres] at this
    simp only at this ⊢
    obtain ⟨h0, hb, h1, h2, h3⟩ := this
    have := run_list hs (kmatch key) b cnt hb
      (fun i hi hlt => by simpa [kmatch] using h1 i hi hlt)
      (fun i hi hle hlt => by simpa [kmatch] using h2 i hi hle hlt)
      (fun i hi hle => by simpa [kmatch] using h3 i hi hle)
    exact ⟨h0, hb, this⟩

end Mdsort.Proofs
