import Mdsort.Proofs.WorldDryLog
import Mdsort.Proofs.WorldWholeEx
import Mdsort.Proofs.WorldDryEval
import Mdsort.Proofs.WorldExitEx

/-!
# Where the dry run does NOT predict the real run: a message that is visited twice (known finding F21)

`maildir "/m" { match all flag "cur" }` on the two-message example: the real run takes each message
from `/m/new` to `/m/cur`, and finds it again when it walks `/m/cur` afterwards - every message is
logged (and would be acted on) twice; the dry run moves nothing and logs every message once.

The evaluator `eval` is defined by well-founded recursion, which the kernel does not evaluate; for
the witness the main loop is restated with the evaluator as a parameter (`dry_processMessageG`,
`dry_walkG`, equal to `processMessage` / `walk` by `rfl` / induction), which makes the call of `eval` on
the concrete rule visible to `simp only [eval]`.
-/

namespace Mdsort.Proofs
open Mdsort Mdsort.Model

/-- `processMessage` with the evaluation of the rules as a parameter. -/
def dry_processMessageG (env : PEnv) (orc : EvalOracles) (ev : Env → Msg → MFlags → Tri × St) (md : Maildir) (name : Bytes)
    (st : MainSt) : Prog (MainSt × Maildir) :=
  match md.dirH with
  | none => pure (st, md)
  | some d =>
    match st.files.get md.path name with
    | none => pure ({ st with error := true }, md)
    | some content => do
      let pm ← messageParseP d md.path name content
      match pm with
      | none => pure ({ st with error := true }, md)
      | some ms =>
        let eenv : Env := {
          rx := orc.rx, command := fun _ => -1, isDir := fun _ => false, now := env.now,
          strptime := orc.strptime, zoneName := orc.zoneName, fileTime := fun _ => none, timeFormat := orc.timeFormat,
          dryrun := env.dryrun, path := ms.path }
        let free (ms : MsgSt) : Prog Unit :=
          match ms.fd with
          | some h => do let _ ← call (.close h); pure ()
          | none => pure ()
        match ev eenv ms.msg ms.flags with
        | (.error, _) => do free ms; pure ({ st with error := true }, md)
        | (.nomatch, _) => do free ms; pure (st, md)
        | (.match, est) =>
          match matchesInterpolate eenv est.ml (partMsg ms.msg ms.parts) with
          | none => do free ms; pure ({ st with error := true }, md)
          | some (ml, msgs) =>
            let ms1 := { ms with msg := msgs 0, flags := est.flags }
            let st1 := { st with log := st.log ++ inspectLines env ml ms.path }
            if env.dryrun then do free ms1; pure (st1, md)
            else do
              let (xs, e) ← matchesExec env ml { src := md, chsrc := false, ms := ms1, reject := false }
              free xs.ms
              pure ({ st1 with error := st1.error || e, reject := st1.reject || xs.reject,
                               files := afterExec st1.files md.path name xs.ms }, md)

/-- For a rule tree that asks the operating system nothing, evaluation is the pure `eval` (`evalP_asksFree`). -/
theorem dry_processMessage_eqG (env : PEnv) (orc : EvalOracles) (expr : Expr) (hfree : asksFree expr = true) :
    processMessage env orc expr =
      dry_processMessageG env orc (fun eenv m fl => eval eenv m expr 0 m { ml := [], flags := fl }) := by
  funext md name st
  have he : ∀ (p : Bytes) (m : Msg) (fl : MFlags),
      evalP (msgEnv env orc p) expr m fl = .ret (eval (msgEnv env orc p) m expr 0 m { ml := [], flags := fl }) :=
    fun p m fl => evalP_asksFree (msgEnv env orc p) expr hfree m fl
  unfold processMessage dry_processMessageG
  cases md.dirH with
  | none => rfl
  | some d =>
    dsimp only
    cases st.files.get md.path name with
    | none => rfl
    | some content =>
      dsimp only
      show (messageParseP d md.path name content).bind _ = (messageParseP d md.path name content).bind _
      congr 1
      funext pm
      cases pm with
      | none => rfl
      | some ms =>
        dsimp only
        have := he ms.path ms.msg ms.flags
        unfold msgEnv at this
        show (evalP _ _ _ _).bind _ = _
        rw [this]
        rfl

/-- `walk` with the processing of one message as a parameter. -/
def dry_walkG (pm : Maildir → Bytes → MainSt → Prog (MainSt × Maildir)) : Nat → Maildir → MainSt → Prog (MainSt × Maildir)
  | 0, md, st => .ret ({ st with fuelOut := true }, md)
  | fuel + 1, md, st =>
    match md.dirH with
    | none => .ret (st, md)
    | some d =>
      .call (.readdir d) fun r =>
        match r with
        | .name n =>
          if n == [46] || n == [46, 46] then dry_walkG pm fuel md st
          else (pm md n st).bind fun x => dry_walkG pm fuel x.2 x.1
        | .eof =>
          if md.stdin then .ret (st, md)
          else
            match md.subdir with
            | .cur => .ret (st, md)
            | .new =>
              match pathjoin PATH_MAX md.root (subdirName .cur) with
              | none => .ret ({ st with error := true }, md)
              | some p =>
                (maildirOpendir { md with subdir := .cur, path := p } p).bind fun x =>
                  if x.2 then .ret ({ st with error := true }, x.1) else dry_walkG pm fuel x.1 st
        | _ => .ret ({ st with error := true }, md)

theorem dry_walk_eqG (env : PEnv) (orc : EvalOracles) (expr : Expr) (fuel : Nat) (md : Maildir) (st : MainSt) :
    walk env orc expr fuel md st = dry_walkG (processMessage env orc expr) fuel md st := by
  induction fuel generalizing md st with
  | zero => rfl
  | succ fuel ih =>
    rcases md with ⟨root, path, dirH, subdir, wk, stdin⟩
    rw [Own.walk_succ, dry_walkG]
    cases dirH with
    | none => rfl
    | some d =>
      dsimp only
      congr 1
      funext r
      unfold Own.walkK
      cases r with
      | name n =>
        dsimp only
        split
        · exact ih _ _
        · congr 1
          funext x
          exact ih _ _
      | eof =>
        dsimp only
        split
        · rfl
        · cases subdir with
          | cur => rfl
          | new =>
            dsimp only
            cases pathjoin PATH_MAX root (subdirName .cur) with
            | none => rfl
            | some p =>
              dsimp only
              congr 1
              funext x
              split
              · rfl
              · exact ih _ _
      | ok v => rfl
      | err e => rfl

/-- `walk` with `eval` made explicit (so that `simp only [eval]` can unfold it on a concrete rule). -/
theorem dry_walk_G (env : PEnv) (orc : EvalOracles) (expr : Expr) (hfree : asksFree expr = true) (fuel : Nat) (md : Maildir)
    (st : MainSt) :
    walk env orc expr fuel md st =
      dry_walkG (dry_processMessageG env orc (fun eenv m fl => eval eenv m expr 0 m { ml := [], flags := fl })) fuel md st := by
  rw [dry_walk_eqG, dry_processMessage_eqG env orc expr hfree]

/-! ## the witness -/

/-- `match all flag "cur"` -/
def dry_f21Expr : Expr := .mtch 1 (.all 1) (.flag 1 [99, 117, 114])

/-- `maildir "/m" { match all flag "cur" }` -/
def dry_f21Conf : List ConfBlock := [{ paths := [[47, 109]], expr := dry_f21Expr }]

/-- The example environment with `-d`. -/
def dry_f21DryEnv : PEnv := { exEnv with dryrun := true }

theorem dry_f21_nd : ∀ b ∈ dry_f21Conf, WholeNoDiscard exEnv wholeExOrc b.expr := by
  intro b hb
  simp only [dry_f21Conf, List.mem_singleton] at hb
  subst hb
  exact whole_noDiscard_of_syntax _ _ _ (by decide)

set_option maxRecDepth 100000 in
/-- **F21, evaluated**: on the two-message example the real run of `maildir "/m" { match all flag "cur" }`
ends with exit status 0 and FOUR `->` lines (each message once from `/m/new` and once more from `/m/cur`),
the dry run with exit status 0 and TWO lines. -/
theorem dry_f21_witness :
    (runPlan Plan.none (mainP exEnv wholeExOrc true dry_f21Conf wholeExFiles []) wholeExWorld 0 []).1.1 = 0 ∧
    (runPlan Plan.none (mainP exEnv wholeExOrc true dry_f21Conf wholeExFiles []) wholeExWorld 0 []).1.2.log.length = 4 ∧
    (runPlan Plan.none (mainP dry_f21DryEnv wholeExOrc true dry_f21Conf wholeExFiles []) wholeExWorld 0 []).1.1 = 0 ∧
    (runPlan Plan.none (mainP dry_f21DryEnv wholeExOrc true dry_f21Conf wholeExFiles []) wholeExWorld 0 []).1.2.log.length = 2 := by
  rw [(dry_runNone_eq (mainP exEnv wholeExOrc true dry_f21Conf wholeExFiles []) wholeExWorld 0 []).1,
    (dry_runNone_eq (mainP dry_f21DryEnv wholeExOrc true dry_f21Conf wholeExFiles []) wholeExWorld 0 []).1,
    Own.mainP_eq, Own.mainP_eq]
  unfold Own.mainK
  simp only [dry_f21Conf, Own.blocks_cons, Own.blocks_nil, Own.paths_cons, Own.paths_nil,
    dry_walk_G _ _ dry_f21Expr (by decide)]
  simp only [dry_f21Expr, eval]
  decide +kernel

/-! ## a second witness: the message does not end where the verdict on its initial file says -/

/-- `match new flag "cur"`, then `match !new move "/y"`. -/
def dry_f21Expr2 : Expr :=
  .block 1 (.or 1 (.mtch 2 (.new 2) (.flag 2 [99, 117, 114])) (.mtch 3 (.neg 3 (.new 3)) (.move 3 [47, 121])))

def dry_f21Conf2 : List ConfBlock := [{ paths := [[47, 109]], expr := dry_f21Expr2 }]

/-- `/y/new`, `/y/cur` -/
def dry_f21Ynew : Bytes := [47, 121, 47, 110, 101, 119]
def dry_f21Ycur : Bytes := [47, 121, 47, 99, 117, 114]

/-- The two-message example with the maildir `/y` present (`move` keeps the subdirectory: the messages arrive in
`/y/cur`). -/
def dry_f21World2 : World :=
  { wholeExWorld with dirs := wholeExWorld.dirs ++ [(dry_f21Ynew, []), (dry_f21Ycur, [])] }

theorem dry_f21_nd2 : ∀ b ∈ dry_f21Conf2, WholeNoDiscard exEnv wholeExOrc b.expr := by
  intro b hb
  simp only [dry_f21Conf2, List.mem_singleton] at hb
  subst hb
  exact whole_noDiscard_of_syntax _ _ _ (by decide)

theorem dry_f21_reg2 : WholeReg dry_f21World2 wholeExFiles := whole_reg_of_ok (by decide)

set_option maxRecDepth 100000 in
/-- The rules send `/m/new/1.h` to `/m/cur` ... -/
theorem dry_f21_dest2 : exit0_dest exEnv wholeExOrc dry_f21Expr2 exNew exName exOrig = exCur := by
  simp only [exit0_dest, verdict, msVerdict, dry_f21Expr2, eval]
  decide +kernel

set_option maxRecDepth 100000 in
/-- ... but the real run (fault-free, exit status 0) finds it again in `/m/cur`, where the second rule sends it
on to `/y/cur`: at the end no message is registered in `/m/cur`. -/
theorem dry_f21_witness2 :
    (runPlan Plan.none (mainP exEnv wholeExOrc true dry_f21Conf2 wholeExFiles []) dry_f21World2 0 []).1.1 = 0 ∧
    (runPlan Plan.none (mainP exEnv wholeExOrc true dry_f21Conf2 wholeExFiles []) dry_f21World2 0 []).1.2.files.filter
      (fun x => x.1 == exCur) = [] := by
  rw [(dry_runNone_eq (mainP exEnv wholeExOrc true dry_f21Conf2 wholeExFiles []) dry_f21World2 0 []).1, Own.mainP_eq]
  unfold Own.mainK
  simp only [dry_f21Conf2, Own.blocks_cons, Own.blocks_nil, Own.paths_cons, Own.paths_nil,
    dry_walk_G _ _ dry_f21Expr2 (by decide)]
  simp only [dry_f21Expr2, eval]
  decide +kernel


/-- Hence the message is not "placed as the verdict on its initial file says". -/
theorem dry_f21_not_placed {st : MainSt} {w' : World} (hf : st.files.filter (fun x => x.1 == exCur) = [])
    (hp : exit0_Placed exEnv wholeExOrc dry_f21Expr2 exNew exName exOrig st w') : False := by
  have hd := dry_f21_dest2
  unfold exit0_dest at hd
  simp only [show exEnv.dryrun = false from rfl, Bool.false_eq_true, if_false] at hd
  unfold exit0_Placed at hp
  cases hv : verdict exEnv wholeExOrc dry_f21Expr2 exNew exName exOrig with
  | act ml msgs fl =>
    rw [hv] at hp hd
    obtain ⟨n', fid, c', hget, _⟩ := hp
    dsimp only at hd
    rw [hd] at hget
    have := exit0_mem_filter_of_get hget
    rw [hf] at this
    cases this
  | «nomatch» =>
    rw [hv] at hd
    exact absurd hd (by decide)
  | unparsable => rw [hv] at hp; exact hp
  | error => rw [hv] at hp; exact hp
  | interpFail => rw [hv] at hp; exact hp

theorem dry_f21_dirs2 : (exNew, dry_f21Expr2) ∈ exit0_dirsOf dry_f21Conf2 := by
  have hsp : isStdinPath [47, 109] = false := by decide +kernel
  simp [exit0_dirsOf, exit0_pathDirs, dry_f21Conf2, hsp, exNew, subdirName]

/-- The general form of "the dry run predicts the real run" (no hypothesis on re-visits) fails on the first witness. -/
theorem dry_general_false :
    ¬ ∀ (env : PEnv) (orc : EvalOracles) (confOk : Bool) (conf : List ConfBlock) (files : Files) (input : Bytes) (w : World),
      env.stdinMode = false → env.syntaxOnly = false → env.dryrun = false →
      (∀ b ∈ conf, WholeNoDiscard env orc b.expr) → WholeReg w files →
      (runPlan Plan.none (mainP env orc confOk conf files input) w 0 []).1.1 = 0 →
      (runPlan Plan.none (mainP { env with dryrun := true } orc confOk conf files input) w 0 []).1.1 = 0 →
      (runPlan Plan.none (mainP { env with dryrun := true } orc confOk conf files input) w 0 []).1.2.log =
        (runPlan Plan.none (mainP env orc confOk conf files input) w 0 []).1.2.log := by
  intro h
  have hw := dry_f21_witness
  have := h exEnv wholeExOrc true dry_f21Conf wholeExFiles [] wholeExWorld rfl rfl rfl dry_f21_nd wholeEx_reg hw.1 hw.2.2.1
  have hl := congrArg List.length this
  rw [hw.2.1] at hl
  have h2 : (runPlan Plan.none (mainP { exEnv with dryrun := true } wholeExOrc true dry_f21Conf wholeExFiles [])
      wholeExWorld 0 []).1.2.log.length = 2 := hw.2.2.2
  rw [h2] at hl
  cases hl

/-- The general form of "exit status 0 means every message is where its verdict says" fails on the second witness. -/
theorem dry_exit0_general_false :
    ¬ ∀ (env : PEnv) (orc : EvalOracles) (confOk : Bool) (conf : List ConfBlock) (files : Files) (input : Bytes) (w : World)
        (plan : Plan),
      env.stdinMode = false → env.syntaxOnly = false → env.dryrun = false →
      (∀ b ∈ conf, WholeNoDiscard env orc b.expr) → WholeReg w files → World.SingleFault plan →
      (runPlan plan (mainP env orc confOk conf files input) w 0 []).1.1 = 0 →
      ∀ D e n c, (D, e) ∈ exit0_dirsOf conf → files.get D n = some c →
        exit0_Placed env orc e D n c (runPlan plan (mainP env orc confOk conf files input) w 0 []).1.2
          (runPlan plan (mainP env orc confOk conf files input) w 0 []).2.1 := by
  intro h
  have hw := dry_f21_witness2
  exact dry_f21_not_placed hw.2
    (h exEnv wholeExOrc true dry_f21Conf2 wholeExFiles [] dry_f21World2 Plan.none rfl rfl rfl
      dry_f21_nd2 dry_f21_reg2 World.singleFault_none hw.1 exNew dry_f21Expr2 exName exOrig dry_f21_dirs2 (by decide))

/-! ## non-vacuity of "the dry run predicts the real run": `maildir "/m" { match all move "/y" }` with `/y` present -/

set_option maxRecDepth 100000 in
theorem dry_ex_good : exit0_Good ⟨exEnv, wholeExOrc, exit0_dirsOf exit0_exConf, wholeExFiles, dry_f21World2⟩ := by
  rw [exit0_ex_dirs]
  refine exit0_good_of_outside (by decide) (by decide) (by decide) ?_
  intro D e n c hmem hc
  have hx := exit0_get_mem hc
  simp only [wholeExFiles, List.mem_cons, List.not_mem_nil, or_false, Prod.mk.injEq] at hx hmem
  right
  rcases hx with ⟨rfl, rfl, rfl⟩ | ⟨rfl, rfl, rfl⟩
  · rcases hmem with ⟨_, rfl⟩ | ⟨h, _⟩
    · simp only [exit0_dest, verdict, msVerdict, exit0_exExpr, eval]
      decide +kernel
    · exact absurd h (by decide)
  · rcases hmem with ⟨_, rfl⟩ | ⟨h, _⟩
    · simp only [exit0_dest, verdict, msVerdict, exit0_exExpr, eval]
      decide +kernel
    · exact absurd h (by decide)

set_option maxRecDepth 100000 in
/-- Both runs of this example end with exit status 0 (evaluated); each logs two lines. -/
theorem dry_ex_runs :
    (runPlan Plan.none (mainP exEnv wholeExOrc true exit0_exConf wholeExFiles []) dry_f21World2 0 []).1.1 = 0 ∧
    (runPlan Plan.none (mainP { exEnv with dryrun := true } wholeExOrc true exit0_exConf wholeExFiles []) dry_f21World2 0 []).1.1 = 0 ∧
    (runPlan Plan.none (mainP exEnv wholeExOrc true exit0_exConf wholeExFiles []) dry_f21World2 0 []).1.2.log.length = 2 := by
  rw [(dry_runNone_eq (mainP exEnv wholeExOrc true exit0_exConf wholeExFiles []) dry_f21World2 0 []).1,
    (dry_runNone_eq (mainP { exEnv with dryrun := true } wholeExOrc true exit0_exConf wholeExFiles []) dry_f21World2 0 []).1,
    Own.mainP_eq, Own.mainP_eq]
  unfold Own.mainK
  simp only [exit0_exConf, Own.blocks_cons, Own.blocks_nil, Own.paths_cons, Own.paths_nil,
    dry_walk_G _ _ exit0_exExpr (by decide)]
  simp only [exit0_exExpr, eval]
  decide +kernel

end Mdsort.Proofs
