import Mdsort.Model.Eval

/-!
# An evaluation error reaches the root (helpers for `C04_eval_error_*`)

`expr_eval` returns `EXPR_ERROR` from every node as soon as a sub-evaluation it performs returns
`EXPR_ERROR` (`expr_eval_block`, `_and`, `_or`, `_neg`, `_match`, `_attachment`,
`_attachment_block`).  Here this is stated for the model `Model.eval` as a relation between
*evaluation points* - an expression evaluated on a message (regarded as part `part`) from a state:

* `EvalStep env root a b`: evaluating `a` evaluates `b` directly (as the operand the code reaches:
  the second operand of `and` only after the first matched, the action of a rule only after its
  condition matched, part `i` of an `attachment` condition only after the parts before it said
  *no match*, part `i` of an attachment block only after the block ran without error on the parts
  before it);
* `Evaluated env root a b`: reflexive-transitive closure.

`evaluated_error`: if `b` is evaluated in the course of `a` and the result of `b` is an error,
the result of `a` is an error - for EVERY expression, state and environment (no grammar domain,
no hypothesis on pending `pass` entries).  `error_origin` is the converse: an error result comes
from an evaluated point that is the origin of an error (a leaf - matcher or action - that says
error, a `match` whose sentinel cannot be appended, an `attachment` node on a message whose parts
cannot be had).
-/

namespace Mdsort.Proofs
open Mdsort Mdsort.Model

/-- An expression evaluated on message `m` regarded as part `part`, from state `st`. -/
structure EvalPt where
  e : Expr
  part : Nat
  m : Msg
  st : St

/-- The result of an evaluation point. -/
def EvalPt.res (env : Env) (root : Msg) (p : EvalPt) : Tri × St := eval env root p.e p.part p.m p.st

/-- The index under which part `i` of a message regarded as part `part` is evaluated. -/
def partIdx (part i : Nat) : Nat := if part == 0 then i + 1 else part

/-- The loop of `expr_eval_attachment` over the remaining parts `ps` (first of them has position
`i`), entered in state `st`, evaluates the point `x`. -/
inductive ReachCond (env : Env) (root : Msg) (c : Expr) (part : Nat) : List Msg → Nat → St → EvalPt → Prop
  | here (p : Msg) (rest : List Msg) (i : Nat) (st : St) :
    ReachCond env root c part (p :: rest) i st ⟨c, partIdx part i, p, st⟩
  | next (p : Msg) (rest : List Msg) (i : Nat) (st st1 : St) (x : EvalPt) :
    eval env root c (partIdx part i) p st = (.nomatch, st1) →
    ReachCond env root c part rest (i + 1) st1 x → ReachCond env root c part (p :: rest) i st x

/-- The loop of `expr_eval_attachment_block` (every part is visited unless one is an error). -/
inductive ReachBlock (env : Env) (root : Msg) (b : Expr) (part : Nat) : List Msg → Nat → St → EvalPt → Prop
  | here (p : Msg) (rest : List Msg) (i : Nat) (st : St) :
    ReachBlock env root b part (p :: rest) i st ⟨b, partIdx part i, p, st⟩
  | next (p : Msg) (rest : List Msg) (i : Nat) (st : St) (x : EvalPt) :
    (eval env root b (partIdx part i) p st).1 ≠ .error →
    ReachBlock env root b part rest (i + 1) (eval env root b (partIdx part i) p st).2 x →
    ReachBlock env root b part (p :: rest) i st x

/-- Evaluating the first point evaluates the second one directly. -/
inductive EvalStep (env : Env) (root : Msg) : EvalPt → EvalPt → Prop
  | block (l : Nat) (e : Expr) (k : Nat) (m : Msg) (st : St) : EvalStep env root ⟨.block l e, k, m, st⟩ ⟨e, k, m, st⟩
  | andL (l : Nat) (a b : Expr) (k : Nat) (m : Msg) (st : St) : EvalStep env root ⟨.and l a b, k, m, st⟩ ⟨a, k, m, st⟩
  | andR (l : Nat) (a b : Expr) (k : Nat) (m : Msg) (st st1 : St) :
    eval env root a k m st = (.match, st1) → EvalStep env root ⟨.and l a b, k, m, st⟩ ⟨b, k, m, st1⟩
  | orL (l : Nat) (a b : Expr) (k : Nat) (m : Msg) (st : St) : EvalStep env root ⟨.or l a b, k, m, st⟩ ⟨a, k, m, st⟩
  | orR (l : Nat) (a b : Expr) (k : Nat) (m : Msg) (st st1 : St) :
    eval env root a k m st = (.nomatch, st1) → EvalStep env root ⟨.or l a b, k, m, st⟩ ⟨b, k, m, st1⟩
  | neg (l : Nat) (e : Expr) (k : Nat) (m : Msg) (st : St) : EvalStep env root ⟨.neg l e, k, m, st⟩ ⟨e, k, m, st⟩
  | mtchC (l : Nat) (c r : Expr) (k : Nat) (m : Msg) (st : St) (ml : MatchList) :
    matchesAppend env st.ml { ty := .mtch, lno := l, part := k } = (ml, false) →
    EvalStep env root ⟨.mtch l c r, k, m, st⟩ ⟨c, k, m, { st with ml := ml }⟩
  | mtchR (l : Nat) (c r : Expr) (k : Nat) (m : Msg) (st st1 : St) (ml : MatchList) :
    matchesAppend env st.ml { ty := .mtch, lno := l, part := k } = (ml, false) →
    eval env root c k m { st with ml := ml } = (.match, st1) →
    EvalStep env root ⟨.mtch l c r, k, m, st⟩ ⟨r, k, m, st1⟩
  | att (l : Nat) (c : Expr) (k : Nat) (m : Msg) (st : St) (ps : List Msg) (x : EvalPt) :
    getAttachments m = some ps → ReachCond env root c k ps 0 st x → EvalStep env root ⟨.attachment l c, k, m, st⟩ x
  | attB (l : Nat) (b : Expr) (k : Nat) (m : Msg) (st : St) (ps : List Msg) (x : EvalPt) :
    getAttachments m = some ps → ReachBlock env root b k ps 0 st x → EvalStep env root ⟨.attBlock l b, k, m, st⟩ x

/-- `b` is evaluated in the course of evaluating `a`. -/
inductive Evaluated (env : Env) (root : Msg) : EvalPt → EvalPt → Prop
  | refl (a : EvalPt) : Evaluated env root a a
  | step (a b c : EvalPt) : EvalStep env root a b → Evaluated env root b c → Evaluated env root a c

theorem Evaluated.trans {env : Env} {root : Msg} {a b c : EvalPt} (h1 : Evaluated env root a b)
    (h2 : Evaluated env root b c) : Evaluated env root a c := by
  induction h1 with
  | refl _ => exact h2
  | step a b _ hs _ ih => exact .step a b c hs (ih h2)

theorem Evaluated.single {env : Env} {root : Msg} {a b : EvalPt} (h : EvalStep env root a b) : Evaluated env root a b :=
  .step a b b h (.refl b)

/-! ## the two loops -/

theorem loop_cons (env : Env) (root : Msg) (c : Expr) (part : Nat) (p : Msg) (rest : List Msg) (i : Nat) (st : St) :
    eval.loop env root c part (p :: rest) i st =
      match eval env root c (partIdx part i) p st with
      | (.nomatch, st1) => eval.loop env root c part rest (i + 1) st1
      | other => other := by
  rw [eval.loop]
  rfl

theorem loopB_cons (env : Env) (root : Msg) (b : Expr) (part : Nat) (p : Msg) (rest : List Msg) (i : Nat) (ev : Tri) (st : St) :
    eval.loopB env root b part (p :: rest) i ev st =
      match eval env root b (partIdx part i) p st with
      | (.error, st1) => (.error, st1)
      | (.match, st1) => eval.loopB env root b part rest (i + 1) .match st1
      | (.nomatch, st1) => eval.loopB env root b part rest (i + 1) ev st1 := by
  rw [eval.loopB]
  rfl

theorem reachCond_error {env : Env} {root : Msg} {c : Expr} {part : Nat} {ps : List Msg} {i : Nat} {st : St} {x : EvalPt}
    (h : ReachCond env root c part ps i st x) (hx : (x.res env root).1 = .error) :
    (eval.loop env root c part ps i st).1 = .error := by
  induction h with
  | here p rest i st =>
    rw [loop_cons]
    simp only [EvalPt.res] at hx
    rcases hr : eval env root c (partIdx part i) p st with ⟨t, s⟩
    rw [hr] at hx
    simp only at hx
    subst hx
    rfl
  | next p rest i st st1 x h1 _ ih =>
    rw [loop_cons, h1]
    exact ih hx

theorem reachBlock_error {env : Env} {root : Msg} {b : Expr} {part : Nat} {ps : List Msg} {i : Nat} {st : St} {x : EvalPt}
    (h : ReachBlock env root b part ps i st x) (hx : (x.res env root).1 = .error) (ev : Tri) :
    (eval.loopB env root b part ps i ev st).1 = .error := by
  induction h generalizing ev with
  | here p rest i st =>
    rw [loopB_cons]
    simp only [EvalPt.res] at hx
    rcases hr : eval env root b (partIdx part i) p st with ⟨t, s⟩
    rw [hr] at hx
    simp only at hx
    subst hx
    rfl
  | next p rest i st x h1 _ ih =>
    rw [loopB_cons]
    rcases hr : eval env root b (partIdx part i) p st with ⟨t, s⟩
    rw [hr] at h1 ih
    cases t with
    | error => exact absurd rfl h1
    | «match» => exact ih hx .match
    | «nomatch» => exact ih hx ev

/-! ## one step, then any number of steps -/

/-- An error of a directly evaluated operand is the result of the node. -/
theorem step_error {env : Env} {root : Msg} {a b : EvalPt} (h : EvalStep env root a b)
    (hb : (b.res env root).1 = .error) : (a.res env root).1 = .error := by
  cases h with
  | block l e k m st =>
    simp only [EvalPt.res] at hb ⊢
    rw [eval]
    rcases hr : eval env root e k m st with ⟨t, s⟩
    rw [hr] at hb
    simp only at hb
    subst hb
    rfl
  | andL l x y k m st =>
    simp only [EvalPt.res] at hb ⊢
    rw [eval]
    rcases hr : eval env root x k m st with ⟨t, s⟩
    rw [hr] at hb
    simp only at hb
    subst hb
    rfl
  | andR l x y k m st st1 h1 =>
    simp only [EvalPt.res] at hb ⊢
    rw [eval, h1]
    exact hb
  | orL l x y k m st =>
    simp only [EvalPt.res] at hb ⊢
    rw [eval]
    rcases hr : eval env root x k m st with ⟨t, s⟩
    rw [hr] at hb
    simp only at hb
    subst hb
    rfl
  | orR l x y k m st st1 h1 =>
    simp only [EvalPt.res] at hb ⊢
    rw [eval, h1]
    exact hb
  | neg l e k m st =>
    simp only [EvalPt.res] at hb ⊢
    rw [eval]
    rcases hr : eval env root e k m st with ⟨t, s⟩
    rw [hr] at hb
    simp only at hb
    subst hb
    rfl
  | mtchC l c r k m st ml h1 =>
    simp only [EvalPt.res] at hb ⊢
    rw [eval, h1]
    simp only [Bool.false_eq_true, if_false]
    rcases hr : eval env root c k m { st with ml := ml } with ⟨t, s⟩
    rw [hr] at hb
    simp only at hb
    subst hb
    rfl
  | mtchR l c r k m st st1 ml h1 h2 =>
    simp only [EvalPt.res] at hb ⊢
    rw [eval, h1]
    simp only [Bool.false_eq_true, if_false]
    rw [h2]
    exact hb
  | att l c k m st ps x h1 h2 =>
    simp only [EvalPt.res] at ⊢
    rw [eval, h1]
    exact reachCond_error h2 hb
  | attB l blk k m st ps x h1 h2 =>
    simp only [EvalPt.res] at ⊢
    rw [eval, h1]
    exact reachBlock_error h2 hb .nomatch

/-- **An evaluation error reaches the root.**  If the point `b` is evaluated in the course of
evaluating `a` and the result of `b` is an error, the result of `a` is an error. -/
theorem evaluated_error {env : Env} {root : Msg} {a b : EvalPt} (h : Evaluated env root a b)
    (hb : (b.res env root).1 = .error) : (a.res env root).1 = .error := by
  induction h with
  | refl _ => exact hb
  | step a b _ hs _ ih => exact step_error hs (ih hb)

/-! ## where an error comes from -/

/-- The point is the ORIGIN of an error: its result is an error although no operand it evaluates
directly is an error. -/
def Origin (env : Env) (root : Msg) (b : EvalPt) : Prop :=
  (b.res env root).1 = .error ∧ ∀ c, EvalStep env root b c → (c.res env root).1 ≠ .error

theorem reachCond_expr {env : Env} {root : Msg} {c : Expr} {part : Nat} {ps : List Msg} {i : Nat} {st : St} {x : EvalPt}
    (h : ReachCond env root c part ps i st x) : x.e = c := by
  induction h with
  | here => rfl
  | next _ _ _ _ _ _ _ _ ih => exact ih

theorem reachBlock_expr {env : Env} {root : Msg} {b : Expr} {part : Nat} {ps : List Msg} {i : Nat} {st : St} {x : EvalPt}
    (h : ReachBlock env root b part ps i st x) : x.e = b := by
  induction h with
  | here => rfl
  | next _ _ _ _ _ _ _ ih => exact ih

/-- A step goes to a proper sub-expression. -/
theorem step_lt {env : Env} {root : Msg} {a b : EvalPt} (h : EvalStep env root a b) : sizeOf b.e < sizeOf a.e := by
  cases h with
  | att l c k m st ps x _ h2 => rw [reachCond_expr h2]; simp only [Expr.attachment.sizeOf_spec]; omega
  | attB l blk k m st ps x _ h2 => rw [reachBlock_expr h2]; simp only [Expr.attBlock.sizeOf_spec]; omega
  | block => simp only [Expr.block.sizeOf_spec]; omega
  | andL => simp only [Expr.and.sizeOf_spec]; omega
  | andR => simp only [Expr.and.sizeOf_spec]; omega
  | orL => simp only [Expr.or.sizeOf_spec]; omega
  | orR => simp only [Expr.or.sizeOf_spec]; omega
  | neg => simp only [Expr.neg.sizeOf_spec]; omega
  | mtchC => simp only [Expr.mtch.sizeOf_spec]; omega
  | mtchR => simp only [Expr.mtch.sizeOf_spec]; omega

/-- **Every error has an origin.**  If the result of `a` is an error, some point evaluated in the
course of `a` is the origin of an error. -/
theorem error_origin {env : Env} {root : Msg} : ∀ (n : Nat) (a : EvalPt), sizeOf a.e ≤ n →
    (a.res env root).1 = .error → ∃ b, Evaluated env root a b ∧ Origin env root b := by
  intro n
  induction n with
  | zero =>
    intro a hn ha
    refine ⟨a, .refl a, ha, fun c hs _ => ?_⟩
    have := step_lt hs
    omega
  | succ n ih =>
    intro a hn ha
    by_cases h : ∃ c, EvalStep env root a c ∧ (c.res env root).1 = .error
    · obtain ⟨c, hs, hc⟩ := h
      have hlt := step_lt hs
      obtain ⟨b, hb, ho⟩ := ih c (by omega) hc
      exact ⟨b, .step a c b hs hb, ho⟩
    · exact ⟨a, .refl a, ha, fun c hs hc => h ⟨c, hs, hc⟩⟩

theorem loop_error_reach {env : Env} {root : Msg} {c : Expr} {part : Nat} : ∀ (ps : List Msg) (i : Nat) (st : St),
    (eval.loop env root c part ps i st).1 = .error →
    ∃ x, ReachCond env root c part ps i st x ∧ (x.res env root).1 = .error := by
  intro ps
  induction ps with
  | nil => intro i st h; simp [eval.loop] at h
  | cons p rest ih =>
    intro i st h
    rw [loop_cons] at h
    rcases hr : eval env root c (partIdx part i) p st with ⟨t, s⟩
    rw [hr] at h
    cases t with
    | «nomatch» =>
      obtain ⟨x, hx, he⟩ := ih (i + 1) s h
      exact ⟨x, .next p rest i st s x hr hx, he⟩
    | «match» => simp at h
    | error => exact ⟨⟨c, partIdx part i, p, st⟩, .here p rest i st, by simp [EvalPt.res, hr]⟩

theorem loopB_error_reach {env : Env} {root : Msg} {b : Expr} {part : Nat} : ∀ (ps : List Msg) (i : Nat) (ev : Tri) (st : St),
    ev ≠ .error → (eval.loopB env root b part ps i ev st).1 = .error →
    ∃ x, ReachBlock env root b part ps i st x ∧ (x.res env root).1 = .error := by
  intro ps
  induction ps with
  | nil => intro i ev st hev h; simp only [eval.loopB] at h; exact absurd h hev
  | cons p rest ih =>
    intro i ev st hev h
    rw [loopB_cons] at h
    rcases hr : eval env root b (partIdx part i) p st with ⟨t, s⟩
    rw [hr] at h
    have hs : (eval env root b (partIdx part i) p st).2 = s := by rw [hr]
    cases t with
    | «nomatch» =>
      obtain ⟨x, hx, he⟩ := ih (i + 1) ev s hev h
      exact ⟨x, .next p rest i st x (by rw [hr]; simp) (by rw [hs]; exact hx), he⟩
    | «match» =>
      obtain ⟨x, hx, he⟩ := ih (i + 1) .match s (by simp) h
      exact ⟨x, .next p rest i st x (by rw [hr]; simp) (by rw [hs]; exact hx), he⟩
    | error => exact ⟨⟨b, partIdx part i, p, st⟩, .here p rest i st, by simp [EvalPt.res, hr]⟩

/-- What an origin looks like: never a block, `and`, `or` or `!` node (they only hand an error of
an operand on); a `match` node only when its sentinel entry cannot be appended; an `attachment`
condition or attachment block only when the parts of the message cannot be had (malformed
multipart, nesting beyond the limit).  Everything else is a leaf: a matcher or an action. -/
def OriginShape (env : Env) (b : EvalPt) : Prop :=
  match b.e with
  | .block .. | .and .. | .or .. | .neg .. => False
  | .mtch l _ _ => (matchesAppend env b.st.ml { ty := .mtch, lno := l, part := b.part }).2 = true
  | .attachment .. | .attBlock .. => getAttachments b.m = none
  | _ => True

theorem origin_shape {env : Env} {root : Msg} {b : EvalPt} (h : Origin env root b) : OriginShape env b := by
  obtain ⟨e, k, m, st⟩ := b
  obtain ⟨herr, hno⟩ := h
  cases e with
  | block l e =>
    exfalso
    refine hno _ (.block l e k m st) ?_
    simp only [EvalPt.res] at herr ⊢
    rw [eval] at herr
    rcases hr : eval env root e k m st with ⟨t, s⟩
    rw [hr] at herr
    cases t with
    | error => rfl
    | «match» => simp only at herr; split at herr <;> (try split at herr) <;> (try split at herr) <;> simp at herr
    | «nomatch» => simp only at herr; split at herr <;> (try split at herr) <;> (try split at herr) <;> simp at herr
  | and l x y =>
    exfalso
    simp only [EvalPt.res] at herr
    rw [eval] at herr
    rcases hr : eval env root x k m st with ⟨t, s⟩
    rw [hr] at herr
    cases t with
    | error => exact hno _ (.andL l x y k m st) (by simp [EvalPt.res, hr])
    | «match» => exact hno _ (.andR l x y k m st s hr) herr
    | «nomatch» => simp at herr
  | or l x y =>
    exfalso
    simp only [EvalPt.res] at herr
    rw [eval] at herr
    rcases hr : eval env root x k m st with ⟨t, s⟩
    rw [hr] at herr
    cases t with
    | error => exact hno _ (.orL l x y k m st) (by simp [EvalPt.res, hr])
    | «nomatch» => exact hno _ (.orR l x y k m st s hr) herr
    | «match» => simp at herr
  | neg l e =>
    exfalso
    simp only [EvalPt.res] at herr
    rw [eval] at herr
    rcases hr : eval env root e k m st with ⟨t, s⟩
    rw [hr] at herr
    cases t with
    | error => exact hno _ (.neg l e k m st) (by simp [EvalPt.res, hr])
    | «nomatch» => simp at herr
    | «match» => simp at herr
  | mtch l c r =>
    show (matchesAppend env st.ml { ty := .mtch, lno := l, part := k }).2 = true
    rcases ha : matchesAppend env st.ml { ty := .mtch, lno := l, part := k } with ⟨ml, failed⟩
    cases failed with
    | true => rfl
    | false =>
      exfalso
      simp only [EvalPt.res] at herr
      rw [eval, ha] at herr
      simp only [Bool.false_eq_true, if_false] at herr
      rcases hr : eval env root c k m { st with ml := ml } with ⟨t, s⟩
      rw [hr] at herr
      cases t with
      | error => exact hno _ (.mtchC l c r k m st ml ha) (by simp [EvalPt.res, hr])
      | «match» => exact hno _ (.mtchR l c r k m st s ml ha hr) herr
      | «nomatch» => simp at herr
  | attachment l c =>
    show getAttachments m = none
    cases hg : getAttachments m with
    | none => rfl
    | some ps =>
      exfalso
      simp only [EvalPt.res] at herr
      rw [eval, hg] at herr
      obtain ⟨x, hx, he⟩ := loop_error_reach ps 0 st herr
      exact hno x (.att l c k m st ps x hg hx) he
  | attBlock l blk =>
    show getAttachments m = none
    cases hg : getAttachments m with
    | none => rfl
    | some ps =>
      exfalso
      simp only [EvalPt.res] at herr
      rw [eval, hg] at herr
      obtain ⟨x, hx, he⟩ := loopB_error_reach ps 0 .nomatch st (by simp) herr
      exact hno x (.attB l blk k m st ps x hg hx) he
  | _ => trivial

/-! ## the conditional steps with the intermediate state left implicit -/

theorem EvalStep.andR' {env : Env} {root : Msg} (l : Nat) (a b : Expr) (k : Nat) (m : Msg) (st : St)
    (h : (eval env root a k m st).1 = .match) :
    EvalStep env root ⟨.and l a b, k, m, st⟩ ⟨b, k, m, (eval env root a k m st).2⟩ :=
  .andR l a b k m st _ (Prod.ext h rfl)

theorem EvalStep.orR' {env : Env} {root : Msg} (l : Nat) (a b : Expr) (k : Nat) (m : Msg) (st : St)
    (h : (eval env root a k m st).1 = .nomatch) :
    EvalStep env root ⟨.or l a b, k, m, st⟩ ⟨b, k, m, (eval env root a k m st).2⟩ :=
  .orR l a b k m st _ (Prod.ext h rfl)

theorem EvalStep.mtchC' {env : Env} {root : Msg} (l : Nat) (c r : Expr) (k : Nat) (m : Msg) (st : St)
    (h : (matchesAppend env st.ml { ty := .mtch, lno := l, part := k }).2 = false) :
    EvalStep env root ⟨.mtch l c r, k, m, st⟩
      ⟨c, k, m, { st with ml := (matchesAppend env st.ml { ty := .mtch, lno := l, part := k }).1 }⟩ :=
  .mtchC l c r k m st _ (Prod.ext rfl h)

theorem EvalStep.mtchR' {env : Env} {root : Msg} (l : Nat) (c r : Expr) (k : Nat) (m : Msg) (st : St)
    (h : (matchesAppend env st.ml { ty := .mtch, lno := l, part := k }).2 = false)
    (hc : (eval env root c k m { st with ml := (matchesAppend env st.ml { ty := .mtch, lno := l, part := k }).1 }).1 = .match) :
    EvalStep env root ⟨.mtch l c r, k, m, st⟩
      ⟨r, k, m, (eval env root c k m { st with ml := (matchesAppend env st.ml { ty := .mtch, lno := l, part := k }).1 }).2⟩ :=
  .mtchR l c r k m st _ _ (Prod.ext rfl h) (Prod.ext hc rfl)

end Mdsort.Proofs
