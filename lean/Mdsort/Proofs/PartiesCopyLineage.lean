import Mdsort.Proofs.PartiesCopyTmp

/-! Preservation of `CInv` by one step, third part: lineage - every entry outside the names in
flight is a message (`settled`), no two of them descend from the same initial file (`once`), every
initial file has a descendant or was removed outright (`kept`). -/

namespace Mdsort.Proofs.Parties
set_option linter.unusedSimpArgs false
set_option linter.unusedVariables false
open Mdsort Mdsort.Model
open Mdsort.Proofs.World
open Mdsort.Proofs.Own

variable {M : Msg → Prop} {s0 s : Shared} {a : Nat} {ps : PState} {c : Call} {k : Res → Prog Bool}

/-! ## the event of the step -/

theorem stepEvent_commits_iff (s : Shared) (a : Nat) (ps : PState) (c : Call) :
    (stepEvent s a ps c).commits = true ↔
      isUnlink c = true ∧ isOk (predict (s.view ps) c) = true ∧
        ∃ y, callSrc (s.view ps) c = some y ∧ ps.inFlight ≠ [] ∧ y ∉ ps.inFlight := by
  cases c <;> try (simp [Event.commits, stepEvent, isUnlink]; done)
  rename_i d n
  simp only [Event.commits, stepEvent, isUnlink, true_and]
  cases hs : callSrc (s.view ps) (.unlinkat d n) with
  | none => simp
  | some y => simp [List.isEmpty_iff, and_assoc]

theorem stepCall_log' (s : Shared) (a : Nat) (ps : PState) (c : Call) (k : Res → Prog Bool) :
    (stepCall s a ps c k).log = s.log ++ [stepEvent s a ps c] := rfl

/-- The lineage of a file that is not the one the issuing party has in flight is as before. -/
theorem StepCtx.origin_other (x : StepCtx M s0 s a ps c k) (g : Nat) (h : ∀ y ∈ ps.inFlight, s.fs.lookup y.1 y.2 ≠ some g) :
    originIn (stepCall s a ps c k).log g = originIn s.log g := by
  rw [stepCall_log']
  apply originIn_snoc_same
  right
  show (s.view ps).lookupE ps.inFlight.head? ≠ some g
  cases hf : ps.inFlight with
  | nil => simp [World.lookupE]
  | cons y rest =>
    simp only [List.head?_cons, World.lookupE, Option.bind_some]
    exact h y (by rw [hf]; exact List.mem_cons_self ..)

/-- The lineage of a file held by an entry nobody has in flight is as before. -/
theorem StepCtx.origin_settled (x : StepCtx M s0 s a ps c k) {p n : Bytes} {g : Nat} (hl : s.fs.lookup p n = some g)
    (hnf : (p, n) ∉ ps.inFlight) : originIn (stepCall s a ps c k).log g = originIn s.log g := by
  apply x.origin_other
  intro y hy hg
  obtain ⟨e1, e2⟩ := x.inv.inj y.1 y.2 p n g hg hl
  apply hnf
  rw [← e1, ← e2]; exact hy

/-- The commit of a copy: the copy inherits the lineage of the entry that was removed. -/
theorem StepCtx.origin_commit (x : StepCtx M s0 s a ps c k) {y z : Bytes × Bytes} {gy gz : Nat}
    (hul : isUnlink c = true) (hok : isOk (predict (s.view ps) c) = true) (hs : callSrc (s.view ps) c = some y)
    (hfl : ps.inFlight = [z]) (hne : y ≠ z) (hy : s.fs.lookup y.1 y.2 = some gy) (hz : s.fs.lookup z.1 z.2 = some gz) :
    originIn (stepCall s a ps c k).log gz = originIn s.log gy := by
  rw [stepCall_log', originIn_snoc]
  have h1 : (stepEvent s a ps c).commits = true :=
    (stepEvent_commits_iff s a ps c).2 ⟨hul, hok, y, hs, by rw [hfl]; simp, by rw [hfl]; simpa using hne⟩
  have h2 : (stepEvent s a ps c).flightFid = some gz := by
    show (s.view ps).lookupE ps.inFlight.head? = some gz
    rw [hfl]; exact hz
  have h3 : (stepEvent s a ps c).srcRoot = some (originIn s.log gy) := by
    show ((s.view ps).lookupE (callSrc (s.view ps) c)).map (originIn s.log) = _
    rw [hs]
    show (s.fs.lookup y.1 y.2).map _ = _
    rw [hy]; rfl
  simp [h1, h2, h3]

/-! ## who has an entry in flight, before and after -/

theorem StepCtx.noFlight_after (x : StepCtx M s0 s a ps c k) {e : Bytes × Bytes} (h : NoFlight s e)
    (ha : e ∉ (stepLocal s ps c k).inFlight) : NoFlight (stepCall s a ps c k) e := by
  intro i q hq
  rw [x.hpar] at hq
  by_cases hi : i = a
  · simp only [hi, if_true, Option.some.injEq] at hq
    subst hq
    exact ha
  · simp only [hi, if_false] at hq
    exact h i q hq

theorem StepCtx.noFlight_own (x : StepCtx M s0 s a ps c k) {e : Bytes × Bytes} (h : NoFlight (stepCall s a ps c k) e) :
    e ∉ (stepLocal s ps c k).inFlight :=
  h a _ (by rw [x.hpar]; simp)

theorem StepCtx.noFlight_foreign (x : StepCtx M s0 s a ps c k) {e : Bytes × Bytes} (h : NoFlight (stepCall s a ps c k) e)
    (i : Nat) (q : PState) (hi : i ≠ a) (hq : s.parties[i]? = some q) : e ∉ q.inFlight :=
  h i q (by rw [x.hpar]; simp [hi, hq])

/-- An entry present before and in nobody's flight before is in nobody's flight afterwards. -/
theorem StepCtx.noFlight_keep (x : StepCtx M s0 s a ps c k) {e : Bytes × Bytes} {g : Nat} (h : NoFlight s e)
    (hl : s.fs.lookup e.1 e.2 = some g) : NoFlight (stepCall s a ps c k) e := by
  apply x.noFlight_after h
  intro he
  rcases x.flight_sub he with h1 | h1
  · exact h a ps x.hp h1
  · rw [hl] at h1; cases h1

/-! ## classification of the entries that are messages after the step -/

/-- An entry that is in nobody's flight after the step received the file of the source of a successful
rename (A), is the copy whose original has just been removed (B), or was such an entry before and was
not touched (C). -/
theorem StepCtx.classify (x : StepCtx M s0 s a ps c k) {p n : Bytes} {g : Nat}
    (hl : (stepCall s a ps c k).fs.lookup p n = some g) (hnf : NoFlight (stepCall s a ps c k) (p, n)) :
    (∃ y, c.isRename = true ∧ isOk (predict (s.view ps) c) = true ∧ callDst (s.view ps) c = some (p, n) ∧
        callSrc (s.view ps) c = some y ∧ s.fs.lookup y.1 y.2 = some g ∧ NoFlight s y ∧ y ∉ ps.inFlight ∧
        originIn (stepCall s a ps c k).log g = originIn s.log g) ∨
    (∃ y gy, isUnlink c = true ∧ isOk (predict (s.view ps) c) = true ∧ callSrc (s.view ps) c = some y ∧
        ps.inFlight = [(p, n)] ∧ y ≠ (p, n) ∧ s.fs.lookup y.1 y.2 = some gy ∧ NoFlight s y ∧ s.fs.lookup p n = some g ∧
        originIn (stepCall s a ps c k).log g = originIn s.log gy) ∨
    (s.fs.lookup p n = some g ∧ NoFlight s (p, n) ∧ originIn (stepCall s a ps c k).log g = originIn s.log g ∧
        ¬ (isOk (predict (s.view ps) c) = true ∧ callSrc (s.view ps) c = some (p, n)) ∧
        ¬ (isOk (predict (s.view ps) c) = true ∧ callDst (s.view ps) c = some (p, n))) := by
  have hown := x.noFlight_own hnf
  rw [x.hL] at hl
  split at hl
  · -- the target of the call
    rename_i hd
    rcases dst_kind hd.2 with hk | hk
    · obtain ⟨z, hz, hfl, _, _⟩ := x.flight_created hk hd.1
      rw [hd.2] at hz; cases hz
      rw [hfl] at hown
      exact absurd (List.mem_singleton.2 rfl) hown
    · obtain ⟨y, z, gy, hy, hz, hly, hb⟩ := rename_ok hk hd.1
      rw [hb] at hl; cases hl
      have hyown : y ∉ ps.inFlight := fun h => x.isoF.2 hk y h hy
      have hynf : NoFlight s y := by
        intro i q hq
        by_cases hi : i = a
        · rw [hi, x.hp] at hq; cases hq; exact hyown
        · exact fun h => x.src_not_foreign i q y hi hq h hy
      exact .inl ⟨y, hk, hd.1, hd.2, hy, hly, hynf, hyown, x.origin_settled hly hyown⟩
  rename_i hnd
  split at hl
  · cases hl
  rename_i hns
  by_cases hold : NoFlight s (p, n)
  · exact .inr (.inr ⟨hl, hold, x.origin_settled hl (hold a ps x.hp), hns, hnd⟩)
  · -- it was in flight: only the issuing party can have committed it
    have hex : ∃ (i : Nat) (q : PState), s.parties[i]? = some q ∧ (p, n) ∈ q.inFlight := by
      apply Classical.byContradiction
      intro hne
      exact hold (fun i q hq h => hne ⟨i, q, hq, h⟩)
    obtain ⟨i, q, hq, hin⟩ := hex
    by_cases hi : i = a
    · rw [hi, x.hp] at hq; cases hq
      have hncr : ¬ (isCreate c = true ∧ isOk (predict (s.view ps) c) = true) := by
        rintro ⟨hk, _⟩
        rw [inFlight_of_nil (copyI_create_nil x.loc x.hc hk)] at hin
        cases hin
      have hsec : (c.isRename = true ∨ isUnlink c = true) ∧ isOk (predict (s.view ps) c) = true := by
        apply Classical.byContradiction
        intro hne
        apply hown
        rw [x.flightAfter, if_neg hncr, if_neg hne]
        exact hin
      have hfl : ps.inFlight = [(p, n)] := by
        rcases x.shape with ⟨_, h0⟩ | ⟨d', n', p', hF, hp', hfl⟩
        · rw [h0] at hin; cases hin
        · rw [hfl] at hin ⊢
          rw [List.mem_singleton.1 hin]
      rcases hsec.1 with hrn | hul
      · -- a rename onto the name in flight: it is the target
        exfalso
        obtain ⟨y, z, gy, hy, hz, hly, hb⟩ := rename_ok hrn hsec.2
        rcases x.proto with hI | ⟨_, h0⟩
        · cases c <;> simp [Call.isRename] at hrn
          rename_i d1 n1 d2 n2
          have hI : (d2, n2) ∈ inFlightH ps.trace := hI
          rcases x.shape with ⟨h0, _⟩ | ⟨d', n', p', hF, hp', hfl'⟩
          · rw [h0] at hI; cases hI
          · rw [hF] at hI
            obtain ⟨rfl, rfl⟩ : d2 = d' ∧ n2 = n' := by simpa using hI
            rw [hfl'] at hfl
            cases hfl
            apply hnd
            refine ⟨hsec.2, ?_⟩
            simp [callDst, view_dirPath, hp']
        · rw [inFlight_of_nil h0] at hin; cases hin
      · -- the original has been removed: the copy is the message
        have hsrc : ∃ y gy, callSrc (s.view ps) c = some y ∧ s.fs.lookup y.1 y.2 = some gy := by
          cases c <;> simp [isUnlink] at hul
          rename_i d n0
          rcases unlinkat_cases (s.view ps) d n0 with ⟨p', f, hp', hl', hpr, _⟩ | ⟨_, hpr⟩
          · exact ⟨(p', n0), f, by simp [callSrc, hp'], hl'⟩
          · rw [hpr] at hsec; simp [isOk] at hsec
        obtain ⟨y, gy, hy, hly⟩ := hsrc
        have hne : y ≠ (p, n) := by
          rintro rfl
          exact hns ⟨hsec.2, hy⟩
        have hynf : NoFlight s y := by
          intro i q hq
          by_cases hi : i = a
          · rw [hi, x.hp] at hq; cases hq
            rw [hfl]; simpa using hne
          · exact fun h => x.src_not_foreign i q y hi hq h hy
        exact .inr (.inl ⟨y, gy, hul, hsec.2, hy, hfl, hne, hly, hynf, hl,
          x.origin_commit hul hsec.2 hy hfl hne hly hl⟩)
    · exact absurd hin (x.noFlight_foreign hnf i q hi hq)

end Mdsort.Proofs.Parties
