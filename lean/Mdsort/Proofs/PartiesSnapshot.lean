import Mdsort.Proofs.Parties

/-! The directory snapshot of `readdir`: taking it lazily at the first `readdir` of a fresh stream
is the same as storing it in the handle just before that call.  (Used to evaluate concrete
schedules in the kernel: the sorted snapshot `sortedNames` is computed by `List.mergeSort`, which
the kernel cannot unfold, so it is supplied by a proved equation instead.) -/

namespace Mdsort.Proofs.Parties
set_option linter.unusedSimpArgs false
open Mdsort Mdsort.Model
open Mdsort.Proofs.World (core)

def withSnap (pb : PState) (d : Handle) (p : Bytes) (names : List Bytes) : PState :=
  { prog := pb.prog, handles := pb.handles.set d (.dir p (some names) 0), trace := pb.trace }

def withParty (s : Shared) (b : Nat) (pb : PState) : Shared :=
  { fs := s.fs, parties := s.parties.set b pb, log := s.log }

/-- Party `b`'s directory stream `d` on `p` gets the snapshot `names` (position 0). -/
def setSnap (s : Shared) (b : Nat) (d : Handle) (p : Bytes) (names : List Bytes) : Shared :=
  match s.parties[b]? with
  | none => s
  | some pb => withParty s b (withSnap pb d p names)

/-- The call party `b` issues next. -/
def nextCall (s : Shared) (b : Nat) : Option Call :=
  (s.parties[b]?).bind fun p =>
    match p.prog with
    | .call c _ => some c
    | .ret _ => none

/-- What handle `d` of party `b` refers to. -/
def objAt (s : Shared) (b : Nat) (d : Handle) : Option Obj := (s.parties[b]?).map fun p => p.handles.getD d .closed

theorem handlesDirPath_set_dir (hs : List Obj) (d : Handle) (p : Bytes) (sn sn' : Option (List Bytes)) (pos pos' : Nat)
    (h : hs.getD d .closed = .dir p sn pos) (x : Handle) :
    handlesDirPath (hs.set d (.dir p sn' pos')) x = handlesDirPath hs x := by
  unfold handlesDirPath
  by_cases hx : x = d
  · subst hx
    have hlt : x < hs.length := by
      by_cases hl : x < hs.length
      · exact hl
      · simp [List.getD_eq_getElem?_getD, List.getElem?_eq_none (Nat.le_of_not_lt hl)] at h
    rw [h]
    simp [List.getD_eq_getElem?_getD, List.getElem?_set, hlt]
  · have : ¬ d = x := fun e => hx e.symm
    simp [List.getD_eq_getElem?_getD, List.getElem?_set, this]

theorem inFlight_withSnap (pb : PState) (d : Handle) (p : Bytes) (names : List Bytes)
    (h : pb.handles.getD d .closed = .dir p none 0) : (withSnap pb d p names).inFlight = pb.inFlight := by
  unfold PState.inFlight withSnap
  simp only [handlesDirPath_set_dir pb.handles d p none (some names) 0 0 h]

theorem readdir_snapshot (s : Shared) (b : Nat) (d : Handle) (p : Bytes) (es : List (Bytes × Nat))
    (h1 : nextCall s b = some (.readdir d)) (h2 : objAt s b d = some (.dir p none 0)) (h3 : s.fs.dir p = some es) :
    stepParty s b = stepParty (setSnap s b d p (sortedNames es)) b := by
  cases hpb : s.parties[b]? with
  | none => simp [nextCall, hpb] at h1
  | some pb =>
    cases hprog : pb.prog with
    | ret e => simp [nextCall, hpb, hprog] at h1
    | call c k =>
      have hc : c = .readdir d := by simpa [nextCall, hpb, hprog] using h1
      subst hc
      have hobj : pb.handles.getD d .closed = .dir p none 0 := by simpa [objAt, hpb] using h2
      have hlt : b < s.parties.length := (List.getElem?_eq_some_iff.1 hpb).1
      have hdlt : d < pb.handles.length := by
        by_cases hd : d < pb.handles.length
        · exact hd
        · simp [List.getD_eq_getElem?_getD, List.getElem?_eq_none (Nat.le_of_not_lt hd)] at hobj
      have hs' : setSnap s b d p (sortedNames es) = withParty s b (withSnap pb d p (sortedNames es)) := by
        simp [setSnap, hpb]
      rw [stepParty_call hpb hprog, hs']
      have hpb' : (withParty s b (withSnap pb d p (sortedNames es))).parties[b]? = some (withSnap pb d p (sortedNames es)) := by
        simp [withParty, hlt]
      rw [stepParty_call hpb' (show (withSnap pb d p (sortedNames es)).prog = _ from hprog)]
      -- the two views
      have ho : (s.view pb).obj d = .dir p none 0 := hobj
      have ho' : ((withParty s b (withSnap pb d p (sortedNames es))).view (withSnap pb d p (sortedNames es))).obj d =
          .dir p (some (sortedNames es)) 0 := by
        show (pb.handles.set d _).getD d .closed = _
        simp [List.getD_eq_getElem?_getD, List.getElem?_set, hdlt]
      have hdir : (s.view pb).dir p = some es := h3
      have hdir' : ((withParty s b (withSnap pb d p (sortedNames es))).view (withSnap pb d p (sortedNames es))).dir p = some es := h3
      have hpred : predict ((withParty s b (withSnap pb d p (sortedNames es))).view (withSnap pb d p (sortedNames es))) (.readdir d) =
          predict (s.view pb) (.readdir d) := by
        simp only [predict, ho, ho', hdir, hdir', Option.map_some, Option.getD_some, Option.getD_none]
      have hview : stepView (withParty s b (withSnap pb d p (sortedNames es))) (withSnap pb d p (sortedNames es)) (.readdir d) =
          stepView s pb (.readdir d) := by
        unfold stepView
        rw [hpred]
        have hshape : (∃ n, predict (s.view pb) (.readdir d) = .name n) ∨ predict (s.view pb) (.readdir d) = .eof := by
          simp only [predict, ho, hdir, Option.map_some, Option.getD_some, Option.getD_none]
          split
          · exact .inl ⟨_, rfl⟩
          · exact .inr rfl
        cases hr : predict (s.view pb) (.readdir d) with
        | ok v => rw [hr] at hshape; simp at hshape
        | err e => rw [hr] at hshape; simp at hshape
        | name n =>
          have hn : (sortedNames es)[0]? = some n := by
            simp only [predict, ho, hdir, Option.map_some, Option.getD_some, Option.getD_none] at hr
            cases hN : (sortedNames es)[0]? with
            | none => simp [hN] at hr
            | some m => simp [hN] at hr; rw [hr]
          simp only [applyOk, ho, ho', hdir, hdir', Option.map_some, Option.getD_some, Option.getD_none, hn, beq_self_eq_true,
            if_true]
          simp [World.setObj, Shared.view, withParty, withSnap, List.set_set]
        | eof =>
          have hn : (sortedNames es).length ≤ 0 := by
            simp only [predict, ho, hdir, Option.map_some, Option.getD_some, Option.getD_none] at hr
            cases hN : (sortedNames es)[0]? with
            | none => simpa using hN
            | some m => simp [hN] at hr
          simp only [applyOk, ho, ho', hdir, hdir', Option.map_some, Option.getD_some, Option.getD_none, ge_iff_le, hn,
            if_true]
          simp [World.setObj, Shared.view, withParty, withSnap, List.set_set]
      unfold stepCall
      simp only [hview, stepLocal, stepEvent, hpred, callSrc, callDst, inFlight_withSnap pb d p _ hobj]
      simp [withParty, withSnap, Shared.view, List.set_set, World.lookupE]
      rfl

end Mdsort.Proofs.Parties
