import Mdsort.Proofs.PartiesCopyFs
import Mdsort.Proofs.PartiesInv

/-! The global invariant of any number of mdsort parties (every action kind, listing parties) and
the client under `H_iso`: definitions, and what one step does to entries, flights and lineage. -/

namespace Mdsort.Proofs.Parties
set_option linter.unusedSimpArgs false
set_option linter.unusedVariables false
open Mdsort Mdsort.Model
open Mdsort.Proofs.World
open Mdsort.Proofs.Own

/-! ## the calls of the parties -/

def CAllowed : Call → Prop
  | .read _ | .fopen _ | .mkdtemp _ | .mkdir _ | .rmdir _ => False
  | _ => True

theorem callowed_of_copyI {M : Msg → Prop} {tr : Trace} {c : Call} (h : CopyI M tr c) : CAllowed c := by
  cases c <;> first | exact True.intro | exact h.elim

theorem callowed_of_client {c : Call} (h : IsClientCall c) : CAllowed c := by
  cases c <;> first | exact True.intro | exact h.elim

theorem callowed_mkDir {c : Call} (h : CAllowed c) : mkDir c = false := by
  cases c <;> first | rfl | exact h.elim

theorem callowed_not_rmdir {c : Call} (h : CAllowed c) : ∀ q, c ≠ .rmdir q := by
  intro q e; subst e; exact h.elim

/-- A party follows the protocol `CopyI` (with at most one name in flight), or is the client. -/
def LocalOKc (M : Msg → Prop) (ps : PState) : Prop :=
  (inFlightH ps.trace).length ≤ 1 ∧
  (wp PredR (CopyI M) ps.prog (fun _ tr => inFlightH tr = []) ps.trace ∨
   (Calls IsClientCall ps.prog ∧ inFlightH ps.trace = []))

theorem localOKc_I {M : Msg → Prop} {ps : PState} {c : Call} {k : Res → Prog Bool} (h : LocalOKc M ps)
    (hc : ps.prog = .call c k) : CopyI M ps.trace c ∨ (IsClientCall c ∧ inFlightH ps.trace = []) := by
  rcases h.2 with hw | ⟨hcl, h0⟩
  · rw [hc] at hw; exact .inl hw.1
  · rw [hc] at hcl; exact .inr ⟨hcl.1, h0⟩

theorem localOKc_allowed {M : Msg → Prop} {ps : PState} {c : Call} {k : Res → Prog Bool} (h : LocalOKc M ps)
    (hc : ps.prog = .call c k) : CAllowed c := by
  rcases localOKc_I h hc with h | ⟨h, _⟩
  · exact callowed_of_copyI h
  · exact callowed_of_client h

theorem copyI_create_nil {M : Msg → Prop} {ps : PState} {c : Call} {k : Res → Prog Bool} (h : LocalOKc M ps)
    (hc : ps.prog = .call c k) (hk : isCreate c = true) : inFlightH ps.trace = [] := by
  cases c <;> simp [isCreate] at hk
  rcases localOKc_I h hc with h | ⟨h, _⟩
  · exact h
  · exact h.elim

theorem localOKc_step {M : Msg → Prop} {ps : PState} {c : Call} {k : Res → Prog Bool} (h : LocalOKc M ps)
    (hc : ps.prog = .call c k) (w : World) (hs : List Obj) :
    LocalOKc M { prog := k (predict w c), handles := hs, trace := ps.trace ++ [(c, predict w c)] } := by
  refine ⟨?_, ?_⟩
  · show (inFlightH (ps.trace ++ [(c, predict w c)])).length ≤ 1
    rw [inFlightH_snoc]
    rcases inFlightUpd_cases (inFlightH ps.trace) c (predict w c) with hle | ⟨d, n, v, rfl, _, he⟩
    · exact Nat.le_trans hle h.1
    · rw [he, copyI_create_nil h hc rfl]; simp
  · rcases h.2 with hw | ⟨hcl, h0⟩
    · left
      rw [hc] at hw
      exact hw.2 _ ⟨w, rfl⟩
    · right
      rw [hc] at hcl
      refine ⟨hcl.2 _, ?_⟩
      show inFlightH (ps.trace ++ [(c, predict w c)]) = []
      rw [inFlightH_snoc, h0, client_upd_nil hcl.1]

/-! ## the invariant -/

/-- No party has the entry in flight. -/
def NoFlight (s : Shared) (x : Bytes × Bytes) : Prop := ∀ (i : Nat) (ps : PState), s.parties[i]? = some ps → x ∉ ps.inFlight

/-- File `g` was created during the run and no entry holds it. -/
def Unb (s0 s : Shared) (g : Nat) : Prop :=
  s0.fs.nextFid ≤ g ∧ g < s.fs.nextFid ∧ ∀ p n, s.fs.lookup p n ≠ some g

/-- The descriptors a party holds on the file `g` of its name in flight, and the content of `g`:
what reached the file and what the stream still buffers are together the bytes handed to the stream. -/
def WrOK (ps : PState) (g : Nat) (fs : World) : Prop :=
  ∃ f, fs.file g = some f ∧
    (∀ h, (locOf ps.trace).fd = some h → ∃ off wr, ps.handles.getD h .closed = .file g off wr) ∧
    (∀ h, (locOf ps.trace).dup = some h → (∃ off wr, ps.handles.getD h .closed = .file g off wr) ∧ (locOf ps.trace).fd ≠ some h) ∧
    (∀ h, (locOf ps.trace).st = some h → ∃ buf, ps.handles.getD h .closed = .stream g buf ∧ f.data ++ buf = (locOf ps.trace).wr) ∧
    ((locOf ps.trace).st = none → f.data = (locOf ps.trace).wr)

/-- The temporary files of a party are not entries of any directory. -/
def TmpOK (s0 s : Shared) (ps : PState) : Prop :=
  (∀ h ∈ (locOf ps.trace).tmp, ∃ g off wr, ps.handles.getD h .closed = .file g off wr ∧ Unb s0 s g) ∧
  (∀ h ∈ (locOf ps.trace).tst, ∃ g buf, ps.handles.getD h .closed = .stream g buf ∧ Unb s0 s g)

/-- File `g` is a message: it descends from an initial file and is that file, untouched, or a complete
copy written by a party. -/
def Settled (M : Msg → Prop) (s0 s : Shared) (g : Nat) : Prop :=
  (∃ p0 n0, s0.fs.lookup p0 n0 = some (originIn s.log g)) ∧
  ((g < s0.fs.nextFid ∧ originIn s.log g = g) ∨
   (s0.fs.nextFid ≤ g ∧ ∃ m f, M m ∧ s.fs.file g = some f ∧ f.data = (messageWrite m).1))

structure CInv (M : Msg → Prop) (s0 s : Shared) : Prop where
  nextLe : s0.fs.nextFid ≤ s.fs.nextFid
  boundLt : ∀ (p n : Bytes) (f : Nat), s.fs.lookup p n = some f → f < s.fs.nextFid
  inj : ∀ (p n p' n' : Bytes) (f : Nat), s.fs.lookup p n = some f → s.fs.lookup p' n' = some f → p = p' ∧ n = n'
  dirsOk : ∀ (i : Nat) (ps : PState) (d : Handle) (p : Bytes), s.parties[i]? = some ps →
    handlesDirPath ps.handles d = some p → (s.fs.dir p).isSome
  resolves : ∀ (i : Nat) (ps : PState) (x : Handle × Bytes), s.parties[i]? = some ps → x ∈ inFlightH ps.trace →
    (handlesDirPath ps.handles x.1).isSome
  localOk : ∀ (i : Nat) (ps : PState), s.parties[i]? = some ps → LocalOKc M ps
  flightBound : ∀ (i : Nat) (ps : PState) (x : Bytes × Bytes), s.parties[i]? = some ps → x ∈ ps.inFlight →
    ∃ f, s.fs.lookup x.1 x.2 = some f ∧ s0.fs.nextFid ≤ f
  disjoint : ∀ (i j : Nat) (ps qs : PState) (x : Bytes × Bytes), i ≠ j → s.parties[i]? = some ps → s.parties[j]? = some qs →
    x ∈ ps.inFlight → x ∉ qs.inFlight
  writing : ∀ (i : Nat) (ps : PState) (x : Bytes × Bytes) (g : Nat), s.parties[i]? = some ps → x ∈ ps.inFlight →
    s.fs.lookup x.1 x.2 = some g → WrOK ps g s.fs
  tmpOk : ∀ (i : Nat) (ps : PState), s.parties[i]? = some ps → TmpOK s0 s ps
  files : ∀ f, f < s0.fs.nextFid → s.fs.file f = s0.fs.file f
  settled : ∀ (p n : Bytes) (g : Nat), s.fs.lookup p n = some g → NoFlight s (p, n) → Settled M s0 s g
  once : ∀ (p n : Bytes) (g : Nat) (p' n' : Bytes) (g' : Nat), s.fs.lookup p n = some g → s.fs.lookup p' n' = some g' →
    NoFlight s (p, n) → NoFlight s (p', n') → originIn s.log g = originIn s.log g' → p = p' ∧ n = n'
  kept : ∀ (p0 n0 : Bytes) (f0 : Nat), s0.fs.lookup p0 n0 = some f0 →
    (∃ p n g, s.fs.lookup p n = some g ∧ NoFlight s (p, n) ∧ originIn s.log g = f0) ∨ (∃ e ∈ s.log, e.destroysRoot f0 = true)

/-! ## lineage after one more event -/

theorem originIn_snoc (log : List Event) (e : Event) (g : Nat) :
    originIn (log ++ [e]) g = if (e.commits && e.flightFid == some g) = true then e.srcRoot.getD g else originIn log g := by
  simp [originIn, List.foldl_append, originStep]

theorem originIn_snoc_same (log : List Event) (e : Event) (g : Nat) (h : e.commits = false ∨ e.flightFid ≠ some g) :
    originIn (log ++ [e]) g = originIn log g := by
  rw [originIn_snoc]
  rcases h with h | h
  · simp [h]
  · have : (e.flightFid == some g) = false := by simpa using h
    simp [this]

/-! ## the context of one step -/

structure StepCtx (M : Msg → Prop) (s0 s : Shared) (a : Nat) (ps : PState) (c : Call) (k : Res → Prog Bool) : Prop where
  inv : CInv M s0 s
  hp : s.parties[a]? = some ps
  hc : ps.prog = .call c k
  iso : isoStep s a = true
  lt0 : ∀ (p n : Bytes) (f : Nat), s0.fs.lookup p n = some f → f < s0.fs.nextFid

variable {M : Msg → Prop} {s0 s : Shared} {a : Nat} {ps : PState} {c : Call} {k : Res → Prog Bool}

theorem StepCtx.loc (x : StepCtx M s0 s a ps c k) : LocalOKc M ps := x.inv.localOk a ps x.hp

theorem StepCtx.allowed (x : StepCtx M s0 s a ps c k) : CAllowed c := localOKc_allowed x.loc x.hc

theorem StepCtx.proto (x : StepCtx M s0 s a ps c k) :
    CopyI M ps.trace c ∨ (IsClientCall c ∧ inFlightH ps.trace = []) := localOKc_I x.loc x.hc

theorem StepCtx.hpar (x : StepCtx M s0 s a ps c k) (i : Nat) :
    (stepCall s a ps c k).parties[i]? = if i = a then some (stepLocal s ps c k) else s.parties[i]? :=
  stepCall_party s a i ps c k x.hp

theorem StepCtx.hdst (x : StepCtx M s0 s a ps c k) :
    ∀ y, callDst (s.view ps) c = some y → ((s.view ps).dir y.1).isSome := by
  intro y hy
  obtain ⟨d, hd⟩ := dst_dirPath hy
  exact x.inv.dirsOk a ps d y.1 x.hp hd

/-- The entries after the step. -/
theorem StepCtx.hL (x : StepCtx M s0 s a ps c k) (q m : Bytes) :
    (stepCall s a ps c k).fs.lookup q m =
      if isOk (predict (s.view ps) c) = true ∧ callDst (s.view ps) c = some (q, m) then boundBy (s.view ps) c
      else if isOk (predict (s.view ps) c) = true ∧ callSrc (s.view ps) c = some (q, m) then none
      else s.fs.lookup q m :=
  step_lookup (s.view ps) c q m (callowed_mkDir x.allowed) x.hdst

theorem StepCtx.nextge (x : StepCtx M s0 s a ps c k) : s.fs.nextFid ≤ (stepCall s a ps c k).fs.nextFid :=
  core_nextFid (s.view ps) c _

/-- What the party has in flight: nothing, or one resolved name. -/
theorem StepCtx.shape (x : StepCtx M s0 s a ps c k) :
    (inFlightH ps.trace = [] ∧ ps.inFlight = []) ∨
    ∃ d n p, inFlightH ps.trace = [(d, n)] ∧ handlesDirPath ps.handles d = some p ∧ ps.inFlight = [(p, n)] := by
  have hlen := x.loc.1
  match hF : inFlightH ps.trace, hlen with
  | [], _ => exact .inl ⟨rfl, inFlight_of_nil hF⟩
  | [(d, n)], _ =>
    obtain ⟨p, hp⟩ := Option.isSome_iff_exists.1 (x.inv.resolves a ps (d, n) x.hp (by rw [hF]; exact List.mem_singleton.2 rfl))
    exact .inr ⟨d, n, p, rfl, hp, inFlight_of_singleton hF hp⟩
  | _ :: _ :: _, hl => simp at hl

/-- Isolation of the step, as facts. -/
theorem StepCtx.isoF (x : StepCtx M s0 s a ps c k) :
    (∀ i q y, i ≠ a → s.parties[i]? = some q → y ∈ q.inFlight →
      callSrc (s.view ps) c ≠ some y ∧ (c.isRename = true → callDst (s.view ps) c ≠ some y)) ∧
    (c.isRename = true → ∀ y ∈ ps.inFlight, callSrc (s.view ps) c ≠ some y) :=
  iso_facts x.hp x.hc x.iso

/-- A call that succeeds does not bind an entry another party has in flight. -/
theorem StepCtx.dst_not_foreign (x : StepCtx M s0 s a ps c k) (i : Nat) (q : PState) (y : Bytes × Bytes)
    (hi : i ≠ a) (hq : s.parties[i]? = some q) (hy : y ∈ q.inFlight) :
    ¬ (isOk (predict (s.view ps) c) = true ∧ callDst (s.view ps) c = some (y.1, y.2)) := by
  rintro ⟨hok, hd⟩
  obtain ⟨f, hf, _⟩ := x.inv.flightBound i q y hq hy
  rcases dst_kind hd with hk | hk
  · obtain ⟨z, hz, hnone, _, _⟩ := create_ok hk hok
    rw [hd] at hz; cases hz
    rw [show (s.view ps).lookup y.1 y.2 = s.fs.lookup y.1 y.2 from rfl, hf] at hnone; cases hnone
  · exact (x.isoF.1 i q y hi hq hy).2 hk hd

theorem StepCtx.src_not_foreign (x : StepCtx M s0 s a ps c k) (i : Nat) (q : PState) (y : Bytes × Bytes)
    (hi : i ≠ a) (hq : s.parties[i]? = some q) (hy : y ∈ q.inFlight) :
    callSrc (s.view ps) c ≠ some (y.1, y.2) := (x.isoF.1 i q y hi hq hy).1

/-- Entries other parties have in flight are not touched. -/
theorem StepCtx.foreign_lookup (x : StepCtx M s0 s a ps c k) (i : Nat) (q : PState) (y : Bytes × Bytes)
    (hi : i ≠ a) (hq : s.parties[i]? = some q) (hy : y ∈ q.inFlight) :
    (stepCall s a ps c k).fs.lookup y.1 y.2 = s.fs.lookup y.1 y.2 := by
  rw [x.hL, if_neg (x.dst_not_foreign i q y hi hq hy), if_neg (fun h => x.src_not_foreign i q y hi hq hy h.2)]

end Mdsort.Proofs.Parties
