import Mdsort.Proofs.WorldWholeMsg
import Mdsort.Proofs.EvalList

/-!
# A decidable sufficient condition for `WholeNoDiscard`

A rule tree that contains no `discard` action never produces a discard entry, whatever the message:
evaluation appends entries of the types of the tree's nodes only, `matches_merge` / `matches_append`
keep the types, and interpolation keeps the type of every entry.
-/

namespace Mdsort.Proofs
open Mdsort Mdsort.Model

/-- Does the rule tree contain a `discard` action? -/
def wholeHasDiscard : Expr → Bool
  | .block _ e | .neg _ e | .attachment _ e | .attBlock _ e => wholeHasDiscard e
  | .and _ l r | .or _ l r | .mtch _ l r => wholeHasDiscard l || wholeHasDiscard r
  | .discard _ => true
  | _ => false

theorem whole_nd_snoc {a : MatchList} {x : Match} (h : NoDiscard a) (hx : x.ty ≠ .discard) : NoDiscard (a ++ [x]) := by
  intro m hm
  rcases List.mem_append.1 hm with h1 | h1
  · exact h m h1
  · simp only [List.mem_singleton] at h1
    rw [h1]; exact hx

theorem whole_nd_sub {a b : MatchList} (h : NoDiscard b) (hs : ∀ m ∈ a, m ∈ b) : NoDiscard a :=
  fun m hm => h m (hs m hm)

theorem whole_mem_removeFirst (t : MType) : ∀ (ml : MatchList) (m : Match), m ∈ removeFirst ml t → m ∈ ml := by
  intro ml
  induction ml with
  | nil => intro m h; simp [removeFirst] at h
  | cons x r ih =>
    intro m h
    unfold removeFirst at h
    split at h
    · exact List.mem_cons_of_mem _ h
    · rcases List.mem_cons.1 h with h1 | h1
      · rw [h1]; exact List.mem_cons_self ..
      · exact List.mem_cons_of_mem _ (ih m h1)

theorem whole_nd_merge (ml : MatchList) (mh : Match) (h : NoDiscard ml) :
    NoDiscard (matchesMerge ml mh).1 ∧ (matchesMerge ml mh).2.ty = mh.ty := by
  unfold matchesMerge
  split
  · exact ⟨h, rfl⟩
  · split
    · split
      · exact ⟨whole_nd_sub h (fun m hm => (List.dropLast_sublist _).subset hm), rfl⟩
      · dsimp only
        split
        · exact ⟨h, rfl⟩
        · refine ⟨whole_nd_sub h (fun m hm => whole_mem_removeFirst _ ml m hm), ?_⟩
          dsimp only
          split <;> rfl
    · exact ⟨h, rfl⟩

theorem whole_nd_append (env : Env) (ml : MatchList) (mh : Match) (h : NoDiscard ml) (hm : mh.ty ≠ .discard) :
    NoDiscard (matchesAppend env ml mh).1 := by
  unfold matchesAppend
  obtain ⟨h1, h2⟩ := whole_nd_merge ml mh h
  generalize matchesMerge ml mh = r at h1 h2
  obtain ⟨ml1, mh1⟩ := r
  dsimp only at h1 h2 ⊢
  have hm1 : mh1.ty ≠ .discard := by rw [h2]; exact hm
  repeat' (first | exact whole_nd_snoc h1 hm1 | split)

theorem whole_nd_exprAppend (env : Env) (mh : Match) (st : St) (ok : Tri) (h : NoDiscard st.ml) (hm : mh.ty ≠ .discard) :
    NoDiscard (exprAppend env mh st ok).2.ml := by
  unfold exprAppend
  have := whole_nd_append env st.ml mh h hm
  generalize matchesAppend env st.ml mh = r at this
  obtain ⟨ml, failed⟩ := r
  exact this

theorem whole_nd_regexec (env : Env) (ty : MType) (lno part : Nat) (p : Pat) (key val : Bytes) (st : St)
    (h : NoDiscard st.ml) (hty : ty ≠ .discard) : NoDiscard (exprRegexec env ty lno part p key val st).2.ml := by
  unfold exprRegexec
  split
  · exact h
  · exact h
  · rename_i groups _
    dsimp only
    have := whole_nd_append env st.ml
      { ty := ty, lno := lno, part := part, subs := matchCopy p val groups, pat := some p } h hty
    generalize matchesAppend env st.ml
      { ty := ty, lno := lno, part := part, subs := matchCopy p val groups, pat := some p } = r at this ⊢
    obtain ⟨ml, failed⟩ := r
    dsimp only at this ⊢
    split
    · exact this
    · split
      · intro m hm
        have hm' : m ∈ ml.dropLast ++ (ml.getLast?.map fun m => { m with key := some key, val := some val }).toList := hm
        rcases List.mem_append.1 hm' with h1 | h1
        · exact this m ((List.dropLast_sublist _).subset h1)
        · cases hl : ml.getLast? with
          | none => rw [hl] at h1; cases h1
          | some last =>
            rw [hl] at h1
            simp only [Option.map_some, Option.toList_some, List.mem_singleton] at h1
            rw [h1]
            exact this last (List.mem_of_getLast? hl)
      · exact this

theorem whole_nd_loop (env : Env) (root : Msg) (e : Expr)
    (ih : ∀ (part : Nat) (m : Msg) (st : St), NoDiscard st.ml → NoDiscard (eval env root e part m st).2.ml)
    (part : Nat) (ps : List Msg) :
    ∀ (i : Nat) (st : St), NoDiscard st.ml → NoDiscard (eval.loop env root e part ps i st).2.ml := by
  induction ps with
  | nil => intro i st h; simp only [eval.loop]; exact h
  | cons p rest ihp =>
    intro i st h
    simp only [eval.loop]
    have h1 := ih (if part == 0 then i + 1 else part) p st h
    generalize eval env root e (if part == 0 then i + 1 else part) p st = r at h1
    obtain ⟨ev, s1⟩ := r
    cases ev
    · exact h1
    · exact ihp (i + 1) s1 h1
    · exact h1

theorem whole_nd_loopB (env : Env) (root : Msg) (e : Expr)
    (ih : ∀ (part : Nat) (m : Msg) (st : St), NoDiscard st.ml → NoDiscard (eval env root e part m st).2.ml)
    (part : Nat) (ps : List Msg) :
    ∀ (i : Nat) (ev : Tri) (st : St), NoDiscard st.ml → NoDiscard (eval.loopB env root e part ps i ev st).2.ml := by
  induction ps with
  | nil => intro i ev st h; simp only [eval.loopB]; exact h
  | cons p rest ihp =>
    intro i ev0 st h
    simp only [eval.loopB]
    have h1 := ih (if part == 0 then i + 1 else part) p st h
    generalize eval env root e (if part == 0 then i + 1 else part) p st = r at h1
    obtain ⟨ev, s1⟩ := r
    cases ev
    · exact ihp (i + 1) .match s1 h1
    · exact ihp (i + 1) ev0 s1 h1
    · exact h1

theorem whole_nd_values (env : Env) (lno : Nat) (p : Pat) (part : Nat) (k : Bytes) (vs : List Bytes) :
    ∀ (st : St), NoDiscard st.ml → ∀ r, eval.keys.values env lno p part k vs st = some r → NoDiscard r.2.ml := by
  induction vs with
  | nil => intro st h r hr; simp only [eval.keys.values] at hr; cases hr
  | cons v more ihv =>
    intro st h r hr
    simp only [eval.keys.values] at hr
    have h1 := whole_nd_regexec env .header lno part p k v st h (by intro hh; cases hh)
    generalize exprRegexec env .header lno part p k v st = x at h1 hr
    obtain ⟨ev, s1⟩ := x
    cases ev
    · simp only [Option.some.injEq] at hr; rw [← hr]; exact h1
    · exact ihv s1 h1 r hr
    · simp only [Option.some.injEq] at hr; rw [← hr]; exact h1

theorem whole_nd_keys (env : Env) (lno : Nat) (p : Pat) (part : Nat) (m : Msg) (ks : List Bytes) :
    ∀ (st : St), NoDiscard st.ml → NoDiscard (eval.keys env lno p part m ks st).2.ml := by
  induction ks with
  | nil => intro st h; simp only [eval.keys]; exact h
  | cons k rest ihk =>
    intro st h
    simp only [eval.keys]
    cases getHeader m k with
    | none => exact ihk st h
    | some vals =>
      dsimp only
      have hv := whole_nd_values env lno p part k vals st h
      generalize eval.keys.values env lno p part k vals st = o at hv
      cases o with
      | none => exact ihk st h
      | some r => exact hv r rfl

/-- Evaluation of a tree without `discard` adds no discard entry. -/
theorem whole_nd_eval (env : Env) (root : Msg) (e : Expr) (he : wholeHasDiscard e = false) :
    ∀ (part : Nat) (m : Msg) (st : St), NoDiscard st.ml → NoDiscard (eval env root e part m st).2.ml := by
  induction e with
  | block lno e ih =>
    intro part m st h
    simp only [eval]
    have h1 := ih he part m st h
    generalize eval env root e part m st = r at h1
    obtain ⟨ev, s1⟩ := r
    have hrem : ∀ t, NoDiscard (matchesRemove s1.ml t).1 := fun t =>
      whole_nd_sub h1 (fun m hm => (List.mem_filter.1 hm).1)
    cases ev
    · dsimp only
      split
      · exact hrem _
      · split
        · exact hrem _
        · exact h1
    · dsimp only
      split
      · exact hrem _
      · split
        · exact hrem _
        · exact h1
    · exact h1
  | and lno l r ihl ihr =>
    intro part m st h
    simp only [wholeHasDiscard, Bool.or_eq_false_iff] at he
    simp only [eval]
    have h1 := ihl he.1 part m st h
    generalize eval env root l part m st = x at h1
    obtain ⟨ev, s1⟩ := x
    cases ev
    · exact ihr he.2 part m s1 h1
    · exact h1
    · exact h1
  | or lno l r ihl ihr =>
    intro part m st h
    simp only [wholeHasDiscard, Bool.or_eq_false_iff] at he
    simp only [eval]
    have h1 := ihl he.1 part m st h
    generalize eval env root l part m st = x at h1
    obtain ⟨ev, s1⟩ := x
    cases ev
    · exact h1
    · exact ihr he.2 part m s1 h1
    · exact h1
  | neg lno e ih =>
    intro part m st h
    simp only [eval]
    have h1 := ih he part m st h
    generalize eval env root e part m st = x at h1
    obtain ⟨ev, s1⟩ := x
    cases ev
    · exact whole_nd_sub h1 (fun m hm => List.mem_of_mem_take hm)
    · exact h1
    · exact h1
  | mtch lno c rhs ihc ihr =>
    intro part m st h
    simp only [wholeHasDiscard, Bool.or_eq_false_iff] at he
    simp only [eval]
    have h0 := whole_nd_append env st.ml { ty := .mtch, lno := lno, part := part } h (by intro hh; cases hh)
    generalize matchesAppend env st.ml _ = x at h0
    obtain ⟨ml1, f1⟩ := x
    dsimp only at h0 ⊢
    cases f1
    · simp only [Bool.false_eq_true, ↓reduceIte]
      have h1 := ihc he.1 part m { st with ml := ml1 } h0
      generalize eval env root c part m { st with ml := ml1 } = y at h1
      obtain ⟨ev, s1⟩ := y
      cases ev
      · exact ihr he.2 part m s1 h1
      · exact h1
      · exact h1
    · simp only [↓reduceIte]
      exact h0
  | all lno => intro part m st h; simp only [eval]; exact h
  | attachment lno e ih =>
    intro part m st h
    simp only [eval]
    cases getAttachments m with
    | none => exact h
    | some parts => exact whole_nd_loop env root e (ih he) part parts 0 st h
  | attBlock lno e ih =>
    intro part m st h
    simp only [eval]
    cases getAttachments m with
    | none => exact h
    | some parts => exact whole_nd_loopB env root e (ih he) part parts 0 .nomatch st h
  | body lno p =>
    intro part m st h
    simp only [eval]
    cases getBody m with
    | none => exact h
    | some b => exact whole_nd_regexec env .body lno part p _ b st h (by intro hh; cases hh)
  | date lno field cmp age =>
    intro part m st h
    have tail : ∀ (tim : Int) (date : Bytes), NoDiscard
        (if (!dateMatches cmp (↑age) env.now tim) = true then (Tri.nomatch, st)
          else exprRegexec env MType.date lno part { src := [46, 42] } (ofString "Date") date st).2.ml := by
      intro tim date
      split
      · exact h
      · exact whole_nd_regexec env .date lno part _ _ _ st h (by intro hh; cases hh)
    cases field <;> simp only [eval]
    · cases getHeader1 m (ofString "Date") with
      | none => exact h
      | some d =>
        dsimp only
        cases timeParse env.strptime env.zoneName d with
        | none => exact h
        | some t => exact tail t d
    all_goals
      rcases env.fileTime _ with _ | sb
      · exact h
      · dsimp only
        rcases env.timeFormat _ with _ | s
        · exact h
        · exact tail _ s
  | header lno names p =>
    intro part m st h
    simp only [eval]
    exact whole_nd_keys env lno p part m names st h
  | new lno => intro part m st h; simp only [eval]; exact h
  | old lno =>
    intro part m st h
    simp only [eval]
    by_cases hf : flagsIsSet (if (part == 0) = true then st.flags else MFlags.empty) 83 = true
    · simp only [hf, ↓reduceIte]; exact h
    · simp only [hf, Bool.false_eq_true, ↓reduceIte]; exact h
  | stat lno path =>
    intro part m st h
    simp only [eval]
    have h0 := whole_nd_append env st.ml { ty := .stat, lno := lno, part := part, strings := [path] } h (by intro hh; cases hh)
    generalize matchesAppend env st.ml _ = x at h0
    obtain ⟨ml1, f1⟩ := x
    exact whole_nd_sub h0 (fun m hm => (List.dropLast_sublist _).subset hm)
  | command lno argv =>
    intro part m st h
    simp only [eval]
    have h0 := whole_nd_append env st.ml { ty := .command, lno := lno, part := part, strings := argv } h (by intro hh; cases hh)
    generalize matchesAppend env st.ml _ = x at h0
    obtain ⟨ml1, f1⟩ := x
    exact whole_nd_sub h0 (fun m hm => (List.dropLast_sublist _).subset hm)
  | move lno path =>
    intro part m st h
    simp only [eval]
    cases strlcpyFits PATH_MAX path with
    | none => exact h
    | some p => exact whole_nd_exprAppend env _ st _ h (by intro hh; cases hh)
  | flag lno subdir =>
    intro part m st h
    simp only [eval]
    cases strlcpyFits NAME_MAX1 subdir with
    | none => exact h
    | some p => exact whole_nd_exprAppend env _ st _ h (by intro hh; cases hh)
  | flags lno fl =>
    intro part m st h
    simp only [eval]
    generalize eval.setAll fl st.flags false = r
    obtain ⟨mf, err⟩ := r
    dsimp only
    cases err
    · simp only [Bool.false_eq_true, ↓reduceIte]
      exact whole_nd_exprAppend env _ { st with flags := mf } _ h (by intro hh; cases hh)
    · simp only [↓reduceIte]
      exact h
  | discard lno => simp [wholeHasDiscard] at he
  | brk lno => intro part m st h; simp only [eval]; exact whole_nd_exprAppend env _ st _ h (by intro hh; cases hh)
  | label lno ls => intro part m st h; simp only [eval]; exact whole_nd_exprAppend env _ st _ h (by intro hh; cases hh)
  | pass lno => intro part m st h; simp only [eval]; exact whole_nd_exprAppend env _ st _ h (by intro hh; cases hh)
  | reject lno => intro part m st h; simp only [eval]; exact whole_nd_exprAppend env _ st _ h (by intro hh; cases hh)
  | exec lno si bo argv =>
    intro part m st h; simp only [eval]; exact whole_nd_exprAppend env _ st _ h (by intro hh; cases hh)
  | addHeader lno k v =>
    intro part m st h; simp only [eval]; exact whole_nd_exprAppend env _ st _ h (by intro hh; cases hh)

/-- Interpolation keeps the type of every entry. -/
theorem whole_nd_interp_go (macros : Option (List (Bytes × Bytes))) :
    ∀ (rest : MatchList) (i : Nat) (cur : MatchList) (msgs : Nat → Msg) (r : MatchList × (Nat → Msg)),
      matchesInterpolate.go macros i rest cur msgs = some r → NoDiscard rest → NoDiscard cur → NoDiscard r.1 := by
  intro rest
  induction rest with
  | nil =>
    intro i cur msgs r hr _ hc
    rw [matchesInterpolate.go] at hr
    cases hr
    exact hc
  | cons m0 more ih =>
    intro i cur msgs r hr hrest hc
    rw [matchesInterpolate.go] at hr
    cases hmi : matchInterpolate macros cur i m0 msgs with
    | none => rw [hmi] at hr; cases hr
    | some x =>
      obtain ⟨mh', upd⟩ := x
      rw [hmi] at hr
      dsimp only at hr
      have hty : mh'.ty = m0.ty := congrArg Prod.fst (matchInterpolate_key macros cur i m0 mh' msgs upd hmi)
      refine ih (i + 1) _ _ r hr (fun m hm => hrest m (List.mem_cons_of_mem _ hm)) ?_
      intro m hm
      rcases List.mem_or_eq_of_mem_set hm with h1 | h1
      · exact hc m h1
      · rw [h1, hty]; exact hrest m0 (List.mem_cons_self ..)

theorem whole_nd_loopT (env : Env) (root : Msg) (e : Expr)
    (ih : ∀ (part : Nat) (m : Msg) (st : St), NoDiscard st.ml →
      (evalT env root e part m st).AllRet fun r => NoDiscard r.2.ml)
    (part : Nat) (ps : List Msg) :
    ∀ (i : Nat) (st : St), NoDiscard st.ml → (evalT.loop env root e part ps i st).AllRet fun r => NoDiscard r.2.ml := by
  induction ps with
  | nil => intro i st h; simp only [evalT.loop]; exact h
  | cons p rest ihp =>
    intro i st h
    simp only [evalT.loop]
    refine Ask.AllRet.bind (ih _ p st h) ?_
    rintro ⟨ev, s1⟩ h1
    cases ev
    · exact h1
    · exact ihp (i + 1) s1 h1
    · exact h1

theorem whole_nd_loopBT (env : Env) (root : Msg) (e : Expr)
    (ih : ∀ (part : Nat) (m : Msg) (st : St), NoDiscard st.ml →
      (evalT env root e part m st).AllRet fun r => NoDiscard r.2.ml)
    (part : Nat) (ps : List Msg) :
    ∀ (i : Nat) (ev : Tri) (st : St), NoDiscard st.ml →
      (evalT.loopB env root e part ps i ev st).AllRet fun r => NoDiscard r.2.ml := by
  induction ps with
  | nil => intro i ev st h; simp only [evalT.loopB]; exact h
  | cons p rest ihp =>
    intro i ev0 st h
    simp only [evalT.loopB]
    refine Ask.AllRet.bind (ih _ p st h) ?_
    rintro ⟨ev, s1⟩ h1
    cases ev
    · exact ihp (i + 1) .match s1 h1
    · exact ihp (i + 1) ev0 s1 h1
    · exact h1

/-- Evaluation (asking the operating system) of a tree without `discard` adds no discard entry, whatever the answers. -/
theorem whole_nd_evalT (env : Env) (root : Msg) (e : Expr) (he : wholeHasDiscard e = false) :
    ∀ (part : Nat) (m : Msg) (st : St), NoDiscard st.ml →
      (evalT env root e part m st).AllRet fun r => NoDiscard r.2.ml := by
  -- nodes handed to `eval`
  have leaf : ∀ (e : Expr), wholeHasDiscard e = false → ∀ (part : Nat) (m : Msg) (st : St), NoDiscard st.ml →
      (Ask.ret (eval env root e part m st) : Ask (Tri × St)).AllRet fun r => NoDiscard r.2.ml :=
    fun e he part m st h => whole_nd_eval env root e he part m st h
  induction e with
  | block lno e ih =>
    intro part m st h
    simp only [evalT]
    refine Ask.AllRet.bind (ih he part m st h) ?_
    rintro ⟨ev, s1⟩ h1
    have hrem : ∀ t, NoDiscard (matchesRemove s1.ml t).1 := fun t =>
      whole_nd_sub h1 (fun m hm => (List.mem_filter.1 hm).1)
    cases ev
    · dsimp only
      split
      · exact hrem _
      · split
        · exact hrem _
        · exact h1
    · dsimp only
      split
      · exact hrem _
      · split
        · exact hrem _
        · exact h1
    · exact h1
  | and lno l r ihl ihr =>
    intro part m st h
    simp only [wholeHasDiscard, Bool.or_eq_false_iff] at he
    simp only [evalT]
    refine Ask.AllRet.bind (ihl he.1 part m st h) ?_
    rintro ⟨ev, s1⟩ h1
    cases ev
    · exact ihr he.2 part m s1 h1
    · exact h1
    · exact h1
  | or lno l r ihl ihr =>
    intro part m st h
    simp only [wholeHasDiscard, Bool.or_eq_false_iff] at he
    simp only [evalT]
    refine Ask.AllRet.bind (ihl he.1 part m st h) ?_
    rintro ⟨ev, s1⟩ h1
    cases ev
    · exact h1
    · exact ihr he.2 part m s1 h1
    · exact h1
  | neg lno e ih =>
    intro part m st h
    simp only [evalT]
    refine Ask.AllRet.bind (ih he part m st h) ?_
    rintro ⟨ev, s1⟩ h1
    cases ev
    · exact whole_nd_sub h1 (fun m hm => List.mem_of_mem_take hm)
    · exact h1
    · exact h1
  | mtch lno c rhs ihc ihr =>
    intro part m st h
    simp only [wholeHasDiscard, Bool.or_eq_false_iff] at he
    simp only [evalT]
    have h0 := whole_nd_append env st.ml { ty := .mtch, lno := lno, part := part } h (by intro hh; cases hh)
    generalize matchesAppend env st.ml _ = x at h0
    obtain ⟨ml1, f1⟩ := x
    dsimp only at h0 ⊢
    cases f1
    · simp only [Bool.false_eq_true, ↓reduceIte]
      refine Ask.AllRet.bind (ihc he.1 part m { st with ml := ml1 } h0) ?_
      rintro ⟨ev, s1⟩ h1
      cases ev
      · exact ihr he.2 part m s1 h1
      · exact h1
      · exact h1
    · simp only [↓reduceIte]
      exact h0
  | attachment lno e ih =>
    intro part m st h
    simp only [evalT]
    cases getAttachments m with
    | none => exact h
    | some parts => exact whole_nd_loopT env root e (ih he) part parts 0 st h
  | attBlock lno e ih =>
    intro part m st h
    simp only [evalT]
    cases getAttachments m with
    | none => exact h
    | some parts => exact whole_nd_loopBT env root e (ih he) part parts 0 .nomatch st h
  | date lno field cmp age =>
    intro part m st h
    cases field
    · simp only [evalT]; exact leaf _ he part m st h
    all_goals
      simp only [evalT, ask, Ask.ask_bind, Ask.ret_bind]
      intro a
      dsimp only
      split
      · exact h
      · split
        · exact h
        · exact whole_nd_regexec env .date lno part _ _ _ st h (by intro hh; cases hh)
  | stat lno path =>
    intro part m st h
    simp only [evalT, ask, Ask.ask_bind, Ask.ret_bind]
    have h0 := whole_nd_append env st.ml { ty := .stat, lno := lno, part := part, strings := [path] } h (by intro hh; cases hh)
    generalize matchesAppend env st.ml _ = x at h0
    obtain ⟨ml1, f1⟩ := x
    have hd : NoDiscard ml1.dropLast := whole_nd_sub h0 (fun m hm => (List.dropLast_sublist _).subset hm)
    dsimp only
    repeat' (first | exact hd | (intro _; exact hd) | split)
  | command lno argv =>
    intro part m st h
    simp only [evalT, ask, Ask.ask_bind, Ask.ret_bind]
    have h0 := whole_nd_append env st.ml { ty := .command, lno := lno, part := part, strings := argv } h (by intro hh; cases hh)
    generalize matchesAppend env st.ml _ = x at h0
    obtain ⟨ml1, f1⟩ := x
    have hd : NoDiscard ml1.dropLast := whole_nd_sub h0 (fun m hm => (List.dropLast_sublist _).subset hm)
    dsimp only
    repeat' (first | exact hd | (intro _; exact hd) | split)
  | discard lno => simp [wholeHasDiscard] at he
  | all lno => intro part m st h; simp only [evalT]; exact leaf _ he part m st h
  | body lno p => intro part m st h; simp only [evalT]; exact leaf _ he part m st h
  | header lno names p => intro part m st h; simp only [evalT]; exact leaf _ he part m st h
  | new lno => intro part m st h; simp only [evalT]; exact leaf _ he part m st h
  | old lno => intro part m st h; simp only [evalT]; exact leaf _ he part m st h
  | move lno path => intro part m st h; simp only [evalT]; exact leaf _ he part m st h
  | flag lno subdir => intro part m st h; simp only [evalT]; exact leaf _ he part m st h
  | flags lno fl => intro part m st h; simp only [evalT]; exact leaf _ he part m st h
  | brk lno => intro part m st h; simp only [evalT]; exact leaf _ he part m st h
  | label lno ls => intro part m st h; simp only [evalT]; exact leaf _ he part m st h
  | pass lno => intro part m st h; simp only [evalT]; exact leaf _ he part m st h
  | reject lno => intro part m st h; simp only [evalT]; exact leaf _ he part m st h
  | exec lno si bo argv => intro part m st h; simp only [evalT]; exact leaf _ he part m st h
  | addHeader lno k v => intro part m st h; simp only [evalT]; exact leaf _ he part m st h

/-- The verdict on an evaluation result without discard entry has no discard action. -/
theorem whole_evVerdict_nd (env : PEnv) (orc : EvalOracles) (ms : MsgSt) (ev : Tri × St) (h1 : NoDiscard ev.2.ml)
    (ml : MatchList) (msgs : Nat → Msg) (fl : MFlags) (h : evVerdict env orc ms ev = .act ml msgs fl) : NoDiscard ml := by
  obtain ⟨t, est⟩ := ev
  cases t with
  | error => simp only [evVerdict] at h; cases h
  | «nomatch» => simp only [evVerdict] at h; cases h
  | «match» =>
    simp only [evVerdict] at h
    dsimp only at h1
    generalize hmi : matchesInterpolate (msgEnv env orc ms.path) est.ml (partMsg ms.msg ms.parts) = o at h
    cases o with
    | none => dsimp only at h; cases h
    | some x =>
      obtain ⟨ml', msgs'⟩ := x
      dsimp only at h
      injection h with e1 e2 e3
      subst e1
      unfold matchesInterpolate at hmi
      exact whole_nd_interp_go _ est.ml 0 est.ml _ (ml', msgs') hmi h1 h1

theorem whole_msVerdict_nd (env : PEnv) (orc : EvalOracles) (expr : Expr) (he : wholeHasDiscard expr = false) (ms : MsgSt)
    (ml : MatchList) (msgs : Nat → Msg) (fl : MFlags) (h : msVerdict env orc expr ms = .act ml msgs fl) : NoDiscard ml :=
  whole_evVerdict_nd env orc ms _
    (whole_nd_eval (msgEnv env orc ms.path) ms.msg expr he 0 ms.msg { ml := [], flags := ms.flags } (by intro m hm; cases hm))
    ml msgs fl h

theorem whole_msVerdictA_nd (env : PEnv) (orc : EvalOracles) (expr : Expr) (he : wholeHasDiscard expr = false) (ms : MsgSt)
    (as : List SysAns) (ml : MatchList) (msgs : Nat → Msg) (fl : MFlags)
    (h : msVerdictA env orc expr ms as = .act ml msgs fl) : NoDiscard ml :=
  whole_evVerdict_nd env orc ms _
    ((whole_nd_evalT (msgEnv env orc ms.path) ms.msg expr he 0 ms.msg { ml := [], flags := ms.flags }
      (by intro m hm; cases hm)).run as) ml msgs fl h

/-- **A rule tree without `discard` never discards** - whatever the file's name and content, and whatever the operating
system answers to the questions of evaluation. -/
theorem whole_noDiscard_of_syntax (env : PEnv) (orc : EvalOracles) (expr : Expr) (he : wholeHasDiscard expr = false) :
    WholeNoDiscard env orc expr := by
  intro dir name c as ml msgs fl hv
  unfold verdictA at hv
  split at hv
  · exact whole_msVerdictA_nd env orc expr he _ as ml msgs fl hv
  · cases hv

end Mdsort.Proofs
