import Mdsort.Proofs.WorldSingleList
import Mdsort.Proofs.WorldMtime

/-!
# Whole-run loss-freedom: the frame relation `WholeK` (every fault plan)

`WholeK a H w w'`: relative to the world `w`, every directory entry other than `a` that was bound is
bound to the same file, every file that existed has the content it had, every handle below the
cut `H` is untouched and directories persist.  Unlike `Mid` (WorldSingleMid) it does not describe
the entries exactly, so that it survives a failed roll-back (a stray entry under a fresh name).
-/

namespace Mdsort.Proofs.World
open Mdsort Mdsort.Model

/-! ## the calculus: conjunction -/

theorem whole_wp_and {α} {I I' : World → Prop} {p : Prog α} {Q Q' : α → World → Prop} {w : World}
    (h : wp I p Q w) (h' : wp I' p Q' w) :
    wp (fun w => I w ∧ I' w) p (fun a w => Q a w ∧ Q' a w) w := by
  induction p generalizing w with
  | ret a => exact ⟨h, h'⟩
  | call c k ih => intro ft; exact ⟨⟨(h ft).1, (h' ft).1⟩, ih _ (h ft).2 (h' ft).2⟩

/-- A post-only specification gives the trivial invariant. -/
theorem whole_wp_noInv {α} {I : World → Prop} {p : Prog α} {Q : α → World → Prop} {w : World}
    (h : wp I p Q w) : wp NoInv p Q w := wp_inv_mono h fun _ _ => trivial

/-! ## results of the calls whose success needs a bound name -/

theorem whole_unlinkat_results (f : Option Fault) (w : World) (d : Handle) (n : Bytes) :
    (∃ e, faultResult f w (.unlinkat d n) = .err e) ∨
    (faultResult f w (.unlinkat d n) = .ok 0 ∧ ∃ p fid, w.dirPath d = some p ∧ w.lookup p n = some fid) := by
  rcases faultResult_cases f w (.unlinkat d n) (by intro _ h; cases h) (by intro _ _ h; cases h) with h | h
  · rw [h]
    cases hp : w.dirPath d with
    | none => left; exact ⟨"ENOENT", by simp [predict, hp]⟩
    | some p =>
      cases hl : w.lookup p n with
      | none => left; exact ⟨"ENOENT", by simp [predict, hp, hl]⟩
      | some fid => right; exact ⟨by simp [predict, hp, hl], p, fid, rfl, hl⟩
  · exact .inl h

theorem whole_openRd_results (f : Option Fault) (w : World) (d : Handle) (n : Bytes) :
    (∃ e, faultResult f w (.openRd d n) = .err e) ∨
    (faultResult f w (.openRd d n) = .ok w.handles.length ∧ ∃ p fid, w.dirPath d = some p ∧ w.lookup p n = some fid) := by
  rcases faultResult_cases f w (.openRd d n) (by intro _ h; cases h) (by intro _ _ h; cases h) with h | h
  · rw [h]
    cases hp : w.dirPath d with
    | none => left; exact ⟨"ENOENT", by simp [predict, hp]⟩
    | some p =>
      cases hl : w.lookup p n with
      | none => left; exact ⟨"ENOENT", by simp [predict, hp, hl]⟩
      | some fid => right; exact ⟨by simp [predict, hp, hl], p, fid, rfl, hl⟩
  · exact .inl h

/-! ## `Mid` under a change of the trace only -/

theorem Mid.whole_of_same {w w1 w2 : World} {L : Ent → Option Nat} (m : Mid w w1 L) (h : SameFs w1 w2) : Mid w w2 L := by
  refine ⟨?_, ?_, ?_, ?_, ?_, ?_⟩
  · intro x; unfold lk; rw [h.lookup]; exact m.look x
  · intro q; rw [h.dir]; exact m.dirSome q
  · intro x hx; rw [h.obj]; exact m.objs x hx
  · rw [h.handles]; exact m.len
  · rw [h.nextFid]; exact m.nextFid
  · intro g hg; rw [h.file]; exact m.files g hg

/-! ## the frame relation -/

structure WholeK (a : Ent) (H : Nat) (w w' : World) : Prop where
  look : ∀ x fid, x ≠ a → lk w x = some fid → lk w' x = some fid
  files : ∀ g, g < w.nextFid → w'.file g = w.file g
  nextFid : w.nextFid ≤ w'.nextFid
  objs : ∀ h, h < H → w'.obj h = w.obj h
  len : w.handles.length ≤ w'.handles.length
  dirSome : ∀ q, (w.dir q).isSome → (w'.dir q).isSome
  cut : H ≤ w.handles.length

theorem WholeK.refl (a : Ent) {H : Nat} (w : World) (hH : H ≤ w.handles.length) : WholeK a H w w :=
  ⟨fun _ _ _ h => h, fun _ _ => rfl, Nat.le_refl _, fun _ _ => rfl, Nat.le_refl _, fun _ h => h, hH⟩

theorem WholeK.dirPath {a : Ent} {H : Nat} {w w' : World} (k : WholeK a H w w') {h : Handle} {p : Bytes}
    (hp : w.dirPath h = some p) (hh : h < H) : w'.dirPath h = some p := by
  rw [← hp]; exact dirPath_congr (k.objs h hh)

theorem WholeK.mono_cut {a : Ent} {H H' : Nat} {w w' : World} (k : WholeK a H w w') (h : H' ≤ H) : WholeK a H' w w' :=
  ⟨k.look, k.files, k.nextFid, fun x hx => k.objs x (Nat.lt_of_lt_of_le hx h), k.len, k.dirSome, Nat.le_trans h k.cut⟩

theorem WholeK.of_mid {a : Ent} {H : Nat} {w w' : World} {L : Ent → Option Nat} (m : Mid w w' L)
    (hL : ∀ x fid, x ≠ a → lk w x = some fid → L x = some fid) (hH : H ≤ w.handles.length) : WholeK a H w w' := by
  refine ⟨?_, m.files, m.nextFid, ?_, m.len, ?_, hH⟩
  · intro x fid hx h; rw [m.look]; exact hL x fid hx h
  · intro h hh; exact m.objs h (Nat.lt_of_lt_of_le hh hH)
  · intro q hq; rw [m.dirSome]; exact hq

/-- Nothing changed. -/
theorem WholeK.of_mid_same {a : Ent} {H : Nat} {w w' : World} (m : Mid w w' (lk w)) (hH : H ≤ w.handles.length) :
    WholeK a H w w' := WholeK.of_mid m (fun _ _ _ h => h) hH

/-- A fresh name was bound. -/
theorem WholeK.of_mid_new {a b : Ent} {H N : Nat} {w w' : World}
    (m : Mid w w' (fun x => if x = b then some N else lk w x)) (hb : lk w b = none) (hH : H ≤ w.handles.length) :
    WholeK a H w w' := by
  refine WholeK.of_mid m ?_ hH
  intro x fid _ h
  have : x ≠ b := by rintro rfl; rw [hb] at h; cases h
  simp only [this, if_false]; exact h

/-- The entry `a` went to the fresh name `b`. -/
theorem WholeK.of_mid_moved {a b : Ent} {H N : Nat} {w w' : World}
    (m : Mid w w' (fun x => if x = b then some N else if x = a then none else lk w x)) (hb : lk w b = none)
    (hH : H ≤ w.handles.length) : WholeK a H w w' := by
  refine WholeK.of_mid m ?_ hH
  intro x fid hxa h
  have : x ≠ b := by rintro rfl; rw [hb] at h; cases h
  simp only [this, hxa, if_false]; exact h

theorem WholeK.trans {a b : Ent} {H H' : Nat} {w0 w1 w2 : World} (k1 : WholeK a H w0 w1) (k2 : WholeK b H' w1 w2)
    (hb : b = a ∨ lk w0 b = none) (hH : H ≤ H') : WholeK a H w0 w2 := by
  refine ⟨?_, ?_, Nat.le_trans k1.nextFid k2.nextFid, ?_, Nat.le_trans k1.len k2.len, ?_, k1.cut⟩
  · intro x fid hxa h
    refine k2.look x fid ?_ (k1.look x fid hxa h)
    rcases hb with rfl | hb
    · exact hxa
    · rintro rfl; rw [hb] at h; cases h
  · intro g hg
    rw [k2.files g (Nat.lt_of_lt_of_le hg k1.nextFid), k1.files g hg]
  · intro h hh
    rw [k2.objs h (Nat.lt_of_lt_of_le hh hH), k1.objs h hh]
  · intro q hq; exact k2.dirSome q (k1.dirSome q hq)

theorem WholeK.of_same {a : Ent} {H : Nat} {w w1 w2 : World} (k : WholeK a H w w1) (h : SameFs w1 w2) : WholeK a H w w2 := by
  refine ⟨?_, ?_, ?_, ?_, ?_, ?_, k.cut⟩
  · intro x fid hx hl; unfold lk; rw [h.lookup]; exact k.look x fid hx hl
  · intro g hg; rw [h.file]; exact k.files g hg
  · rw [h.nextFid]; exact k.nextFid
  · intro x hx; rw [h.obj]; exact k.objs x hx
  · rw [h.handles]; exact k.len
  · intro q hq; rw [h.dir]; exact k.dirSome q hq

/-- A call that is no directory operation, acts on a handle at or above the cut (if on any) and
writes no file that existed at the start. -/
theorem WholeK.step {a : Ent} {H : Nat} {w w' : World} (k : WholeK a H w w') (c : Call) (r : Res)
    (hd : Call.dirOp c = false) (hsub : ∀ h, Call.subject c = some h → H ≤ h)
    (hfs : ∀ g, g < w.nextFid → fileSafe w' g c) : WholeK a H w (stepWorld w' c r) := by
  have hdirs : (stepWorld w' c r).dirs = w'.dirs := by rw [stepWorld_dirs]; exact core_dirs w' c r hd
  refine ⟨?_, ?_, ?_, ?_, ?_, ?_, k.cut⟩
  · intro x fid hx hl
    rw [lk_step _ _ _ hd]; exact k.look x fid hx hl
  · intro g hg
    rw [stepWorld_file, core_file w' c r g (Nat.lt_of_lt_of_le hg k.nextFid) (hfs g hg), k.files g hg]
  · simpa using Nat.le_trans k.nextFid (core_nextFid w' c r)
  · intro h hh
    rw [stepWorld_obj, core_obj w' c r h (Nat.lt_of_lt_of_le hh (Nat.le_trans k.cut k.len)), k.objs h hh]
    intro hs
    have := hsub h hs
    omega
  · simpa using Nat.le_trans k.len (core_len w' c r)
  · intro q hq
    rw [dir_of_dirs hdirs q]; exact k.dirSome q hq

/-- A script that changes no directory and writes new files only. -/
theorem WholeK.of_fr1 {a : Ent} {H : Nat} {w w1 w2 : World} {S : Nat → Prop} (k : WholeK a H w w1) (fr : Fr1 S w1 w2)
    (hS : ∀ g, S g → w.nextFid ≤ g) : WholeK a H w w2 := by
  refine ⟨?_, ?_, Nat.le_trans k.nextFid fr.nextFid, ?_, Nat.le_trans k.len fr.len, ?_, k.cut⟩
  · intro x fid hx hl
    unfold lk
    rw [lookup_of_dirs fr.dirs]; exact k.look x fid hx hl
  · intro g hg
    rw [fr.files g (Nat.lt_of_lt_of_le hg k.nextFid) (fun hs => by have := hS g hs; omega), k.files g hg]
  · intro h hh
    rw [fr.objs h (Nat.lt_of_lt_of_le hh (Nat.le_trans k.cut k.len)), k.objs h hh]
  · intro q hq
    rw [dir_of_dirs fr.dirs q]; exact k.dirSome q hq

/-- The footprint of `message_write` on a file created since `w`. -/
theorem WholeK.of_frW {a : Ent} {H fid : Nat} {w w1 w2 : World} (k : WholeK a H w w1) (fr : FrW fid w1 w2)
    (hN : w.nextFid ≤ fid) : WholeK a H w w2 := by
  refine ⟨?_, ?_, ?_, ?_, Nat.le_trans k.len fr.len, ?_, k.cut⟩
  · intro x g hx hl
    unfold lk
    rw [lookup_of_dirs fr.dirs]; exact k.look x g hx hl
  · intro g hg
    rw [fr.files g (Nat.lt_of_lt_of_le hg k.nextFid) (by omega), k.files g hg]
  · rw [fr.nextFid]; exact k.nextFid
  · intro h hh
    rw [fr.objs h (Nat.lt_of_lt_of_le hh (Nat.le_trans k.cut k.len)), k.objs h hh]
  · intro q hq
    rw [dir_of_dirs fr.dirs q]; exact k.dirSome q hq

/-- `Fr1` along the footprint of `message_write` on a new file. -/
theorem Fr1.whole_of_frW {S : Nat → Prop} {fid : Nat} {w w1 w2 : World} (a : Fr1 S w w1) (fr : FrW fid w1 w2)
    (hS : S fid) : Fr1 S w w2 := by
  refine ⟨fr.dirs.trans a.dirs, ?_, Nat.le_trans a.len fr.len, ?_, ?_⟩
  · intro h hh
    rw [fr.objs h (Nat.lt_of_lt_of_le hh a.len), a.objs h hh]
  · rw [fr.nextFid]; exact a.nextFid
  · intro g hg hs
    rw [fr.files g (Nat.lt_of_lt_of_le hg a.nextFid) (by rintro rfl; exact hs hS), a.files g hg hs]

/-! ## `message_write` and `maildir_genname` with the frame as invariant -/

/-- `message_write` on a descriptor of a file created since `w`: the frame holds after every call;
at the end the footprint is `Fr1` and, without error, the file has gained the rendered message. -/
theorem whole_messageWriteP {a : Ent} {H : Nat} {w w3 : World} (m : Msg) (fd : Handle) {fid off : Nat} {wr : Bool} {f0 : File}
    (k3 : WholeK a H w w3) (ho : w3.obj fd = .file fid off wr) (hf : w3.file fid = some f0) (hN : w.nextFid ≤ fid) :
    wp (fun w' => WholeK a H w w') (messageWriteP m fd)
      (fun err w' => Fr1 (fun g => g = fid) w3 w' ∧ ∃ f, w'.file fid = some f ∧
        (err = false → f.data = f0.data ++ (messageWrite m).1 ∧ f.durable = f.data)) w3 :=
  wp_mono (wp_inv_mono (whole_wp_and (frame_messageWriteP m fd ho) (fr1_messageWriteP m fd ho hf))
    (fun _ h => k3.of_frW h.1 hN)) (fun _ _ h => h.2)

/-- `maildir_genname` from a world in which nothing has changed yet: the frame holds after every
call; at the end nothing has changed, or one fresh name is bound to a new empty file. -/
theorem whole_genname (env : PEnv) (md : Maildir) (flags : Option Bytes) {a : Ent} {H : Nat} {w : World}
    {d : Handle} {p : Bytes} (hd : md.dirH = some d) (hdw : w.dirPath d = some p) (hdir : (w.dir p).isSome)
    (hH : H ≤ w.handles.length) (fuel count : Nat) {w1 : World} (m : Mid w w1 (lk w)) :
    wp (fun w' => WholeK a H w w') (genname env md flags fuel count)
      (fun res w2 =>
        (res = none → Mid w w2 (lk w)) ∧
        ∀ fd name, res = some (fd, name) → ∃ N,
          lk w (p, name) = none ∧ Mid w w2 (fun x => if x = (p, name) then some N else lk w x) ∧
          w.nextFid ≤ N ∧ N < w2.nextFid ∧ w.handles.length ≤ fd ∧ fd < w2.handles.length ∧
          w2.obj fd = .file N 0 true ∧ w2.file N = some ⟨[], []⟩) w1 := by
  have hp1 : w1.dirPath d = some p := m.dirPath hdw
  have free : ∀ wk n, SameFs w1 wk → wk.lookup p n = none → lk w (p, n) = none := by
    intro wk n hs hl
    rw [← (m.whole_of_same hs).look]; exact hl
  refine wp_mono (spec_gen env md flags d p hd (fun w' => WholeK a H w w') hp1
    (fun w' hs => WholeK.of_mid_same (m.whole_of_same hs) hH)
    (fun wk n hs hl => ?_) fuel count (SameFs.refl w1)) ?_
  · have mk := m.whole_of_same hs
    exact WholeK.of_mid_new (mk.create (mk.dirPath hdw) hl (by rw [mk.dirSome]; exact hdir) _) (free wk n hs hl) hH
  · rintro res w2 (⟨rfl, hs⟩ | ⟨wk, c, hs, -, -, hl, rfl, rfl⟩)
    · exact ⟨fun _ => m.whole_of_same hs, by intro _ _ h; cases h⟩
    · refine ⟨(by intro h; cases h), ?_⟩
      intro fd name h
      simp only [Option.some.injEq, Prod.mk.injEq] at h
      obtain ⟨rfl, rfl⟩ := h
      have mk := m.whole_of_same hs
      have hpk := mk.dirPath hdw
      have nf := newFile_of_openExcl hpk hl
      exact ⟨wk.nextFid, free wk _ hs hl, mk.create hpk hl (by rw [mk.dirSome]; exact hdir) _, mk.nextFid, nf.fidLt,
        mk.len, nf.fdLt, nf.obj, nf.file⟩

/-! ## a located message under the frame -/

/-- The message recorded in `ms` stays where it is when its entry is not `a` … -/
theorem Located.whole_keep {a : Ent} {H : Nat} {w w' : World} {ms : MsgSt} {nb : Ent} (h : Located w ms nb)
    (k : WholeK a H w w') (hne : nb ≠ a) : Located w' ms nb := by
  obtain ⟨hl, fid, hlk, hlt, hf⟩ := h
  exact ⟨hl, fid, k.look nb fid hne hlk, Nat.lt_of_lt_of_le hlt k.nextFid, (k.files fid hlt).trans hf⟩

theorem Located.whole_of_mid {w w' : World} {L : Ent → Option Nat} {ms : MsgSt} {nb : Ent} (h : Located w ms nb)
    (m : Mid w w' L) (hL : L nb = lk w nb) : Located w' ms nb := by
  obtain ⟨hl, fid, hlk, hlt, hf⟩ := h
  exact ⟨hl, fid, by rw [m.look, hL]; exact hlk, Nat.lt_of_lt_of_le hlt m.nextFid, (m.files fid hlt).trans hf⟩

end Mdsort.Proofs.World
