import Mdsort.Spec.ExecStdin
import Mdsort.Proofs.WorldOwnBasic

/-!
# C11_exec_stdin: what `message_get_fd` hands to exec

`Runs p a L`: the program `p` can return `a` having issued exactly the calls of `L` with the
results recorded there.  Every run under `runOracle` (arbitrary results) is such a run
(`runs_runO`), so the shape lemmas below hold whatever the file system answers.
-/

namespace Mdsort.Proofs
open Mdsort Mdsort.Model
open Mdsort.Proofs.World (bind_eq pure_eq ret_bind call_bind' call_bind)
open Mdsort.Proofs.Own (Trace runO runOracle_eq)

/-! ## runs -/

inductive Runs {α : Type} : Prog α → α → Trace → Prop
  | ret (a : α) : Runs (.ret a) a []
  | call (c : Call) (k : Res → Prog α) (r : Res) (a : α) (L : Trace) (h : Runs (k r) a L) :
      Runs (.call c k) a ((c, r) :: L)

theorem runs_ret_iff {α : Type} {a b : α} {L : Trace} : Runs (.ret a) b L ↔ b = a ∧ L = [] := by
  constructor
  · intro h; cases h; exact ⟨rfl, rfl⟩
  · rintro ⟨rfl, rfl⟩; exact .ret _

theorem runs_call_iff {α : Type} {c : Call} {k : Res → Prog α} {b : α} {L : Trace} :
    Runs (.call c k) b L ↔ ∃ r L', L = (c, r) :: L' ∧ Runs (k r) b L' := by
  constructor
  · intro h
    cases h with
    | call _ _ r _ L' h => exact ⟨r, L', rfl, h⟩
  · rintro ⟨r, L', rfl, h⟩; exact .call _ _ _ _ _ h

theorem runs_bind {α β : Type} {p : Prog α} {f : α → Prog β} {b : β} {L : Trace} (h : Runs (p.bind f) b L) :
    ∃ a L1 L2, Runs p a L1 ∧ Runs (f a) b L2 ∧ L = L1 ++ L2 := by
  induction p generalizing L with
  | ret a => exact ⟨a, [], L, .ret a, h, rfl⟩
  | call c k ih =>
    rw [call_bind'] at h
    obtain ⟨r, L', rfl, h'⟩ := runs_call_iff.1 h
    obtain ⟨a, L1, L2, h1, h2, rfl⟩ := ih r h'
    exact ⟨a, (c, r) :: L1, L2, .call _ _ _ _ _ h1, h2, rfl⟩

theorem runs_runO {α : Type} (orc : Nat → Call → Res) (p : Prog α) (i : Nat) :
    Runs p (runO orc p i).1 (runO orc p i).2.1 := by
  induction p generalizing i with
  | ret a => exact .ret a
  | call c k ih => exact .call _ _ _ _ _ (ih _ _)

/-- A run under an oracle, as value and new calls. -/
theorem runs_runOracle {α : Type} (orc : Nat → Call → Res) (p : Prog α) (i : Nat) (tr : Trace) :
    ∃ L, (runOracle orc p i tr).2 = tr ++ L ∧ Runs p (runOracle orc p i tr).1 L := by
  rw [runOracle_eq]
  exact ⟨_, rfl, runs_runO orc p i⟩

/-! ## results -/

theorem isOk_eq (r : Res) : isOk r = !r.isErr := by cases r <;> rfl

theorem isErr_of_not_isOk {r : Res} (h : ¬ isOk r = true) : r.isErr = true := by
  cases r <;> first | rfl | exact absurd rfl h

theorem not_isErr_of_isOk {r : Res} (h : isOk r = true) : r.isErr = false := by
  cases r <;> first | rfl | cases h

theorem failed_of_isErr (c : Call) {r : Res} (h : r.isErr = true) : Spec.failed (c, r) = true := by
  cases r with
  | err e => cases c <;> rfl
  | _ => cases h

/-! ## observation functions -/

theorem written_nil (fd : Handle) : Spec.written fd [] = [] := rfl
theorem written_append (fd : Handle) (A B : Trace) : Spec.written fd (A ++ B) = Spec.written fd A ++ Spec.written fd B := by
  simp [Spec.written, List.flatMap_append]
theorem written_cons (fd : Handle) (x : Call × Res) (L : Trace) :
    Spec.written fd (x :: L) = Spec.written fd [x] ++ Spec.written fd L := written_append fd [x] L
theorem written_write (fd : Handle) (d : Bytes) (n : Nat) : Spec.written fd [(.write fd d, .ok n)] = d.take n := by
  simp [Spec.written]

theorem printed_append (fd : Handle) (A B : Trace) : Spec.printed fd (A ++ B) = Spec.printed fd A ++ Spec.printed fd B := by
  simp [Spec.printed, List.flatMap_append]
theorem printed_cons (fd : Handle) (x : Call × Res) (L : Trace) :
    Spec.printed fd (x :: L) = Spec.printed fd [x] ++ Spec.printed fd L := printed_append fd [x] L
theorem printed_fprintf (fd : Handle) (d : Bytes) {r : Res} (h : r.isErr = false) :
    Spec.printed fd [(.fprintf fd d, r)] = d := by
  simp [Spec.printed, h]

/-! ## `writefd` -/

theorem runs_writefd {tmpdir : Bytes} {o : Option Handle} {L : Trace} (h : Runs (writefd tmpdir) o L) :
    match Spec.tmpTemplate tmpdir with
    | none => o = none ∧ L = []
    | some t =>
      (∃ fd r2, r2.isErr = false ∧ o = some fd ∧ L = [(.mkostemp t, .ok fd), (.unlink t, r2)]) ∨
      (∃ fd r2 r3, r2.isErr = true ∧ o = none ∧ L = [(.mkostemp t, .ok fd), (.unlink t, r2), (.close fd, r3)]) ∨
      (∃ r, (∀ fd, r ≠ .ok fd) ∧ o = none ∧ L = [(.mkostemp t, r)]) := by
  unfold writefd at h
  unfold Spec.tmpTemplate
  cases hp : pathjoin PATH_MAX tmpdir (ofString "mdsort-XXXXXXXX") with
  | none =>
    rw [hp] at h
    simp only [pure_eq] at h
    exact runs_ret_iff.1 h
  | some t =>
    rw [hp] at h
    simp only [bind_eq, pure_eq, call_bind] at h
    obtain ⟨r, L1, rfl, h1⟩ := runs_call_iff.1 h
    clear h
    cases r with
    | ok fd =>
      dsimp only at h1
      obtain ⟨r2, L2, rfl, h2⟩ := runs_call_iff.1 h1
      clear h1
      by_cases hk : isOk r2 = true
      · simp only [hk, if_true] at h2
        obtain ⟨rfl, rfl⟩ := runs_ret_iff.1 h2
        exact .inl ⟨fd, r2, not_isErr_of_isOk hk, rfl, rfl⟩
      · simp only [hk] at h2
        obtain ⟨r3, L3, rfl, h3⟩ := runs_call_iff.1 h2
        obtain ⟨rfl, rfl⟩ := runs_ret_iff.1 h3
        exact .inr (.inl ⟨fd, r2, r3, isErr_of_not_isOk hk, rfl, rfl⟩)
    | name n =>
      dsimp only at h1
      obtain ⟨rfl, rfl⟩ := runs_ret_iff.1 h1
      exact .inr (.inr ⟨_, fun fd hfd => (by cases hfd), rfl, rfl⟩)
    | eof =>
      dsimp only at h1
      obtain ⟨rfl, rfl⟩ := runs_ret_iff.1 h1
      exact .inr (.inr ⟨_, fun fd hfd => (by cases hfd), rfl, rfl⟩)
    | err e =>
      dsimp only at h1
      obtain ⟨rfl, rfl⟩ := runs_ret_iff.1 h1
      exact .inr (.inr ⟨_, fun fd hfd => (by cases hfd), rfl, rfl⟩)

/-! ## the `write` loop -/

theorem runs_writeAll (fd : Handle) : ∀ (fuel : Nat) (data : Bytes) (e : Bool) (L : Trace),
    Runs (writeAll fd fuel data) e L →
      (e = false → (∀ x ∈ L, ∃ d n, x = (Call.write fd d, Res.ok n) ∧ 0 < n) ∧ Spec.written fd L = data) ∧
      (e = true → data.length < fuel → ∃ x ∈ L, Spec.failed x = true) := by
  intro fuel
  induction fuel with
  | zero =>
    intro data e L h
    unfold writeAll at h
    simp only [pure_eq] at h
    obtain ⟨rfl, rfl⟩ := runs_ret_iff.1 h
    exact ⟨fun h => (by cases h), fun _ h => absurd h (Nat.not_lt_zero _)⟩
  | succ fuel ih =>
    intro data e L h
    unfold writeAll at h
    by_cases hd : data.isEmpty = true
    · simp only [hd, if_true, pure_eq] at h
      obtain ⟨rfl, rfl⟩ := runs_ret_iff.1 h
      have : data = [] := List.isEmpty_iff.1 hd
      subst this
      exact ⟨fun _ => ⟨fun x hx => (by cases hx), rfl⟩, fun h => (by cases h)⟩
    · have hd' : data.isEmpty = false := Bool.eq_false_iff.mpr hd
      simp only [hd', Bool.false_eq_true, if_false, bind_eq, pure_eq, call_bind] at h
      obtain ⟨r, L1, rfl, h1⟩ := runs_call_iff.1 h
      clear h
      have hne : data ≠ [] := fun hnil => hd (List.isEmpty_iff.2 hnil)
      cases r with
      | ok n =>
        dsimp only at h1
        by_cases hn : (n == 0) = true
        · simp only [hn, if_true] at h1
          obtain ⟨rfl, rfl⟩ := runs_ret_iff.1 h1
          refine ⟨fun h => (by cases h), fun _ _ => ⟨_, List.mem_cons_self .., ?_⟩⟩
          simpa [Spec.failed] using hn
        · simp only [hn] at h1
          have hn0 : n ≠ 0 := fun h0 => hn (by simp [h0])
          obtain ⟨ih1, ih2⟩ := ih (data.drop n) e L1 h1
          refine ⟨fun he => ?_, fun he hlen => ?_⟩
          · obtain ⟨hw, hwr⟩ := ih1 he
            refine ⟨?_, ?_⟩
            · intro x hx
              rcases List.mem_cons.1 hx with rfl | hx
              · exact ⟨data, n, rfl, Nat.pos_of_ne_zero hn0⟩
              · exact hw x hx
            · rw [written_cons, written_write, hwr, List.take_append_drop]
          · have hl : (data.drop n).length < fuel := by
              have : 0 < data.length := List.length_pos_iff.2 hne
              rw [List.length_drop]
              omega
            obtain ⟨x, hx, hf⟩ := ih2 he hl
            exact ⟨x, List.mem_cons_of_mem _ hx, hf⟩
      | name nm =>
        dsimp only at h1
        obtain ⟨rfl, rfl⟩ := runs_ret_iff.1 h1
        exact ⟨fun h => (by cases h), fun _ _ => ⟨_, List.mem_cons_self .., rfl⟩⟩
      | eof =>
        dsimp only at h1
        obtain ⟨rfl, rfl⟩ := runs_ret_iff.1 h1
        exact ⟨fun h => (by cases h), fun _ _ => ⟨_, List.mem_cons_self .., rfl⟩⟩
      | err er =>
        dsimp only at h1
        obtain ⟨rfl, rfl⟩ := runs_ret_iff.1 h1
        exact ⟨fun h => (by cases h), fun _ _ => ⟨_, List.mem_cons_self .., rfl⟩⟩

/-! ## `message_write` -/

/-- One header line as `message_write` prints it. -/
def hdrLine (h : Hdr) : Bytes := h.key ++ [58, 32] ++ h.val ++ [10]

theorem runs_hdrs (newfd : Handle) : ∀ (hs : List Hdr) (e : Bool) (L : Trace),
    Runs (messageWriteP.hdrs newfd hs) e L →
      (∀ x ∈ L, ∃ d r, x = (Call.fprintf newfd d, r)) ∧
      (e = false → (∀ x ∈ L, Spec.failed x = false) ∧ Spec.printed newfd L = hs.flatMap hdrLine) ∧
      (e = true → ∃ x ∈ L, Spec.failed x = true) := by
  intro hs
  induction hs with
  | nil =>
    intro e L h
    unfold messageWriteP.hdrs at h
    simp only [pure_eq] at h
    obtain ⟨rfl, rfl⟩ := runs_ret_iff.1 h
    exact ⟨fun x hx => (by cases hx), fun _ => ⟨fun x hx => (by cases hx), rfl⟩, fun h => (by cases h)⟩
  | cons hd rest ih =>
    intro e L h
    unfold messageWriteP.hdrs at h
    simp only [bind_eq, pure_eq, call_bind] at h
    obtain ⟨r, L1, rfl, h1⟩ := runs_call_iff.1 h
    clear h
    by_cases hk : isOk r = true
    · simp only [hk, if_true] at h1
      obtain ⟨ih0, ih1, ih2⟩ := ih e L1 h1
      have hne := not_isErr_of_isOk hk
      refine ⟨?_, fun he => ⟨?_, ?_⟩, fun he => ?_⟩
      · intro x hx
        rcases List.mem_cons.1 hx with rfl | hx
        · exact ⟨_, _, rfl⟩
        · exact ih0 x hx
      · intro x hx
        rcases List.mem_cons.1 hx with rfl | hx
        · cases r <;> first | rfl | cases hne
        · exact (ih1 he).1 x hx
      · rw [printed_cons, printed_fprintf newfd _ hne, (ih1 he).2, List.flatMap_cons]
        rfl
      · obtain ⟨x, hx, hf⟩ := ih2 he
        exact ⟨x, List.mem_cons_of_mem _ hx, hf⟩
    · simp only [hk] at h1
      obtain ⟨rfl, rfl⟩ := runs_ret_iff.1 h1
      refine ⟨?_, fun he => (by cases he), fun _ => ⟨_, List.mem_cons_self .., failed_of_isErr _ (isErr_of_not_isOk hk)⟩⟩
      intro x hx
      rcases List.mem_cons.1 hx with rfl | hx
      · exact ⟨_, _, rfl⟩
      · cases hx


/-- Calls whose only way to fail is an error result. -/
def plainCall : Call → Bool
  | .mkostemp _ | .dupfd _ | .write _ _ => false
  | _ => true

theorem not_failed_plain {c : Call} {r : Res} (hc : plainCall c = true) (h : r.isErr = false) :
    Spec.failed (c, r) = false := by
  cases r with
  | err e => cases h
  | _ => cases c <;> first | rfl | cases hc

private theorem render_eq (hs : List Hdr) (body : Bytes) : render hs body = hs.flatMap hdrLine ++ ([10] ++ body) := by
  unfold render
  rw [List.append_assoc]
  rfl

/-- `fprintf("\n%s", body); fflush; fsync` of `message_write`. -/
def writeTail (newfd : Handle) (body : Bytes) : Prog Bool :=
  .call (.fprintf newfd ([10] ++ body)) fun r =>
    if (!isOk r) = true then .ret true
    else .call (.fflush newfd) fun r =>
      if (!isOk r) = true then .ret true
      else .call (.fsync newfd) fun r => .ret (!isOk r)

theorem runs_writeTail {newfd : Handle} {body : Bytes} {e : Bool} {L : Trace} (h : Runs (writeTail newfd body) e L) :
    (e = false → ∃ rb r4 r5, rb.isErr = false ∧ r4.isErr = false ∧ r5.isErr = false ∧
        L = [(.fprintf newfd ([10] ++ body), rb), (.fflush newfd, r4), (.fsync newfd, r5)]) ∧
    (e = true → ∃ x ∈ L, Spec.failed x = true) := by
  unfold writeTail at h
  obtain ⟨rb, L1, rfl, h1⟩ := runs_call_iff.1 h
  clear h
  by_cases hkb : isOk rb = true
  · simp only [hkb, Bool.not_true, Bool.false_eq_true, if_false] at h1
    obtain ⟨r4, L2, rfl, h2⟩ := runs_call_iff.1 h1
    clear h1
    by_cases hk4 : isOk r4 = true
    · simp only [hk4, Bool.not_true, Bool.false_eq_true, if_false] at h2
      obtain ⟨r5, L3, rfl, h3⟩ := runs_call_iff.1 h2
      clear h2
      obtain ⟨rfl, rfl⟩ := runs_ret_iff.1 h3
      by_cases hk5 : isOk r5 = true
      · refine ⟨fun _ => ⟨rb, r4, r5, not_isErr_of_isOk hkb, not_isErr_of_isOk hk4, not_isErr_of_isOk hk5, rfl⟩, fun he => ?_⟩
        simp [hk5] at he
      · refine ⟨fun he => ?_, fun _ => ⟨(.fsync newfd, r5), by simp, failed_of_isErr _ (isErr_of_not_isOk hk5)⟩⟩
        simp [hk5] at he
    · simp only [hk4, Bool.not_false, if_true] at h2
      obtain ⟨rfl, rfl⟩ := runs_ret_iff.1 h2
      exact ⟨fun he => (by cases he), fun _ => ⟨(.fflush newfd, r4), by simp, failed_of_isErr _ (isErr_of_not_isOk hk4)⟩⟩
  · simp only [hkb, Bool.not_false, if_true] at h1
    obtain ⟨rfl, rfl⟩ := runs_ret_iff.1 h1
    exact ⟨fun he => (by cases he), fun _ => ⟨_, List.mem_cons_self .., failed_of_isErr _ (isErr_of_not_isOk hkb)⟩⟩

theorem runs_messageWriteP {m : Msg} {fd : Handle} {e : Bool} {L : Trace} (h : Runs (messageWriteP m fd) e L) :
    (e = false → ∃ newfd r3 P r4 r5 r6,
        L = (.dupfd fd, .ok newfd) :: (.fdopen newfd, r3) ::
              (P ++ [(.fflush newfd, r4), (.fsync newfd, r5), (.fclose newfd, r6)]) ∧
        (∀ x ∈ P, ∃ d r, x = (Call.fprintf newfd d, r)) ∧ (∀ x ∈ L, Spec.failed x = false) ∧
        Spec.printed newfd L = (messageWrite m).1) ∧
    (e = true → ∃ x ∈ L, Spec.failed x = true) := by
  unfold messageWriteP at h
  simp only [bind_eq, pure_eq, call_bind] at h
  obtain ⟨r, L1, rfl, h1⟩ := runs_call_iff.1 h
  clear h
  cases r with
  | ok newfd =>
    dsimp only at h1
    obtain ⟨r3, L2, rfl, h2⟩ := runs_call_iff.1 h1
    clear h1
    by_cases hk3 : isOk r3 = true
    · simp only [hk3, Bool.not_true, Bool.false_eq_true, if_false] at h2
      obtain ⟨herr, La, Lb, hh, h3, rfl⟩ := runs_bind h2
      clear h2
      obtain ⟨hh0, hh1, hh2⟩ := runs_hdrs newfd _ _ _ hh
      obtain ⟨err1, Lc, Ld, h4, h5, rfl⟩ := runs_bind h3
      clear h3
      obtain ⟨r6, Le, rfl, h6⟩ := runs_call_iff.1 h5
      clear h5
      obtain ⟨rfl, rfl⟩ := runs_ret_iff.1 h6
      clear h6
      cases herr with
      | true =>
        simp only [if_true] at h4
        obtain ⟨rfl, rfl⟩ := runs_ret_iff.1 h4
        refine ⟨fun he => ?_, fun _ => ?_⟩
        · simp at he
        · obtain ⟨x, hx, hf⟩ := hh2 rfl
          exact ⟨x, by simp [hx], hf⟩
      | false =>
        simp only [Bool.false_eq_true, if_false] at h4
        have h4' : Runs (writeTail newfd m.body) err1 Lc := h4
        obtain ⟨ht1, ht2⟩ := runs_writeTail h4'
        cases err1 with
        | true =>
          refine ⟨fun he => ?_, fun _ => ?_⟩
          · simp at he
          · obtain ⟨x, hx, hf⟩ := ht2 rfl
            exact ⟨x, by simp [hx], hf⟩
        | false =>
          obtain ⟨rb, r4, r5, hrb, hr4, hr5, rfl⟩ := ht1 rfl
          by_cases hk6 : isOk r6 = true
          · have hr6 := not_isErr_of_isOk hk6
            have hr3 := not_isErr_of_isOk hk3
            refine ⟨fun _ => ⟨newfd, r3, La ++ [(.fprintf newfd ([10] ++ m.body), rb)], r4, r5, r6, ?_, ?_, ?_, ?_⟩, fun he => ?_⟩
            · simp
            · intro x hx
              rcases List.mem_append.1 hx with hx | hx
              · exact hh0 x hx
              · rcases List.mem_singleton.1 hx with rfl
                exact ⟨_, _, rfl⟩
            · intro x hx
              simp only [List.mem_cons, List.mem_append, List.not_mem_nil, or_false] at hx
              rcases hx with rfl | rfl | hx | (rfl | rfl | rfl) | rfl
              · rfl
              · exact not_failed_plain rfl hr3
              · exact (hh1 rfl).1 x hx
              · exact not_failed_plain rfl hrb
              · exact not_failed_plain rfl hr4
              · exact not_failed_plain rfl hr5
              · exact not_failed_plain rfl hr6
            · have hp := (hh1 rfl).2
              simp only [Spec.printed] at hp
              simp [Spec.printed, messageWrite, render_eq, hp, hrb, List.flatMap_cons, List.flatMap_append]
            · simp [hk6] at he
          · refine ⟨fun he => ?_, fun _ => ⟨(.fclose newfd, r6), by simp, failed_of_isErr _ (isErr_of_not_isOk hk6)⟩⟩
            simp [hk6] at he
    · simp only [hk3, Bool.not_false, if_true] at h2
      obtain ⟨rc, L3, rfl, h3⟩ := runs_call_iff.1 h2
      clear h2
      obtain ⟨rfl, rfl⟩ := runs_ret_iff.1 h3
      exact ⟨fun he => (by cases he), fun _ => ⟨(.fdopen newfd, r3), by simp, failed_of_isErr _ (isErr_of_not_isOk hk3)⟩⟩
  | name n =>
    dsimp only at h1
    obtain ⟨rfl, rfl⟩ := runs_ret_iff.1 h1
    exact ⟨fun he => (by cases he), fun _ => ⟨_, List.mem_cons_self .., rfl⟩⟩
  | eof =>
    dsimp only at h1
    obtain ⟨rfl, rfl⟩ := runs_ret_iff.1 h1
    exact ⟨fun he => (by cases he), fun _ => ⟨_, List.mem_cons_self .., rfl⟩⟩
  | err er =>
    dsimp only at h1
    obtain ⟨rfl, rfl⟩ := runs_ret_iff.1 h1
    exact ⟨fun he => (by cases he), fun _ => ⟨_, List.mem_cons_self .., rfl⟩⟩


/-! ## a temporary file that is filled -/

/-- `fd = writefd(dir); if (fill(fd)) { close(fd); return -1; }` -/
def withTmp (tmpdir : Bytes) (fill : Handle → Prog Bool) : Prog (Option Handle) :=
  (writefd tmpdir).bind fun f =>
    match f with
    | none => .ret none
    | some fd => (fill fd).bind fun e => if e = true then .call (.close fd) fun _ => .ret none else .ret (some fd)

theorem runs_withTmp {tmpdir : Bytes} {fill : Handle → Prog Bool} {o : Option Handle} {L : Trace}
    (h : Runs (withTmp tmpdir fill) o L) :
    match Spec.tmpTemplate tmpdir with
    | none => o = none ∧ L = []
    | some t =>
      (∃ fd r2 F, r2.isErr = false ∧ Runs (fill fd) false F ∧ o = some fd ∧
          L = (.mkostemp t, .ok fd) :: (.unlink t, r2) :: F) ∨
      (∃ fd r2 F r3, r2.isErr = false ∧ Runs (fill fd) true F ∧ o = none ∧
          L = (.mkostemp t, .ok fd) :: (.unlink t, r2) :: (F ++ [(.close fd, r3)])) ∨
      (∃ fd r2 r3, r2.isErr = true ∧ o = none ∧ L = [(.mkostemp t, .ok fd), (.unlink t, r2), (.close fd, r3)]) ∨
      (∃ r, (∀ fd, r ≠ .ok fd) ∧ o = none ∧ L = [(.mkostemp t, r)]) := by
  unfold withTmp at h
  obtain ⟨f, L1, L2, hw, h2, rfl⟩ := runs_bind h
  clear h
  have hw' := runs_writefd hw
  cases ht : Spec.tmpTemplate tmpdir with
  | none =>
    rw [ht] at hw'
    obtain ⟨rfl, rfl⟩ := hw'
    dsimp only at h2
    obtain ⟨rfl, rfl⟩ := runs_ret_iff.1 h2
    exact ⟨rfl, rfl⟩
  | some t =>
    rw [ht] at hw'
    dsimp only at hw' ⊢
    rcases hw' with ⟨fd, r2, hr2, rfl, rfl⟩ | ⟨fd, r2, r3, hr2, rfl, rfl⟩ | ⟨r, hr, rfl, rfl⟩
    · dsimp only at h2
      obtain ⟨e, F, L3, hf, h3, rfl⟩ := runs_bind h2
      clear h2
      cases e with
      | true =>
        simp only [if_true] at h3
        obtain ⟨r3, L4, rfl, h4⟩ := runs_call_iff.1 h3
        obtain ⟨rfl, rfl⟩ := runs_ret_iff.1 h4
        exact .inr (.inl ⟨fd, r2, F, r3, hr2, hf, rfl, rfl⟩)
      | false =>
        simp only [Bool.false_eq_true, if_false] at h3
        obtain ⟨rfl, rfl⟩ := runs_ret_iff.1 h3
        exact .inl ⟨fd, r2, F, hr2, hf, rfl, by simp⟩
    · dsimp only at h2
      obtain ⟨rfl, rfl⟩ := runs_ret_iff.1 h2
      exact .inr (.inr (.inl ⟨fd, r2, r3, hr2, rfl, by simp⟩))
    · dsimp only at h2
      obtain ⟨rfl, rfl⟩ := runs_ret_iff.1 h2
      exact .inr (.inr (.inr ⟨r, hr, rfl, by simp⟩))

theorem getLast?_snoc (A : Trace) (x : Call × Res) : (A ++ [x]).getLast? = some x := by simp

/-- What follows for the caller of `withTmp` from what is known about `fill`. -/
theorem withTmp_outcome {tmpdir : Bytes} {fill : Handle → Prog Bool} {o : Option Handle} {L : Trace}
    {Content : Handle → Trace → Prop}
    (hok : ∀ fd F, Runs (fill fd) false F → (∀ x ∈ F, Spec.failed x = false) ∧ Content fd F)
    (hbad : ∀ fd F, Runs (fill fd) true F → ∃ x ∈ F, Spec.failed x = true)
    (h : Runs (withTmp tmpdir fill) o L) :
    (∀ fd, o = some fd → ∃ t r2 F, Spec.tmpTemplate tmpdir = some t ∧
        L = (.mkostemp t, .ok fd) :: (.unlink t, r2) :: F ∧ (∀ x ∈ L, Spec.failed x = false) ∧ Content fd F) ∧
    (o = none →
      (((Spec.tmpTemplate tmpdir).isSome = false ∧ L = []) ∨
       ((Spec.tmpTemplate tmpdir).isSome = true ∧ ∃ x ∈ L, Spec.failed x = true)) ∧
      ∀ fd, Spec.obtainedFd L = some fd → Spec.ClosedLast fd L) := by
  have hs := runs_withTmp h
  cases ht : Spec.tmpTemplate tmpdir with
  | none =>
    rw [ht] at hs
    obtain ⟨rfl, rfl⟩ := hs
    exact ⟨fun fd hfd => (by cases hfd), fun _ => ⟨.inl ⟨rfl, rfl⟩, fun fd hfd => (by cases hfd)⟩⟩
  | some t =>
    rw [ht] at hs
    dsimp only at hs
    rcases hs with ⟨fd, r2, F, hr2, hf, rfl, rfl⟩ | ⟨fd, r2, F, r3, hr2, hf, rfl, rfl⟩ |
      ⟨fd, r2, r3, hr2, rfl, rfl⟩ | ⟨r, hr, rfl, rfl⟩
    · refine ⟨fun fd' hfd => ?_, fun h => (by cases h)⟩
      cases hfd
      obtain ⟨hnf, hc⟩ := hok fd F hf
      refine ⟨t, r2, F, rfl, rfl, ?_, hc⟩
      intro x hx
      rcases List.mem_cons.1 hx with rfl | hx
      · rfl
      · rcases List.mem_cons.1 hx with rfl | hx
        · exact not_failed_plain rfl hr2
        · exact hnf x hx
    · refine ⟨fun fd' hfd => (by cases hfd), fun _ => ⟨.inr ⟨rfl, ?_⟩, fun fd' hfd => ?_⟩⟩
      · obtain ⟨x, hx, hxf⟩ := hbad fd F hf
        exact ⟨x, by simp [hx], hxf⟩
      · have : fd' = fd := by
          simp only [Spec.obtainedFd, List.head?_cons, Option.some.injEq] at hfd
          exact hfd.symm
        subst this
        exact ⟨r3, getLast?_snoc ((Call.mkostemp t, Res.ok fd') :: (Call.unlink t, r2) :: F) _⟩
    · refine ⟨fun fd' hfd => (by cases hfd), fun _ => ⟨.inr ⟨rfl, (.unlink t, r2), by simp, failed_of_isErr _ hr2⟩,
        fun fd' hfd => ?_⟩⟩
      have : fd' = fd := by
        simp only [Spec.obtainedFd, List.head?_cons, Option.some.injEq] at hfd
        exact hfd.symm
      subst this
      exact ⟨r3, rfl⟩
    · refine ⟨fun fd' hfd => (by cases hfd), fun _ => ⟨.inr ⟨rfl, (.mkostemp t, r), by simp, ?_⟩, fun fd' hfd => ?_⟩⟩
      · cases r with
        | ok v => exact absurd rfl (hr v)
        | _ => rfl
      · cases r with
        | ok v => exact absurd rfl (hr v)
        | _ => simp [Spec.obtainedFd] at hfd

/-! ## `message_get_fd` -/

/-- The first half of `message_get_fd`: where the descriptor comes from. -/
def getFdSource (env : PEnv) (ms : MsgSt) (part : Option Msg) (dobody : Bool) : Prog (Option Handle) :=
  if dobody then
    match getBody (part.getD ms.msg) with
    | none => .ret none
    | some body => withTmp env.tmpdir fun fd => writeAll fd (body.length + 1) (cstr body)
  else if part.isSome then withTmp env.tmpdir fun fd => messageWriteP (part.getD ms.msg) fd
  else
    match ms.fd with
    | none => .ret none
    | some mfd => .call (.dupfd mfd) fun r => .ret (resHandle r)

/-- The second half: `lseek(fd, 0, SEEK_SET)`, closing the descriptor if that fails. -/
def rewindFd (fdo : Option Handle) : Prog (Option Handle) :=
  match fdo with
  | none => .ret none
  | some fd => .call (.lseek fd) fun r => if isOk r = true then .ret (some fd) else .call (.close fd) fun _ => .ret none

theorem messageGetFd_eq (env : PEnv) (ms : MsgSt) (part : Option Msg) (dobody : Bool) :
    messageGetFd env ms part dobody = (getFdSource env ms part dobody).bind rewindFd := by
  unfold messageGetFd getFdSource rewindFd withTmp
  simp only [bind_eq, pure_eq, call_bind]
  cases dobody
  · cases part <;> rfl
  · simp only [if_true]
    cases getBody (part.getD ms.msg) <;> rfl

theorem cstr_length_le (s : Bytes) : (cstr s).length ≤ s.length := by
  unfold cstr
  induction s with
  | nil => simp
  | cons a s ih =>
    simp only [List.takeWhile_cons]
    split
    · simp only [List.length_cons]; omega
    · simp

theorem runs_getFdSource {env : PEnv} {ms : MsgSt} {part : Option Msg} {dobody : Bool} {o : Option Handle} {L : Trace}
    (h : Runs (getFdSource env ms part dobody) o L) :
    (∀ fd, o = some fd → Spec.Obtainable env ms part dobody = true ∧ (∀ x ∈ L, Spec.failed x = false) ∧
        Spec.HandedOver env ms part dobody fd L ∧ Spec.obtainedFd L = some fd) ∧
    (o = none →
      ((Spec.Obtainable env ms part dobody = false ∧ L = []) ∨
       (Spec.Obtainable env ms part dobody = true ∧ ∃ x ∈ L, Spec.failed x = true)) ∧
      ∀ fd, Spec.obtainedFd L = some fd → Spec.ClosedLast fd L) := by
  unfold getFdSource at h
  cases dobody with
  | true =>
    simp only [if_true] at h
    cases hb : getBody (part.getD ms.msg) with
    | none =>
      rw [hb] at h
      obtain ⟨rfl, rfl⟩ := runs_ret_iff.1 h
      refine ⟨fun fd hfd => (by cases hfd), fun _ => ⟨.inl ⟨?_, rfl⟩, fun fd hfd => (by cases hfd)⟩⟩
      simp [Spec.Obtainable, hb]
    | some body =>
      rw [hb] at h
      dsimp only at h
      have hout := withTmp_outcome (Content := fun fd F =>
          (∀ x ∈ F, ∃ d n, x = (Call.write fd d, Res.ok n) ∧ 0 < n) ∧ Spec.written fd F = cstr body)
        (fun fd F hf => by
          obtain ⟨h1, _⟩ := runs_writeAll fd _ _ _ _ hf
          obtain ⟨hw, hwr⟩ := h1 rfl
          refine ⟨fun x hx => ?_, hw, hwr⟩
          obtain ⟨d, n, rfl, hn⟩ := hw x hx
          have hn0 : n ≠ 0 := by omega
          simp [Spec.failed, hn0])
        (fun fd F hf => (runs_writeAll fd _ _ _ _ hf).2 rfl (Nat.lt_succ_of_le (cstr_length_le body)))
        h
      refine ⟨fun fd hfd => ?_, fun hn => ?_⟩
      · obtain ⟨t, r2, F, ht, rfl, hnf, hw, hwr⟩ := hout.1 fd hfd
        refine ⟨by simp [Spec.Obtainable, hb, ht], hnf, ?_, rfl⟩
        simp only [Spec.HandedOver, if_true]
        refine ⟨body, t, r2, F, hb, ht, rfl, hw, ?_⟩
        rw [written_cons, written_cons _ _ F, hwr]
        rfl
      · obtain ⟨hcase, hclosed⟩ := hout.2 hn
        refine ⟨?_, hclosed⟩
        rcases hcase with ⟨ht, rfl⟩ | ⟨ht, hx⟩
        · exact .inl ⟨by simp [Spec.Obtainable, hb, ht], rfl⟩
        · exact .inr ⟨by simp [Spec.Obtainable, hb, ht], hx⟩
  | false =>
    simp only [Bool.false_eq_true, if_false] at h
    cases part with
    | some p =>
      simp only [Option.isSome_some, if_true, Option.getD_some] at h
      have hout := withTmp_outcome (Content := fun fd F =>
          ∃ newfd r3 P r4 r5 r6,
            F = (.dupfd fd, .ok newfd) :: (.fdopen newfd, r3) ::
                  (P ++ [(.fflush newfd, r4), (.fsync newfd, r5), (.fclose newfd, r6)]) ∧
            (∀ x ∈ P, ∃ d r, x = (Call.fprintf newfd d, r)) ∧ Spec.printed newfd F = (messageWrite p).1)
        (fun fd F hf => by
          obtain ⟨newfd, r3, P, r4, r5, r6, hF, hP, hnf, hpr⟩ := (runs_messageWriteP hf).1 rfl
          exact ⟨hnf, newfd, r3, P, r4, r5, r6, hF, hP, hpr⟩)
        (fun fd F hf => (runs_messageWriteP hf).2 rfl)
        h
      refine ⟨fun fd hfd => ?_, fun hn => ?_⟩
      · obtain ⟨t, r2, F, ht, rfl, hnf, newfd, r3, P, r4, r5, r6, rfl, hP, hpr⟩ := hout.1 fd hfd
        refine ⟨by simp [Spec.Obtainable, ht], hnf, ?_, rfl⟩
        simp only [Spec.HandedOver, Bool.false_eq_true, if_false]
        refine ⟨t, r2, newfd, r3, P, r4, r5, r6, ht, rfl, hP, ?_⟩
        rw [printed_cons, printed_cons _ (Call.unlink t, r2), hpr]
        rfl
      · obtain ⟨hcase, hclosed⟩ := hout.2 hn
        refine ⟨?_, hclosed⟩
        rcases hcase with ⟨ht, rfl⟩ | ⟨ht, hx⟩
        · exact .inl ⟨by simp [Spec.Obtainable, ht], rfl⟩
        · exact .inr ⟨by simp [Spec.Obtainable, ht], hx⟩
    | none =>
      simp only [Option.isSome_none, Bool.false_eq_true, if_false] at h
      cases hm : ms.fd with
      | none =>
        rw [hm] at h
        obtain ⟨rfl, rfl⟩ := runs_ret_iff.1 h
        refine ⟨fun fd hfd => (by cases hfd), fun _ => ⟨.inl ⟨?_, rfl⟩, fun fd hfd => (by cases hfd)⟩⟩
        simp [Spec.Obtainable, hm]
      | some mfd =>
        rw [hm] at h
        dsimp only at h
        obtain ⟨r, L1, rfl, h1⟩ := runs_call_iff.1 h
        clear h
        obtain ⟨rfl, rfl⟩ := runs_ret_iff.1 h1
        have hob : Spec.Obtainable env ms none false = true := by simp [Spec.Obtainable, hm]
        cases r with
        | ok v =>
          refine ⟨fun fd hfd => ?_, fun hn => (by cases hn)⟩
          have : v = fd := by simpa [resHandle] using hfd
          subst this
          refine ⟨hob, ?_, ?_, rfl⟩
          · intro x hx
            rcases List.mem_singleton.1 hx with rfl
            rfl
          · simp only [Spec.HandedOver, Bool.false_eq_true, if_false]
            exact ⟨mfd, hm, rfl⟩
        | name n =>
          exact ⟨fun fd hfd => (by cases hfd), fun _ => ⟨.inr ⟨hob, _, List.mem_cons_self .., rfl⟩,
            fun fd hfd => (by cases hfd)⟩⟩
        | eof =>
          exact ⟨fun fd hfd => (by cases hfd), fun _ => ⟨.inr ⟨hob, _, List.mem_cons_self .., rfl⟩,
            fun fd hfd => (by cases hfd)⟩⟩
        | err er =>
          exact ⟨fun fd hfd => (by cases hfd), fun _ => ⟨.inr ⟨hob, _, List.mem_cons_self .., rfl⟩,
            fun fd hfd => (by cases hfd)⟩⟩

theorem obtainedFd_append {L : Trace} {fd : Handle} (h : Spec.obtainedFd L = some fd) (M : Trace) :
    Spec.obtainedFd (L ++ M) = some fd := by
  cases L with
  | nil => cases h
  | cons x L => exact h

/-- Every run of `message_get_fd`. -/
theorem runs_messageGetFd {env : PEnv} {ms : MsgSt} {part : Option Msg} {dobody : Bool} {o : Option Handle} {L : Trace}
    (h : Runs (messageGetFd env ms part dobody) o L) :
    (∀ fd, o = some fd → ∃ L0 r, L = L0 ++ [(.lseek fd, r)] ∧ r.isErr = false ∧
        Spec.Obtainable env ms part dobody = true ∧ (∀ x ∈ L, Spec.failed x = false) ∧
        Spec.HandedOver env ms part dobody fd L0) ∧
    (o = none →
      ((Spec.Obtainable env ms part dobody = false ∧ L = []) ∨
       (Spec.Obtainable env ms part dobody = true ∧ ∃ x ∈ L, Spec.failed x = true)) ∧
      ∀ fd, Spec.obtainedFd L = some fd → Spec.ClosedLast fd L) := by
  rw [messageGetFd_eq] at h
  obtain ⟨fdo, L1, L2, hs, hr, rfl⟩ := runs_bind h
  clear h
  obtain ⟨hs1, hs2⟩ := runs_getFdSource hs
  cases fdo with
  | none =>
    unfold rewindFd at hr
    obtain ⟨rfl, rfl⟩ := runs_ret_iff.1 hr
    rw [List.append_nil]
    exact ⟨fun fd hfd => (by cases hfd), fun _ => hs2 rfl⟩
  | some fd0 =>
    obtain ⟨hob, hnf, hho, hfd0⟩ := hs1 fd0 rfl
    unfold rewindFd at hr
    dsimp only at hr
    obtain ⟨r, L3, rfl, h3⟩ := runs_call_iff.1 hr
    clear hr
    by_cases hk : isOk r = true
    · simp only [hk, if_true] at h3
      obtain ⟨rfl, rfl⟩ := runs_ret_iff.1 h3
      refine ⟨fun fd hfd => ?_, fun hn => (by cases hn)⟩
      cases hfd
      refine ⟨L1, r, rfl, not_isErr_of_isOk hk, hob, ?_, hho⟩
      intro x hx
      rcases List.mem_append.1 hx with hx | hx
      · exact hnf x hx
      · rcases List.mem_singleton.1 hx with rfl
        exact not_failed_plain rfl (not_isErr_of_isOk hk)
    · simp only [hk] at h3
      obtain ⟨r', L4, rfl, h4⟩ := runs_call_iff.1 h3
      clear h3
      obtain ⟨rfl, rfl⟩ := runs_ret_iff.1 h4
      refine ⟨fun fd hfd => (by cases hfd), fun _ => ⟨.inr ⟨hob, (.lseek fd0, r), by simp,
        failed_of_isErr _ (isErr_of_not_isOk hk)⟩, fun fd hfd => ?_⟩⟩
      rw [obtainedFd_append hfd0] at hfd
      cases hfd
      exact ⟨r', getLast?_snoc (L1 ++ [(Call.lseek fd0, r)]) _ ▸ by simp⟩


/-! ## under an oracle: arbitrary results for every call -/

/-- A descriptor is returned only after the documented content was handed over and the
descriptor was rewound by a successful `lseek`, which is the last call; no call before it failed. -/
theorem exec_stdin_handed_over (env : PEnv) (ms : MsgSt) (part : Option Msg) (dobody : Bool)
    (orc : Nat → Call → Res) (i : Nat) (tr : Trace) (fd : Handle)
    (h : (runOracle orc (messageGetFd env ms part dobody) i tr).1 = some fd) :
    ∃ L0 r, (runOracle orc (messageGetFd env ms part dobody) i tr).2 = tr ++ L0 ++ [(.lseek fd, r)] ∧
      r.isErr = false ∧ (∀ x ∈ L0, Spec.failed x = false) ∧ Spec.HandedOver env ms part dobody fd L0 := by
  obtain ⟨L, hL, hr⟩ := runs_runOracle orc (messageGetFd env ms part dobody) i tr
  obtain ⟨L0, r, rfl, hre, -, hnf, hho⟩ := (runs_messageGetFd hr).1 fd h
  exact ⟨L0, r, by rw [hL, List.append_assoc], hre, fun x hx => hnf x (List.mem_append_left _ hx), hho⟩

/-- A descriptor is returned iff the source is obtainable and no call of the run failed. -/
theorem exec_stdin_delivered_iff (env : PEnv) (ms : MsgSt) (part : Option Msg) (dobody : Bool)
    (orc : Nat → Call → Res) (i : Nat) (tr L : Trace)
    (hL : (runOracle orc (messageGetFd env ms part dobody) i tr).2 = tr ++ L) :
    (runOracle orc (messageGetFd env ms part dobody) i tr).1.isSome = true ↔
      Spec.Obtainable env ms part dobody = true ∧ ∀ x ∈ L, Spec.failed x = false := by
  obtain ⟨L', hL', hr⟩ := runs_runOracle orc (messageGetFd env ms part dobody) i tr
  have : L' = L := List.append_cancel_left (hL'.symm.trans hL)
  subst this
  generalize (runOracle orc (messageGetFd env ms part dobody) i tr).1 = o at hr
  obtain ⟨h1, h2⟩ := runs_messageGetFd hr
  cases o with
  | none =>
    refine ⟨fun h => (by cases h), fun ⟨hob, hall⟩ => ?_⟩
    rcases (h2 rfl).1 with ⟨hf, -⟩ | ⟨-, x, hx, hxf⟩
    · rw [hob] at hf; cases hf
    · rw [hall x hx] at hxf; cases hxf
  | some fd =>
    obtain ⟨L0, r, -, -, hob, hnf, -⟩ := h1 fd rfl
    exact ⟨fun _ => ⟨hob, hnf⟩, fun _ => rfl⟩

/-- Any failing call makes the result `none`, and a run that returns `none` has closed the
descriptor it had obtained (temporary file or duplicate) with its last call. -/
theorem exec_stdin_failure (env : PEnv) (ms : MsgSt) (part : Option Msg) (dobody : Bool)
    (orc : Nat → Call → Res) (i : Nat) (tr L : Trace)
    (hL : (runOracle orc (messageGetFd env ms part dobody) i tr).2 = tr ++ L) :
    ((∃ x ∈ L, Spec.failed x = true) → (runOracle orc (messageGetFd env ms part dobody) i tr).1 = none) ∧
    ((runOracle orc (messageGetFd env ms part dobody) i tr).1 = none →
      ∀ fd, Spec.obtainedFd L = some fd → Spec.ClosedLast fd L) := by
  obtain ⟨L', hL', hr⟩ := runs_runOracle orc (messageGetFd env ms part dobody) i tr
  have : L' = L := List.append_cancel_left (hL'.symm.trans hL)
  subst this
  generalize (runOracle orc (messageGetFd env ms part dobody) i tr).1 = o at hr
  obtain ⟨h1, h2⟩ := runs_messageGetFd hr
  refine ⟨fun ⟨x, hx, hxf⟩ => ?_, fun ho => (h2 ho).2⟩
  cases o with
  | none => rfl
  | some fd =>
    obtain ⟨L0, r, -, -, -, hnf, -⟩ := h1 fd rfl
    rw [hnf x hx] at hxf
    cases hxf

end Mdsort.Proofs
