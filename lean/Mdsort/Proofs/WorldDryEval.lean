import Mdsort.Proofs.WorldExitBasic

/-!
# Evaluating a fault-free run in the kernel

`predict` and `applyOk` sort the names of a directory with `List.mergeSort`, which is defined by
well-founded recursion and is not evaluated by the kernel (`decide +kernel` gets stuck at the first
`readdir` of a fresh stream).  `dry_runNone` is the fault-free interpreter with the snapshot of a fresh
stream computed by an insertion sort before `predict` / `stepWorld` look at it; `dry_runNone_eq`: it
computes exactly `runPlan Plan.none`.  It is used for the evaluated witnesses only.
-/

namespace Mdsort.Proofs
open Mdsort Mdsort.Model

/-! ## insertion sort computes `mergeSort` -/

def dry_insert (a : Bytes) : List Bytes → List Bytes
  | [] => [a]
  | b :: l => if a ≤ b then a :: b :: l else b :: dry_insert a l

def dry_isort : List Bytes → List Bytes
  | [] => []
  | a :: l => dry_insert a (dry_isort l)

theorem dry_insert_perm (a : Bytes) (l : List Bytes) : (dry_insert a l).Perm (a :: l) := by
  induction l with
  | nil => exact List.Perm.refl _
  | cons b l ih =>
    unfold dry_insert
    split
    · exact List.Perm.refl _
    · exact ((ih.cons b).trans (List.Perm.swap a b l))

theorem dry_isort_perm (l : List Bytes) : (dry_isort l).Perm l := by
  induction l with
  | nil => exact List.Perm.refl _
  | cons a l ih => exact (dry_insert_perm a _).trans (ih.cons a)

theorem dry_insert_sorted (a : Bytes) (l : List Bytes) (h : l.Pairwise (fun x y => x ≤ y)) :
    (dry_insert a l).Pairwise (fun x y => x ≤ y) := by
  induction l with
  | nil => simp [dry_insert]
  | cons b l ih =>
    rw [List.pairwise_cons] at h
    unfold dry_insert
    split
    · rename_i hab
      rw [List.pairwise_cons]
      refine ⟨?_, List.pairwise_cons.2 h⟩
      intro x hx
      rcases List.mem_cons.1 hx with rfl | hx
      · exact hab
      · exact exit0_bytes_le_trans _ _ _ hab (h.1 x hx)
    · rename_i hab
      have hba : b ≤ a := by
        rcases exit0_bytes_le_total a b with h1 | h1
        · exact absurd h1 hab
        · exact h1
      rw [List.pairwise_cons]
      refine ⟨?_, ih h.2⟩
      intro x hx
      rcases List.mem_cons.1 ((dry_insert_perm a l).mem_iff.1 hx) with rfl | hx
      · exact hba
      · exact h.1 x hx

theorem dry_isort_sorted (l : List Bytes) : (dry_isort l).Pairwise (fun x y => x ≤ y) := by
  induction l with
  | nil => simp [dry_isort]
  | cons a l ih => exact dry_insert_sorted a _ ih

theorem dry_isort_eq (l : List Bytes) : l.mergeSort (fun a b => decide (a ≤ b)) = dry_isort l := by
  have tr : ∀ a b c : Bytes, (decide (a ≤ b)) = true → (decide (b ≤ c)) = true → (decide (a ≤ c)) = true := by
    intro a b c h1 h2
    exact decide_eq_true (exit0_bytes_le_trans a b c (of_decide_eq_true h1) (of_decide_eq_true h2))
  have tot : ∀ a b : Bytes, (decide (a ≤ b) || decide (b ≤ a)) = true := by
    intro a b
    rcases exit0_bytes_le_total a b with h1 | h1 <;> simp [h1]
  refine List.Perm.eq_of_pairwise (le := fun a b => (decide (a ≤ b)) = true) ?_
    (List.pairwise_mergeSort tr tot l) ?_ ?_
  · intro a b _ _ h1 h2
    exact exit0_bytes_le_antisymm a b (of_decide_eq_true h1) (of_decide_eq_true h2)
  · exact (dry_isort_sorted l).imp (fun h => decide_eq_true h)
  · exact (List.mergeSort_perm l _).trans (dry_isort_perm l).symm

/-- `sortedNames`, computed by insertion. -/
def dry_sortedNames (es : List (Bytes × Nat)) : List Bytes :=
  dry_isort (([46] : Bytes) :: ([46, 46] : Bytes) :: es.map (fun e => e.1))

theorem dry_sortedNames_eq (es : List (Bytes × Nat)) : sortedNames es = dry_sortedNames es := dry_isort_eq _

/-! ## the fault-free interpreter with pre-computed snapshots -/

/-- Before a `readdir` on a stream without snapshot: take the snapshot (by insertion sort). -/
def dry_presnap (w : World) : Call → World
  | .readdir d =>
    match w.obj d with
    | .dir p none pos => w.setObj d (.dir p (some (((w.dir p).map dry_sortedNames).getD [])) pos)
    | _ => w
  | _ => w

theorem dry_presnap_dir (w : World) (c : Call) (p : Bytes) : (dry_presnap w c).dir p = w.dir p := by
  unfold dry_presnap
  split
  · split <;> rfl
  · rfl

theorem dry_setObj_setObj (w : World) (d : Handle) (o1 o2 : Obj) : (w.setObj d o1).setObj d o2 = w.setObj d o2 := by
  unfold World.setObj
  simp

theorem dry_snap_eq (w : World) (p : Bytes) :
    ((w.dir p).map dry_sortedNames).getD [] = ((w.dir p).map sortedNames).getD [] := by
  cases w.dir p with
  | none => rfl
  | some es => simp [dry_sortedNames_eq]

theorem dry_predict_presnap (w : World) (c : Call) : predict (dry_presnap w c) c = predict w c := by
  cases c with
  | readdir d =>
    unfold dry_presnap
    dsimp only
    cases ho : w.obj d with
    | dir p snap pos =>
      cases snap with
      | none =>
        dsimp only
        have hlt : d < w.handles.length := World.lt_of_obj_ne_closed w d (by rw [ho]; intro h; cases h)
        simp only [predict, World.obj_setObj, hlt, and_self, if_true, ho, Option.getD_some, Option.getD_none, dry_snap_eq]
      | some names => dsimp only
    | file a b c => dsimp only
    | stream a b => dsimp only
    | other => dsimp only
    | closed => dsimp only
  | _ => rfl

theorem dry_step_presnap (w : World) (c : Call) : stepWorld (dry_presnap w c) c (predict w c) = stepWorld w c (predict w c) := by
  cases c with
  | readdir d =>
    unfold dry_presnap
    dsimp only
    cases ho : w.obj d with
    | dir p snap pos =>
      cases snap with
      | none =>
        dsimp only
        have hlt : d < w.handles.length := World.lt_of_obj_ne_closed w d (by rw [ho]; intro h; cases h)
        cases hget : (((w.dir p).map sortedNames).getD [])[pos]? with
        | some n =>
          have hp : predict w (.readdir d) = .name n := by
            simp only [predict, ho, Option.getD_none, hget]
          rw [hp]
          simp only [stepWorld, applyOk, World.obj_setObj, hlt, and_self, if_true, ho, Option.getD_some, Option.getD_none,
            dry_snap_eq, hget, beq_self_eq_true, dry_setObj_setObj]
        | none =>
          have hp : predict w (.readdir d) = .eof := by
            simp only [predict, ho, Option.getD_none, hget]
          rw [hp]
          have hge : pos ≥ (((w.dir p).map sortedNames).getD []).length := by
            have := List.getElem?_eq_none_iff.1 hget
            omega
          simp only [stepWorld, applyOk, World.obj_setObj, hlt, and_self, if_true, ho, Option.getD_some, Option.getD_none,
            dry_snap_eq, hge, dry_setObj_setObj]
      | some names => dsimp only
    | file a b c => dsimp only
    | stream a b => dsimp only
    | other => dsimp only
    | closed => dsimp only
  | _ => rfl

/-- The fault-free run: value and final world. -/
def dry_runNone {α} : Prog α → World → α × World
  | .ret a, w => (a, w)
  | .call c k, w =>
    let w0 := dry_presnap w c
    let r := predict w0 c
    dry_runNone (k r) (stepWorld w0 c r)

theorem dry_runNone_eq {α} (p : Prog α) (w : World) (i : Nat) (hist : List World) :
    (runPlan Plan.none p w i hist).1 = (dry_runNone p w).1 ∧ (runPlan Plan.none p w i hist).2.1 = (dry_runNone p w).2 := by
  induction p generalizing w i hist with
  | ret a => exact ⟨rfl, rfl⟩
  | call c k ih =>
    have hr : planResult Plan.none i w c = predict w c := rfl
    simp only [runPlan, dry_runNone, hr, dry_predict_presnap, dry_step_presnap]
    exact ih _ _ _ _

end Mdsort.Proofs
