import Mdsort.Proofs.ExecSeqTop

/-!
The ghost field `MsgSt.content` ("what the file the message's ENTRY is bound to contains") along a
prefix of the action list, for lists without move / flag / flags: it is the content produced by the
rewriting actions, i.e. what the message's DESCRIPTOR refers to.  (After a copy across devices the
two differ: `C13_exec_stdin_sees_content_false`.)
-/

namespace Mdsort.Proofs.ExecSeq
open Mdsort Mdsort.Model Mdsort.Spec Mdsort.Proofs.World

theorem All.runW {α} {P : α → Prop} {p : Prog α} (h : All P p) (orc : Nat → Call → Res) (w : World) (i : Nat) :
    P (runW orc p w i).1 := by
  induction p generalizing w i with
  | ret a => exact h
  | call c k ih => exact ih _ (h _) _ _

theorem all_messageSetFile_content (ms : MsgSt) (dir name : Bytes) (fd : Option Handle) :
    All (fun r => r.1.msg = ms.msg ∧ r.1.content = ms.content) (messageSetFile ms dir name fd) := by
  unfold messageSetFile
  simp only [bind_eq, pure_eq, call_bind]
  repeat' (first | exact ⟨rfl, rfl⟩ | all_step)

theorem all_maildirWrite_content (env : PEnv) (md : Maildir) (ms : MsgSt) :
    All (fun r => r.2 = false → r.1.content = (messageWrite ms.msg).1 ∧ r.1.msg = ms.msg) (maildirWrite env md ms) := by
  unfold maildirWrite gennameStart
  simp only [bind_eq, pure_eq, call_bind]
  split
  · intro h; cases h
  refine All.bind_of_forall _ ?_
  intro g
  split
  · intro h; cases h
  refine All.bind_of_forall _ ?_
  intro we rc
  refine All.bind_of_forall _ ?_
  intro err
  split
  · refine All.bind_of_forall _ ?_
    intro _ h; cases h
  · split
    · intro h; cases h
    · intro r
      dsimp only
      split
      · refine All.bind_mono (all_messageSetFile_content _ _ _ _) ?_
        rintro ⟨ms', e⟩ ⟨h1, h2⟩
        dsimp only at h1 h2 ⊢
        split
        · intro _ h; cases h
        · intro _; exact ⟨h2, h1⟩
      · intro h; cases h

theorem all_execOne_content (env : PEnv) (mh : Match) (st : ExecSt)
    (hnm : mh.ty ≠ .move ∧ mh.ty ≠ .flag ∧ mh.ty ≠ .flags) :
    All (fun r => r.2 = false →
        r.1.ms.content = (if isRewrite mh = true then (messageWrite st.ms.msg).1 else st.ms.content) ∧ r.1.ms.msg = st.ms.msg)
      (execOne env mh st) := by
  generalize hc : (if isRewrite mh = true then (messageWrite st.ms.msg).1 else st.ms.content) = c'
  unfold execOne
  simp only [bind_eq, pure_eq, call_bind]
  split
  · rename_i h; exact absurd h hnm.1
  · rename_i h; exact absurd h hnm.2.1
  · rename_i h; exact absurd h hnm.2.2
  · rename_i hty
    refine All.bind_of_forall _ ?_
    intro e he
    dsimp only at he ⊢
    subst he
    rw [← hc]
    simp [isRewrite, hty]
  · rename_i hty
    refine All.bind_mono (all_maildirWrite_content env st.src st.ms) ?_
    rintro ⟨ms', e⟩ h he
    rw [← hc]
    simpa [isRewrite, hty] using h he
  · rename_i hty
    refine All.bind_mono (all_maildirWrite_content env st.src st.ms) ?_
    rintro ⟨ms', e⟩ h he
    rw [← hc]
    simpa [isRewrite, hty] using h he
  · rename_i hty
    intro _
    rw [← hc]
    simp [isRewrite, hty]
  · rename_i hty
    refine All.bind_of_forall _ ?_
    intro fdr
    split
    · intro h; cases h
    · refine All.bind_of_forall _ ?_
      intro rc
      split
      · intro _ _
        rw [← hc]
        simp [isRewrite, hty]
      · intro _
        rw [← hc]
        simp [isRewrite, hty]
  · rename_i hne
    intro _
    have : isRewrite mh = false := by
      unfold isRewrite
      cases hty : mh.ty <;> simp_all
    rw [← hc]
    simp [this]

theorem all_execList_content (env : PEnv) (pre : MatchList) (st : ExecSt)
    (hnm : ∀ m ∈ pre, m.ty ≠ .move ∧ m.ty ≠ .flag ∧ m.ty ≠ .flags) :
    All (fun r => r.2 = false → r.1.ms.content = rewrittenBefore pre st.ms.msg st.ms.content ∧ r.1.ms.msg = st.ms.msg)
      (execList env pre st) := by
  induction pre generalizing st with
  | nil => intro _; exact ⟨by simp [rewrittenBefore], rfl⟩
  | cons mh rest ih =>
    unfold execList
    refine All.bind_mono (all_execOne_content env mh st (hnm mh (List.mem_cons_self ..))) ?_
    rintro ⟨st1, e⟩ h1
    dsimp only at h1 ⊢
    split
    · intro h; cases h
    · rename_i he
      have he' : e = false := by simpa using he
      obtain ⟨hc1, hm1⟩ := h1 he'
      refine All.mono (ih st1 (fun m hm => hnm m (List.mem_cons_of_mem _ hm))) ?_
      intro r hr hre
      obtain ⟨hc2, hm2⟩ := hr hre
      refine ⟨?_, hm2.trans hm1⟩
      rw [hc2, rewrittenBefore_cons, hm1, hc1]

/-- At the fork of an exec entry after a prefix without move / flag / flags: the ghost content of the
state is the content produced by the rewriting actions of the prefix. -/
theorem all_uptoFork_content (env : PEnv) (pre : MatchList) (mh : Match) (st : ExecSt)
    (hnm : ∀ m ∈ pre, m.ty ≠ .move ∧ m.ty ≠ .flag ∧ m.ty ≠ .flags) :
    All (fun r => ∀ st' fd, r = .fork st' fd → st'.ms.content = rewrittenBefore pre st.ms.msg st.ms.content)
      (uptoFork env pre mh st) := by
  unfold uptoFork
  refine All.bind_mono (all_execList_content env pre st hnm) ?_
  rintro ⟨st1, e⟩ h1
  dsimp only at h1 ⊢
  split
  · intro _ _ h; cases h
  · rename_i he
    have he' : e = false := by simpa using he
    refine All.bind_of_forall _ ?_
    intro f st' fd hr
    cases f with
    | none => cases hr
    | some fd' =>
      simp only [AtFork.fork.injEq] at hr
      obtain ⟨rfl, -⟩ := hr
      exact (h1 he').1

end Mdsort.Proofs.ExecSeq
