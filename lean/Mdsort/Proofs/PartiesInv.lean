import Mdsort.Proofs.PartiesMovers

/-! The global invariant of movers + client under `H_iso`, and its preservation by every step. -/

namespace Mdsort.Proofs.Parties
set_option linter.unusedSimpArgs false
set_option linter.unusedVariables false
open Mdsort Mdsort.Model
open Mdsort.Proofs.World
open Mdsort.Proofs.Own

/-- The invariant, relative to the initial state `s0`. -/
structure MInv (s0 s : Shared) : Prop where
  devs : s.fs.devs = []
  nextLe : s0.fs.nextFid ≤ s.fs.nextFid
  /-- every bound file id has been allocated -/
  boundLt : ∀ (p n : Bytes) (f : Nat), s.fs.lookup p n = some f → f < s.fs.nextFid
  /-- no file is bound twice (no duplicate of a message) -/
  inj : ∀ (p n p' n' : Bytes) (f : Nat), s.fs.lookup p n = some f → s.fs.lookup p' n' = some f → p = p' ∧ n = n'
  /-- a name in flight is bound, to a file created during the run -/
  flightBound : ∀ (i : Nat) (ps : PState) (x : Bytes × Bytes), s.parties[i]? = some ps → x ∈ ps.inFlight →
    ∃ f, s.fs.lookup x.1 x.2 = some f ∧ s0.fs.nextFid ≤ f
  /-- every entry holds an initial file or is somebody's name in flight -/
  origin : ∀ (p n : Bytes) (f : Nat), s.fs.lookup p n = some f →
    (∃ p0 n0, s0.fs.lookup p0 n0 = some f) ∨ (∃ (i : Nat) (ps : PState), s.parties[i]? = some ps ∧ (p, n) ∈ ps.inFlight)
  /-- every initial file is still bound or was removed outright -/
  kept : ∀ (p0 n0 : Bytes) (f : Nat), s0.fs.lookup p0 n0 = some f →
    (∃ p n, s.fs.lookup p n = some f) ∨ (∃ e ∈ s.log, e.destroys f = true)
  files : ∀ f, f < s0.fs.nextFid → s.fs.file f = s0.fs.file f
  dirsOk : ∀ (i : Nat) (ps : PState) (d : Handle) (p : Bytes), s.parties[i]? = some ps →
    handlesDirPath ps.handles d = some p → (s.fs.dir p).isSome
  resolves : ∀ (i : Nat) (ps : PState) (x : Handle × Bytes), s.parties[i]? = some ps → x ∈ inFlightH ps.trace →
    (handlesDirPath ps.handles x.1).isSome
  localOk : ∀ (i : Nat) (ps : PState), s.parties[i]? = some ps → LocalOK ps

theorem mem_inFlightUpd {acc : List (Handle × Bytes)} {c : Call} {r : Res} {x : Handle × Bytes}
    (h : x ∈ inFlightUpd acc (c, r)) : x ∈ acc ∨ (∃ d n v, c = .openExcl d n ∧ r = .ok v ∧ x = (d, n)) := by
  cases c <;> first
    | exact .inl h
    | exact .inl (List.mem_filter.1 h).1
    | skip
  · cases r <;> first
      | exact .inl h
      | skip
    rcases List.mem_append.1 h with h | h
    · exact .inl h
    · exact .inr ⟨_, _, _, rfl, rfl, List.mem_singleton.1 h⟩
  · cases r <;> first
      | exact .inl h
      | exact .inl (List.mem_filter.1 h).1
  · rw [inFlightUpd_unlinkat] at h
    split at h
    · exact .inl (List.mem_filter.1 h).1
    · split at h
      · cases h
      · exact .inl h

theorem unlink_not_rename {c : Call} (h : isUnlink c = true) : c.isRename = false := by
  cases c <;> simp [isUnlink] at h <;> rfl

/-- Every step of a schedule that respects isolation preserves the invariant. -/
theorem minv_step (s0 s : Shared) (hlt0 : ∀ p n f, s0.fs.lookup p n = some f → f < s0.fs.nextFid) (a : Nat)
    (hinv : MInv s0 s) (hiso : isoStep s a = true) : MInv s0 (stepParty s a) := by
  apply stepParty_cases (P := MInv s0) hinv
  intro ps c k hp hc
  have hloc := hinv.localOk a ps hp
  have hall := localOK_allowed hloc hc
  have hres : ∀ x ∈ inFlightH ps.trace, (handlesDirPath ps.handles x.1).isSome := fun x hx => hinv.resolves a ps x hp hx
  obtain ⟨hiso1, hiso2⟩ := iso_facts hp hc hiso
  have hdst : ∀ x, callDst (s.view ps) c = some x → ((s.view ps).dir x.1).isSome := by
    intro x hx
    obtain ⟨d, hd⟩ := dst_dirPath hx
    exact hinv.dirsOk a ps d x.1 hp hd
  have hL : ∀ q m, (stepCall s a ps c k).fs.lookup q m =
      if isOk (predict (s.view ps) c) = true ∧ callDst (s.view ps) c = some (q, m) then boundBy (s.view ps) c
      else if isOk (predict (s.view ps) c) = true ∧ callSrc (s.view ps) c = some (q, m) then none
      else s.fs.lookup q m := fun q m => step_lookup (s.view ps) c q m (allowed_mkDir hall) hdst
  have hF := inFlight_after s ps c k hloc hc hres
  have hpar : ∀ i, (stepCall s a ps c k).parties[i]? = if i = a then some (stepLocal s ps c k) else s.parties[i]? :=
    fun i => stepCall_party s a i ps c k hp
  have hnextge : s.fs.nextFid ≤ (stepCall s a ps c k).fs.nextFid := core_nextFid (s.view ps) c _
  -- a target entry and another entry never hold the same file afterwards
  have key : ∀ p n p' n' f, (isOk (predict (s.view ps) c) = true ∧ callDst (s.view ps) c = some (p, n)) →
      ¬ (isOk (predict (s.view ps) c) = true ∧ callDst (s.view ps) c = some (p', n')) →
      (stepCall s a ps c k).fs.lookup p n = some f → (stepCall s a ps c k).fs.lookup p' n' = some f → False := by
    intro p n p' n' f hd hnd h1 h2
    rw [hL, if_pos hd] at h1
    rw [hL, if_neg hnd] at h2
    split at h2
    · cases h2
    rename_i hns
    rcases dst_kind hd.2 with hk | hk
    · obtain ⟨x, hx, _, hb, _⟩ := create_ok hk hd.1
      rw [hb] at h1; cases h1
      exact Nat.lt_irrefl _ (hinv.boundLt p' n' _ h2)
    · obtain ⟨x, y, g, hx, hy, hl, hb⟩ := rename_ok hk hd.1
      rw [hb] at h1; cases h1
      obtain ⟨e1, e2⟩ := hinv.inj x.1 x.2 p' n' f hl h2
      apply hns
      refine ⟨hd.1, ?_⟩
      rw [hx, ← e1, ← e2]
  refine ⟨?_, ?_, ?_, ?_, ?_, ?_, ?_, ?_, ?_, ?_, ?_⟩
  · -- devs
    show (core (s.view ps) c _).devs = []
    rw [core_devs]; exact hinv.devs
  · exact Nat.le_trans hinv.nextLe hnextge
  · -- boundLt
    intro p n f h
    rw [hL] at h
    split at h
    · rename_i hd
      rcases dst_kind hd.2 with hk | hk
      · obtain ⟨x, hx, _, hb, hn⟩ := create_ok hk hd.1
        rw [hb] at h; cases h
        show s.fs.nextFid < (core (s.view ps) c _).nextFid
        rw [hn]; exact Nat.lt_succ_self _
      · obtain ⟨x, y, g, hx, hy, hl, hb⟩ := rename_ok hk hd.1
        rw [hb] at h; cases h
        exact Nat.lt_of_lt_of_le (hinv.boundLt x.1 x.2 f hl) hnextge
    · split at h
      · cases h
      · exact Nat.lt_of_lt_of_le (hinv.boundLt p n f h) hnextge
  · -- inj
    intro p n p' n' f h1 h2
    by_cases hd : isOk (predict (s.view ps) c) = true ∧ callDst (s.view ps) c = some (p, n)
    · by_cases hd' : isOk (predict (s.view ps) c) = true ∧ callDst (s.view ps) c = some (p', n')
      · have := hd.2.symm.trans hd'.2
        simpa using this
      · exact (key p n p' n' f hd hd' h1 h2).elim
    · by_cases hd' : isOk (predict (s.view ps) c) = true ∧ callDst (s.view ps) c = some (p', n')
      · exact (key p' n' p n f hd' hd h2 h1).elim
      · rw [hL, if_neg hd] at h1
        rw [hL, if_neg hd'] at h2
        split at h1
        · cases h1
        split at h2
        · cases h2
        exact hinv.inj p n p' n' f h1 h2
  · -- flightBound
    intro i q' x hq' hx
    rw [hpar] at hq'
    by_cases hi : i = a
    · simp only [hi, if_true, Option.some.injEq] at hq'
      subst hq'
      rw [hF] at hx
      split at hx
      · rename_i hcr
        obtain ⟨y, hy, _, hb, _⟩ := create_ok hcr.1 hcr.2
        rw [hy] at hx
        simp only [Option.toList_some, List.mem_singleton] at hx
        subst hx
        refine ⟨s.fs.nextFid, ?_, hinv.nextLe⟩
        rw [hL, if_pos ⟨hcr.2, hy⟩]; exact hb
      · split at hx
        · cases hx
        · rename_i hncr hnru
          obtain ⟨f, hf, hge⟩ := hinv.flightBound a ps x hp hx
          refine ⟨f, ?_, hge⟩
          have h1 : ¬ (isOk (predict (s.view ps) c) = true ∧ callDst (s.view ps) c = some (x.1, x.2)) := by
            rintro ⟨hok, hd⟩
            rcases dst_kind hd with hk | hk
            · exact hncr ⟨hk, hok⟩
            · exact hnru (.inl ⟨hk, hok⟩)
          have h2 : ¬ (isOk (predict (s.view ps) c) = true ∧ callSrc (s.view ps) c = some (x.1, x.2)) := by
            rintro ⟨hok, hs⟩
            rcases src_kind hs with hk | hk
            · exact hnru (.inl ⟨hk, hok⟩)
            · exact hnru (.inr hk)
          rw [hL, if_neg h1, if_neg h2]; exact hf
    · simp only [hi, if_false] at hq'
      obtain ⟨f, hf, hge⟩ := hinv.flightBound i q' x hq' hx
      obtain ⟨n1, n2⟩ := hiso1 i q' x hi hq' hx
      refine ⟨f, ?_, hge⟩
      have n2' : ¬ (isOk (predict (s.view ps) c) = true ∧ callDst (s.view ps) c = some (x.1, x.2)) := by
        rintro ⟨hok, hd⟩
        rcases dst_kind hd with hk | hk
        · -- an exclusive create of a bound name does not succeed
          obtain ⟨y, hy, hnone, _, _⟩ := create_ok hk hok
          rw [hd] at hy; cases hy
          rw [show (s.view ps).lookup x.1 x.2 = s.fs.lookup x.1 x.2 from rfl, hf] at hnone; cases hnone
        · exact n2 hk hd
      rw [hL, if_neg n2', if_neg (fun h => n1 h.2)]; exact hf
  · -- origin
    intro p n f h
    rw [hL] at h
    split at h
    · rename_i hd
      rcases dst_kind hd.2 with hk | hk
      · right
        refine ⟨a, stepLocal s ps c k, by rw [hpar]; simp, ?_⟩
        rw [hF, if_pos ⟨hk, hd.1⟩, hd.2]; simp
      · obtain ⟨x, y, g, hx, hy, hl, hb⟩ := rename_ok hk hd.1
        rw [hb] at h; cases h
        rcases hinv.origin x.1 x.2 f hl with h0 | ⟨i, q, hq, hxq⟩
        · exact .inl h0
        · exfalso
          by_cases hi : i = a
          · rw [hi, hp] at hq; cases hq
            exact hiso2 hk x hxq hx
          · exact (hiso1 i q x hi hq hxq).1 hx
    · split at h
      · cases h
      · rename_i hnd hns
        rcases hinv.origin p n f h with h0 | ⟨i, q, hq, hxq⟩
        · exact .inl h0
        · right
          by_cases hi : i = a
          · rw [hi, hp] at hq; cases hq
            refine ⟨a, stepLocal s ps c k, by rw [hpar]; simp, ?_⟩
            rw [hF]
            split
            · rename_i hcr
              rw [create_flight hloc hc hcr.1] at hxq; cases hxq
            · split
              · rename_i hru
                exfalso
                rcases hru with ⟨hk, hok⟩ | hk
                · rcases rename_flight (s := s) hloc hc hres hk with ⟨y, hy, hfl⟩ | hfl
                  · rw [hfl] at hxq
                    simp only [List.mem_singleton] at hxq
                    subst hxq
                    exact hnd ⟨hok, hy⟩
                  · rw [hfl] at hxq; cases hxq
                · rcases unlink_flight (s := s) hloc hc hres hk with ⟨y, hy, hfl⟩ | hfl
                  · rw [hfl] at hxq
                    simp only [List.mem_singleton] at hxq
                    subst hxq
                    exact hns ⟨unlink_ok hk hy h, hy⟩
                  · rw [inFlight_of_nil hfl] at hxq; cases hxq
              · exact hxq
          · exact ⟨i, q, by rw [hpar]; simpa [hi] using hq, hxq⟩
  · -- kept
    intro p0 n0 f h0
    rcases hinv.kept p0 n0 f h0 with ⟨p, n, h⟩ | ⟨e, he, hde⟩
    · by_cases hd : isOk (predict (s.view ps) c) = true ∧ callDst (s.view ps) c = some (p, n)
      · rcases dst_kind hd.2 with hk | hk
        · obtain ⟨x, hx, hl, _, _⟩ := create_ok hk hd.1
          rw [hd.2] at hx; cases hx
          rw [show (s.view ps).lookup p n = s.fs.lookup p n from rfl, h] at hl; cases hl
        · obtain ⟨x, y, g, hx, hy, hl, hb⟩ := rename_ok hk hd.1
          by_cases hg : g = f
          · left
            exact ⟨p, n, by rw [hL, if_pos hd, hb, hg]⟩
          · right
            refine ⟨stepEvent s a ps c, by simp, ?_⟩
            have hsrc : (s.view ps).lookupE (callSrc (s.view ps) c) = some g := by
              rw [hx]; exact hl
            have hdstf : (s.view ps).lookupE (callDst (s.view ps) c) = some f := by
              rw [hd.2]; exact h
            simp [Event.destroys, stepEvent, hd.1, hk, hsrc, hdstf, hg]
      · by_cases hs : isOk (predict (s.view ps) c) = true ∧ callSrc (s.view ps) c = some (p, n)
        · rcases src_kind hs.2 with hk | hk
          · obtain ⟨x, y, g, hx, hy, hl, hb⟩ := rename_ok hk hs.1
            left
            refine ⟨y.1, y.2, ?_⟩
            rw [hL, if_pos ⟨hs.1, hy⟩, hb]
            rw [hs.2] at hx; cases hx
            exact hl.symm.trans h |>.symm ▸ rfl
          · rcases unlink_flight (s := s) hloc hc hres hk with ⟨y, hy, hfl⟩ | hfl
            · exfalso
              rw [hs.2] at hy; cases hy
              obtain ⟨g, hg, hge⟩ := hinv.flightBound a ps (p, n) hp (by rw [hfl]; exact List.mem_singleton.2 rfl)
              rw [h] at hg; cases hg
              exact Nat.lt_irrefl _ (Nat.lt_of_lt_of_le (hlt0 p0 n0 f h0) hge)
            · right
              refine ⟨stepEvent s a ps c, by simp, ?_⟩
              have hsrc : (s.view ps).lookupE (callSrc (s.view ps) c) = some f := by
                rw [hs.2]; exact h
              simp [Event.destroys, stepEvent, hs.1, unlink_not_rename hk, hfl, hsrc]
        · left
          exact ⟨p, n, by rw [hL, if_neg hd, if_neg hs]; exact h⟩
    · right
      exact ⟨e, by simp [he], hde⟩
  · -- files
    intro f hf
    exact (core_file (s.view ps) c _ f (Nat.lt_of_lt_of_le hf hinv.nextLe) (allowed_fileSafe hall _ f)).trans
      (hinv.files f hf)
  · -- dirsOk
    intro i q' d p hq' hd
    have hex : (s.fs.dir p).isSome → ((stepCall s a ps c k).fs.dir p).isSome :=
      fun h => core_dir_isSome (s.view ps) c _ p h (allowed_not_rmdir hall)
    rw [hpar] at hq'
    by_cases hi : i = a
    · simp only [hi, if_true, Option.some.injEq] at hq'
      subst hq'
      rcases dirPath_after (s.view ps) c hall d p hd with h | h
      · exact hex (hinv.dirsOk a ps d p hp h)
      · exact hex h
    · simp only [hi, if_false] at hq'
      exact hex (hinv.dirsOk i q' d p hq' hd)
  · -- resolves
    intro i q' x hq' hx
    rw [hpar] at hq'
    by_cases hi : i = a
    · simp only [hi, if_true, Option.some.injEq] at hq'
      subst hq'
      have hx' : x ∈ inFlightUpd (inFlightH ps.trace) (c, predict (s.view ps) c) := by
        rw [← inFlightH_snoc]; exact hx
      have hshape := localOK_shape hloc hc
      rcases mem_inFlightUpd hx' with hold | ⟨d, n, v, hc', hr', rfl⟩
      · obtain ⟨p, hp'⟩ := Option.isSome_iff_exists.1 (hres x hold)
        have hncl : ∀ h', c ≠ .close h' ∧ c ≠ .closedir h' := by
          intro h'
          constructor <;> rintro rfl <;> (rw [show inFlightH ps.trace = [] from hshape] at hold; cases hold)
        exact Option.isSome_iff_exists.2 ⟨p, dirPath_preserved (s.view ps) c hall x.1 p hp' hncl⟩
      · subst hc'
        rcases openExcl_cases (s.view ps) d n with ⟨p, hp', _, _, _⟩ | ⟨e, hpr⟩
        · exact Option.isSome_iff_exists.2 ⟨p, dirPath_preserved (s.view ps) _ hall d p hp'
            (fun _ => ⟨(fun e => by cases e), (fun e => by cases e)⟩)⟩
        · rw [hpr] at hr'; cases hr'
    · simp only [hi, if_false] at hq'
      exact hinv.resolves i q' x hq' hx
  · -- localOk
    intro i q' hq'
    rw [hpar] at hq'
    by_cases hi : i = a
    · simp only [hi, if_true, Option.some.injEq] at hq'
      subst hq'
      exact localOK_step hloc hc _ (moverR_predict (s.view ps) hinv.devs c) _
    · simp only [hi, if_false] at hq'
      exact hinv.localOk i q' hq'

end Mdsort.Proofs.Parties
