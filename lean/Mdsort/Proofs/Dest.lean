import Mdsort.Model.Dest
import Mdsort.Proofs.DestSlice

/-!
# C09: destination of a sequence of move / flag / flags actions

`matchesAppend` on the entries of move/flag/flags actions, characterised through the view
`matches_merge` has of the list (type of the last entry, the move entries, the flag entries), and
the invariant that links this view to the counters of `Spec.destOK`.
-/

namespace Mdsort.Proofs.Dest
open Mdsort Mdsort.Model Mdsort.Spec

/-! ## list lemmas -/

/-- The entries of type `t`, in order. -/
def ofTy (t : MType) (ml : MatchList) : MatchList := ml.filter (·.ty == t)

theorem ofTy_append (t : MType) (a b : MatchList) : ofTy t (a ++ b) = ofTy t a ++ ofTy t b := by
  simp [ofTy]

theorem ofTy_single (t : MType) (e : Match) : ofTy t [e] = if e.ty = t then [e] else [] := by
  by_cases h : e.ty = t <;> simp [ofTy, h]

theorem ofTy_snoc_same (t : MType) (ml : MatchList) (e : Match) (h : e.ty = t) : ofTy t (ml ++ [e]) = ofTy t ml ++ [e] := by
  rw [ofTy_append, ofTy_single, if_pos h]

theorem ofTy_snoc_other (t : MType) (ml : MatchList) (e : Match) (h : e.ty ≠ t) : ofTy t (ml ++ [e]) = ofTy t ml := by
  rw [ofTy_append, ofTy_single, if_neg h, List.append_nil]

theorem matchesFind_eq (ml : MatchList) (t : MType) : matchesFind ml t = (ofTy t ml).head? := by
  unfold matchesFind ofTy
  induction ml with
  | nil => rfl
  | cons x r ih =>
    cases h : (x.ty == t)
    · simp only [List.find?_cons, List.filter_cons, h]
      exact ih
    · simp only [List.find?_cons, List.filter_cons, h]
      rfl

theorem dropLast_snoc_of_getLast? (ml : MatchList) (l : Match) (h : ml.getLast? = some l) : ml.dropLast ++ [l] = ml := by
  obtain ⟨ys, rfl⟩ := List.getLast?_eq_some_iff.1 h
  simp

theorem ofTy_removeFirst_same (t : MType) (ml : MatchList) : ofTy t (removeFirst ml t) = (ofTy t ml).tail := by
  induction ml with
  | nil => rfl
  | cons x r ih =>
    by_cases h : (x.ty == t) = true
    · simp [removeFirst, ofTy, h]
    · have ih' : List.filter (fun m => m.ty == t) (removeFirst r t) = (List.filter (fun m => m.ty == t) r).tail := ih
      simp [removeFirst, ofTy, h, ih']

theorem ofTy_removeFirst_other (t t' : MType) (ht : t' ≠ t) (ml : MatchList) :
    ofTy t' (removeFirst ml t) = ofTy t' ml := by
  induction ml with
  | nil => rfl
  | cons x r ih =>
    by_cases h : (x.ty == t) = true
    · have hx : x.ty = t := by simpa using h
      have : (x.ty == t') = false := by
        simp only [beq_eq_false_iff_ne, hx]
        exact fun h => ht h.symm
      simp [removeFirst, ofTy, h, this]
    · have ih' : List.filter (fun m => m.ty == t') (removeFirst r t) = List.filter (fun m => m.ty == t') r := ih
      simp [removeFirst, ofTy, List.filter_cons, h, ih']


theorem ofTy_dropLast_other (t : MType) (ml : MatchList) (l : Match) (hl : ml.getLast? = some l) (ht : l.ty ≠ t) :
    ofTy t ml.dropLast = ofTy t ml := by
  have h := dropLast_snoc_of_getLast? ml l hl
  conv => rhs; rw [← h]
  rw [ofTy_append, ofTy_single, if_neg ht, List.append_nil]

theorem ofTy_dropLast_same (t : MType) (ml : MatchList) (l : Match) (hl : ml.getLast? = some l) (ht : l.ty = t) :
    ofTy t ml = ofTy t ml.dropLast ++ [l] := by
  have h := dropLast_snoc_of_getLast? ml l hl
  conv => lhs; rw [← h]
  rw [ofTy_append, ofTy_single, if_pos ht]

/-- Type of the last entry. -/
def lastTy (ml : MatchList) : Option MType := ml.getLast?.map (·.ty)

theorem lastTy_snoc (ml : MatchList) (e : Match) : lastTy (ml ++ [e]) = some e.ty := by
  simp [lastTy]

/-! ## matchesMerge on move and flag entries -/

theorem merge_move_dup (ml : MatchList) (mh : Match) (hty : mh.ty = .move) (hl : lastTy ml = some .move) :
    matchesMerge ml mh = (ml.dropLast, mh) := by
  unfold lastTy at hl
  unfold matchesMerge
  cases h : ml.getLast? with
  | none => rw [h] at hl; cases hl
  | some l =>
    rw [h] at hl
    have hlt : l.ty = .move := by simpa using hl
    simp [hty, hlt]

theorem merge_move_other (ml : MatchList) (mh : Match) (hty : mh.ty = .move) (hl : lastTy ml ≠ some .move) :
    matchesMerge ml mh =
      match (ofTy .flag ml).head? with
      | none => (ml, mh)
      | some dup => (removeFirst ml .flag, { mh with subdir := dup.subdir }) := by
  unfold lastTy at hl
  unfold matchesMerge
  have hf := matchesFind_eq ml .flag
  cases h : ml.getLast? with
  | none =>
    have : ml = [] := List.getLast?_eq_none_iff.1 h
    subst this
    simp [hty, ofTy]
  | some l =>
    rw [h] at hl
    have hlt : ¬ l.ty = .move := by simpa using hl
    simp [hty, hlt, hf]
    cases List.head? (ofTy MType.flag ml) <;> rfl

theorem merge_flag_dup (ml : MatchList) (mh : Match) (hty : mh.ty = .flag) (hl : lastTy ml = some .flag) :
    matchesMerge ml mh = (ml.dropLast, mh) := by
  unfold lastTy at hl
  unfold matchesMerge
  cases h : ml.getLast? with
  | none => rw [h] at hl; cases hl
  | some l =>
    rw [h] at hl
    have hlt : l.ty = .flag := by simpa using hl
    simp [hty, hlt]

theorem merge_flag_other (ml : MatchList) (mh : Match) (hty : mh.ty = .flag) (hl : lastTy ml ≠ some .flag) :
    matchesMerge ml mh =
      match (ofTy .move ml).head? with
      | none => (ml, mh)
      | some dup => (removeFirst ml .move, { mh with maildir := dup.maildir }) := by
  unfold lastTy at hl
  unfold matchesMerge
  have hf := matchesFind_eq ml .move
  cases h : ml.getLast? with
  | none =>
    have : ml = [] := List.getLast?_eq_none_iff.1 h
    subst this
    simp [hty, ofTy]
  | some l =>
    rw [h] at hl
    have hlt : ¬ l.ty = .flag := by simpa using hl
    simp [hty, hlt, hf]
    cases List.head? (ofTy MType.move ml) <;> rfl

theorem merge_flags (ml : MatchList) (mh : Match) (hty : mh.ty = .flags) : matchesMerge ml mh = (ml, mh) := by
  unfold matchesMerge
  simp [hty]

/-! ## matchesAppend after the merge -/

/-- What `matches_append` needs from the message path: both slices exist. -/
structure Ctx (env : Env) (m0 s0 : Bytes) : Prop where
  hm : pathslice env.path PATH_MAX 0 (-2) = some m0
  hs : pathslice env.path NAME_MAX1 (-2) (-2) = some s0

/-- An empty `mh_maildir` / `mh_subdir` is inferred from the message path. -/
def fill (a b : Bytes) : Bytes := if a.isEmpty then b else a

theorem fill_nil (b : Bytes) : fill [] b = b := rfl
theorem fill_ne (a b : Bytes) (h : a ≠ []) : fill a b = a := by
  cases a with
  | nil => exact absurd rfl h
  | cons x r => rfl

theorem append_of_merge {env : Env} {m0 s0 : Bytes} (ctx : Ctx env m0 s0) (ml ml1 : MatchList) (mh mh1 : Match)
    (hm : matchesMerge ml mh = (ml1, mh1)) (hp : mh1.ty.isPath = true)
    (hfit : (fill mh1.maildir m0).length + 1 + (fill mh1.subdir s0).length < PATH_MAX) :
    matchesAppend env ml mh =
      (ml1 ++ [{ mh1 with maildir := fill mh1.maildir m0, subdir := fill mh1.subdir s0,
                          path := fill mh1.maildir m0 ++ [47] ++ fill mh1.subdir s0 }], false) := by
  unfold matchesAppend
  rw [hm]
  simp only [hp, Bool.not_true, Bool.false_eq_true, if_false]
  have h1 : (if mh1.maildir.isEmpty = true then pathslice env.path PATH_MAX 0 (-2) else some mh1.maildir)
      = some (fill mh1.maildir m0) := by
    unfold fill
    by_cases he : mh1.maildir.isEmpty = true
    · simp only [he, if_true, ctx.hm]
    · simp only [he]; rfl
  rw [h1]
  dsimp only
  have h2 : (if mh1.subdir.isEmpty = true then pathslice env.path NAME_MAX1 (-2) (-2) else some mh1.subdir)
      = some (fill mh1.subdir s0) := by
    unfold fill
    by_cases he : mh1.subdir.isEmpty = true
    · simp only [he, if_true, ctx.hs]
    · simp only [he]; rfl
  rw [h2]
  dsimp only
  have hj : pathjoin PATH_MAX (fill mh1.maildir m0) (fill mh1.subdir s0)
      = some (fill mh1.maildir m0 ++ [47] ++ fill mh1.subdir s0) := by
    unfold pathjoin
    have : ¬ (fill mh1.maildir m0 ++ [47] ++ fill mh1.subdir s0).length ≥ PATH_MAX := by
      simp only [List.length_append, List.length_cons, List.length_nil]
      omega
    simp only [this, if_false]
  rw [hj]


/-! ## matchesAppend on the entries of move, flag and flags actions -/

/-- The entry an action leaves in the list: its own entry with both halves and the joined path. -/
def mkEntry (lno part : Nat) (a : PathAction) (md sd : Bytes) : Match :=
  { pathEntry lno part a with maildir := md, subdir := sd, path := md ++ [47] ++ sd }

theorem isPath_move : MType.isPath .move = true := by decide
theorem isPath_flag : MType.isPath .flag = true := by decide
theorem isPath_flags : MType.isPath .flags = true := by decide

theorem append_of_merge' {env : Env} {m0 s0 : Bytes} (ctx : Ctx env m0 s0) (ml ml1 : MatchList) (mh mh1 : Match)
    (md sd : Bytes) (hm : matchesMerge ml mh = (ml1, mh1)) (hp : mh1.ty.isPath = true)
    (hmd : fill mh1.maildir m0 = md) (hsd : fill mh1.subdir s0 = sd) (hfit : md.length + 1 + sd.length < PATH_MAX) :
    matchesAppend env ml mh = (ml1 ++ [{ mh1 with maildir := md, subdir := sd, path := md ++ [47] ++ sd }], false) := by
  subst hmd hsd
  exact append_of_merge ctx ml ml1 mh mh1 hm hp hfit

section
variable {env : Env} {m0 s0 : Bytes} (ctx : Ctx env m0 s0) (ml : MatchList) (lno part : Nat)
include ctx

theorem append_move_dup (p : Bytes) (hp : p ≠ []) (hl : lastTy ml = some .move)
    (hfit : p.length + 1 + s0.length < PATH_MAX) :
    matchesAppend env ml (pathEntry lno part (.move p)) =
      (ml.dropLast ++ [mkEntry lno part (.move p) p s0], false) :=
  append_of_merge' ctx _ _ _ _ p s0 (merge_move_dup ml (pathEntry lno part (.move p)) rfl hl) isPath_move
    (fill_ne p m0 hp) (fill_nil s0) hfit

theorem append_move_none (p : Bytes) (hp : p ≠ []) (hl : lastTy ml ≠ some .move) (hF : ofTy .flag ml = [])
    (hfit : p.length + 1 + s0.length < PATH_MAX) :
    matchesAppend env ml (pathEntry lno part (.move p)) = (ml ++ [mkEntry lno part (.move p) p s0], false) := by
  have hm := merge_move_other ml (pathEntry lno part (.move p)) rfl hl
  rw [hF] at hm
  have hm' : matchesMerge ml (pathEntry lno part (.move p)) = (ml, pathEntry lno part (.move p)) := hm
  exact append_of_merge' ctx _ _ _ _ p s0 hm' isPath_move (fill_ne p m0 hp) (fill_nil s0) hfit

theorem append_move_some (p : Bytes) (hp : p ≠ []) (hl : lastTy ml ≠ some .move) (d : Match) (rest : MatchList)
    (hF : ofTy .flag ml = d :: rest) (hd : d.subdir ≠ [])
    (hfit : p.length + 1 + d.subdir.length < PATH_MAX) :
    matchesAppend env ml (pathEntry lno part (.move p)) =
      (removeFirst ml .flag ++ [mkEntry lno part (.move p) p d.subdir], false) := by
  have hm := merge_move_other ml (pathEntry lno part (.move p)) rfl hl
  rw [hF] at hm
  have hm' : matchesMerge ml (pathEntry lno part (.move p)) =
      (removeFirst ml .flag, { pathEntry lno part (.move p) with subdir := d.subdir }) := hm
  exact append_of_merge' ctx ml _ _ ({ pathEntry lno part (.move p) with subdir := d.subdir }) p d.subdir hm' isPath_move (fill_ne p m0 hp) (fill_ne d.subdir s0 hd) hfit

theorem append_flag_dup (q : Bytes) (hq : q ≠ []) (hl : lastTy ml = some .flag)
    (hfit : m0.length + 1 + q.length < PATH_MAX) :
    matchesAppend env ml (pathEntry lno part (.flag q)) =
      (ml.dropLast ++ [mkEntry lno part (.flag q) m0 q], false) :=
  append_of_merge' ctx _ _ _ _ m0 q (merge_flag_dup ml (pathEntry lno part (.flag q)) rfl hl) isPath_flag
    (fill_nil m0) (fill_ne q s0 hq) hfit

theorem append_flag_none (q : Bytes) (hq : q ≠ []) (hl : lastTy ml ≠ some .flag) (hM : ofTy .move ml = [])
    (hfit : m0.length + 1 + q.length < PATH_MAX) :
    matchesAppend env ml (pathEntry lno part (.flag q)) = (ml ++ [mkEntry lno part (.flag q) m0 q], false) := by
  have hm := merge_flag_other ml (pathEntry lno part (.flag q)) rfl hl
  rw [hM] at hm
  have hm' : matchesMerge ml (pathEntry lno part (.flag q)) = (ml, pathEntry lno part (.flag q)) := hm
  exact append_of_merge' ctx _ _ _ _ m0 q hm' isPath_flag (fill_nil m0) (fill_ne q s0 hq) hfit

theorem append_flag_some (q : Bytes) (hq : q ≠ []) (hl : lastTy ml ≠ some .flag) (d : Match) (rest : MatchList)
    (hM : ofTy .move ml = d :: rest) (hd : d.maildir ≠ [])
    (hfit : d.maildir.length + 1 + q.length < PATH_MAX) :
    matchesAppend env ml (pathEntry lno part (.flag q)) =
      (removeFirst ml .move ++ [mkEntry lno part (.flag q) d.maildir q], false) := by
  have hm := merge_flag_other ml (pathEntry lno part (.flag q)) rfl hl
  rw [hM] at hm
  have hm' : matchesMerge ml (pathEntry lno part (.flag q)) =
      (removeFirst ml .move, { pathEntry lno part (.flag q) with maildir := d.maildir }) := hm
  exact append_of_merge' ctx ml _ _ ({ pathEntry lno part (.flag q) with maildir := d.maildir }) d.maildir q hm' isPath_flag (fill_ne d.maildir m0 hd) (fill_ne q s0 hq) hfit

theorem append_flags (fl : Bytes) (hfit : m0.length + 1 + s0.length < PATH_MAX) :
    matchesAppend env ml (pathEntry lno part (.flags fl)) = (ml ++ [mkEntry lno part (.flags fl) m0 s0], false) :=
  append_of_merge' ctx _ _ _ _ m0 s0 (merge_flags ml (pathEntry lno part (.flags fl)) rfl) isPath_flags
    (fill_nil m0) (fill_nil s0) hfit

end

/-! ## the invariant behind `destOK` -/

theorem getLast?_snoc {α : Type} (l : List α) (a : α) : (l ++ [a]).getLast? = some a := by simp

theorem getLast?_cons_of_tail {α : Type} (a : α) (l : List α) (x : α) (h : l.getLast? = some x) :
    (a :: l).getLast? = some x := by
  cases l with
  | nil => cases h
  | cons y r => rw [List.getLast?_cons_cons]; exact h

def kindOf : MType → Option PathKind
  | .move => some .move
  | .flag => some .flag
  | .flags => some .flags
  | _ => none

theorem kindOf_move {t : MType} (h : kindOf t = some .move) : t = .move := by
  cases t <;> first | rfl | cases h

theorem kindOf_flag {t : MType} (h : kindOf t = some .flag) : t = .flag := by
  cases t <;> first | rfl | cases h

theorem lastMove_snoc_move (acts : List PathAction) (p : Bytes) : lastMove (acts ++ [.move p]) = some p := by
  induction acts with
  | nil => rfl
  | cons a r ih => cases a <;> simp [lastMove, ih]

theorem lastMove_snoc_flag (acts : List PathAction) (q : Bytes) : lastMove (acts ++ [.flag q]) = lastMove acts := by
  induction acts with
  | nil => rfl
  | cons a r ih => cases a <;> simp [lastMove, ih]

theorem lastMove_snoc_flags (acts : List PathAction) (fl : Bytes) : lastMove (acts ++ [.flags fl]) = lastMove acts := by
  induction acts with
  | nil => rfl
  | cons a r ih => cases a <;> simp [lastMove, ih]

theorem lastFlag_snoc_flag (acts : List PathAction) (q : Bytes) : lastFlag (acts ++ [.flag q]) = some q := by
  induction acts with
  | nil => rfl
  | cons a r ih => cases a <;> simp [lastFlag, ih]

theorem lastFlag_snoc_move (acts : List PathAction) (p : Bytes) : lastFlag (acts ++ [.move p]) = lastFlag acts := by
  induction acts with
  | nil => rfl
  | cons a r ih => cases a <;> simp [lastFlag, ih]

theorem lastFlag_snoc_flags (acts : List PathAction) (fl : Bytes) : lastFlag (acts ++ [.flags fl]) = lastFlag acts := by
  induction acts with
  | nil => rfl
  | cons a r ih => cases a <;> simp [lastFlag, ih]

/-- How the counters of `destOK` describe the match list after the actions `acts`: the kind of the last
entry, the number of move and of flag entries, and the last entry of either type carries the name of
the last action of that type.  `MD` / `SD`: the maildirs / subdirectories that can occur. -/
structure Inv (MD SD : List Bytes) (ml : MatchList) (acts : List PathAction) (st : DestSt) : Prop where
  last : st.last = (lastTy ml).bind kindOf
  nM : st.nMove = (ofTy .move ml).length
  nF : st.nFlag = (ofTy .flag ml).length
  hM : st.hasMove = (lastMove acts).isSome
  hF : st.hasFlag = (lastFlag acts).isSome
  zM : st.hasMove = false → ofTy .move ml = []
  zF : st.hasFlag = false → ofTy .flag ml = []
  lM : ∀ d, (ofTy .move ml).getLast? = some d → lastMove acts = some d.maildir
  lF : ∀ d, (ofTy .flag ml).getLast? = some d → lastFlag acts = some d.subdir
  bM : ∀ d ∈ ofTy .move ml, d.maildir ∈ MD ∧ d.maildir ≠ []
  bF : ∀ d ∈ ofTy .flag ml, d.subdir ∈ SD ∧ d.subdir ≠ []

theorem lastTy_move_iff (ml : MatchList) (h : lastTy ml = some .move) : ∃ l, ml.getLast? = some l ∧ l.ty = .move := by
  unfold lastTy at h
  cases hg : ml.getLast? with
  | none => rw [hg] at h; cases h
  | some l => rw [hg] at h; exact ⟨l, rfl, by simpa using h⟩

theorem lastTy_flag_iff (ml : MatchList) (h : lastTy ml = some .flag) : ∃ l, ml.getLast? = some l ∧ l.ty = .flag := by
  unfold lastTy at h
  cases hg : ml.getLast? with
  | none => rw [hg] at h; cases h
  | some l => rw [hg] at h; exact ⟨l, rfl, by simpa using h⟩

section step
variable {env : Env} {m0 s0 : Bytes} (ctx : Ctx env m0 s0) {MD SD : List Bytes}
  (hm0 : m0 ∈ MD) (hs0 : s0 ∈ SD)
  (hfits : ∀ md ∈ MD, ∀ sd ∈ SD, md.length + 1 + sd.length < PATH_MAX)
  {ml : MatchList} {acts : List PathAction} {st : DestSt} (inv : Inv MD SD ml acts st) (lno part : Nat)
include ctx hm0 hs0 hfits inv

omit hm0 in
theorem step_move (p : Bytes) (hp : p ≠ []) (hpM : p ∈ MD) :
    ∃ ml' e, matchesAppend env ml (pathEntry lno part (.move p)) = (ml' ++ [e], false) ∧ e.moves = true ∧
      Inv MD SD (ml' ++ [e]) (acts ++ [.move p]) (st.step (.move p)) ∧
      (st.okLast (.move p) = true → e.path = destPath (m0, s0) (acts ++ [.move p])) := by
  have hdest : ∀ sd, (lastFlag acts).getD s0 = sd → destPath (m0, s0) (acts ++ [.move p]) = p ++ [47] ++ sd := by
    intro sd h
    simp only [destPath, dest, lastMove_snoc_move, lastFlag_snoc_move, Option.getD_some, h]
  have hnoflag : st.hasFlag = false → lastFlag acts = none := by
    intro h
    have := inv.hF
    rw [h] at this
    cases hh : lastFlag acts with
    | none => rfl
    | some x => rw [hh] at this; cases this
  have hne : ∀ md sd, (mkEntry lno part (.move p) md sd).ty ≠ .flag := fun _ _ => by
    show MType.move ≠ MType.flag
    decide
  by_cases hl : lastTy ml = some .move
  · -- consecutive duplicate: the move entry before is dropped
    obtain ⟨l, hgl, hlt⟩ := lastTy_move_iff ml hl
    have hstl : st.last = some .move := by rw [inv.last, hl]; rfl
    have hstep : st.step (.move p) = st := by simp [DestSt.step, hstl]
    have hMold := ofTy_dropLast_same .move ml l hgl hlt
    have hM' : ofTy .move (ml.dropLast ++ [mkEntry lno part (.move p) p s0])
        = ofTy .move ml.dropLast ++ [mkEntry lno part (.move p) p s0] := by
      exact ofTy_snoc_same _ _ _ rfl
    have hF' : ofTy .flag (ml.dropLast ++ [mkEntry lno part (.move p) p s0]) = ofTy .flag ml := by
      rw [ofTy_snoc_other .flag _ _ (hne p s0), ofTy_dropLast_other .flag ml l hgl (by rw [hlt]; decide)]
    have hhas : st.hasMove = true := by
      cases h : st.hasMove with
      | true => rfl
      | false => have := inv.zM h; rw [hMold] at this; simp at this
    refine ⟨ml.dropLast, mkEntry lno part (.move p) p s0,
      append_move_dup ctx ml lno part p hp hl (hfits p hpM s0 hs0), rfl, ?_, ?_⟩
    · rw [hstep]
      refine ⟨?_, ?_, ?_, ?_, ?_, ?_, ?_, ?_, ?_, ?_, ?_⟩
      · rw [hstl, lastTy_snoc]; rfl
      · rw [hM', inv.nM, hMold]; simp
      · rw [hF']; exact inv.nF
      · rw [lastMove_snoc_move, hhas]; rfl
      · rw [lastFlag_snoc_move]; exact inv.hF
      · intro h; rw [hhas] at h; cases h
      · rw [hF']; exact inv.zF
      · intro d hd
        rw [hM', getLast?_snoc] at hd
        cases hd
        rw [lastMove_snoc_move]; rfl
      · rw [hF', lastFlag_snoc_move]; exact inv.lF
      · intro d hd
        rw [hM'] at hd
        rcases List.mem_append.1 hd with h | h
        · exact inv.bM d (by rw [hMold]; exact List.mem_append_left _ h)
        · have : d = mkEntry lno part (.move p) p s0 := by simpa using h
          subst this; exact ⟨hpM, hp⟩
      · rw [hF']; exact inv.bF
    · intro hok
      have hnf : st.hasFlag = false := by
        simp only [DestSt.okLast, hstl] at hok
        simpa using hok
      show p ++ [47] ++ s0 = _
      rw [hdest s0 (by rw [hnoflag hnf]; rfl)]
  · have hstl : ¬ st.last = some .move := by
      rw [inv.last]; intro h
      cases hlt : lastTy ml with
      | none => rw [hlt] at h; cases h
      | some t => rw [hlt] at h; exact hl (by rw [hlt, kindOf_move h])
    have hstep : st.step (.move p) =
        { st with last := some .move, nMove := st.nMove + 1, nFlag := st.nFlag - 1, hasMove := true } := by
      simp [DestSt.step, hstl]
    cases hF : ofTy .flag ml with
    | nil =>
      have hM' : ofTy .move (ml ++ [mkEntry lno part (.move p) p s0])
          = ofTy .move ml ++ [mkEntry lno part (.move p) p s0] := by
        exact ofTy_snoc_same _ _ _ rfl
      have hF' : ofTy .flag (ml ++ [mkEntry lno part (.move p) p s0]) = [] := by
        rw [ofTy_snoc_other .flag _ _ (hne p s0), hF]
      refine ⟨ml, mkEntry lno part (.move p) p s0,
        append_move_none ctx ml lno part p hp hl hF (hfits p hpM s0 hs0), rfl, ?_, ?_⟩
      · rw [hstep]
        refine ⟨?_, ?_, ?_, ?_, ?_, ?_, ?_, ?_, ?_, ?_, ?_⟩
        · show some PathKind.move = _
          rw [lastTy_snoc]; rfl
        · show st.nMove + 1 = _
          rw [hM', inv.nM]; simp
        · show st.nFlag - 1 = _
          rw [hF', inv.nF, hF]; rfl
        · show true = _
          rw [lastMove_snoc_move]; rfl
        · show st.hasFlag = _
          rw [lastFlag_snoc_move]; exact inv.hF
        · intro h; cases h
        · intro _; exact hF'
        · intro d hd
          rw [hM', getLast?_snoc] at hd
          cases hd
          rw [lastMove_snoc_move]; rfl
        · rw [hF']; intro d hd; cases hd
        · intro d hd
          rw [hM'] at hd
          rcases List.mem_append.1 hd with h | h
          · exact inv.bM d h
          · have : d = mkEntry lno part (.move p) p s0 := by simpa using h
            subst this; exact ⟨hpM, hp⟩
        · rw [hF']; intro d hd; cases hd
      · intro hok
        have hn0 : st.nFlag = 0 := by rw [inv.nF, hF]; rfl
        have hnf : st.hasFlag = false := by
          cases hh : st.hasFlag with
          | false => rfl
          | true => simp [DestSt.okLast, hh, hn0] at hok
        show p ++ [47] ++ s0 = _
        rw [hdest s0 (by rw [hnoflag hnf]; rfl)]
    | cons d rest =>
      have hdF := inv.bF d (by rw [hF]; exact List.mem_cons_self)
      have hM' : ofTy .move (removeFirst ml .flag ++ [mkEntry lno part (.move p) p d.subdir])
          = ofTy .move ml ++ [mkEntry lno part (.move p) p d.subdir] := by
        rw [ofTy_snoc_same .move _ _ rfl, ofTy_removeFirst_other .flag .move (by decide)]
      have hF' : ofTy .flag (removeFirst ml .flag ++ [mkEntry lno part (.move p) p d.subdir]) = rest := by
        rw [ofTy_snoc_other .flag _ _ (hne p d.subdir), ofTy_removeFirst_same, hF]
        rfl
      refine ⟨removeFirst ml .flag, mkEntry lno part (.move p) p d.subdir,
        append_move_some ctx ml lno part p hp hl d rest hF hdF.2 (hfits p hpM d.subdir hdF.1), rfl, ?_, ?_⟩
      · rw [hstep]
        refine ⟨?_, ?_, ?_, ?_, ?_, ?_, ?_, ?_, ?_, ?_, ?_⟩
        · show some PathKind.move = _
          rw [lastTy_snoc]; rfl
        · show st.nMove + 1 = _
          rw [hM', inv.nM]; simp
        · show st.nFlag - 1 = _
          rw [hF', inv.nF, hF]; simp
        · show true = _
          rw [lastMove_snoc_move]; rfl
        · show st.hasFlag = _
          rw [lastFlag_snoc_move]; exact inv.hF
        · intro h; cases h
        · intro h
          have := inv.zF h
          rw [hF] at this; cases this
        · intro x hx
          rw [hM', getLast?_snoc] at hx
          cases hx
          rw [lastMove_snoc_move]; rfl
        · intro x hx
          rw [hF'] at hx
          rw [lastFlag_snoc_move]
          exact inv.lF x (by rw [hF]; exact getLast?_cons_of_tail d rest x hx)
        · intro x hx
          rw [hM'] at hx
          rcases List.mem_append.1 hx with h | h
          · exact inv.bM x h
          · have : x = mkEntry lno part (.move p) p d.subdir := by simpa using h
            subst this; exact ⟨hpM, hp⟩
        · intro x hx
          rw [hF'] at hx
          exact inv.bF x (by rw [hF]; exact List.mem_cons_of_mem _ hx)
      · intro hok
        have h1 : st.nFlag = 1 := by
          cases hh : st.hasFlag with
          | false => have := inv.zF hh; rw [hF] at this; cases this
          | true =>
            simp [DestSt.okLast, hh] at hok
            exact hok.2
        have hrest : rest = [] := by
          have := inv.nF
          rw [h1, hF] at this
          cases rest with
          | nil => rfl
          | cons y r => simp at this
        have hlf := inv.lF d (by rw [hF, hrest]; rfl)
        show p ++ [47] ++ d.subdir = _
        rw [hdest d.subdir (by rw [hlf]; rfl)]

end step

section step
variable {env : Env} {m0 s0 : Bytes} (ctx : Ctx env m0 s0) {MD SD : List Bytes}
  (hm0 : m0 ∈ MD) (hs0 : s0 ∈ SD)
  (hfits : ∀ md ∈ MD, ∀ sd ∈ SD, md.length + 1 + sd.length < PATH_MAX)
  {ml : MatchList} {acts : List PathAction} {st : DestSt} (inv : Inv MD SD ml acts st) (lno part : Nat)
include ctx hm0 hs0 hfits inv

omit hs0 in
theorem step_flag (q : Bytes) (hq : q ≠ []) (hqS : q ∈ SD) :
    ∃ ml' e, matchesAppend env ml (pathEntry lno part (.flag q)) = (ml' ++ [e], false) ∧ e.moves = true ∧
      Inv MD SD (ml' ++ [e]) (acts ++ [.flag q]) (st.step (.flag q)) ∧
      (st.okLast (.flag q) = true → e.path = destPath (m0, s0) (acts ++ [.flag q])) := by
  have hdest : ∀ md, (lastMove acts).getD m0 = md → destPath (m0, s0) (acts ++ [.flag q]) = md ++ [47] ++ q := by
    intro md h
    simp only [destPath, dest, lastMove_snoc_flag, lastFlag_snoc_flag, Option.getD_some, h]
  have hnomove : st.hasMove = false → lastMove acts = none := by
    intro h
    have := inv.hM
    rw [h] at this
    cases hh : lastMove acts with
    | none => rfl
    | some x => rw [hh] at this; cases this
  have hne : ∀ md sd, (mkEntry lno part (.flag q) md sd).ty ≠ .move := fun _ _ => by
    show MType.flag ≠ MType.move
    decide
  by_cases hl : lastTy ml = some .flag
  · -- consecutive duplicate: the flag entry before is dropped
    obtain ⟨l, hgl, hlt⟩ := lastTy_flag_iff ml hl
    have hstl : st.last = some .flag := by rw [inv.last, hl]; rfl
    have hstep : st.step (.flag q) = st := by simp [DestSt.step, hstl]
    have hFold := ofTy_dropLast_same .flag ml l hgl hlt
    have hF' : ofTy .flag (ml.dropLast ++ [mkEntry lno part (.flag q) m0 q])
        = ofTy .flag ml.dropLast ++ [mkEntry lno part (.flag q) m0 q] := by
      exact ofTy_snoc_same _ _ _ rfl
    have hM' : ofTy .move (ml.dropLast ++ [mkEntry lno part (.flag q) m0 q]) = ofTy .move ml := by
      rw [ofTy_snoc_other .move _ _ (hne m0 q), ofTy_dropLast_other .move ml l hgl (by rw [hlt]; decide)]
    have hhas : st.hasFlag = true := by
      cases h : st.hasFlag with
      | true => rfl
      | false => have := inv.zF h; rw [hFold] at this; simp at this
    refine ⟨ml.dropLast, mkEntry lno part (.flag q) m0 q,
      append_flag_dup ctx ml lno part q hq hl (hfits m0 hm0 q hqS), rfl, ?_, ?_⟩
    · rw [hstep]
      refine ⟨?_, ?_, ?_, ?_, ?_, ?_, ?_, ?_, ?_, ?_, ?_⟩
      · rw [hstl, lastTy_snoc]; rfl
      · rw [hM']; exact inv.nM
      · rw [hF', inv.nF, hFold]; simp
      · rw [lastMove_snoc_flag]; exact inv.hM
      · rw [lastFlag_snoc_flag, hhas]; rfl
      · rw [hM']; exact inv.zM
      · intro h; rw [hhas] at h; cases h
      · rw [hM', lastMove_snoc_flag]; exact inv.lM
      · intro d hd
        rw [hF', getLast?_snoc] at hd
        cases hd
        rw [lastFlag_snoc_flag]; rfl
      · rw [hM']; exact inv.bM
      · intro d hd
        rw [hF'] at hd
        rcases List.mem_append.1 hd with h | h
        · exact inv.bF d (by rw [hFold]; exact List.mem_append_left _ h)
        · have : d = mkEntry lno part (.flag q) m0 q := by simpa using h
          subst this; exact ⟨hqS, hq⟩
    · intro hok
      have hnm : st.hasMove = false := by
        simp only [DestSt.okLast, hstl] at hok
        simpa using hok
      show m0 ++ [47] ++ q = _
      rw [hdest m0 (by rw [hnomove hnm]; rfl)]
  · have hstl : ¬ st.last = some .flag := by
      rw [inv.last]; intro h
      cases hlt : lastTy ml with
      | none => rw [hlt] at h; cases h
      | some t => rw [hlt] at h; exact hl (by rw [hlt, kindOf_flag h])
    have hstep : st.step (.flag q) =
        { st with last := some .flag, nFlag := st.nFlag + 1, nMove := st.nMove - 1, hasFlag := true } := by
      simp [DestSt.step, hstl]
    cases hM : ofTy .move ml with
    | nil =>
      have hF' : ofTy .flag (ml ++ [mkEntry lno part (.flag q) m0 q])
          = ofTy .flag ml ++ [mkEntry lno part (.flag q) m0 q] := by
        exact ofTy_snoc_same _ _ _ rfl
      have hM' : ofTy .move (ml ++ [mkEntry lno part (.flag q) m0 q]) = [] := by
        rw [ofTy_snoc_other .move _ _ (hne m0 q), hM]
      refine ⟨ml, mkEntry lno part (.flag q) m0 q,
        append_flag_none ctx ml lno part q hq hl hM (hfits m0 hm0 q hqS), rfl, ?_, ?_⟩
      · rw [hstep]
        refine ⟨?_, ?_, ?_, ?_, ?_, ?_, ?_, ?_, ?_, ?_, ?_⟩
        · show some PathKind.flag = _
          rw [lastTy_snoc]; rfl
        · show st.nMove - 1 = _
          rw [hM', inv.nM, hM]; rfl
        · show st.nFlag + 1 = _
          rw [hF', inv.nF]; simp
        · show st.hasMove = _
          rw [lastMove_snoc_flag]; exact inv.hM
        · show true = _
          rw [lastFlag_snoc_flag]; rfl
        · intro _; exact hM'
        · intro h; cases h
        · rw [hM']; intro d hd; cases hd
        · intro d hd
          rw [hF', getLast?_snoc] at hd
          cases hd
          rw [lastFlag_snoc_flag]; rfl
        · rw [hM']; intro d hd; cases hd
        · intro d hd
          rw [hF'] at hd
          rcases List.mem_append.1 hd with h | h
          · exact inv.bF d h
          · have : d = mkEntry lno part (.flag q) m0 q := by simpa using h
            subst this; exact ⟨hqS, hq⟩
      · intro hok
        have hn0 : st.nMove = 0 := by rw [inv.nM, hM]; rfl
        have hnm : st.hasMove = false := by
          cases hh : st.hasMove with
          | false => rfl
          | true => simp [DestSt.okLast, hh, hn0] at hok
        show m0 ++ [47] ++ q = _
        rw [hdest m0 (by rw [hnomove hnm]; rfl)]
    | cons d rest =>
      have hdM := inv.bM d (by rw [hM]; exact List.mem_cons_self)
      have hF' : ofTy .flag (removeFirst ml .move ++ [mkEntry lno part (.flag q) d.maildir q])
          = ofTy .flag ml ++ [mkEntry lno part (.flag q) d.maildir q] := by
        rw [ofTy_snoc_same .flag _ _ rfl, ofTy_removeFirst_other .move .flag (by decide)]
      have hM' : ofTy .move (removeFirst ml .move ++ [mkEntry lno part (.flag q) d.maildir q]) = rest := by
        rw [ofTy_snoc_other .move _ _ (hne d.maildir q), ofTy_removeFirst_same, hM]
        rfl
      refine ⟨removeFirst ml .move, mkEntry lno part (.flag q) d.maildir q,
        append_flag_some ctx ml lno part q hq hl d rest hM hdM.2 (hfits d.maildir hdM.1 q hqS), rfl, ?_, ?_⟩
      · rw [hstep]
        refine ⟨?_, ?_, ?_, ?_, ?_, ?_, ?_, ?_, ?_, ?_, ?_⟩
        · show some PathKind.flag = _
          rw [lastTy_snoc]; rfl
        · show st.nMove - 1 = _
          rw [hM', inv.nM, hM]; simp
        · show st.nFlag + 1 = _
          rw [hF', inv.nF]; simp
        · show st.hasMove = _
          rw [lastMove_snoc_flag]; exact inv.hM
        · show true = _
          rw [lastFlag_snoc_flag]; rfl
        · intro h
          have := inv.zM h
          rw [hM] at this; cases this
        · intro h; cases h
        · intro x hx
          rw [hM'] at hx
          rw [lastMove_snoc_flag]
          exact inv.lM x (by rw [hM]; exact getLast?_cons_of_tail d rest x hx)
        · intro x hx
          rw [hF', getLast?_snoc] at hx
          cases hx
          rw [lastFlag_snoc_flag]; rfl
        · intro x hx
          rw [hM'] at hx
          exact inv.bM x (by rw [hM]; exact List.mem_cons_of_mem _ hx)
        · intro x hx
          rw [hF'] at hx
          rcases List.mem_append.1 hx with h | h
          · exact inv.bF x h
          · have : x = mkEntry lno part (.flag q) d.maildir q := by simpa using h
            subst this; exact ⟨hqS, hq⟩
      · intro hok
        have h1 : st.nMove = 1 := by
          cases hh : st.hasMove with
          | false => have := inv.zM hh; rw [hM] at this; cases this
          | true =>
            simp [DestSt.okLast, hh] at hok
            exact hok.2
        have hrest : rest = [] := by
          have := inv.nM
          rw [h1, hM] at this
          cases rest with
          | nil => rfl
          | cons y r => simp at this
        have hlm := inv.lM d (by rw [hM, hrest]; rfl)
        show d.maildir ++ [47] ++ q = _
        rw [hdest d.maildir (by rw [hlm]; rfl)]

theorem step_flags (fl : Bytes) :
    ∃ ml' e, matchesAppend env ml (pathEntry lno part (.flags fl)) = (ml' ++ [e], false) ∧ e.moves = true ∧
      Inv MD SD (ml' ++ [e]) (acts ++ [.flags fl]) (st.step (.flags fl)) ∧
      (st.okLast (.flags fl) = true → e.path = destPath (m0, s0) (acts ++ [.flags fl])) := by
  have hM' : ofTy .move (ml ++ [mkEntry lno part (.flags fl) m0 s0]) = ofTy .move ml :=
    ofTy_snoc_other .move _ _ (by show MType.flags ≠ MType.move; decide)
  have hF' : ofTy .flag (ml ++ [mkEntry lno part (.flags fl) m0 s0]) = ofTy .flag ml :=
    ofTy_snoc_other .flag _ _ (by show MType.flags ≠ MType.flag; decide)
  refine ⟨ml, mkEntry lno part (.flags fl) m0 s0, append_flags ctx ml lno part fl (hfits m0 hm0 s0 hs0), rfl, ?_, ?_⟩
  · refine ⟨?_, ?_, ?_, ?_, ?_, ?_, ?_, ?_, ?_, ?_, ?_⟩
    · show some PathKind.flags = _
      rw [lastTy_snoc]; rfl
    · show st.nMove = _
      rw [hM']; exact inv.nM
    · show st.nFlag = _
      rw [hF']; exact inv.nF
    · show st.hasMove = _
      rw [lastMove_snoc_flags]; exact inv.hM
    · show st.hasFlag = _
      rw [lastFlag_snoc_flags]; exact inv.hF
    · rw [hM']; exact inv.zM
    · rw [hF']; exact inv.zF
    · rw [hM', lastMove_snoc_flags]; exact inv.lM
    · rw [hF', lastFlag_snoc_flags]; exact inv.lF
    · rw [hM']; exact inv.bM
    · rw [hF']; exact inv.bF
  · intro hok
    have hh : st.hasMove = false ∧ st.hasFlag = false := by
      simpa [DestSt.okLast] using hok
    have h1 : lastMove acts = none := by
      have := inv.hM
      rw [hh.1] at this
      cases h : lastMove acts with
      | none => rfl
      | some x => rw [h] at this; cases this
    have h2 : lastFlag acts = none := by
      have := inv.hF
      rw [hh.2] at this
      cases h : lastFlag acts with
      | none => rfl
      | some x => rw [h] at this; cases this
    show m0 ++ [47] ++ s0 = _
    simp only [destPath, dest, lastMove_snoc_flags, lastFlag_snoc_flags, h1, h2, Option.getD_none]

end step

/-! ## the whole sequence -/

/-- The names of the actions are non-empty and among `MD` / `SD`. -/
def ActOK (MD SD : List Bytes) : PathAction → Prop
  | .move p => p ≠ [] ∧ p ∈ MD
  | .flag q => q ≠ [] ∧ q ∈ SD
  | .flags _ => True

theorem step_any {env : Env} {m0 s0 : Bytes} (ctx : Ctx env m0 s0) {MD SD : List Bytes}
    (hm0 : m0 ∈ MD) (hs0 : s0 ∈ SD)
    (hfits : ∀ md ∈ MD, ∀ sd ∈ SD, md.length + 1 + sd.length < PATH_MAX)
    {ml : MatchList} {acts : List PathAction} {st : DestSt} (inv : Inv MD SD ml acts st) (lno part : Nat)
    (a : PathAction) (ha : ActOK MD SD a) :
    ∃ ml' e, matchesAppend env ml (pathEntry lno part a) = (ml' ++ [e], false) ∧ e.moves = true ∧
      Inv MD SD (ml' ++ [e]) (acts ++ [a]) (st.step a) ∧
      (st.okLast a = true → e.path = destPath (m0, s0) (acts ++ [a])) := by
  cases a with
  | move p => exact step_move ctx hs0 hfits inv lno part p ha.1 ha.2
  | flag q => exact step_flag ctx hm0 hfits inv lno part q ha.1 ha.2
  | flags fl => exact step_flags ctx hm0 hs0 hfits inv lno part fl

theorem lastPath_snoc (ml : MatchList) (e : Match) (he : e.moves = true) : lastPath (ml ++ [e]) = some e.path := by
  unfold lastPath
  rw [List.filter_append]
  have : List.filter Match.moves [e] = [e] := by simp [he]
  rw [this, getLast?_snoc]
  rfl

theorem appendAll_dest {env : Env} {m0 s0 : Bytes} (ctx : Ctx env m0 s0) {MD SD : List Bytes}
    (hm0 : m0 ∈ MD) (hs0 : s0 ∈ SD)
    (hfits : ∀ md ∈ MD, ∀ sd ∈ SD, md.length + 1 + sd.length < PATH_MAX) (lno part : Nat) :
    ∀ (actions : List PathAction) (ml : MatchList) (acts : List PathAction) (st : DestSt),
      Inv MD SD ml acts st → (∀ a ∈ actions, ActOK MD SD a) → actions ≠ [] → destOKFrom st actions = true →
      ∃ ml', appendAll env ml (actions.map (pathEntry lno part)) = some ml' ∧
        lastPath ml' = some (destPath (m0, s0) (acts ++ actions)) := by
  intro actions
  induction actions with
  | nil => intro ml acts st _ _ hne; exact absurd rfl hne
  | cons a rest ih =>
    intro ml acts st inv hact _ hok
    obtain ⟨ml', e, happ, hmoves, inv', hlast⟩ :=
      step_any ctx hm0 hs0 hfits inv lno part a (hact a List.mem_cons_self)
    cases rest with
    | nil =>
      refine ⟨ml' ++ [e], ?_, ?_⟩
      · simp only [List.map_cons, List.map_nil, appendAll, happ]
      · rw [lastPath_snoc _ _ hmoves, hlast hok]
    | cons b rest' =>
      have hok' : destOKFrom (st.step a) (b :: rest') = true := hok
      obtain ⟨ml'', h1, h2⟩ := ih (ml' ++ [e]) (acts ++ [a]) (st.step a) inv'
        (fun x hx => hact x (List.mem_cons_of_mem _ hx)) (List.cons_ne_nil _ _) hok'
      refine ⟨ml'', ?_, ?_⟩
      · rw [List.map_cons, appendAll, happ]
        exact h1
      · rw [h2, List.append_assoc]; rfl

/-- The starting point: a list without move/flag/flags entries and no action yet. -/
theorem inv_init (MD SD : List Bytes) (ml0 : MatchList) (h0 : ∀ e ∈ ml0, e.moves = false) :
    Inv MD SD ml0 [] {} := by
  have hno : ∀ t : MType, (t = .move ∨ t = .flag ∨ t = .flags) → ofTy t ml0 = [] := by
    intro t ht
    unfold ofTy
    rw [List.filter_eq_nil_iff]
    intro e he hty
    have hty' : e.ty = t := by simpa using hty
    have := h0 e he
    unfold Match.moves at this
    rcases ht with h | h | h <;> (subst h; simp [hty'] at this)
  have hM := hno .move (Or.inl rfl)
  have hF := hno .flag (Or.inr (Or.inl rfl))
  refine ⟨?_, ?_, ?_, rfl, rfl, fun _ => hM, fun _ => hF, ?_, ?_, ?_, ?_⟩
  · show none = _
    unfold lastTy
    cases hg : ml0.getLast? with
    | none => rfl
    | some l =>
      have hl : l ∈ ml0 := List.mem_of_getLast? hg
      have := h0 l hl
      unfold Match.moves at this
      show none = kindOf l.ty
      cases hty : l.ty <;> rw [hty] at this <;> first | rfl | (simp at this)
  · rw [hM]; rfl
  · rw [hF]; rfl
  · rw [hM]; intro d hd; cases hd
  · rw [hF]; intro d hd; cases hd
  · rw [hM]; intro d hd; cases hd
  · rw [hF]; intro d hd; cases hd

/-! ## the theorem -/

theorem mem_moveNames (actions : List PathAction) (p : Bytes) (h : PathAction.move p ∈ actions) : p ∈ moveNames actions := by
  induction actions with
  | nil => cases h
  | cons a r ih =>
    rcases List.mem_cons.1 h with h1 | h2
    · subst h1; simp [moveNames]
    · have := ih h2
      cases a <;> simp [moveNames, this]

theorem mem_flagNames (actions : List PathAction) (q : Bytes) (h : PathAction.flag q ∈ actions) : q ∈ flagNames actions := by
  induction actions with
  | nil => cases h
  | cons a r ih =>
    rcases List.mem_cons.1 h with h1 | h2
    · subst h1; simp [flagNames]
    · have := ih h2
      cases a <;> simp [flagNames, this]

theorem lastPath_none (ml0 : MatchList) (h0 : ∀ e ∈ ml0, e.moves = false) : lastPath ml0 = none := by
  unfold lastPath
  have : ml0.filter Match.moves = [] := by
    rw [List.filter_eq_nil_iff]
    intro e he hm
    rw [h0 e he] at hm
    cases hm
  rw [this]
  rfl

/-- `finalPlace` for a message path whose two slices are `m0` and `s0`. -/
theorem finalPlace_of_ctx {env : Env} {m0 s0 : Bytes} (ctx : Ctx env m0 s0) (ml0 : MatchList)
    (actions : List PathAction) (hwf : actionsWF actions = true) (hfit : destFits PATH_MAX (m0, s0) actions = true)
    (hml0 : ∀ e ∈ ml0, e.moves = false) (hok : destOK actions = true) :
    finalPlace env ml0 actions = if actions.isEmpty then none else some (destPath (m0, s0) actions) := by
  have hfits : ∀ md ∈ m0 :: moveNames actions, ∀ sd ∈ s0 :: flagNames actions,
      md.length + 1 + sd.length < PATH_MAX := by
    intro md hmd sd hsd
    unfold destFits at hfit
    rw [List.all_eq_true] at hfit
    have h1 := hfit md hmd
    rw [List.all_eq_true] at h1
    exact of_decide_eq_true (h1 sd hsd)
  have hact : ∀ a ∈ actions, ActOK (m0 :: moveNames actions) (s0 :: flagNames actions) a := by
    unfold actionsWF at hwf
    rw [Bool.and_eq_true, List.all_eq_true, List.all_eq_true] at hwf
    intro a ha
    cases a with
    | move p =>
      have hp := mem_moveNames actions p ha
      refine ⟨?_, List.mem_cons_of_mem _ hp⟩
      intro h
      have := hwf.1 p hp
      rw [h] at this
      cases this
    | flag q =>
      have hq := mem_flagNames actions q ha
      refine ⟨?_, List.mem_cons_of_mem _ hq⟩
      intro h
      have := hwf.2 q hq
      rw [h] at this
      cases this
    | flags fl => trivial
  unfold finalPlace
  cases actions with
  | nil =>
    show lastPath ml0 = none
    exact lastPath_none ml0 hml0
  | cons a rest =>
    obtain ⟨ml', h1, h2⟩ := appendAll_dest ctx List.mem_cons_self List.mem_cons_self hfits 0 0 (a :: rest) ml0 [] {}
      (inv_init _ _ ml0 hml0) hact (List.cons_ne_nil _ _) hok
    rw [h1]
    exact h2

/-- `C09_destination_partial`. -/
theorem finalPlace_eq_dest (env : Env) (root sub name : Bytes) (ml0 : MatchList) (actions : List PathAction)
    (hpath : env.path = root ++ [47] ++ sub ++ [47] ++ name)
    (hroot : root ≠ []) (hsub : (47 : UInt8) ∉ sub) (hname : (47 : UInt8) ∉ name)
    (hsubl : sub.length < NAME_MAX1)
    (hwf : actionsWF actions = true) (hfit : destFits PATH_MAX (root, sub) actions = true)
    (hml0 : ∀ e ∈ ml0, e.moves = false) (hok : destOK actions = true) :
    finalPlace env ml0 actions = if actions.isEmpty then none else some (destPath (root, sub) actions) := by
  have hrl : root.length < PATH_MAX := by
    unfold destFits at hfit
    rw [List.all_eq_true] at hfit
    have h1 := hfit root List.mem_cons_self
    rw [List.all_eq_true] at h1
    have := of_decide_eq_true (h1 sub List.mem_cons_self)
    omega
  have hs := slices root sub name hroot hsub hname PATH_MAX NAME_MAX1 hrl hsubl
  have ctx : Ctx env root sub := ⟨by rw [hpath]; exact hs.1, by rw [hpath]; exact hs.2⟩
  exact finalPlace_of_ctx ctx ml0 actions hwf hfit hml0 hok

/-! ## the same for entries with their own line numbers (as `eval` builds them) -/

theorem fits_of_destFits {m0 s0 : Bytes} {actions : List PathAction}
    (hfit : destFits PATH_MAX (m0, s0) actions = true) :
    ∀ md ∈ m0 :: moveNames actions, ∀ sd ∈ s0 :: flagNames actions, md.length + 1 + sd.length < PATH_MAX := by
  intro md hmd sd hsd
  unfold destFits at hfit
  rw [List.all_eq_true] at hfit
  have h1 := hfit md hmd
  rw [List.all_eq_true] at h1
  exact of_decide_eq_true (h1 sd hsd)

theorem actOK_of_wf (m0 s0 : Bytes) {actions : List PathAction} (hwf : actionsWF actions = true) :
    ∀ a ∈ actions, ActOK (m0 :: moveNames actions) (s0 :: flagNames actions) a := by
  unfold actionsWF at hwf
  rw [Bool.and_eq_true, List.all_eq_true, List.all_eq_true] at hwf
  intro a ha
  cases a with
  | move p =>
    have hp := mem_moveNames actions p ha
    refine ⟨?_, List.mem_cons_of_mem _ hp⟩
    intro h
    have := hwf.1 p hp
    rw [h] at this
    cases this
  | flag q =>
    have hq := mem_flagNames actions q ha
    refine ⟨?_, List.mem_cons_of_mem _ hq⟩
    intro h
    have := hwf.2 q hq
    rw [h] at this
    cases this
  | flags fl => trivial

/-- Entries of actions with their line numbers, all for the same part. -/
def entries (part : Nat) (ls : List (Nat × PathAction)) : List Match := ls.map fun x => pathEntry x.1 part x.2

theorem appendAll_dest_labelled {env : Env} {m0 s0 : Bytes} (ctx : Ctx env m0 s0) {MD SD : List Bytes}
    (hm0 : m0 ∈ MD) (hs0 : s0 ∈ SD)
    (hfits : ∀ md ∈ MD, ∀ sd ∈ SD, md.length + 1 + sd.length < PATH_MAX) (part : Nat) :
    ∀ (ls : List (Nat × PathAction)) (ml : MatchList) (acts : List PathAction) (st : DestSt),
      Inv MD SD ml acts st → (∀ x ∈ ls, ActOK MD SD x.2) → ls ≠ [] → destOKFrom st (ls.map (·.2)) = true →
      ∃ ml', appendAll env ml (entries part ls) = some ml' ∧
        lastPath ml' = some (destPath (m0, s0) (acts ++ ls.map (·.2))) := by
  intro ls
  induction ls with
  | nil => intro ml acts st _ _ hne; exact absurd rfl hne
  | cons x rest ih =>
    intro ml acts st inv hact _ hok
    obtain ⟨ml', e, happ, hmoves, inv', hlast⟩ :=
      step_any ctx hm0 hs0 hfits inv x.1 part x.2 (hact x List.mem_cons_self)
    cases rest with
    | nil =>
      refine ⟨ml' ++ [e], ?_, ?_⟩
      · simp only [entries, List.map_cons, List.map_nil, appendAll, happ]
      · rw [lastPath_snoc _ _ hmoves, hlast hok]; rfl
    | cons y rest' =>
      have hok' : destOKFrom (st.step x.2) ((y :: rest').map (·.2)) = true := hok
      obtain ⟨ml'', h1, h2⟩ := ih (ml' ++ [e]) (acts ++ [x.2]) (st.step x.2) inv'
        (fun z hz => hact z (List.mem_cons_of_mem _ hz)) (List.cons_ne_nil _ _) hok'
      refine ⟨ml'', ?_, ?_⟩
      · show appendAll env ml (pathEntry x.1 part x.2 :: entries part (y :: rest')) = _
        rw [appendAll, happ]
        exact h1
      · rw [h2, List.append_assoc]; rfl

theorem appendAll_labelled_of_ctx {env : Env} {m0 s0 : Bytes} (ctx : Ctx env m0 s0) (ml0 : MatchList) (part : Nat)
    (ls : List (Nat × PathAction)) (hne : ls ≠ []) (hwf : actionsWF (ls.map (·.2)) = true)
    (hfit : destFits PATH_MAX (m0, s0) (ls.map (·.2)) = true)
    (hml0 : ∀ e ∈ ml0, e.moves = false) (hok : destOK (ls.map (·.2)) = true) :
    ∃ ml', appendAll env ml0 (entries part ls) = some ml' ∧
      lastPath ml' = some (destPath (m0, s0) (ls.map (·.2))) := by
  have hact : ∀ x ∈ ls, ActOK (m0 :: moveNames (ls.map (·.2))) (s0 :: flagNames (ls.map (·.2))) x.2 :=
    fun x hx => actOK_of_wf m0 s0 hwf x.2 (List.mem_map_of_mem hx)
  exact appendAll_dest_labelled ctx List.mem_cons_self List.mem_cons_self (fits_of_destFits hfit) part ls ml0 [] {}
    (inv_init _ _ ml0 hml0) hact hne hok

end Mdsort.Proofs.Dest
