import Mdsort.Proofs.WorldWholeWalk

/-!
# No error bit means final place: one message through `processMessage` under at most one fault

`exec_exit0_final` (C01_exit0_final) is about one action list started in a `StartAt` world.  Here it is
lifted through `processMessage`: parse (`start_of_parse`), execution, `message_free`, and the
update of the registry.
-/

namespace Mdsort.Proofs
open Mdsort Mdsort.Model
open Mdsort.Proofs.World (wpS wpS_bind_mono wpS_of_wp wpS_call_any wpS_sound SingleFault WholePF Located Delta lk Ent At
  bind_eq pure_eq call_bind ret_bind call_bind')

/-- The message `name` of `md` is at its final place: the registry and the world have it in the
directory of the last move/flag/flags action (`finalDir`; its own directory if there is none),
under a name that is its own or was free, bound to a file that holds - visibly and durably - the
rewritten message if the list contains a label or add-header (and in any case the original or the
rewritten bytes); the original entry is free unless it is the final one; every other entry of every
directory is bound as before. -/
def WholeFinalPlace (w : World) (md : Maildir) (name content : Bytes) (ml : MatchList) (msg : Msg)
    (r : MainSt × Maildir) (w' : World) : Prop :=
  ∃ n fid' c', r.1.files.get (World.finalDir ml md.path) n = some c' ∧
    w'.lookup (World.finalDir ml md.path) n = some fid' ∧ w'.file fid' = some ⟨c', c'⟩ ∧
    (World.rewrites ml = true → c' = (messageWrite msg).1) ∧ (c' = content ∨ c' = (messageWrite msg).1) ∧
    ((World.finalDir ml md.path, n) ≠ (md.path, name) →
      w'.lookup md.path name = none ∧ w.lookup (World.finalDir ml md.path) n = none) ∧
    ∀ q m, (q, m) ≠ (md.path, name) → (q, m) ≠ (World.finalDir ml md.path, n) → w'.lookup q m = w.lookup q m

theorem whole_sf_processMessage (env : PEnv) (orc : EvalOracles) (expr : Expr) (md : Maildir) (name : Bytes) (st : MainSt)
    {w : World} {d : Handle} {content : Bytes} {fid : Nat} {ml : MatchList} {msgs : Nat → Msg} {fl : MFlags}
    (hd : md.dirH = some d) (hp : w.dirPath d = some md.path)
    (hwf : pathjoin PATH_MAX md.root (subdirName md.subdir) = some md.path)
    (hfc : st.files.get md.path name = some content)
    (hl : w.lookup md.path name = some fid) (hf : w.file fid = some ⟨content, content⟩) (hc : WholeClean w)
    (hfree : asksFree expr = true)
    (hvd : verdict env orc expr md.path name content = .act ml msgs fl) (hml : NoDiscard ml)
    (hdry : env.dryrun = false) (b : Bool) :
    wpS (processMessage env orc expr md name st)
      (fun _ r w' => r.1.error = false → WholeFinalPlace w md name content ml (msgs 0) r w') b w := by
  rw [processMessage_eq env orc expr md name st d content hd hfc]
  refine wpS_bind_mono (wpS_of_wp b (whole_wp_all (whole_start_of_parse_wp md d name content w fid hd hp hwf hl hf hc)
    (all_messageParseP_as d md.path name content))) ?_
  rintro b1 pm w0 ⟨⟨pf, hst⟩, hpa⟩
  cases pm with
  | none =>
    intro he
    cases he
  | some ms =>
    have hv := msVerdict_of_parsed env orc expr md.path name content ms hpa
    rw [afterParse_asksFree env orc expr hfree]
    simp only [hv, hvd, afterVerdict, hdry, Bool.false_eq_true, if_false]
    have hS := hst ms rfl (msgs 0) fl
    obtain ⟨sh, fid0, hA⟩ := hS.at
    have hname : ms.name = name := by
      obtain ⟨p, mf, _, _, _, h1, _⟩ := hpa ms rfl
      exact h1
    refine wpS_bind_mono (World.sf_matchesExec env ml _ hA hml b1) ?_
    rintro b2 x w1 ⟨nb, hloc, dl, hmsg, hcont, hfin⟩
    refine wpS_bind_mono (R := fun _ _ w2 => Located w2 x.1.ms nb ∧
        Delta w0 w2 (md.path, ms.name) nb) ?_ ?_
    · unfold freeP
      split
      · rename_i h _
        simp only [call_bind]
        refine wpS_call_any fun r _ => ?_
        exact ⟨hloc.step _ r rfl (fun _ => trivial), dl.step _ r rfl (fun _ _ => trivial)⟩
      · exact ⟨hloc, dl⟩
    · rintro b3 _ w2 ⟨hloc2, dl2⟩
      intro he
      have he2 : x.2 = false := by
        simp only [Bool.or_eq_false_iff] at he
        exact he.2
      obtain ⟨hdir, hrw⟩ := hfin he2
      obtain ⟨hl2, fid2, hlk2, _, hf2⟩ := hloc2
      obtain ⟨p, n⟩ := nb
      simp only at hdir
      subst hdir
      have hlkw : ∀ x, lk w0 x = lk w x := fun x => World.lookup_of_dirs pf.dirs x.1 x.2
      refine ⟨n, fid2, x.1.ms.content, ?_, hlk2, hf2, ?_, ?_, ?_, ?_⟩
      · show (afterExec _ md.path name x.1.ms).get _ n = some _
        unfold afterExec
        rw [hl2, Files.whole_get_put]
        simp
      · intro h; exact hrw h
      · rcases hcont with h | h
        · left; rw [h]; exact hS.content
        · right; exact h
      · intro hne
        have hne' : (md.path, ms.name) ≠ (World.finalDir ml md.path, n) := by
          rw [hname]; exact fun h => hne h.symm
        refine ⟨?_, ?_⟩
        · have := dl2.gone hne'
          rw [hname] at this
          exact this
        · have := dl2.fresh hne'
          rw [hlkw] at this
          exact this
      · intro q m h1 h2
        have := dl2.others (q, m) (by rw [hname]; exact h1) h2
        rw [hlkw] at this
        exact this

/-- **No error bit means final place** (`runPlan` form, at most one fault): if `processMessage` on
a registered, completely stored message on which the rules act (list `ml` without discard, not a dry
run) returns a state without the error flag, the message is at its final place.  For rule trees that ask the
operating system nothing (`asksFree`: no `command`, `isdirectory`, file-time `date` condition), where the verdict is
the pure `verdict`. -/
theorem whole_message_exit0 (env : PEnv) (orc : EvalOracles) (expr : Expr) (md : Maildir) (name : Bytes) (st : MainSt)
    (w : World) (plan : Plan) {d : Handle} {content : Bytes} {fid : Nat} {ml : MatchList} {msgs : Nat → Msg} {fl : MFlags}
    (hd : md.dirH = some d) (hp : w.dirPath d = some md.path)
    (hwf : pathjoin PATH_MAX md.root (subdirName md.subdir) = some md.path)
    (hfc : st.files.get md.path name = some content)
    (hl : w.lookup md.path name = some fid) (hf : w.file fid = some ⟨content, content⟩) (hc : WholeClean w)
    (hfree : asksFree expr = true)
    (hvd : verdict env orc expr md.path name content = .act ml msgs fl) (hml : NoDiscard ml)
    (hdry : env.dryrun = false) (hpl : SingleFault plan)
    (he : (runPlan plan (processMessage env orc expr md name st) w 0 []).1.1.error = false) :
    WholeFinalPlace w md name content ml (msgs 0) (runPlan plan (processMessage env orc expr md name st) w 0 []).1
      (runPlan plan (processMessage env orc expr md name st) w 0 []).2.1 := by
  rw [World.runPlan_eq] at he ⊢
  obtain ⟨b', h⟩ := wpS_sound plan (whole_sf_processMessage env orc expr md name st hd hp hwf hfc hl hf hc hfree hvd hml hdry true)
    hpl.budget
  exact h he

end Mdsort.Proofs
