import Mdsort.Proofs.WorldWholeWalk

/-!
# No error bit means final place: one message through `processMessage` under at most one fault

`exec_exit0_final` (C01_exit0_final) is about one action list started in a `StartAt` world.  Here it is
lifted through `processMessage`: parse (`start_of_parse`), execution, `message_free`, and the
update of the registry.
-/

namespace Mdsort.Proofs
open Mdsort Mdsort.Model
open Mdsort.Proofs.World (wpS wpS_bind_mono wpS_of_wp wpS_call_any wpS_sound SingleFault WholePF Located Delta lk Ent At
  bind_eq pure_eq call_bind ret_bind call_bind')

/-- The message `name` of `md` is at its final place: the registry and the world have it in the
directory of the last move/flag/flags action (`finalDir`; its own directory if there is none),
under a name that is its own or was free, bound to a file that holds - visibly and durably - the
rewritten message if the list contains a label or add-header (and in any case the original or the
rewritten bytes); the original entry is free unless it is the final one; every other entry of every
directory is bound as before. -/
def WholeFinalPlace (w : World) (md : Maildir) (name content : Bytes) (ml : MatchList) (msg : Msg)
    (r : MainSt × Maildir) (w' : World) : Prop :=
  ∃ n fid' c', r.1.files.get (World.finalDir ml md.path) n = some c' ∧
    w'.lookup (World.finalDir ml md.path) n = some fid' ∧ w'.file fid' = some ⟨c', c'⟩ ∧
    (World.rewrites ml = true → c' = (messageWrite msg).1) ∧ (c' = content ∨ c' = (messageWrite msg).1) ∧
    ((World.finalDir ml md.path, n) ≠ (md.path, name) →
      w'.lookup md.path name = none ∧ w.lookup (World.finalDir ml md.path) n = none) ∧
    ∀ q m, (q, m) ≠ (md.path, name) → (q, m) ≠ (World.finalDir ml md.path, n) → w'.lookup q m = w.lookup q m

/-- What `processMessage` on a registered, completely stored message establishes when it returns without the error bit, for the
verdict `v` of the rules in that run: an action list (without discard) - the message is at its final place; no match - the registry
is as it was; an error verdict does not occur. -/
def WholeExit0V (w : World) (md : Maildir) (name content : Bytes) (st : MainSt) (r : MainSt × Maildir) (w' : World) : Verdict → Prop
  | .act ml msgs _ => WholeFinalPlace w md name content ml (msgs 0) r w'
  | .nomatch => r.1.files = st.files
  | _ => False

theorem whole_sf_processMessage (env : PEnv) (orc : EvalOracles) (expr : Expr) (md : Maildir) (name : Bytes) (st : MainSt)
    {w : World} {d : Handle} {content : Bytes} {fid : Nat}
    (hd : md.dirH = some d) (hp : w.dirPath d = some md.path)
    (hwf : pathjoin PATH_MAX md.root (subdirName md.subdir) = some md.path)
    (hfc : st.files.get md.path name = some content)
    (hl : w.lookup md.path name = some fid) (hf : w.file fid = some ⟨content, content⟩) (hc : WholeClean w)
    (hnd : WholeNoDiscard env orc expr) (hdry : env.dryrun = false) (b : Bool) :
    wpS (processMessage env orc expr md name st)
      (fun _ r w' => r.1.error = false →
        ∃ as, WholeExit0V w md name content st r w' (verdictA env orc expr md.path name content as)) b w := by
  rw [processMessage_eq env orc expr md name st d content hd hfc]
  refine wpS_bind_mono (wpS_of_wp b (whole_wp_all (World.whole_messageParseP d md.path name content hp hl)
    (all_messageParseP_as d md.path name content))) ?_
  rintro b1 pm w00 ⟨⟨pf00, hms⟩, hpa⟩
  cases pm with
  | none =>
    intro he
    cases he
  | some ms =>
    simp only [afterParse]
    obtain ⟨h1, h2, h3, h4, h5', -⟩ := hms ms rfl
    refine wpS_bind_mono (wpS_of_wp b1 (World.wp_evalFoot (msgEnv env orc ms.path) expr ms.msg ms.flags w00)) ?_
    rintro b1' ev w0 ⟨ef, as, hev⟩
    have pf : WholePF w w0 := pf00.of_evalFoot ef
    have h5 : w.handles.length < w0.handles.length := Nat.lt_of_lt_of_le h5' ef.len
    have hv : evVerdict env orc ms ev = verdictA env orc expr md.path name content as := by
      rw [hev]; exact msVerdictA_of_parsed env orc expr md.path name content ms hpa as
    rw [hv]
    -- closing the descriptor when nothing is executed
    have freeS : ∀ (ms' : MsgSt) (r : MainSt × Maildir) (Q : Prop), (r.1.error = false → Q) →
        wpS ((freeP ms').bind fun _ => Prog.ret r) (fun _ r' _ => r'.1.error = false → Q) b1' w0 := by
      intro ms' r Q hQ
      unfold freeP
      split
      · simp only [call_bind]
        exact wpS_call_any fun _ _ => hQ
      · exact hQ
    cases hvd : verdictA env orc expr md.path name content as with
    | unparsable =>
      simp only [afterVerdict]
      refine World.wpS_mono (freeS ms _ False (by intro he; cases he)) ?_
      intro _ _ _ h he; exact (h he).elim
    | error =>
      simp only [afterVerdict]
      refine World.wpS_mono (freeS ms _ False (by intro he; cases he)) ?_
      intro _ _ _ h he; exact (h he).elim
    | interpFail =>
      simp only [afterVerdict]
      refine World.wpS_mono (freeS ms _ False (by intro he; cases he)) ?_
      intro _ _ _ h he; exact (h he).elim
    | «nomatch» =>
      simp only [afterVerdict]
      unfold freeP
      split
      · simp only [call_bind]
        exact wpS_call_any fun _ _ _ => ⟨as, by rw [hvd]; rfl⟩
      · exact fun _ => ⟨as, by rw [hvd]; rfl⟩
    | act ml msgs fl =>
      have hml : NoDiscard ml := hnd md.path name content as ml msgs fl hvd
      simp only [afterVerdict, hdry, Bool.false_eq_true, if_false]
      have hS := whole_startAt_of_pf md d name content w w0 fid hd hp hwf hl hf hc pf ms h1 h2 h3 h4 h5 (msgs 0) fl
      obtain ⟨sh, fid0, hA⟩ := hS.at
      have hname : ms.name = name := h1
      refine wpS_bind_mono (World.sf_matchesExec env ml _ hA hml b1') ?_
      rintro b2 x w1 ⟨nb, hloc, dl, hmsg, hcont, hfin⟩
      refine wpS_bind_mono (R := fun _ _ w2 => Located w2 x.1.ms nb ∧
          Delta w0 w2 (md.path, ms.name) nb) ?_ ?_
      · unfold freeP
        split
        · rename_i h _
          simp only [call_bind]
          refine wpS_call_any fun r _ => ?_
          exact ⟨hloc.step _ r rfl (fun _ => trivial), dl.step _ r rfl (fun _ _ => trivial)⟩
        · exact ⟨hloc, dl⟩
      · rintro b3 _ w2 ⟨hloc2, dl2⟩
        intro he
        refine ⟨as, ?_⟩
        rw [hvd]
        have he2 : x.2 = false := by
          simp only [Bool.or_eq_false_iff] at he
          exact he.2
        obtain ⟨hdir, hrw⟩ := hfin he2
        obtain ⟨hl2, fid2, hlk2, _, hf2⟩ := hloc2
        obtain ⟨p, n⟩ := nb
        simp only at hdir
        subst hdir
        have hlkw : ∀ x, lk w0 x = lk w x := fun x => World.lookup_of_dirs pf.dirs x.1 x.2
        refine ⟨n, fid2, x.1.ms.content, ?_, hlk2, hf2, ?_, ?_, ?_, ?_⟩
        · show (afterExec _ md.path name x.1.ms).get _ n = some _
          unfold afterExec
          rw [hl2, Files.whole_get_put]
          simp
        · intro h; exact hrw h
        · rcases hcont with h | h
          · left; rw [h]; exact hS.content
          · right; exact h
        · intro hne
          have hne' : (md.path, ms.name) ≠ (World.finalDir ml md.path, n) := by
            rw [hname]; exact fun h => hne h.symm
          refine ⟨?_, ?_⟩
          · have := dl2.gone hne'
            rw [hname] at this
            exact this
          · have := dl2.fresh hne'
            rw [hlkw] at this
            exact this
        · intro q m h1' h2'
          have := dl2.others (q, m) (by rw [hname]; exact h1') h2'
          rw [hlkw] at this
          exact this

/-- **No error bit means final place** (`runPlan` form, at most one fault - which may also hit a call of evaluation): if
`processMessage` on a registered, completely stored message (rules that never discard, not a dry run) returns a state without the
error flag, then for SOME answers `as` of the operating system to the questions of evaluation (those of the run; irrelevant for a
rule tree without `command` / `isdirectory` / file-time `date` conditions) the verdict `verdictA … as` is not an error, and if it is
an action list the message is at its final place (`WholeFinalPlace`); if it is "no match" the registry is unchanged. -/
theorem whole_message_exit0 (env : PEnv) (orc : EvalOracles) (expr : Expr) (md : Maildir) (name : Bytes) (st : MainSt)
    (w : World) (plan : Plan) {d : Handle} {content : Bytes} {fid : Nat}
    (hd : md.dirH = some d) (hp : w.dirPath d = some md.path)
    (hwf : pathjoin PATH_MAX md.root (subdirName md.subdir) = some md.path)
    (hfc : st.files.get md.path name = some content)
    (hl : w.lookup md.path name = some fid) (hf : w.file fid = some ⟨content, content⟩) (hc : WholeClean w)
    (hnd : WholeNoDiscard env orc expr)
    (hdry : env.dryrun = false) (hpl : SingleFault plan)
    (he : (runPlan plan (processMessage env orc expr md name st) w 0 []).1.1.error = false) :
    ∃ as, WholeExit0V w md name content st (runPlan plan (processMessage env orc expr md name st) w 0 []).1
      (runPlan plan (processMessage env orc expr md name st) w 0 []).2.1 (verdictA env orc expr md.path name content as) := by
  rw [World.runPlan_eq] at he ⊢
  obtain ⟨b', h⟩ := wpS_sound plan (whole_sf_processMessage env orc expr md name st hd hp hwf hfc hl hf hc hnd hdry true)
    hpl.budget
  exact h he

end Mdsort.Proofs
