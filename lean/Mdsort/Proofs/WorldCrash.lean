import Mdsort.Model.Crash
import Mdsort.Proofs.WorldLinTop
import Mdsort.Proofs.WorldWholeExec

/-!
# Crash states (C02): from the per-call invariants to every state a power failure can leave

`Model.crashState wd wf`: the directories of the world `wd` after some earlier call, every file holding what the world
`wf` at the moment of the failure has on stable storage.  `CrashSafe`: every such state (for every prefix of the calls
issued so far) has an entry bound to a file that is the message's own file or one made since, whose durable content is a
complete version.  It follows from three per-call invariants:

* `GoodN` / `LinInv` (WorldLinScripts): the tracked entry and the lineage;
* `Orig`: the message's own file is never written;
* `DI`: the durable content of a file made by this run is empty or a complete version, and always a prefix of its
  visible content - `fsync` is the only call that changes durable content, and the one `fsync` of `message_write`
  comes after the complete message has reached the file.
-/

namespace Mdsort.Proofs.World
open Mdsort Mdsort.Model

/-! ## observations of a crash state -/

theorem crashState_lookup (wd wf : World) (p n : Bytes) : (crashState wd wf).lookup p n = wd.lookup p n := rfl

theorem find_map_durable (l : List (Nat × File)) (g : Nat) :
    ((l.map fun x => (x.1, ({ data := x.2.durable, durable := x.2.durable } : File))).find? (·.1 == g)).map (·.2) =
      ((l.find? (·.1 == g)).map (·.2)).map fun f => ({ data := f.durable, durable := f.durable } : File) := by
  induction l with
  | nil => rfl
  | cons x rest ih =>
    simp only [List.map_cons, List.find?_cons]
    by_cases h : (x.1 == g) = true
    · simp [h]
    · simp only [h]
      exact ih

theorem crashState_file (wd wf : World) (g : Nat) :
    (crashState wd wf).file g = (wf.file g).map fun f => ({ data := f.durable, durable := f.durable } : File) :=
  find_map_durable wf.files g

/-! ## what one call does to an existing file -/

/-- Visible content is only appended to; durable content stays, or becomes what was visible. -/
structure FileStep (f f' : File) : Prop where
  dur : f'.durable = f.durable ∨ f'.durable = f.data
  app : ∃ s, f'.data = f.data ++ s

theorem FileStep.of_data {f : File} (s : Bytes) : FileStep f { f with data := f.data ++ s } := ⟨.inl rfl, s, rfl⟩

theorem FileStep.of_sync {f : File} : FileStep f { f with durable := f.data } := ⟨.inr rfl, [], by simp⟩

theorem objFid_eq_of_not_safe {w : World} {g : Nat} {fd : Handle} (h : ¬ (objFid (w.obj fd) ≠ some g)) :
    objFid (w.obj fd) = some g := Classical.not_not.1 h

theorem obj_kinds {w : World} {fd : Handle} {g : Nat} (h : objFid (w.obj fd) = some g) :
    (∃ off wr, w.obj fd = .file g off wr) ∨ (∃ buf, w.obj fd = .stream g buf) := by
  cases ho : w.obj fd with
  | file fid off wr => rw [ho] at h; simp only [objFid, Option.some.injEq] at h; subst h; exact .inl ⟨off, wr, rfl⟩
  | stream fid buf => rw [ho] at h; simp only [objFid, Option.some.injEq] at h; subst h; exact .inr ⟨buf, rfl⟩
  | dir p s n => rw [ho] at h; cases h
  | other => rw [ho] at h; cases h
  | closed => rw [ho] at h; cases h

/-- A file after data has been appended, or nothing happened. -/
def Appended (w : World) (g : Nat) (w' : World) : Prop :=
  w'.file g = w.file g ∨ ∃ f s, w.file g = some f ∧ w'.file g = some { f with data := f.data ++ s }

theorem applyWrite_appended (w : World) (fd : Handle) (data : Bytes) (n : Nat) (g : Nat) : Appended w g (applyWrite w fd data n) := by
  unfold applyWrite
  split
  · rename_i fid off wr _
    split
    · rename_i f hf
      by_cases hg : g = fid
      · subst hg
        exact .inr ⟨f, data.take n, hf, by simp [file_setFile]⟩
      · exact .inl (by simp [file_setFile, hg])
    · exact .inl rfl
  · exact .inl rfl
  · exact .inl rfl

/-- A call other than `fsync`: every file below `nextFid` is unchanged or has data appended (its durable content is what
it was). -/
theorem core_file_notFsync (w : World) (c : Call) (r : Res) (g : Nat) (hl : g < w.nextFid) (hc : ∀ fd, c ≠ .fsync fd) :
    Appended w g (core w c r) := by
  by_cases hs : fileSafe w g c
  · exact .inl (core_file w c r g hl hs)
  · cases c <;> try (exact absurd trivial hs)
    case write fd data =>
      cases r with
      | ok n =>
        simp only [core, applyOk]
        split
        · exact .inl rfl
        · simp only [Option.getD_some]; exact applyWrite_appended w fd data n g
      | err e => exact .inl (by simp [core, applyOk])
      | name x => exact .inl (by simp [core, applyOk])
      | eof => exact .inl (by simp [core, applyOk])
    case fprintf fd data =>
      cases r with
      | ok n =>
        simp only [core, applyOk]
        split
        · exact .inl rfl
        · simp only [Option.getD_some]; exact applyWrite_appended w fd data n g
      | err e => exact .inl (by simp [core, applyOk])
      | name x => exact .inl (by simp [core, applyOk])
      | eof => exact .inl (by simp [core, applyOk])
    case fsync fd => exact absurd rfl (hc fd)
    case fflush fd =>
      have hobj := objFid_eq_of_not_safe hs
      rcases obj_kinds hobj with ⟨off, wr, ho⟩ | ⟨buf, ho⟩
      · left; cases r <;> simp [core, applyOk, ho]
      · cases hf : w.file g with
        | none => left; cases r <;> simp [core, applyOk, ho, hf]
        | some f =>
          cases r with
          | ok v => right; exact ⟨f, buf, hf, by rw [core_fflush_ok ho hf]; simp [file_setFile]⟩
          | err e => left; simp [core, applyOk, hf]
          | name x => left; simp [core, applyOk, hf]
          | eof => left; simp [core, applyOk, hf]
    case fclose fd =>
      have hobj := objFid_eq_of_not_safe hs
      rcases obj_kinds hobj with ⟨off, wr, ho⟩ | ⟨buf, ho⟩
      · left; cases r <;> simp [core, applyOk, ho]
      · cases hf : w.file g with
        | none => left; cases r <;> simp [core, applyOk, ho, hf]
        | some f =>
          rw [core_fclose_stream ho hf]
          by_cases he : r.isErr = true
          · left; simp [he, hf]
          · right; exact ⟨f, buf, hf, by simp [he, file_setFile]⟩

/-- `fsync`: a file below `nextFid` is unchanged, or its durable content becomes its visible content - and then the
handle refers to it. -/
theorem core_file_fsync (w : World) (fd : Handle) (r : Res) (g : Nat) (hl : g < w.nextFid) :
    (core w (.fsync fd) r).file g = w.file g ∨
      ∃ f, w.file g = some f ∧ (core w (.fsync fd) r).file g = some { f with durable := f.data } ∧
        objFid (w.obj fd) = some g := by
  by_cases hs : fileSafe w g (.fsync fd)
  · exact .inl (core_file w _ r g hl hs)
  · have hobj := objFid_eq_of_not_safe hs
    cases hf : w.file g with
    | none =>
      left
      rcases obj_kinds hobj with ⟨off, wr, ho⟩ | ⟨buf, ho⟩ <;> cases r <;> simp [core, applyOk, ho, hf]
    | some f =>
      cases r with
      | ok v =>
        right
        refine ⟨f, rfl, ?_, hobj⟩
        rcases obj_kinds hobj with ⟨off, wr, ho⟩ | ⟨buf, ho⟩ <;> simp [core, applyOk, ho, hf, file_setFile]
      | err e => left; simp [core, applyOk, hf]
      | name x => left; rcases obj_kinds hobj with ⟨off, wr, ho⟩ | ⟨buf, ho⟩ <;> simp [core, applyOk, ho, hf]
      | eof => left; rcases obj_kinds hobj with ⟨off, wr, ho⟩ | ⟨buf, ho⟩ <;> simp [core, applyOk, ho, hf]

/-- The file a creating call makes is empty. -/
theorem core_file_created (w : World) (c : Call) (r : Res) (h : createsFile w c r = true) :
    (core w c r).file w.nextFid = some ⟨[], []⟩ := by
  cases c <;> try (simp [createsFile] at h; done)
  case openExcl d n =>
    cases r <;> try (simp [createsFile] at h; done)
    rename_i v
    simp only [createsFile] at h
    cases hp : w.dirPath d with
    | none => simp [hp] at h
    | some p =>
      simp only [hp] at h
      cases hl : w.lookup p n with
      | some x => simp [hl] at h
      | none => rw [core_openExcl_ok hp hl]; simp [file_setFile]
  case mkostemp t =>
    cases r <;> try (simp [createsFile] at h; done)
    rw [core_mkostemp_ok]; simp [file_setFile]

/-! ## the durable content of the files this run makes -/

/-- Every file made since the reference point `N0`: its durable content is a prefix of its visible content, and it is
empty or a complete version. -/
def DI (N0 : Nat) (cs : List Bytes) (w : World) : Prop :=
  ∀ g f, N0 ≤ g → g < w.nextFid → w.file g = some f → f.durable <+: f.data ∧ (f.durable = [] ∨ f.durable ∈ cs)

/-- One call keeps `DI` if, when it is an `fsync` of a file made since `N0`, what is visible of that file is empty or a
complete version. -/
theorem DI.step {N0 : Nat} {cs : List Bytes} {w : World} (h : DI N0 cs w) (c : Call) (r : Res)
    (hfs : ∀ fd, c = .fsync fd → ∀ g f, objFid (w.obj fd) = some g → N0 ≤ g → w.file g = some f → f.data = [] ∨ f.data ∈ cs) :
    DI N0 cs (stepWorld w c r) := by
  intro g f' h1 h2 hf'
  rw [stepWorld_nextFid, core_nextFid_creates] at h2
  rw [stepWorld_file] at hf'
  by_cases hlt : g < w.nextFid
  · by_cases hc : ∀ fd, c ≠ .fsync fd
    · rcases core_file_notFsync w c r g hlt hc with heq | ⟨f, s, hf, hf2⟩
      · rw [heq] at hf'; exact h g f' h1 hlt hf'
      · rw [hf2] at hf'
        cases hf'
        obtain ⟨hp, hd⟩ := h g f h1 hlt hf
        exact ⟨hp.trans (List.prefix_append _ _), hd⟩
    · have ⟨fd, hfd⟩ : ∃ fd, c = .fsync fd := by
        apply Classical.byContradiction
        intro hn
        exact hc fun fd he => hn ⟨fd, he⟩
      subst hfd
      rcases core_file_fsync w fd r g hlt with heq | ⟨f, hf, hf2, hobj⟩
      · rw [heq] at hf'; exact h g f' h1 hlt hf'
      · rw [hf2] at hf'
        cases hf'
        exact ⟨List.prefix_refl _, hfs fd rfl g f hobj h1 hf⟩
  · have hc : createsFile w c r = true := by
      cases hcf : createsFile w c r with
      | true => rfl
      | false => rw [hcf] at h2; simp at h2; omega
    rw [hc] at h2
    simp only [if_true] at h2
    have hg : g = w.nextFid := by omega
    rw [hg, core_file_created w c r hc] at hf'
    cases hf'
    exact ⟨List.prefix_refl _, .inl rfl⟩

/-- The call is not an `fsync`. -/
def NotFsync : Call → Prop
  | .fsync _ => False
  | _ => True

theorem DI.step_other {N0 : Nat} {cs : List Bytes} {w : World} (h : DI N0 cs w) (c : Call) (r : Res) (hc : NotFsync c) :
    DI N0 cs (stepWorld w c r) :=
  h.step c r (by intro fd he; subst he; exact hc.elim)

/-- A program without `fsync` keeps `DI`, under every fault plan. -/
theorem wp_DI {α} {N0 : Nat} {cs : List Bytes} {p : Prog α} (hc : Calls NotFsync p) {w : World} (h : DI N0 cs w) :
    wp (DI N0 cs) p (fun _ w' => DI N0 cs w') w := by
  induction p generalizing w with
  | ret a => exact h
  | call c k ih => intro ft; exact ⟨h.step_other c _ hc.1, ih _ (hc.2 _) (h.step_other c _ hc.1)⟩

/-! ## every crash state is safe -/

/-- For every prefix `i` of the calls issued since `w0`: the directories after those `i` calls have an entry bound to a
file - the message's own file `fid0`, or one made since `N0` - whose durable content NOW (in `w`) is a complete version. -/
def CrashSafe (w0 : World) (N0 fid0 : Nat) (cs : List Bytes) (w : World) : Prop :=
  ∀ i, i ≤ (traceSince w0 w).length →
    ∃ p n g f, (worldAt w0 (traceSince w0 w) i).lookup p n = some g ∧ (g = fid0 ∨ N0 ≤ g) ∧ g < w.nextFid ∧
      w.file g = some f ∧ f.durable ∈ cs

theorem CrashSafe.start {w0 : World} {N0 fid0 : Nat} {cs : List Bytes} (h : GoodN N0 fid0 w0 cs) : CrashSafe w0 N0 fid0 cs w0 := by
  intro i hi
  have hts : traceSince w0 w0 = [] := by unfold traceSince; simp
  rw [hts] at hi ⊢
  obtain ⟨p, n, g, ⟨h1, h2, f, h3, _, h5⟩, hA⟩ := h
  exact ⟨p, n, g, f, by simpa [worldAt, replay] using h1, hA, h2, h3, h5⟩

/-- One call: every crash state stays safe, given the invariants before and after the call. -/
theorem CrashSafe.step {w0 : World} {N0 fid0 : Nat} {cs : List Bytes} {orig : Bytes} {w : World} (hH : Hist w0 w)
    (hc : CrashSafe w0 N0 fid0 cs w) (c : Call) (r : Res)
    (hdi : DI N0 cs w) (hdi' : DI N0 cs (stepWorld w c r))
    (horig : (stepWorld w c r).file fid0 = some ⟨orig, orig⟩) (ho : orig ∈ cs) (hf0 : fid0 < w.nextFid)
    (hg' : GoodN N0 fid0 (stepWorld w c r) cs) : CrashSafe w0 N0 fid0 cs (stepWorld w c r) := by
  obtain ⟨tr, h1, h2⟩ := hH
  have hts : traceSince w0 w = tr := Hist.since h1
  have hts' : traceSince w0 (stepWorld w c r) = tr ++ [(c, r)] :=
    Hist.since (by rw [stepWorld_trace, h1, List.append_assoc])
  have hnf : w.nextFid ≤ (stepWorld w c r).nextFid := by rw [stepWorld_nextFid]; exact core_nextFid _ _ _
  intro i hi
  rw [hts'] at hi ⊢
  simp only [List.length_append, List.length_cons, List.length_nil] at hi
  by_cases hle : i ≤ tr.length
  · -- a prefix that existed before the call
    obtain ⟨p, n, g, f, hl, hA, hlt, hf, hd⟩ := hc i (by rw [hts]; exact hle)
    rw [hts] at hl
    have hwa : worldAt w0 (tr ++ [(c, r)]) i = worldAt w0 tr i := by
      unfold worldAt; rw [List.take_append_of_le_length hle]
    rw [hwa]
    rcases hA with rfl | hge
    · exact ⟨p, n, g, _, hl, .inl rfl, Nat.lt_of_lt_of_le hlt hnf, horig, ho⟩
    · -- a file this run made
      by_cases hcf : ∀ fd, c ≠ .fsync fd
      · rcases core_file_notFsync w c r g hlt hcf with heq | ⟨f1, s, hf1, hf2⟩
        · exact ⟨p, n, g, f, hl, .inr hge, Nat.lt_of_lt_of_le hlt hnf, by rw [stepWorld_file, heq]; exact hf, hd⟩
        · rw [hf] at hf1; cases hf1
          exact ⟨p, n, g, { f with data := f.data ++ s }, hl, .inr hge, Nat.lt_of_lt_of_le hlt hnf,
            by rw [stepWorld_file]; exact hf2, hd⟩
      · have ⟨fd, hfd⟩ : ∃ fd, c = .fsync fd := by
          apply Classical.byContradiction
          intro hn
          exact hcf fun fd he => hn ⟨fd, he⟩
        subst hfd
        rcases core_file_fsync w fd r g hlt with heq | ⟨f1, hf1, hf2, -⟩
        · exact ⟨p, n, g, f, hl, .inr hge, Nat.lt_of_lt_of_le hlt hnf, by rw [stepWorld_file, heq]; exact hf, hd⟩
        · rw [hf] at hf1; cases hf1
          refine ⟨p, n, g, { f with durable := f.data }, hl, .inr hge, Nat.lt_of_lt_of_le hlt hnf,
            by rw [stepWorld_file]; exact hf2, ?_⟩
          -- the new durable content is the visible one: a complete version, or empty - and then the old one was empty
          have h2' := (hdi' g _ hge (Nat.lt_of_lt_of_le hlt hnf) (by rw [stepWorld_file]; exact hf2)).2
          rcases h2' with he | hin
          · have hpre := (hdi g f hge hlt hf).1
            have hde : f.durable = [] := by
              have : f.data = [] := he
              rw [this] at hpre
              exact List.prefix_nil.1 hpre
            show f.data ∈ cs
            have : f.data = [] := he
            rw [this, ← hde]
            exact hd
          · exact hin
  · -- the world after the call itself
    have hi' : i = tr.length + 1 := by omega
    have hwa : worldAt w0 (tr ++ [(c, r)]) i = stepWorld w c r := by
      unfold worldAt
      rw [hi', List.take_of_length_le (by simp), replay_snoc, h2]
    rw [hwa]
    obtain ⟨p, n, g, ⟨a1, a2, f, a3, _, a5⟩, hA⟩ := hg'
    exact ⟨p, n, g, f, a1, hA, a2, a3, a5⟩

/-- From per-call invariants to crash states: if after every call of `p` the tracked entry, `DI` and "the message's own
file is untouched" hold, every crash state is safe after every call. -/
theorem wp_crash {α} {w0 : World} {N0 fid0 : Nat} {cs : List Bytes} {orig : Bytes} (ho : orig ∈ cs)
    {I : World → Prop} {p : Prog α} {Q : α → World → Prop} {w : World}
    (hI : ∀ w', I w' → DI N0 cs w' ∧ w'.file fid0 = some ⟨orig, orig⟩ ∧ GoodN N0 fid0 w' cs)
    (h : wp I p Q w) (hw : I w) (hH : Hist w0 w) (hf0 : fid0 < w.nextFid) (hc : CrashSafe w0 N0 fid0 cs w) :
    wp (fun w' => I w' ∧ Hist w0 w' ∧ CrashSafe w0 N0 fid0 cs w') p
      (fun a w' => Q a w' ∧ Hist w0 w' ∧ CrashSafe w0 N0 fid0 cs w') w := by
  induction p generalizing w with
  | ret a => exact ⟨h, hH, hc⟩
  | call c k ih =>
    intro ft
    have hstep := h ft
    have hI' := hI _ hstep.1
    have hc' := hc.step hH c _ (hI w hw).1 hI'.1 hI'.2.1 ho hf0 hI'.2.2
    have hf0' : fid0 < (stepWorld w c (faultResult ft w c)).nextFid := by
      rw [stepWorld_nextFid]; exact Nat.lt_of_lt_of_le hf0 (core_nextFid _ _ _)
    exact ⟨⟨hstep.1, hH.step c _, hc'⟩, ih _ hstep.2 hstep.1 (hH.step c _) hf0' hc'⟩

end Mdsort.Proofs.World
