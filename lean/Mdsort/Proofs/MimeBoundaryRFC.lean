import Mdsort.Proofs.Mime

/-! `parseboundary` against the RFC 2045 reading of the boundary parameter (C11, finding F30): on Content-Type values
whose FIRST parameter is a QUOTED `boundary` both readings give the quoted text. -/

namespace Mdsort.Proofs
open Mdsort Mdsort.Model

theorem dw_append {α} (p : α → Bool) (a b : List α) (ha : ∀ x ∈ a, p x = true)
    (hb : ∀ x, b.head? = some x → p x = false) : (a ++ b).dropWhile p = b := by
  induction a with
  | nil =>
    cases b with
    | nil => rfl
    | cons x r => simp [hb x rfl]
  | cons x a ih =>
    simp [ha x (by simp), ih (fun y hy => ha y (by simp [hy]))]

theorem letter_token (c : UInt8) (h : (97 ≤ Spec.lowerAscii c && Spec.lowerAscii c ≤ 122) = true) :
    Spec.tokenChar c = true := by
  have key : ∀ n, n < 256 → (97 ≤ Spec.lowerAscii (UInt8.ofNat n) && Spec.lowerAscii (UInt8.ofNat n) ≤ 122) = true →
      Spec.tokenChar (UInt8.ofNat n) = true := by decide +kernel
  have := key c.toNat c.toNat_lt (by simpa using h)
  simpa using this

/-- A word that equals a lower-case literal of letters up to case consists of token characters, has the literal's
length, and is not empty if the literal is not. -/
theorem tokenEq_letters (a lit : Bytes) (h : Spec.tokenEq a lit = true)
    (hl : ∀ d ∈ lit, (97 ≤ d && d ≤ 122) = true) :
    (∀ c ∈ a, Spec.tokenChar c = true) ∧ a.length = lit.length := by
  unfold Spec.tokenEq at h
  have he := beq_iff_eq.mp h
  refine ⟨fun c hc => letter_token c ?_, by simpa using congrArg List.length he⟩
  have : Spec.lowerAscii c ∈ lit.map Spec.lowerAscii := he ▸ List.mem_map_of_mem hc
  obtain ⟨d, hd, hd2⟩ := List.mem_map.1 this
  have hdl := hl d hd
  have : Spec.lowerAscii d = d := by
    unfold Spec.lowerAscii
    split
    · rename_i hu
      exfalso
      simp only [Bool.and_eq_true, decide_eq_true_eq] at hu hdl
      have h1 : d.toNat ≤ 90 := by simpa using UInt8.le_iff_toNat_le.mp hu.2
      have h2 : 97 ≤ d.toNat := by simpa using UInt8.le_iff_toNat_le.mp hdl.1
      omega
    · rfl
  rw [← hd2, this]; exact hdl

/-- The form of a Content-Type value `parseboundary` recognises: `multipart "/" subtype`, blanks, `;`, blanks,
`boundary="`, the boundary text `b` (no `"` inside), `"`, anything. -/
def FirstQuoted (ct b : Bytes) : Prop :=
  ∃ mp sub bl1 bl2 bname rest,
    ct = mp ++ 47 :: (sub ++ (bl1 ++ 59 :: (bl2 ++ (bname ++ 61 :: 34 :: (b ++ 34 :: rest))))) ∧
    Spec.tokenEq mp [109, 117, 108, 116, 105, 112, 97, 114, 116] = true ∧
    Spec.tokenEq bname [98, 111, 117, 110, 100, 97, 114, 121] = true ∧
    (∀ c ∈ sub, Spec.tokenChar c = true) ∧ (∀ c ∈ bl1, isblank c = true) ∧ (∀ c ∈ bl2, isblank c = true) ∧
    (34 : UInt8) ∉ b

theorem blank_not_token (c : UInt8) (h : isblank c = true) : Spec.tokenChar c = false := by
  unfold isblank at h
  simp only [Bool.or_eq_true, beq_iff_eq] at h
  rcases h with rfl | rfl <;> decide

theorem token_not_blank (c : UInt8) (h : Spec.tokenChar c = true) : isblank c = false := by
  cases hb : isblank c with
  | false => rfl
  | true => rw [blank_not_token c hb] at h; cases h

theorem token_ne (c : UInt8) (h : Spec.tokenChar c = true) (d : UInt8) (hd : Spec.tokenChar d = false) : c ≠ d := by
  intro e; rw [e, hd] at h; cases h

theorem rfc_of_firstQuoted (ct b : Bytes) (h : FirstQuoted ct b) :
    Spec.boundaryParamRFC ct = if b.isEmpty then .bad else .some b := by
  obtain ⟨mp, sub, bl1, bl2, bname, rest, rfl, hmp, hbn, hsub, hbl1, hbl2, hb⟩ := h
  obtain ⟨hmpt, hmpl⟩ := tokenEq_letters mp _ hmp (by decide)
  obtain ⟨hbnt, hbnl⟩ := tokenEq_letters bname _ hbn (by decide)
  unfold Spec.boundaryParamRFC
  have h1 : (mp ++ 47 :: (sub ++ (bl1 ++ 59 :: (bl2 ++ (bname ++ 61 :: 34 :: (b ++ 34 :: rest)))))).takeWhile Spec.tokenChar = mp :=
    tw_append _ _ _ hmpt (by intro x hx; cases hx; decide)
  simp only [h1, List.drop_left, hmp, Bool.not_true, Bool.false_eq_true, if_false]
  -- subtype
  have h2 : (sub ++ (bl1 ++ 59 :: (bl2 ++ (bname ++ 61 :: 34 :: (b ++ 34 :: rest))))).takeWhile Spec.tokenChar = sub := by
    apply tw_append _ _ _ hsub
    intro x hx
    cases bl1 with
    | nil => simp at hx; subst hx; decide
    | cons y r => simp at hx; subst hx; exact blank_not_token _ (hbl1 _ (by simp))
  rw [h2, List.drop_left]
  -- the fuel is positive
  generalize hlen : (mp ++ 47 :: (sub ++ (bl1 ++ 59 :: (bl2 ++ (bname ++ 61 :: 34 :: (b ++ 34 :: rest)))))).length = n
  cases n with
  | zero => simp at hlen
  | succ f =>
    unfold Spec.params
    have h3 : (bl1 ++ 59 :: (bl2 ++ (bname ++ 61 :: 34 :: (b ++ 34 :: rest)))).dropWhile isblank =
        59 :: (bl2 ++ (bname ++ 61 :: 34 :: (b ++ 34 :: rest))) :=
      dw_append _ _ _ hbl1 (by intro x hx; cases hx; decide)
    rw [h3]
    have hbn0 : ∀ x, (bname ++ 61 :: 34 :: (b ++ 34 :: rest)).head? = some x → isblank x = false := by
      intro x hx
      cases bname with
      | nil => simp at hbnl
      | cons y r => simp at hx; subst hx; exact token_not_blank _ (hbnt _ (by simp))
    have h4 : (bl2 ++ (bname ++ 61 :: 34 :: (b ++ 34 :: rest))).dropWhile isblank = bname ++ 61 :: 34 :: (b ++ 34 :: rest) :=
      dw_append _ _ _ hbl2 hbn0
    simp only [h4]
    unfold Spec.param1
    have h5 : (bname ++ 61 :: 34 :: (b ++ 34 :: rest)).takeWhile Spec.tokenChar = bname :=
      tw_append _ _ _ hbnt (by intro x hx; cases hx; decide)
    simp only [h5, List.drop_left]
    have h6 : (b ++ 34 :: rest).takeWhile (fun c => c != 34) = b :=
      tw_append _ _ _ (by intro x hx; have : x ≠ 34 := fun e => hb (e ▸ hx); simpa using this) (by intro x hx; cases hx; decide)
    simp only [h6, List.drop_left, List.find?_cons, hbn]

theorem tokenEq_append (a b c d : Bytes) (h1 : Spec.tokenEq a c = true) (h2 : Spec.tokenEq b d = true) :
    Spec.tokenEq (a ++ b) (c ++ d) = true := by
  unfold Spec.tokenEq at *
  simp only [beq_iff_eq] at *
  simp [h1, h2]

theorem token_no_semi (c : UInt8) (h : Spec.tokenChar c = true) : (c != 59) = true := by
  have : c ≠ 59 := token_ne c h 59 (by decide)
  simpa using this

theorem blank_no_semi (c : UInt8) (h : isblank c = true) : (c != 59) = true := by
  unfold isblank at h
  simp only [Bool.or_eq_true, beq_iff_eq] at h
  rcases h with rfl | rfl <;> decide

theorem mdsort_of_firstQuoted (ct b : Bytes) (h : FirstQuoted ct b) :
    Spec.boundaryParam ct = if b.isEmpty then .bad else .some b := by
  obtain ⟨mp, sub, bl1, bl2, bname, rest, rfl, hmp, hbn, hsub, hbl1, hbl2, hb⟩ := h
  obtain ⟨hmpt, hmpl⟩ := tokenEq_letters mp _ hmp (by decide)
  obtain ⟨hbnt, hbnl⟩ := tokenEq_letters bname _ hbn (by decide)
  have hmpl9 : mp.length = 9 := hmpl
  have hbnl8 : bname.length = 8 := hbnl
  unfold Spec.boundaryParam
  simp only [List.length_cons, List.length_nil, Nat.zero_add, Nat.reduceAdd]
  have e1 : mp ++ 47 :: (sub ++ (bl1 ++ 59 :: (bl2 ++ (bname ++ 61 :: 34 :: (b ++ 34 :: rest))))) =
      (mp ++ [47]) ++ (sub ++ (bl1 ++ 59 :: (bl2 ++ (bname ++ 61 :: 34 :: (b ++ 34 :: rest))))) := by simp
  have hl1 : (mp ++ [47]).length = 10 := by simp [hmpl9]
  rw [e1, ← hl1, List.take_left, List.drop_left, hl1]
  have t1 : Spec.tokenEq (mp ++ [47]) [109, 117, 108, 116, 105, 112, 97, 114, 116, 47] = true :=
    tokenEq_append mp [47] [109, 117, 108, 116, 105, 112, 97, 114, 116] [47] hmp (by decide)
  simp only [t1, Bool.not_true, Bool.false_eq_true, if_false]
  have e2 : sub ++ (bl1 ++ 59 :: (bl2 ++ (bname ++ 61 :: 34 :: (b ++ 34 :: rest)))) =
      (sub ++ bl1) ++ 59 :: (bl2 ++ (bname ++ 61 :: 34 :: (b ++ 34 :: rest))) := by simp
  have h2 : (sub ++ (bl1 ++ 59 :: (bl2 ++ (bname ++ 61 :: 34 :: (b ++ 34 :: rest))))).dropWhile (fun c => c != 59) =
      59 :: (bl2 ++ (bname ++ 61 :: 34 :: (b ++ 34 :: rest))) := by
    rw [e2]
    apply dw_append
    · intro x hx
      rcases List.mem_append.1 hx with hx | hx
      · exact token_no_semi x (hsub x hx)
      · exact blank_no_semi x (hbl1 x hx)
    · intro x hx; cases hx; decide
  rw [h2]
  simp only
  have hbn0 : ∀ x, (bname ++ 61 :: 34 :: (b ++ 34 :: rest)).head? = some x → isblank x = false := by
    intro x hx
    cases bname with
    | nil => simp at hbnl
    | cons y r => simp at hx; subst hx; exact token_not_blank _ (hbnt _ (by simp))
  rw [dw_append _ _ _ hbl2 hbn0]
  have e3 : bname ++ 61 :: 34 :: (b ++ 34 :: rest) = (bname ++ [61, 34]) ++ (b ++ 34 :: rest) := by simp
  have hl3 : (bname ++ [61, 34]).length = 10 := by simp [hbnl8]
  rw [e3, ← hl3, List.take_left, List.drop_left]
  have t2 : Spec.tokenEq (bname ++ [61, 34]) [98, 111, 117, 110, 100, 97, 114, 121, 61, 34] = true :=
    tokenEq_append bname [61, 34] [98, 111, 117, 110, 100, 97, 114, 121] [61, 34] hbn (by decide)
  simp only [t2, Bool.not_true, Bool.false_eq_true, if_false]
  have h6 : (b ++ 34 :: rest).takeWhile (fun c => c != 34) = b :=
    tw_append _ _ _ (by intro x hx; have : x ≠ 34 := fun e => hb (e ▸ hx); simpa using this) (by intro x hx; cases hx; decide)
  rw [h6]
  have : (b.length == (b ++ 34 :: rest).length) = false := by simp
  simp only [this, Bool.false_eq_true, if_false]

end Mdsort.Proofs
