import Mdsort.Proofs.ConfRT1

/-!
# Reading back what `Spec.printBlocks` writes, part 2: conditions
-/

namespace Mdsort.Proofs.Conf
open Mdsort Mdsort.Model Mdsort.Spec

variable {tl : Bytes} {NoE : Nat → ParseSt → Prop}

theorem treePOK_leaf (e : Expr) : treePOK (.leaf e) = leafPOK e := by simp [treePOK, nodes]
theorem treePOK_and (l : Nat) (a b : CTree) : treePOK (.and l a b) = (treePOK a && treePOK b) := by
  simp [treePOK, nodes, List.all_append]
theorem treePOK_or (l : Nat) (a b : CTree) : treePOK (.or l a b) = (treePOK a && treePOK b) := by
  simp [treePOK, nodes, List.all_append]
theorem treePOK_mtch (l : Nat) (a b : CTree) : treePOK (.mtch l a b) = (treePOK a && treePOK b) := by
  simp [treePOK, nodes, List.all_append]
theorem treePOK_neg (l : Nat) (a : CTree) : treePOK (.neg l a) = treePOK a := by simp [treePOK, nodes]
theorem treePOK_attachment (l : Nat) (a : CTree) : treePOK (.attachment l a) = treePOK a := by simp [treePOK, nodes]
theorem treePOK_attBlock (l : Nat) (a : CTree) : treePOK (.attBlock l a) = treePOK a := by simp [treePOK, nodes]
theorem treePOK_block (l : Nat) (a : CTree) : treePOK (.block l a) = treePOK a := by simp [treePOK, nodes]

theorem parseDate_rt (cx : PCtx) (hnl : cx.nl = countNl tl) (f : DateField) (c : DateCmp) (age : Nat) (hage : age < 2 ^ 32) :
    RT cx tl (parseDate cx) (.leaf (.date 1 f c age)) (fieldToks f ++ [cmpTok c, .int age, .seconds]) := by
  intro s ts hs
  unfold parseDate
  simp only [wpl_bind]
  -- the field
  have hfield : wpl (parseDateField cx) (fun a s' => a = f ∧ Up cx tl s' (cmpTok c :: .int age :: .seconds :: ts)) NoE True s := by
    unfold parseDateField
    simp only [wpl_bind]
    cases f
    · -- header: nothing is written, the comparison is the lookahead
      simp only [fieldToks, List.nil_append, List.cons_append] at hs
      apply wpl_peek_up cx _ _ hs (by cases c <;> rfl)
      intro s1 h1
      have hok := hs.ok _ (by simp : cmpTok c ∈ cmpTok c :: .int age :: .seconds :: ts)
      cases c <;> simp only [cmpTok, tkOf, wpl_pure] <;> exact ⟨by first | trivial | rfl, h1.up_some hok⟩
    all_goals
      simp only [fieldToks, List.cons_append, List.nil_append] at hs
      apply wpl_peek_up cx _ _ hs rfl
      intro s1 h1
      simp only [tkOf, wpl_bind, wpl_pure]
      exact wpl_shift_up h1 (fun s2 h2 => ⟨by first | trivial | rfl, h2⟩)
  refine wpl_mono hfield ?_ (fun _ _ h => h)
  rintro _ s1 ⟨rfl, h1⟩
  -- the comparison
  have hcmp : wpl (parseDateCmp cx) (fun a s' => a = c ∧ Up cx tl s' (.int age :: .seconds :: ts)) NoE True s1 := by
    unfold parseDateCmp
    simp only [wpl_bind]
    apply wpl_peek_up cx _ _ h1 (by cases c <;> rfl)
    intro s2 h2
    cases c <;> simp only [cmpTok, tkOf, wpl_bind, wpl_pure] <;>
      exact wpl_shift_up h2 (fun s3 h3 => ⟨by first | trivial | rfl, h3⟩)
  refine wpl_mono hcmp ?_ (fun _ _ h => h)
  rintro _ s2 ⟨rfl, h2⟩
  -- the number
  have hint : wpl (parseInt cx) (fun a s' => a = age ∧ Up cx tl s' (.seconds :: ts)) NoE True s2 := by
    unfold parseInt
    simp only [wpl_bind]
    apply wpl_peek_up cx _ _ h2 rfl
    intro s3 h3
    simp only [tkOf, wpl_bind, wpl_pure]
    exact wpl_shift_up h3 (fun s4 h4 => ⟨by first | trivial | rfl, h4⟩)
  refine wpl_mono hint ?_ (fun _ _ h => h)
  rintro _ s3 ⟨rfl, h3⟩
  -- the unit
  have hsc : wpl (parseScalar cx) (fun a s' => a = 1 ∧ Up cx tl s' ts) NoE True s3 := by
    unfold parseScalar
    simp only [wpl_bind]
    apply wpl_peek_up cx _ _ h3 rfl
    intro s4 h4
    simp only [tkOf, wpl_bind, wpl_pure]
    exact wpl_shift_up h4 (fun s5 h5 => ⟨by first | trivial | rfl, h5⟩)
  refine wpl_mono hsc ?_ (fun _ _ h => h)
  rintro _ s4 ⟨rfl, h4⟩
  simp only [Nat.mul_one, wpl_ite, wpl_bind, wpl_pure]
  rw [if_neg (by omega)]
  exact wpl_curLine_up cx hnl h4 ⟨by first | trivial | rfl, h4⟩

/-- A condition without sub-condition. -/
theorem unary_leaf_rt (cx : PCtx) (hnl : cx.nl = countNl tl) (e : Expr) (hc : isCondLeaf e = true) (hok : leafOK cx.rxOk e = true)
    (hp : leafPOK e = true) (fuel : Nat) :
    RT cx tl (parseUnary cx fuel) (.leaf (Expr.withLno 1 e)) (condLeafToks e) := by
  cases fuel with
  | zero => intro s ts _; simp [parseUnary, wpl, outOfFuel]
  | succ fuel =>
    intro s ts hs
    unfold parseUnary
    simp only [wpl_bind]
    cases e <;> simp only [isCondLeaf, Bool.false_eq_true] at hc
    case all l =>
      simp only [condLeafToks, List.cons_append, List.nil_append] at hs
      apply wpl_peek_up cx _ _ hs rfl
      intro s1 h1
      simp only [tkOf, parseCondKw, wpl_bind]
      apply wpl_shift_up h1
      intro s2 h2
      simp only [leafAt, wpl_bind, wpl_pure]
      exact wpl_curLine_up cx hnl h2 ⟨by first | trivial | rfl, h2⟩
    case new l =>
      simp only [condLeafToks, List.cons_append, List.nil_append] at hs
      apply wpl_peek_up cx _ _ hs rfl
      intro s1 h1
      simp only [tkOf, parseCondKw, wpl_bind]
      apply wpl_shift_up h1
      intro s2 h2
      simp only [leafAt, wpl_bind, wpl_pure]
      exact wpl_curLine_up cx hnl h2 ⟨by first | trivial | rfl, h2⟩
    case old l =>
      simp only [condLeafToks, List.cons_append, List.nil_append] at hs
      apply wpl_peek_up cx _ _ hs rfl
      intro s1 h1
      simp only [tkOf, parseCondKw, wpl_bind]
      apply wpl_shift_up h1
      intro s2 h2
      simp only [leafAt, wpl_bind, wpl_pure]
      exact wpl_curLine_up cx hnl h2 ⟨by first | trivial | rfl, h2⟩
    case body l p =>
      simp only [condLeafToks, List.cons_append, List.nil_append] at hs
      apply wpl_peek_up cx _ _ hs rfl
      intro s1 h1
      simp only [tkOf, parseCondKw, wpl_bind]
      apply wpl_shift_up h1
      intro s2 h2
      refine wpl_of_rt (parsePattern_rt cx p) h2 ?_
      intro s3 h3
      apply wpl_curLine_up cx hnl h3
      have hrx : cx.rxOk p = true := by simpa [leafOK] using hok
      simp only [checkPattern, hrx, if_true, wpl_bind, wpl_pure]
      exact ⟨by first | trivial | rfl, h3⟩
    case header l ns p =>
      simp only [condLeafToks, List.cons_append, List.nil_append, List.append_assoc] at hs
      apply wpl_peek_up cx _ _ hs rfl
      intro s1 h1
      simp only [tkOf, parseCondKw, wpl_bind]
      apply wpl_shift_up h1
      intro s2 h2
      refine wpl_of_rt (parseStrings_rt cx ns fuel) h2 ?_
      intro s3 h3
      refine wpl_of_rt (parsePattern_rt cx p) h3 ?_
      intro s4 h4
      apply wpl_curLine_up cx hnl h4
      have hrx : cx.rxOk p = true := by simpa [leafOK] using hok
      simp only [checkPattern, hrx, if_true, wpl_bind, wpl_pure]
      have hns : ∀ b ∈ ns, strOK b = true := by
        simp only [leafPOK, Bool.and_eq_true, List.all_eq_true] at hp; exact hp.1
      apply wpl_expandAll_up cx false ns hns h4
      exact ⟨by first | trivial | rfl, h4⟩
    case date l f c age =>
      have hage : age < 2 ^ 32 := by simpa [leafOK] using hok
      have hs' : Up cx tl s (.kw .date :: ((fieldToks f ++ [cmpTok c, .int age, .seconds]) ++ ts)) := by
        have : condLeafToks (.date l f c age) = .kw .date :: (fieldToks f ++ [cmpTok c, .int age, .seconds]) := by
          cases f <;> cases c <;> rfl
        rw [this] at hs; simpa using hs
      apply wpl_peek_up cx _ _ hs' rfl
      intro s1 h1
      simp only [tkOf, parseCondKw, wpl_bind]
      apply wpl_shift_up h1
      intro s2 h2
      exact wpl_of_rt (parseDate_rt cx hnl f c age hage) h2 (fun s3 h3 => ⟨by first | trivial | rfl, h3⟩)
    case stat l p =>
      simp only [condLeafToks, List.cons_append, List.nil_append] at hs
      apply wpl_peek_up cx _ _ hs rfl
      intro s1 h1
      simp only [tkOf, parseCondKw, wpl_bind]
      apply wpl_shift_up h1
      intro s2 h2
      refine wpl_of_rt (parseStr_rt cx p) h2 ?_
      intro s3 h3
      apply wpl_curLine_up cx hnl h3
      have hps : strOK p = true := by simpa [leafPOK] using hp
      apply wpl_expandOne_up cx false p hps h3
      simp only [wpl_pure]
      exact ⟨by first | trivial | rfl, h3⟩
    case command l a =>
      simp only [condLeafToks, List.cons_append, List.nil_append] at hs
      apply wpl_peek_up cx _ _ hs rfl
      intro s1 h1
      simp only [tkOf, parseCondKw, wpl_bind]
      apply wpl_shift_up h1
      intro s2 h2
      refine wpl_of_rt (parseStrings_rt cx a fuel) h2 ?_
      intro s3 h3
      apply wpl_curLine_up cx hnl h3
      have ha : ∀ b ∈ a, strOK b = true := by
        simp only [leafPOK, List.all_eq_true] at hp; exact hp
      apply wpl_expandAll_up cx false a ha h3
      simp only [wpl_pure]
      exact ⟨by first | trivial | rfl, h3⟩

/-- Tokens that end a chain of `and` / `or`. -/
def stopBin : PTok → Bool
  | .kw .and | .kw .or | .pat _ | .seconds => false
  | _ => true

theorem stopBin_mode (t : PTok) (h : stopBin t = true) : modeOK false false t = true := by
  cases t <;> simp_all [stopBin, modeOK]

theorem binTail_stop (cx : PCtx) (fuel : Nat) (lhs : CTree) (s : ParseSt) (t : PTok) (ts : List PTok)
    (hs : Up cx tl s (t :: ts)) (ht : stopBin t = true) :
    wpl (parseBinTail cx fuel lhs) (fun a s' => a = lhs ∧ Up cx tl s' (t :: ts)) NoErr True s := by
  cases fuel with
  | zero => simp [parseBinTail, wpl, outOfFuel]
  | succ fuel =>
    unfold parseBinTail
    simp only [wpl_bind]
    apply wpl_peek_up cx _ _ hs (stopBin_mode t ht)
    intro s1 h1
    have hok := hs.ok t (by simp)
    cases t <;> simp only [stopBin, Bool.false_eq_true] at ht <;> simp only [tkOf, wpl_pure] <;>
      first
      | exact ⟨by first | trivial | rfl, h1.up_some hok⟩
      | (rename_i k; cases k <;> simp only [stopBin, Bool.false_eq_true] at ht <;> simp only [wpl_pure] <;>
          exact ⟨by first | trivial | rfl, h1.up_some hok⟩)

/-- Every well-formed, writable condition is read back by `parseUnary` as one operand. -/
theorem cond_rt (cx : PCtx) (hnl : cx.nl = countNl tl) : ∀ (t : CTree), wfK cx.rxOk .cond t = true → treePOK t = true →
    ∀ fuel, RT cx tl (parseUnary cx fuel) (relabel t) (toks .cond t) := by
  intro t
  induction t with
  | leaf e =>
    intro hw hp fuel
    simp only [wfK, Bool.and_eq_true] at hw
    rw [treePOK_leaf] at hp
    exact unary_leaf_rt cx hnl e hw.1 hw.2 hp fuel
  | neg l e ih =>
    intro hw hp fuel
    simp only [wfK] at hw
    rw [treePOK_neg] at hp
    cases fuel with
    | zero => intro s ts _; simp [parseUnary, wpl, outOfFuel]
    | succ fuel =>
      intro s ts hs
      unfold parseUnary
      simp only [wpl_bind]
      simp only [toks, List.cons_append] at hs
      apply wpl_peek_up cx _ _ hs rfl
      intro s1 h1
      simp only [tkOf, wpl_bind]
      apply wpl_shift_up h1
      intro s2 h2
      refine wpl_of_rt (ih hw hp fuel) h2 ?_
      intro s3 h3
      apply wpl_curLine_up cx hnl h3
      simp only [wpl_pure]
      exact ⟨by first | trivial | rfl, h3⟩
  | attachment l e ih =>
    intro hw hp fuel
    simp only [wfK] at hw
    rw [treePOK_attachment] at hp
    cases fuel with
    | zero => intro s ts _; simp [parseUnary, wpl, outOfFuel]
    | succ fuel =>
      intro s ts hs
      unfold parseUnary
      simp only [wpl_bind]
      simp only [toks, List.cons_append] at hs
      apply wpl_peek_up cx _ _ hs rfl
      intro s1 h1
      simp only [tkOf, parseCondKw, wpl_bind]
      apply wpl_shift_up h1
      intro s2 h2
      refine wpl_of_rt (ih hw hp fuel) h2 ?_
      intro s3 h3
      apply wpl_curLine_up cx hnl h3
      simp only [wpl_pure]
      exact ⟨by first | trivial | rfl, h3⟩
  | and l a b iha ihb =>
    intro hw hp fuel
    simp only [wfK, Bool.and_eq_true] at hw
    rw [treePOK_and, Bool.and_eq_true] at hp
    cases fuel with
    | zero => intro s ts _; simp [parseUnary, wpl, outOfFuel]
    | succ fuel =>
      intro s ts hs
      unfold parseUnary
      simp only [wpl_bind]
      simp only [toks, List.cons_append, List.nil_append, List.append_assoc] at hs
      apply wpl_peek_up cx _ _ hs rfl
      intro s1 h1
      simp only [tkOf, wpl_bind]
      apply wpl_shift_up h1
      intro s2 h2
      refine wpl_of_rt (iha hw.1 hp.1 fuel) h2 ?_
      intro s3 h3
      -- the tail: `and b )`
      cases fuel with
      | zero => simp [parseBinTail, wpl, outOfFuel]
      | succ fuel =>
        unfold parseBinTail
        simp only [wpl_bind]
        apply wpl_peek_up cx _ _ h3 rfl
        intro s4 h4
        simp only [tkOf, wpl_bind]
        apply wpl_shift_up h4
        intro s5 h5
        refine wpl_of_rt (ihb hw.2 hp.2 fuel) h5 ?_
        intro s6 h6
        apply wpl_curLine_up cx hnl h6
        have hstop := binTail_stop (NoErr := NoE) cx fuel (.and 1 (relabel a) (relabel b)) s6 .rparen ts h6 rfl
        refine wpl_mono hstop ?_ (fun _ _ h => h)
        rintro _ s7 ⟨rfl, h7⟩
        refine wpl_of_rt (expectTk_rt cx .rparen rfl) h7 ?_
        intro s8 h8
        simp only [wpl_pure]
        exact ⟨by first | trivial | rfl, h8⟩
  | or l a b iha ihb =>
    intro hw hp fuel
    simp only [wfK, Bool.and_eq_true] at hw
    rw [treePOK_or, Bool.and_eq_true] at hp
    cases fuel with
    | zero => intro s ts _; simp [parseUnary, wpl, outOfFuel]
    | succ fuel =>
      intro s ts hs
      unfold parseUnary
      simp only [wpl_bind]
      simp only [toks, List.cons_append, List.nil_append, List.append_assoc] at hs
      apply wpl_peek_up cx _ _ hs rfl
      intro s1 h1
      simp only [tkOf, wpl_bind]
      apply wpl_shift_up h1
      intro s2 h2
      refine wpl_of_rt (iha hw.1 hp.1 fuel) h2 ?_
      intro s3 h3
      cases fuel with
      | zero => simp [parseBinTail, wpl, outOfFuel]
      | succ fuel =>
        unfold parseBinTail
        simp only [wpl_bind]
        apply wpl_peek_up cx _ _ h3 rfl
        intro s4 h4
        simp only [tkOf, wpl_bind]
        apply wpl_shift_up h4
        intro s5 h5
        refine wpl_of_rt (ihb hw.2 hp.2 fuel) h5 ?_
        intro s6 h6
        apply wpl_curLine_up cx hnl h6
        have hstop := binTail_stop (NoErr := NoE) cx fuel (.or 1 (relabel a) (relabel b)) s6 .rparen ts h6 rfl
        refine wpl_mono hstop ?_ (fun _ _ h => h)
        rintro _ s7 ⟨rfl, h7⟩
        refine wpl_of_rt (expectTk_rt cx .rparen rfl) h7 ?_
        intro s8 h8
        simp only [wpl_pure]
        exact ⟨by first | trivial | rfl, h8⟩
  | _ => intro hw; simp [wfK] at hw

end Mdsort.Proofs.Conf
