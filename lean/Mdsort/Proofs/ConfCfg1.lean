import Mdsort.Spec.Cfg

/-!
# Parse trees over the regenerated grammar: combinators, and the facts about the table

The theorems `p_*` and `t_*` below are the leaves of every proof about parse trees: "this production is
in the table bison printed for the parse.y of THIS run" and "this symbol is a terminal of it".  They
are closed by `decide` against `Gen.productions` (Gen/Grammar.lean, regenerated before every build);
removing or altering a production of parse.y breaks the one that names it.  The two `error`
productions (error recovery, not modelled) are the only ones without a fact.
-/

namespace Mdsort.Proofs.Cfg
open Mdsort Mdsort.Model Mdsort.Spec Mdsort.Spec.Cfg

theorem roots_ofList (l : List Tree) : (Forest.ofList l).roots = l.map Tree.root := by
  induction l with
  | nil => rfl
  | cons t r ih => simp [Forest.ofList, Forest.roots, ih]

theorem yield_ofList (l : List Tree) : (Forest.ofList l).yield = l.flatMap Tree.yield := by
  induction l with
  | nil => simp [Forest.ofList, Forest.yield]
  | cons t r ih => simp [Forest.ofList, Forest.yield, ih]

theorem ok_ofList (P : List Prod) (l : List Tree) : (Forest.ofList l).ok P = l.all (fun t => t.ok P) := by
  induction l with
  | nil => simp [Forest.ofList, Forest.ok]
  | cons t r ih => simp [Forest.ofList, Forest.ok, ih]

theorem N_root (x : Sym) (l : List Tree) : (N x l).root = x := rfl
theorem T_root (a : Sym) : (T a).root = a := rfl
theorem N_yield (x : Sym) (l : List Tree) : (N x l).yield = l.flatMap Tree.yield := by
  simp [N, Tree.yield, yield_ofList]
theorem T_yield (a : Sym) : (T a).yield = [a] := by simp [T, Tree.yield]
theorem N_ok (P : List Prod) (x : Sym) (l : List Tree) :
    (N x l).ok P = (P.contains (x, l.map Tree.root) && l.all (fun t => t.ok P)) := by
  simp [N, Tree.ok, roots_ofList, ok_ofList]
theorem T_ok (P : List Prod) (a : Sym) : (T a).ok P = isTerminal P a := by simp [T, Tree.ok]

/-- `t` is a checked tree with root `x` and yield `w`. -/
def Parses (P : List Prod) (x : Sym) (t : Tree) (w : List Sym) : Prop := t.ok P = true ∧ t.root = x ∧ t.yield = w

/-- The same for a list of trees: roots `xs`, concatenated yield `w`. -/
inductive ParsesL (P : List Prod) : List Sym → List Tree → List Sym → Prop
  | nil : ParsesL P [] [] []
  | cons {x : Sym} {t : Tree} {w : List Sym} {xs : List Sym} {ts : List Tree} {ws : List Sym} :
      Parses P x t w → ParsesL P xs ts ws → ParsesL P (x :: xs) (t :: ts) (w ++ ws)

theorem ParsesL.facts {P : List Prod} {xs : List Sym} {ts : List Tree} {w : List Sym} (h : ParsesL P xs ts w) :
    ts.map Tree.root = xs ∧ ts.all (fun t => t.ok P) = true ∧ ts.flatMap Tree.yield = w := by
  induction h with
  | nil => simp
  | cons h1 _ ih =>
    obtain ⟨a, b, c⟩ := h1
    obtain ⟨a', b', c'⟩ := ih
    simp [a, b, c, a', b', c']

/-- A node: an instance of a production over checked children. -/
theorem Parses.node {P : List Prod} {x : Sym} {xs : List Sym} {ts : List Tree} {w : List Sym}
    (hp : P.contains (x, xs) = true) (h : ParsesL P xs ts w) : Parses P x (N x ts) w := by
  obtain ⟨a, b, c⟩ := h.facts
  refine ⟨?_, rfl, ?_⟩
  · rw [N_ok, a, hp, b]; rfl
  · rw [N_yield, c]

/-- A leaf: a terminal. -/
theorem Parses.leaf {P : List Prod} {a : Sym} (h : isTerminal P a = true) : Parses P a (T a) [a] :=
  ⟨by rw [T_ok, h], rfl, T_yield a⟩

theorem Parses.derives {P : List Prod} {x : Sym} {t : Tree} {w : List Sym} (h : Parses P x t w) : Derives P x w :=
  ⟨t, h⟩

theorem _root_.Mdsort.Spec.Cfg.Derives.parses {P : List Prod} {x : Sym} {w : List Sym} (h : Derives P x w) : ∃ t, Parses P x t w := h

/-- Change of the stated yield along an equation. -/
theorem Parses.cast {P : List Prod} {x : Sym} {t : Tree} {w w' : List Sym} (h : Parses P x t w) (e : w = w') :
    Parses P x t w' := e ▸ h

/-! ### The same without naming the trees -/

/-- A list of symbols derives the concatenation of what each derives. -/
inductive DerivesL (P : List Prod) : List Sym → List Sym → Prop
  | nil : DerivesL P [] []
  | cons {x : Sym} {w : List Sym} {xs : List Sym} {ws : List Sym} :
      Derives P x w → DerivesL P xs ws → DerivesL P (x :: xs) (w ++ ws)

theorem DerivesL.trees {P : List Prod} {xs : List Sym} {w : List Sym} (h : DerivesL P xs w) : ∃ ts, ParsesL P xs ts w := by
  induction h with
  | nil => exact ⟨[], .nil⟩
  | cons h1 _ ih =>
    obtain ⟨t, ht⟩ := h1
    obtain ⟨ts, hts⟩ := ih
    exact ⟨t :: ts, .cons ht hts⟩

theorem _root_.Mdsort.Spec.Cfg.Derives.node {P : List Prod} {x : Sym} {xs : List Sym} {w : List Sym}
    (hp : P.contains (x, xs) = true) (h : DerivesL P xs w) : Derives P x w := by
  obtain ⟨ts, hts⟩ := h.trees
  exact (Parses.node hp hts).derives

theorem _root_.Mdsort.Spec.Cfg.Derives.leaf {P : List Prod} {a : Sym} (h : isTerminal P a = true) : Derives P a [a] := (Parses.leaf h).derives

theorem _root_.Mdsort.Spec.Cfg.Derives.cast {P : List Prod} {x : Sym} {w w' : List Sym} (h : Derives P x w) (e : w = w') : Derives P x w' := e ▸ h

/-! ## The productions the proofs use -/

theorem p_grammar_empty : Gen.productions.contains ("grammar", []) = true := by decide
theorem p_grammar_grammar_macro : Gen.productions.contains ("grammar", ["grammar", "macro"]) = true := by decide
theorem p_grammar_grammar_maildir : Gen.productions.contains ("grammar", ["grammar", "maildir"]) = true := by decide
theorem p_macro_macro_eq_string : Gen.productions.contains ("macro", ["MACRO", "'='", "STRING"]) = true := by decide
theorem p_maildir_maildir_paths_exprblock : Gen.productions.contains ("maildir", ["maildir_paths", "exprblock"]) = true := by decide
theorem p_maildir_paths_maildir_strings : Gen.productions.contains ("maildir_paths", ["MAILDIR", "strings"]) = true := by decide
theorem p_maildir_paths_stdin : Gen.productions.contains ("maildir_paths", ["STDIN"]) = true := by decide
theorem p_exprblock_lbrace_exprs_rbrace : Gen.productions.contains ("exprblock", ["'{'", "exprs", "'}'"]) = true := by decide
theorem p_exprs_empty : Gen.productions.contains ("exprs", []) = true := by decide
theorem p_exprs_exprs_expr : Gen.productions.contains ("exprs", ["exprs", "expr"]) = true := by decide
theorem p_expr_match_expr1_expr2 : Gen.productions.contains ("expr", ["MATCH", "expr1", "expr2"]) = true := by decide
theorem p_expr1_expr1_and_expr1 : Gen.productions.contains ("expr1", ["expr1", "AND", "expr1"]) = true := by decide
theorem p_expr1_expr1_or_expr1 : Gen.productions.contains ("expr1", ["expr1", "OR", "expr1"]) = true := by decide
theorem p_expr1_attachment_expr1 : Gen.productions.contains ("expr1", ["ATTACHMENT", "expr1"]) = true := by decide
theorem p_expr1_neg_expr1 : Gen.productions.contains ("expr1", ["NEG", "expr1"]) = true := by decide
theorem p_expr1_expr3 : Gen.productions.contains ("expr1", ["expr3"]) = true := by decide
theorem p_expr2_expractions : Gen.productions.contains ("expr2", ["expractions"]) = true := by decide
theorem p_expr2_exprblock : Gen.productions.contains ("expr2", ["exprblock"]) = true := by decide
theorem p_expr3_body_pattern : Gen.productions.contains ("expr3", ["BODY", "pattern"]) = true := by decide
theorem p_expr3_header_strings_pattern : Gen.productions.contains ("expr3", ["HEADER", "strings", "pattern"]) = true := by decide
theorem p_expr3_date_date_field_date_cmp_date_age : Gen.productions.contains ("expr3", ["DATE", "date_field", "date_cmp", "date_age"]) = true := by decide
theorem p_expr3_new : Gen.productions.contains ("expr3", ["NEW"]) = true := by decide
theorem p_expr3_old : Gen.productions.contains ("expr3", ["OLD"]) = true := by decide
theorem p_expr3_all : Gen.productions.contains ("expr3", ["ALL"]) = true := by decide
theorem p_expr3_isdirectory_string : Gen.productions.contains ("expr3", ["ISDIRECTORY", "STRING"]) = true := by decide
theorem p_expr3_command_strings : Gen.productions.contains ("expr3", ["COMMAND", "strings"]) = true := by decide
theorem p_expr3_lparen_expr1_rparen : Gen.productions.contains ("expr3", ["'('", "expr1", "')'"]) = true := by decide
theorem p_expractions_empty : Gen.productions.contains ("expractions", []) = true := by decide
theorem p_expractions_expractions_expraction : Gen.productions.contains ("expractions", ["expractions", "expraction"]) = true := by decide
theorem p_expraction_break : Gen.productions.contains ("expraction", ["BREAK"]) = true := by decide
theorem p_expraction_move_string : Gen.productions.contains ("expraction", ["MOVE", "STRING"]) = true := by decide
theorem p_expraction_flag_flag : Gen.productions.contains ("expraction", ["FLAG", "flag"]) = true := by decide
theorem p_expraction_flags_string : Gen.productions.contains ("expraction", ["FLAGS", "STRING"]) = true := by decide
theorem p_expraction_discard : Gen.productions.contains ("expraction", ["DISCARD"]) = true := by decide
theorem p_expraction_label_strings : Gen.productions.contains ("expraction", ["LABEL", "strings"]) = true := by decide
theorem p_expraction_pass : Gen.productions.contains ("expraction", ["PASS"]) = true := by decide
theorem p_expraction_reject : Gen.productions.contains ("expraction", ["REJECT"]) = true := by decide
theorem p_expraction_exec_exec_flags_strings : Gen.productions.contains ("expraction", ["EXEC", "exec_flags", "strings"]) = true := by decide
theorem p_expraction_attachment_exprblock : Gen.productions.contains ("expraction", ["ATTACHMENT", "exprblock"]) = true := by decide
theorem p_expraction_addheader_string_string : Gen.productions.contains ("expraction", ["ADDHEADER", "STRING", "STRING"]) = true := by decide
theorem p_strings_lbrace_stringblock_rbrace : Gen.productions.contains ("strings", ["'{'", "stringblock", "'}'"]) = true := by decide
theorem p_strings_string : Gen.productions.contains ("strings", ["STRING"]) = true := by decide
theorem p_stringblock_empty : Gen.productions.contains ("stringblock", []) = true := by decide
theorem p_stringblock_stringblock_string : Gen.productions.contains ("stringblock", ["stringblock", "STRING"]) = true := by decide
theorem p_flag_optneg_new : Gen.productions.contains ("flag", ["optneg", "NEW"]) = true := by decide
theorem p_date_field_empty : Gen.productions.contains ("date_field", []) = true := by decide
theorem p_date_field_header : Gen.productions.contains ("date_field", ["HEADER"]) = true := by decide
theorem p_date_field_access : Gen.productions.contains ("date_field", ["ACCESS"]) = true := by decide
theorem p_date_field_modified : Gen.productions.contains ("date_field", ["MODIFIED"]) = true := by decide
theorem p_date_field_created : Gen.productions.contains ("date_field", ["CREATED"]) = true := by decide
theorem p_date_cmp_lt : Gen.productions.contains ("date_cmp", ["'<'"]) = true := by decide
theorem p_date_cmp_gt : Gen.productions.contains ("date_cmp", ["'>'"]) = true := by decide
theorem p_date_age_int_scalar : Gen.productions.contains ("date_age", ["INT", "scalar"]) = true := by decide
theorem p_mid1_empty : Gen.productions.contains ("$@1", []) = true := by decide
theorem p_scalar_mid1_scalar : Gen.productions.contains ("scalar", ["$@1", "SCALAR"]) = true := by decide
theorem p_exec_flags_empty : Gen.productions.contains ("exec_flags", []) = true := by decide
theorem p_exec_flags_exec_flags_exec_flag : Gen.productions.contains ("exec_flags", ["exec_flags", "exec_flag"]) = true := by decide
theorem p_exec_flag_stdin : Gen.productions.contains ("exec_flag", ["STDIN"]) = true := by decide
theorem p_exec_flag_body : Gen.productions.contains ("exec_flag", ["BODY"]) = true := by decide
theorem p_mid2_empty : Gen.productions.contains ("$@2", []) = true := by decide
theorem p_pattern_mid2_pattern : Gen.productions.contains ("pattern", ["$@2", "PATTERN"]) = true := by decide
theorem p_optneg_empty : Gen.productions.contains ("optneg", []) = true := by decide
theorem p_optneg_neg : Gen.productions.contains ("optneg", ["NEG"]) = true := by decide

theorem t_lparen : isTerminal Gen.productions "'('" = true := by decide
theorem t_rparen : isTerminal Gen.productions "')'" = true := by decide
theorem t_lt : isTerminal Gen.productions "'<'" = true := by decide
theorem t_eq : isTerminal Gen.productions "'='" = true := by decide
theorem t_gt : isTerminal Gen.productions "'>'" = true := by decide
theorem t_lbrace : isTerminal Gen.productions "'{'" = true := by decide
theorem t_rbrace : isTerminal Gen.productions "'}'" = true := by decide
theorem t_access : isTerminal Gen.productions "ACCESS" = true := by decide
theorem t_addheader : isTerminal Gen.productions "ADDHEADER" = true := by decide
theorem t_all : isTerminal Gen.productions "ALL" = true := by decide
theorem t_attachment : isTerminal Gen.productions "ATTACHMENT" = true := by decide
theorem t_body : isTerminal Gen.productions "BODY" = true := by decide
theorem t_break : isTerminal Gen.productions "BREAK" = true := by decide
theorem t_command : isTerminal Gen.productions "COMMAND" = true := by decide
theorem t_created : isTerminal Gen.productions "CREATED" = true := by decide
theorem t_date : isTerminal Gen.productions "DATE" = true := by decide
theorem t_discard : isTerminal Gen.productions "DISCARD" = true := by decide
theorem t_exec : isTerminal Gen.productions "EXEC" = true := by decide
theorem t_flag : isTerminal Gen.productions "FLAG" = true := by decide
theorem t_flags : isTerminal Gen.productions "FLAGS" = true := by decide
theorem t_header : isTerminal Gen.productions "HEADER" = true := by decide
theorem t_isdirectory : isTerminal Gen.productions "ISDIRECTORY" = true := by decide
theorem t_label : isTerminal Gen.productions "LABEL" = true := by decide
theorem t_maildir : isTerminal Gen.productions "MAILDIR" = true := by decide
theorem t_match : isTerminal Gen.productions "MATCH" = true := by decide
theorem t_modified : isTerminal Gen.productions "MODIFIED" = true := by decide
theorem t_move : isTerminal Gen.productions "MOVE" = true := by decide
theorem t_new : isTerminal Gen.productions "NEW" = true := by decide
theorem t_old : isTerminal Gen.productions "OLD" = true := by decide
theorem t_pass : isTerminal Gen.productions "PASS" = true := by decide
theorem t_reject : isTerminal Gen.productions "REJECT" = true := by decide
theorem t_stdin : isTerminal Gen.productions "STDIN" = true := by decide
theorem t_int : isTerminal Gen.productions "INT" = true := by decide
theorem t_scalar : isTerminal Gen.productions "SCALAR" = true := by decide
theorem t_pattern : isTerminal Gen.productions "PATTERN" = true := by decide
theorem t_macro : isTerminal Gen.productions "MACRO" = true := by decide
theorem t_string : isTerminal Gen.productions "STRING" = true := by decide
theorem t_and : isTerminal Gen.productions "AND" = true := by decide
theorem t_or : isTerminal Gen.productions "OR" = true := by decide
theorem t_neg : isTerminal Gen.productions "NEG" = true := by decide

/-- The productions named above: what the parse-tree proofs use, i.e. what the printer writes and the parser
model implements. -/
def usedProductions : List Prod := [
  ("grammar", []),
  ("grammar", ["grammar", "macro"]),
  ("grammar", ["grammar", "maildir"]),
  ("macro", ["MACRO", "'='", "STRING"]),
  ("maildir", ["maildir_paths", "exprblock"]),
  ("maildir_paths", ["MAILDIR", "strings"]),
  ("maildir_paths", ["STDIN"]),
  ("exprblock", ["'{'", "exprs", "'}'"]),
  ("exprs", []),
  ("exprs", ["exprs", "expr"]),
  ("expr", ["MATCH", "expr1", "expr2"]),
  ("expr1", ["expr1", "AND", "expr1"]),
  ("expr1", ["expr1", "OR", "expr1"]),
  ("expr1", ["ATTACHMENT", "expr1"]),
  ("expr1", ["NEG", "expr1"]),
  ("expr1", ["expr3"]),
  ("expr2", ["expractions"]),
  ("expr2", ["exprblock"]),
  ("expr3", ["BODY", "pattern"]),
  ("expr3", ["HEADER", "strings", "pattern"]),
  ("expr3", ["DATE", "date_field", "date_cmp", "date_age"]),
  ("expr3", ["NEW"]),
  ("expr3", ["OLD"]),
  ("expr3", ["ALL"]),
  ("expr3", ["ISDIRECTORY", "STRING"]),
  ("expr3", ["COMMAND", "strings"]),
  ("expr3", ["'('", "expr1", "')'"]),
  ("expractions", []),
  ("expractions", ["expractions", "expraction"]),
  ("expraction", ["BREAK"]),
  ("expraction", ["MOVE", "STRING"]),
  ("expraction", ["FLAG", "flag"]),
  ("expraction", ["FLAGS", "STRING"]),
  ("expraction", ["DISCARD"]),
  ("expraction", ["LABEL", "strings"]),
  ("expraction", ["PASS"]),
  ("expraction", ["REJECT"]),
  ("expraction", ["EXEC", "exec_flags", "strings"]),
  ("expraction", ["ATTACHMENT", "exprblock"]),
  ("expraction", ["ADDHEADER", "STRING", "STRING"]),
  ("strings", ["'{'", "stringblock", "'}'"]),
  ("strings", ["STRING"]),
  ("stringblock", []),
  ("stringblock", ["stringblock", "STRING"]),
  ("flag", ["optneg", "NEW"]),
  ("date_field", []),
  ("date_field", ["HEADER"]),
  ("date_field", ["ACCESS"]),
  ("date_field", ["MODIFIED"]),
  ("date_field", ["CREATED"]),
  ("date_cmp", ["'<'"]),
  ("date_cmp", ["'>'"]),
  ("date_age", ["INT", "scalar"]),
  ("$@1", []),
  ("scalar", ["$@1", "SCALAR"]),
  ("exec_flags", []),
  ("exec_flags", ["exec_flags", "exec_flag"]),
  ("exec_flag", ["STDIN"]),
  ("exec_flag", ["BODY"]),
  ("$@2", []),
  ("pattern", ["$@2", "PATTERN"]),
  ("optneg", []),
  ("optneg", ["NEG"])
]

/-- The table has nothing else but the `error` productions, and no production is named that it does not have. -/
theorem table_is_covered :
    Gen.productions.all (fun p => usedProductions.contains p || Gen.errorProductions.contains p) = true ∧
    usedProductions.all (fun p => Gen.productions.contains p) = true ∧
    Gen.errorProductions.all (fun p => p.2.contains "error" && Gen.productions.contains p && !usedProductions.contains p) = true := by
  decide

/-- The start symbol. -/
theorem start_symbol : Gen.grammarStart = "grammar" := by decide

end Mdsort.Proofs.Cfg
