import Mdsort.Proofs.ConfCfg2
import Mdsort.Proofs.MainTextLexTree

/-!
# What the parser model accepts is derived by the grammar, part 1: the monad and the small parsers

`Rem s ks`: from parser state `s`, the kinds of the tokens still to come are `ks` - the lookahead token
if one is held, then what the lexer model delivers up to the end of the text (`Lexes`).
`Back s0 s w`: whatever remains from `s`, `w` followed by it remains from `s0` - i.e. between `s0` and
`s` the parser consumed tokens of the kinds `w`.  `Uses p G`: when `p` returns, it consumed a `w` with
`G w` (for instance `Derives GP "strings" w`).
-/

set_option linter.unusedSimpArgs false

namespace Mdsort.Proofs.Cfg
open Mdsort Mdsort.Model Mdsort.Spec Mdsort.Spec.Cfg Mdsort.Proofs.Conf Mdsort.Proofs.MainText

/-! ## The lexer returns a PATTERN only in pattern mode and a SCALAR only in unit mode -/

def modeFit (pf sf : Bool) : Token → Bool
  | .pattern .. => pf
  | .scalar _ => sf
  | _ => true

theorem lexTok_modeFit (pf sf : Bool) (c : UInt8) (r : Bytes) (e0 : Nat) :
    modeFit pf sf (lex1.lexTok pf sf c r e0).tok = true := by
  unfold lex1.lexTok
  split
  · split <;> rfl
  · split
    · rename_i hp
      split
      · rfl
      · rfl
      · rename_i lexeme rest _
        generalize patFlags (rest.length + 1) rest false false false 0 = res
        obtain ⟨⟨i, l, u⟩, rest2, e⟩ := res
        exact hp
    · split
      · generalize lexDigits (r.length + 2) (c :: r) 0 false 0 = res
        obtain ⟨n, rest, e⟩ := res
        rfl
      · split
        · simp only
          split
          · rfl
          · split
            · rfl
            · split
              · rename_i hs
                split
                · rfl
                · exact hs
                · exact hs
              · rfl
        · split <;> rfl

theorem lex1Aux_modeFit (pf sf am : Bool) : ∀ (fuel : Nat) (input : Bytes),
    modeFit pf sf (lex1.lex1Aux pf sf am input fuel).tok = true := by
  intro fuel
  induction fuel with
  | zero => intro input; rfl
  | succ fuel ih =>
    intro input
    unfold lex1.lex1Aux
    simp only
    split
    · rfl
    · split
      · rfl
      · split
        · split
          · rfl
          · exact ih _
        · exact lexTok_modeFit _ _ _ _ _

theorem lex1_modeFit (pf sf am : Bool) (input : Bytes) : modeFit pf sf (lex1 pf sf am input).tok = true := by
  unfold lex1
  simp only
  split
  · rfl
  · split
    · rfl
    · split
      · split
        · rfl
        · exact lex1Aux_modeFit _ _ _ _ _
      · exact lexTok_modeFit _ _ _ _ _

/-! ## What remains to be read -/

def Rem (s : ParseSt) (ts : List Sym) : Prop :=
  match s.la with
  | none => Lexes s.afterMacro s.rest ts
  | some t => (t = .eof ∧ ts = []) ∨
      (t ≠ .eof ∧ isOther t = false ∧ ∃ ks, ts = tkKind t :: ks ∧ Lexes s.afterMacro s.rest ks)

def Back (s0 s : ParseSt) (w : List Sym) : Prop := ∀ ts, Rem s ts → Rem s0 (w ++ ts)

theorem Back.refl (s : ParseSt) : Back s s [] := fun _ h => h

theorem Back.trans {s0 s1 s2 : ParseSt} {w1 w2 : List Sym} (h1 : Back s0 s1 w1) (h2 : Back s1 s2 w2) :
    Back s0 s2 (w1 ++ w2) := by
  intro ts h
  rw [List.append_assoc]
  exact h1 _ (h2 _ h)

theorem Back.cast {s0 s : ParseSt} {w w' : List Sym} (h : Back s0 s w) (e : w = w') : Back s0 s w' := e ▸ h

/-- The macro table does not matter. -/
theorem Back.macros {s0 s : ParseSt} {w : List Sym} (h : Back s0 s w) (ms : List Macro) : Back s0 { s with macros := ms } w :=
  fun ts hr => h ts hr

theorem tkKind_mode (t : Tk) : ((tkKind t == "PATTERN") = match t with | .pat _ => true | _ => false) ∧
    ((tkKind t == "SCALAR") = match t with | .scalar _ => true | _ => false) := by
  cases t with
  | kw k => exact ⟨(kwSym_not_mode k).1, (kwSym_not_mode k).2⟩
  | _ => simp [tkKind]

theorem isMacroTok_eq (tok : Token) : (match tok with | .macro _ => true | _ => false) = isMacroTok tok := by
  cases tok <;> rfl

/-- Un-reading the lookahead: the state before the lexer call that produced it. -/
theorem back_unpeek (cx : PCtx) (pf sf : Bool) (s : ParseSt) (hla : s.la = none)
    (herr : (lex1 pf sf s.afterMacro s.rest).errors = 0)
    (hmode : isOther (Tk.ofToken (lex1 pf sf s.afterMacro s.rest).tok) = false →
      (lex1 pf sf s.afterMacro s.rest).tok ≠ .eof →
      pf = (tkKind (Tk.ofToken (lex1 pf sf s.afterMacro s.rest).tok) == "PATTERN") ∧
      sf = (tkKind (Tk.ofToken (lex1 pf sf s.afterMacro s.rest).tok) == "SCALAR"))
    (heof : (lex1 pf sf s.afterMacro s.rest).tok = .eof → pf = false ∧ sf = false) :
    Back s { s with rest := (lex1 pf sf s.afterMacro s.rest).rest, la := some (Tk.ofToken (lex1 pf sf s.afterMacro s.rest).tok),
                    tokLine := tokLineOf cx.nl s.rest,
                    afterMacro := (match (lex1 pf sf s.afterMacro s.rest).tok with | .macro _ => true | _ => false),
                    nlex := s.nlex + 1 } [] := by
  intro ts hrem
  simp only [Rem] at hrem
  show Rem s ([] ++ ts)
  simp only [List.nil_append, Rem, hla]
  rcases hrem with ⟨he, hts⟩ | ⟨hne, hno, ks, hts, hlex⟩
  · have htok := (ofToken_eof _).1 he
    obtain ⟨rfl, rfl⟩ := heof htok
    subst hts
    exact Lexes.done _ _ htok herr
  · have htok : (lex1 pf sf s.afterMacro s.rest).tok ≠ .eof := fun h => hne ((ofToken_eof _).2 h)
    obtain ⟨h1, h2⟩ := hmode hno htok
    have hk := kind_ofToken _ hno
    rw [isMacroTok_eq] at hlex
    have := Lexes.tok s.afterMacro pf sf s.rest ks herr htok (by rw [hk]; exact h1) (by rw [hk]; exact h2) hlex
    rw [hk] at this
    rw [hts]
    exact this

/-! ## The primitives of the monad -/

variable {α : Type} {Q : α → ParseSt → Prop} {s s0 : ParseSt} {w0 : List Sym}

theorem ofToken_pat {tok : Token} {p : Pat} (h : Tk.ofToken tok = .pat p) : ∃ a b c d, tok = .pattern a b c d := by
  cases tok with
  | pattern a b c d => exact ⟨a, b, c, d, rfl⟩
  | keyword k => simp only [Tk.ofToken] at h; cases hk : Kw.ofName k <;> rw [hk] at h <;> cases h
  | char c => simp only [Tk.ofToken] at h; repeat' split at h
              all_goals cases h
  | _ => cases h

theorem ofToken_scalar {tok : Token} {v : Option Nat} (h : Tk.ofToken tok = .scalar v) : tok = .scalar v := by
  cases tok with
  | scalar v' => simp only [Tk.ofToken, Tk.scalar.injEq] at h; rw [h]
  | keyword k => simp only [Tk.ofToken] at h; cases hk : Kw.ofName k <;> rw [hk] at h <;> cases h
  | char c => simp only [Tk.ofToken] at h; repeat' split at h
              all_goals cases h
  | _ => cases h

/-- A token read in the plain mode is neither PATTERN nor SCALAR. -/
theorem plain_mode (am : Bool) (rest : Bytes) :
    (tkKind (Tk.ofToken (lex1 false false am rest).tok) == "PATTERN") = false ∧
    (tkKind (Tk.ofToken (lex1 false false am rest).tok) == "SCALAR") = false := by
  have hf := lex1_modeFit false false am rest
  obtain ⟨h1, h2⟩ := tkKind_mode (Tk.ofToken (lex1 false false am rest).tok)
  rw [h1, h2]
  generalize (lex1 false false am rest).tok = tok at hf
  constructor
  · cases ht : Tk.ofToken tok with
    | pat p => obtain ⟨a, b, c, d, rfl⟩ := ofToken_pat ht; cases hf
    | _ => rfl
  · cases ht : Tk.ofToken tok with
    | scalar v => rw [ofToken_scalar ht] at hf; cases hf
    | _ => rfl

/-- `peek` in the plain mode: nothing is consumed. -/
theorem wpg_peek (cx : PCtx) {Q : Tk → ParseSt → Prop} (hb : Back s0 s w0)
    (hQ : ∀ t s', s'.la = some t → Back s0 s' w0 → Q t s') : wp (peek cx false false) Q AnyErr True s := by
  unfold wp peek
  cases hla : s.la with
  | some t => simp only; exact hQ t s hla hb
  | none =>
    simp only
    by_cases herr : (lex1 false false s.afterMacro s.rest).errors > 0
    · rw [if_pos herr]; trivial
    · rw [if_neg herr]
      refine hQ _ _ rfl ?_
      have := back_unpeek cx false false s hla (by omega)
        (fun _ _ => ⟨(plain_mode _ _).1.symm, (plain_mode _ _).2.symm⟩) (fun _ => ⟨rfl, rfl⟩)
      exact (hb.trans this).cast (by simp)

/-- `peek` in pattern mode: nothing is consumed if a PATTERN comes back. -/
theorem wpg_peekP (cx : PCtx) {Q : Tk → ParseSt → Prop} (hb : Back s0 s w0)
    (hQ : ∀ t s', s'.la = some t → (∀ p, t = .pat p → Back s0 s' w0) → Q t s') : wp (peek cx true false) Q AnyErr True s := by
  unfold wp peek
  cases hla : s.la with
  | some t => simp only; exact hQ t s hla (fun _ _ => hb)
  | none =>
    simp only
    by_cases herr : (lex1 true false s.afterMacro s.rest).errors > 0
    · rw [if_pos herr]; trivial
    · rw [if_neg herr]
      refine hQ _ _ rfl ?_
      intro p hp
      have := back_unpeek cx true false s hla (by omega)
        (fun _ _ => by rw [hp]; exact ⟨by simp [tkKind], by simp [tkKind]⟩)
        (fun he => by rw [he] at hp; cases hp)
      exact (hb.trans this).cast (by simp)

/-- `peek` in unit mode: nothing is consumed if a SCALAR comes back. -/
theorem wpg_peekS (cx : PCtx) {Q : Tk → ParseSt → Prop} (hb : Back s0 s w0)
    (hQ : ∀ t s', s'.la = some t → (∀ v, t = .scalar v → Back s0 s' w0) → Q t s') : wp (peek cx false true) Q AnyErr True s := by
  unfold wp peek
  cases hla : s.la with
  | some t => simp only; exact hQ t s hla (fun _ _ => hb)
  | none =>
    simp only
    by_cases herr : (lex1 false true s.afterMacro s.rest).errors > 0
    · rw [if_pos herr]; trivial
    · rw [if_neg herr]
      refine hQ _ _ rfl ?_
      intro v hv
      have := back_unpeek cx false true s hla (by omega)
        (fun _ _ => by rw [hv]; exact ⟨by simp [tkKind], by simp [tkKind]⟩)
        (fun he => by rw [he] at hv; cases hv)
      exact (hb.trans this).cast (by simp)

/-- `shift` of a token a rule mentions: its kind is consumed. -/
theorem wpg_shift {Q : Unit → ParseSt → Prop} {t : Tk} (hb : Back s0 s w0) (hla : s.la = some t) (ht : t ≠ .eof)
    (ho : isOther t = false) (hQ : ∀ s', Back s0 s' (w0 ++ [tkKind t]) → Q () s') : wp shift Q AnyErr True s := by
  have hsh : shift s = PRes.ok () { s with la := none } := by
    unfold shift
    simp only [hla]
    cases t <;> first | rfl | exact absurd rfl ht
  unfold wp
  rw [hsh]
  refine hQ _ (hb.trans ?_)
  intro ts hrem
  simp only [Rem] at hrem
  show Rem s ([tkKind t] ++ ts)
  simp only [Rem, hla]
  exact Or.inr ⟨ht, ho, ts, rfl, hrem⟩

theorem wpg_expandOne (cx : PCtx) (action : Bool) (str : Bytes) {Q : Bytes → ParseSt → Prop} (hb : Back s0 s w0)
    (hQ : ∀ v s', Back s0 s' w0 → Q v s') : wp (expandOne cx action str) Q AnyErr True s := by
  unfold wp expandOne
  cases expandStr cx.pathMax cx.home action s.macros str with
  | none => trivial
  | some r => exact hQ r.1 _ (hb.macros _)

theorem wpg_expandAll (cx : PCtx) (action : Bool) (strs : List Bytes) {Q : List Bytes → ParseSt → Prop} (hb : Back s0 s w0)
    (hQ : ∀ v s', Back s0 s' w0 → Q v s') : wp (expandAll cx action strs) Q AnyErr True s := by
  unfold wp expandAll
  cases expandStrs cx.pathMax cx.home action s.macros strs with
  | none => trivial
  | some r => exact hQ r.1 _ (hb.macros _)

theorem wpg_expandMac (action : Bool) (str : Bytes) {Q : Bytes → ParseSt → Prop} (hb : Back s0 s w0)
    (hQ : ∀ v s', Back s0 s' w0 → Q v s') : wp (expandMac action str) Q AnyErr True s := by
  unfold wp expandMac
  cases expandMacros action (str.length + 1) str s.macros [] with
  | none => trivial
  | some r => exact hQ r.1 _ (hb.macros _)

/-! ## Specifications -/

/-- When `p` returns it has consumed tokens of kinds `w` with `G w`. -/
def Uses (p : PM α) (G : List Sym → Prop) : Prop :=
  ∀ (s0 s : ParseSt) (w0 : List Sym), Back s0 s w0 → wp p (fun _ s' => ∃ w, G w ∧ Back s0 s' (w0 ++ w)) AnyErr True s

/-- The same for a parser entered with the lookahead `t` in hand. -/
def UsesAt (t : Tk) (p : PM α) (G : List Sym → Prop) : Prop :=
  ∀ (s0 s : ParseSt) (w0 : List Sym), Back s0 s w0 → s.la = some t →
    wp p (fun _ s' => ∃ w, G w ∧ Back s0 s' (w0 ++ w)) AnyErr True s

theorem wp_of_uses {p : PM α} {G : List Sym → Prop} (h : Uses p G) (hb : Back s0 s w0)
    (hQ : ∀ a s' w, G w → Back s0 s' (w0 ++ w) → Q a s') : wp p Q AnyErr True s :=
  wp_mono (h s0 s w0 hb) (fun a s' ⟨w, h1, h2⟩ => hQ a s' w h1 h2) (fun _ _ => trivial)

theorem Uses.weaken {p : PM α} {G G' : List Sym → Prop} (h : Uses p G) (hw : ∀ w, G w → G' w) : Uses p G' :=
  fun _ _ _ hb => wp_of_uses h hb (fun _ _ w h1 h2 => ⟨w, hw w h1, h2⟩)

/-! ## Small parsers -/

theorem uses_expectTk (cx : PCtx) (tk : Tk) (htk : tk ≠ .eof) (ho : isOther tk = false) :
    Uses (expectTk cx tk) (fun w => w = [tkKind tk]) := by
  intro s0 s w0 hb
  unfold expectTk
  simp only [wp_bind]
  apply wpg_peek cx hb
  intro t s1 hla h1
  simp only [wp_ite, wp_failTok]
  split
  · rename_i heq
    subst heq
    exact wpg_shift h1 hla htk ho (fun s2 h2 => ⟨_, rfl, h2⟩)
  · trivial

theorem uses_parseStr (cx : PCtx) : Uses (parseStr cx) (fun w => w = ["STRING"]) := by
  intro s0 s w0 hb
  unfold parseStr
  simp only [wp_bind]
  apply wpg_peek cx hb
  intro t s1 hla h1
  cases t <;> (try simp only [wp_failTok, wp_bind, wp_pure]) <;> try trivial
  exact wpg_shift h1 hla (by simp) rfl (fun s2 h2 => ⟨_, rfl, h2⟩)

/-- After `{`: some strings and the closing brace. -/
theorem uses_parseStringBlock (cx : PCtx) : ∀ (fuel : Nat) (acc : List Bytes),
    Uses (parseStringBlock cx fuel acc) (fun w => ∃ l : List Bytes, w = (l.map fun _ => "STRING") ++ ["'}'"]) := by
  intro fuel
  induction fuel with
  | zero => intro acc s0 s w0 _; simp [parseStringBlock, wp, outOfFuel]
  | succ fuel ih =>
    intro acc s0 s w0 hb
    unfold parseStringBlock
    simp only [wp_bind]
    apply wpg_peek cx hb
    intro t s1 hla h1
    cases t <;> (try simp only [wp_failTok, wp_bind, wp_pure]) <;> try trivial
    · rename_i b
      refine wpg_shift h1 hla (by simp) rfl (fun s2 h2 => ?_)
      refine wp_of_uses (ih _) h2 ?_
      intro _ s3 w ⟨l, hl⟩ h3
      exact ⟨"STRING" :: w, ⟨b :: l, by simp [hl]⟩, h3.cast (by simp [tkKind])⟩
    · exact wpg_shift h1 hla (by simp) rfl (fun s2 h2 => ⟨["'}'"], ⟨[], rfl⟩, h2⟩)

theorem uses_parseStrings (cx : PCtx) (fuel : Nat) : Uses (parseStrings cx fuel) (Derives GP "strings") := by
  intro s0 s w0 hb
  unfold parseStrings
  simp only [wp_bind]
  apply wpg_peek cx hb
  intro t s1 hla h1
  cases t <;> (try simp only [wp_failTok, wp_bind, wp_pure]) <;> try trivial
  · exact wpg_shift h1 hla (by simp) rfl
      (fun s2 h2 => ⟨["STRING"], Derives.node p_strings_string (.cons (.leaf t_string) .nil), h2⟩)
  · refine wpg_shift h1 hla (by simp) rfl (fun s2 h2 => ?_)
    refine wp_of_uses (uses_parseStringBlock cx fuel _) h2 ?_
    intro _ s3 w ⟨l, hl⟩ h3
    refine ⟨"'{'" :: w, ?_, h3.cast (by simp [tkKind])⟩
    exact (strings_parses l).derives.cast (by rw [strsToks_kinds, hl])

theorem uses_parsePattern (cx : PCtx) : Uses (parsePattern cx) (Derives GP "pattern") := by
  intro s0 s w0 hb
  unfold parsePattern
  simp only [wp_bind]
  apply wpg_peekP cx hb
  intro t s1 hla h1
  cases t <;> (try simp only [wp_failTok, wp_bind, wp_pure]) <;> try trivial
  rename_i p
  exact wpg_shift (h1 p rfl) hla (by simp) rfl (fun s2 h2 => ⟨["PATTERN"], pattern_parses.derives, h2⟩)

theorem uses_checkPattern (cx : PCtx) (p : Pat) : Uses (checkPattern cx p) (fun w => w = []) := by
  intro s0 s w0 hb
  unfold checkPattern
  simp only [wp_ite, wp_pure, wp_failTok]
  split
  · exact ⟨[], rfl, hb.cast (by simp)⟩
  · trivial

theorem uses_parseDateField (cx : PCtx) : Uses (parseDateField cx) (Derives GP "date_field") := by
  intro s0 s w0 hb
  unfold parseDateField
  simp only [wp_bind]
  apply wpg_peek cx hb
  intro t s1 hla h1
  have hdef : ∃ w, Derives GP "date_field" w ∧ Back s0 s1 (w0 ++ w) :=
    ⟨[], Derives.node p_date_field_empty .nil, h1.cast (by simp)⟩
  cases t <;> (try simp only [wp_failTok, wp_bind, wp_pure]) <;> try exact hdef
  rename_i k
  cases k <;> (try simp only [wp_failTok, wp_bind, wp_pure]) <;> try exact hdef
  · exact wpg_shift h1 hla (by simp) rfl
      (fun s2 h2 => ⟨["ACCESS"], Derives.node p_date_field_access (.cons (.leaf t_access) .nil), h2⟩)
  · exact wpg_shift h1 hla (by simp) rfl
      (fun s2 h2 => ⟨["CREATED"], Derives.node p_date_field_created (.cons (.leaf t_created) .nil), h2⟩)
  · exact wpg_shift h1 hla (by simp) rfl
      (fun s2 h2 => ⟨["HEADER"], Derives.node p_date_field_header (.cons (.leaf t_header) .nil), h2⟩)
  · exact wpg_shift h1 hla (by simp) rfl
      (fun s2 h2 => ⟨["MODIFIED"], Derives.node p_date_field_modified (.cons (.leaf t_modified) .nil), h2⟩)

theorem uses_parseDateCmp (cx : PCtx) : Uses (parseDateCmp cx) (Derives GP "date_cmp") := by
  intro s0 s w0 hb
  unfold parseDateCmp
  simp only [wp_bind]
  apply wpg_peek cx hb
  intro t s1 hla h1
  cases t <;> (try simp only [wp_failTok, wp_bind, wp_pure]) <;> try trivial
  · exact wpg_shift h1 hla (by simp) rfl
      (fun s2 h2 => ⟨["'<'"], Derives.node p_date_cmp_lt (.cons (.leaf t_lt) .nil), h2⟩)
  · exact wpg_shift h1 hla (by simp) rfl
      (fun s2 h2 => ⟨["'>'"], Derives.node p_date_cmp_gt (.cons (.leaf t_gt) .nil), h2⟩)

theorem uses_parseInt (cx : PCtx) : Uses (parseInt cx) (fun w => w = ["INT"]) := by
  intro s0 s w0 hb
  unfold parseInt
  simp only [wp_bind]
  apply wpg_peek cx hb
  intro t s1 hla h1
  cases t <;> (try simp only [wp_failTok, wp_bind, wp_pure]) <;> try trivial
  exact wpg_shift h1 hla (by simp) rfl (fun s2 h2 => ⟨_, rfl, h2⟩)

theorem uses_parseScalar (cx : PCtx) : Uses (parseScalar cx) (Derives GP "scalar") := by
  intro s0 s w0 hb
  unfold parseScalar
  simp only [wp_bind]
  apply wpg_peekS cx hb
  intro t s1 hla h1
  cases t <;> (try simp only [wp_failTok, wp_bind, wp_pure]) <;> try trivial
  rename_i v
  cases v <;> (try simp only [wp_failTok, wp_bind, wp_pure]) <;> try trivial
  exact wpg_shift (h1 _ rfl) hla (by simp) rfl (fun s2 h2 => ⟨["SCALAR"], scalar_parses.derives, h2⟩)

theorem uses_parseOptNeg (cx : PCtx) : Uses (parseOptNeg cx) (Derives GP "optneg") := by
  intro s0 s w0 hb
  unfold parseOptNeg
  simp only [wp_bind]
  apply wpg_peek cx hb
  intro t s1 hla h1
  have hdef : ∃ w, Derives GP "optneg" w ∧ Back s0 s1 (w0 ++ w) :=
    ⟨[], Derives.node p_optneg_empty .nil, h1.cast (by simp)⟩
  cases t <;> (try simp only [wp_failTok, wp_bind, wp_pure]) <;> try exact hdef
  exact wpg_shift h1 hla (by simp) rfl
    (fun s2 h2 => ⟨["NEG"], Derives.node p_optneg_neg (.cons (.leaf t_neg) .nil), h2⟩)

/-- `exec_flags` is left recursive: what is consumed extends any `exec_flags` read before. -/
def Extends (x : Sym) (w : List Sym) : Prop := ∀ pre, Derives GP x pre → Derives GP x (pre ++ w)

theorem Extends.nil (x : Sym) : Extends x [] := fun pre h => h.cast (by simp)

theorem uses_parseExecFlags (cx : PCtx) : ∀ (fuel : Nat) (si bo : Bool),
    Uses (parseExecFlags cx fuel si bo) (Extends "exec_flags") := by
  intro fuel
  induction fuel with
  | zero => intro si bo s0 s w0 _; simp [parseExecFlags, wp, outOfFuel]
  | succ fuel ih =>
    intro si bo s0 s w0 hb
    unfold parseExecFlags
    simp only [wp_bind]
    apply wpg_peek cx hb
    intro t s1 hla h1
    have hdef : ∃ w, Extends "exec_flags" w ∧ Back s0 s1 (w0 ++ w) := ⟨[], Extends.nil _, h1.cast (by simp)⟩
    cases t <;> (try simp only [wp_failTok, wp_bind, wp_pure]) <;> try exact hdef
    rename_i k
    cases k <;> (try simp only [wp_failTok, wp_bind, wp_pure]) <;> try exact hdef
    · -- body
      refine wpg_shift h1 hla (by simp) rfl (fun s2 h2 => ?_)
      simp only [wp_ite, wp_failTok]
      split
      · trivial
      · refine wp_of_uses (ih _ _) h2 ?_
        intro _ s3 w hw h3
        refine ⟨"BODY" :: w, ?_, h3.cast (by simp [tkKind, kwSym])⟩
        intro pre hpre
        have h1 : Derives GP "exec_flags" (pre ++ ["BODY"]) :=
          Derives.node p_exec_flags_exec_flags_exec_flag
            (.cons hpre (.cons (Derives.node p_exec_flag_body (.cons (.leaf t_body) .nil)) .nil))
        exact (hw _ h1).cast (by simp)
    · -- stdin
      refine wpg_shift h1 hla (by simp) rfl (fun s2 h2 => ?_)
      simp only [wp_ite, wp_failTok]
      split
      · trivial
      · refine wp_of_uses (ih _ _) h2 ?_
        intro _ s3 w hw h3
        refine ⟨"STDIN" :: w, ?_, h3.cast (by simp [tkKind, kwSym])⟩
        intro pre hpre
        have h1 : Derives GP "exec_flags" (pre ++ ["STDIN"]) :=
          Derives.node p_exec_flags_exec_flags_exec_flag
            (.cons hpre (.cons (Derives.node p_exec_flag_stdin (.cons (.leaf t_stdin) .nil)) .nil))
        exact (hw _ h1).cast (by simp)

theorem uses_parseDate (cx : PCtx) : Uses (parseDate cx) (fun w => Derives GP "expr3" ("DATE" :: w)) := by
  intro s0 s w0 hb
  unfold parseDate
  simp only [wp_bind]
  refine wp_of_uses (uses_parseDateField cx) hb ?_
  intro _ s1 w1 g1 h1
  refine wp_of_uses (uses_parseDateCmp cx) h1 ?_
  intro _ s2 w2 g2 h2
  refine wp_of_uses (uses_parseInt cx) h2 ?_
  intro _ s3 w3 g3 h3
  refine wp_of_uses (uses_parseScalar cx) h3 ?_
  intro _ s4 w4 g4 h4
  simp only [wp_ite, wp_failTok, wp_bind, wp_curLine, wp_pure]
  split
  · trivial
  · subst g3
    refine ⟨w1 ++ w2 ++ ["INT"] ++ w4, ?_, h4.cast (by simp)⟩
    have ha : Derives GP "date_age" (["INT"] ++ (w4 ++ [])) :=
      Derives.node p_date_age_int_scalar (.cons (.leaf t_int) (.cons g4 .nil))
    exact (Derives.node p_expr3_date_date_field_date_cmp_date_age
      (.cons (.leaf t_date) (.cons g1 (.cons g2 (.cons ha .nil))))).cast (by simp)

end Mdsort.Proofs.Cfg
