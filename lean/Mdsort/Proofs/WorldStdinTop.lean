import Mdsort.Proofs.WorldStdinSession
import Mdsort.Proofs.World

/-! The stdin-mode statements about `main`: complete spool, exit 0 only when stored durably, the
spool is removed, the status table. -/

namespace Mdsort.Proofs.World
open Mdsort Mdsort.Model

/-- `maildir_close` under every fault plan keeps what an error-free processing established. -/
theorem DoneV.closeStdin {S : Spool} {env : PEnv} {input : Bytes} {v : Verdict} {w : World} (fuel : Nat) (h : DoneV S env input v w)
    (hd : ∃ snap pos, w.obj S.d = .dir S.sp snap pos) :
    wp (fun _ => True) (Model.closeStdin fuel (spoolMd S)) (fun _ w' => DoneV S env input v w') w := by
  cases v with
  | failed => exact h.elim
  | unmatched => exact wp_mono wp_triv (fun _ _ _ => trivial)
  | actions ml m' =>
    by_cases hyp : env.dryrun = false ∧ (∀ m ∈ ml, m.ty ≠ .discard) ∧ (∃ m ∈ ml, moveTy m.ty) ∧
        (∀ m ∈ ml, moveTy m.ty → destPath m.path ≠ some S.sp)
    · obtain ⟨p, n, fid, hp, hg⟩ := h hyp.1 hyp.2.1 hyp.2.2.1 hyp.2.2.2
      exact wp_mono (closeStdin_keeps S hp fuel hg hd) (fun _ w' hg' _ _ _ _ => ⟨p, n, fid, hp, hg'⟩)
    · exact wp_mono wp_triv (fun _ _ _ h1 h2 h3 h4 => absurd ⟨h1, h2, h3, h4⟩ hyp)

/-- `main` up to the cleanup, under every fault plan. -/
theorem spec_stdinHead (env : PEnv) (orc : EvalOracles) (expr : Expr) (files : Files) (input : Bytes) {w : World}
    (hin : StdinIs w input) (hfresh : SpoolFresh env w) :
    wp (fun _ => True) (stdinHead env orc expr files input)
      (fun x w1 => match x with
        | none => ∀ q, w1.dir q = w.dir q
        | some y => HeadPost env orc expr input w y w1) w := by
  obtain ⟨sfid, fs, h0, hs, hsd, hslt⟩ := hin
  have hlt0 : (0 : Nat) < w.handles.length := lt_of_obj_ne_closed w 0 (by rw [h0]; simp)
  unfold stdinHead
  intro ft
  refine ⟨trivial, ?_⟩
  have hd1 : ∀ q, (stepWorld w (.fopen env.confpath) (faultResult ft w (.fopen env.confpath))).dir q = w.dir q := by
    intro q; rw [stepWorld_dir]; exact dir_of_dirs (core_dirs _ _ _ rfl) q
  obtain ⟨h01, hs1, hslt1⟩ := stdin_step (.fopen env.confpath) (faultResult ft w (.fopen env.confpath)) h0 (by simp) hs hslt
    (by simp [Call.subject]) trivial
  have hok : ∀ v, faultResult ft w (.fopen env.confpath) = .ok v → v = w.handles.length ∧
      (stepWorld w (.fopen env.confpath) (faultResult ft w (.fopen env.confpath))).obj v = .other := by
    intro v hv
    have hvl := opener_result ft w _ v rfl hv
    refine ⟨hvl, ?_⟩
    rw [hv, stepWorld_obj, hvl]
    simp [core, applyOk, obj_newHandle]
  generalize faultResult ft w (.fopen env.confpath) = r at hd1 h01 hs1 hslt1 hok ⊢
  generalize stepWorld w (.fopen env.confpath) r = w1 at hd1 h01 hs1 hslt1 hok ⊢
  cases r with
  | ok h =>
    obtain ⟨hh, hobjh⟩ := hok h rfl
    dsimp only
    intro ft2
    refine ⟨trivial, ?_⟩
    have hd2 : ∀ q, (stepWorld w1 (.fclose h) (faultResult ft2 w1 (.fclose h))).dir q = w.dir q := by
      intro q; rw [stepWorld_dir, dir_of_dirs (core_dirs _ _ _ rfl) q]; exact hd1 q
    obtain ⟨h02, hs2, hslt2⟩ := stdin_step (.fclose h) (faultResult ft2 w1 (.fclose h)) h01 (by simp) hs1 hslt1
      (by simp only [Call.subject, ne_eq, Option.some.injEq]; intro e; subst e; omega) (by simp [fileSafe, hobjh, objFid])
    generalize stepWorld w1 (.fclose h) (faultResult ft2 w1 (.fclose h)) = w2 at hd2 h02 hs2 hslt2 ⊢
    refine wp_bind_mono (spec_sessionHead env orc input expr (st0 files) ⟨sfid, fs, h02, hs2, hsd, hslt2⟩
      ⟨by rw [hd2]; exact hfresh.1, by rw [hd2]; exact hfresh.2⟩) ?_
    rintro y w3 ⟨hc, hdone⟩
    exact ⟨hc.congr (fun q => (hd2 q).symm), hdone⟩
  | err e => exact hd1
  | name x => exact hd1
  | eof => exact hd1

end Mdsort.Proofs.World

namespace Mdsort.Proofs
open Mdsort Mdsort.Model

/-- The exit status in stdin mode: 75 iff an error occurred, else 1 iff a reject was executed, else 0. -/
theorem exitStatus_stdin (env : PEnv) (st : MainSt) (h : env.stdinMode = true) :
    (exitStatus env st = 75 ↔ st.error = true) ∧
    (exitStatus env st = 1 ↔ (st.error = false ∧ st.reject = true)) ∧
    (exitStatus env st = 0 ↔ (st.error = false ∧ st.reject = false)) := by
  unfold exitStatus
  simp only [h, if_true]
  cases st.error <;> cases st.reject <;> decide

/-- The status table of a stdin run, read off the final loop state. -/
theorem stdin_status (env : PEnv) (orc : EvalOracles) (ok : Bool) (conf : List ConfBlock) (files : Files) (input : Bytes)
    (w : World) (plan : Plan) (hm : env.stdinMode = true) :
    let r := (runPlan plan (mainP env orc ok conf files input) w 0 []).1
    (r.1 = 75 ↔ r.2.error = true) ∧ (r.1 = 1 ↔ (r.2.error = false ∧ r.2.reject = true)) ∧
      (r.1 = 0 ↔ (r.2.error = false ∧ r.2.reject = false)) := by
  intro r
  have h : r.1 = exitStatus env r.2 := exit_status_table env orc ok conf files input w plan
  rw [h]
  exact exitStatus_stdin env r.2 hm

/-- A reject action only sets the reject flag: it issues no call at all. -/
theorem execOne_reject (env : PEnv) (mh : Match) (st : ExecSt) (h : mh.ty = .reject) :
    execOne env mh st = Prog.ret ({ st with reject := true }, false) := by
  unfold execOne
  simp only [h]
  rfl

/-- T1: a successful `maildir_stdin` has stored the complete input, visibly and durably. -/
theorem stdin_spool_complete (env : PEnv) (input : Bytes) (w : World) (plan : Plan) (hin : World.StdinIs w input) :
    let r := runPlan plan (maildirStdin env input) w 0 []
    r.1.2.1 = false →
      ∃ name fid, r.1.2.2 = some name ∧ r.2.1.lookup r.1.1.path name = some fid ∧
        r.2.1.file fid = some { data := input, durable := input } := by
  have h := (World.wp_sound plan (World.spec_maildirStdin env input hin) 0).2
  rw [World.runPlan_eq]
  dsimp only
  generalize (World.run plan (maildirStdin env input) w 0).1 = res at h ⊢
  generalize (World.run plan (maildirStdin env input) w 0).2.1 = w' at h ⊢
  intro hf
  rcases h with ⟨hr, -⟩ | ⟨tmpl, -, ⟨hr, -⟩ | ⟨p, -, ⟨hr, -⟩ | ⟨d, hr, -⟩ | ⟨d, name, fid, hmd, hsp, -, -, -, -, hl, -, -, -, hok, -⟩⟩⟩
  · rw [hr] at hf; cases hf
  · rw [hr] at hf; cases hf
  · rw [hr] at hf; cases hf
  · rw [hr] at hf; cases hf
  · refine ⟨name, fid, hsp, ?_, hok hf⟩
    rw [hmd]
    exact hl

/-- What a verdict promises for the final world `wf` of a stdin run that ended with exit status 0. -/
def DeliveredV (env : PEnv) (input : Bytes) (wf : World) : World.Verdict → Prop
  | .failed => False
  | .unmatched => True
  | .actions ml m' =>
    env.dryrun = false → NoDiscard ml → (∃ m ∈ ml, World.moveTy m.ty) →
      (∀ m ∈ ml, World.moveTy m.ty → World.destPath m.path ≠ some (World.spoolPath env)) →
      ∃ d n fid f, d ≠ World.spoolPath env ∧ wf.lookup d n = some fid ∧ wf.file fid = some f ∧
        f.durable ∈ [input, (messageWrite m').1]

/-- What exit status 0 of a stdin run means (see `Props/C02`): for the name the spool file got and for SOME answers `as` of the
operating system to the questions of evaluation (the answers of the run; irrelevant for a rule tree that asks nothing), the
verdict of the rules is not "failed", and if it is an action list that delivers, a durable complete copy exists outside the spool. -/
def Delivered (env : PEnv) (orc : EvalOracles) (expr : Expr) (input : Bytes) (wf : World) : Prop :=
  ∃ name0 fl as, (∃ k, name0 = World.gennameName env none k) ∧ flagsParse name0 = some fl ∧
    DeliveredV env input wf (World.stdinVerdictA env orc expr input (World.spoolPath env ++ [47] ++ name0) fl as)

theorem delivered_of_done {S : World.Spool} {env : PEnv} {orc : EvalOracles} {expr : Expr} {input name0 : Bytes} {w' : World}
    (hS : S.sp = World.spoolPath env) (hk : ∃ k, name0 = World.gennameName env none k)
    (h : World.Done S env orc expr input name0 w') : Delivered env orc expr input w' := by
  obtain ⟨fl, as, hfl, hv⟩ := h
  refine ⟨name0, fl, as, hk, hfl, ?_⟩
  rw [hS] at hv
  generalize World.stdinVerdictA env orc expr input (World.spoolPath env ++ [47] ++ name0) fl as = v at hv ⊢
  cases v with
  | failed => exact hv
  | unmatched => trivial
  | actions ml m' =>
    intro h1 h2 h3 h4
    obtain ⟨p, n, fid, hne, hl, _, f, hf, _, hd⟩ := hv h1 h2 h3 (by rw [hS]; exact h4)
    exact ⟨p, n, fid, f, by rw [← hS]; exact hne, hl, hf, hd⟩

/-- The verdict delivers: an action list without discard, with a move/flag/flags action, no destination the spool. -/
def DeliversV (env : PEnv) : World.Verdict → Prop
  | .actions ml _ => NoDiscard ml ∧ (∃ m ∈ ml, World.moveTy m.ty) ∧
      ∀ m ∈ ml, World.moveTy m.ty → World.destPath m.path ≠ some (World.spoolPath env)
  | _ => False

/-- If, WHATEVER the operating system answers, a verdict that is not "failed" delivers, then `Delivered` gives a durable copy
outside the spool whose content is the message or a rewrite of it. -/
theorem delivered_copy {env : PEnv} {orc : EvalOracles} {expr : Expr} {input : Bytes} {wf : World}
    (hdry : env.dryrun = false)
    (hall : ∀ name0 fl as, flagsParse name0 = some fl →
      World.stdinVerdictA env orc expr input (World.spoolPath env ++ [47] ++ name0) fl as = .failed ∨
      DeliversV env (World.stdinVerdictA env orc expr input (World.spoolPath env ++ [47] ++ name0) fl as))
    (h : Delivered env orc expr input wf) :
    ∃ d n fid f, d ≠ World.spoolPath env ∧ wf.lookup d n = some fid ∧ wf.file fid = some f ∧
      (f.durable = input ∨ ∃ name0 fl as ml m', World.stdinVerdictA env orc expr input (World.spoolPath env ++ [47] ++ name0) fl as =
        .actions ml m' ∧ f.durable = (messageWrite m').1) := by
  obtain ⟨name0, fl, as, _, hfl, hv⟩ := h
  rcases hall name0 fl as hfl with hf | hd
  · rw [hf] at hv; exact hv.elim
  · cases hvd : World.stdinVerdictA env orc expr input (World.spoolPath env ++ [47] ++ name0) fl as with
    | failed => rw [hvd] at hd; exact hd.elim
    | unmatched => rw [hvd] at hd; exact hd.elim
    | actions ml m' =>
      rw [hvd] at hv hd
      obtain ⟨d, n, fid, f, h1, h2, h3, h4⟩ := hv hdry hd.1 hd.2.1 hd.2.2
      refine ⟨d, n, fid, f, h1, h2, h3, ?_⟩
      simp only [List.mem_cons, List.mem_nil_iff, or_false] at h4
      rcases h4 with h4 | h4
      · exact .inl h4
      · exact .inr ⟨name0, fl, as, ml, m', hvd, h4⟩

/-- T2: under every fault plan, exit status 0 of a stdin run means the message is stored durably
outside the spool (or no rule matched / the rules do not deliver). -/
theorem stdin_exit0 (env : PEnv) (orc : EvalOracles) (conf : List ConfBlock) (files : Files) (input : Bytes) (expr : Expr)
    (w : World) (plan : Plan) (hm : env.stdinMode = true) (hs : env.syntaxOnly = false)
    (hc : World.stdinExprs conf = [expr]) (hin : World.StdinIs w input) (hfresh : World.SpoolFresh env w) :
    let r := runPlan plan (mainP env orc true conf files input) w 0 []
    r.1.1 = 0 → Delivered env orc expr input r.2.1 := by
  have hmain : World.wp (fun _ => True) (mainP env orc true conf files input)
      (fun r w' => r.1 = 0 → Delivered env orc expr input w') w := by
    rw [World.mainP_stdin env orc conf files input expr hm hs hc]
    refine World.wp_bind_mono (World.spec_stdinHead env orc expr files input hin hfresh) ?_
    intro x w1 hx
    cases x with
    | none =>
      intro h0
      exfalso
      have := (exitStatus_stdin env { World.st0 files with error := true } hm).2.2.1 h0
      simp at this
    | some y =>
      obtain ⟨_, hdone⟩ := hx
      show World.wp _ ((closeStdin (stdinFuel env) y.2).bind fun fo =>
        Prog.ret (exitStatus env (orFuel y.1 fo), orFuel y.1 fo)) _ w1
      cases herr : y.1.error with
      | true =>
        refine World.wp_bind_mono World.wp_triv ?_
        intro fo w2 _ h0
        exfalso
        have : y.1.error = false := ((exitStatus_stdin env (orFuel y.1 fo) hm).2.2.1 h0).1
        rw [herr] at this
        cases this
      | false =>
        obtain ⟨S, name0, hS, hmd, hk, hobj, hd⟩ := hdone herr
        obtain ⟨fl, as, hfl, hv⟩ := hd
        rw [hmd]
        refine World.wp_bind_mono (World.DoneV.closeStdin _ hv hobj) ?_
        intro _ w2 hv2 _
        exact delivered_of_done hS hk ⟨fl, as, hfl, hv2⟩
  have := (World.wp_sound plan hmain 0).2
  show (runPlan plan (mainP env orc true conf files input) w 0 []).1.1 = 0 →
    Delivered env orc expr input (runPlan plan (mainP env orc true conf files input) w 0 []).2.1
  rw [World.runPlan_eq]
  exact this

/-- The number of calls a stdin run makes before the cleanup of the spool starts. -/
def stdinCleanupStart (plan : Plan) (env : PEnv) (orc : EvalOracles) (expr : Expr) (files : Files) (input : Bytes) (w : World) : Nat :=
  (World.run plan (World.stdinHead env orc expr files input) w 0).2.2.1

/-- T3: when no call of the cleanup is hit by a fault, no directory the run created is left. -/
theorem stdin_spool_removed (env : PEnv) (orc : EvalOracles) (conf : List ConfBlock) (files : Files) (input : Bytes) (expr : Expr)
    (w : World) (plan : Plan) (hm : env.stdinMode = true) (hs : env.syntaxOnly = false)
    (hc : World.stdinExprs conf = [expr]) (hin : World.StdinIs w input) (hfresh : World.SpoolFresh env w)
    (hplan : ∀ j, stdinCleanupStart plan env orc expr files input w ≤ j → plan j = none) :
    ∀ q, ((runPlan plan (mainP env orc true conf files input) w 0 []).2.1.dir q).isSome → (w.dir q).isSome := by
  unfold stdinCleanupStart at hplan
  rw [World.mainP_stdin env orc conf files input expr hm hs hc, World.runPlan_eq, World.run_bind]
  dsimp only
  have hhead := (World.wp_sound plan (World.spec_stdinHead env orc expr files input hin hfresh) 0).2
  generalize World.run plan (World.stdinHead env orc expr files input) w 0 = R at hhead hplan ⊢
  obtain ⟨x, w1, i1, hist⟩ := R
  dsimp only at hhead hplan ⊢
  cases x with
  | none =>
    intro q hq
    rw [← hhead q]
    exact hq
  | some y =>
    obtain ⟨hclean, _⟩ := hhead
    have hw : World.wpN (World.stdinFinish env files (some y))
        (fun _ w' => ∀ q, (w'.dir q).isSome → (w.dir q).isSome) w1 :=
      World.wpN_bind_mono (f := fun fo => Prog.ret (exitStatus env (orFuel y.1 fo), orFuel y.1 fo))
        (World.closeStdin_clean hclean (stdinFuel env) (by simp [stdinFuel])) (fun _ _ h => h.1)
    exact World.wpN_sound plan i1 hplan hw

end Mdsort.Proofs
