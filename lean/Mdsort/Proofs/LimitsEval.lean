import Mdsort.Proofs.LimitsSetters

/-!
# The evaluator under two sets of limits

For `L ≤ L'` the evaluation under `L` gives what the evaluation under `L'` gives, or its verdict is `error`; the same
for the interpolation of the match list.  The one place where an over-long string is NOT an error is the
`new` / `old` condition: `pathslice` of the `new`/`cur` component into a `NAME_MAX + 1` buffer, a failure counts as
"no match".  That is harmless as long as the buffer can hold `new` and `cur` themselves (`Limits.Sane`: at least 4
bytes; the platform has 256) - a component that does not fit is then not `new` or `cur` for unbounded strings either.
-/

namespace Mdsort.Proofs.Limits
open Mdsort Mdsort.Model

/-- The name buffer can hold `new` and `cur` (3 characters and the terminator). -/
def Sane (L : Limits) : Prop := L.nameMax1.fits 3 = true

instance (L : Limits) : Decidable (Sane L) := inferInstanceAs (Decidable (_ = true))

theorem sane_std : Sane stdLimits := by decide
theorem sane_unbounded : Sane Limits.unbounded := rfl

theorem Sane.of_le {L L' : Limits} (h : L ≤ L') (hs : Sane L) : Sane L' := Lim.fits_mono h.2.1 hs

/-- Same result, or the left one is an error. -/
def EqOrErr (a b : Tri × St) : Prop := a = b ∨ a.1 = .error

theorem EqOrErr.rfl' (a : Tri × St) : EqOrErr a a := .inl rfl

/-- Comparing an accepted slice with a three-letter word does not depend on the buffer (if it holds three letters). -/
theorem pathsliceL_beq3 {l l' : Lim} (hl : l.fits 3 = true) (hl' : l'.fits 3 = true) (path : Bytes) (b e : Int) (w : Bytes)
    (hw : w.length = 3) : (pathsliceL path l b e == some w) = (pathsliceL path l' b e == some w) := by
  have h1 := pathsliceL_Exact path b e l
  have h2 := pathsliceL_Exact path b e l'
  simp only at h1 h2
  rw [h1, h2]
  cases pathsliceL path .inf b e with
  | none => rfl
  | some s =>
    simp only [Option.bind_some]
    by_cases hsw : s = w
    · subst hsw
      simp only [hw, hl, hl', if_true]
    · have : ∀ l : Lim, ((if l.fits s.length = true then some s else none) == some w) = false := by
        intro l
        split
        · simpa using hsw
        · rfl
      rw [this l, this l']

theorem matchesAppendL_mono {L L' : Limits} (hle : L ≤ L') (env : Env) (ml : MatchList) (mh : Match) :
    matchesAppendL L env ml mh = matchesAppendL L' env ml mh ∨ (matchesAppendL L env ml mh).2 = true := by
  unfold matchesAppendL
  simp only
  split
  · exact .inl rfl
  · -- the maildir part
    have hmd : ∀ (x : Bytes), (if x.isEmpty then pathsliceL env.path L.pathMax 0 (-2) else some x) = none ∨
        (if x.isEmpty then pathsliceL env.path L.pathMax 0 (-2) else some x) =
          (if x.isEmpty then pathsliceL env.path L'.pathMax 0 (-2) else some x) := by
      intro x
      split
      · exact (pathsliceL_Exact env.path 0 (-2)).mono hle.1
      · exact .inr rfl
    have hsd : ∀ (x : Bytes), (if x.isEmpty then pathsliceL env.path L.nameMax1 (-2) (-2) else some x) = none ∨
        (if x.isEmpty then pathsliceL env.path L.nameMax1 (-2) (-2) else some x) =
          (if x.isEmpty then pathsliceL env.path L'.nameMax1 (-2) (-2) else some x) := by
      intro x
      split
      · exact (pathsliceL_Exact env.path (-2) (-2)).mono hle.2.1
      · exact .inr rfl
    rcases hmd (matchesMerge ml mh).2.maildir with h | h
    · rw [h]; exact .inr rfl
    · rw [h]
      cases (if (matchesMerge ml mh).2.maildir.isEmpty then pathsliceL env.path L'.pathMax 0 (-2) else some (matchesMerge ml mh).2.maildir) with
      | none => exact .inl rfl
      | some maildir =>
        simp only
        rcases hsd (matchesMerge ml mh).2.subdir with h2 | h2
        · rw [h2]; exact .inr rfl
        · rw [h2]
          cases (if (matchesMerge ml mh).2.subdir.isEmpty then pathsliceL env.path L'.nameMax1 (-2) (-2) else some (matchesMerge ml mh).2.subdir) with
          | none => exact .inl rfl
          | some subdir =>
            simp only
            rcases (pathjoinL_Exact maildir subdir).mono hle.1 with h3 | h3
            · rw [h3]; exact .inr rfl
            · rw [h3]; exact .inl rfl


theorem exprRegexecL_mono {L L' : Limits} (hle : L ≤ L') (env : Env) (ty : MType) (lno part : Nat) (p : Pat) (key val : Bytes) (st : St) :
    EqOrErr (exprRegexecL L env ty lno part p key val st) (exprRegexecL L' env ty lno part p key val st) := by
  unfold exprRegexecL
  cases env.rx p val with
  | «nomatch» => exact .inl rfl
  | error => exact .inl rfl
  | ok groups =>
    simp only
    rcases matchesAppendL_mono hle env st.ml
        { ty := ty, lno := lno, part := part, subs := matchCopy p val groups, pat := some p } with h | h
    · rw [h]; exact .inl rfl
    · right
      simp only [h, if_true]

theorem exprAppendL_mono {L L' : Limits} (hle : L ≤ L') (env : Env) (mh : Match) (st : St) (ok : Tri) :
    EqOrErr (exprAppendL L env mh st ok) (exprAppendL L' env mh st ok) := by
  unfold exprAppendL
  rcases matchesAppendL_mono hle env st.ml mh with h | h
  · rw [h]; exact .inl rfl
  · right
    simp only [h, if_true]

/-- The evaluation under the smaller limits gives the same verdict and the same match list, or its verdict is `error`. -/
theorem evalL_mono {L L' : Limits} (hle : L ≤ L') (hs : Sane L) (env : Env) (root : Msg) (e : Expr) :
    ∀ (part : Nat) (m : Msg) (st : St), EqOrErr (evalL L env root e part m st) (evalL L' env root e part m st) := by
  have hs' : Sane L' := hs.of_le hle
  induction e with
  | block lno e ih =>
    intro part m st
    simp only [evalL]
    rcases ih part m st with h | h
    · rw [h]; exact .inl rfl
    · right
      rcases hx : evalL L env root e part m st with ⟨t, s1⟩
      rw [hx] at h
      simp only at h
      subst h
      rfl
  | and lno l r ihl ihr =>
    intro part m st
    simp only [evalL]
    rcases ihl part m st with h | h
    · rw [h]
      rcases evalL L' env root l part m st with ⟨t, s1⟩
      cases t
      · exact ihr part m s1
      · exact .inl rfl
      · exact .inl rfl
    · right
      rcases hx : evalL L env root l part m st with ⟨t, s1⟩
      rw [hx] at h
      simp only at h
      subst h
      rfl
  | or lno l r ihl ihr =>
    intro part m st
    simp only [evalL]
    rcases ihl part m st with h | h
    · rw [h]
      rcases evalL L' env root l part m st with ⟨t, s1⟩
      cases t
      · exact .inl rfl
      · exact ihr part m s1
      · exact .inl rfl
    · right
      rcases hx : evalL L env root l part m st with ⟨t, s1⟩
      rw [hx] at h
      simp only at h
      subst h
      rfl
  | neg lno e ih =>
    intro part m st
    simp only [evalL]
    rcases ih part m st with h | h
    · rw [h]; exact .inl rfl
    · right
      rcases hx : evalL L env root e part m st with ⟨t, s1⟩
      rw [hx] at h
      simp only at h
      subst h
      rfl
  | mtch lno c rhs ihc ihr =>
    intro part m st
    simp only [evalL]
    rcases matchesAppendL_mono hle env st.ml { ty := .mtch, lno := lno, part := part } with h | h
    · rw [h]
      split
      · exact .inl rfl
      · rcases ihc part m { st with ml := (matchesAppendL L' env st.ml { ty := .mtch, lno := lno, part := part }).1 } with h2 | h2
        · rw [h2]
          rcases evalL L' env root c part m { st with ml := (matchesAppendL L' env st.ml { ty := .mtch, lno := lno, part := part }).1 } with ⟨t, s1⟩
          cases t
          · exact ihr part m s1
          · exact .inl rfl
          · exact .inl rfl
        · right
          rcases hx : evalL L env root c part m { st with ml := (matchesAppendL L' env st.ml { ty := .mtch, lno := lno, part := part }).1 } with ⟨t, s1⟩
          rw [hx] at h2
          simp only at h2
          subst h2
          rfl
    · right
      simp only [h, if_true]
  | all lno => intro part m st; exact .inl (by simp only [evalL])
  | attachment lno e ih =>
    intro part m st
    have hloop : ∀ (ps : List Msg) (i : Nat) (st : St),
        EqOrErr (evalL.loop L env root e part ps i st) (evalL.loop L' env root e part ps i st) := by
      intro ps
      induction ps with
      | nil => intro i st; exact .inl (by simp only [evalL.loop])
      | cons p rest ihp =>
        intro i st
        simp only [evalL.loop]
        rcases ih (if part == 0 then i + 1 else part) p st with h | h
        · rw [h]
          rcases evalL L' env root e (if part == 0 then i + 1 else part) p st with ⟨t, s1⟩
          cases t
          · exact .inl rfl
          · exact ihp (i + 1) s1
          · exact .inl rfl
        · right
          rcases hx : evalL L env root e (if part == 0 then i + 1 else part) p st with ⟨t, s1⟩
          rw [hx] at h
          simp only at h
          subst h
          rfl
    simp only [evalL]
    cases getAttachments m with
    | none => exact .inl rfl
    | some parts => exact hloop parts 0 st
  | attBlock lno blk ih =>
    intro part m st
    have hloop : ∀ (ps : List Msg) (i : Nat) (ev : Tri) (st : St),
        EqOrErr (evalL.loopB L env root blk part ps i ev st) (evalL.loopB L' env root blk part ps i ev st) := by
      intro ps
      induction ps with
      | nil => intro i ev st; exact .inl (by simp only [evalL.loopB])
      | cons p rest ihp =>
        intro i ev st
        simp only [evalL.loopB]
        rcases ih (if part == 0 then i + 1 else part) p st with h | h
        · rw [h]
          rcases evalL L' env root blk (if part == 0 then i + 1 else part) p st with ⟨t, s1⟩
          cases t
          · exact ihp (i + 1) .match s1
          · exact ihp (i + 1) ev s1
          · exact .inl rfl
        · right
          rcases hx : evalL L env root blk (if part == 0 then i + 1 else part) p st with ⟨t, s1⟩
          rw [hx] at h
          simp only at h
          subst h
          rfl
    simp only [evalL]
    cases getAttachments m with
    | none => exact .inl rfl
    | some parts => exact hloop parts 0 .nomatch st
  | body lno p =>
    intro part m st
    simp only [evalL]
    cases getBody m with
    | none => exact .inl rfl
    | some b => exact exprRegexecL_mono hle env _ _ _ _ _ _ _
  | date lno field cmp age =>
    intro part m st
    cases field <;> simp only [evalL] <;>
      (split
       · exact .inl rfl
       · exact .inl rfl
       · split
         · exact .inl rfl
         · exact exprRegexecL_mono hle env _ _ _ _ _ _ _)
  | header lno names p =>
    intro part m st
    have hvalues : ∀ (k : Bytes) (vs : List Bytes) (st : St),
        (evalL.keys.values L env lno p part k vs st = evalL.keys.values L' env lno p part k vs st) ∨
          ∃ s1, evalL.keys.values L env lno p part k vs st = some (.error, s1) := by
      intro k vs
      induction vs with
      | nil => intro st; exact .inl (by simp only [evalL.keys.values])
      | cons v more ihv =>
        intro st
        simp only [evalL.keys.values]
        rcases exprRegexecL_mono hle env .header lno part p k v st with h | h
        · rw [h]
          rcases exprRegexecL L' env .header lno part p k v st with ⟨t, s1⟩
          cases t
          · exact .inl rfl
          · exact ihv s1
          · exact .inl rfl
        · right
          rcases hx : exprRegexecL L env .header lno part p k v st with ⟨t, s1⟩
          rw [hx] at h
          simp only at h
          subst h
          exact ⟨s1, rfl⟩
    have hkeys : ∀ (ks : List Bytes) (st : St),
        EqOrErr (evalL.keys L env lno p part m ks st) (evalL.keys L' env lno p part m ks st) := by
      intro ks
      induction ks with
      | nil => intro st; exact .inl (by simp only [evalL.keys])
      | cons k rest ihk =>
        intro st
        simp only [evalL.keys]
        cases getHeader m k with
        | none => exact ihk st
        | some vals =>
          simp only
          rcases hvalues k vals st with h | ⟨s1, h⟩
          · rw [h]
            cases evalL.keys.values L' env lno p part k vals st with
            | none => exact ihk st
            | some r => exact .inl rfl
          · rw [h]; exact .inr rfl
    simp only [evalL]
    exact hkeys names st
  | new lno =>
    intro part m st
    left
    simp only [evalL, pathsliceL_beq3 hs hs' env.path (-2) (-2) [110, 101, 119] rfl]
  | old lno =>
    intro part m st
    left
    simp only [evalL, pathsliceL_beq3 hs hs' env.path (-2) (-2) [99, 117, 114] rfl]
  | stat lno path =>
    intro part m st
    simp only [evalL]
    rcases matchesAppendL_mono hle env st.ml { ty := .stat, lno := lno, part := part, strings := [path] } with h | h
    · rw [h]
      rcases (strlcpyL_Exact path).mono hle.1 with h1 | h1
      · right
        simp only [h1]
        split <;> rfl
      · rw [h1]
        cases strlcpyL L'.pathMax path with
        | none => exact .inl rfl
        | some p0 =>
          simp only
          cases interpolate (matchesAppendL L' env st.ml { ty := .stat, lno := lno, part := part, strings := [path] }).1.dropLast none p0 with
          | none => exact .inl rfl
          | some ip =>
            simp only
            rcases (strlcpyL_Exact ip).mono hle.1 with h2 | h2
            · right
              simp only [h2]
              split <;> rfl
            · rw [h2]
              exact .inl rfl
    · right
      simp only [h, if_true]
  | command lno argv =>
    intro part m st
    simp only [evalL]
    rcases matchesAppendL_mono hle env st.ml { ty := .command, lno := lno, part := part, strings := argv } with h | h
    · rw [h]; exact .inl rfl
    · right
      simp only [h, if_true]
  | move lno path =>
    intro part m st
    simp only [evalL]
    rcases (strlcpyL_Exact path).mono hle.1 with h1 | h1
    · rw [h1]; exact .inr rfl
    · rw [h1]
      cases strlcpyL L'.pathMax path with
      | none => exact .inl rfl
      | some p => exact exprAppendL_mono hle env _ _ _
  | flag lno subdir =>
    intro part m st
    simp only [evalL]
    rcases (strlcpyL_Exact subdir).mono hle.2.1 with h1 | h1
    · rw [h1]; exact .inr rfl
    · rw [h1]
      cases strlcpyL L'.nameMax1 subdir with
      | none => exact .inl rfl
      | some p => exact exprAppendL_mono hle env _ _ _
  | flags lno fl =>
    intro part m st
    simp only [evalL]
    split
    · exact .inl rfl
    · exact exprAppendL_mono hle env _ _ _
  | discard lno => intro part m st; simp only [evalL]; exact exprAppendL_mono hle env _ _ _
  | brk lno => intro part m st; simp only [evalL]; exact exprAppendL_mono hle env _ _ _
  | label lno ls => intro part m st; simp only [evalL]; exact exprAppendL_mono hle env _ _ _
  | pass lno => intro part m st; simp only [evalL]; exact exprAppendL_mono hle env _ _ _
  | reject lno => intro part m st; simp only [evalL]; exact exprAppendL_mono hle env _ _ _
  | exec lno si bo argv => intro part m st; simp only [evalL]; exact exprAppendL_mono hle env _ _ _
  | addHeader lno k v => intro part m st; simp only [evalL]; exact exprAppendL_mono hle env _ _ _


theorem matchInterpolateL_mono {L L' : Limits} (hle : L ≤ L') (macros : Option (List (Bytes × Bytes))) (ml : MatchList) (i : Nat)
    (mh : Match) (msgs : Nat → Msg) :
    matchInterpolateL L macros ml i mh msgs = none ∨ matchInterpolateL L macros ml i mh msgs = matchInterpolateL L' macros ml i mh msgs := by
  have hpath : ∀ (o : Option Bytes) (f : Bytes → Match × Option (Nat × Msg)),
      (match o with
        | none => none
        | some p => (strlcpyL L.pathMax p).map f) = none ∨
      (match o with
        | none => none
        | some p => (strlcpyL L.pathMax p).map f) =
      (match o with
        | none => none
        | some p => (strlcpyL L'.pathMax p).map f) := by
    intro o f
    cases o with
    | none => exact .inl rfl
    | some p =>
      simp only
      rcases (strlcpyL_Exact p).mono hle.1 with h | h
      · rw [h]; exact .inl rfl
      · rw [h]; exact .inr rfl
  unfold matchInterpolateL
  cases mh.ty <;> first | exact hpath _ _ | exact .inr rfl

theorem matchesInterpolateL_go_mono {L L' : Limits} (hle : L ≤ L') (macros : Option (List (Bytes × Bytes))) (rest : MatchList) :
    ∀ (i : Nat) (cur : MatchList) (msgs : Nat → Msg),
      matchesInterpolateL.go L macros i rest cur msgs = none ∨
        matchesInterpolateL.go L macros i rest cur msgs = matchesInterpolateL.go L' macros i rest cur msgs := by
  induction rest with
  | nil => intro i cur msgs; exact .inr (by simp only [matchesInterpolateL.go])
  | cons mh more ih =>
    intro i cur msgs
    simp only [matchesInterpolateL.go]
    rcases matchInterpolateL_mono hle macros cur i mh msgs with h | h
    · rw [h]; exact .inl rfl
    · rw [h]
      cases matchInterpolateL L' macros cur i mh msgs with
      | none => exact .inl rfl
      | some x => exact ih _ _ _

/-- The interpolation of the match list under the smaller limits gives the same list, or fails. -/
theorem matchesInterpolateL_mono {L L' : Limits} (hle : L ≤ L') (env : Env) (ml : MatchList) (msgs : Nat → Msg) :
    matchesInterpolateL L env ml msgs = none ∨ matchesInterpolateL L env ml msgs = matchesInterpolateL L' env ml msgs := by
  unfold matchesInterpolateL
  exact matchesInterpolateL_go_mono hle _ _ _ _ _

end Mdsort.Proofs.Limits
