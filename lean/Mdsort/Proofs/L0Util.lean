import Mdsort.Model.L0.Util
import Mdsort.Proofs.L0Decode
import Mdsort.Proofs.L0Message

/-!
# L0 `pathslice`, `ismacro`, `isbackref`: no fault
-/

namespace Mdsort.L0
open Mdsort Mdsort.L0.Buf

/-! ## pathslice -/

theorem countSlashes_eq (b : Buf) (p n : Nat) :
    countSlashes b p n =
      match strchr b p 47 with
      | .error e => .error e
      | .ok none => .ok n
      | .ok (some q) => countSlashes b (q + 1) (n + 1) := by
  rw [countSlashes]
  split <;> simp only [*]

theorem countSlashes_ok (b : Buf) {p : Nat} (h : b.HasNul p) (n : Nat) : ∃ r, countSlashes b p n = .ok r := by
  generalize hm : b.size - p = m
  induction m using Nat.strongRecOn generalizing p n with
  | _ m ih =>
    rw [countSlashes_eq]
    obtain ⟨hnone, hsome⟩ := strchr_spec h 47 (by decide)
    cases hq : Mdsort.strchr (b.view p) 47 with
    | none => rw [hnone hq]; exact ⟨n, rfl⟩
    | some q =>
      obtain ⟨j, hj, hpj, hnj, _, hgj⟩ := hsome q hq
      rw [hj]
      have := hnj.lt
      exact ih _ (by omega) (hnj.succ hgj (by decide)) _ rfl

/-- Invariant of the copy: `p` is inside the path string and `bp + bufsiz` never exceeds the destination. -/
def SliceSt.Inv (path : Buf) (st : SliceSt) : Prop := path.HasNul st.p ∧ st.bp + st.room ≤ st.buf.size

theorem sliceComp_eq {path : Buf} {st : SliceSt} {c : UInt8} (docopy : Bool) (hg : path.get? st.p = .ok c) :
    sliceComp path docopy st =
      if c == 47 || c == 0 then .ok (some st)
      else if !docopy then sliceComp path docopy { st with p := st.p + 1 }
      else if st.room == 0 then .ok none
      else
        match st.buf.set st.bp c with
        | .error e => .error e
        | .ok buf' => sliceComp path docopy { p := st.p + 1, buf := buf', bp := st.bp + 1, room := st.room - 1 } := by
  rw [sliceComp]; split
  · rename_i e he; rw [hg] at he; cases he
  · rename_i c' hc'; rw [hg] at hc'; cases hc'; rfl

theorem sliceComp_ok (path : Buf) (docopy : Bool) (st : SliceSt) (hinv : st.Inv path) :
    ∃ r, sliceComp path docopy st = .ok r ∧ ∀ s', r = some s' → s'.Inv path := by
  generalize hm : path.size - st.p = m
  induction m using Nat.strongRecOn generalizing st with
  | _ m ih =>
    obtain ⟨hn, hroom⟩ := hinv
    have := hn.lt
    rcases hn.cases with ⟨hg, _⟩ | ⟨c, hc, hg, _, hn'⟩
    · rw [sliceComp_eq docopy hg]
      exact ⟨some st, by simp, by intro s' hs'; cases hs'; exact ⟨hn, hroom⟩⟩
    · rw [sliceComp_eq docopy hg]
      by_cases h47 : (c == 47 || c == 0) = true
      · rw [if_pos h47]
        exact ⟨some st, rfl, by intro s' hs'; cases hs'; exact ⟨hn, hroom⟩⟩
      · rw [if_neg h47]
        cases docopy with
        | false =>
          simp only [Bool.not_false, if_true]
          exact ih _ (by simp only; omega) { st with p := st.p + 1 } ⟨hn', hroom⟩ rfl
        | true =>
          simp only [Bool.not_true, Bool.false_eq_true, if_false]
          by_cases hr : st.room = 0
          · simp only [hr, beq_self_eq_true, if_true]
            exact ⟨none, rfl, by simp⟩
          · have hr' : (st.room == 0) = false := by simpa using hr
            simp only [hr', Bool.false_eq_true, if_false]
            have hset := set_ok (b := st.buf) c (show st.bp < st.buf.size by omega)
            rw [hset]
            simp only
            exact ih _ (by simp only; omega) _ ⟨hn', by simp [Buf.size] at hroom ⊢; omega⟩ rfl

theorem sliceFirst_ok (isabs isrange docopy : Bool) (c : UInt8) (st : SliceSt)
    (hroom : st.bp + st.room ≤ st.buf.size) :
    ∃ r1, sliceFirst isabs isrange docopy c st = .ok r1 ∧
      ∀ s1, r1 = some s1 → s1.p = st.p ∧ s1.bp + s1.room ≤ s1.buf.size := by
  unfold sliceFirst
  cases docopy with
  | false => exact ⟨some st, by simp, by intro s1 hs1; cases hs1; exact ⟨rfl, hroom⟩⟩
  | true =>
    simp only [if_true]
    by_cases hr : st.room = 0
    · simp only [hr, beq_self_eq_true, if_true]; exact ⟨none, rfl, by simp⟩
    · have hr' : (st.room == 0) = false := by simpa using hr
      simp only [hr', Bool.false_eq_true, if_false]
      have hlt : st.bp < st.buf.size := by omega
      by_cases h1 : (isabs && isrange) = true
      · simp only [h1, if_true]
        rw [set_ok 47 hlt]
        exact ⟨_, rfl, by intro s1 hs1; cases hs1; exact ⟨rfl, by simp [Buf.size] at hroom ⊢; omega⟩⟩
      · simp only [h1, Bool.false_eq_true, if_false]
        by_cases h2 : (!isabs) = true
        · simp only [h2, if_true]
          rw [set_ok c hlt]
          exact ⟨_, rfl, by intro s1 hs1; cases hs1; exact ⟨rfl, by simp [Buf.size] at hroom ⊢; omega⟩⟩
        · simp only [h2, Bool.false_eq_true, if_false]
          exact ⟨some st, rfl, by intro s1 hs1; cases hs1; exact ⟨rfl, hroom⟩⟩

theorem sliceLoop_ok (path : Buf) (isrange : Bool) (beg end_ : Int) :
    ∀ (n i : Nat) (isabs : Bool) (st : SliceSt), st.Inv path →
      ∃ r, sliceLoop path isrange beg end_ n i isabs st = .ok r ∧ ∀ s', r = some s' → s'.Inv path := by
  intro n
  induction n with
  | zero =>
    intro i isabs st hinv
    exact ⟨some st, rfl, by intro s' hs'; cases hs'; exact hinv⟩
  | succ n ih =>
    intro i isabs st hinv
    obtain ⟨hn, hroom⟩ := hinv
    rw [sliceLoop]
    rcases hn.cases with ⟨hg, _⟩ | ⟨c, hc, hg, _, hn'⟩
    · rw [hg]
      exact ⟨some st, by simp, by intro s' hs'; cases hs'; exact ⟨hn, hroom⟩⟩
    · rw [hg]
      have hc' : (c == 0) = false := by simpa using hc
      simp only [hc', Bool.false_eq_true, if_false]
      obtain ⟨r1, hr1, hp1⟩ := sliceFirst_ok isabs isrange (decide (beg ≤ (i : Int)) && decide ((i : Int) ≤ end_)) c st hroom
      rw [hr1]
      cases r1 with
      | none => exact ⟨none, rfl, by simp⟩
      | some s1 =>
        obtain ⟨hp, hroom1⟩ := hp1 s1 rfl
        simp only
        obtain ⟨r2, hr2, hp2⟩ := sliceComp_ok path (decide (beg ≤ (i : Int)) && decide ((i : Int) ≤ end_))
          { s1 with p := s1.p + 1 } ⟨by simp only [hp]; exact hn', hroom1⟩
        rw [hr2]
        cases r2 with
        | none => exact ⟨none, rfl, by simp⟩
        | some s2 => exact ih (i + 1) true s2 (hp2 s2 rfl)

/-- `pathslice`: for every NUL-terminated path and every destination of at least `bufsiz` bytes, every read is
inside the path and every write - including the final `*bp = '\0'` - inside the destination. -/
theorem pathslice_ok (path : Buf) (hp : path.HasNul 0) (buf : Buf) (bufsiz : Nat) (hb : bufsiz ≤ buf.size)
    (beg end_ : Int) : ∃ r, pathslice path buf bufsiz beg end_ = .ok r := by
  unfold pathslice
  obtain ⟨c0, hc0⟩ : ∃ c, path.get? 0 = .ok c := ⟨_, get?_of_lt hp.lt⟩
  rw [hc0]
  simp only
  obtain ⟨nc, hnc⟩ := countSlashes_ok path hp (if (c0 == 47) = true then 0 else 1)
  rw [hnc]
  simp only
  cases sliceBounds nc beg end_ with
  | none => exact ⟨none, rfl⟩
  | some t =>
    obtain ⟨isrange, beg1, end1⟩ := t
    simp only
    obtain ⟨r, hr, hpost⟩ := sliceLoop_ok path isrange beg1 end1 nc 0 (c0 == 47)
      { p := 0, buf := buf, bp := 0, room := bufsiz } ⟨hp, by simpa using hb⟩
    rw [hr]
    cases r with
    | none => exact ⟨none, rfl⟩
    | some st =>
      obtain ⟨_, hroom⟩ := hpost st rfl
      simp only
      by_cases h0 : st.room = 0
      · simp only [h0, beq_self_eq_true, if_true]; exact ⟨none, rfl⟩
      · have h0' : (st.room == 0) = false := by simpa using h0
        simp only [h0', Bool.false_eq_true, if_false]
        rw [set_ok 0 (show st.bp < st.buf.size by omega)]
        exact ⟨_, rfl⟩

/-! ## ismacro -/

theorem scanBrace_eq {b : Buf} {i : Nat} {c : UInt8} (hg : b.get? i = .ok c) :
    scanBrace b i = if c == 125 then .ok (some i) else if c == 0 then .ok none else scanBrace b (i + 1) := by
  rw [scanBrace]; split
  · rename_i e he; rw [hg] at he; cases he
  · rename_i c' hc'; rw [hg] at hc'; cases hc'; rfl

theorem scanBrace_ok (b : Buf) {i : Nat} (h : b.HasNul i) : ∃ r, scanBrace b i = .ok r := by
  generalize hm : b.size - i = m
  induction m using Nat.strongRecOn generalizing i with
  | _ m ih =>
    have := h.lt
    rcases h.cases with ⟨hg, _⟩ | ⟨c, hc, hg, _, hn'⟩
    · rw [scanBrace_eq hg]; exact ⟨none, by simp⟩
    · rw [scanBrace_eq hg]
      by_cases h1 : (c == 125) = true
      · rw [if_pos h1]; exact ⟨_, rfl⟩
      · rw [if_neg h1]
        simp only [beq_iff_eq, hc, if_false]
        exact ih _ (by omega) hn' rfl

/-- `ismacro`: `str[1]` is read only after `str[0] == '$'`, the scan stops at the terminator. -/
theorem isMacro_ok (b : Buf) {i : Nat} (h : b.HasNul i) : ∃ r, isMacro b i = .ok r := by
  unfold isMacro
  rcases h.cases with ⟨hg, _⟩ | ⟨c0, hc0, hg, _, hn1⟩
  · rw [hg]; exact ⟨.inr false, by simp⟩
  · rw [hg]
    simp only
    split
    · exact ⟨_, rfl⟩
    · rcases hn1.cases with ⟨hg1, _⟩ | ⟨c1, hc1, hg1, _, hn2⟩
      · rw [hg1]; exact ⟨.inr false, by simp⟩
      · rw [hg1]
        simp only
        split
        · exact ⟨_, rfl⟩
        · have hn2 : b.HasNul (i + 2) := hn2
          obtain ⟨r, hr⟩ := scanBrace_ok b hn2
          rw [hr]
          cases r with
          | none => exact ⟨_, rfl⟩
          | some k =>
            simp only
            rw [strndup_spec hn2]
            exact ⟨_, rfl⟩

/-! ## isbackref -/

theorem strtoulDigits_eq {b : Buf} {i : Nat} {c : UInt8} (acc : Nat) (hg : b.get? i = .ok c) :
    strtoulDigits b i acc =
      if isdigit c then strtoulDigits b (i + 1) (acc * 10 + (c.toNat - 48)) else .ok (acc, i) := by
  rw [strtoulDigits]; split
  · rename_i e he; rw [hg] at he; cases he
  · rename_i c' hc'; rw [hg] at hc'; cases hc'; rfl

theorem strtoulDigits_ok (b : Buf) {i : Nat} (h : b.HasNul i) (acc : Nat) :
    ∃ v e, strtoulDigits b i acc = .ok (v, e) ∧ b.HasNul e := by
  generalize hm : b.size - i = m
  induction m using Nat.strongRecOn generalizing i acc with
  | _ m ih =>
    have := h.lt
    rcases h.cases with ⟨hg, _⟩ | ⟨c, hc, hg, _, hn'⟩
    · rw [strtoulDigits_eq acc hg]
      have : isdigit 0 = false := by decide
      simp only [this, Bool.false_eq_true, if_false]
      exact ⟨_, _, rfl, h⟩
    · rw [strtoulDigits_eq acc hg]
      by_cases hd : isdigit c = true
      · rw [if_pos hd]; exact ih _ (by omega) hn' _ rfl
      · rw [if_neg hd]; exact ⟨_, _, rfl, h⟩

theorem strtoul_tail (b : Buf) {i e : Nat} (hi : b.HasNul i) (he : b.HasNul e) (k v : Nat) (neg : Bool) :
    ∃ v' e', (if (e == k) = true then (Except.ok (some 0, i) : M (Option Nat × Nat))
      else if neg = true then .ok (strtoulNeg v, e)
      else if v > 2147483647 then .ok (none, e) else .ok (some v, e)) = .ok (v', e') ∧ b.HasNul e' := by
  by_cases h1 : (e == k) = true
  · rw [if_pos h1]; exact ⟨_, _, rfl, hi⟩
  · rw [if_neg h1]
    cases neg with
    | true => simp only [if_true]; exact ⟨_, _, rfl, he⟩
    | false =>
      simp only [Bool.false_eq_true, if_false]
      by_cases h2 : v > 2147483647
      · rw [if_pos h2]; exact ⟨_, _, rfl, he⟩
      · rw [if_neg h2]; exact ⟨_, _, rfl, he⟩

/-- `strtoul` reads white space, a sign and digits and stops at the terminator at the latest. -/
theorem strtoul_ok (b : Buf) {i : Nat} (h : b.HasNul i) :
    ∃ v e, strtoul b i = .ok (v, e) ∧ b.HasNul e := by
  unfold strtoul
  rw [skipIsspace_spec h]
  simp only
  obtain ⟨hnj, _⟩ := h.add _ ((List.takeWhile_prefix (p := isspace) (l := b.view i)).length_le)
  generalize i + ((b.view i).takeWhile isspace).length = j at hnj
  rcases hnj.cases with ⟨hg, _⟩ | ⟨sg, hsg, hg, _, hn1⟩
  · rw [hg]
    simp only
    have hnk : b.HasNul (if ((0 : UInt8) == 45 || (0 : UInt8) == 43) = true then j + 1 else j) := by
      have e1 : ((0 : UInt8) == 45 || (0 : UInt8) == 43) = false := by decide
      simp only [e1, Bool.false_eq_true, if_false]; exact hnj
    obtain ⟨v, e, hd, hne⟩ := strtoulDigits_ok b hnk 0
    rw [hd]
    simp only
    exact strtoul_tail b h hne _ _ _
  · rw [hg]
    simp only
    have hnk : b.HasNul (if (sg == 45 || sg == 43) = true then j + 1 else j) := by
      split
      · exact hn1
      · exact hnj
    obtain ⟨v, e, hd, hne⟩ := strtoulDigits_ok b hnk 0
    rw [hd]
    simp only
    exact strtoul_tail b h hne _ _ _

/-- `isbackref`: `s[1]` is read only after `s[0] == '\\'`, both `strtoul` calls and the look at `s[0]`, `s[1]`
after the number stay inside the string. -/
theorem isBackref_ok (b : Buf) {i : Nat} (h : b.HasNul i) : ∃ r, isBackref b i = .ok r := by
  unfold isBackref
  rcases h.cases with ⟨hg, _⟩ | ⟨c0, hc0, hg, _, hn1⟩
  · rw [hg]; exact ⟨.inr false, by simp⟩
  · rw [hg]
    simp only
    split
    · exact ⟨_, rfl⟩
    · rw [get?_of_lt hn1.lt]
      simp only
      split
      · exact ⟨_, rfl⟩
      · obtain ⟨v, e, hs, hne⟩ := strtoul_ok b hn1
        rw [hs]
        cases v with
        | none => exact ⟨_, rfl⟩
        | some val =>
          simp only
          rcases hne.cases with ⟨hge, _⟩ | ⟨d, hd, hge, _, hne1⟩
          · rw [hge]
            have e1 : ((0 : UInt8) == 46) = false := by decide
            have e2 : ((0 : UInt8) == 92) = false := by decide
            simp only [e1, e2, Bool.false_eq_true, if_false]
            exact ⟨_, rfl⟩
          · rw [hge]
            simp only
            split
            · obtain ⟨v2, e2, hs2, _⟩ := strtoul_ok b hne1
              rw [hs2]
              cases v2 <;> exact ⟨_, rfl⟩
            · split
              · rw [get?_of_lt hne1.lt]
                simp only
                split <;> exact ⟨_, rfl⟩
              · exact ⟨_, rfl⟩

theorem util_ok (b : Buf) (hb : b.Terminated) (i : Nat) (hi : i < b.size) :
    L0.nspaces b i = .ok (Mdsort.nspaces (b.view i)) ∧
    (∃ r, isMacro b i = .ok r) ∧
    (∃ r, isBackref b i = .ok r) ∧
    (∀ (buf : Buf) (bufsiz : Nat) (beg end_ : Int), bufsiz ≤ buf.size → ∃ r, pathslice b buf bufsiz beg end_ = .ok r) := by
  have h := hb.hasNul hi
  exact ⟨nspaces_spec h, isMacro_ok b h, isBackref_ok b h,
    fun buf bufsiz beg end_ hle => pathslice_ok b hb.hasNul0 buf bufsiz hle beg end_⟩

end Mdsort.L0
