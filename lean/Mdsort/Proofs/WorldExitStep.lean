import Mdsort.Proofs.WorldExitBasic

/-!
# One message of a whole run, under at most one fault: what is known when no error bit is set

`exit0_StepPost` is the specification of `processMessage` the walk needs: the maildir is returned
unchanged, every other registered entry and every older handle is as before (`WholeK`), the registry
stays consistent with the world, and - if the returned state has no error flag - the message was placed
according to the verdict of the rules (`exit0_Outcome`): the registry moved exactly its entry, the log
gained exactly its `-> destination` lines, every other directory entry is bound as before.

It is proved for a dry run (any rules: nothing moves) and for a real run with rules without discard.
-/

namespace Mdsort.Proofs
open Mdsort Mdsort.Model
open Mdsort.Proofs.World (wp wp_mono wp_bind_mono wp_call_any wpS wpS_mono wpS_bind_mono wpS_of_wp wpS_and wpS_call_any
  WholeK WholePF Located Delta At lk Ent bind_eq pure_eq call_bind ret_bind call_bind')

/-! ## what the rules decide for a file -/

/-- The directory the rules send the file `n` of `D` (content `c`) to: the directory of the last
move/flag/flags action; `D` itself when they do not act, and in a dry run. -/
def exit0_dest (env : PEnv) (orc : EvalOracles) (expr : Expr) (D n c : Bytes) : Bytes :=
  if env.dryrun = true then D
  else
    match verdict env orc expr D n c with
    | .act ml _ _ => World.finalDir ml D
    | _ => D

/-- The `-> destination` lines the run logs for the file. -/
def exit0_lines (env : PEnv) (orc : EvalOracles) (expr : Expr) (D n c : Bytes) : List Bytes :=
  match verdict env orc expr D n c with
  | .act ml _ _ => inspectLines env ml (D ++ [47] ++ n)
  | _ => []

/-- The file `n` of `D` with content `c` has been placed at the entry `key` with content `c'` as the rules
say, and `lines` are its log lines: no match - it is where it was; actions - in a dry run it is where it
was, in a real run it is in the directory of the last move/flag/flags action with the rewritten content
if there is a label/add-header action (in any case the original or the rewritten content); an error
verdict is excluded. -/
def exit0_Outcome (env : PEnv) (orc : EvalOracles) (expr : Expr) (D n c : Bytes) (key : Bytes × Bytes) (c' : Bytes)
    (lines : List Bytes) : Prop :=
  match verdict env orc expr D n c with
  | .act ml msgs _ =>
    lines = inspectLines env ml (D ++ [47] ++ n) ∧
    (if env.dryrun = true then key = (D, n) ∧ c' = c
     else key.1 = World.finalDir ml D ∧ (World.rewrites ml = true → c' = (messageWrite (msgs 0)).1) ∧
       (c' = c ∨ c' = (messageWrite (msgs 0)).1))
  | .nomatch => key = (D, n) ∧ c' = c ∧ lines = []
  | _ => False

theorem exit0_Outcome.dest {env : PEnv} {orc : EvalOracles} {expr : Expr} {D n c : Bytes} {key : Bytes × Bytes} {c' : Bytes}
    {lines : List Bytes} (h : exit0_Outcome env orc expr D n c key c' lines) : key.1 = exit0_dest env orc expr D n c := by
  unfold exit0_Outcome at h
  unfold exit0_dest
  cases hv : verdict env orc expr D n c with
  | act ml msgs fl =>
    rw [hv] at h
    by_cases hd : env.dryrun = true
    · simp only [hd, if_true] at h ⊢
      rw [h.2.1]
    · simp only [hd, if_false] at h ⊢
      exact h.2.1
  | «nomatch» =>
    rw [hv] at h
    rw [h.1]
    split <;> rfl
  | unparsable => rw [hv] at h; exact h.elim
  | error => rw [hv] at h; exact h.elim
  | interpFail => rw [hv] at h; exact h.elim

theorem exit0_Outcome.lines_eq {env : PEnv} {orc : EvalOracles} {expr : Expr} {D n c : Bytes} {key : Bytes × Bytes} {c' : Bytes}
    {lines : List Bytes} (h : exit0_Outcome env orc expr D n c key c' lines) : lines = exit0_lines env orc expr D n c := by
  unfold exit0_Outcome at h
  unfold exit0_lines
  cases hv : verdict env orc expr D n c with
  | act ml msgs fl => rw [hv] at h; exact h.1
  | «nomatch» => rw [hv] at h; exact h.2.2
  | unparsable => rw [hv] at h; exact h.elim
  | error => rw [hv] at h; exact h.elim
  | interpFail => rw [hv] at h; exact h.elim

/-! ## the registry after one message -/

/-- The registry `fs'` is `fs` with the entry `a` moved to `key` with content `c'`. -/
def exit0_FilesUpd (fs : Files) (a key : Bytes × Bytes) (c' : Bytes) (fs' : Files) : Prop :=
  (∀ x : Bytes × Bytes, fs'.get x.1 x.2 = if x = key then some c' else if x = a then none else fs.get x.1 x.2) ∧
  (∀ q, q ≠ a.1 → q ≠ key.1 → fs'.filter (fun e => e.1 == q) = fs.filter (fun e => e.1 == q))

theorem exit0_filesUpd_same {fs : Files} {a : Bytes × Bytes} {c : Bytes} (h : fs.get a.1 a.2 = some c) :
    exit0_FilesUpd fs a a c fs := by
  refine ⟨?_, fun _ _ _ => rfl⟩
  intro x
  by_cases hx : x = a
  · subst hx; simp [h]
  · simp [hx]

theorem exit0_filesUpd_move (fs : Files) (a key : Bytes × Bytes) (c' : Bytes) :
    exit0_FilesUpd fs a key c' ((fs.del a.1 a.2).put key.1 key.2 c') := by
  refine ⟨?_, ?_⟩
  · intro x
    rw [Files.whole_get_put, Files.whole_get_del]
    have e1 : (x.1 = key.1 ∧ x.2 = key.2) ↔ x = key := by
      constructor
      · rintro ⟨h1, h2⟩; exact Prod.ext h1 h2
      · rintro rfl; exact ⟨rfl, rfl⟩
    have e2 : (x.1 = a.1 ∧ x.2 = a.2) ↔ x = a := by
      constructor
      · rintro ⟨h1, h2⟩; exact Prod.ext h1 h2
      · rintro rfl; exact ⟨rfl, rfl⟩
    simp only [e1, e2]
  · intro q h1 h2
    rw [exit0_filter_put _ _ _ _ _ (Ne.symm h2), exit0_filter_del _ _ _ _ (Ne.symm h1)]

/-! ## the specification of one message -/

/-- What `processMessage` on the registered file `n` (content `c`) of the open maildir `md` establishes. -/
def exit0_StepPost (env : PEnv) (orc : EvalOracles) (expr : Expr) (md : Maildir) (n c : Bytes) (st : MainSt) (w : World)
    (r : MainSt × Maildir) (w' : World) : Prop :=
  r.2 = md ∧ WholeK (md.path, n) w.handles.length w w' ∧ (WholeReg w st.files → WholeReg w' r.1.files) ∧
  (r.1.error = false →
    ∃ key c' lines, exit0_Outcome env orc expr md.path n c key c' lines ∧
      exit0_FilesUpd st.files (md.path, n) key c' r.1.files ∧ r.1.log = st.log ++ lines ∧
      (key ≠ (md.path, n) → w.lookup key.1 key.2 = none) ∧
      ∀ x : Bytes × Bytes, x ≠ (md.path, n) → x ≠ key → w'.lookup x.1 x.2 = w.lookup x.1 x.2)

/-- `processMessage` meets `exit0_StepPost` under at most one fault, for the rules `expr`.  (`exit0_Outcome` refers to the
pure `verdict`: the theorems that establish `exit0_StepOK` are for rule trees that ask the operating system nothing,
`asksFree`.) -/
def exit0_StepOK (env : PEnv) (orc : EvalOracles) (expr : Expr) : Prop :=
  ∀ (md : Maildir) (n : Bytes) (st : MainSt) (w : World) (d : Handle) (c : Bytes) (fid : Nat) (b : Bool),
    md.dirH = some d → w.dirPath d = some md.path → pathjoin PATH_MAX md.root (subdirName md.subdir) = some md.path →
    st.files.get md.path n = some c → w.lookup md.path n = some fid → fid < w.nextFid → w.file fid = some ⟨c, c⟩ →
    wpS (processMessage env orc expr md n st) (fun _ r w' => exit0_StepPost env orc expr md n c st w r w') b w

/-! ## a message that is only parsed (dry run, or no action) - every fault plan -/

theorem exit0_quiet_processMessage (env : PEnv) (orc : EvalOracles) (expr : Expr) (md : Maildir) (name : Bytes) (st : MainSt)
    {w : World} {d : Handle} {content : Bytes} {fid : Nat}
    (hd : md.dirH = some d) (hp : w.dirPath d = some md.path) (hfc : st.files.get md.path name = some content)
    (hl : w.lookup md.path name = some fid) (hfree : asksFree expr = true)
    (hq : env.dryrun = true ∨ (verdict env orc expr md.path name content).acts = false) :
    wp (WholePF w) (processMessage env orc expr md name st)
      (fun r w' => WholePF w w' ∧ r.2 = md ∧ r.1.files = st.files ∧
        (r.1.error = false →
          ∃ lines, exit0_Outcome env orc expr md.path name content (md.path, name) content lines ∧
            r.1.log = st.log ++ lines)) w := by
  rw [processMessage_eq env orc expr md name st d content hd hfc]
  refine wp_bind_mono (whole_wp_all (World.whole_messageParseP d md.path name content hp hl)
    (all_messageParseP_as d md.path name content)) ?_
  rintro pm w0 ⟨⟨pf, hms⟩, hpa⟩
  cases pm with
  | none => exact ⟨pf, rfl, rfl, fun h => by cases h⟩
  | some ms =>
    have hv := msVerdict_of_parsed env orc expr md.path name content ms hpa
    rw [afterParse_asksFree env orc expr hfree, hv]
    obtain ⟨h1, h2, h3, h4, h5, -⟩ := hms ms rfl
    obtain ⟨p, mf, hpj, -, -, -, hpath, -⟩ := hpa ms rfl
    have hp' : ms.path = md.path ++ [47] ++ name := by rw [hpath]; exact World.pathjoin_eq hpj
    have freePF : ∀ (ms' : MsgSt) (r : MainSt × Maildir) (P : MainSt × Maildir → Prop), ms'.fd = ms.fd → P r →
        wp (WholePF w) ((freeP ms').bind fun _ => Prog.ret r) (fun r w' => WholePF w w' ∧ P r) w0 := by
      intro ms' r P hfd hP
      unfold freeP
      rw [hfd, h4]
      simp only [call_bind]
      refine wp_call_any fun rc => ?_
      have pf1 : WholePF w (stepWorld w0 (.close w.handles.length) rc) :=
        WholePF.step_of_core (World.core_close w0 _ rc) (pf.setObj (Nat.le_refl _) World.whole_nonW_closed)
      exact ⟨pf1, pf1, hP⟩
    cases hvd : verdict env orc expr md.path name content with
    | unparsable => simp only [afterVerdict]; exact freePF ms _ _ rfl ⟨rfl, rfl, fun h => by cases h⟩
    | error => simp only [afterVerdict]; exact freePF ms _ _ rfl ⟨rfl, rfl, fun h => by cases h⟩
    | interpFail => simp only [afterVerdict]; exact freePF ms _ _ rfl ⟨rfl, rfl, fun h => by cases h⟩
    | «nomatch» =>
      simp only [afterVerdict]
      refine freePF ms _ _ rfl ⟨rfl, rfl, fun _ => ⟨[], ?_, by simp⟩⟩
      simp [exit0_Outcome, hvd]
    | act ml msgs fl =>
      rcases hq with hdry | hna
      · simp only [afterVerdict, hdry, if_true]
        refine freePF _ _ _ rfl ⟨rfl, rfl, fun _ => ⟨inspectLines env ml ms.path, ?_, rfl⟩⟩
        simp [exit0_Outcome, hvd, hdry, hp']
      · rw [hvd] at hna; cases hna

/-- The dry run and the no-action case of a real run meet the specification. -/
theorem exit0_step_quiet (env : PEnv) (orc : EvalOracles) (expr : Expr) (md : Maildir) (n : Bytes) (st : MainSt)
    {w : World} {d : Handle} {c : Bytes} {fid : Nat} (b : Bool)
    (hd : md.dirH = some d) (hp : w.dirPath d = some md.path) (hfc : st.files.get md.path n = some c)
    (hl : w.lookup md.path n = some fid) (hfree : asksFree expr = true)
    (hq : env.dryrun = true ∨ (verdict env orc expr md.path n c).acts = false) :
    wpS (processMessage env orc expr md n st) (fun _ r w' => exit0_StepPost env orc expr md n c st w r w') b w := by
  refine wpS_mono (wpS_of_wp b (exit0_quiet_processMessage env orc expr md n st hd hp hfc hl hfree hq)) ?_
  rintro _ r w' ⟨pf, hmd, hfiles, hout⟩
  refine ⟨hmd, pf.toK _, fun hreg => by rw [hfiles]; exact hreg.of_pf pf, ?_⟩
  intro he
  obtain ⟨lines, hout', hlog⟩ := hout he
  refine ⟨(md.path, n), c, lines, hout', ?_, hlog, fun h => absurd rfl h, ?_⟩
  · rw [hfiles]; exact exit0_filesUpd_same hfc
  · intro x _ _
    exact World.lookup_of_dirs pf.dirs x.1 x.2

/-! ## a message on which the rules act, real run, at most one fault -/

theorem exit0_sf_act (env : PEnv) (orc : EvalOracles) (expr : Expr) (md : Maildir) (name : Bytes) (st : MainSt)
    {w : World} {d : Handle} {content : Bytes} {fid : Nat} {ml : MatchList} {msgs : Nat → Msg} {fl : MFlags}
    (hd : md.dirH = some d) (hp : w.dirPath d = some md.path)
    (hwf : pathjoin PATH_MAX md.root (subdirName md.subdir) = some md.path)
    (hfc : st.files.get md.path name = some content)
    (hl : w.lookup md.path name = some fid) (hlt : fid < w.nextFid) (hf : w.file fid = some ⟨content, content⟩)
    (hfree : asksFree expr = true)
    (hvd : verdict env orc expr md.path name content = .act ml msgs fl) (hml : NoDiscard ml)
    (hdry : env.dryrun = false) (b : Bool) :
    wpS (processMessage env orc expr md name st)
      (fun _ r w' => r.1.error = false →
        ∃ n c', r.1.files = (st.files.del md.path name).put (World.finalDir ml md.path) n c' ∧
          r.1.log = st.log ++ inspectLines env ml (md.path ++ [47] ++ name) ∧
          (World.rewrites ml = true → c' = (messageWrite (msgs 0)).1) ∧ (c' = content ∨ c' = (messageWrite (msgs 0)).1) ∧
          ((World.finalDir ml md.path, n) ≠ (md.path, name) → w.lookup (World.finalDir ml md.path) n = none) ∧
          ∀ x : Bytes × Bytes, x ≠ (md.path, name) → x ≠ (World.finalDir ml md.path, n) →
            w'.lookup x.1 x.2 = w.lookup x.1 x.2) b w := by
  rw [processMessage_eq env orc expr md name st d content hd hfc]
  refine wpS_bind_mono (wpS_of_wp b (whole_wp_all (World.whole_messageParseP d md.path name content hp hl)
    (all_messageParseP_as d md.path name content))) ?_
  rintro b1 pm w0 ⟨⟨pf, hms⟩, hpa⟩
  cases pm with
  | none => intro he; cases he
  | some ms =>
    have hv := msVerdict_of_parsed env orc expr md.path name content ms hpa
    rw [afterParse_asksFree env orc expr hfree]
    simp only [hv, hvd, afterVerdict, hdry, Bool.false_eq_true, if_false]
    obtain ⟨h1, h2, h3, h4, h5, -⟩ := hms ms rfl
    obtain ⟨p, mf, hpj, -, -, -, hpath, -⟩ := hpa ms rfl
    have hp' : ms.path = md.path ++ [47] ++ name := by rw [hpath]; exact World.pathjoin_eq hpj
    have hdlt : d < w.handles.length := World.lt_of_dirPath hp
    have hps0 : w0.dirPath d = some md.path := by rw [← hp]; exact World.dirPath_congr (pf.objs d hdlt)
    have hA : At w0 { src := md, chsrc := false, ms := { ms with msg := msgs 0, flags := fl }, reject := false } d fid := by
      refine ⟨hd, hps0, hwf, ?_, ?_, by rw [pf.nextFid]; exact hlt, ?_, ?_⟩
      · show ms.loc = some (md.path, ms.name)
        rw [h2, h1]
      · show w0.lookup md.path ms.name = some fid
        rw [h1, World.lookup_of_dirs pf.dirs]; exact hl
      · show w0.file fid = some ⟨ms.content, ms.content⟩
        rw [h3, World.whole_file_of_files pf.files]; exact hf
      · intro h hh
        have : ms.fd = some h := hh
        rw [h4] at this
        cases this
        exact ⟨h5, Ne.symm (Nat.ne_of_lt hdlt)⟩
    refine wpS_bind_mono (World.sf_matchesExec env ml _ hA hml b1) ?_
    rintro b2 x w1 ⟨nb, hloc, dl, hmsg, hcont, hfin⟩
    refine wpS_bind_mono (R := fun _ _ w2 => Located w2 x.1.ms nb ∧ Delta w0 w2 (md.path, ms.name) nb) ?_ ?_
    · unfold freeP
      split
      · rename_i h _
        simp only [call_bind]
        refine wpS_call_any fun r _ => ?_
        exact ⟨hloc.step _ r rfl (fun _ => trivial), dl.step _ r rfl (fun _ _ => trivial)⟩
      · exact ⟨hloc, dl⟩
    · rintro b3 _ w2 ⟨hloc2, dl2⟩
      intro he
      have he2 : x.2 = false := by
        simp only [Bool.or_eq_false_iff] at he
        exact he.2
      obtain ⟨hdir, hrw⟩ := hfin he2
      obtain ⟨hl2, fid2, hlk2, _, hf2⟩ := hloc2
      obtain ⟨p', n'⟩ := nb
      simp only at hdir
      subst hdir
      have hlkw : ∀ x, lk w0 x = lk w x := fun x => World.lookup_of_dirs pf.dirs x.1 x.2
      refine ⟨n', x.1.ms.content, ?_, ?_, ?_, ?_, ?_, ?_⟩
      · show afterExec _ md.path name x.1.ms = _
        unfold afterExec
        rw [hl2]
      · show st.log ++ inspectLines env ml ms.path = _
        rw [hp']
      · intro h; exact hrw h
      · rcases hcont with h | h
        · left; rw [h]; exact h3
        · right; exact h
      · intro hne
        have hne' : (md.path, ms.name) ≠ (World.finalDir ml md.path, n') := by
          rw [h1]; exact fun h => hne h.symm
        have := dl2.fresh hne'
        rw [hlkw] at this
        exact this
      · intro y hy1 hy2
        have := dl2.others y (by rw [h1]; exact hy1) hy2
        rw [hlkw] at this
        exact this

/-- A dry run meets the specification, whatever the rules are. -/
theorem exit0_step_dry (env : PEnv) (orc : EvalOracles) (expr : Expr) (hfree : asksFree expr = true) (hdry : env.dryrun = true) :
    exit0_StepOK env orc expr :=
  fun md n st _ _ _ _ b hd hp _ hfc hl _ _ => exit0_step_quiet env orc expr md n st b hd hp hfc hl hfree (.inl hdry)

/-- A real run with rules that never discard meets the specification. -/
theorem exit0_step_real (env : PEnv) (orc : EvalOracles) (expr : Expr) (hfree : asksFree expr = true) (hdry : env.dryrun = false)
    (hnd : WholeNoDiscard env orc expr) : exit0_StepOK env orc expr := by
  intro md n st w d c fid b hd hp hwf hfc hl hlt hf
  cases hvd : verdict env orc expr md.path n c with
  | act ml msgs fl =>
    have hA := wpS_of_wp b (whole_processMessage env orc expr md n st hd hp hwf hfc hl hlt hf hnd)
    have hB := exit0_sf_act env orc expr md n st hd hp hwf hfc hl hlt hf hfree hvd
      (hnd md.path n c [] ml msgs fl (by rw [verdictA_asksFree env orc expr hfree]; exact hvd)) hdry b
    refine wpS_mono (wpS_and hA hB) ?_
    rintro _ r w' ⟨⟨hmd, k, hreg⟩, hout⟩
    refine ⟨hmd, k, fun h => (hreg h).1, fun he => ?_⟩
    obtain ⟨n', c', h1, h2, h3, h4, h5, h6⟩ := hout he
    refine ⟨(World.finalDir ml md.path, n'), c', inspectLines env ml (md.path ++ [47] ++ n), ?_, ?_, h2, h5, h6⟩
    · simp only [exit0_Outcome, hvd, hdry, Bool.false_eq_true, if_false]
      exact ⟨trivial, trivial, h3, h4⟩
    · rw [h1]; exact exit0_filesUpd_move _ _ _ _
  | unparsable => exact exit0_step_quiet env orc expr md n st b hd hp hfc hl hfree (.inr (by rw [hvd]; rfl))
  | «nomatch» => exact exit0_step_quiet env orc expr md n st b hd hp hfc hl hfree (.inr (by rw [hvd]; rfl))
  | error => exact exit0_step_quiet env orc expr md n st b hd hp hfc hl hfree (.inr (by rw [hvd]; rfl))
  | interpFail => exact exit0_step_quiet env orc expr md n st b hd hp hfc hl hfree (.inr (by rw [hvd]; rfl))

end Mdsort.Proofs
