import Mdsort.Proofs.PartiesCopyLineage
import Mdsort.Proofs.PartiesExactly

/-! Exactly-once delivery for every kind of mdsort party (all action kinds, listing parties) and the
client under `H_iso`: the lineage fields of the invariant, its preservation along schedules, and
the theorem at quiescence. -/

namespace Mdsort.Proofs.Parties
set_option linter.unusedSimpArgs false
set_option linter.unusedVariables false
open Mdsort Mdsort.Model
open Mdsort.Proofs.World
open Mdsort.Proofs.Own

variable {M : Msg → Prop} {s0 s : Shared} {a : Nat} {ps : PState} {c : Call} {k : Res → Prog Bool}

theorem settled_transfer {s' : Shared} {g : Nat} (h : Settled M s0 s g) (ho : originIn s'.log g = originIn s.log g)
    (hf : s'.fs.file g = s.fs.file g) : Settled M s0 s' g := by
  obtain ⟨⟨p0, n0, h0⟩, hc⟩ := h
  refine ⟨⟨p0, n0, by rw [ho]; exact h0⟩, ?_⟩
  rcases hc with ⟨h1, h2⟩ | ⟨h1, m, f, hm, hfile, hd⟩
  · exact .inl ⟨h1, by rw [ho]; exact h2⟩
  · exact .inr ⟨h1, m, f, hm, by rw [hf]; exact hfile, hd⟩

theorem StepCtx.settled' (x : StepCtx M s0 s a ps c k) (p n : Bytes) (g : Nat)
    (hl : (stepCall s a ps c k).fs.lookup p n = some g) (hnf : NoFlight (stepCall s a ps c k) (p, n)) :
    Settled M s0 (stepCall s a ps c k) g := by
  rcases x.classify hl hnf with ⟨y, hrn, hok, hd, hs, hly, hynf, hyown, ho⟩ |
      ⟨y, gy, hul, hok, hs, hfl, hne, hly, hynf, hlz, ho⟩ | ⟨hl0, hnf0, ho, _, _⟩
  · exact settled_transfer (x.inv.settled y.1 y.2 g hly hynf) ho (x.file_same hly hyown)
  · -- the copy whose original has just been removed
    obtain ⟨⟨p0, n0, h0⟩, _⟩ := x.inv.settled y.1 y.2 gy hly hynf
    have hin : (p, n) ∈ ps.inFlight := by rw [hfl]; exact List.mem_singleton.2 rfl
    obtain ⟨g', hg', hge, f, hf, _, _, _, h4⟩ := x.flightFile hin
    rw [show s.fs.lookup (p, n).1 (p, n).2 = s.fs.lookup p n from rfl, hlz] at hg'
    cases hg'
    refine ⟨⟨p0, n0, by rw [ho]; exact h0⟩, .inr ⟨hge, ?_⟩⟩
    -- the protocol: the stream is closed and a complete message has been handed to it
    have hprot : (locOf ps.trace).st = none ∧ ∃ m, M m ∧ (locOf ps.trace).wr = (messageWrite m).1 := by
      cases c <;> simp [isUnlink] at hul
      rename_i d n0
      rcases x.shape with ⟨_, h0'⟩ | ⟨d', n', p', hF, hp', hfl'⟩
      · rw [h0'] at hin; cases hin
      have hpn : p' = p ∧ n' = n := by
        rw [hfl'] at hfl; simpa using hfl
      rcases x.proto with hI | ⟨_, h0'⟩
      · have hI : (d, n0) ∈ inFlightH ps.trace ∨ inFlightH ps.trace = [] ∨
            ((locOf ps.trace).st = none ∧ (locOf ps.trace).dup = none ∧ ∃ m, M m ∧ (locOf ps.trace).wr = (messageWrite m).1) := hI
        rcases hI with h1 | h1 | ⟨h1, _, h3⟩
        · exfalso
          rw [hF] at h1
          have hdn : d = d' ∧ n0 = n' := by simpa using h1
          apply hne
          have : callSrc (s.view ps) (.unlinkat d n0) = some (p', n0) := by simp [callSrc, view_dirPath, hdn.1, hp']
          rw [this] at hs
          rw [← Option.some.inj hs, hpn.1, hdn.2, hpn.2]
        · rw [hF] at h1; cases h1
        · exact ⟨h1, h3⟩
      · rw [hF] at h0'; cases h0'
    obtain ⟨hst, m, hm, hwr⟩ := hprot
    refine ⟨m, f, hm, ?_, by rw [h4 hst, hwr]⟩
    have hsafe : fileSafe (s.view ps) g c := by
      cases c <;> simp [isUnlink] at hul
      exact True.intro
    rw [stepCall_file, core_file (s.view ps) c _ g (x.inv.boundLt p n g hlz) hsafe]
    exact hf
  · exact settled_transfer (x.inv.settled p n g hl0 hnf0) ho (x.file_same hl0 (hnf0 a ps x.hp))

/-- The entry of the previous state a message of the new state has its lineage from. -/
theorem StepCtx.source (x : StepCtx M s0 s a ps c k) {e : Bytes × Bytes} {g : Nat}
    (hl : (stepCall s a ps c k).fs.lookup e.1 e.2 = some g) (hnf : NoFlight (stepCall s a ps c k) e) :
    ∃ σ gσ, s.fs.lookup σ.1 σ.2 = some gσ ∧ NoFlight s σ ∧ originIn (stepCall s a ps c k).log g = originIn s.log gσ ∧
      ((c.isRename = true ∧ isOk (predict (s.view ps) c) = true ∧ callDst (s.view ps) c = some e ∧ callSrc (s.view ps) c = some σ) ∨
       (isUnlink c = true ∧ isOk (predict (s.view ps) c) = true ∧ callSrc (s.view ps) c = some σ ∧ ps.inFlight = [e]) ∨
       (σ = e ∧ ¬ (isOk (predict (s.view ps) c) = true ∧ callSrc (s.view ps) c = some e))) := by
  obtain ⟨p, n⟩ := e
  rcases x.classify hl hnf with ⟨y, hrn, hok, hd, hs, hly, hynf, hyown, ho⟩ |
      ⟨y, gy, hul, hok, hs, hfl, hne, hly, hynf, hlz, ho⟩ | ⟨hl0, hnf0, ho, hns, _⟩
  · exact ⟨y, g, hly, hynf, ho, .inl ⟨hrn, hok, hd, hs⟩⟩
  · exact ⟨y, gy, hly, hynf, ho, .inr (.inl ⟨hul, hok, hs, hfl⟩)⟩
  · exact ⟨(p, n), g, hl0, hnf0, ho, .inr (.inr ⟨rfl, hns⟩)⟩

theorem StepCtx.once' (x : StepCtx M s0 s a ps c k) (p n : Bytes) (g : Nat) (p' n' : Bytes) (g' : Nat)
    (h1 : (stepCall s a ps c k).fs.lookup p n = some g) (h2 : (stepCall s a ps c k).fs.lookup p' n' = some g')
    (f1 : NoFlight (stepCall s a ps c k) (p, n)) (f2 : NoFlight (stepCall s a ps c k) (p', n'))
    (ho : originIn (stepCall s a ps c k).log g = originIn (stepCall s a ps c k).log g') : p = p' ∧ n = n' := by
  obtain ⟨σ1, g1, l1, nf1, o1, t1⟩ := x.source (e := (p, n)) h1 f1
  obtain ⟨σ2, g2, l2, nf2, o2, t2⟩ := x.source (e := (p', n')) h2 f2
  have hσ : σ1 = σ2 := by
    obtain ⟨e1, e2⟩ := x.inv.once σ1.1 σ1.2 g1 σ2.1 σ2.2 g2 l1 l2 nf1 nf2 (by rw [← o1, ← o2]; exact ho)
    exact Prod.ext e1 e2
  have fin : (p, n) = (p', n') → p = p' ∧ n = n' := fun e => by cases e; exact ⟨rfl, rfl⟩
  rcases t1 with ⟨r1, ok1, d1, s1⟩ | ⟨u1, ok1, s1, fl1⟩ | ⟨e1, ns1⟩
  · rcases t2 with ⟨r2, ok2, d2, s2⟩ | ⟨u2, ok2, s2, fl2⟩ | ⟨e2, ns2⟩
    · exact fin (Option.some.inj (d1.symm.trans d2))
    · rw [(rename_not_unlink r1).1] at u2; cases u2
    · exact absurd ⟨ok1, by rw [s1, hσ, e2]⟩ ns2
  · rcases t2 with ⟨r2, ok2, d2, s2⟩ | ⟨u2, ok2, s2, fl2⟩ | ⟨e2, ns2⟩
    · rw [(rename_not_unlink r2).1] at u1; cases u1
    · have := fl1.symm.trans fl2
      exact fin (by simpa using this)
    · exact absurd ⟨ok1, by rw [s1, hσ, e2]⟩ ns2
  · rcases t2 with ⟨r2, ok2, d2, s2⟩ | ⟨u2, ok2, s2, fl2⟩ | ⟨e2, ns2⟩
    · exact absurd ⟨ok2, by rw [s2, ← hσ, e1]⟩ ns1
    · exact absurd ⟨ok2, by rw [s2, ← hσ, e1]⟩ ns1
    · exact fin (e1.symm.trans (hσ.trans e2))

theorem StepCtx.kept' (x : StepCtx M s0 s a ps c k) (p0 n0 : Bytes) (f0 : Nat) (h0 : s0.fs.lookup p0 n0 = some f0) :
    (∃ p n g, (stepCall s a ps c k).fs.lookup p n = some g ∧ NoFlight (stepCall s a ps c k) (p, n) ∧
        originIn (stepCall s a ps c k).log g = f0) ∨
    (∃ e ∈ (stepCall s a ps c k).log, e.destroysRoot f0 = true) := by
  rcases x.inv.kept p0 n0 f0 h0 with ⟨p, n, g, hl, hnf, ho⟩ | ⟨e, he, hde⟩
  rotate_left
  · exact .inr ⟨e, by simp [he], hde⟩
  have hown : (p, n) ∉ ps.inFlight := hnf a ps x.hp
  have hosame : originIn (stepCall s a ps c k).log g = originIn s.log g := x.origin_settled hl hown
  by_cases hd : isOk (predict (s.view ps) c) = true ∧ callDst (s.view ps) c = some (p, n)
  · rcases dst_kind hd.2 with hk | hk
    · obtain ⟨z, hz, hnone, _, _⟩ := create_ok hk hd.1
      rw [hd.2] at hz; cases hz
      rw [show (s.view ps).lookup p n = s.fs.lookup p n from rfl, hl] at hnone; cases hnone
    · obtain ⟨y, z, gy, hy, hz, hly, hb⟩ := rename_ok hk hd.1
      by_cases hyz : y = (p, n)
      · -- renamed onto itself
        subst hyz
        rw [show (s.view ps).lookup p n = s.fs.lookup p n from rfl, hl] at hly
        cases hly
        exact .inl ⟨p, n, g, by rw [x.hL, if_pos hd, hb], x.noFlight_keep hnf hl, by rw [hosame]; exact ho⟩
      · -- replaced by another file
        right
        refine ⟨stepEvent s a ps c, by simp, ?_⟩
        have hsrc : (s.view ps).lookupE (callSrc (s.view ps) c) = some gy := by rw [hy]; exact hly
        have hdstf : (s.view ps).lookupE (callDst (s.view ps) c) = some g := by rw [hd.2]; exact hl
        have hne : gy ≠ g := by
          rintro rfl
          obtain ⟨e1, e2⟩ := x.inv.inj y.1 y.2 p n gy hly hl
          exact hyz (Prod.ext e1 e2)
        simp [Event.destroysRoot, stepEvent, hd.1, hk, hsrc, hdstf, hne, ho]
  by_cases hs : isOk (predict (s.view ps) c) = true ∧ callSrc (s.view ps) c = some (p, n)
  · rcases src_kind hs.2 with hk | hk
    · -- renamed away: the target holds it
      obtain ⟨y, z, gy, hy, hz, hly, hb⟩ := rename_ok hk hs.1
      rw [hs.2] at hy; cases hy
      rw [show (s.view ps).lookup p n = s.fs.lookup p n from rfl, hl] at hly
      cases hly
      left
      refine ⟨z.1, z.2, g, by rw [x.hL, if_pos ⟨hs.1, hz⟩, hb], ?_, by rw [hosame]; exact ho⟩
      intro i q hq
      rw [x.hpar] at hq
      by_cases hi : i = a
      · simp only [hi, if_true, Option.some.injEq] at hq
        subst hq
        rw [x.flightAfter, if_neg (fun h => by rw [(rename_not_unlink hk).2] at h; cases h.1), if_pos ⟨.inl hk, hs.1⟩]
        simp
      · simp only [hi, if_false] at hq
        exact fun h => x.dst_not_foreign i q z hi hq h ⟨hs.1, hz⟩
    · -- unlinked
      rcases x.shape with ⟨hF0, hfl0⟩ | ⟨d', n', p', hF, hp', hfl⟩
      · -- nothing in flight: removed outright
        right
        refine ⟨stepEvent s a ps c, by simp, ?_⟩
        have hsrc : (s.view ps).lookupE (callSrc (s.view ps) c) = some g := by rw [hs.2]; exact hl
        simp [Event.destroysRoot, stepEvent, hs.1, unlink_not_rename hk, hF0, hsrc, ho]
      · -- the copy takes over
        left
        have hin : (p', n') ∈ ps.inFlight := by rw [hfl]; exact List.mem_singleton.2 rfl
        obtain ⟨gz, hgz, _⟩ := x.inv.flightBound a ps (p', n') x.hp hin
        have hne : (p, n) ≠ (p', n') := by
          intro e; rw [e] at hown; exact hown hin
        have hnd' : ¬ (isOk (predict (s.view ps) c) = true ∧ callDst (s.view ps) c = some (p', n')) := by
          rintro ⟨_, hd'⟩
          rcases dst_kind hd' with h | h
          · rw [(create_not_rename h).2] at hk; cases hk
          · rw [(rename_not_unlink h).1] at hk; cases hk
        have hns' : ¬ (isOk (predict (s.view ps) c) = true ∧ callSrc (s.view ps) c = some (p', n')) := by
          rintro ⟨_, hs'⟩
          rw [hs.2] at hs'
          exact hne (Option.some.inj hs')
        refine ⟨p', n', gz, by rw [x.hL, if_neg hnd', if_neg hns']; exact hgz, ?_, ?_⟩
        · intro i q hq
          rw [x.hpar] at hq
          by_cases hi : i = a
          · simp only [hi, if_true, Option.some.injEq] at hq
            subst hq
            rw [x.flightAfter, if_neg (fun h => by rw [(create_not_rename h.1).2] at hk; cases hk), if_pos ⟨.inr hk, hs.1⟩]
            simp
          · simp only [hi, if_false] at hq
            exact fun h => x.inv.disjoint a i ps q (p', n') (fun e => hi e.symm) x.hp hq hin h
        · rw [x.origin_commit hk hs.1 hs.2 hfl hne hl hgz]; exact ho
  · -- untouched
    exact .inl ⟨p, n, g, by rw [x.hL, if_neg hd, if_neg hs]; exact hl, x.noFlight_keep hnf hl, by rw [hosame]; exact ho⟩

/-! ## the invariant along schedules -/

theorem cinv_step (s0 s : Shared) (hlt0 : ∀ p n f, s0.fs.lookup p n = some f → f < s0.fs.nextFid) (a : Nat)
    (hinv : CInv M s0 s) (hiso : isoStep s a = true) : CInv M s0 (stepParty s a) := by
  apply stepParty_cases (P := CInv M s0) hinv
  intro ps c k hp hc
  have x : StepCtx M s0 s a ps c k := ⟨hinv, hp, hc, hiso, hlt0⟩
  exact ⟨Nat.le_trans hinv.nextLe x.nextge, x.boundLt', x.inj', x.dirsOk', x.resolves', x.localOk', x.flightBound',
    x.disjoint', x.writing', x.tmpOk', x.files', x.settled', x.once', x.kept'⟩

/-- A party that executes one action list on a message of `M`. -/
def IsExecParty (M : Msg → Prop) (ps : PState) : Prop :=
  ∃ env ml st, M st.ms.msg ∧ ps.prog = errOf (matchesExec env ml st)

/-- A party that lists a directory and executes, for every name, the action list its rules give (on a message of `M`). -/
def IsScanParty (M : Msg → Prop) (ps : PState) : Prop :=
  ∃ env md rule fuel e, (∀ n ml ms, rule n = some (ml, ms) → M ms.msg) ∧ ps.prog = scanExec env md rule fuel e

/-- What is assumed of the initial state: nobody has started, every bound file id is allocated, no
file is bound twice (no hard links), the directory handles the parties hold refer to existing
directories, and every party is an mdsort run (one action list, or a listing run) or the client.
Any number of parties, any action kinds, any devices. -/
structure StartOKc (M : Msg → Prop) (s0 : Shared) : Prop where
  fresh : Fresh s0
  boundLt : ∀ (p n : Bytes) (f : Nat), s0.fs.lookup p n = some f → f < s0.fs.nextFid
  inj : ∀ (p n p' n' : Bytes) (f : Nat), s0.fs.lookup p n = some f → s0.fs.lookup p' n' = some f → p = p' ∧ n = n'
  dirsOk : ∀ (i : Nat) (ps : PState) (d : Handle) (p : Bytes), s0.parties[i]? = some ps →
    handlesDirPath ps.handles d = some p → (s0.fs.dir p).isSome
  parties : ∀ (i : Nat) (ps : PState), s0.parties[i]? = some ps → IsExecParty M ps ∨ IsScanParty M ps ∨ IsClientParty ps

theorem cinv_init (s0 : Shared) (h : StartOKc M s0) : CInv M s0 s0 := by
  have htr : ∀ (i : Nat) (ps : PState), s0.parties[i]? = some ps → ps.trace = [] :=
    fun i ps hp => h.fresh.2 ps (List.mem_of_getElem? hp)
  have hfl : ∀ (i : Nat) (ps : PState), s0.parties[i]? = some ps → ps.inFlight = [] := by
    intro i ps hp
    simp [PState.inFlight, htr i ps hp, inFlightH]
  have hnf : ∀ y, NoFlight s0 y := by
    intro y i ps hp hy
    rw [hfl i ps hp] at hy; cases hy
  have hlog : s0.log = [] := h.fresh.1
  refine ⟨Nat.le_refl _, h.boundLt, h.inj, h.dirsOk, ?_, ?_, ?_, ?_, ?_, ?_, fun _ _ => rfl, ?_, ?_, ?_⟩
  · intro i ps y hp hy
    simp [htr i ps hp, inFlightH] at hy
  · intro i ps hp
    have ht := htr i ps hp
    refine ⟨by simp [ht, inFlightH], ?_⟩
    rcases h.parties i ps hp with ⟨env, ml, st, hm, hprog⟩ | ⟨env, md, rule, fuel, e, hm, hprog⟩ | ⟨ops, hprog⟩
    · left
      rw [hprog, ht]
      exact copy_party env ml st hm
    · left
      rw [hprog, ht]
      exact copy_scanExec env md rule hm fuel e [] rfl
    · right
      rw [hprog, ht]
      exact ⟨calls_clientProg ops, rfl⟩
  · intro i ps y hp hy
    rw [hfl i ps hp] at hy; cases hy
  · intro i j ps qs y _ hp _ hy
    rw [hfl i ps hp] at hy; cases hy
  · intro i ps y g hp hy
    rw [hfl i ps hp] at hy; cases hy
  · intro i ps hp
    rw [TmpOK, htr i ps hp]
    exact ⟨(by intro h hh; cases hh), (by intro h hh; cases hh)⟩
  · intro p n g hl _
    refine ⟨⟨p, n, by rw [hlog]; exact hl⟩, .inl ⟨h.boundLt p n g hl, by rw [hlog]; rfl⟩⟩
  · intro p n g p' n' g' h1 h2 _ _ ho
    rw [hlog] at ho
    have : g = g' := ho
    subst this
    exact h.inj p n p' n' g h1 h2
  · intro p0 n0 f0 h0
    exact .inl ⟨p0, n0, f0, h0, hnf _, by rw [hlog]; rfl⟩

theorem cinv_run_aux (s0 : Shared) (h : StartOKc M s0) (sched : List Nat) :
    ∀ s, CInv M s0 s → Hiso s sched = true → CInv M s0 (runSched s sched) := by
  induction sched with
  | nil => intro s hs _; exact hs
  | cons a rest ih =>
    intro s hs hi
    simp only [Hiso, Bool.and_eq_true] at hi
    exact ih (stepParty s a) (cinv_step s0 s h.boundLt a hs hi.1) hi.2

theorem cinv_run (s0 : Shared) (h : StartOKc M s0) (sched : List Nat) (hiso : Hiso s0 sched = true) :
    CInv M s0 (runSched s0 sched) :=
  cinv_run_aux s0 h sched s0 (cinv_init s0 h) hiso

/-- A finished party has nothing in flight. -/
theorem finished_inFlight_c {ps : PState} (h : LocalOKc M ps) (hf : ps.finished = true) : ps.inFlight = [] := by
  apply inFlight_of_nil
  rcases h.2 with hw | ⟨_, h0⟩
  · cases hp : ps.prog with
    | ret e => rw [hp] at hw; exact hw
    | call c k => simp [PState.finished, hp] at hf
  · exact h0

/-- Exactly once, for every kind of party, on every complete schedule that respects `H_iso`. -/
theorem exactly_once_copy (s0 : Shared) (h0 : StartOKc M s0) (sched : List Nat) (hiso : Hiso s0 sched = true)
    (hq : (runSched s0 sched).quiescent = true) :
    (∀ p0 n0 f0, s0.fs.lookup p0 n0 = some f0 → (∀ e ∈ (runSched s0 sched).log, e.destroysRoot f0 = false) →
      ∃ p n g, (runSched s0 sched).fs.lookup p n = some g ∧ (runSched s0 sched).origin g = f0 ∧
        ∀ p' n' g', (runSched s0 sched).fs.lookup p' n' = some g' → (runSched s0 sched).origin g' = f0 → p' = p ∧ n' = n) ∧
    (∀ p n g, (runSched s0 sched).fs.lookup p n = some g →
      (∃ p0 n0, s0.fs.lookup p0 n0 = some ((runSched s0 sched).origin g)) ∧
      ((g = (runSched s0 sched).origin g ∧ (runSched s0 sched).fs.file g = s0.fs.file g) ∨
       (s0.fs.nextFid ≤ g ∧ ∃ m f, M m ∧ (runSched s0 sched).fs.file g = some f ∧ f.data = (messageWrite m).1))) ∧
    (∀ p n p' n' g, (runSched s0 sched).fs.lookup p n = some g → (runSched s0 sched).fs.lookup p' n' = some g → p = p' ∧ n = n') := by
  have hinv := cinv_run s0 h0 sched hiso
  have hnf : ∀ y, NoFlight (runSched s0 sched) y := by
    intro y i ps hp hy
    have hfin : ps.finished = true := by
      simp only [Shared.quiescent, List.all_eq_true] at hq
      exact hq ps (List.mem_of_getElem? hp)
    rw [finished_inFlight_c (hinv.localOk i ps hp) hfin] at hy
    cases hy
  refine ⟨?_, ?_, ?_⟩
  · intro p0 n0 f0 hl hnd
    rcases hinv.kept p0 n0 f0 hl with ⟨p, n, g, h, _, ho⟩ | ⟨e, he, hd⟩
    · refine ⟨p, n, g, h, ho, ?_⟩
      intro p' n' g' h' ho'
      exact hinv.once p' n' g' p n g h' h (hnf _) (hnf _) (ho'.trans ho.symm)
    · rw [hnd e he] at hd; cases hd
  · intro p n g hl
    obtain ⟨hex, hc⟩ := hinv.settled p n g hl (hnf _)
    refine ⟨hex, ?_⟩
    rcases hc with ⟨h1, h2⟩ | h
    · exact .inl ⟨h2.symm, hinv.files g h1⟩
    · exact .inr h
  · intro p n p' n' g h1 h2
    exact hinv.inj p n p' n' g h1 h2

end Mdsort.Proofs.Parties
