import Mdsort.Proofs.WorldStdinMsg

/-! `maildir_walk` over the spool: the directory stream yields `.`, `..` and the one spooled name;
that name is processed exactly once. -/

namespace Mdsort.Proofs.World
open Mdsort Mdsort.Model

/-- The names the directory stream of the spool will still yield. -/
def remOf (S : Spool) (w : World) : List Bytes :=
  match w.obj S.d with
  | .dir p snap pos => (snap.getD (((w.dir p).map sortedNames).getD [])).drop pos
  | _ => []

theorem InvX.step_plain {S : Spool} {X : Handle → Prop} {w0 w : World} (a : InvX S X w0 w) (c : Call) (r : Res)
    (hd : Call.dirOp c = false) (hsub : ∀ h, Call.subject c = some h → X h ∨ w0.handles.length ≤ h) :
    InvX S X w0 (stepWorld w c r) := by
  have hdirs : (stepWorld w c r).dirs = w.dirs := by rw [stepWorld_dirs]; exact core_dirs w c r hd
  refine ⟨?_, ?_, fun q => by rw [dir_of_dirs hdirs]; exact a.exist q, by rw [dir_of_dirs hdirs]; exact a.root⟩
  · intro h hh hx
    rw [stepWorld_obj, core_obj w c r h (Nat.lt_of_lt_of_le hh a.len), a.objs h hh hx]
    intro hs
    rcases hsub h hs with h1 | h1
    · exact hx h1
    · omega
  · rw [stepWorld_handles]; exact Nat.le_trans a.len (core_len w c r)

/-- The three outcomes of a `readdir` on the spool's stream. -/
theorem readdir_cases (S : Spool) (ft : Option Fault) {w : World} {snap : Option (List Bytes)} {pos : Nat}
    (hobj : w.obj S.d = .dir S.sp snap pos) :
    (∃ e, faultResult ft w (.readdir S.d) = .err e) ∨
    (faultResult ft w (.readdir S.d) = .eof ∧ remOf S w = []) ∨
    (∃ n t names, faultResult ft w (.readdir S.d) = .name n ∧ remOf S w = n :: t ∧
      (stepWorld w (.readdir S.d) (.name n)).obj S.d = .dir S.sp (some names) (pos + 1) ∧ names.drop (pos + 1) = t) := by
  have hlt : S.d < w.handles.length := lt_of_obj_ne_closed w S.d (by simp [hobj])
  rcases faultResult_cases ft w (.readdir S.d) (by intro _ h; cases h) (by intro _ _ h; cases h) with h | h
  · rw [h]
    generalize hn : snap.getD (((w.dir S.sp).map sortedNames).getD []) = names
    have hrem : remOf S w = names.drop pos := by simp [remOf, hobj, hn]
    cases hget : names[pos]? with
    | none =>
      refine .inr (.inl ⟨by simp [predict, hobj, hn, hget], ?_⟩)
      rw [hrem]
      apply List.drop_eq_nil_of_le
      have := List.getElem?_eq_none_iff.1 hget
      omega
    | some n =>
      have hposlt : pos < names.length := (List.getElem?_eq_some_iff.1 hget).1
      have hdropc : names.drop pos = n :: names.drop (pos + 1) := by
        rw [List.drop_eq_getElem_cons hposlt, (List.getElem?_eq_some_iff.1 hget).2]
      refine .inr (.inr ⟨n, names.drop (pos + 1), names, by simp [predict, hobj, hn, hget], by rw [hrem, hdropc], ?_, rfl⟩)
      have hc : core w (.readdir S.d) (.name n) = w.setObj S.d (.dir S.sp (some names) (pos + 1)) := by
        simp [core, applyOk, hobj, hn, hget]
      rw [stepWorld_obj, hc]
      simp [obj_setObj, hlt]
  · exact .inl h

theorem remOf_of_obj {S : Spool} {w : World} {names : List Bytes} {pos : Nat}
    (h : w.obj S.d = .dir S.sp (some names) pos) : remOf S w = names.drop pos := by
  simp [remOf, h]

/-- Facts about the spool that hold at every point of the walk. -/
structure WalkBase (S : Spool) (w0 w : World) : Prop where
  inv : InvX S (fun h => S.d ≤ h) w0 w
  dOpen : ∃ snap pos, w.obj S.d = .dir S.sp snap pos
  names : ∃ a b, (95 : UInt8) ∈ a ∧ (95 : UInt8) ∈ b ∧ NamesIn w S.sp [a, b]

theorem SpoolAll.toBase {S : Spool} {w0 w w' : World} (b : WalkBase S w0 w) (a : SpoolAll S w w') : WalkBase S w0 w' := by
  obtain ⟨snap, pos, ho⟩ := b.dOpen
  have hlt : S.d < w.handles.length := lt_of_obj_ne_closed w S.d (by simp [ho])
  refine ⟨b.inv.trans (a.1.mono (fun x hx => Nat.le_of_lt hx)), ⟨snap, pos, ?_⟩, a.2⟩
  rw [a.1.objs S.d hlt (Nat.lt_irrefl _)]; exact ho

/-- A step that only reads (`readdir`) keeps the base facts. -/
theorem WalkBase.readdir {S : Spool} {w0 w : World} (b : WalkBase S w0 w) (r : Res)
    (ho : ∃ snap pos, (stepWorld w (.readdir S.d) r).obj S.d = .dir S.sp snap pos) :
    WalkBase S w0 (stepWorld w (.readdir S.d) r) := by
  obtain ⟨x, y, hx, hy, hn⟩ := b.names
  have hdirs : (stepWorld w (.readdir S.d) r).dirs = w.dirs := by rw [stepWorld_dirs]; exact core_dirs _ _ _ rfl
  refine ⟨b.inv.step_plain (.readdir S.d) r rfl ?_, ho, x, y, hx, hy, hn.congr (dir_of_dirs hdirs _)⟩
  intro h hh
  cases hh
  exact .inl (Nat.le_refl _)

/-- The message has not been processed yet. -/
structure Pending (S : Spool) (name0 input : Bytes) (fid0 : Nat) (w : World) (st : MainSt) : Prop where
  dir : w.dir S.sp = some [(name0, fid0)]
  file : w.file fid0 = some ⟨input, input⟩
  fid : fid0 < w.nextFid
  files : st.files.get S.sp name0 = some input
  root : w.dir S.sr = some []

theorem obj_readdir_any (S : Spool) {w : World} {snap : Option (List Bytes)} {pos : Nat} (r : Res)
    (hobj : w.obj S.d = .dir S.sp snap pos) : ∃ snap' pos', (stepWorld w (.readdir S.d) r).obj S.d = .dir S.sp snap' pos' := by
  have hlt : S.d < w.handles.length := lt_of_obj_ne_closed w S.d (by simp [hobj])
  rw [stepWorld_obj]
  cases r with
  | name n =>
    simp only [core, applyOk, hobj]
    split
    · refine ⟨some (snap.getD (((w.dir S.sp).map sortedNames).getD [])), pos + 1, ?_⟩
      simp [obj_setObj, hlt]
    · exact ⟨_, _, hobj⟩
  | eof =>
    simp only [core, applyOk, hobj]
    split
    · refine ⟨some (snap.getD (((w.dir S.sp).map sortedNames).getD [])), pos, ?_⟩
      simp [obj_setObj, hlt]
    · exact ⟨_, _, hobj⟩
  | ok v => exact ⟨_, _, by simpa [core, applyOk] using hobj⟩
  | err e => exact ⟨_, _, by simpa [core, applyOk] using hobj⟩

/-- `readdir` changes nothing but the stream. -/
theorem readdir_core (w : World) (d : Handle) (r : Res) : core w (.readdir d) r = w ∨ ∃ o, core w (.readdir d) r = w.setObj d o := by
  cases r with
  | name n =>
    simp only [core, applyOk]
    split
    · split
      · exact .inr ⟨_, rfl⟩
      · exact .inl rfl
    · exact .inl rfl
  | eof =>
    simp only [core, applyOk]
    split
    · split
      · exact .inr ⟨_, rfl⟩
      · exact .inl rfl
    · exact .inl rfl
  | ok v => exact .inl (by simp [core, applyOk])
  | err e => exact .inl (by simp [core, applyOk])

theorem Pending.readdir {S : Spool} {name0 input : Bytes} {fid0 : Nat} {w : World} {st : MainSt}
    (p : Pending S name0 input fid0 w st) (r : Res) : Pending S name0 input fid0 (stepWorld w (.readdir S.d) r) st := by
  have hdirs : (stepWorld w (.readdir S.d) r).dirs = w.dirs := by rw [stepWorld_dirs]; exact core_dirs _ _ _ rfl
  refine ⟨by rw [dir_of_dirs hdirs]; exact p.dir, ?_, ?_, p.files, by rw [dir_of_dirs hdirs]; exact p.root⟩
  · rw [stepWorld_file]
    rcases readdir_core w S.d r with h | ⟨o, h⟩ <;> rw [h]
    · exact p.file
    · exact p.file
  · rw [stepWorld_nextFid]
    rcases readdir_core w S.d r with h | ⟨o, h⟩ <;> rw [h]
    · exact p.fid
    · exact p.fid

theorem Done.step {S : Spool} {env : PEnv} {orc : EvalOracles} {expr : Expr} {input name0 : Bytes} {w : World}
    (h : Done S env orc expr input name0 w) (c : Call) (r : Res) (hc : Harmless c) :
    Done S env orc expr input name0 (stepWorld w c r) := by
  obtain ⟨fl, as, h1, h2⟩ := h
  exact ⟨fl, as, h1, h2.step c r hc⟩

/-- The walk over the spool. `pending`: the spooled name is still to come. -/
theorem spec_walk_sp (S : Spool) (hS : SpoolShape S) (env : PEnv) (orc : EvalOracles) (expr : Expr) (name0 input : Bytes)
    (fid0 : Nat) (h95 : (95 : UInt8) ∈ name0) (w0 : World) (fuel : Nat) (st : MainSt) {w : World} (pending : Bool)
    (base : WalkBase S w0 w)
    (R1 : ∀ x ∈ remOf S w, x = [46] ∨ x = [46, 46] ∨ x = name0)
    (R2 : (remOf S w).Nodup)
    (R4 : (remOf S w).length < fuel)
    (hp : pending = true → name0 ∈ remOf S w ∧ Pending S name0 input fid0 w st)
    (hq : pending = false → name0 ∉ remOf S w ∧ (∃ names pos, w.obj S.d = .dir S.sp (some names) pos) ∧
      (st.error = false → Done S env orc expr input name0 w)) :
    wp (fun _ => True) (walk env orc expr fuel (spoolMd S) st)
      (fun r w' => r.2 = spoolMd S ∧ WalkBase S w0 w' ∧
        (r.1.error = false → Done S env orc expr input name0 w')) w := by
  induction fuel generalizing w st pending with
  | zero => exact absurd R4 (Nat.not_lt_zero _)
  | succ fuel ih =>
    obtain ⟨snap, pos, hobj⟩ := base.dOpen
    have hnd := notDot_of_mem h95
    unfold walk
    simp only [spoolMd, bind_eq, pure_eq, call_bind]
    intro ft
    refine ⟨trivial, ?_⟩
    have base' := base.readdir (faultResult ft w (.readdir S.d)) (obj_readdir_any S _ hobj)
    rcases readdir_cases S ft hobj with ⟨e, he⟩ | ⟨he, hrem⟩ | ⟨n, t, names, he, hrem, hobj', hdrop⟩
    · rw [he] at base' ⊢
      exact ⟨rfl, base', by intro h; cases h⟩
    · rw [he] at base' ⊢
      dsimp only
      cases pending with
      | true =>
        have := (hp rfl).1
        rw [hrem] at this
        cases this
      | false => exact ⟨rfl, base', fun h => ((hq rfl).2.2 h).step _ _ trivial⟩
    · rw [he] at base' ⊢
      have hrem1 : remOf S (stepWorld w (.readdir S.d) (.name n)) = t := by rw [remOf_of_obj hobj', hdrop]
      rw [hrem] at R1 R2 R4
      have R1' : ∀ x ∈ t, x = [46] ∨ x = [46, 46] ∨ x = name0 := fun x hx => R1 x (List.mem_cons_of_mem _ hx)
      have R2' : t.Nodup := (List.nodup_cons.1 R2).2
      have hnt : n ∉ t := (List.nodup_cons.1 R2).1
      have R4' : t.length < fuel := by simpa using R4
      dsimp only
      by_cases hdot : (n == [46] || n == [46, 46]) = true
      · simp only [hdot, if_true]
        have hne : name0 ≠ n := by
          simp only [Bool.or_eq_true, beq_iff_eq] at hdot
          rcases hdot with h | h
          · rw [h]; exact hnd.1
          · rw [h]; exact hnd.2
        refine ih st pending base' (by rw [hrem1]; exact R1') (by rw [hrem1]; exact R2') (by rw [hrem1]; exact R4') ?_ ?_
        · intro hpp
          obtain ⟨h1, h2⟩ := hp hpp
          rw [hrem] at h1
          rw [hrem1]
          refine ⟨?_, h2.readdir _⟩
          rcases List.mem_cons.1 h1 with h | h
          · exact absurd h hne
          · exact h
        · intro hqq
          obtain ⟨h1, _, h3⟩ := hq hqq
          rw [hrem] at h1
          rw [hrem1]
          exact ⟨fun h => h1 (List.mem_cons_of_mem _ h), ⟨names, pos + 1, hobj'⟩, fun h => (h3 h).step _ _ trivial⟩
      · simp only [hdot]
        have hn0 : n = name0 := by
          rcases R1 n (List.mem_cons_self ..) with h | h | h
          · simp [h] at hdot
          · simp [h] at hdot
          · exact h
        subst hn0
        cases pending with
        | false =>
          have := (hq rfl).1
          rw [hrem] at this
          exact absurd (List.mem_cons_self ..) this
        | true =>
          obtain ⟨_, P⟩ := hp rfl
          have P1 := P.readdir (.name n)
          have hdp1 : (stepWorld w (.readdir S.d) (.name n)).dirPath S.d = some S.sp := dirPath_of_obj hobj'
          refine wp_bind_mono (spec_processMessage_sp S hS env orc expr st n input fid0 hdp1 P1.root P1.dir P1.file P1.fid h95 P1.files) ?_
          rintro ⟨st', md'⟩ w2 ⟨hmd, all2, hdone⟩
          dsimp only at hmd hdone ⊢
          subst hmd
          have hlt1 : S.d < (stepWorld w (.readdir S.d) (.name n)).handles.length :=
            lt_of_obj_ne_closed _ S.d (by simp [hobj'])
          have hobj2 : w2.obj S.d = .dir S.sp (some names) (pos + 1) := by
            rw [all2.1.objs S.d hlt1 (Nat.lt_irrefl _)]; exact hobj'
          have hrem2 : remOf S w2 = t := by rw [remOf_of_obj hobj2, hdrop]
          refine ih st' false (all2.toBase base') (by rw [hrem2]; exact R1') (by rw [hrem2]; exact R2')
            (by rw [hrem2]; exact R4') (by intro h; cases h) ?_
          intro _
          rw [hrem2]
          exact ⟨hnt, ⟨names, pos + 1, hobj2⟩, fun h => (hdone h).2⟩

end Mdsort.Proofs.World
