import Mdsort.Spec.HeaderCond
import Mdsort.Proofs.Header

/-!
# The two loops of `expr_eval_header` (C10)

`eval.keys` / `eval.keys.values` (the auxiliary definitions of the `.header` case of
`Model.eval`) are a `find?` over the candidate list (names order, then occurrence order),
followed by one `expr_regexec` on the candidate found.
-/

namespace Mdsort.Proofs
open Mdsort Mdsort.Model Mdsort.Spec

/-! ## `matches_append` cannot fail for an entry that is not a path -/

theorem matchesMerge_ty (ml : MatchList) (mh : Match) : (matchesMerge ml mh).2.ty = mh.ty := by
  unfold matchesMerge
  split
  · rfl
  · split
    · split
      · rfl
      · dsimp only
        split
        · rfl
        · dsimp only
          split <;> rfl
    · rfl

/-- `matches_append` only fails in `pathslice`/`pathjoin`, which it only calls for entries
flagged `EXPR_FLAG_PATH` in `expr_alloc`. -/
theorem matchesAppend_nonpath (env : Env) (ml : MatchList) (mh : Match) (hp : mh.ty.isPath = false) :
    (matchesAppend env ml mh).2 = false := by
  have h := matchesMerge_ty ml mh
  unfold matchesAppend
  generalize matchesMerge ml mh = r at h
  obtain ⟨ml1, mh1⟩ := r
  dsimp only at h ⊢
  rw [h, hp]
  rfl

/-- Generated table: header, body, date entries are not paths, nor move/flag (which merge). -/
theorem header_not_path : MType.header.isPath = false := by decide
theorem date_not_path : MType.date.isPath = false := by decide

/-- For an entry that is neither a path nor move/flag, `matches_append` appends and succeeds. -/
theorem matchesAppend_simple (env : Env) (ml : MatchList) (mh : Match) (hp : mh.ty.isPath = false)
    (hm : mh.ty ≠ .move) (hf : mh.ty ≠ .flag) : matchesAppend env ml mh = (ml ++ [mh], false) := by
  unfold matchesAppend matchesMerge
  have : (mh.ty != .move && mh.ty != .flag) = true := by simp [hm, hf]
  simp [this, hp]

/-! ## one `expr_regexec` -/

/-- The outcome of a header condition decided by candidate `(k, v)`. -/
def headerHit (env : Env) (lno part : Nat) (p : Pat) (k v : Bytes) (st : St) : Tri × St :=
  match env.rx p v with
  | .nomatch => (.nomatch, st)
  | .error => (.error, st)
  | .ok groups => (.match, { st with ml := st.ml ++ [headerEntry env.dryrun lno part p k v groups] })

theorem exprRegexec_header (env : Env) (lno part : Nat) (p : Pat) (k v : Bytes) (st : St) :
    exprRegexec env .header lno part p k v st = headerHit env lno part p k v st := by
  unfold exprRegexec headerHit
  cases h : env.rx p v with
  | «nomatch» => rfl
  | error => rfl
  | ok groups =>
    dsimp only
    rw [matchesAppend_simple env st.ml _ header_not_path (by dsimp only; decide) (by dsimp only; decide)]
    cases hd : env.dryrun <;> simp [headerEntry]

/-- The outcome of the regex step of a date condition. -/
def dateHit (env : Env) (lno part : Nat) (date : Bytes) (st : St) : Tri × St :=
  match env.rx { src := [46, 42] } date with
  | .nomatch => (.nomatch, st)
  | .error => (.error, st)
  | .ok groups => (.match, { st with ml := st.ml ++ [dateEntry env.dryrun lno part date groups] })

theorem exprRegexec_date (env : Env) (lno part : Nat) (date : Bytes) (st : St) :
    exprRegexec env .date lno part { src := [46, 42] } (ofString "Date") date st = dateHit env lno part date st := by
  unfold exprRegexec dateHit
  cases h : env.rx { src := [46, 42] } date with
  | «nomatch» => rfl
  | error => rfl
  | ok groups =>
    dsimp only
    rw [matchesAppend_simple env st.ml _ date_not_path (by dsimp only; decide) (by dsimp only; decide)]
    cases hd : env.dryrun <;> simp [dateEntry]

/-! ## the loops -/

theorem firstNonNomatch_nil (rx : Bytes → RxRes) : firstNonNomatch rx [] = none := rfl

theorem firstNonNomatch_cons_nomatch (rx : Bytes → RxRes) (c : Bytes × Bytes) (rest : List (Bytes × Bytes))
    (h : rx c.2 = .nomatch) : firstNonNomatch rx (c :: rest) = firstNonNomatch rx rest := by
  simp [firstNonNomatch, h]

theorem firstNonNomatch_cons_hit (rx : Bytes → RxRes) (c : Bytes × Bytes) (rest : List (Bytes × Bytes))
    (h : rx c.2 ≠ .nomatch) : firstNonNomatch rx (c :: rest) = some c := by
  simp [firstNonNomatch, h]

theorem firstNonNomatch_append (rx : Bytes → RxRes) (l1 l2 : List (Bytes × Bytes)) :
    firstNonNomatch rx (l1 ++ l2) = (firstNonNomatch rx l1).or (firstNonNomatch rx l2) := by
  simp [firstNonNomatch, List.find?_append]

/-- The inner loop: over the occurrences of one name. -/
theorem values_eq (env : Env) (lno part : Nat) (p : Pat) (k : Bytes) (st : St) : ∀ (vs : List Bytes),
    eval.keys.values env lno p part k vs st =
      (firstNonNomatch (env.rx p) (vs.map fun v => (k, v))).map fun c => headerHit env lno part p c.1 c.2 st := by
  intro vs
  induction vs with
  | nil => simp [eval.keys.values, firstNonNomatch]
  | cons v more ih =>
    unfold eval.keys.values
    rw [exprRegexec_header, List.map_cons]
    cases h : env.rx p v with
    | «nomatch» =>
      rw [firstNonNomatch_cons_nomatch _ _ _ h]
      simp only [headerHit, h]
      exact ih
    | error =>
      rw [firstNonNomatch_cons_hit _ _ _ (by simp [h])]
      simp only [headerHit, h, Option.map_some]
    | ok g =>
      rw [firstNonNomatch_cons_hit _ _ _ (by simp [h])]
      simp only [headerHit, h, Option.map_some]

/-- Candidates as the model sees them: `message_get_header` per name. -/
def modelCands (m : Msg) (names : List Bytes) : List (Bytes × Bytes) :=
  names.flatMap fun k => ((getHeader m k).getD []).map fun v => (k, v)

/-- The outer loop: over the names. -/
theorem keys_eq (env : Env) (lno part : Nat) (p : Pat) (m : Msg) (st : St) : ∀ (ks : List Bytes),
    eval.keys env lno p part m ks st =
      match firstNonNomatch (env.rx p) (modelCands m ks) with
      | none => (.nomatch, st)
      | some c => headerHit env lno part p c.1 c.2 st := by
  intro ks
  induction ks with
  | nil => simp [eval.keys, modelCands, firstNonNomatch]
  | cons k rest ih =>
    unfold eval.keys
    have hc : modelCands m (k :: rest) = (((getHeader m k).getD []).map fun v => (k, v)) ++ modelCands m rest := by
      simp [modelCands]
    rw [hc, firstNonNomatch_append]
    cases hg : getHeader m k with
    | none =>
      simp only [Option.getD_none, List.map_nil, firstNonNomatch_nil, Option.none_or]
      exact ih
    | some vals =>
      dsimp only
      rw [values_eq, Option.getD_some]
      cases hf : firstNonNomatch (env.rx p) (vals.map fun v => (k, v)) with
      | none => simp only [Option.map_none, Option.none_or]; exact ih
      | some c => simp only [Option.map_some, Option.some_or]

theorem eval_header_model (env : Env) (root : Msg) (lno : Nat) (names : List Bytes) (p : Pat) (part : Nat)
    (m : Msg) (st : St) :
    eval env root (.header lno names p) part m st =
      match firstNonNomatch (env.rx p) (modelCands m names) with
      | none => (.nomatch, st)
      | some c => headerHit env lno part p c.1 c.2 st := by
  rw [eval]
  exact keys_eq env lno part p m st names

/-! ## on a parsed message -/

theorem modelCands_parse (m : Bytes) (fs : List (Bytes × Bytes)) (b : Bytes) (h : Spec.read m = some (fs, b))
    (names : List Bytes) : modelCands (parseMessage m) names = headerCands fs names := by
  unfold modelCands headerCands
  congr 1
  funext k
  rw [getHeader_eq_spec m fs b k h]
  cases hv : headerValues fs k <;> simp

theorem firstNonNomatch_some (rx : Bytes → RxRes) (cands : List (Bytes × Bytes)) (c : Bytes × Bytes)
    (h : firstNonNomatch rx cands = some c) :
    rx c.2 ≠ .nomatch ∧ ∃ pre post, cands = pre ++ c :: post ∧ ∀ x ∈ pre, rx x.2 = .nomatch := by
  unfold firstNonNomatch at h
  have h1 := List.find?_some h
  obtain ⟨pre, post, he, hpre⟩ := List.find?_eq_some_iff_append.1 h |>.2
  refine ⟨by simpa using h1, pre, post, he, ?_⟩
  intro x hx
  simpa using hpre x hx

theorem firstNonNomatch_none (rx : Bytes → RxRes) (cands : List (Bytes × Bytes)) :
    firstNonNomatch rx cands = none ↔ ∀ x ∈ cands, rx x.2 = .nomatch := by
  simp [firstNonNomatch]

theorem firstNonNomatch_of_split (rx : Bytes → RxRes) (pre post : List (Bytes × Bytes)) (c : Bytes × Bytes)
    (hpre : ∀ x ∈ pre, rx x.2 = .nomatch) (hc : rx c.2 ≠ .nomatch) :
    firstNonNomatch rx (pre ++ c :: post) = some c := by
  rw [firstNonNomatch_append, (firstNonNomatch_none rx pre).2 hpre, Option.none_or,
    firstNonNomatch_cons_hit _ _ _ hc]

/-- The header condition as a whole, on a well-formed message. -/
theorem eval_header_spec (env : Env) (root : Msg) (m : Bytes) (fs : List (Bytes × Bytes)) (b : Bytes)
    (h : Spec.read m = some (fs, b)) (lno : Nat) (names : List Bytes) (p : Pat) (part : Nat) (st : St) :
    eval env root (.header lno names p) part (parseMessage m) st =
      match firstNonNomatch (env.rx p) (headerCands fs names) with
      | none => (.nomatch, st)
      | some (k, v) =>
        match env.rx p v with
        | .nomatch => (.nomatch, st)
        | .error => (.error, st)
        | .ok groups => (.match, { st with ml := st.ml ++ [headerEntry env.dryrun lno part p k v groups] }) := by
  rw [eval_header_model, modelCands_parse m fs b h]
  cases firstNonNomatch (env.rx p) (headerCands fs names) with
  | none => rfl
  | some c => obtain ⟨k, v⟩ := c; rfl

/-! ## the date condition on the `Date:` header -/

theorem getHeader1_parse (m : Bytes) (fs : List (Bytes × Bytes)) (b : Bytes) (h : Spec.read m = some (fs, b))
    (name : Bytes) : getHeader1 (parseMessage m) name = (headerValues fs name).head? := by
  unfold getHeader1
  rw [getHeader_eq_spec m fs b name h]
  cases hv : headerValues fs name <;> simp

/-- `date header < age` / `> age`: the first `Date:` occurrence (decoded logical value) is
parsed; none = no match, unparsable = error, else the age test, then `.*` on the text. -/
theorem eval_date_header_spec (env : Env) (root : Msg) (m : Bytes) (fs : List (Bytes × Bytes)) (b : Bytes)
    (h : Spec.read m = some (fs, b)) (lno : Nat) (cmp : DateCmp) (age : Nat) (part : Nat) (st : St) :
    eval env root (.date lno .header cmp age) part (parseMessage m) st =
      match (headerValues fs (ofString "Date")).head? with
      | none => (.nomatch, st)
      | some d =>
        match timeParse env.strptime env.zoneName d with
        | none => (.error, st)
        | some t =>
          if dateMatches cmp age env.now t then
            match env.rx { src := [46, 42] } d with
            | .nomatch => (.nomatch, st)
            | .error => (.error, st)
            | .ok groups => (.match, { st with ml := st.ml ++ [dateEntry env.dryrun lno part d groups] })
          else (.nomatch, st) := by
  rw [eval]
  rw [getHeader1_parse m fs b h]
  cases (headerValues fs (ofString "Date")).head? with
  | none => rfl
  | some d =>
    dsimp only
    cases timeParse env.strptime env.zoneName d with
    | none => rfl
    | some t =>
      dsimp only
      cases hdm : dateMatches cmp age env.now t
      · simp
      · simp only [Bool.not_true, Bool.false_eq_true, if_false, if_true, exprRegexec_date, dateHit]

/-! ## corollaries: when the condition matches, fails, errs -/

theorem firstNonNomatch_ok_of_split (rx : Bytes → RxRes) (c : Bytes × Bytes) (post : List (Bytes × Bytes))
    (g : List (Option (Nat × Nat))) (hc : rx c.2 = .ok g) : ∀ (pre : List (Bytes × Bytes)),
    (∀ x ∈ pre, rx x.2 ≠ .error) →
    ∃ c' g', firstNonNomatch rx (pre ++ c :: post) = some c' ∧ rx c'.2 = .ok g' := by
  intro pre
  induction pre with
  | nil => intro _; exact ⟨c, g, firstNonNomatch_cons_hit _ _ _ (by simp [hc]), hc⟩
  | cons x pre ih =>
    intro hpre
    cases hx : rx x.2 with
    | «nomatch» =>
      rw [List.cons_append, firstNonNomatch_cons_nomatch _ _ _ hx]
      exact ih fun y hy => hpre y (List.mem_cons_of_mem _ hy)
    | error => exact absurd hx (hpre x List.mem_cons_self)
    | ok g' => exact ⟨x, g', firstNonNomatch_cons_hit _ _ _ (by simp [hx]), hx⟩

theorem eval_header_match_iff (env : Env) (root : Msg) (m : Bytes) (fs : List (Bytes × Bytes)) (b : Bytes)
    (h : Spec.read m = some (fs, b)) (lno : Nat) (names : List Bytes) (p : Pat) (part : Nat) (st : St) :
    (eval env root (.header lno names p) part (parseMessage m) st).1 = .match ↔
      ∃ pre c post g, headerCands fs names = pre ++ c :: post ∧ env.rx p c.2 = .ok g ∧
        ∀ x ∈ pre, env.rx p x.2 ≠ .error := by
  rw [eval_header_spec env root m fs b h]
  constructor
  · intro hm
    cases hf : firstNonNomatch (env.rx p) (headerCands fs names) with
    | none => rw [hf] at hm; cases hm
    | some c =>
      obtain ⟨k, v⟩ := c
      rw [hf] at hm
      obtain ⟨_, pre, post, he, hpre⟩ := firstNonNomatch_some _ _ _ hf
      dsimp only at hm
      cases hr : env.rx p v with
      | «nomatch» => rw [hr] at hm; cases hm
      | error => rw [hr] at hm; cases hm
      | ok g => exact ⟨pre, (k, v), post, g, he, hr, fun x hx => by rw [hpre x hx]; simp⟩
  · rintro ⟨pre, c, post, g, he, hc, hpre⟩
    obtain ⟨c', g', hf, hc'⟩ := firstNonNomatch_ok_of_split (env.rx p) c post g hc pre hpre
    rw [he, hf]
    obtain ⟨k, v⟩ := c'
    dsimp only at hc' ⊢
    rw [hc']

theorem eval_header_nomatch_iff (env : Env) (root : Msg) (m : Bytes) (fs : List (Bytes × Bytes)) (b : Bytes)
    (h : Spec.read m = some (fs, b)) (lno : Nat) (names : List Bytes) (p : Pat) (part : Nat) (st : St) :
    (eval env root (.header lno names p) part (parseMessage m) st).1 = .nomatch ↔
      ∀ c ∈ headerCands fs names, env.rx p c.2 = .nomatch := by
  rw [eval_header_spec env root m fs b h, ← firstNonNomatch_none]
  cases hf : firstNonNomatch (env.rx p) (headerCands fs names) with
  | none => simp
  | some c =>
    obtain ⟨k, v⟩ := c
    have hne := (firstNonNomatch_some _ _ _ hf).1
    dsimp only at hne ⊢
    cases hr : env.rx p v with
    | «nomatch» => exact absurd hr hne
    | error => simp
    | ok g => simp

theorem eval_header_error_iff (env : Env) (root : Msg) (m : Bytes) (fs : List (Bytes × Bytes)) (b : Bytes)
    (h : Spec.read m = some (fs, b)) (lno : Nat) (names : List Bytes) (p : Pat) (part : Nat) (st : St) :
    (eval env root (.header lno names p) part (parseMessage m) st).1 = .error ↔
      ∃ pre c post, headerCands fs names = pre ++ c :: post ∧ env.rx p c.2 = .error ∧
        ∀ x ∈ pre, env.rx p x.2 = .nomatch := by
  rw [eval_header_spec env root m fs b h]
  constructor
  · intro hm
    cases hf : firstNonNomatch (env.rx p) (headerCands fs names) with
    | none => rw [hf] at hm; cases hm
    | some c =>
      obtain ⟨k, v⟩ := c
      rw [hf] at hm
      obtain ⟨_, pre, post, he, hpre⟩ := firstNonNomatch_some _ _ _ hf
      dsimp only at hm
      cases hr : env.rx p v with
      | «nomatch» => rw [hr] at hm; cases hm
      | ok g => rw [hr] at hm; cases hm
      | error => exact ⟨pre, (k, v), post, he, hr, hpre⟩
  · rintro ⟨pre, c, post, he, hc, hpre⟩
    rw [he, firstNonNomatch_of_split _ _ _ _ hpre (by simp [hc])]
    obtain ⟨k, v⟩ := c
    dsimp only at hc ⊢
    rw [hc]

/-- Unless it matches, a header condition leaves the state alone. -/
theorem eval_header_state (env : Env) (root : Msg) (m : Bytes) (fs : List (Bytes × Bytes)) (b : Bytes)
    (h : Spec.read m = some (fs, b)) (lno : Nat) (names : List Bytes) (p : Pat) (part : Nat) (st : St)
    (hne : (eval env root (.header lno names p) part (parseMessage m) st).1 ≠ .match) :
    (eval env root (.header lno names p) part (parseMessage m) st).2 = st := by
  rw [eval_header_spec env root m fs b h] at hne ⊢
  cases hf : firstNonNomatch (env.rx p) (headerCands fs names) with
  | none => rfl
  | some c =>
    obtain ⟨k, v⟩ := c
    rw [hf] at hne
    dsimp only at hne ⊢
    cases hr : env.rx p v with
    | «nomatch» => rfl
    | error => rfl
    | ok g => rw [hr] at hne; exact absurd rfl hne

theorem mem_headerCands (fs : List (Bytes × Bytes)) (names : List Bytes) (k v : Bytes) :
    (k, v) ∈ headerCands fs names ↔ k ∈ names ∧ ∃ f ∈ fs, nameEq f.1 k = true ∧ v = logical f.2 := by
  unfold headerCands headerValues
  simp only [List.mem_flatMap, List.mem_map, List.mem_filter, Prod.mk.injEq]
  constructor
  · rintro ⟨k', hk', v', ⟨f, ⟨hf, hn⟩, hv⟩, rfl, rfl⟩
    exact ⟨hk', f, hf, hn, hv.symm⟩
  · rintro ⟨hk, f, hf, hn, rfl⟩
    exact ⟨k, hk, _, ⟨f, ⟨hf, hn⟩, rfl⟩, rfl, rfl⟩

end Mdsort.Proofs
