import Mdsort.Proofs.WorldBasic

/-!
# C03 - which configuration blocks are processed (`maildir_skip`, mdsort.c)

`main` walks every path of every configuration block and skips a path when
`(dostdin && !isstdin(path)) || (!dostdin && isstdin(path))`.  `Model.mainP` transcribes that loop
(`mainP.blocks`, `mainP.blocks.paths`).  Here: a path is *selected* iff stdin mode and the path is
`/dev/stdin`, or not stdin mode and the path is anything else; the whole program - every call it
issues, in every world, and its result - is the program of the configuration from which all
unselected paths (and then all blocks without a path) were removed.
-/

namespace Mdsort.Proofs
open Mdsort Mdsort.Model

/-- A configured path is processed: with `-` exactly the `stdin` blocks, without it exactly the maildirs. -/
def pathSelected (env : PEnv) (p : Bytes) : Bool :=
  (env.stdinMode && isStdinPath p) || (!env.stdinMode && !isStdinPath p)

/-- The configuration with every unselected path removed. -/
def selectPaths (env : PEnv) (conf : List ConfBlock) : List ConfBlock :=
  conf.map fun b => { b with paths := b.paths.filter (pathSelected env) }

/-- ... and then every block that has no path left. -/
def selectBlocks (env : PEnv) (conf : List ConfBlock) : List ConfBlock :=
  (selectPaths env conf).filter fun b => !b.paths.isEmpty

namespace BlockSel
open Mdsort.Proofs.World

/-- The test of `maildir_skip` is the negation of `pathSelected`. -/
theorem skip_eq (env : PEnv) (p : Bytes) :
    ((env.stdinMode && !isStdinPath p) || (!env.stdinMode && isStdinPath p)) = !pathSelected env p := by
  unfold pathSelected
  cases env.stdinMode <;> cases isStdinPath p <;> rfl

theorem paths_filter (env : PEnv) (orc : EvalOracles) (input : Bytes) (b : ConfBlock) (ps : List Bytes) :
    ∀ st : MainSt, mainP.blocks.paths env orc input b (ps.filter (pathSelected env)) st =
      mainP.blocks.paths env orc input b ps st := by
  induction ps with
  | nil => intro st; rfl
  | cons p more ih =>
    intro st
    by_cases hs : pathSelected env p = true
    · have hskip : ((env.stdinMode && !isStdinPath p) || (!env.stdinMode && isStdinPath p)) = false := by
        rw [skip_eq, hs]; rfl
      rw [List.filter_cons_of_pos hs]
      rw [mainP.blocks.paths, mainP.blocks.paths]
      simp only [hskip, Bool.false_eq_true, ↓reduceIte, ih]
    · have hskip : ((env.stdinMode && !isStdinPath p) || (!env.stdinMode && isStdinPath p)) = true := by
        rw [skip_eq]; simpa using hs
      rw [List.filter_cons_of_neg hs, ih st]
      conv => rhs; rw [mainP.blocks.paths]
      simp only [hskip, ↓reduceIte]

/-- The expression of a block is only used through `walk`, which does not look at `b.paths`. -/
theorem paths_congr_block (env : PEnv) (orc : EvalOracles) (input : Bytes) (b b' : ConfBlock) (he : b.expr = b'.expr)
    (ps : List Bytes) : ∀ st : MainSt,
      mainP.blocks.paths env orc input b ps st = mainP.blocks.paths env orc input b' ps st := by
  induction ps with
  | nil => intro st; rfl
  | cons p more ih =>
    intro st
    rw [mainP.blocks.paths, mainP.blocks.paths]
    simp only [ih, he]

theorem blocks_select (env : PEnv) (orc : EvalOracles) (input : Bytes) (bs : List ConfBlock) :
    ∀ st : MainSt, mainP.blocks env orc input (selectPaths env bs) st = mainP.blocks env orc input bs st := by
  induction bs with
  | nil => intro st; rfl
  | cons b rest ih =>
    intro st
    have hsel : selectPaths env (b :: rest) =
        { b with paths := b.paths.filter (pathSelected env) } :: selectPaths env rest := rfl
    rw [hsel, mainP.blocks, mainP.blocks]
    simp only [bind_eq]
    rw [paths_congr_block env orc input { b with paths := b.paths.filter (pathSelected env) } b rfl, paths_filter]
    simp only [ih]

theorem blocks_dropEmpty (env : PEnv) (orc : EvalOracles) (input : Bytes) (bs : List ConfBlock) :
    ∀ st : MainSt, mainP.blocks env orc input (bs.filter fun b => !b.paths.isEmpty) st = mainP.blocks env orc input bs st := by
  induction bs with
  | nil => intro st; rfl
  | cons b rest ih =>
    intro st
    by_cases he : b.paths = []
    · have : (!b.paths.isEmpty) = false := by simp [he]
      rw [List.filter_cons]
      simp only [this, Bool.false_eq_true, ↓reduceIte]
      rw [ih st]
      conv => rhs; rw [mainP.blocks]
      simp only [he, mainP.blocks.paths, bind_eq, pure_eq, ret_bind]
    · have : (!b.paths.isEmpty) = true := by simp [he]
      rw [List.filter_cons]
      simp only [this, ↓reduceIte]
      rw [mainP.blocks, mainP.blocks]
      simp only [ih]

theorem mainP_select (env : PEnv) (orc : EvalOracles) (confOk : Bool) (conf : List ConfBlock) (files : Files) (input : Bytes) :
    mainP env orc confOk (selectPaths env conf) files input = mainP env orc confOk conf files input := by
  unfold mainP
  simp only [blocks_select]

theorem mainP_selectBlocks (env : PEnv) (orc : EvalOracles) (confOk : Bool) (conf : List ConfBlock) (files : Files) (input : Bytes) :
    mainP env orc confOk (selectBlocks env conf) files input = mainP env orc confOk conf files input := by
  rw [← mainP_select env orc confOk conf]
  unfold mainP selectBlocks
  simp only [blocks_dropEmpty]

end BlockSel

/-- `mainP` is the same program - the same calls for every behaviour of the world, the same exit
status, log and final state - on the configuration with the unselected paths removed, and on the
configuration where in addition the blocks left without a path are removed. -/
theorem block_selection (env : PEnv) (orc : EvalOracles) (confOk : Bool) (conf : List ConfBlock) (files : Files) (input : Bytes) :
    mainP env orc confOk conf files input = mainP env orc confOk (selectPaths env conf) files input ∧
    mainP env orc confOk conf files input = mainP env orc confOk (selectBlocks env conf) files input :=
  ⟨(BlockSel.mainP_select env orc confOk conf files input).symm,
   (BlockSel.mainP_selectBlocks env orc confOk conf files input).symm⟩

/-- What survives the selection: with `-` only `/dev/stdin`, without it everything but `/dev/stdin`. -/
theorem selected_iff (env : PEnv) (p : Bytes) :
    pathSelected env p = true ↔
      (env.stdinMode = true ∧ p = ofString "/dev/stdin") ∨ (env.stdinMode = false ∧ p ≠ ofString "/dev/stdin") := by
  unfold pathSelected isStdinPath
  cases env.stdinMode <;> simp

theorem selectPaths_mem (env : PEnv) (conf : List ConfBlock) (b : ConfBlock) (p : Bytes)
    (hb : b ∈ selectPaths env conf) (hp : p ∈ b.paths) : pathSelected env p = true := by
  unfold selectPaths at hb
  obtain ⟨b0, _, rfl⟩ := List.mem_map.1 hb
  exact (List.mem_filter.1 hp).2

end Mdsort.Proofs
