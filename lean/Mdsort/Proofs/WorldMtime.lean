import Mdsort.Proofs.WorldMtimeBasic

/-! C09 at world level: `maildir_move` keeps the modification time and never replaces an entry;
`maildir_genname` returns a fresh name. -/

namespace Mdsort.Proofs.World
open Mdsort Mdsort.Model

/-! ## what a successful exclusive create leaves behind -/

structure Created (wk w2 : World) (n p : Bytes) : Prop where
  obj : ∀ h, h < wk.handles.length → w2.obj h = wk.obj h
  fd : w2.obj wk.handles.length = .file wk.nextFid 0 true
  len : w2.handles.length = wk.handles.length + 1
  nextFid : w2.nextFid = wk.nextFid + 1
  look : ∀ q m, ¬(q = p ∧ m = n) → w2.lookup q m = wk.lookup q m
  bound : (wk.dir p).isSome → w2.lookup p n = some wk.nextFid
  dir : ∀ q, (w2.dir q).isSome = (wk.dir q).isSome
  file : ∀ g, g ≠ wk.nextFid → w2.file g = wk.file g
  newFile : w2.file wk.nextFid = some ⟨[], []⟩
  mtimes : w2.mtimes = wk.mtimes

theorem created_of_openExcl {wk : World} {d : Handle} {n p : Bytes} (hp : wk.dirPath d = some p) (hl : wk.lookup p n = none) :
    Created wk (stepWorld wk (.openExcl d n) (.ok wk.handles.length)) n p := by
  have hc := core_openExcl_ok hp hl wk.handles.length
  refine ⟨?_, ?_, ?_, ?_, ?_, ?_, ?_, ?_, ?_, ?_⟩
  · intro h hh
    rw [stepWorld_obj, hc, obj_newHandle]
    simp only [len_bind, len_setFile, obj_bind, obj_setFile]
    rw [if_neg (Nat.ne_of_lt hh)]
    rfl
  · rw [stepWorld_obj, hc, obj_newHandle]
    simp
  · rw [stepWorld_handles, hc]
    simp
  · rw [stepWorld_nextFid, hc]
    simp
  · intro q m hne
    rw [stepWorld_lookup, hc, lookup_newHandle, lookup_bind_ne _ _ _ _ _ _ hne, lookup_setFile]
    rfl
  · intro hdir
    rw [stepWorld_lookup, hc, lookup_newHandle, lookup_bind _ _ _ _ _ _ (by exact hdir)]
    simp
  · intro q
    rw [stepWorld_dir, hc, dir_newHandle, dir_bind_isSome, dir_setFile]
    rfl
  · intro g hg
    rw [stepWorld_file, hc, file_newHandle, file_bind, file_setFile, if_neg hg]
    rfl
  · rw [stepWorld_file, hc, file_newHandle, file_bind, file_setFile, if_pos rfl]
  · rw [stepWorld_mtimes, hc, mtimes_newHandle, mtimes_bind, mtimes_setFile]

/-! ## `maildir_move` after the `fstatat`, in three parts -/

/-- The end of `maildir_move`: roll back, close, set the time, update the message. -/
def moveTail (ss : Subdir) (dst : Maildir) (dh fd : Handle) (dstname : Bytes) (mt : Option Nat) (err1 : Bool) (ms : MsgSt) :
    Prog (MsgSt × Bool) := do
  if err1 then
    let _ ← maildirUnlink dst dstname
    pure ()
  let _ ← call (.close fd)
  let err2 ← (if !err1 && mt.isSome then do
      let r ← call (.utimensat dh dstname none mt)
      pure (!isOk r)
    else pure err1)
  if err2 then pure (ms, true)
  else messageSetFileMoved ms ss dst.subdir dst.path dstname

/-- What `maildir_move` does with the result of the rename. -/
def moveCopy (src dst : Maildir) (ms : MsgSt) (fd : Handle) (dstname : Bytes) (r : Res) : Prog (Bool × MsgSt) :=
  match r with
  | .err e =>
    if e == "EXDEV" then do
      let we ← messageWriteP ms.msg fd
      if we then pure (true, ms)
      else do
        let ue ← maildirUnlink src ms.name
        pure (ue, if ue then ms else { ms with loc := some (dst.path, dstname), content := (messageWrite ms.msg).1 })
    else pure (true, ms)
  | _ => pure (false, { ms with loc := some (dst.path, dstname) })

/-- `maildir_move` after the `fstatat` (`mt` = the time it returned, if it succeeded). -/
def moveRest (env : PEnv) (src dst : Maildir) (ms : MsgSt) (sh dh : Handle) (mt : Option Nat) : Prog (MsgSt × Bool) :=
  match msgflags src.subdir dst.subdir ms.flags with
  | none => pure (ms, true)
  | some fl => do
    let g ← gennameStart env dst (some fl)
    match g with
    | none => pure (ms, true)
    | some (fd, dstname) =>
      let r ← call (.renameat sh ms.name dh dstname)
      let (err1, ms) ← moveCopy src dst ms fd dstname r
      moveTail src.subdir dst dh fd dstname mt err1 ms

theorem maildirMove_eq (env : PEnv) (src dst : Maildir) (ms : MsgSt) :
    maildirMove env src dst ms =
      if src.stdin && src.root == dst.root then Prog.ret (ms, true)
      else
        match src.dirH, dst.dirH with
        | some sh, some dh =>
          (if !src.stdin then Prog.call (.fstatat sh ms.name) (fun r => Prog.ret (statMtime r)) else Prog.ret none).bind
            fun mt => moveRest env src dst ms sh dh mt
        | _, _ => Prog.ret (ms, true) := by
  unfold maildirMove moveRest moveCopy moveTail
  rfl

theorem messageSetFile_none (ms : MsgSt) (ss ds : Subdir) (dir name : Bytes) :
    ∃ r, messageSetFileMoved ms ss ds dir name = Prog.ret r ∧ (r.2 = false → r.1.loc = ms.loc) := by
  unfold messageSetFileMoved
  split
  · exact ⟨_, rfl, by intro h; cases h⟩
  · split
    · exact ⟨_, rfl, by intro h; cases h⟩
    · exact ⟨_, rfl, fun _ => rfl⟩

/-- The entry of the message in the source directory. -/
def SrcEntry (ps name : Bytes) : Bytes → Bytes → Prop := fun q m => q = ps ∧ m = name

theorem spec_moveTail_err {A : Bytes → Bytes → Prop} {w0 w : World} (ss : Subdir) (dst : Maildir) (dh fd : Handle) (nm pd : Bytes)
    (mt : Option Nat) (ms : MsgSt) (hdh : dst.dirH = some dh) (k : Keeps A w0 w) (hpd : w.dirPath dh = some pd)
    (hfresh : ∀ q m fid, ¬ A q m → w0.lookup q m = some fid → ¬(q = pd ∧ m = nm)) :
    wp (Keeps A w0) (moveTail ss dst dh fd nm mt true ms) (fun r w' => Keeps A w0 w' ∧ r.2 = true) w := by
  unfold moveTail maildirUnlink
  simp only [hdh, bind_eq, pure_eq, call_bind, call_bind', ret_bind, if_true, Bool.not_true, Bool.false_and,
    Bool.false_eq_true, if_false]
  refine wp_call_any fun r => ?_
  have k1 := k.step (.unlinkat dh nm) r
    (by
      intro q m fid hA h0 _
      simp only [dirSafe, hpd, Option.some.injEq]
      intro h
      exact hfresh q m fid hA h0 ⟨h.1.symm, h.2.symm⟩)
    (fun _ _ => trivial)
  refine ⟨k1, ?_⟩
  refine wp_call_any fun r2 => ?_
  have k2 := k1.step (.close fd) r2 (fun _ _ _ _ _ _ => trivial) (fun _ _ => trivial)
  exact ⟨k2, k2, rfl⟩

theorem spec_moveTail_ok {A : Bytes → Bytes → Prop} {w0 w : World} (ss : Subdir) (dst : Maildir) (dh fd : Handle) (nm pd : Bytes)
    (mt : Option Nat) (ms : MsgSt) (G : Prop) (fidX : Nat)
    (k : Keeps A w0 w) (hpd : w.dirPath dh = some pd) (hne : dh ≠ fd)
    (hl : G → w.lookup pd nm = some fidX) :
    wp (Keeps A w0) (moveTail ss dst dh fd nm mt false ms)
      (fun r w' => Keeps A w0 w' ∧ (r.2 = false → r.1.loc = ms.loc ∧
        (G → w'.lookup pd nm = some fidX ∧ ∀ t, mt = some t → w'.mtime fidX = t) ∧
        (mt = none → w'.mtimes = w.mtimes))) w := by
  unfold moveTail
  simp only [bind_eq, pure_eq, call_bind, Bool.false_eq_true, if_false, Bool.not_false,
    Bool.true_and]
  refine wp_call_any fun rc => ?_
  have k1 := k.step (.close fd) rc (fun _ _ _ _ _ _ => trivial) (fun _ _ => trivial)
  refine ⟨k1, ?_⟩
  have hpd1 : (stepWorld w (.close fd) rc).dirPath dh = some pd := by
    rw [← hpd]
    apply dirPath_congr
    rw [stepWorld_obj, core_close, obj_setObj]
    simp [hne]
  have hl1 : ∀ q m, (stepWorld w (.close fd) rc).lookup q m = w.lookup q m := by
    intro q m; rw [stepWorld_lookup, core_close]; rfl
  have hm1 : (stepWorld w (.close fd) rc).mtimes = w.mtimes := by
    rw [stepWorld_mtimes, core_close]; rfl
  generalize stepWorld w (.close fd) rc = w1 at k1 hpd1 hl1 hm1 ⊢
  obtain ⟨r0, hr0, hloc⟩ := messageSetFile_none ms ss dst.subdir dst.path nm
  cases mt with
  | none =>
    simp only [Option.isSome_none, Bool.false_eq_true, if_false, ret_bind]
    rw [hr0]
    exact ⟨k1, fun hr => ⟨hloc hr, fun g => ⟨by rw [hl1]; exact hl g, by intro t h; cases h⟩, fun _ => hm1⟩⟩
  | some t =>
    simp only [Option.isSome_some, if_true]
    intro ft
    rcases utimensat_results ft w1 dh nm none (some t) with ⟨e, he⟩ | ⟨he, p', fid', hp', hl'⟩
    · rw [he]
      have k2 := k1.step (.utimensat dh nm none (some t)) (.err e) (fun _ _ _ _ _ _ => trivial) (fun _ _ => trivial)
      refine ⟨k2, ?_⟩
      simp only [isOk, Bool.not_false, if_true, ret_bind]
      exact ⟨k2, by intro h; cases h⟩
    · rw [he]
      have k2 := k1.step (.utimensat dh nm none (some t)) (.ok 0) (fun _ _ _ _ _ _ => trivial) (fun _ _ => trivial)
      refine ⟨k2, ?_⟩
      simp only [isOk, Bool.not_true, Bool.false_eq_true, if_false, ret_bind]
      rw [hr0]
      refine ⟨k2, fun hr => ⟨hloc hr, fun g => ?_, by intro h; cases h⟩⟩
      have hpp : p' = pd := by rw [hpd1] at hp'; cases hp'; rfl
      subst hpp
      have hfx : fid' = fidX := by rw [hl1, hl g] at hl'; cases hl'; rfl
      subst hfx
      have hc := core_utimensat_ok hp' hl' none t 0
      refine ⟨by rw [stepWorld_lookup, hc, lookup_setMtime]; exact hl', ?_⟩
      intro t' ht'
      cases ht'
      rw [stepWorld_mtime, hc, mtime_setMtime]
      simp

theorem spec_moveCopy {A : Bytes → Bytes → Prop} {w0 w3 : World} (src dst : Maildir) (ms : MsgSt) (sh dh fd : Handle)
    (nm ps pd : Bytes) (e : String) (G : Prop) (fidN : Nat)
    (hsh : src.dirH = some sh) (k3 : Keeps A w0 w3)
    (hA : ∀ q m, ¬ A q m → ¬(q = ps ∧ m = ms.name))
    (hps : w3.dirPath sh = some ps) (hpd : w3.dirPath dh = some pd)
    (ho : w3.obj fd = .file fidN 0 true) (hN : w0.nextFid ≤ fidN)
    (hb : G → w3.lookup pd nm = some fidN) (hne : G → ¬(pd = ps ∧ nm = ms.name)) :
    wp (Keeps A w0) (moveCopy src dst ms fd nm (.err e))
      (fun a w' => Keeps A w0 w' ∧ w'.dirPath dh = some pd ∧ w'.mtimes = w3.mtimes ∧
        (a = (true, ms) ∨ (a.1 = false ∧ a.2.loc = some (dst.path, nm) ∧ (G → w'.lookup pd nm = some fidN)))) w3 := by
  unfold moveCopy
  dsimp only
  split
  · simp only [bind_eq, pure_eq]
    refine wp_bind_mono (wp_inv_mono (frame_messageWriteP ms.msg fd ho) fun _ fr => k3.of_frW fr hN) ?_
    intro we w4 fr4
    have hshlt : sh < w3.handles.length := lt_of_dirPath hps
    have hdhlt : dh < w3.handles.length := lt_of_dirPath hpd
    have hps4 : w4.dirPath sh = some ps := by rw [← hps]; exact dirPath_congr (fr4.objs sh hshlt)
    have hpd4 : w4.dirPath dh = some pd := by rw [← hpd]; exact dirPath_congr (fr4.objs dh hdhlt)
    have k4 := k3.of_frW fr4 hN
    cases we with
    | true =>
      simp only [if_true]
      exact ⟨k4, hpd4, fr4.mtimes, .inl rfl⟩
    | false =>
      simp only [Bool.false_eq_true, if_false]
      unfold maildirUnlink
      simp only [hsh, bind_eq, pure_eq, call_bind]
      refine wp_call_any fun ru => ?_
      have k5 := k4.step (.unlinkat sh ms.name) ru
        (by
          intro q m fid hA' _ _
          simp only [dirSafe, hps4, Option.some.injEq]
          intro h
          exact hA q m hA' ⟨h.1.symm, h.2.symm⟩)
        (fun _ _ => trivial)
      refine ⟨k5, ?_⟩
      have hpd5 : (stepWorld w4 (.unlinkat sh ms.name) ru).dirPath dh = some pd := by
        rw [stepWorld_dirPath, ← hpd4]
        exact dirPath_congr (core_obj w4 _ ru dh (lt_of_dirPath hpd4) (by simp [Call.subject]))
      have hm5 : (stepWorld w4 (.unlinkat sh ms.name) ru).mtimes = w3.mtimes := by
        rw [stepWorld_mtimes, core_mtimes _ _ _ rfl, fr4.mtimes]
      rcases isOk_cases ru with ⟨e', rfl⟩ | hok
      · simp only [isOk, Bool.not_false]
        exact ⟨k5, hpd5, hm5, .inl rfl⟩
      · simp only [hok, Bool.not_true]
        refine ⟨k5, hpd5, hm5, .inr ⟨rfl, rfl, fun g => ?_⟩⟩
        rw [stepWorld_lookup]
        refine core_lookup w4 _ ru pd nm fidN (by rw [lookup_of_dirs fr4.dirs]; exact hb g) ?_
        simp only [dirSafe, hps4, Option.some.injEq]
        intro h
        exact hne g ⟨h.1.symm, h.2.symm⟩
  · exact ⟨k3, hpd, rfl, .inl rfl⟩

/-- `maildir_move` after the `fstatat`, under every fault plan: at every step every entry other
than the message's source entry keeps its file and every file that existed keeps its content; and
if no error is returned, the message is at a new name in the destination, bound to the same file
(rename) or to the file created by `maildir_genname` (copy), whose time is the one `fstatat` gave. -/
theorem spec_moveRest (env : PEnv) (src dst : Maildir) (ms : MsgSt) (sh dh : Handle) (mt : Option Nat) {ps pd : Bytes}
    {w0 w : World} (hsh : src.dirH = some sh) (hdh : dst.dirH = some dh)
    (k : Keeps (SrcEntry ps ms.name) w0 w) (hps : w.dirPath sh = some ps) (hpd : w.dirPath dh = some pd)
    (hdir : (w.dir pd).isSome) :
    wp (Keeps (SrcEntry ps ms.name) w0) (moveRest env src dst ms sh dh mt)
      (fun r w' => Keeps (SrcEntry ps ms.name) w0 w' ∧ (r.2 = false → ∀ fid, w.lookup ps ms.name = some fid →
        ∃ dn fidX, r.1.loc = some (dst.path, dn) ∧ w.lookup pd dn = none ∧ w'.lookup pd dn = some fidX ∧
          (fidX = fid ∨ fidX = w.nextFid) ∧
          (∀ t, mt = some t → w'.mtime fidX = t) ∧ (mt = none → w'.mtimes = w.mtimes))) w := by
  unfold moveRest gennameStart
  simp only [bind_eq, pure_eq, call_bind]
  split
  · exact ⟨k, by intro h; cases h⟩
  rename_i fl _
  refine wp_bind_mono (spec_gen env dst (some fl) dh pd hdh _ hpd (fun w' h => k.of_same h)
    (fun wk n h _ => (k.of_same h).step _ _ (fun _ _ _ _ _ _ => trivial) (fun _ _ => trivial)) gennameAttempts _ (SameFs.refl w)) ?_
  rintro g w2 (⟨rfl, hs⟩ | ⟨wk, c, hs, -, -, hl, rfl, rfl⟩)
  · exact ⟨k.of_same hs, by intro h; cases h⟩
  dsimp only
  generalize cand env (some fl) c = nm at hl ⊢
  have hpk : wk.dirPath dh = some pd := by rw [hs.dirPath]; exact hpd
  have hpsk : wk.dirPath sh = some ps := by rw [hs.dirPath]; exact hps
  have hdirk : (wk.dir pd).isSome := by rw [hs.dir]; exact hdir
  have cr := created_of_openExcl hpk hl
  have kk := k.of_same hs
  have k2 := kk.step (.openExcl dh nm) (.ok wk.handles.length) (fun _ _ _ _ _ _ => trivial) (fun _ _ => trivial)
  have hshlt : sh < wk.handles.length := lt_of_dirPath hpsk
  have hdhlt : dh < wk.handles.length := lt_of_dirPath hpk
  generalize stepWorld wk (.openExcl dh nm) (.ok wk.handles.length) = w2 at cr k2 ⊢
  have hps2 : w2.dirPath sh = some ps := by rw [← hpsk]; exact dirPath_congr (cr.obj sh hshlt)
  have hpd2 : w2.dirPath dh = some pd := by rw [← hpk]; exact dirPath_congr (cr.obj dh hdhlt)
  have hfresh : ∀ q m fid, ¬ SrcEntry ps ms.name q m → w0.lookup q m = some fid → ¬(q = pd ∧ m = nm) := by
    intro q m fid hA h0 hqm
    have h1 := kk.look q m fid hA h0
    rw [hqm.1, hqm.2, hl] at h1
    cases h1
  have hl0 : w.lookup pd nm = none := by rw [← hs.lookup]; exact hl
  have hneG : (∃ fid, w.lookup ps ms.name = some fid) → ¬(pd = ps ∧ nm = ms.name) := by
    rintro ⟨fid, hf⟩ hqm
    rw [← hqm.1, ← hqm.2, hl0] at hf
    cases hf
  have hne : dh ≠ wk.handles.length := Nat.ne_of_lt hdhlt
  intro ft
  rcases renameat_results ft w2 sh ms.name dh nm with ⟨e, he⟩ | ⟨he, p1, p2, fidS, hp1, hp2, hlS⟩
  · -- the rename failed
    rw [he]
    have hs3 := sameFs_err w2 (.renameat sh ms.name dh nm) e (by intro _ h; cases h) (by intro _ h; cases h)
      (by intro _ h; cases h)
    have k3 := k2.of_same hs3
    refine ⟨k3, ?_⟩
    generalize stepWorld w2 (.renameat sh ms.name dh nm) (.err e) = w3 at hs3 k3 ⊢
    refine wp_bind_mono (spec_moveCopy src dst ms sh dh wk.handles.length nm ps pd e
      (∃ fid, w.lookup ps ms.name = some fid) wk.nextFid hsh k3 (fun _ _ h => h)
      (by rw [hs3.dirPath]; exact hps2) (by rw [hs3.dirPath]; exact hpd2) (by rw [hs3.obj]; exact cr.fd)
      kk.next (fun _ => by rw [hs3.lookup]; exact cr.bound hdirk) hneG) ?_
    rintro ⟨err1, ms1⟩ w5 ⟨k5, hpd5, hm5, (hx | ⟨h1, h2, h3⟩)⟩
    · cases hx
      refine wp_mono (spec_moveTail_err _ dst dh _ nm pd mt ms hdh k5 hpd5 hfresh) ?_
      rintro r w' ⟨kk', hr⟩
      exact ⟨kk', by intro h; rw [hr] at h; cases h⟩
    · simp only at h1 h2 h3
      subst h1
      refine wp_mono (spec_moveTail_ok _ dst dh _ nm pd mt ms1 _ wk.nextFid k5 hpd5 hne h3) ?_
      rintro r w' ⟨kk', hpost⟩
      refine ⟨kk', fun hr fid hfid => ?_⟩
      obtain ⟨hloc, hG, hmt⟩ := hpost hr
      obtain ⟨hlk, hmtime⟩ := hG ⟨fid, hfid⟩
      exact ⟨nm, wk.nextFid, by rw [hloc, h2], hl0, hlk, .inr hs.nextFid, hmtime,
        fun h => by rw [hmt h, hm5, hs3.mtimes, cr.mtimes, hs.mtimes]⟩
  · -- the rename succeeded
    rw [he]
    have hp1' : p1 = ps := by rw [hps2] at hp1; cases hp1; rfl
    have hp2' : p2 = pd := by rw [hpd2] at hp2; cases hp2; rfl
    subst hp1'; subst hp2'
    have hc := core_renameat_ok (n2 := nm) hp1 hp2 hlS 0
    have k3 := k2.step (.renameat sh ms.name dh nm) (.ok 0)
      (by
        intro q m fid hA h0 _
        simp only [dirSafe, hp1, hp2, Option.some.injEq]
        exact ⟨fun h => hA ⟨h.1.symm, h.2.symm⟩, fun h => hfresh q m fid hA h0 ⟨h.1.symm, h.2.symm⟩⟩)
      (fun _ _ => trivial)
    refine ⟨k3, ?_⟩
    have hdhlt2 : dh < w2.handles.length := lt_of_dirPath hp2
    have hpd3 : (stepWorld w2 (.renameat sh ms.name dh nm) (.ok 0)).dirPath dh = some p2 := by
      rw [stepWorld_dirPath, ← hp2]
      exact dirPath_congr (core_obj w2 _ _ dh hdhlt2 (by simp [Call.subject]))
    have hl3 : (stepWorld w2 (.renameat sh ms.name dh nm) (.ok 0)).lookup p2 nm = some fidS := by
      rw [stepWorld_lookup, hc, lookup_bind _ _ _ _ _ _ (by rw [dir_unbind_isSome, cr.dir]; exact hdirk)]
      simp
    have hm3 : (stepWorld w2 (.renameat sh ms.name dh nm) (.ok 0)).mtimes = w2.mtimes := by
      rw [stepWorld_mtimes, hc, mtimes_bind, mtimes_unbind]
    generalize stepWorld w2 (.renameat sh ms.name dh nm) (.ok 0) = w3 at k3 hpd3 hl3 hm3 ⊢
    simp only [moveCopy, pure_eq, ret_bind]
    refine wp_mono (spec_moveTail_ok _ dst dh _ nm p2 mt _ True fidS k3 hpd3 hne (fun _ => hl3)) ?_
    rintro r w' ⟨kk', hpost⟩
    refine ⟨kk', fun hr fid hfid => ?_⟩
    obtain ⟨hloc, hG, hmt⟩ := hpost hr
    obtain ⟨hlk, hmtime⟩ := hG trivial
    have hfe : fidS = fid := by
      have hq := hneG ⟨fid, hfid⟩
      rw [cr.look p1 ms.name (fun h => hq ⟨h.1.symm, h.2.symm⟩), hs.lookup, hfid] at hlS
      cases hlS; rfl
    exact ⟨nm, fidS, by rw [hloc], hl0, hlk, .inl hfe, hmtime, fun h => by rw [hmt h, hm3, cr.mtimes, hs.mtimes]⟩

/-! ## the whole of `maildir_move` -/

/-- `fstatat` changes nothing, whatever it returns. -/
theorem core_fstatat (w : World) (d : Handle) (n : Bytes) (r : Res) : core w (.fstatat d n) r = w := by
  cases r with
  | ok v =>
    show ((w.dirPath d).bind fun p => (w.lookup p n).bind fun fid =>
      if w.mtime fid == v then some w else none).getD w = w
    apply getD_bind_P (P := fun w' => w' = w) rfl
    intro p _
    apply getD_bind_P (P := fun w' => w' = w) rfl
    intro fid _
    split <;> rfl
  | err e => exact core_err w _ e (by intro _ h; cases h) (by intro _ h; cases h) (by intro _ h; cases h)
  | name _ => rfl
  | eof => rfl

theorem sameFs_fstatat (w : World) (d : Handle) (n : Bytes) (r : Res) : SameFs w (stepWorld w (.fstatat d n) r) := by
  refine ⟨w.trace ++ [(.fstatat d n, r)], ?_⟩
  show ({ core w (.fstatat d n) r with trace := (core w (.fstatat d n) r).trace ++ [(.fstatat d n, r)] } : World) = _
  rw [core_fstatat]

/-- `maildir_move` under every fault plan: after every call, every directory entry other than the
message's own source entry is bound to the file it was bound to, and every file that existed has
the content (visible and durable) it had. -/
theorem spec_maildirMove_keeps (env : PEnv) (src dst : Maildir) (ms : MsgSt) {ps : Bytes} {w : World}
    (hsrc : ∀ sh, src.dirH = some sh → w.dirPath sh = some ps)
    (hdst : ∀ dh, dst.dirH = some dh → ∃ pd, w.dirPath dh = some pd ∧ (w.dir pd).isSome) :
    wp (Keeps (SrcEntry ps ms.name) w) (maildirMove env src dst ms) (fun _ w' => Keeps (SrcEntry ps ms.name) w w') w := by
  rw [maildirMove_eq]
  split
  · exact Keeps.refl _ _
  cases hsh : src.dirH with
  | none => exact Keeps.refl _ _
  | some sh =>
    cases hdh : dst.dirH with
    | none => exact Keeps.refl _ _
    | some dh =>
      obtain ⟨pd, hpd, hdir⟩ := hdst dh hdh
      have hps := hsrc sh hsh
      dsimp only
      split
      · simp only [call_bind', ret_bind]
        refine wp_call_any fun r => ?_
        have hs1 := sameFs_fstatat w sh ms.name r
        have k1 := (Keeps.refl (SrcEntry ps ms.name) w).of_same hs1
        refine ⟨k1, ?_⟩
        exact wp_mono (spec_moveRest env src dst ms sh dh (statMtime r) hsh hdh k1 (by rw [hs1.dirPath]; exact hps)
          (by rw [hs1.dirPath]; exact hpd) (by rw [hs1.dir]; exact hdir)) (fun _ _ h => h.1)
      · simp only [ret_bind]
        exact wp_mono (spec_moveRest env src dst ms sh dh none hsh hdh (Keeps.refl _ w) hps hpd hdir) (fun _ _ h => h.1)

theorem move_never_replaces (env : PEnv) (src dst : Maildir) (ms : MsgSt) (ps : Bytes) (w : World) (plan : Plan)
    (i : Nat) (hist : List World)
    (hsrc : ∀ sh, src.dirH = some sh → w.dirPath sh = some ps)
    (hdst : ∀ dh, dst.dirH = some dh → ∃ pd, w.dirPath dh = some pd ∧ (w.dir pd).isSome)
    (w' : World)
    (hw' : w' = (runPlan plan (maildirMove env src dst ms) w i hist).2.1 ∨
      w' ∈ (runPlan plan (maildirMove env src dst ms) w i hist).2.2.drop hist.length)
    (q m : Bytes) (fid : Nat) (hne : ¬(q = ps ∧ m = ms.name)) (hb : w.lookup q m = some fid) :
    w'.lookup q m = some fid ∧ (fid < w.nextFid → w'.file fid = w.file fid) := by
  have h := wp_sound plan (spec_maildirMove_keeps env src dst ms hsrc hdst) i
  rw [runPlan_eq] at hw'
  simp only [List.drop_left] at hw'
  have hk : Keeps (SrcEntry ps ms.name) w w' := by
    rcases hw' with rfl | hw'
    · exact h.2
    · exact h.1 w' hw'
  exact ⟨hk.look q m fid hne hb, fun hlt => hk.file fid hlt⟩

/-- What a `maildir_move` that reports no error has done, in terms of the result `r0` of its
`fstatat` (the first call, index `i`). -/
theorem move_post (env : PEnv) (src dst : Maildir) (ms : MsgSt) (sh dh : Handle) (ps pd : Bytes) (w : World)
    (plan : Plan) (i : Nat) (hist : List World)
    (hsh : src.dirH = some sh) (hdh : dst.dirH = some dh) (hps : w.dirPath sh = some ps) (hpd : w.dirPath dh = some pd)
    (hdir : (w.dir pd).isSome) (hstdin : src.stdin = false) (fid : Nat) (hb : w.lookup ps ms.name = some fid)
    (hok : (runPlan plan (maildirMove env src dst ms) w i hist).1.2 = false) :
    ∃ dn fidX, (runPlan plan (maildirMove env src dst ms) w i hist).1.1.loc = some (dst.path, dn) ∧
      w.lookup pd dn = none ∧
      (runPlan plan (maildirMove env src dst ms) w i hist).2.1.lookup pd dn = some fidX ∧
      (fidX = fid ∨ fidX = w.nextFid) ∧
      (∀ t, statMtime (faultResult (plan i) w (.fstatat sh ms.name)) = some t →
        (runPlan plan (maildirMove env src dst ms) w i hist).2.1.mtime fidX = t) ∧
      (statMtime (faultResult (plan i) w (.fstatat sh ms.name)) = none →
        (runPlan plan (maildirMove env src dst ms) w i hist).2.1.mtimes = w.mtimes) := by
  have hprog : maildirMove env src dst ms =
      Prog.call (.fstatat sh ms.name) fun r => moveRest env src dst ms sh dh (statMtime r) := by
    rw [maildirMove_eq]
    simp only [hstdin, Bool.false_and, Bool.false_eq_true, if_false, hsh, hdh, Bool.not_false, if_true, call_bind',
      ret_bind]
  rw [runPlan_eq, hprog] at hok ⊢
  simp only [run] at hok ⊢
  generalize faultResult (plan i) w (.fstatat sh ms.name) = r0 at hok ⊢
  have hs1 := sameFs_fstatat w sh ms.name r0
  generalize stepWorld w (.fstatat sh ms.name) r0 = w1 at hs1 hok ⊢
  have h := (wp_sound plan (spec_moveRest env src dst ms sh dh (statMtime r0) hsh hdh
    ((Keeps.refl (SrcEntry ps ms.name) w).of_same hs1)
    (by rw [hs1.dirPath]; exact hps) (by rw [hs1.dirPath]; exact hpd) (by rw [hs1.dir]; exact hdir)) (i + 1)).2
  obtain ⟨dn, fidX, h1, h2, h3, h4, h5, h6⟩ := h.2 hok fid (by rw [hs1.lookup]; exact hb)
  exact ⟨dn, fidX, h1, by rw [← hs1.lookup]; exact h2, h3, by rw [← hs1.nextFid]; exact h4, h5,
    fun hn => by rw [h6 hn, hs1.mtimes]⟩

theorem predict_fstatat {w : World} {d : Handle} {n p : Bytes} {fid : Nat} (hp : w.dirPath d = some p)
    (hl : w.lookup p n = some fid) : predict w (.fstatat d n) = .ok (w.mtime fid) := by
  simp [predict, hp, hl]

/-! ## `maildir_genname`: nothing is ever replaced; without faults the name is fresh -/

theorem spec_gen_keeps {A : Bytes → Bytes → Prop} (env : PEnv) (md : Maildir) (flags : Option Bytes) (w0 : World) :
    ∀ (fuel count : Nat) (w : World), Keeps A w0 w →
      wp (Keeps A w0) (genname env md flags fuel count) (fun _ w' => Keeps A w0 w') w := by
  intro fuel
  induction fuel with
  | zero => intro count w k; exact k
  | succ fuel ih =>
    intro count w k
    rw [genname_succ]
    split
    · exact k
    · split
      · exact k
      · rename_i d _
        intro f
        have k1 := k.step (.openExcl d (cand env flags (count + 1)))
          (faultResult f w (.openExcl d (cand env flags (count + 1))))
          (fun _ _ _ _ _ _ => trivial) (fun _ _ => trivial)
        refine ⟨k1, ?_⟩
        generalize faultResult f w (.openExcl d (cand env flags (count + 1))) = r at k1 ⊢
        cases r with
        | ok h => exact k1
        | err e =>
          dsimp only
          split
          · exact ih _ _ k1
          · exact k1
        | name _ => exact k1
        | eof => exact k1

theorem faultResult_none (w : World) (c : Call) (i : Nat) : faultResult (Plan.none i) w c = predict w c := rfl

theorem predict_openExcl_free {w : World} {d : Handle} {n p : Bytes} (hp : w.dirPath d = some p) (hl : w.lookup p n = none) :
    predict w (.openExcl d n) = .ok w.handles.length := by
  simp [predict, hp, hl]

theorem predict_openExcl_exists {w : World} {d : Handle} {n p : Bytes} {fid : Nat} (hp : w.dirPath d = some p)
    (hl : w.lookup p n = some fid) : predict w (.openExcl d n) = .err "EEXIST" := by
  simp [predict, hp, hl]

/-- Without faults `maildir_genname` walks over the candidates that are bound and creates the first
one that is not, provided one of the first `fuel` candidates is free and the names tried fit. -/
theorem genname_free (env : PEnv) (md : Maildir) (flags : Option Bytes) (d : Handle) (p : Bytes) (hd : md.dirH = some d) :
    ∀ (fuel count : Nat) (w : World) (i : Nat), w.dirPath d = some p →
      (∃ j, j < fuel ∧ w.lookup p (cand env flags (count + 1 + j)) = none ∧
        ∀ j', j' ≤ j → (cand env flags (count + 1 + j')).length < NAME_MAX1) →
      ∃ wk c, SameFs w wk ∧ count < c ∧ c ≤ count + fuel ∧ wk.lookup p (cand env flags c) = none ∧
        (∀ c', count < c' → c' < c → (w.lookup p (cand env flags c')).isSome) ∧
        (run Plan.none (genname env md flags fuel count) w i).1 = some (wk.handles.length, cand env flags c) ∧
        (run Plan.none (genname env md flags fuel count) w i).2.1 =
          stepWorld wk (.openExcl d (cand env flags c)) (.ok wk.handles.length) ∧
        (run Plan.none (genname env md flags fuel count) w i).2.2.2.length = c - count := by
  intro fuel
  induction fuel with
  | zero =>
    intro count w i _ h
    obtain ⟨j, hj, _⟩ := h
    omega
  | succ fuel ih =>
    intro count w i hp h
    obtain ⟨j, hj, hfree, hfit⟩ := h
    have hfit0 : ¬ ((cand env flags (count + 1)).length ≥ NAME_MAX1) := by
      have := hfit 0 (Nat.zero_le _)
      simp only [Nat.add_zero] at this
      omega
    rw [genname_succ, if_neg hfit0]
    simp only [hd]
    cases hl : w.lookup p (cand env flags (count + 1)) with
    | none =>
      have hr : faultResult (Plan.none i) w (.openExcl d (cand env flags (count + 1))) = .ok w.handles.length := by
        rw [faultResult_none, predict_openExcl_free hp hl]
      refine ⟨w, count + 1, SameFs.refl w, by omega, by omega, hl, by intro c' h1 h2; omega, ?_, ?_, ?_⟩
      · simp only [run, hr]
      · simp only [run, hr]
      · simp only [run, hr, List.length_cons, List.length_nil]
        omega
    | some fid0 =>
      have hr : faultResult (Plan.none i) w (.openExcl d (cand env flags (count + 1))) = .err "EEXIST" := by
        rw [faultResult_none, predict_openExcl_exists hp hl]
      have hj0 : j ≠ 0 := by
        intro h0
        subst h0
        rw [Nat.add_zero, hl] at hfree
        cases hfree
      have hs' := sameFs_err w (.openExcl d (cand env flags (count + 1))) "EEXIST" (by intro _ h; cases h)
        (by intro _ h; cases h) (by intro _ h; cases h)
      obtain ⟨wk, c, hs, h1, h2, h3, h4, h5, h6, h7⟩ := ih (count + 1)
        (stepWorld w (.openExcl d (cand env flags (count + 1))) (.err "EEXIST")) (i + 1)
        (by rw [hs'.dirPath]; exact hp)
        ⟨j - 1, by omega, by
          rw [hs'.lookup, show count + 1 + 1 + (j - 1) = count + 1 + j by omega]; exact hfree,
         fun j' hj' => by
          have := hfit (j' + 1) (by omega)
          rwa [show count + 1 + (j' + 1) = count + 1 + 1 + j' by omega] at this⟩
      refine ⟨wk, c, hs'.trans hs, by omega, by omega, h3, ?_, ?_, ?_, ?_⟩
      · intro c' hc1 hc2
        by_cases hc : c' = count + 1
        · subst hc; simp [hl]
        · have := h4 c' (by omega) hc2
          rwa [hs'.lookup] at this
      · simp only [run, hr, beq_self_eq_true, if_true]
        exact h5
      · simp only [run, hr, beq_self_eq_true, if_true]
        exact h6
      · simp only [run, hr, beq_self_eq_true, if_true, List.length_cons]
        omega

/-! ### enough fuel: the candidates are pairwise different, the directory is finite -/

theorem decimal_inj {a b : Nat} (h : decimal a = decimal b) : a = b := by
  obtain ⟨da, ha, -, -, va⟩ := LexAux.toString_bytes a
  obtain ⟨db, hb, -, -, vb⟩ := LexAux.toString_bytes b
  unfold decimal at h
  rw [ha, hb] at h
  subst h
  rw [← va, vb]

theorem gennameWrap_eq : gennameWrap = 4294967296 := by decide

/-- Two counter values give the same name iff they are congruent modulo `2 ^ 32` (`%u` of an `unsigned int`). -/
theorem cand_inj {env : PEnv} {flags : Option Bytes} {a b : Nat} (h : cand env flags a = cand env flags b) :
    a % gennameWrap = b % gennameWrap := by
  unfold cand at h
  simp only [List.append_assoc, List.append_cancel_left_eq] at h
  have hlen := congrArg List.length h
  simp only [List.length_append] at hlen
  exact decimal_inj (List.append_inj_left h (by omega))

theorem pigeon {α} [DecidableEq α] : ∀ (n : Nat) (l : List α) (f : Nat → α), l.length = n →
    (∀ i j, i ≤ n → j ≤ n → f i = f j → i = j) → (∀ j, j ≤ n → f j ∈ l) → False := by
  intro n
  induction n with
  | zero =>
    intro l f hl _ hm
    have := hm 0 (Nat.le_refl _)
    rw [List.length_eq_zero_iff.1 hl] at this
    cases this
  | succ n ih =>
    intro l f hl hinj hm
    have hx := hm (n + 1) (Nat.le_refl _)
    refine ih (l.erase (f (n + 1))) f ?_ ?_ ?_
    · rw [List.length_erase_of_mem hx, hl]; rfl
    · intro i j hi hj hij
      exact hinj i j (by omega) (by omega) hij
    · intro j hj
      refine (List.mem_erase_of_ne ?_).2 (hm j (by omega))
      intro he
      have := hinj j (n + 1) (by omega) (Nat.le_refl _) he
      omega

theorem mem_names_of_lookup {w : World} {p n : Bytes} {es : List (Bytes × Nat)} (hd : w.dir p = some es)
    (h : (w.lookup p n).isSome) : n ∈ es.map (·.1) := by
  unfold World.lookup at h
  rw [hd] at h
  simp only [Option.bind_some, Option.isSome_map] at h
  obtain ⟨e, he⟩ := Option.isSome_iff_exists.1 h
  have h1 := List.mem_of_find?_eq_some he
  have h2 := List.find?_some he
  simp only [beq_iff_eq] at h2
  exact List.mem_map.2 ⟨e, h1, h2⟩

/-- A directory with `|es| < 2 ^ 32` entries leaves one of any `|es| + 1` consecutive candidates free. -/
theorem exists_free (env : PEnv) (flags : Option Bytes) (count : Nat) {w : World} {p : Bytes} {es : List (Bytes × Nat)}
    (hd : w.dir p = some es) (hW : es.length < gennameWrap) :
    ∃ j, j ≤ es.length ∧ w.lookup p (cand env flags (count + 1 + j)) = none := by
  apply Classical.byContradiction
  intro hno
  have hall : ∀ j, j ≤ es.length → (w.lookup p (cand env flags (count + 1 + j))).isSome := by
    intro j hj
    cases hl : w.lookup p (cand env flags (count + 1 + j)) with
    | none => exact absurd ⟨j, hj, hl⟩ hno
    | some _ => rfl
  refine pigeon es.length (es.map (·.1)) (fun j => cand env flags (count + 1 + j)) (by simp) ?_ ?_
  · intro i j hi hj hij
    have := cand_inj hij
    rw [gennameWrap_eq] at this hW
    omega
  · intro j hj
    exact mem_names_of_lookup hd (hall j hj)

/-- The number of candidates among the first `fuel` that are already bound. -/
def presentCount (env : PEnv) (flags : Option Bytes) (w : World) (p : Bytes) (count fuel : Nat) : Nat :=
  ((List.range fuel).filter fun j => (w.lookup p (cand env flags (count + 1 + j))).isSome).length

theorem le_presentCount (env : PEnv) (flags : Option Bytes) (w : World) (p : Bytes) (count fuel n : Nat) (hn : n ≤ fuel)
    (h : ∀ j, j < n → (w.lookup p (cand env flags (count + 1 + j))).isSome) :
    n ≤ presentCount env flags w p count fuel := by
  unfold presentCount
  rw [← List.countP_eq_length_filter]
  have h1 : (List.range n).countP (fun j => (w.lookup p (cand env flags (count + 1 + j))).isSome) = n := by
    rw [List.countP_eq_length.2]
    · simp
    · intro j hj
      exact h j (List.mem_range.1 hj)
  have h2 := List.Sublist.countP_le (p := fun j => (w.lookup p (cand env flags (count + 1 + j))).isSome)
    (List.range_sublist.2 hn)
  omega

/-! ## the statements of Props/C09 -/

theorem move_mtime (env : PEnv) (src dst : Maildir) (ms : MsgSt) (w : World) (plan : Plan) (i : Nat) (hist : List World)
    (sh dh : Handle) (fid : Nat)
    (hsh : src.dirH = some sh) (hdh : dst.dirH = some dh)
    (hsrc : w.dirPath sh = some src.path) (hdst : w.dirPath dh = some dst.path) (hdir : (w.dir dst.path).isSome)
    (hstdin : src.stdin = false) (hbound : w.lookup src.path ms.name = some fid)
    (hstat : ∀ e, plan i ≠ some (.fail e))
    (hok : (runPlan plan (maildirMove env src dst ms) w i hist).1.2 = false) :
    ∃ name' fid', (runPlan plan (maildirMove env src dst ms) w i hist).1.1.loc = some (dst.path, name') ∧
      w.lookup dst.path name' = none ∧
      (runPlan plan (maildirMove env src dst ms) w i hist).2.1.lookup dst.path name' = some fid' ∧
      (fid' = fid ∨ fid' = w.nextFid) ∧
      (runPlan plan (maildirMove env src dst ms) w i hist).2.1.mtime fid' = w.mtime fid := by
  obtain ⟨dn, fidX, h1, h2, h3, h4, h5, -⟩ :=
    move_post env src dst ms sh dh src.path dst.path w plan i hist hsh hdh hsrc hdst hdir hstdin fid hbound hok
  refine ⟨dn, fidX, h1, h2, h3, h4, h5 _ ?_⟩
  rw [faultResult_nofail _ _ _ hstat (by intro _ h; cases h) (by intro _ _ h; cases h), predict_fstatat hsrc hbound]
  rfl

theorem move_mtime_not_set (env : PEnv) (src dst : Maildir) (ms : MsgSt) (w : World) (plan : Plan) (i : Nat)
    (hist : List World) (sh dh : Handle) (fid : Nat) (e : String)
    (hsh : src.dirH = some sh) (hdh : dst.dirH = some dh)
    (hsrc : w.dirPath sh = some src.path) (hdst : w.dirPath dh = some dst.path) (hdir : (w.dir dst.path).isSome)
    (hstdin : src.stdin = false) (hbound : w.lookup src.path ms.name = some fid)
    (hfail : plan i = some (.fail e))
    (hok : (runPlan plan (maildirMove env src dst ms) w i hist).1.2 = false) :
    ∃ name' fid', (runPlan plan (maildirMove env src dst ms) w i hist).1.1.loc = some (dst.path, name') ∧
      (runPlan plan (maildirMove env src dst ms) w i hist).2.1.lookup dst.path name' = some fid' ∧
      (fid' = fid ∨ fid' = w.nextFid) ∧
      (runPlan plan (maildirMove env src dst ms) w i hist).2.1.mtimes = w.mtimes := by
  obtain ⟨dn, fidX, h1, -, h3, h4, -, h6⟩ :=
    move_post env src dst ms sh dh src.path dst.path w plan i hist hsh hdh hsrc hdst hdir hstdin fid hbound hok
  refine ⟨dn, fidX, h1, h3, h4, h6 ?_⟩
  rw [hfail]
  rfl

theorem genname_fresh (env : PEnv) (md : Maildir) (flags : Option Bytes) (w : World) (d : Handle) (p : Bytes)
    (es : List (Bytes × Nat)) (fuel count i : Nat) (hist : List World)
    (hd : md.dirH = some d) (hp : w.dirPath d = some p) (hes : w.dir p = some es) (hfuel : es.length + 1 ≤ fuel)
    (hW : es.length < gennameWrap)
    (hfit : ∀ j, j ≤ es.length → (cand env flags (count + 1 + j)).length < NAME_MAX1) :
    ∃ h name, (runPlan Plan.none (genname env md flags fuel count) w i hist).1 = some (h, name) ∧
      w.lookup p name = none ∧
      (runPlan Plan.none (genname env md flags fuel count) w i hist).2.1.lookup p name = some w.nextFid ∧
      (runPlan Plan.none (genname env md flags fuel count) w i hist).2.1.file w.nextFid = some ⟨[], []⟩ ∧
      (runPlan Plan.none (genname env md flags fuel count) w i hist).2.1.obj h = .file w.nextFid 0 true ∧
      (∀ q m fid, w.lookup q m = some fid →
        (runPlan Plan.none (genname env md flags fuel count) w i hist).2.1.lookup q m = some fid) ∧
      (runPlan Plan.none (genname env md flags fuel count) w i hist).2.2.length ≤
        hist.length + presentCount env flags w p count fuel + 1 := by
  obtain ⟨j, hj, hfree⟩ := exists_free env flags count hes hW
  obtain ⟨wk, c, hs, h1, h2, h3, h4, h5, h6, h7⟩ := genname_free env md flags d p hd fuel count w i hp
    ⟨j, by omega, hfree, fun j' hj' => hfit j' (by omega)⟩
  have cr := created_of_openExcl (by rw [hs.dirPath]; exact hp) h3
  have hl0 : w.lookup p (cand env flags c) = none := by rw [← hs.lookup]; exact h3
  rw [runPlan_eq]
  simp only [h5, h6, h7, List.length_append]
  refine ⟨wk.handles.length, cand env flags c, rfl, hl0, ?_, ?_, ?_, ?_, ?_⟩
  · rw [cr.bound (by rw [hs.dir, hes]; rfl), hs.nextFid]
  · rw [← hs.nextFid]; exact cr.newFile
  · rw [← hs.nextFid]; exact cr.fd
  · intro q m fid hb
    rw [cr.look q m (by rintro ⟨rfl, rfl⟩; rw [hl0] at hb; cases hb), hs.lookup]
    exact hb
  · have := le_presentCount env flags w p count fuel (c - count - 1) (by omega)
      (fun j hj => h4 (count + 1 + j) (by omega) (by omega))
    omega

theorem genname_never_replaces (env : PEnv) (md : Maildir) (flags : Option Bytes) (w : World) (plan : Plan)
    (fuel count i : Nat) (hist : List World) (w' : World)
    (hw' : w' = (runPlan plan (genname env md flags fuel count) w i hist).2.1 ∨
      w' ∈ (runPlan plan (genname env md flags fuel count) w i hist).2.2.drop hist.length)
    (q m : Bytes) (fid : Nat) (hb : w.lookup q m = some fid) :
    w'.lookup q m = some fid ∧ (fid < w.nextFid → w'.file fid = w.file fid) := by
  have h := wp_sound plan (spec_gen_keeps (A := fun _ _ => False) env md flags w fuel count w (Keeps.refl _ w)) i
  rw [runPlan_eq] at hw'
  simp only [List.drop_left] at hw'
  have hk : Keeps (fun _ _ => False) w w' := by
    rcases hw' with rfl | hw'
    · exact h.2
    · exact h.1 w' hw'
  exact ⟨hk.look q m fid (fun h => h) hb, fun hlt => hk.file fid hlt⟩

/-! ## a small world for the non-vacuity examples and the pinned finding

Maildirs `a` (handle 0) and `b` (handle 1); the message is `a/m` (file 0, time 1000); `b` already
holds the first name `maildir_genname` will try, `1.2_1.h:2,` (file 1, time 2000). -/

namespace C09Ex

def env : PEnv :=
  { now := 1, pid := 2, host := [104], random := 0, tmpdir := [116], home := [104], confpath := [99],
    dryrun := false, syntaxOnly := false, stdinMode := false }

/-- `1.2_1.h:2,` and `1.2_2.h:2,` -/
def cand1 : Bytes := [49, 46, 50, 95, 49, 46, 104, 58, 50, 44]
def cand2 : Bytes := [49, 46, 50, 95, 50, 46, 104, 58, 50, 44]

def world (devs : List (Bytes × Nat)) : World :=
  { dirs := [([97], [([109], 0)]), ([98], [(cand1, 1)])],
    files := [(0, ⟨[65, 58, 32, 49, 10, 10, 120, 10], [65, 58, 32, 49, 10, 10, 120, 10]⟩), (1, ⟨[121], [121]⟩)],
    nextFid := 2,
    handles := [.dir [97] none 0, .dir [98] none 0],
    devs := devs,
    mtimes := [(0, 1000), (1, 2000)],
    trace := [] }

def src : Maildir := { root := [97], path := [97], dirH := some 0, subdir := .new, walk := true, stdin := false }
def dst : Maildir := { root := [98], path := [98], dirH := some 1, subdir := .new, walk := false, stdin := false }

def ms : MsgSt :=
  { name := [109], path := [97, 47, 109], fd := none, msg := { headers := [⟨0, [65], [49]⟩], body := [120, 10] },
    parts := [], flags := ⟨0, 0⟩, loc := some ([97], [109]), content := [65, 58, 32, 49, 10, 10, 120, 10] }

/-- The first call (the `fstatat` of `maildir_move`) fails. -/
def statFails : Plan := fun i => if i = 0 then some (.fail "EIO") else none

/-- `b` is on another device. -/
def otherDev : List (Bytes × Nat) := [([98], 1)]

/-- The move of `a/m` to `b`, with `b` on the devices `devs`, under `plan`. -/
def move (devs : List (Bytes × Nat)) (plan : Plan) : (MsgSt × Bool) × World × List World :=
  runPlan plan (maildirMove env src dst ms) (world devs) 0 []

/-- `maildir_genname` in `b` with the flags suffix `:2,`. -/
def gen (fuel : Nat) (plan : Plan) : Option (Handle × Bytes) × World × List World :=
  runPlan plan (genname env dst (some [58, 50, 44]) fuel 0) (world []) 0 []

end C09Ex

end Mdsort.Proofs.World
