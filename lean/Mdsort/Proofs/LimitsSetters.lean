import Mdsort.Model.Limits

/-!
# The setters: accepted iff the COMPLETE result fits, and then the complete result

For each of the functions that fill a fixed-size buffer (`pathjoin`, `strlcpy`, `pathslice`, the name buffer of
`maildir_genname`, `expandtilde`): the result with a buffer of `n` bytes is the result with an unbounded buffer when
that is shorter than `n`, and a refusal otherwise - never a shortened string.  Consequently a smaller buffer either
refuses or gives what the larger one gives (`*_mono`).
-/

namespace Mdsort.Proofs.Limits
open Mdsort Mdsort.Model

/-! ## sizes -/

instance (a b : Lim) : Decidable (a ≤ b) :=
  match a, b with
  | .fin x, .fin y => inferInstanceAs (Decidable (x ≤ y))
  | .fin _, .inf => isTrue trivial
  | .inf, .fin _ => isFalse fun h => h
  | .inf, .inf => isTrue trivial

instance (a b : Limits) : Decidable (a ≤ b) := inferInstanceAs (Decidable (_ ∧ _ ∧ _))

theorem Lim.le_refl (l : Lim) : l ≤ l := by
  cases l with
  | fin n => exact Nat.le_refl n
  | inf => trivial

theorem Lim.le_inf (l : Lim) : l ≤ Lim.inf := by cases l <;> trivial

theorem Lim.le_trans {a b c : Lim} (h1 : a ≤ b) (h2 : b ≤ c) : a ≤ c := by
  cases a <;> cases b <;> cases c <;> first | trivial | exact Nat.le_trans h1 h2 | exact h1.elim | exact h2.elim

theorem Lim.fits_mono {l l' : Lim} (h : l ≤ l') {n : Nat} (hf : l.fits n = true) : l'.fits n = true := by
  cases l <;> cases l'
  · simp only [Lim.fits, decide_eq_true_eq] at hf ⊢
    exact Nat.lt_of_lt_of_le hf h
  · rfl
  · exact h.elim
  · rfl

theorem Lim.fits_fin (n k : Nat) : (Lim.fin n).fits k = decide (k < n) := rfl
theorem Lim.fits_inf (k : Nat) : Lim.inf.fits k = true := rfl

theorem Limits.le_refl (L : Limits) : L ≤ L := ⟨Lim.le_refl _, Lim.le_refl _, Lim.le_refl _⟩
theorem Limits.le_unbounded (L : Limits) : L ≤ Limits.unbounded := ⟨Lim.le_inf _, Lim.le_inf _, Lim.le_inf _⟩

/-! ## pathjoin, strlcpy, the name buffer, expandtilde -/

theorem pathjoinL_exact (l : Lim) (d f : Bytes) :
    pathjoinL l d f = if l.fits (d.length + 1 + f.length) then some (d ++ [47] ++ f) else none := by
  have hl : (d ++ [47] ++ f).length = d.length + 1 + f.length := by simp; omega
  cases l with
  | fin n =>
    simp only [pathjoinL, pathjoin, Lim.fits, hl]
    by_cases h : d.length + 1 + f.length < n
    · have h2 : ¬ d.length + 1 + f.length ≥ n := by omega
      simp only [h2, h, if_false, decide_true, if_true]
    · have h2 : d.length + 1 + f.length ≥ n := by omega
      simp [h2, h]
  | inf => simp [pathjoinL, Lim.fits]

theorem strlcpyL_exact (l : Lim) (s : Bytes) : strlcpyL l s = if l.fits s.length then some s else none := by
  cases l with
  | fin n =>
    simp only [strlcpyL, strlcpyFits, Lim.fits]
    by_cases h : s.length < n
    · have h2 : ¬ s.length ≥ n := by omega
      simp [h2, h]
    · have h2 : s.length ≥ n := by omega
      simp [h2, h]
  | inf => simp [strlcpyL, Lim.fits]

/-- What a setter does for every buffer size: it computes one string (`full`, which does not depend on the size) and
accepts it exactly when it fits. -/
def Exact (f : Lim → Option Bytes) : Prop :=
  ∀ l, f l = (f .inf).bind fun s => if l.fits s.length then some s else none

theorem Exact.mono {f : Lim → Option Bytes} (h : Exact f) {l l' : Lim} (hle : l ≤ l') : f l = none ∨ f l = f l' := by
  rw [h l, h l']
  cases f .inf with
  | none => exact .inl rfl
  | some s =>
    simp only [Option.bind_some]
    by_cases hf : l.fits s.length = true
    · simp [hf, Lim.fits_mono hle hf]
    · simp [hf]

theorem Exact.some_fits {f : Lim → Option Bytes} (h : Exact f) {l : Lim} {s : Bytes} (hs : f l = some s) :
    f .inf = some s ∧ l.fits s.length = true := by
  rw [h l] at hs
  cases hi : f .inf with
  | none => simp [hi] at hs
  | some t =>
    simp only [hi, Option.bind_some] at hs
    by_cases hf : l.fits t.length = true
    · simp only [hf, if_true, Option.some.injEq] at hs
      subst hs
      exact ⟨rfl, hf⟩
    · simp [hf] at hs

theorem pathjoinL_Exact (d f : Bytes) : Exact (fun l => pathjoinL l d f) := by
  intro l
  have hl : (d ++ [47] ++ f).length = d.length + 1 + f.length := by simp; omega
  simp only [pathjoinL_exact, Lim.fits_inf, if_true, Option.bind_some, hl]

theorem strlcpyL_Exact (s : Bytes) : Exact (fun l => strlcpyL l s) := by
  intro l
  simp only [strlcpyL_exact, Lim.fits_inf, if_true, Option.bind_some]

theorem gennameBufL_Exact (name : Bytes) : Exact (fun l => gennameBufL l name) := by
  intro l
  simp only [gennameBufL, Lim.fits_inf, if_true, Option.bind_some]

/-- `expandtilde` copies (and therefore tests) only a string that starts with `~`. -/
theorem expandTildeL_Exact (home r : Bytes) : Exact (fun l => expandTildeL l home (126 :: r)) := by
  intro l
  simp only [expandTildeL, Lim.fits_inf, if_true, Option.bind_some, List.length_append]

theorem expandTildeL_plain (l : Lim) (home str : Bytes) (h : ∀ r, str ≠ 126 :: r) : expandTildeL l home str = some str := by
  unfold expandTildeL
  split
  · rename_i r; exact absurd rfl (h r)
  · rfl

theorem expandTildeL_mono (home str : Bytes) {l l' : Lim} (hle : l ≤ l') :
    expandTildeL l home str = none ∨ expandTildeL l home str = expandTildeL l' home str := by
  by_cases h : ∃ r, str = 126 :: r
  · obtain ⟨r, rfl⟩ := h
    exact (expandTildeL_Exact home r).mono hle
  · have h' : ∀ r, str ≠ 126 :: r := fun r hr => h ⟨r, hr⟩
    exact .inr (by rw [expandTildeL_plain l home str h', expandTildeL_plain l' home str h'])

/-! ## pathslice -/

/-- The copy loop of one component in closed form. -/
theorem sliceComp_eq (dc : Bool) : ∀ (p out : Bytes) (room : Nat),
    sliceComp dc p out room =
      if dc then
        (if (p.takeWhile (· != 47)).length ≤ room then
          some (p.dropWhile (· != 47), out ++ p.takeWhile (· != 47), room - (p.takeWhile (· != 47)).length)
         else none)
      else some (p.dropWhile (· != 47), out, room) := by
  intro p
  induction p with
  | nil => intro out room; cases dc <;> simp [sliceComp]
  | cons c r ih =>
    intro out room
    by_cases hc : c = 47
    · subst hc
      cases dc <;> simp [sliceComp]
    · have hne : (c != 47) = true := by simpa using hc
      have hbeq : (c == 47) = false := by simpa using hc
      cases dc with
      | false =>
        simp only [sliceComp, hbeq, Bool.false_eq_true, if_false, Bool.not_false, if_true, ih, List.dropWhile_cons, hne]
      | true =>
        simp only [sliceComp, hbeq, Bool.false_eq_true, if_false, Bool.not_true, if_true, List.takeWhile_cons, hne,
          List.dropWhile_cons, List.length_cons]
        by_cases hr : room = 0
        · subst hr
          simp
        · have hr' : (room == 0) = false := by simpa using hr
          simp only [hr', Bool.false_eq_true, if_false, ih, if_true]
          by_cases hl : (r.takeWhile (· != 47)).length ≤ room - 1
          · have : (r.takeWhile (· != 47)).length + 1 ≤ room := by omega
            simp only [hl, this, if_true, List.append_assoc, List.singleton_append, Option.some.injEq, Prod.mk.injEq, true_and]
            omega
          · have : ¬ (r.takeWhile (· != 47)).length + 1 ≤ room := by omega
            simp only [hl, this, if_false]


/-- `k` more bytes of room. -/
def shiftSt (k : Nat) (st : SliceSt) : SliceSt := { st with room := st.room + k }

/-- The first byte of a component (`if (docopy) { if (bufsiz == 0) return NULL; ... }`). -/
def first1 (isrange docopy : Bool) (c : UInt8) (st : SliceSt) : Option SliceSt :=
  if docopy then
    if st.room == 0 then none
    else if st.isabs && isrange then some { st with out := st.out ++ [47], room := st.room - 1 }
    else if !st.isabs then some { st with out := st.out ++ [c], room := st.room - 1 }
    else some st
  else some st

theorem sliceLoop_succ (isrange : Bool) (beg end_ : Int) (n i : Nat) (st : SliceSt) :
    sliceLoop isrange beg end_ (n + 1) i st =
      match st.p with
      | [] => some st
      | c :: r =>
        match first1 isrange (decide (beg ≤ (i : Int)) && decide ((i : Int) ≤ end_)) c st with
        | none => none
        | some st1 =>
          match sliceComp (decide (beg ≤ (i : Int)) && decide ((i : Int) ≤ end_)) r st1.out st1.room with
          | none => none
          | some (p', out', room') =>
            sliceLoop isrange beg end_ n (i + 1) { p := p', out := out', room := room', isabs := true } := by
  rw [sliceLoop]
  rfl

/-- What one step preserves: bytes written + room left, and never more output than input consumed (+ the one byte
that may be written before the first component of a relative path... which is that component's first byte). -/
structure StepInv (st st' : SliceSt) (consumed : Nat) : Prop where
  sum : st'.out.length + st'.room = st.out.length + st.room
  grow : st'.out.length ≤ st.out.length + consumed

/-- The byte `first1` writes, if any. -/
def firstByte (isrange : Bool) (c : UInt8) (st : SliceSt) : Option UInt8 :=
  if st.isabs && isrange then some 47 else if !st.isabs then some c else none

theorem first1_eq (ir dc : Bool) (c : UInt8) (st : SliceSt) :
    first1 ir dc c st =
      if dc then
        if st.room = 0 then none
        else match firstByte ir c st with
          | some x => some { st with out := st.out ++ [x], room := st.room - 1 }
          | none => some st
      else some st := by
  unfold first1 firstByte
  cases dc
  · rfl
  · by_cases hr : st.room = 0
    · simp [hr]
    · have hr' : (st.room == 0) = false := by simpa using hr
      simp only [if_true, hr', Bool.false_eq_true, if_false, hr]
      cases st.isabs <;> cases ir <;> rfl

theorem firstByte_shift (ir : Bool) (c : UInt8) (k : Nat) (st : SliceSt) : firstByte ir c (shiftSt k st) = firstByte ir c st := rfl

theorem first1_inv {ir dc : Bool} {c : UInt8} {st st1 : SliceSt} (h : first1 ir dc c st = some st1) :
    st1.p = st.p ∧ st1.isabs = st.isabs ∧ st1.out.length + st1.room = st.out.length + st.room ∧
      st1.out.length ≤ st.out.length + 1 ∧ st1.room ≤ st.room := by
  rw [first1_eq] at h
  cases dc with
  | false => simp only [Bool.false_eq_true, if_false, Option.some.injEq] at h; subst h; simp
  | true =>
    simp only [if_true] at h
    by_cases hr : st.room = 0
    · simp [hr] at h
    · simp only [hr, if_false] at h
      cases hb : firstByte ir c st with
      | none => simp only [hb, Option.some.injEq] at h; subst h; simp
      | some x =>
        simp only [hb, Option.some.injEq] at h
        subst h
        simp only [List.length_append, List.length_singleton, true_and]
        omega

theorem first1_up {ir dc : Bool} {c : UInt8} {st st1 : SliceSt} (k : Nat) (h : first1 ir dc c st = some st1) :
    first1 ir dc c (shiftSt k st) = some (shiftSt k st1) := by
  rw [first1_eq] at h ⊢
  rw [firstByte_shift]
  cases dc with
  | false => simp only [Bool.false_eq_true, if_false, Option.some.injEq] at h ⊢; rw [h]
  | true =>
    simp only [if_true] at h ⊢
    by_cases hr : st.room = 0
    · simp [hr] at h
    · have hr2 : ¬ (shiftSt k st).room = 0 := by simp only [shiftSt]; omega
      simp only [hr, hr2, if_false] at h ⊢
      cases hb : firstByte ir c st with
      | none => simp only [hb, Option.some.injEq] at h ⊢; rw [h]
      | some x =>
        simp only [hb, Option.some.injEq] at h ⊢
        subst h
        simp only [shiftSt, SliceSt.mk.injEq, true_and, and_true]
        omega

theorem first1_down {ir dc : Bool} {c : UInt8} {st st1' : SliceSt} (k : Nat) (h : first1 ir dc c (shiftSt k st) = some st1')
    (hk : k < st1'.room) : ∃ st1, first1 ir dc c st = some st1 ∧ st1' = shiftSt k st1 := by
  rw [first1_eq] at h
  rw [firstByte_shift] at h
  simp only [first1_eq]
  cases dc with
  | false =>
    simp only [Bool.false_eq_true, if_false, Option.some.injEq] at h ⊢
    exact ⟨st, rfl, h.symm⟩
  | true =>
    simp only [if_true] at h ⊢
    by_cases hr2 : (shiftSt k st).room = 0
    · simp [hr2] at h
    · simp only [hr2, if_false] at h
      have hroom : (shiftSt k st).room = st.room + k := rfl
      by_cases hr : st.room = 0
      · -- with no room at all the longer buffer cannot end this step with more than `k` bytes left
        exfalso
        cases hb : firstByte ir c st with
        | none => simp only [hb, Option.some.injEq] at h; subst h; rw [hroom] at hk; omega
        | some x => simp only [hb, Option.some.injEq] at h; subst h; simp only [hroom] at hk; omega
      · simp only [hr, if_false]
        cases hb : firstByte ir c st with
        | none => simp only [hb, Option.some.injEq] at h ⊢; exact ⟨st, rfl, h.symm⟩
        | some x =>
          simp only [hb, Option.some.injEq] at h ⊢
          refine ⟨_, rfl, ?_⟩
          subst h
          simp only [shiftSt, SliceSt.mk.injEq, true_and, and_true]
          omega

theorem sliceComp_inv {dc : Bool} {p out p' out' : Bytes} {room room' : Nat} (h : sliceComp dc p out room = some (p', out', room')) :
    out'.length + room' = out.length + room ∧ out'.length + p'.length ≤ out.length + p.length ∧ room' ≤ room := by
  rw [sliceComp_eq] at h
  have hsplit : (p.takeWhile (· != 47)).length + (p.dropWhile (· != 47)).length = p.length := by
    have := congrArg List.length (List.takeWhile_append_dropWhile (p := (· != 47)) (l := p))
    rw [List.length_append] at this
    exact this
  cases dc with
  | false =>
    simp only [Bool.false_eq_true, if_false, Option.some.injEq, Prod.mk.injEq] at h
    obtain ⟨rfl, rfl, rfl⟩ := h
    exact ⟨rfl, by omega, Nat.le_refl _⟩
  | true =>
    simp only [if_true] at h
    split at h
    · simp only [Option.some.injEq, Prod.mk.injEq] at h
      obtain ⟨rfl, rfl, rfl⟩ := h
      simp only [List.length_append]
      omega
    · cases h

theorem sliceComp_up {dc : Bool} {p out p' out' : Bytes} {room room' : Nat} (k : Nat)
    (h : sliceComp dc p out room = some (p', out', room')) : sliceComp dc p out (room + k) = some (p', out', room' + k) := by
  rw [sliceComp_eq] at h ⊢
  cases dc with
  | false =>
    simp only [Bool.false_eq_true, if_false, Option.some.injEq, Prod.mk.injEq] at h ⊢
    obtain ⟨rfl, rfl, rfl⟩ := h
    exact ⟨rfl, rfl, rfl⟩
  | true =>
    simp only [if_true] at h ⊢
    split at h
    · rename_i hl
      have : (p.takeWhile (· != 47)).length ≤ room + k := by omega
      simp only [this, if_true]
      simp only [Option.some.injEq, Prod.mk.injEq] at h ⊢
      obtain ⟨rfl, rfl, rfl⟩ := h
      exact ⟨rfl, rfl, by omega⟩
    · cases h

theorem sliceComp_down {dc : Bool} {p out p' out' : Bytes} {room room'' : Nat} (k : Nat)
    (h : sliceComp dc p out (room + k) = some (p', out', room'')) (hk : k ≤ room'') :
    sliceComp dc p out room = some (p', out', room'' - k) := by
  rw [sliceComp_eq] at h ⊢
  cases dc with
  | false =>
    simp only [Bool.false_eq_true, if_false, Option.some.injEq, Prod.mk.injEq] at h ⊢
    obtain ⟨rfl, rfl, rfl⟩ := h
    exact ⟨rfl, rfl, by omega⟩
  | true =>
    simp only [if_true] at h ⊢
    split at h
    · simp only [Option.some.injEq, Prod.mk.injEq] at h
      obtain ⟨rfl, rfl, rfl⟩ := h
      have : (p.takeWhile (· != 47)).length ≤ room := by omega
      simp only [this, if_true, Option.some.injEq, Prod.mk.injEq, true_and]
      omega
    · cases h

theorem sliceLoop_inv (ir : Bool) (b e : Int) : ∀ (n i : Nat) (st st' : SliceSt), sliceLoop ir b e n i st = some st' →
    st'.out.length + st'.room = st.out.length + st.room ∧ st'.out.length + st'.p.length ≤ st.out.length + st.p.length ∧
      st'.room ≤ st.room := by
  intro n
  induction n with
  | zero => intro i st st' h; simp only [sliceLoop, Option.some.injEq] at h; subst h; exact ⟨rfl, Nat.le_refl _, Nat.le_refl _⟩
  | succ n ih =>
    intro i st st' h
    rw [sliceLoop_succ] at h
    cases hp : st.p with
    | nil => simp only [hp, Option.some.injEq] at h; subst h; exact ⟨rfl, by rw [hp]; exact Nat.le_refl _, Nat.le_refl _⟩
    | cons c r =>
      simp only [hp] at h
      cases h1 : first1 ir (decide (b ≤ (i : Int)) && decide ((i : Int) ≤ e)) c st with
      | none => simp [h1] at h
      | some st1 =>
        simp only [h1] at h
        cases hc : sliceComp (decide (b ≤ (i : Int)) && decide ((i : Int) ≤ e)) r st1.out st1.room with
        | none => simp [hc] at h
        | some x =>
          obtain ⟨p', out', room'⟩ := x
          simp only [hc] at h
          obtain ⟨e1, _, e3, e4, e5⟩ := first1_inv h1
          obtain ⟨c1, c2, c3⟩ := sliceComp_inv hc
          obtain ⟨l1, l2, l3⟩ := ih _ _ _ h
          simp only at l1 l2 l3
          simp only [List.length_cons]
          refine ⟨by omega, by omega, by omega⟩

theorem sliceLoop_up (ir : Bool) (b e : Int) (k : Nat) : ∀ (n i : Nat) (st st' : SliceSt), sliceLoop ir b e n i st = some st' →
    sliceLoop ir b e n i (shiftSt k st) = some (shiftSt k st') := by
  intro n
  induction n with
  | zero => intro i st st' h; simp only [sliceLoop, Option.some.injEq] at h ⊢; rw [h]
  | succ n ih =>
    intro i st st' h
    rw [sliceLoop_succ] at h ⊢
    have ep : (shiftSt k st).p = st.p := rfl
    rw [ep]
    cases hp : st.p with
    | nil => simp only [hp, Option.some.injEq] at h ⊢; rw [h]
    | cons c r =>
      simp only [hp] at h ⊢
      cases h1 : first1 ir (decide (b ≤ (i : Int)) && decide ((i : Int) ≤ e)) c st with
      | none => simp [h1] at h
      | some st1 =>
        simp only [h1] at h
        rw [first1_up k h1]
        simp only
        cases hc : sliceComp (decide (b ≤ (i : Int)) && decide ((i : Int) ≤ e)) r st1.out st1.room with
        | none => simp [hc] at h
        | some x =>
          obtain ⟨p', out', room'⟩ := x
          simp only [hc] at h
          have e1 : (shiftSt k st1).out = st1.out := rfl
          have e2 : (shiftSt k st1).room = st1.room + k := rfl
          rw [e1, e2, sliceComp_up k hc]
          exact ih _ _ _ h

theorem sliceLoop_down (ir : Bool) (b e : Int) (k : Nat) : ∀ (n i : Nat) (st st'' : SliceSt),
    sliceLoop ir b e n i (shiftSt k st) = some st'' → k < st''.room →
      ∃ st', sliceLoop ir b e n i st = some st' ∧ st'' = shiftSt k st' := by
  intro n
  induction n with
  | zero =>
    intro i st st'' h _
    simp only [sliceLoop, Option.some.injEq] at h ⊢
    exact ⟨st, rfl, h.symm⟩
  | succ n ih =>
    intro i st st'' h hk
    rw [sliceLoop_succ] at h ⊢
    have ep : (shiftSt k st).p = st.p := rfl
    rw [ep] at h
    cases hp : st.p with
    | nil =>
      simp only [hp, Option.some.injEq] at h ⊢
      exact ⟨st, rfl, h.symm⟩
    | cons c r =>
      simp only [hp] at h ⊢
      cases h1 : first1 ir (decide (b ≤ (i : Int)) && decide ((i : Int) ≤ e)) c (shiftSt k st) with
      | none => simp [h1] at h
      | some st1' =>
        simp only [h1] at h
        cases hc : sliceComp (decide (b ≤ (i : Int)) && decide ((i : Int) ≤ e)) r st1'.out st1'.room with
        | none => simp [hc] at h
        | some x =>
          obtain ⟨p', out', room''⟩ := x
          simp only [hc] at h
          obtain ⟨_, _, l3⟩ := sliceLoop_inv ir b e _ _ _ _ h
          simp only at l3
          obtain ⟨_, _, c3⟩ := sliceComp_inv hc
          obtain ⟨st1, hf, rfl⟩ := first1_down k h1 (by omega)
          rw [hf]
          simp only
          have e1 : (shiftSt k st1).out = st1.out := rfl
          have e2 : (shiftSt k st1).room = st1.room + k := rfl
          rw [e1, e2] at hc
          have hc' := sliceComp_down k hc (by omega)
          rw [hc']
          simp only
          have hsh : ({ p := p', out := out', room := room'', isabs := true } : SliceSt) =
              shiftSt k { p := p', out := out', room := room'' - k, isabs := true } := by
            simp only [shiftSt, SliceSt.mk.injEq, true_and, and_true]; omega
          rw [hsh] at h
          exact ih _ _ _ h hk


/-- The index arithmetic of `pathslice` (independent of the buffer): `isrange`, the normalised `beg` and `end`, the
number of components and `isabs`; `none` is the early `return NULL`. -/
def sliceArgs (path : Bytes) (beg end_ : Int) : Option (Bool × Int × Int × Nat × Bool) :=
  let isabs := match path with | 47 :: _ => true | _ => false
  let ncomps : Int := (if isabs then 0 else 1) + (countSlash path : Int)
  let isrange := !(end_ - beg == 0)
  let r : Int := if isrange then 1 else 0
  let end1 := if end_ < 0 then ncomps + end_ - r else end_
  let beg1 := if beg < 0 then ncomps + beg - r else beg
  if beg1 < 0 || beg1 > end1 || end1 < 0 || end1 ≥ ncomps then none else some (isrange, beg1, end1, ncomps.toNat, isabs)

/-- The end of `pathslice`: room for the terminator. -/
def sliceFinish (r : Option SliceSt) : Option Bytes :=
  match r with
  | none => none
  | some st => if st.room == 0 then none else some st.out

theorem bind_ite_none {α β : Type} {C : Prop} {_ : Decidable C} (T : α) (g : α → Option β) :
    (if C then none else some T : Option α).bind g = if C then none else g T := by
  by_cases h : C
  · simp only [h, if_true, Option.bind_none]
  · simp only [h, if_false, Option.bind_some]

theorem pathslice_eq (path : Bytes) (n : Nat) (beg end_ : Int) :
    pathslice path n beg end_ =
      (sliceArgs path beg end_).bind fun a =>
        sliceFinish (sliceLoop a.1 a.2.1 a.2.2.1 a.2.2.2.1 0 { p := path, out := [], room := n, isabs := a.2.2.2.2 }) := by
  unfold pathslice sliceArgs
  simp only
  rw [bind_ite_none]
  rfl

theorem pathslice_some {path : Bytes} {n : Nat} {beg end_ : Int} {s : Bytes} (h : pathslice path n beg end_ = some s) :
    ∃ ir b1 e1 nc isabs st, sliceArgs path beg end_ = some (ir, b1, e1, nc, isabs) ∧
      sliceLoop ir b1 e1 nc 0 { p := path, out := [], room := n, isabs := isabs } = some st ∧ st.room ≠ 0 ∧ st.out = s := by
  rw [pathslice_eq] at h
  cases ha : sliceArgs path beg end_ with
  | none => simp [ha] at h
  | some a =>
    obtain ⟨ir, b1, e1, nc, isabs⟩ := a
    simp only [ha, Option.bind_some] at h
    cases hl : sliceLoop ir b1 e1 nc 0 { p := path, out := [], room := n, isabs := isabs } with
    | none => simp [hl, sliceFinish] at h
    | some st =>
      simp only [hl, sliceFinish] at h
      by_cases hr : st.room = 0
      · simp [hr] at h
      · have hr' : (st.room == 0) = false := by simpa using hr
        simp only [hr', Bool.false_eq_true, if_false, Option.some.injEq] at h
        exact ⟨ir, b1, e1, nc, isabs, st, rfl, hl, hr, h⟩

theorem pathslice_of_loop {path : Bytes} {n : Nat} {beg end_ : Int} {ir : Bool} {b1 e1 : Int} {nc : Nat} {isabs : Bool} {st : SliceSt}
    (ha : sliceArgs path beg end_ = some (ir, b1, e1, nc, isabs))
    (hl : sliceLoop ir b1 e1 nc 0 { p := path, out := [], room := n, isabs := isabs } = some st) (hr : st.room ≠ 0) :
    pathslice path n beg end_ = some st.out := by
  rw [pathslice_eq]
  simp only [ha, Option.bind_some, hl, sliceFinish]
  have hr' : (st.room == 0) = false := by simpa using hr
  simp only [hr', Bool.false_eq_true, if_false]

/-- An accepted slice is shorter than the buffer and no longer than the path. -/
theorem pathslice_length {path : Bytes} {n : Nat} {beg end_ : Int} {s : Bytes} (h : pathslice path n beg end_ = some s) :
    s.length < n ∧ s.length ≤ path.length := by
  obtain ⟨ir, b1, e1, nc, isabs, st, _, hl, hr, rfl⟩ := pathslice_some h
  obtain ⟨l1, l2, _⟩ := sliceLoop_inv _ _ _ _ _ _ _ hl
  simp only [List.length_nil, Nat.zero_add] at l1 l2
  exact ⟨by omega, by omega⟩

/-- A larger buffer gives the same slice. -/
theorem pathslice_up {path : Bytes} {n : Nat} {beg end_ : Int} {s : Bytes} (k : Nat) (h : pathslice path n beg end_ = some s) :
    pathslice path (n + k) beg end_ = some s := by
  obtain ⟨ir, b1, e1, nc, isabs, st, ha, hl, hr, rfl⟩ := pathslice_some h
  have := sliceLoop_up ir b1 e1 k _ _ _ _ hl
  have h2 := pathslice_of_loop (n := n + k) ha this (by simp only [shiftSt]; omega)
  exact h2

/-- A slice that a larger buffer accepts is accepted by every buffer it fits into - in full. -/
theorem pathslice_down {path : Bytes} {n : Nat} {beg end_ : Int} {s : Bytes} (k : Nat) (h : pathslice path (n + k) beg end_ = some s)
    (hs : s.length < n) : pathslice path n beg end_ = some s := by
  obtain ⟨ir, b1, e1, nc, isabs, st, ha, hl, hr, rfl⟩ := pathslice_some h
  obtain ⟨l1, _, _⟩ := sliceLoop_inv _ _ _ _ _ _ _ hl
  simp only [List.length_nil, Nat.zero_add] at l1
  have hl' : sliceLoop ir b1 e1 nc 0 (shiftSt k { p := path, out := [], room := n, isabs := isabs }) = some st := hl
  obtain ⟨st', hl2, rfl⟩ := sliceLoop_down ir b1 e1 k _ _ _ _ hl' (by omega)
  have hroom : (shiftSt k st').room = st'.room + k := rfl
  have hout : (shiftSt k st').out = st'.out := rfl
  rw [hroom, hout] at l1
  rw [hout] at hs ⊢
  exact pathslice_of_loop ha hl2 (by omega)

/-- Two buffers that both accept give the same slice; a buffer of `|path| + 1` bytes accepts whatever any buffer accepts. -/
theorem pathslice_big {path : Bytes} {n : Nat} {beg end_ : Int} {s : Bytes} (h : pathslice path n beg end_ = some s) :
    pathslice path (path.length + 1) beg end_ = some s := by
  obtain ⟨h1, h2⟩ := pathslice_length h
  by_cases hn : n ≤ path.length + 1
  · obtain ⟨k, hk⟩ : ∃ k, path.length + 1 = n + k := ⟨path.length + 1 - n, by omega⟩
    rw [hk]
    exact pathslice_up k h
  · obtain ⟨k, hk⟩ : ∃ k, n = path.length + 1 + k := ⟨n - (path.length + 1), by omega⟩
    rw [hk] at h
    exact pathslice_down k h (by omega)

theorem pathsliceL_Exact (path : Bytes) (beg end_ : Int) : Exact (fun l => pathsliceL path l beg end_) := by
  intro l
  cases l with
  | inf =>
    simp only [Lim.fits_inf, if_true]
    cases pathsliceL path .inf beg end_ <;> rfl
  | fin n =>
    simp only [pathsliceL, Lim.fits_fin]
    cases hbig : pathslice path (path.length + 1) beg end_ with
    | none =>
      simp only [Option.bind_none]
      cases hn : pathslice path n beg end_ with
      | none => rfl
      | some s => rw [pathslice_big hn] at hbig; cases hbig
    | some s =>
      simp only [Option.bind_some]
      by_cases hs : s.length < n
      · simp only [hs, decide_true, if_true]
        by_cases hle : n ≤ path.length + 1
        · obtain ⟨k, hk⟩ : ∃ k, path.length + 1 = n + k := ⟨path.length + 1 - n, by omega⟩
          rw [hk] at hbig
          exact pathslice_down k hbig hs
        · obtain ⟨k, hk⟩ : ∃ k, n = path.length + 1 + k := ⟨n - (path.length + 1), by omega⟩
          rw [hk]
          exact pathslice_up k hbig
      · simp only [hs, decide_false, Bool.false_eq_true, if_false]
        cases hn : pathslice path n beg end_ with
        | none => rfl
        | some t =>
          have := pathslice_big hn
          rw [hbig] at this
          cases this
          exact absurd (pathslice_length hn).1 hs

end Mdsort.Proofs.Limits
