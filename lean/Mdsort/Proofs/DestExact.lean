import Mdsort.Model.Dest

/-!
# `Spec.destOK` is exact (bounded check)

`C09_destination_partial` shows that the pinned code is right on `Spec.destOK`.  Here the converse is
checked by evaluation for every sequence of up to 6 actions in which all names are pairwise distinct
and distinct from the message's own maildir and subdirectory (so that no two places coincide by
accident): the model ends in the documented place exactly when `destOK` holds.  The set is not
regular (`(flag flags)^k flag (flags move)^j` is in it iff `j = k + 1`), which is why `destOK` counts.
-/

namespace Mdsort.Proofs.Dest
open Mdsort Mdsort.Model Mdsort.Spec

/-- The message `/S/old/1`. -/
def genEnv : Env where
  rx := fun _ _ => .nomatch
  command := fun _ => 0
  isDir := fun _ => false
  now := 0
  strptime := fun _ => none
  zoneName := fun _ => none
  fileTime := fun _ => none
  dryrun := false
  path := [47, 83, 47, 111, 108, 100, 47, 49]

/-- The action of kind `k` at position `i`, with a name used nowhere else: `move "/M<i>"`, `flag "F<i>"`. -/
def genAction (k : Fin 3) (i : Nat) : PathAction :=
  match k with
  | 0 => .move [47, 77, 48 + i.toUInt8]
  | 1 => .flag [70, 48 + i.toUInt8]
  | 2 => .flags [70]

def genActions (ks : List (Fin 3)) : List PathAction := ks.zipIdx.map fun x => genAction x.1 x.2

/-- All sequences of `n` kinds. -/
def kindSeqs : Nat → List (List (Fin 3))
  | 0 => [[]]
  | n + 1 => (kindSeqs n).flatMap fun s => [0, 1, 2].map (· :: s)

/-- Does the model put the message where the documentation says? -/
def agrees (ks : List (Fin 3)) : Bool :=
  let a := genActions ks
  finalPlace genEnv [] a == (if a.isEmpty then none else some (destPath ([47, 83], [111, 108, 100]) a))

/-- On all 1093 sequences of at most 6 actions with distinct names: right place iff `destOK`. -/
theorem destOK_exact_upto_6 : ∀ n ∈ List.range 7, ∀ ks ∈ kindSeqs n, agrees ks = destOK (genActions ks) := by
  decide +kernel

/-- `destSimple` (all `flags` first; then one kind only, or the last two actions of different kinds) is
inside `destOK`, for all 3280 sequences of at most 7 actions. -/
theorem destSimple_sub_destOK_upto_7 :
    ∀ n ∈ List.range 8, ∀ ks ∈ kindSeqs n, destSimple (genActions ks) = true → destOK (genActions ks) = true := by
  decide +kernel

end Mdsort.Proofs.Dest
