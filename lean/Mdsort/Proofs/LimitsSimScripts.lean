import Mdsort.Proofs.LimitsEvalP

/-!
# The functions of maildir.c / message.c / match.c under two sets of limits

For `L ≤ L'` (and the name buffer of `L` able to hold `new` / `cur`): each function under `L` runs in lock step with
itself under `L'` until a setter overflows under `L`; from there it only releases descriptors and returns its error value.
-/

namespace Mdsort.Proofs.Limits
open Mdsort Mdsort.Model Mdsort.Proofs.World

macro "sim_step" : tactic =>
  `(tactic| first
      | (with_reducible exact Sim.ret _)
      | (with_reducible exact Sim.refl _)
      | (with_reducible apply Sim.call; intro _)
      | (with_reducible apply Sim.bind_same; intro _)
      | split
      | (dsimp only; split))

variable {L L' : Limits}

theorem gennameL_sim (hle : L ≤ L') (env : PEnv) (md : Maildir) (flags : Option Bytes) (fuel : Nat) :
    ∀ count, Sim (RelErr (· = none)) (gennameL L env md flags fuel count) (gennameL L' env md flags fuel count) := by
  induction fuel with
  | zero => intro count; exact Sim.refl _
  | succ n ih =>
    intro count
    simp only [gennameL]
    rcases (gennameBufL_Exact (decimalInt env.now ++ [46] ++ decimal env.pid ++ [95] ++ decimal ((count + 1) % gennameWrap) ++ [46] ++ env.host ++
        flags.getD [])).mono hle.2.1 with h | h
    · rw [h]; exact Sim.stop_ret _ rfl
    · rw [h]
      simp only [bind_eq, pure_eq, call_bind]
      repeat' (first | exact ih _ | sim_step)

theorem gennameStartL_sim (hle : L ≤ L') (env : PEnv) (md : Maildir) (flags : Option Bytes) :
    Sim (RelErr (· = none)) (gennameStartL L env md flags) (gennameStartL L' env md flags) := gennameL_sim hle _ _ _ _ _


/-! ## release-only programs -/

macro "rel_step" : tactic =>
  `(tactic| first
      | (with_reducible exact RelErr.ret rfl)
      | (with_reducible exact RelErr.ret (by simp))
      | (with_reducible apply RelErr.call rfl; intro _)
      | split
      | (dsimp only; split))

theorem relErr_maildirClose {β} {E : β → Prop} (md : Maildir) {f : Unit → Prog β} (hf : RelErr E (f ())) :
    RelErr E ((maildirClose md).bind f) := by
  unfold maildirClose
  split
  · simp only [bind_eq, pure_eq, call_bind, call_bind', ret_bind]
    exact RelErr.call rfl fun _ => hf
  · exact hf

theorem relErr_freeMsg {β} {E : β → Prop} (ms : MsgSt) {f : Unit → Prog β} (hf : RelErr E (f ())) :
    RelErr E ((freeMsg ms).bind f) := by
  unfold freeMsg
  split
  · simp only [bind_eq, pure_eq, call_bind, call_bind', ret_bind]
    exact RelErr.call rfl fun _ => hf
  · exact hf

/-! ## maildir_open for a destination -/

theorem parseSubdirL_mono (hle : L ≤ L') (hs : Sane L) (path : Bytes) :
    parseSubdirL L.nameMax1 path = none ∨ parseSubdirL L.nameMax1 path = parseSubdirL L'.nameMax1 path := by
  unfold parseSubdirL
  rcases (pathsliceL_Exact path (-1) (-1)).mono hle.2.1 with h | h
  · rw [h]; exact .inl rfl
  · rw [h]; exact .inr rfl

theorem maildirOpenDstL_sim (hle : L ≤ L') (hs : Sane L) (path : Bytes) :
    Sim (RelErr (· = none)) (maildirOpenDstL L path) (maildirOpenDstL L' path) := by
  unfold maildirOpenDstL
  rcases parseSubdirL_mono hle hs path with h | h
  · rw [h]; exact Sim.stop_ret _ rfl
  · rw [h]
    cases parseSubdirL L'.nameMax1 path with
    | none => exact Sim.refl _
    | some sd =>
      simp only
      rcases (pathsliceL_Exact path 0 (-1)).mono hle.1 with h1 | h1
      · rw [h1]; exact Sim.stop_ret _ rfl
      · rw [h1]
        cases pathsliceL path L'.pathMax 0 (-1) with
        | none => exact Sim.refl _
        | some root =>
          simp only
          rcases (pathjoinL_Exact root (subdirName sd)).mono hle.1 with h2 | h2
          · rw [h2]; exact Sim.stop_ret _ rfl
          · rw [h2]; exact Sim.refl _

/-! ## message_set_file -/

theorem messageSetFileL_sim (hle : L ≤ L') (ms : MsgSt) (dir name : Bytes) (fd : Option Handle) :
    Sim (RelErr (·.2 = true)) (messageSetFileL L ms dir name fd) (messageSetFileL L' ms dir name fd) := by
  unfold messageSetFileL
  rcases (pathjoinL_Exact dir name).mono hle.1 with h | h
  · rw [h]; exact Sim.stop_ret _ rfl
  · rw [h]
    cases pathjoinL L'.pathMax dir name with
    | none => exact Sim.refl _
    | some p =>
      simp only
      rcases (strlcpyL_Exact name).mono hle.2.1 with h1 | h1
      · rw [h1]; exact Sim.stop_ret _ rfl
      · rw [h1]; exact Sim.refl _

theorem messageSetFileMovedL_sim (hle : L ≤ L') (ms : MsgSt) (src dst : Subdir) (dir name : Bytes) :
    Sim (RelErr (·.2 = true)) (messageSetFileMovedL L ms src dst dir name) (messageSetFileMovedL L' ms src dst dir name) := by
  unfold messageSetFileMovedL
  rcases (pathjoinL_Exact dir name).mono hle.1 with h | h
  · rw [h]; exact Sim.stop_ret _ rfl
  · rw [h]
    cases pathjoinL L'.pathMax dir name with
    | none => exact Sim.refl _
    | some p =>
      simp only
      rcases (strlcpyL_Exact name).mono hle.2.1 with h1 | h1
      · rw [h1]; exact Sim.stop_ret _ rfl
      · rw [h1]; exact Sim.refl _

/-! ## maildir_move, maildir_write -/

/-- Close a goal `∀ a, E a → RelErr E' (f a)`: the continuation of an error value only releases and returns an error. -/
macro "rel_close" : tactic =>
  `(tactic| (intro a ha; (try subst ha); (try simp only [ha, if_true]); (try dsimp only [Option.map]); (repeat' rel_step); done))

theorem maildirMoveL_sim (hle : L ≤ L') (env : PEnv) (src dst : Maildir) (ms : MsgSt) :
    Sim (RelErr (·.2 = true)) (maildirMoveL L env src dst ms) (maildirMoveL L' env src dst ms) := by
  unfold maildirMoveL
  simp only [bind_eq, pure_eq, call_bind]
  repeat' (first
    | exact messageSetFileMovedL_sim hle _ _ _ _ _
    | apply Sim.bindE (gennameStartL_sim hle _ _ _)
    | rel_close
    | intro _
    | sim_step)

theorem maildirWriteL_sim (hle : L ≤ L') (env : PEnv) (md : Maildir) (ms : MsgSt) :
    Sim (RelErr (·.2 = true)) (maildirWriteL L env md ms) (maildirWriteL L' env md ms) := by
  unfold maildirWriteL
  simp only [bind_eq, pure_eq, call_bind]
  repeat' (first
    | apply Sim.bindE (messageSetFileL_sim hle _ _ _ _)
    | apply Sim.bindE (gennameStartL_sim hle _ _ _)
    | rel_close
    | intro _
    | sim_step)


/-! ## writefd, message_get_fd -/

theorem writefdL_sim (hle : L ≤ L') (tmpdir : Bytes) : Sim (RelErr (· = none)) (writefdL L tmpdir) (writefdL L' tmpdir) := by
  unfold writefdL
  rcases (pathjoinL_Exact tmpdir (ofString "mdsort-XXXXXXXX")).mono hle.1 with h | h
  · rw [h]; exact Sim.stop_ret _ rfl
  · rw [h]; exact Sim.refl _

theorem messageGetFdL_sim (hle : L ≤ L') (env : PEnv) (ms : MsgSt) (part : Option Msg) (dobody : Bool) :
    Sim (RelErr (· = none)) (messageGetFdL L env ms part dobody) (messageGetFdL L' env ms part dobody) := by
  unfold messageGetFdL
  simp only [bind_eq, pure_eq, call_bind]
  apply Sim.bindE (E := (· = none))
  · repeat' (first
      | apply Sim.bindE (writefdL_sim hle _)
      | rel_close
      | intro _
      | sim_step)
  · intro _; exact Sim.refl _
  · rel_close

/-! ## matches_exec -/

theorem execOneL_sim (hle : L ≤ L') (hs : Sane L) (env : PEnv) (mh : Match) (st : ExecSt) :
    Sim (RelErr (·.2 = true)) (execOneL L env mh st) (execOneL L' env mh st) := by
  unfold execOneL
  simp only [bind_eq, pure_eq, call_bind, bind_assoc, ret_bind]
  cases mh.ty <;> simp only <;>
  repeat' (first
    | apply Sim.bindE (maildirOpenDstL_sim hle hs _)
    | apply Sim.bindE (maildirMoveL_sim hle _ _ _ _)
    | apply Sim.bindE (maildirWriteL_sim hle _ _ _)
    | apply Sim.bindE (messageGetFdL_sim hle _ _ _ _)
    | exact relErr_maildirClose _ (RelErr.ret rfl)
    | rel_close
    | intro _
    | (rw [bind_assoc, bind_assoc]; simp only [ret_bind])
    | sim_step)

theorem matchesExecL_sim (hle : L ≤ L') (hs : Sane L) (env : PEnv) (ml : MatchList) :
    ∀ st, Sim (RelErr (·.2 = true)) (matchesExecL L env ml st) (matchesExecL L' env ml st) := by
  induction ml with
  | nil => intro st; exact Sim.refl _
  | cons mh rest ih =>
    intro st
    simp only [matchesExecL, bind_eq, pure_eq]
    apply Sim.bindE (execOneL_sim hle hs env mh st)
    · intro x
      split
      · exact Sim.refl _
      · exact ih _
    · intro x hx
      simp only [hx, if_true]
      split
      · exact relErr_maildirClose _ (RelErr.ret rfl)
      · exact RelErr.ret rfl

/-! ## message_parse -/

theorem messageParsePL_sim (hle : L ≤ L') (d : Handle) (dir name content : Bytes) :
    Sim (RelErr (· = none)) (messageParsePL L d dir name content) (messageParsePL L' d dir name content) := by
  unfold messageParsePL
  simp only [bind_eq, pure_eq, call_bind]
  apply Sim.call
  intro r
  split
  · apply Sim.bind_same
    intro failed
    split
    · exact Sim.refl _
    · rcases (pathjoinL_Exact dir name).mono hle.1 with h | h
      · rw [h]
        exact Sim.stop _ _ (RelErr.call rfl fun _ => RelErr.ret rfl)
      · rw [h]
        rcases (strlcpyL_Exact name).mono hle.2.1 with h1 | h1
        · rw [h1]
          apply Sim.stop
          cases pathjoinL L'.pathMax dir name <;> exact RelErr.call rfl fun _ => RelErr.ret rfl
        · rw [h1]; exact Sim.refl _
  · exact Sim.refl _


/-! ## the units of work of the main loop -/

/-- One message: in lock step until the first overflow; then the descriptor of the message is closed and the error flag set. -/
theorem processMessageL_sim (hle : L ≤ L') (hs : Sane L) (env : PEnv) (orc : EvalOracles) (expr : Expr) (md : Maildir) (name : Bytes)
    (st : MainSt) :
    Sim (RelErr (·.1.error = true)) (processMessageL L env orc expr md name st) (processMessageL L' env orc expr md name st) := by
  unfold processMessageL
  split
  · exact Sim.refl _
  · split
    · exact Sim.refl _
    · simp only [bind_eq, pure_eq]
      apply Sim.bindE (messageParsePL_sim hle _ md.path name _)
      · intro pm
        cases pm with
        | none => exact Sim.refl _
        | some ms =>
          simp only
          apply Sim.bindE (evalPL_sim hle hs _ expr ms.msg ms.flags)
          · rintro ⟨t, est⟩
            cases t
            · simp only
              rcases matchesInterpolateL_mono hle
                  { rx := orc.rx, command := fun _ => -1, isDir := fun _ => false, now := env.now, strptime := orc.strptime,
                    zoneName := orc.zoneName, fileTime := fun _ => none, timeFormat := orc.timeFormat, dryrun := env.dryrun,
                    path := ms.path }
                  est.ml (partMsg ms.msg ms.parts) with h2 | h2
              · rw [h2]
                exact Sim.stop _ _ (relErr_freeMsg _ (RelErr.ret rfl))
              · rw [h2]
                split
                · exact Sim.refl _
                · split
                  · exact Sim.refl _
                  · apply Sim.bindE (matchesExecL_sim hle hs env _ _)
                    · intro x; exact Sim.refl _
                    · intro x hx
                      exact relErr_freeMsg _ (RelErr.ret (by simp [hx]))
            · exact Sim.refl _
            · exact Sim.refl _
          · rintro ⟨t, est⟩ ht
            simp only at ht
            subst ht
            exact relErr_freeMsg _ (RelErr.ret rfl)
      · intro pm hpm
        subst hpm
        exact RelErr.ret rfl

/-- The step from `new` to `cur`. -/
theorem nextSubdirL_sim (hle : L ≤ L') (md : Maildir) : Sim (RelErr (·.2 = true)) (nextSubdirL L md) (nextSubdirL L' md) := by
  unfold nextSubdirL
  rcases (pathjoinL_Exact md.root (subdirName .cur)).mono hle.1 with h | h
  · rw [h]; exact Sim.stop_ret _ rfl
  · rw [h]; exact Sim.refl _

/-- Opening a configured maildir. -/
theorem openMaildirL_sim (hle : L ≤ L') (p : Bytes) : Sim (RelErr (· = none)) (openMaildirL L p) (openMaildirL L' p) := by
  unfold openMaildirL
  rcases (strlcpyL_Exact p).mono hle.1 with h | h
  · rw [h]; exact Sim.stop_ret _ rfl
  · rw [h]
    rcases (pathjoinL_Exact p (subdirName .new)).mono hle.1 with h1 | h1
    · rw [h1]
      apply Sim.stop
      cases strlcpyL L'.pathMax p <;> exact RelErr.ret rfl
    · rw [h1]; exact Sim.refl _

/-- Spooling standard input: the stop is the immediate return of the failure value (the caller removes the spool). -/
theorem maildirStdinL_sim (hle : L ≤ L') (env : PEnv) (input : Bytes) :
    Sim (RelErr (·.2.1 = true)) (maildirStdinL L env input) (maildirStdinL L' env input) := by
  unfold maildirStdinL
  simp only [bind_eq, pure_eq, call_bind]
  rcases (pathjoinL_Exact env.tmpdir (ofString "mdsort-XXXXXXXX")).mono hle.1 with h | h
  · rw [h]; exact Sim.stop_ret _ rfl
  · rw [h]
    cases pathjoinL L'.pathMax env.tmpdir (ofString "mdsort-XXXXXXXX") with
    | none => exact Sim.refl _
    | some tmpl =>
      simp only
      apply Sim.call
      intro r
      split
      · rename_i root
        rcases (pathjoinL_Exact root (subdirName .new)).mono hle.1 with h1 | h1
        · rw [h1]; exact Sim.stop_ret _ rfl
        · rw [h1]
          cases pathjoinL L'.pathMax root (subdirName .new) with
          | none => exact Sim.refl _
          | some p =>
            simp only
            repeat' (first
              | apply Sim.bindE (gennameStartL_sim hle _ _ _)
              | rel_close
              | intro _
              | sim_step)
      · exact Sim.refl _

end Mdsort.Proofs.Limits
