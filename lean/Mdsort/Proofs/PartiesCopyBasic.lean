import Mdsort.Proofs.PartiesCopyStep

/-! Preservation of `CInv` by one step, first part: entries, handles, names in flight. -/

namespace Mdsort.Proofs.Parties
set_option linter.unusedSimpArgs false
set_option linter.unusedVariables false
open Mdsort Mdsort.Model
open Mdsort.Proofs.World
open Mdsort.Proofs.Own

variable {M : Msg → Prop} {s0 s : Shared} {a : Nat} {ps : PState} {c : Call} {k : Res → Prog Bool}

/-- A target entry and another entry never hold the same file afterwards. -/
theorem StepCtx.key (x : StepCtx M s0 s a ps c k) (p n p' n' : Bytes) (f : Nat)
    (hd : isOk (predict (s.view ps) c) = true ∧ callDst (s.view ps) c = some (p, n))
    (hnd : ¬ (isOk (predict (s.view ps) c) = true ∧ callDst (s.view ps) c = some (p', n')))
    (h1 : (stepCall s a ps c k).fs.lookup p n = some f) (h2 : (stepCall s a ps c k).fs.lookup p' n' = some f) : False := by
  rw [x.hL, if_pos hd] at h1
  rw [x.hL, if_neg hnd] at h2
  split at h2
  · cases h2
  rename_i hns
  rcases dst_kind hd.2 with hk | hk
  · obtain ⟨y, hy, _, hb, _⟩ := create_ok hk hd.1
    rw [hb] at h1; cases h1
    exact Nat.lt_irrefl _ (x.inv.boundLt p' n' _ h2)
  · obtain ⟨y, z, g, hy, hz, hl, hb⟩ := rename_ok hk hd.1
    rw [hb] at h1; cases h1
    obtain ⟨e1, e2⟩ := x.inv.inj y.1 y.2 p' n' f hl h2
    apply hns
    refine ⟨hd.1, ?_⟩
    rw [hy, ← e1, ← e2]

theorem StepCtx.boundLt' (x : StepCtx M s0 s a ps c k) (p n : Bytes) (f : Nat)
    (h : (stepCall s a ps c k).fs.lookup p n = some f) : f < (stepCall s a ps c k).fs.nextFid := by
  rw [x.hL] at h
  split at h
  · rename_i hd
    rcases dst_kind hd.2 with hk | hk
    · obtain ⟨y, hy, _, hb, hn⟩ := create_ok hk hd.1
      rw [hb] at h; cases h
      show s.fs.nextFid < (core (s.view ps) c _).nextFid
      rw [hn]; exact Nat.lt_succ_self _
    · obtain ⟨y, z, g, hy, hz, hl, hb⟩ := rename_ok hk hd.1
      rw [hb] at h; cases h
      exact Nat.lt_of_lt_of_le (x.inv.boundLt y.1 y.2 f hl) x.nextge
  · split at h
    · cases h
    · exact Nat.lt_of_lt_of_le (x.inv.boundLt p n f h) x.nextge

theorem StepCtx.inj' (x : StepCtx M s0 s a ps c k) (p n p' n' : Bytes) (f : Nat)
    (h1 : (stepCall s a ps c k).fs.lookup p n = some f) (h2 : (stepCall s a ps c k).fs.lookup p' n' = some f) :
    p = p' ∧ n = n' := by
  by_cases hd : isOk (predict (s.view ps) c) = true ∧ callDst (s.view ps) c = some (p, n)
  · by_cases hd' : isOk (predict (s.view ps) c) = true ∧ callDst (s.view ps) c = some (p', n')
    · have := hd.2.symm.trans hd'.2
      simpa using this
    · exact (x.key p n p' n' f hd hd' h1 h2).elim
  · by_cases hd' : isOk (predict (s.view ps) c) = true ∧ callDst (s.view ps) c = some (p', n')
    · exact (x.key p' n' p n f hd' hd h2 h1).elim
    · rw [x.hL, if_neg hd] at h1
      rw [x.hL, if_neg hd'] at h2
      split at h1
      · cases h1
      split at h2
      · cases h2
      exact x.inv.inj p n p' n' f h1 h2

theorem StepCtx.dir_kept (x : StepCtx M s0 s a ps c k) {p : Bytes} (h : (s.fs.dir p).isSome) :
    ((stepCall s a ps c k).fs.dir p).isSome :=
  core_dir_isSome (s.view ps) c _ p h (callowed_not_rmdir x.allowed)

theorem StepCtx.dirsOk' (x : StepCtx M s0 s a ps c k) (i : Nat) (q : PState) (d : Handle) (p : Bytes)
    (hq : (stepCall s a ps c k).parties[i]? = some q) (hd : handlesDirPath q.handles d = some p) :
    ((stepCall s a ps c k).fs.dir p).isSome := by
  rw [x.hpar] at hq
  by_cases hi : i = a
  · simp only [hi, if_true, Option.some.injEq] at hq
    subst hq
    rcases core_dirsFrom (s.view ps) c _ d p hd with h | h
    · exact x.dir_kept (x.inv.dirsOk a ps d p x.hp h)
    · exact x.dir_kept h
  · simp only [hi, if_false] at hq
    exact x.dir_kept (x.inv.dirsOk i q d p hq hd)

theorem StepCtx.resolves' (x : StepCtx M s0 s a ps c k) (i : Nat) (q : PState) (y : Handle × Bytes)
    (hq : (stepCall s a ps c k).parties[i]? = some q) (hy : y ∈ inFlightH q.trace) :
    (handlesDirPath q.handles y.1).isSome := by
  rw [x.hpar] at hq
  by_cases hi : i = a
  · simp only [hi, if_true, Option.some.injEq] at hq
    subst hq
    have hy' : y ∈ inFlightUpd (inFlightH ps.trace) (c, predict (s.view ps) c) := by
      rw [← inFlightH_snoc]; exact hy
    rcases mem_inFlightUpd hy' with hold | ⟨d, n, v, hc', hr', rfl⟩
    · obtain ⟨p, hp'⟩ := Option.isSome_iff_exists.1 (x.inv.resolves a ps y x.hp hold)
      exact Option.isSome_iff_exists.2 ⟨p, core_dirPath_keep (s.view ps) c _ y.1 p hp' (x.keeps_flight_dir (d := y.1) (n := y.2) hold)⟩
    · subst hc'
      rcases openExcl_cases (s.view ps) d n with ⟨p, hp', _, _, _⟩ | ⟨e, hpr⟩
      · exact Option.isSome_iff_exists.2 ⟨p, core_dirPath_keep (s.view ps) _ _ d p hp' ⟨(by intro e; cases e), (by intro e; cases e)⟩⟩
      · rw [hpr] at hr'; cases hr'
  · simp only [hi, if_false] at hq
    exact x.inv.resolves i q y hq hy

theorem StepCtx.localOk' (x : StepCtx M s0 s a ps c k) (i : Nat) (q : PState)
    (hq : (stepCall s a ps c k).parties[i]? = some q) : LocalOKc M q := by
  rw [x.hpar] at hq
  by_cases hi : i = a
  · simp only [hi, if_true, Option.some.injEq] at hq
    subst hq
    exact localOKc_step x.loc x.hc _ _
  · simp only [hi, if_false] at hq
    exact x.inv.localOk i q hq

/-- An entry the issuing party keeps in flight is not touched by its call. -/
theorem StepCtx.own_flight_lookup (x : StepCtx M s0 s a ps c k) {y : Bytes × Bytes} (hy : y ∈ ps.inFlight)
    (hy' : y ∈ (stepLocal s ps c k).inFlight)
    (hncr : ¬ (isCreate c = true ∧ isOk (predict (s.view ps) c) = true)) :
    (stepCall s a ps c k).fs.lookup y.1 y.2 = s.fs.lookup y.1 y.2 := by
  rw [x.flightAfter, if_neg hncr] at hy'
  split at hy'
  · cases hy'
  rename_i hnru
  have h1 : ¬ (isOk (predict (s.view ps) c) = true ∧ callDst (s.view ps) c = some (y.1, y.2)) := by
    rintro ⟨hok, hd⟩
    rcases dst_kind hd with hk | hk
    · exact hncr ⟨hk, hok⟩
    · exact hnru ⟨.inl hk, hok⟩
  have h2 : ¬ (isOk (predict (s.view ps) c) = true ∧ callSrc (s.view ps) c = some (y.1, y.2)) := by
    rintro ⟨hok, hs⟩
    rcases src_kind hs with hk | hk
    · exact hnru ⟨.inl hk, hok⟩
    · exact hnru ⟨.inr hk, hok⟩
  rw [x.hL, if_neg h1, if_neg h2]

/-- After a successful create the party has the created entry, and nothing else, in flight. -/
theorem StepCtx.flight_created (x : StepCtx M s0 s a ps c k) (hk : isCreate c = true) (hok : isOk (predict (s.view ps) c) = true) :
    ∃ y, callDst (s.view ps) c = some y ∧ (stepLocal s ps c k).inFlight = [y] ∧ s.fs.lookup y.1 y.2 = none ∧
      (stepCall s a ps c k).fs.lookup y.1 y.2 = some s.fs.nextFid := by
  obtain ⟨y, hy, hnone, hb, _⟩ := create_ok hk hok
  refine ⟨y, hy, ?_, hnone, ?_⟩
  · rw [x.flightAfter, if_pos ⟨hk, hok⟩, hy]; rfl
  · rw [x.hL, if_pos ⟨hok, hy⟩]; exact hb

theorem StepCtx.flightBound' (x : StepCtx M s0 s a ps c k) (i : Nat) (q : PState) (y : Bytes × Bytes)
    (hq : (stepCall s a ps c k).parties[i]? = some q) (hy : y ∈ q.inFlight) :
    ∃ f, (stepCall s a ps c k).fs.lookup y.1 y.2 = some f ∧ s0.fs.nextFid ≤ f := by
  rw [x.hpar] at hq
  by_cases hi : i = a
  · simp only [hi, if_true, Option.some.injEq] at hq
    subst hq
    by_cases hcr : isCreate c = true ∧ isOk (predict (s.view ps) c) = true
    · obtain ⟨z, hz, hfl, _, hl⟩ := x.flight_created hcr.1 hcr.2
      rw [hfl] at hy
      rw [List.mem_singleton.1 hy]
      exact ⟨_, hl, x.inv.nextLe⟩
    · have hy0 : y ∈ ps.inFlight := by
        have := hy
        rw [x.flightAfter, if_neg hcr] at this
        split at this
        · cases this
        · exact this
      obtain ⟨f, hf, hge⟩ := x.inv.flightBound a ps y x.hp hy0
      exact ⟨f, by rw [x.own_flight_lookup hy0 hy hcr]; exact hf, hge⟩
  · simp only [hi, if_false] at hq
    obtain ⟨f, hf, hge⟩ := x.inv.flightBound i q y hq hy
    exact ⟨f, by rw [x.foreign_lookup i q y hi hq hy]; exact hf, hge⟩

/-- What the issuing party has in flight afterwards was in flight before, or was absent and has just been created. -/
theorem StepCtx.flight_sub (x : StepCtx M s0 s a ps c k) {y : Bytes × Bytes} (hy : y ∈ (stepLocal s ps c k).inFlight) :
    y ∈ ps.inFlight ∨ s.fs.lookup y.1 y.2 = none := by
  by_cases hcr : isCreate c = true ∧ isOk (predict (s.view ps) c) = true
  · obtain ⟨z, hz, hfl, hnone, _⟩ := x.flight_created hcr.1 hcr.2
    rw [hfl] at hy
    rw [List.mem_singleton.1 hy]
    exact .inr hnone
  · rw [x.flightAfter, if_neg hcr] at hy
    split at hy
    · cases hy
    · exact .inl hy

theorem StepCtx.disjoint' (x : StepCtx M s0 s a ps c k) (i j : Nat) (q q' : PState) (y : Bytes × Bytes) (hij : i ≠ j)
    (hq : (stepCall s a ps c k).parties[i]? = some q) (hq' : (stepCall s a ps c k).parties[j]? = some q')
    (hy : y ∈ q.inFlight) : y ∉ q'.inFlight := by
  rw [x.hpar] at hq hq'
  intro hy'
  by_cases hi : i = a
  · have hj : j ≠ a := fun e => hij (hi.trans e.symm)
    simp only [hi, if_true, Option.some.injEq] at hq
    simp only [hj, if_false] at hq'
    subst hq
    rcases x.flight_sub hy with h | h
    · exact x.inv.disjoint a j ps q' y (fun e => hj e.symm) x.hp hq' h hy'
    · obtain ⟨f, hf, _⟩ := x.inv.flightBound j q' y hq' hy'
      rw [hf] at h; cases h
  · simp only [hi, if_false] at hq
    by_cases hj : j = a
    · simp only [hj, if_true, Option.some.injEq] at hq'
      subst hq'
      rcases x.flight_sub hy' with h | h
      · exact x.inv.disjoint i a q ps y hi hq x.hp hy h
      · obtain ⟨f, hf, _⟩ := x.inv.flightBound i q y hq hy
        rw [hf] at h; cases h
    · simp only [hj, if_false] at hq'
      exact x.inv.disjoint i j q q' y hij hq hq' hy hy'

theorem StepCtx.files' (x : StepCtx M s0 s a ps c k) (f : Nat) (hf : f < s0.fs.nextFid) :
    (stepCall s a ps c k).fs.file f = s0.fs.file f :=
  (x.file_init hf).trans (x.inv.files f hf)

/-- A file no entry holds stays so (new entries get a new file or the file of another entry). -/
theorem StepCtx.unb_step (x : StepCtx M s0 s a ps c k) {g : Nat} (h : Unb s0 s g) : Unb s0 (stepCall s a ps c k) g := by
  refine ⟨h.1, Nat.lt_of_lt_of_le h.2.1 x.nextge, ?_⟩
  intro p n hl
  rw [x.hL] at hl
  split at hl
  · rename_i hd
    rcases dst_kind hd.2 with hk | hk
    · obtain ⟨y, _, _, hb, _⟩ := create_ok hk hd.1
      rw [hb] at hl; cases hl
      exact Nat.lt_irrefl _ h.2.1
    · obtain ⟨y, z, g', hy, hz, hl', hb⟩ := rename_ok hk hd.1
      rw [hb] at hl; cases hl
      exact h.2.2 y.1 y.2 hl'
  · split at hl
    · cases hl
    · exact h.2.2 p n hl

end Mdsort.Proofs.Parties
