import Mdsort.Proofs.WorldExitTop
import Mdsort.Proofs.Inspect

/-!
# The `-> destination` lines of a message do not depend on `-d`; the log of a dry run is the log of the real run (C06)

`C06_same_plan` (`eval_sim`): the evaluation under `-d` differs from the real one in the display fields
(`key`, `val`) of the entries only.  Here this is carried through `matches_interpolate` and
`matches_inspect`'s action lines (`inspectLines`), hence through the verdict on a file
(`dry_lines_eq`); with the walk-order invariant of `WorldExit*` both logs are the reference log.
-/

namespace Mdsort.Proofs
open Mdsort Mdsort.Model
open Mdsort.Proofs.Insp (erase1 EnvAgree Sim RSim)

/-! ## interpolation ignores the display fields -/

theorem dry_add_congr (macros : Option (List (Bytes × Bytes))) {b b' : MatchList} (h : eraseKV b = eraseKV b')
    (ss : List Bytes) (buf : Bytes) : matchInterpolate.add macros b ss buf = matchInterpolate.add macros b' ss buf := by
  induction ss generalizing buf with
  | nil => simp only [matchInterpolate.add]
  | cons s r ih =>
    simp only [matchInterpolate.add]
    rw [Insp.interpolate_congr h]
    cases interpolate b' macros s with
    | none => rfl
    | some v => exact ih _

theorem dry_mapM_congr (macros : Option (List (Bytes × Bytes))) {b b' : MatchList} (h : eraseKV b = eraseKV b')
    (ss : List Bytes) : ss.mapM (interpolate b macros) = ss.mapM (interpolate b' macros) := by
  have : interpolate b macros = interpolate b' macros := funext fun s => Insp.interpolate_congr h macros s
  rw [this]

/-- The entries before position `i` matter up to the display fields only. -/
theorem dry_mi_cur (macros : Option (List (Bytes × Bytes))) {cur cur' : MatchList} (hc : eraseKV cur = eraseKV cur') (i : Nat)
    (mh : Match) (msgs : Nat → Msg) : matchInterpolate macros cur i mh msgs = matchInterpolate macros cur' i mh msgs := by
  have hb := Insp.take_congr hc i
  have hfun : interpolate (cur.take i) macros = interpolate (cur'.take i) macros :=
    funext fun s => Insp.interpolate_congr hb macros s
  have hadd : ∀ ss buf, matchInterpolate.add macros (cur.take i) ss buf = matchInterpolate.add macros (cur'.take i) ss buf :=
    fun ss buf => dry_add_congr macros hb ss buf
  unfold matchInterpolate
  simp only [hfun, hadd]

/-- The display fields of the entry itself are carried along unchanged. -/
theorem dry_mi_kv (macros : Option (List (Bytes × Bytes))) (cur : MatchList) (i : Nat) (mh : Match) (k v : Option Bytes)
    (msgs : Nat → Msg) :
    matchInterpolate macros cur i { mh with key := k, val := v } msgs =
      (matchInterpolate macros cur i mh msgs).map (fun r => ({ r.1 with key := k, val := v }, r.2)) := by
  rcases mh with ⟨ty, lno, part, maildir, subdir, path, subs, key, val, argv, strings, hkey, hval, pat, es, eb⟩
  unfold matchInterpolate
  dsimp only
  cases ty <;> dsimp only <;>
    first
    | rfl
    | (cases interpolate (List.take i cur) macros path with
       | none => rfl
       | some p =>
         dsimp only
         cases strlcpyFits PATH_MAX p <;> rfl)
    | (generalize matchInterpolate.add macros (List.take i cur) strings _ = o
       cases o <;> rfl)
    | (cases List.mapM (interpolate (List.take i cur) macros) strings <;> rfl)
    | (cases interpolate (List.take i cur) macros hval <;> rfl)

/-- One entry: the interpolated entries agree up to the display fields, the header updates are equal. -/
theorem dry_matchInterpolate_sim (macros : Option (List (Bytes × Bytes))) {cur cur' : MatchList}
    (hc : eraseKV cur = eraseKV cur') (i : Nat) {mh mh' : Match} (hm : erase1 mh = erase1 mh') (msgs : Nat → Msg) :
    (matchInterpolate macros cur i mh msgs).map (fun r => (erase1 r.1, r.2)) =
      (matchInterpolate macros cur' i mh' msgs).map (fun r => (erase1 r.1, r.2)) := by
  have hmh : mh' = { mh with key := mh'.key, val := mh'.val } := by
    cases mh
    cases mh'
    simp_all [erase1]
  obtain ⟨k, v, rfl⟩ : ∃ k v, mh' = { mh with key := k, val := v } := ⟨mh'.key, mh'.val, hmh⟩
  rw [dry_mi_kv macros cur' i mh k v msgs, ← dry_mi_cur macros hc i mh msgs, Option.map_map]
  rfl

theorem dry_eraseKV_set (ml : MatchList) (i : Nat) (m : Match) : eraseKV (ml.set i m) = (eraseKV ml).set i (erase1 m) := by
  simp [Insp.eraseKV_map, List.map_set]

theorem dry_go_sim (macros : Option (List (Bytes × Bytes))) :
    ∀ (rest rest' : MatchList) (i : Nat) (cur cur' : MatchList) (msgs : Nat → Msg),
      eraseKV rest = eraseKV rest' → eraseKV cur = eraseKV cur' →
      (matchesInterpolate.go macros i rest cur msgs).map (fun r => (eraseKV r.1, r.2)) =
        (matchesInterpolate.go macros i rest' cur' msgs).map (fun r => (eraseKV r.1, r.2)) := by
  intro rest
  induction rest with
  | nil =>
    intro rest' i cur cur' msgs hr hc
    cases rest' with
    | nil => simp only [matchesInterpolate.go, Option.map_some, hc]
    | cons a l => simp [Insp.eraseKV_map] at hr
  | cons mh more ih =>
    intro rest' i cur cur' msgs hr hc
    cases rest' with
    | nil => simp [Insp.eraseKV_map] at hr
    | cons mh' more' =>
      simp only [Insp.eraseKV_map, List.map_cons, List.cons.injEq] at hr
      obtain ⟨hm, hmore⟩ := hr
      have hsim := dry_matchInterpolate_sim macros hc i hm msgs
      simp only [matchesInterpolate.go]
      cases h1 : matchInterpolate macros cur i mh msgs with
      | none =>
        rw [h1] at hsim
        cases h2 : matchInterpolate macros cur' i mh' msgs with
        | none => rfl
        | some x => rw [h2] at hsim; cases hsim
      | some x =>
        rw [h1] at hsim
        cases h2 : matchInterpolate macros cur' i mh' msgs with
        | none => rw [h2] at hsim; cases hsim
        | some x' =>
          rw [h2] at hsim
          simp only [Option.map_some, Option.some.injEq, Prod.mk.injEq] at hsim
          obtain ⟨x1, x2⟩ := x
          obtain ⟨x1', x2'⟩ := x'
          obtain ⟨he1, he2⟩ := hsim
          simp only at he1 he2
          subst he2
          dsimp only
          exact ih more' (i + 1) _ _ _ (by rw [Insp.eraseKV_map, Insp.eraseKV_map]; exact hmore)
            (by rw [dry_eraseKV_set, dry_eraseKV_set, hc, he1])

theorem dry_matchesInterpolate_sim {e1 e2 : Env} (hp : e1.path = e2.path) {ml ml' : MatchList} (h : eraseKV ml = eraseKV ml')
    (msgs : Nat → Msg) :
    (matchesInterpolate e1 ml msgs).map (fun r => (eraseKV r.1, r.2)) =
      (matchesInterpolate e2 ml' msgs).map (fun r => (eraseKV r.1, r.2)) := by
  unfold matchesInterpolate
  rw [hp]
  exact dry_go_sim _ ml ml' 0 ml ml' msgs h h

/-! ## the action lines ignore the display fields and the dry-run option -/

theorem dry_inspectLines_congr {env env' : PEnv} (hs : env.stdinMode = env'.stdinMode) {ml ml' : MatchList}
    (h : eraseKV ml = eraseKV ml') (path : Bytes) : inspectLines env ml path = inspectLines env' ml' path := by
  have key : ∀ (e : PEnv) (l : MatchList), inspectLines e l path = inspectLines e (eraseKV l) path := by
    intro e l
    unfold inspectLines
    rw [Insp.eraseKV_filter_ty l (fun ty => ty.isAction), Insp.eraseKV_map, List.map_map]
    rfl
  rw [key env ml, key env' ml', h]
  unfold inspectLines
  rw [hs]

/-! ## the verdict and the lines of a file -/

theorem dry_envAgree (env : PEnv) (orc : EvalOracles) (b1 b2 : Bool) (p : Bytes) :
    EnvAgree (msgEnv { env with dryrun := b1 } orc p) (msgEnv { env with dryrun := b2 } orc p) :=
  ⟨rfl, rfl, rfl, rfl, rfl, rfl, rfl, rfl, rfl⟩

/-- The lines of a file are the same with and without `-d`. -/
theorem dry_lines_eq (env : PEnv) (orc : EvalOracles) (expr : Expr) (D n c : Bytes) (b1 b2 : Bool) :
    exit0_lines { env with dryrun := b1 } orc expr D n c = exit0_lines { env with dryrun := b2 } orc expr D n c := by
  unfold exit0_lines verdict fileMs
  cases pathjoin PATH_MAX D n with
  | none => rfl
  | some p =>
    cases strlcpyFits NAME_MAX1 n with
    | none => rfl
    | some nm =>
      dsimp only
      cases flagsParse nm with
      | none => rfl
      | some mf =>
        dsimp only
        unfold msVerdict
        dsimp only
        have hs := Insp.eval_sim (dry_envAgree env orc b1 b2 p) (parseMessage c) expr 0 (parseMessage c)
          { ml := [], flags := mf } { ml := [], flags := mf } ⟨rfl, rfl⟩
        obtain ⟨ev, s1, s2, h1, h2, hsim⟩ := Insp.rsim_cases hs
        rw [h1, h2]
        cases ev with
        | error => rfl
        | «nomatch» => rfl
        | «match» =>
          simp only [evVerdict]
          have hi := dry_matchesInterpolate_sim (e1 := msgEnv { env with dryrun := b1 } orc p)
            (e2 := msgEnv { env with dryrun := b2 } orc p) rfl hsim.1
            (partMsg (parseMessage c) ((getAttachments (parseMessage c)).getD []))
          cases h3 : matchesInterpolate (msgEnv { env with dryrun := b1 } orc p) s1.ml
              (partMsg (parseMessage c) ((getAttachments (parseMessage c)).getD [])) with
          | none =>
            rw [h3] at hi
            cases h4 : matchesInterpolate (msgEnv { env with dryrun := b2 } orc p) s2.ml
                (partMsg (parseMessage c) ((getAttachments (parseMessage c)).getD [])) with
            | none => rfl
            | some y => rw [h4] at hi; cases hi
          | some x =>
            rw [h3] at hi
            cases h4 : matchesInterpolate (msgEnv { env with dryrun := b2 } orc p) s2.ml
                (partMsg (parseMessage c) ((getAttachments (parseMessage c)).getD [])) with
            | none => rw [h4] at hi; cases hi
            | some y =>
              rw [h4] at hi
              simp only [Option.map_some, Option.some.injEq, Prod.mk.injEq] at hi
              obtain ⟨x1, x2⟩ := x
              obtain ⟨y1, y2⟩ := y
              dsimp only
              exact dry_inspectLines_congr rfl hi.1 _

/-! ## the log of a dry run is the log of the real run -/

theorem dry_env_false (env : PEnv) (h : env.dryrun = false) : ({ env with dryrun := false } : PEnv) = env := by
  cases env
  simp only at h
  subst h
  rfl

/-- The hypotheses on configuration, registry and world carry over to the dry run (nothing moves). -/
theorem dry_good (env : PEnv) (orc : EvalOracles) (dirs : List (Bytes × Expr)) (files : Files) (w : World)
    (hG : exit0_Good ⟨env, orc, dirs, files, w⟩) : exit0_Good ⟨{ env with dryrun := true }, orc, dirs, files, w⟩ := by
  refine ⟨hG.nodup, hG.uniq0, hG.listed, ?_⟩
  intro pre D e post hs n c _
  have hd : exit0_dest { env with dryrun := true } orc e D n c = D := by
    unfold exit0_dest
    simp
  rw [hd]
  exact exit0_split_notin (C := ⟨env, orc, dirs, files, w⟩) hG hs

theorem dry_refDirs_eq (env : PEnv) (orc : EvalOracles) (dirs : List (Bytes × Expr)) (files : Files) (w : World) (b1 b2 : Bool)
    (ds : List (Bytes × Expr)) :
    exit0_refDirs ⟨{ env with dryrun := b1 }, orc, dirs, files, w⟩ ds =
      exit0_refDirs ⟨{ env with dryrun := b2 }, orc, dirs, files, w⟩ ds := by
  unfold exit0_refDirs exit0_refNames
  dsimp only
  simp only [dry_lines_eq env orc _ _ _ _ b1 b2]

/-- **The dry run predicts the real run** (fault-free plan, maildir mode, rules without discard that ask the operating
system nothing, no message visited twice): if both runs end with exit status 0, the log of the dry run - the `-> destination` lines, in
order - is the log of the real run, and both are the reference log. -/
theorem dry_predicts_real (env : PEnv) (orc : EvalOracles) (confOk : Bool) (conf : List ConfBlock) (files : Files) (input : Bytes)
    (w : World) (hm : env.stdinMode = false) (hsyn : env.syntaxOnly = false) (hdry : env.dryrun = false)
    (hfree : ∀ b ∈ conf, asksFree b.expr = true)
    (hnd : ∀ b ∈ conf, WholeNoDiscard env orc b.expr) (hreg : WholeReg w files)
    (hG : exit0_Good ⟨env, orc, exit0_dirsOf conf, files, w⟩)
    (hreal : (runPlan Plan.none (mainP env orc confOk conf files input) w 0 []).1.1 = 0)
    (hdryr : (runPlan Plan.none (mainP { env with dryrun := true } orc confOk conf files input) w 0 []).1.1 = 0) :
    (runPlan Plan.none (mainP { env with dryrun := true } orc confOk conf files input) w 0 []).1.2.log =
      (runPlan Plan.none (mainP env orc confOk conf files input) w 0 []).1.2.log ∧
    (runPlan Plan.none (mainP env orc confOk conf files input) w 0 []).1.2.log =
      exit0_refDirs ⟨env, orc, exit0_dirsOf conf, files, w⟩ (exit0_dirsOf conf) := by
  have hR := (exit0_main_exit0 env orc confOk conf files input w Plan.none hm hsyn hdry hfree hnd hreg hG World.singleFault_none hreal).2
  have heD := exit0_status_zero { env with dryrun := true } orc confOk conf files input w Plan.none hm hdryr
  have hinvD := exit0_main_runPlan ⟨{ env with dryrun := true }, orc, exit0_dirsOf conf, files, w⟩
    (dry_good env orc _ files w hG) hm hsyn confOk conf input rfl
    (fun b hb => exit0_step_dry _ orc b.expr (hfree b hb) rfl) hreg Plan.none World.singleFault_none heD
  have hD := (exit0_final (dry_good env orc _ files w hG) hreg hinvD).2
  refine ⟨?_, hR⟩
  rw [hR]
  have := dry_refDirs_eq env orc (exit0_dirsOf conf) files w true false (exit0_dirsOf conf)
  rw [dry_env_false env hdry] at this
  rw [← this]
  exact hD

end Mdsort.Proofs
