import Mdsort.Proofs.WorldSingle

/-! A concrete start situation for the non-vacuity examples of the single-fault statements:
maildir `/m` with `new/1.h` holding `A: b\n\nx`, open at handle 3, the message's descriptor at
handle 4; the action list moves it to `/m/cur` and labels it. -/

namespace Mdsort.Proofs
open Mdsort Mdsort.Model

def exOrig : Bytes := [65, 58, 32, 98, 10, 10, 120]

def exNew : Bytes := [47, 109, 47, 110, 101, 119]
def exCur : Bytes := [47, 109, 47, 99, 117, 114]
def exName : Bytes := [49, 46, 104]

def exMd : Maildir :=
  { root := [47, 109], path := exNew, dirH := some 3, subdir := .new, walk := true, stdin := false }

def exMs : MsgSt :=
  { name := exName, path := exNew ++ [47] ++ exName, fd := some 4,
    msg := { headers := [⟨0, [65], [98]⟩], body := [120] }, parts := [], flags := ⟨0, 0⟩,
    loc := some (exNew, exName), content := exOrig }

def exSt : ExecSt := { src := exMd, chsrc := false, ms := exMs, reject := false }

def exWorld : World :=
  { dirs := [(exNew, [(exName, 0)]), (exCur, [])],
    files := [(0, ⟨exOrig, exOrig⟩)], nextFid := 1,
    handles := [.other, .other, .other, .dir exNew none 0, .file 0 0 false], devs := [], trace := [] }

def exList : MatchList :=
  [{ ty := .move, lno := 1, part := 0, path := exCur }, { ty := .label, lno := 2, part := 0 }]

def exDiscard : Match := { ty := .discard, lno := 1, part := 0 }

def exEnv : PEnv where
  now := 1700000000
  pid := 42
  host := [104]
  random := 7
  tmpdir := [47, 116]
  home := [47, 104]
  confpath := [47, 99]
  dryrun := false
  syntaxOnly := false
  stdinMode := false

/-- The exclusions of "a failure is reported" are necessary: in the example run call 1 is the
`fstatat` of `maildir_move`, call 4 the `close` of the placeholder descriptor, call 18 a
`closedir`; failing any one of them with `EIO` leaves the error flag clear.  The same holds for
`EEXIST` at the exclusive create (call 2) and `EXDEV` at the rename (call 3): they are handled. -/
theorem ex_ignored_sites :
    [(1, "EIO"), (4, "EIO"), (18, "EIO"), (2, "EEXIST"), (3, "EXDEV")].all (fun (ie : Nat × String) =>
      let r := runPlan (World.singlePlan ie.1 (.fail ie.2)) (matchesExec exEnv exList exSt) exWorld 0 []
      (r.2.1.trace[ie.1]?.map fun x => (World.ignoredSite x.1 || World.handledErr x.1 ie.2) && x.2 == .err ie.2) == some true
        && r.1.2 == false) = true := by
  decide +kernel

theorem ex_start : Start exWorld exSt exOrig := by
  refine ⟨⟨3, rfl, by decide⟩, ⟨0, by decide, by decide⟩, ?_, ?_, ?_, ?_⟩
  · intro h fid off
    rcases h with _ | _ | _ | _ | _ | h <;> simp [World.obj, exWorld]
  · intro h fid buf
    rcases h with _ | _ | _ | _ | _ | h <;> simp [World.obj, exWorld]
  · intro p hp
    simp only [exWorld, List.mem_singleton] at hp
    subst hp
    decide
  · intro d es h
    simp only [World.dir, exWorld, List.find?] at h
    split at h
    · simp only [Option.map_some, Option.some.injEq] at h
      subst h
      decide
    · split at h
      · simp only [Option.map_some, Option.some.injEq] at h
        subst h
        decide
      · simp at h

theorem ex_startAt : StartAt exWorld exSt exOrig := by
  refine ⟨ex_start, by decide, rfl, rfl, ?_⟩
  intro h hh
  cases hh
  exact ⟨by decide, by decide⟩

theorem ex_noDiscard : NoDiscard exList := by
  intro m hm
  simp only [exList, List.mem_cons, List.not_mem_nil, or_false] at hm
  rcases hm with rfl | rfl <;> decide

end Mdsort.Proofs
