import Mdsort.Proofs.WorldWholeMove

/-!
# `maildir_write` (label, add-header) under EVERY fault plan: frame and ghost location
-/

namespace Mdsort.Proofs.World
set_option linter.unusedSimpArgs false
open Mdsort Mdsort.Model

/-- What `maildir_write` guarantees under every fault plan, on every path. -/
def WholeWritePost (H : Nat) (w : World) (md : Maildir) (ms : MsgSt) (r : MsgSt × Bool) (w' : World) : Prop :=
  WholeK (md.path, ms.name) H w w' ∧
  (∀ h, h < w.handles.length → ms.fd ≠ some h → w'.obj h = w.obj h) ∧
  ∃ nb, Located w' r.1 nb ∧ (nb = (md.path, ms.name) ∨ lk w nb = none) ∧
    r.1.msg = ms.msg ∧
    (r.1.content = ms.content ∨ r.1.content = (messageWrite ms.msg).1) ∧
    (r.2 = true → r.1.fd = ms.fd) ∧
    (r.2 = false → nb = (md.path, r.1.name) ∧ r.1.content = (messageWrite ms.msg).1 ∧
      ∃ rd, r.1.fd = some rd ∧ w.handles.length ≤ rd ∧ rd < w'.handles.length)

theorem WholeWritePost.unchanged {H : Nat} {w w' : World} {md : Maildir} {ms : MsgSt}
    (hL : Located w ms (md.path, ms.name)) (hH : H ≤ w.handles.length) (m : Mid w w' (lk w)) :
    WholeWritePost H w md ms (ms, true) w' :=
  ⟨WholeK.of_mid_same m hH, fun h hh _ => m.objs h hh, _, hL.whole_of_mid m rfl, .inl rfl, rfl, .inl rfl, fun _ => rfl,
    by intro h; cases h⟩

theorem WholeWritePost.stray {H N : Nat} {w w' : World} {md : Maildir} {ms : MsgSt} {b : Ent}
    (hL : Located w ms (md.path, ms.name)) (hH : H ≤ w.handles.length)
    (m : Mid w w' (fun x => if x = b then some N else lk w x)) (hb : lk w b = none) :
    WholeWritePost H w md ms (ms, true) w' := by
  have hne : (md.path, ms.name) ≠ b := by
    rintro rfl
    obtain ⟨_, fid, hlk, _⟩ := hL
    rw [hb] at hlk; cases hlk
  exact ⟨WholeK.of_mid_new m hb hH, fun h hh _ => m.objs h hh, _, hL.whole_of_mid m (by simp only [hne, if_false]), .inl rfl, rfl,
    .inl rfl, fun _ => rfl, by intro h; cases h⟩

/-- `maildir_write` under every fault plan. -/
theorem whole_maildirWrite (env : PEnv) {H : Nat} {w : World} {md : Maildir} {ms : MsgSt} {sh : Handle}
    (hsh : md.dirH = some sh) (hps : w.dirPath sh = some md.path)
    (hL : Located w ms (md.path, ms.name)) (hH : H ≤ w.handles.length) (hfd : ∀ h, ms.fd = some h → H ≤ h) :
    wp (fun w' => WholeK (md.path, ms.name) H w w') (maildirWrite env md ms) (WholeWritePost H w md ms) w := by
  obtain ⟨hloc, fid0, hlk, hlt, hf⟩ := hL
  have hL : Located w ms (md.path, ms.name) := ⟨hloc, fid0, hlk, hlt, hf⟩
  have hdd : (w.dir md.path).isSome := dir_isSome_of_lookup hlk
  unfold maildirWrite gennameStart
  simp only [bind_eq, pure_eq, call_bind, maildirUnlink_some hsh, call_bind', ret_bind]
  split
  · exact WholeWritePost.unchanged hL hH (Mid.refl w)
  rename_i fl _
  refine wp_bind_mono (whole_genname env md (some fl) hsh hps hdd hH gennameAttempts _ (Mid.refl w)) ?_
  rintro g w2 ⟨hnone, hsome⟩
  cases g with
  | none => exact WholeWritePost.unchanged hL hH (hnone rfl)
  | some x =>
  obtain ⟨fd, name⟩ := x
  obtain ⟨N, hfree, m2, nlo, nhi, fdlo, _, ho, hfN⟩ := hsome fd name rfl
  dsimp only
  have hne : (md.path, ms.name) ≠ (md.path, name) := by
    intro h
    rw [← h, hlk] at hfree
    cases hfree
  -- message_write
  have k2 : WholeK (md.path, ms.name) H w w2 := WholeK.of_mid_new m2 hfree hH
  refine wp_bind_mono (whole_messageWriteP ms.msg fd k2 ho hfN nlo) ?_
  rintro we w3 ⟨fr, f, hf3, hcont⟩
  have m3 := m2.frame fr (fun g hg => by subst hg; exact nlo)
  have hn3 : N < w3.nextFid := Nat.lt_of_lt_of_le nhi fr.nextFid
  -- close
  refine wp_call_any fun rc => ?_
  have m4 := m3.step (.close fd) rc rfl (by intro h hh; cases hh; exact fdlo) (fun _ _ => trivial)
  have hf4 := file_step hf3 hn3 (.close fd) rc trivial
  refine ⟨WholeK.of_mid_new m4 hfree hH, ?_⟩
  generalize hw4 : stepWorld w3 (.close fd) rc = w4 at m4 hf4 ⊢
  have hps4 := m4.dirPath hps
  have hla : w4.lookup md.path ms.name = some fid0 := by
    have := m4.look (md.path, ms.name)
    simp only [hne, if_false] at this
    rw [hlk] at this
    exact this
  -- the roll-back (which may fail and leave the new file behind under its fresh name)
  have rollback : ∀ w5, Mid w w5 (fun x => if x = (md.path, name) then some N else lk w x) →
      wp (fun w' => WholeK (md.path, ms.name) H w w') (Prog.call (Call.unlinkat sh name) fun _ => Prog.ret (ms, true))
        (WholeWritePost H w md ms) w5 := by
    intro w5 m5
    have hps5 := m5.dirPath hps
    have hl5 : w5.lookup md.path name = some N := by
      have := m5.look (md.path, name)
      simp only [if_true] at this
      exact this
    intro ft
    rcases whole_unlinkat_results ft w5 sh name with ⟨e, he⟩ | ⟨he, -⟩
    · rw [he]
      have m6 := m5.err (.unlinkat sh name) e (by intro _ h; cases h) (by intro _ h; cases h) (by intro _ h; cases h)
      exact ⟨WholeK.of_mid_new m6 hfree hH, WholeWritePost.stray hL hH m6 hfree⟩
    · rw [he]
      have m6 : Mid w (stepWorld w5 (.unlinkat sh name) (.ok 0)) (lk w) := by
        refine (m5.unlink hps5 hl5 0).congr ?_
        intro x
        by_cases h : x = (md.path, name)
        · subst h; simp [hfree]
        · simp [h]
      exact ⟨WholeK.of_mid_same m6 hH, WholeWritePost.unchanged hL hH m6⟩
  cases we with
  | true =>
    simp only [if_true, ret_bind]
    exact rollback w4 m4
  | false =>
    simp only [Bool.false_eq_true, if_false, call_bind', ret_bind]
    intro ft
    rcases whole_unlinkat_results ft w4 sh ms.name with ⟨e, he⟩ | ⟨he, -⟩
    · rw [he]
      have m5 := m4.err (.unlinkat sh ms.name) e (by intro _ h; cases h) (by intro _ h; cases h) (by intro _ h; cases h)
      refine ⟨WholeK.of_mid_new m5 hfree hH, ?_⟩
      simp only [isOk, Bool.not_false, if_true]
      exact rollback _ m5
    rw [he]
    -- the old name is gone: the message is the new file
    have m5 : Mid w (stepWorld w4 (.unlinkat sh ms.name) (.ok 0))
        (fun x => if x = (md.path, name) then some N else if x = (md.path, ms.name) then none else lk w x) := by
      refine (m4.unlink hps4 hla 0).congr ?_
      intro x
      by_cases h : x = (md.path, name)
      · subst h; simp [Ne.symm hne]
      · simp [h]
    refine ⟨WholeK.of_mid_moved m5 hfree hH, ?_⟩
    simp only [isOk, Bool.not_true, Bool.false_eq_true, if_false, hsh]
    have hf5 := file_step hf4.1 hf4.2 (.unlinkat sh ms.name) (.ok 0) trivial
    generalize hw5 : stepWorld w4 (.unlinkat sh ms.name) (.ok 0) = w5 at m5 hf5 ⊢
    obtain ⟨hdat, hdur⟩ := hcont rfl
    have hfile5 : w5.file N = some ⟨(messageWrite ms.msg).1, (messageWrite ms.msg).1⟩ := by
      rw [hf5.1]
      obtain ⟨fd', fu'⟩ := f
      simp only [List.nil_append] at hdat hdur
      subst hdat
      subst hdur
      rfl
    have hps5 := m5.dirPath hps
    have hl5 : w5.lookup md.path name = some N := by
      have := m5.look (md.path, name)
      simp only [if_true] at this
      exact this
    -- what has to be shown of any later world
    have post : ∀ (ms'' : MsgSt) (e : Bool) (w' : World),
        ms''.loc = some (md.path, name) → ms''.content = (messageWrite ms.msg).1 → ms''.msg = ms.msg →
        lk w' (md.path, name) = some N → N < w'.nextFid →
        w'.file N = some ⟨(messageWrite ms.msg).1, (messageWrite ms.msg).1⟩ →
        WholeK (md.path, ms.name) H w w' →
        (∀ h, h < w.handles.length → ms.fd ≠ some h → w'.obj h = w.obj h) →
        (e = true → ms''.fd = ms.fd) →
        (e = false → ms''.name = name ∧ ∃ rd, ms''.fd = some rd ∧ w.handles.length ≤ rd ∧ rd < w'.handles.length) →
        WholeWritePost H w md ms (ms'', e) w' := by
      intro ms'' e w' h1 h2 h3 h4 h5 h6 h7 h8 h9 h10
      refine ⟨h7, h8, (md.path, name), ⟨h1, N, h4, h5, by rw [h2]; exact h6⟩, .inr hfree, h3, .inr h2, h9, ?_⟩
      intro he
      obtain ⟨hn, hrd⟩ := h10 he
      exact ⟨by rw [hn], h2, hrd⟩
    have postMid : ∀ (ms'' : MsgSt) (w' : World),
        ms''.loc = some (md.path, name) → ms''.content = (messageWrite ms.msg).1 → ms''.msg = ms.msg → ms''.fd = ms.fd →
        Mid w w' (fun x => if x = (md.path, name) then some N else if x = (md.path, ms.name) then none else lk w x) →
        N < w'.nextFid → w'.file N = some ⟨(messageWrite ms.msg).1, (messageWrite ms.msg).1⟩ →
        WholeWritePost H w md ms (ms'', true) w' := by
      intro ms'' w' h1 h2 h3 h4 m h5 h6
      refine post ms'' true w' h1 h2 h3 ?_ h5 h6 (WholeK.of_mid_moved m hfree hH) (fun h hh _ => m.objs h hh) (fun _ => h4)
        (by intro h; cases h)
      rw [m.look]; simp
    intro ft2
    rcases whole_openRd_results ft2 w5 sh name with ⟨e, he⟩ | ⟨he, -⟩
    · -- the new file cannot be opened: an error, the message is in place
      rw [he]
      have m6 := m5.err (.openRd sh name) e (by intro _ h; cases h) (by intro _ h; cases h) (by intro _ h; cases h)
      have hf6 := file_step hfile5 hf5.2 (.openRd sh name) (.err e) trivial
      exact ⟨WholeK.of_mid_moved m6 hfree hH, postMid _ _ rfl rfl rfl rfl m6 hf6.2 hf6.1⟩
    rw [he]
    have hc6 := core_openRd_ok hps5 hl5 w5.handles.length
    have m6 := m5.step (.openRd sh name) (.ok w5.handles.length) rfl (by intro _ h; cases h) (fun _ _ => trivial)
    have hf6 := file_step hfile5 hf5.2 (.openRd sh name) (.ok w5.handles.length) trivial
    have hlen6 : (stepWorld w5 (.openRd sh name) (.ok w5.handles.length)).handles.length = w5.handles.length + 1 := by
      rw [stepWorld_handles, hc6]; simp
    refine ⟨WholeK.of_mid_moved m6 hfree hH, ?_⟩
    generalize hw6 : stepWorld w5 (.openRd sh name) (.ok w5.handles.length) = w6 at m6 hf6 hlen6 ⊢
    have hrdlo : w.handles.length ≤ w5.handles.length := m5.len
    -- closing the new descriptor after a failure of message_set_file
    have closeNew : ∀ (ms'' : MsgSt), ms''.loc = some (md.path, name) → ms''.content = (messageWrite ms.msg).1 →
        ms''.msg = ms.msg → ms''.fd = ms.fd →
        wp (fun w' => WholeK (md.path, ms.name) H w w') (Prog.call (Call.close w5.handles.length) fun _ => Prog.ret (ms'', true))
          (WholeWritePost H w md ms) w6 := by
      intro ms'' h1 h2 h3 h4
      refine wp_call_any fun r7 => ?_
      have m7 := m6.step (.close w5.handles.length) r7 rfl (by intro h hh; cases hh; exact hrdlo) (fun _ _ => trivial)
      have hf7 := file_step hf6.1 hf6.2 (.close w5.handles.length) r7 trivial
      exact ⟨WholeK.of_mid_moved m7 hfree hH, postMid _ _ h1 h2 h3 h4 m7 hf7.2 hf7.1⟩
    dsimp only
    unfold messageSetFile
    split
    · simp only [bind_eq, pure_eq, ret_bind, if_true, call_bind]
      refine closeNew _ ?_ ?_ ?_ ?_ <;> rfl
    split
    · simp only [bind_eq, pure_eq, ret_bind, if_true, call_bind]
      refine closeNew _ ?_ ?_ ?_ ?_ <;> rfl
    rename_i n hn
    have hnn : n = name := strlcpyFits_eq hn
    simp only [bind_eq, pure_eq, call_bind]
    cases hmfd : ms.fd with
    | none =>
      simp only [ret_bind, Bool.false_eq_true, if_false]
      refine post _ false w6 rfl rfl rfl ?_ hf6.2 hf6.1 (WholeK.of_mid_moved m6 hfree hH) (fun h hh _ => m6.objs h hh)
        (by intro h; cases h) ?_
      · rw [m6.look]; simp
      · intro _
        exact ⟨hnn, w5.handles.length, rfl, hrdlo, by rw [hlen6]; exact Nat.lt_succ_self _⟩
    | some old =>
      simp only [call_bind', ret_bind, Bool.false_eq_true, if_false]
      refine wp_call_any fun r7 => ?_
      have hf7 := file_step hf6.1 hf6.2 (.close old) r7 trivial
      have hlt7 : w5.handles.length < (stepWorld w6 (.close old) r7).handles.length := by
        have := core_len w6 (.close old) r7
        simp only [stepWorld_handles]
        omega
      have k7 : WholeK (md.path, ms.name) H w (stepWorld w6 (.close old) r7) :=
        (WholeK.of_mid_moved m6 hfree hH).step (.close old) r7 rfl
          (by intro h hh; cases hh; exact hfd old hmfd) (fun _ _ => trivial)
      refine ⟨k7, post _ false _ rfl rfl rfl ?_ hf7.2 hf7.1 k7 ?_ (by intro h; cases h) ?_⟩
      · rw [lk_step _ _ _ rfl, m6.look]; simp
      · intro h hh hne'
        rw [stepWorld_obj, core_obj w6 (.close old) r7 h (Nat.lt_of_lt_of_le hh m6.len), m6.objs h hh]
        simp only [Call.subject, ne_eq, Option.some.injEq]
        intro hc
        exact hne' (by rw [hmfd, hc])
      · intro _
        exact ⟨hnn, w5.handles.length, rfl, hrdlo, hlt7⟩

end Mdsort.Proofs.World
