import Mdsort.Proofs.WorldDryStdin
import Mdsort.Proofs.WorldStdinTop
import Mdsort.Proofs.WorldMtimeBasic

/-!
# Dry run: what the file system looks like (C05, world level)

`C05_dry_no_mutation` / `C05_dry_stdin` say which CALLS a run with `-d` issues.  Here the step from
"which calls" to "what the abstract file system looks like after every call" (`applyOk` / `runPlan`):

* maildir mode: every call of the run is a call that can only touch the descriptor table
  (`DryCall`), so directories, files (visible and durable content), modification times and the
  id counter are literally the ones of the initial world after every call;
* stdin mode (`-d -`): every call satisfies `DrySpoolCall` on the trace so far; `DryCoh` ties the
  trace to the world (a handle `opendir` of the spool returned is a stream on the spool or closed, a
  descriptor an exclusive create in the spool returned refers to a file created by this run, ...),
  and every such call keeps every directory and file of the initial world as it was.
-/

namespace Mdsort.Proofs.World
open Mdsort Mdsort.Model

/-! ## an object of the descriptor table keeps its kind -/

/-- `o'` is `o` up to position / offset / snapshot, or closed. -/
def ObjStable : Obj → Obj → Prop
  | .dir p _ _, o' => o' = .closed ∨ ∃ s pos, o' = .dir p s pos
  | .file fid _ wr, o' => o' = .closed ∨ ∃ off, o' = .file fid off wr
  | .other, o' => o' = .closed ∨ o' = .other
  | .closed, o' => o' = .closed
  | .stream _ _, _ => True

theorem ObjStable.refl (o : Obj) : ObjStable o o := by
  cases o <;> simp [ObjStable]

/-- Calls that turn a descriptor into a stdio stream or write through one (none of them occurs in a dry run). -/
def Call.stdio : Call → Bool
  | .fdopen _ | .fprintf .. | .fflush _ => true
  | _ => false

theorem obj_stable (w : World) (c : Call) (r : Res) (h : Handle) (hl : h < w.handles.length) (hc : Call.stdio c = false) :
    ObjStable (w.obj h) ((core w c r).obj h) := by
  by_cases hs : Call.subject c = some h
  · cases c <;> simp only [Call.subject, Option.some.injEq, reduceCtorEq] at hs <;> (try cases hc) <;> subst hs <;>
      cases ho : w.obj _ <;> cases r <;>
      simp [core, applyOk, applyWrite, ho, obj_setObj, hl, ObjStable] <;>
      (repeat' split) <;> (try simp [ho, obj_setObj, hl])
    rename_i fd fid off wr v
    cases hf : w.file fid with
    | none => simp [ho]
    | some f =>
      simp only [Option.bind_some]
      split <;> simp [ho, obj_setObj, hl]
  · rw [core_obj w c r h hl hs]
    exact ObjStable.refl _

/-! ## maildir mode: only the descriptor table changes -/

/-- The calls of a dry run in maildir mode (`dry_calls_mainP`): the configuration file, directory streams,
read-only descriptors. -/
def DryCall : Call → Prop
  | .fopen _ | .fclose _ | .opendir _ | .readdir _ | .closedir _ | .openRd .. | .read _ | .close _ => True
  -- the calls of evaluation (`command`, `isdirectory`, file-time `date` conditions: `EvalCall`)
  | .openPath _ | .fork .. | .waitpid | .stat _ => True
  | _ => False

theorem DryCall.quiet {c : Call} (h : DryCall c) : c.mutating = false := by
  cases c <;> first | exact h.elim | rfl

theorem DryCall.of_evalCall {c : Call} (h : EvalCall c) : DryCall c := by
  rcases h with h | h | h | ⟨x, h⟩ | ⟨x, h⟩
  · subst h; exact True.intro
  · obtain ⟨_, _, rfl⟩ := Call.isFork_iff.1 h; exact True.intro
  all_goals subst h; exact True.intro

theorem dry_calls_evalP (env : Env) (e : Expr) (m : Msg) (fl : MFlags) : Calls DryCall (evalP env e m fl) :=
  calls_mono' (evalP_calls_of env e m fl) fun _ hc => DryCall.of_evalCall hc.evalCall

macro "drycalls_step" : tactic =>
  `(tactic| first
      | (with_reducible exact Calls.ret_intro _)
      | ((with_reducible show DryCall _); exact True.intro)
      | (with_reducible apply Calls.call_intro)
      | (intro _)
      | (with_reducible apply Calls.bind)
      | split
      | (dsimp only; split))

theorem dry_calls_maildirOpendir (md : Maildir) (path : Bytes) : Calls DryCall (maildirOpendir md path) := by
  unfold maildirOpendir
  simp only [bind_eq, pure_eq, call_bind]
  repeat' drycalls_step

theorem dry_calls_maildirClose (md : Maildir) : Calls DryCall (maildirClose md) := by
  unfold maildirClose
  simp only [bind_eq, pure_eq, call_bind]
  repeat' drycalls_step

theorem dry_calls_readAll (fd : Handle) (fuel : Nat) : Calls DryCall (readAll fd fuel) := by
  induction fuel with
  | zero => exact Calls.ret_intro _
  | succ n ih =>
    unfold readAll
    simp only [bind_eq, pure_eq, call_bind]
    repeat' (first | exact ih | drycalls_step)

theorem dry_calls_messageParseP (d : Handle) (dir name content : Bytes) : Calls DryCall (messageParseP d dir name content) := by
  unfold messageParseP
  simp only [bind_eq, pure_eq, call_bind]
  repeat' (first | exact dry_calls_readAll _ _ | drycalls_step)

theorem dry_calls_processMessage (env : PEnv) (orc : EvalOracles) (expr : Expr) (md : Maildir) (name : Bytes) (st : MainSt)
    (hd : env.dryrun = true) : Calls DryCall (processMessage env orc expr md name st) := by
  unfold processMessage
  simp only [bind_eq, pure_eq, call_bind, hd, if_true]
  repeat' (first | exact dry_calls_messageParseP _ _ _ _ | exact dry_calls_evalP _ _ _ _ | drycalls_step)

theorem dry_calls_walk (env : PEnv) (orc : EvalOracles) (expr : Expr) (hd : env.dryrun = true) (fuel : Nat) (md : Maildir)
    (st : MainSt) : Calls DryCall (walk env orc expr fuel md st) := by
  induction fuel generalizing md st with
  | zero => exact Calls.ret_intro _
  | succ n ih =>
    unfold walk
    simp only [bind_eq, pure_eq, call_bind]
    repeat' (first | exact ih _ _ | exact dry_calls_processMessage _ _ _ _ _ _ hd | exact dry_calls_maildirOpendir _ _ | drycalls_step)

theorem dry_calls_paths (env : PEnv) (orc : EvalOracles) (input : Bytes) (b : ConfBlock) (hd : env.dryrun = true)
    (hm : env.stdinMode = false) (ps : List Bytes) (st : MainSt) : Calls DryCall (mainP.blocks.paths env orc input b ps st) := by
  induction ps generalizing st with
  | nil => unfold mainP.blocks.paths; exact Calls.ret_intro _
  | cons p more ih =>
    unfold mainP.blocks.paths
    simp only [bind_eq, hm]
    by_cases hp : isStdinPath p = true
    · simp only [hp]
      exact ih _
    · simp only [hp]
      repeat' (first | contradiction | exact ih _ | exact dry_calls_walk _ _ _ hd _ _ _ | exact dry_calls_maildirOpendir _ _ | exact dry_calls_maildirClose _ | drycalls_step)

theorem dry_calls_blocks (env : PEnv) (orc : EvalOracles) (input : Bytes) (hd : env.dryrun = true) (hm : env.stdinMode = false)
    (bs : List ConfBlock) (st : MainSt) : Calls DryCall (mainP.blocks env orc input bs st) := by
  induction bs generalizing st with
  | nil => unfold mainP.blocks; exact Calls.ret_intro _
  | cons b rest ih =>
    unfold mainP.blocks
    simp only [bind_eq]
    repeat' (first | exact ih _ | exact dry_calls_paths _ _ _ _ hd hm _ _ | drycalls_step)

theorem dry_calls_mainP (env : PEnv) (orc : EvalOracles) (ok : Bool) (conf : List ConfBlock) (files : Files) (input : Bytes)
    (hd : env.dryrun = true) (hm : env.stdinMode = false) : Calls DryCall (mainP env orc ok conf files input) := by
  unfold mainP
  simp only [bind_eq, pure_eq, call_bind]
  repeat' (first | exact dry_calls_blocks _ _ _ hd hm _ _ | drycalls_step)

/-- No handle is a stdio stream on a file (true when a process starts). -/
def NoStreams (w : World) : Prop := ∀ h fid buf, w.obj h ≠ .stream fid buf

/-- The file system of `w` is the one of `w0`: same directories with the same entries (names and file ids),
same files with the same visible and durable content, same modification times, same id counter. -/
structure SameDisk (w0 w : World) : Prop where
  dirs : w.dirs = w0.dirs
  files : w.files = w0.files
  mtimes : w.mtimes = w0.mtimes
  nextFid : w.nextFid = w0.nextFid

/-- A `DryCall` changes at most one object of the descriptor table, and not into a stream. -/
theorem dryCall_core (w : World) (c : Call) (r : Res) (hc : DryCall c) (hns : NoStreams w) :
    core w c r = w ∨ (∃ h o, core w c r = w.setObj h o ∧ ∀ fid buf, o ≠ .stream fid buf) ∨
      (∃ o, core w c r = (w.newHandle o).1 ∧ ∀ fid buf, o ≠ .stream fid buf) := by
  have hset : ∀ h o, (∀ fid buf, o ≠ Obj.stream fid buf) → (∃ h' o', w.setObj h o = w.setObj h' o' ∧ ∀ fid buf, o' ≠ .stream fid buf) :=
    fun h o ho => ⟨h, o, rfl, ho⟩
  cases c <;> try exact hc.elim
  case openPath p =>
    cases r <;> simp [core, applyOk]
    exact .inr (.inr ⟨_, rfl, by intro _ _ e; cases e⟩)
  case fork => left; cases r <;> simp [core, applyOk]
  case waitpid => left; cases r <;> simp [core, applyOk]
  case stat p => left; cases r <;> simp [core, applyOk]
  case fopen p =>
    cases r <;> simp [core, applyOk]
    exact .inr (.inr ⟨_, rfl, by intro _ _ e; cases e⟩)
  case opendir p =>
    cases r <;> simp [core, applyOk]
    cases w.dir p with
    | none => exact .inl rfl
    | some es => exact .inr (.inr ⟨_, rfl, by intro _ _ e; cases e⟩)
  case openRd d n =>
    cases r <;> simp [core, applyOk]
    cases (w.dirPath d) with
    | none => exact .inl rfl
    | some q =>
      simp only [Option.bind_some]
      cases w.lookup q n with
      | none => exact .inl rfl
      | some fid => exact .inr (.inr ⟨.file fid 0 false, rfl, by intro _ _ e; cases e⟩)
  case closedir d =>
    right; left
    exact ⟨d, .closed, by cases r <;> simp [core, applyOk], by intro _ _ e; cases e⟩
  case close d =>
    right; left
    exact ⟨d, .closed, by cases r <;> simp [core, applyOk], by intro _ _ e; cases e⟩
  case fclose d =>
    cases ho : w.obj d with
    | stream fid buf => exact absurd ho (hns _ _ _)
    | other => right; left; exact ⟨d, .closed, by cases r <;> simp [core, applyOk, ho], by intro _ _ e; cases e⟩
    | dir _ _ _ => left; cases r <;> simp [core, applyOk, ho]
    | file _ _ _ => left; cases r <;> simp [core, applyOk, ho]
    | closed => left; cases r <;> simp [core, applyOk, ho]
  case readdir d =>
    cases ho : w.obj d with
    | dir q snap pos =>
      cases r <;> simp only [core, applyOk, ho]
      · exact .inl rfl
      · split
        · exact .inr (.inl ⟨d, _, rfl, by intro _ _ e; cases e⟩)
        · exact .inl rfl
      · split
        · exact .inr (.inl ⟨d, _, rfl, by intro _ _ e; cases e⟩)
        · exact .inl rfl
      · exact .inl rfl
    | stream _ _ => left; cases r <;> simp [core, applyOk, ho]
    | other => left; cases r <;> simp [core, applyOk, ho]
    | file _ _ _ => left; cases r <;> simp [core, applyOk, ho]
    | closed => left; cases r <;> simp [core, applyOk, ho]
  case read fd =>
    cases ho : w.obj fd with
    | file fid off wr =>
      cases r <;> simp only [core, applyOk, ho]
      · cases w.file fid with
        | none => exact .inl rfl
        | some f =>
          simp only [Option.bind_some]
          split
          · exact .inr (.inl ⟨fd, _, rfl, by intro _ _ e; cases e⟩)
          · exact .inl rfl
      · exact .inl rfl
      · exact .inl rfl
      · exact .inl rfl
    | stream _ _ => left; cases r <;> simp [core, applyOk, ho]
    | other => left; cases r <;> simp [core, applyOk, ho]
    | dir _ _ _ => left; cases r <;> simp [core, applyOk, ho]
    | closed => left; cases r <;> simp [core, applyOk, ho]

theorem SameDisk.refl (w : World) : SameDisk w w := ⟨rfl, rfl, rfl, rfl⟩

theorem SameDisk.dir {w0 w : World} (h : SameDisk w0 w) (q : Bytes) : w.dir q = w0.dir q := by
  unfold World.dir; rw [h.dirs]
theorem SameDisk.lookup {w0 w : World} (h : SameDisk w0 w) (q n : Bytes) : w.lookup q n = w0.lookup q n := by
  unfold World.lookup; rw [h.dir]
theorem SameDisk.file {w0 w : World} (h : SameDisk w0 w) (g : Nat) : w.file g = w0.file g := by
  unfold World.file; rw [h.files]
theorem SameDisk.mtime {w0 w : World} (h : SameDisk w0 w) (g : Nat) : w.mtime g = w0.mtime g := by
  unfold World.mtime; rw [h.mtimes]

/-- The invariant of a dry run in maildir mode. -/
structure DryInv (w0 w : World) : Prop where
  disk : SameDisk w0 w
  ns : NoStreams w

theorem DryInv.step {w0 w : World} (h : DryInv w0 w) (c : Call) (r : Res) (hc : DryCall c) : DryInv w0 (stepWorld w c r) := by
  have hobj : ∀ x, (stepWorld w c r).obj x = (core w c r).obj x := fun _ => rfl
  have hd : (stepWorld w c r).dirs = (core w c r).dirs := rfl
  have hf : (stepWorld w c r).files = (core w c r).files := rfl
  have hm : (stepWorld w c r).mtimes = (core w c r).mtimes := rfl
  have hn : (stepWorld w c r).nextFid = (core w c r).nextFid := rfl
  rcases dryCall_core w c r hc h.ns with e | ⟨x, o, e, ho⟩ | ⟨o, e, ho⟩
  · refine ⟨⟨by rw [hd, e]; exact h.disk.dirs, by rw [hf, e]; exact h.disk.files, by rw [hm, e]; exact h.disk.mtimes,
      by rw [hn, e]; exact h.disk.nextFid⟩, ?_⟩
    intro y fid buf
    rw [hobj, e]
    exact h.ns y fid buf
  · refine ⟨⟨by rw [hd, e]; exact h.disk.dirs, by rw [hf, e]; exact h.disk.files, by rw [hm, e]; exact h.disk.mtimes,
      by rw [hn, e]; exact h.disk.nextFid⟩, ?_⟩
    intro y fid buf
    rw [hobj, e, obj_setObj]
    split
    · exact ho fid buf
    · exact h.ns y fid buf
  · refine ⟨⟨by rw [hd, e]; exact h.disk.dirs, by rw [hf, e]; exact h.disk.files, by rw [hm, e]; exact h.disk.mtimes,
      by rw [hn, e]; exact h.disk.nextFid⟩, ?_⟩
    intro y fid buf
    rw [hobj, e, obj_newHandle]
    split
    · exact ho fid buf
    · exact h.ns y fid buf

/-- A program all of whose calls satisfy `Q` keeps an invariant that every `Q`-call keeps, under every plan. -/
theorem wp_calls_inv {α} {Q : Call → Prop} {I : World → Prop} (hstep : ∀ w c r, Q c → I w → I (stepWorld w c r))
    {p : Prog α} (hc : Calls Q p) {w : World} (hi : I w) : wp I p (fun _ w' => I w') w := by
  induction p generalizing w with
  | ret a => exact hi
  | call c k ih =>
    intro f
    have := hstep w c (faultResult f w c) hc.1 hi
    exact ⟨this, ih _ (hc.2 _) this⟩

/-- **`-d`, maildir mode, world level**: under every fault plan, after every call and at the end, the file system is
the initial one. -/
theorem dry_world_unchanged (env : PEnv) (orc : EvalOracles) (ok : Bool) (conf : List ConfBlock) (files : Files) (input : Bytes)
    (w : World) (plan : Plan) (hd : env.dryrun = true) (hm : env.stdinMode = false) (hns : NoStreams w) (w' : World)
    (hw' : w' = (runPlan plan (mainP env orc ok conf files input) w 0 []).2.1 ∨
      w' ∈ (runPlan plan (mainP env orc ok conf files input) w 0 []).2.2) : SameDisk w w' := by
  have h := wp_sound plan (wp_calls_inv (Q := DryCall) (I := DryInv w) (fun w1 c r hc hi => hi.step c r hc)
    (dry_calls_mainP env orc ok conf files input hd hm) ⟨SameDisk.refl w, hns⟩) 0
  rw [runPlan_eq] at hw'
  simp only [List.nil_append] at hw'
  rcases hw' with rfl | hw'
  · exact h.2.disk
  · exact (h.1 w' hw').disk

/-! ## stdin mode: the trace and the world cohere, and pre-existing directories and files stay as they are -/

/-- What `-d -` needs of the initial world: the paths `mkdtemp` and `mkdir` will create are not taken
(`SpoolFresh`), and the empty path names no directory. -/
structure DryStart (env : PEnv) (w0 : World) : Prop where
  fresh : SpoolFresh env w0
  empty : w0.dir [] = none

/-- Trace so far (`pre`, the calls of this run with their results) and world cohere; everything that existed in `w0`
is unchanged. -/
structure DryCoh (env : PEnv) (w0 : World) (pre : List (Call × Res)) (w : World) : Prop where
  dirs : ∀ q, (w0.dir q).isSome → w.dir q = w0.dir q
  files : ∀ g, g < w0.nextFid → w.file g = w0.file g
  mtimes : w.mtimes = w0.mtimes
  nextFid : w0.nextFid ≤ w.nextFid
  root : ∀ t root, (Call.mkdtemp t, Res.name root) ∈ pre → root = spoolRoot env
  odir : ∀ p d, (Call.opendir p, Res.ok d) ∈ pre →
    d < w.handles.length ∧ (w.obj d = .closed ∨ ∃ s pos, w.obj d = .dir p s pos)
  ofd : ∀ d n fd, (Call.openExcl d n, Res.ok fd) ∈ pre →
    fd < w.handles.length ∧ (w.obj fd = .closed ∨ ∃ fid off wr, w.obj fd = .file fid off wr ∧ w0.nextFid ≤ fid)
  conf : ∀ p h, (Call.fopen p, Res.ok h) ∈ pre → h < w.handles.length ∧ (w.obj h = .closed ∨ w.obj h = .other)

theorem DryCoh.start (env : PEnv) (w : World) : DryCoh env w [] w :=
  ⟨fun _ _ => rfl, fun _ _ => rfl, rfl, Nat.le_refl _, fun _ _ h => (by cases h), fun _ _ h => (by cases h),
   fun _ _ _ h => (by cases h), fun _ _ h => (by cases h)⟩

variable {env : PEnv} {cm sa : Bool} {w0 w : World} {pre : List (Call × Res)}

theorem DryCoh.isRoot (h : DryCoh env w0 pre w) {root : Bytes} (hr : dry_IsRoot pre root) : root = spoolRoot env := by
  obtain ⟨t, ht⟩ := hr
  exact h.root t root ht

theorem DryCoh.isNew (h : DryCoh env w0 pre w) {p : Bytes} (hn : dry_IsNew pre p) : p = spoolPath env := by
  obtain ⟨root, hr, hp⟩ := hn
  rw [pathjoin_eq hp, h.isRoot hr]
  rfl

theorem DryCoh.isDir (h : DryCoh env w0 pre w) {d : Handle} (hd : dry_IsDir pre d) :
    w.obj d = .closed ∨ ∃ s pos, w.obj d = .dir (spoolPath env) s pos := by
  obtain ⟨p, hp, hm⟩ := hd
  have := (h.odir p d hm).2
  rwa [h.isNew hp] at this

theorem DryCoh.isFd (h : DryCoh env w0 pre w) {fd : Handle} (hf : dry_IsFd pre fd) :
    w.obj fd = .closed ∨ ∃ fid off wr, w.obj fd = .file fid off wr ∧ w0.nextFid ≤ fid := by
  obtain ⟨d, n, _, hm⟩ := hf
  exact (h.ofd d n fd hm).2

/-- The handle of a directory stream on the spool: its path, if it has one, is the spool. -/
theorem DryCoh.dirPath (h : DryCoh env w0 pre w) {d : Handle} (hd : dry_IsDir pre d) {p : Bytes} (hp : w.dirPath d = some p) :
    p = spoolPath env := by
  rcases h.isDir hd with hc | ⟨s, pos, ho⟩
  · simp [World.dirPath, hc] at hp
  · simp [World.dirPath, ho] at hp
    exact hp.symm

theorem dryCall_notStdio {tr : List (Call × Res)} {c : Call} (h : DrySpoolCall env cm sa tr c) : Call.stdio c = false := by
  cases c <;> first | rfl | exact h.elim

theorem dryCall_notUtimens {tr : List (Call × Res)} {c : Call} (h : DrySpoolCall env cm sa tr c) : Call.isUtimens c = false := by
  cases c <;> first | rfl | exact h.elim

/-- Appending a directory does not change what an existing path names. -/
theorem dir_append_of_isSome (w : World) (p q : Bytes) (hq : (w.dir q).isSome) :
    ({ w with dirs := w.dirs ++ [(p, [])] } : World).dir q = w.dir q := by
  have := dir_of_append (w := w) (w' := { w with dirs := w.dirs ++ [(p, [])] }) (ex := [(p, [])]) rfl q
  rw [this]
  cases hw : w.dir q with
  | none => rw [hw] at hq; cases hq
  | some es => rfl

/-- A call of a `-d -` run leaves every directory that existed in `w0` as it is. -/
theorem DryCoh.dir_step (hs : DryStart env w0) (h : DryCoh env w0 pre w) (c : Call) (r : Res) (hc : DrySpoolCall env cm sa pre c)
    (q : Bytes) (hq : (w0.dir q).isSome) : (core w c r).dir q = w0.dir q := by
  have hwq : w.dir q = w0.dir q := h.dirs q hq
  have hqs : (w.dir q).isSome := by rw [hwq]; exact hq
  have hne_sp : q ≠ spoolPath env := by intro e; rw [e, hs.fresh.2] at hq; cases hq
  have hne_sr : q ≠ spoolRoot env := by intro e; rw [e, hs.fresh.1] at hq; cases hq
  have hne_nil : q ≠ [] := by intro e; rw [e, hs.empty] at hq; cases hq
  have plain : Call.dirOp c = false → (core w c r).dir q = w0.dir q := fun hd => by
    rw [dir_of_dirs (core_dirs w c r hd), hwq]
  cases c <;> try exact hc.elim
  case openPath _ => exact plain rfl
  case fork => exact plain rfl
  case waitpid => exact plain rfl
  case stat _ => exact plain rfl
  case fopen _ => exact plain rfl
  case fclose _ => exact plain rfl
  case opendir _ => exact plain rfl
  case write _ _ => exact plain rfl
  case fsync _ => exact plain rfl
  case read _ => exact plain rfl
  case close _ => exact plain rfl
  case readdir _ => exact plain rfl
  case rewinddir _ => exact plain rfl
  case closedir _ => exact plain rfl
  case openRd _ _ => exact plain rfl
  case mkdtemp t =>
    cases r <;> simp only [core, applyOk, Option.getD_some, Option.getD_none] <;> try exact hwq
    rw [dir_append_of_isSome w _ q hqs, hwq]
  case mkdir p =>
    cases r <;> simp only [core, applyOk, Option.getD_some, Option.getD_none] <;> try exact hwq
    rw [dir_append_of_isSome w _ q hqs, hwq]
  case openExcl d n =>
    have hd : dry_IsDir pre d := hc
    cases r <;> simp only [core, applyOk, Option.getD_some, Option.getD_none] <;> try exact hwq
    cases hp : w.dirPath d with
    | none => exact hwq
    | some p =>
      have hpe := h.dirPath hd hp
      subst hpe
      simp only [Option.bind_some]
      cases w.lookup (spoolPath env) n with
      | some _ => exact hwq
      | none =>
        simp only [Option.getD_some, dir_newHandle, dir_bind, hne_sp, if_false, dir_setFile]
        exact hwq
  case unlinkat d n =>
    have hd : dry_IsDir pre d := hc.1
    cases r <;> simp only [core, applyOk, Option.getD_some, Option.getD_none] <;> try exact hwq
    cases hp : w.dirPath d with
    | none => exact hwq
    | some p =>
      have hpe := h.dirPath hd hp
      subst hpe
      simp only [Option.bind_some]
      cases w.lookup (spoolPath env) n with
      | none => exact hwq
      | some _ =>
        simp only [Option.map_some, Option.getD_some, dir_unbind, hne_sp, if_false]
        exact hwq
  case rmdir p =>
    have hp : q ≠ p := by
      rcases hc with rfl | hr | hn
      · exact hne_nil
      · rw [h.isRoot hr]; exact hne_sr
      · rw [h.isNew hn]; exact hne_sp
    cases r <;> simp only [core, applyOk, Option.getD_some, Option.getD_none] <;> try exact hwq
    split
    · simp only [Option.getD_some, dir_filter_ne, hp, if_false]
      exact hwq
    · exact hwq

/-- ... and every file that existed in `w0`. -/
theorem DryCoh.file_step (h : DryCoh env w0 pre w) (c : Call) (r : Res) (hc : DrySpoolCall env cm sa pre c)
    (g : Nat) (hg : g < w0.nextFid) : (core w c r).file g = w0.file g := by
  rw [core_file w c r g (Nat.lt_of_lt_of_le hg h.nextFid) ?_, h.files g hg]
  have hfd : ∀ fd, dry_IsFd pre fd → objFid (w.obj fd) ≠ some g := by
    intro fd hf
    rcases h.isFd hf with ho | ⟨fid, off, wr, ho, hle⟩
    · simp [ho, objFid]
    · simp only [ho, objFid, ne_eq, Option.some.injEq]
      omega
  cases c <;> first | exact hc.elim | trivial | exact hfd _ hc | skip
  case fclose x =>
    have hx : (Call.fopen env.confpath, Res.ok x) ∈ pre := hc
    rcases (h.conf _ x hx).2 with ho | ho <;> simp [fileSafe, ho, objFid]

/-! ### the descriptor table follows the trace -/

theorem opendir_ok {f : Option Fault} {w : World} {p : Bytes} {d : Nat} (h : faultResult f w (.opendir p) = .ok d) :
    d = w.handles.length ∧ core w (.opendir p) (.ok d) = (w.newHandle (.dir p none 0)).1 := by
  have hd := opener_result f w (.opendir p) d rfl h
  refine ⟨hd, ?_⟩
  rcases faultResult_cases f w (.opendir p) (by intro _ e; cases e) (by intro _ _ e; cases e) with h' | ⟨e, h'⟩
  · rw [h'] at h
    simp only [predict] at h
    cases hdir : w.dir p with
    | none => rw [hdir] at h; simp at h
    | some es => simp [core, applyOk, hdir]
  · rw [h'] at h; cases h

theorem fopen_ok {f : Option Fault} {w : World} {p : Bytes} {x : Nat} (h : faultResult f w (.fopen p) = .ok x) :
    x = w.handles.length ∧ core w (.fopen p) (.ok x) = (w.newHandle .other).1 :=
  ⟨opener_result f w (.fopen p) x rfl h, by simp [core, applyOk]⟩

theorem openExcl_ok {f : Option Fault} {w : World} {d : Handle} {n : Bytes} {x : Nat} (h : faultResult f w (.openExcl d n) = .ok x) :
    x = w.handles.length ∧ ∃ p, core w (.openExcl d n) (.ok x) =
      (((({ w with nextFid := w.nextFid + 1 } : World).setFile w.nextFid ⟨[], []⟩).bind p n w.nextFid).newHandle (.file w.nextFid 0 true)).1 := by
  rcases openExcl_results f w d n with ⟨e, he⟩ | ⟨he, p, hp, hl⟩
  · rw [he] at h; cases h
  · rw [he] at h
    cases h
    exact ⟨rfl, p, core_openExcl_ok hp hl _⟩

theorem mkdtemp_name {f : Option Fault} {w : World} {t root : Bytes} (h : faultResult f w (.mkdtemp t) = .name root) : root = t := by
  rcases faultResult_cases f w (.mkdtemp t) (by intro _ e; cases e) (by intro _ _ e; cases e) with h' | ⟨e, h'⟩
  · rw [h'] at h
    simp only [predict] at h
    cases h; rfl
  · rw [h'] at h; cases h

/-- An old entry of the table keeps its kind under every call that is not a stdio call. -/
theorem stable_step (w : World) (c : Call) (r : Res) (x : Handle) (hl : x < w.handles.length) (hst : Call.stdio c = false) :
    x < (stepWorld w c r).handles.length ∧ ObjStable (w.obj x) ((stepWorld w c r).obj x) := by
  rw [stepWorld_handles, stepWorld_obj]
  exact ⟨Nat.lt_of_lt_of_le hl (core_len w c r), obj_stable w c r x hl hst⟩

theorem DryCoh.step (hs : DryStart env w0) (h : DryCoh env w0 pre w) (c : Call) (f : Option Fault)
    (hc : DrySpoolCall env cm sa pre c) :
    DryCoh env w0 (pre ++ [(c, faultResult f w c)]) (stepWorld w c (faultResult f w c)) := by
  have hst := dryCall_notStdio hc
  refine ⟨?_, ?_, ?_, ?_, ?_, ?_, ?_, ?_⟩
  · intro q hq
    rw [stepWorld_dir]
    exact h.dir_step hs c _ hc q hq
  · intro g hg
    rw [stepWorld_file]
    exact h.file_step c _ hc g hg
  · show (core w c _).mtimes = _
    rw [core_mtimes w c _ (dryCall_notUtimens hc), h.mtimes]
  · rw [stepWorld_nextFid]
    exact Nat.le_trans h.nextFid (core_nextFid w c _)
  · intro t root hm
    rcases List.mem_append.1 hm with hm | hm
    · exact h.root t root hm
    · simp only [List.mem_singleton, Prod.mk.injEq] at hm
      obtain ⟨rfl, hr⟩ := hm
      have ht : pathjoin PATH_MAX env.tmpdir (ofString "mdsort-XXXXXXXX") = some t := hc
      rw [mkdtemp_name hr.symm, pathjoin_eq ht]
      rfl
  · intro p d hm
    rcases List.mem_append.1 hm with hm | hm
    · obtain ⟨hl, ho⟩ := h.odir p d hm
      obtain ⟨hl', hs'⟩ := stable_step w c (faultResult f w c) d hl hst
      refine ⟨hl', ?_⟩
      rcases ho with ho | ⟨s, pos, ho⟩
      · rw [ho] at hs'; exact .inl hs'
      · rw [ho] at hs'; exact hs'
    · simp only [List.mem_singleton, Prod.mk.injEq] at hm
      obtain ⟨rfl, hr⟩ := hm
      obtain ⟨hd, hcore⟩ := opendir_ok hr.symm
      rw [← hr, stepWorld_handles, stepWorld_obj, hcore, hd]
      exact ⟨by simp, .inr ⟨none, 0, by simp [obj_newHandle]⟩⟩
  · intro d n fd hm
    rcases List.mem_append.1 hm with hm | hm
    · obtain ⟨hl, ho⟩ := h.ofd d n fd hm
      obtain ⟨hl', hs'⟩ := stable_step w c (faultResult f w c) fd hl hst
      refine ⟨hl', ?_⟩
      rcases ho with ho | ⟨fid, off, wr, ho, hle⟩
      · rw [ho] at hs'; exact .inl hs'
      · rw [ho] at hs'
        rcases hs' with hs' | ⟨off', hs'⟩
        · exact .inl hs'
        · exact .inr ⟨fid, off', wr, hs', hle⟩
    · simp only [List.mem_singleton, Prod.mk.injEq] at hm
      obtain ⟨rfl, hr⟩ := hm
      obtain ⟨hd, p, hcore⟩ := openExcl_ok hr.symm
      rw [← hr, stepWorld_handles, stepWorld_obj, hcore, hd]
      exact ⟨by simp, .inr ⟨w.nextFid, 0, true, by simp [obj_newHandle], h.nextFid⟩⟩
  · intro p x hm
    rcases List.mem_append.1 hm with hm | hm
    · obtain ⟨hl, ho⟩ := h.conf p x hm
      obtain ⟨hl', hs'⟩ := stable_step w c (faultResult f w c) x hl hst
      refine ⟨hl', ?_⟩
      rcases ho with ho | ho
      · rw [ho] at hs'; exact .inl hs'
      · rw [ho] at hs'; exact hs'
    · simp only [List.mem_singleton, Prod.mk.injEq] at hm
      obtain ⟨rfl, hr⟩ := hm
      obtain ⟨hd, hcore⟩ := fopen_ok hr.symm
      rw [← hr, stepWorld_handles, stepWorld_obj, hcore, hd]
      exact ⟨by simp, .inr (by simp [obj_newHandle])⟩

/-! ### every run whose calls are `DrySpoolCall`s -/

/-- Under a plan, a program whose every call satisfies `DrySpoolCall` on the calls and results so far keeps `DryCoh`
after every call. -/
theorem dryCoh_run {α} (plan : Plan) (hs : DryStart env w0) :
    ∀ (p : Prog α) (w : World) (i : Nat) (pre : List (Call × Res)), DryCoh env w0 pre w →
      (∀ j x, (dry_planTrace plan p w i)[j]? = some x → DrySpoolCall env cm sa (pre ++ (dry_planTrace plan p w i).take j) x.1) →
      (∀ w' ∈ (run plan p w i).2.2.2, ∃ pre', DryCoh env w0 pre' w') ∧
        DryCoh env w0 (pre ++ dry_planTrace plan p w i) (run plan p w i).2.1 := by
  intro p
  induction p with
  | ret a =>
    intro w i pre h _
    exact ⟨by simp [run], by simpa [run, dry_planTrace] using h⟩
  | call c k ih =>
    intro w i pre h hcalls
    have hc : DrySpoolCall env cm sa pre c := by
      have := hcalls 0 (c, faultResult (plan i) w c) (by simp [dry_planTrace])
      simpa using this
    have h1 := h.step hs c (plan i) hc
    have := ih (faultResult (plan i) w c) (stepWorld w c (faultResult (plan i) w c)) (i + 1) _ h1 (by
      intro j x hx
      have := hcalls (j + 1) x (by simpa [dry_planTrace] using hx)
      simpa [dry_planTrace, List.append_assoc] using this)
    refine ⟨?_, by simpa [run, dry_planTrace, List.append_assoc] using this.2⟩
    intro w' hw'
    simp only [run, List.mem_cons] at hw'
    rcases hw' with rfl | hw'
    · exact ⟨_, h1⟩
    · exact this.1 w' hw'

/-! ## the statements of Props/C05 -/

/-- Everything that existed in `w0` is unchanged in `w'`: every directory has the same entries (same names bound to the
same file ids), every file (ids are handed out from `nextFid`) has the same visible and durable content, and the table
of modification times is the same. -/
structure PreExisting (w0 w' : World) : Prop where
  dirs : ∀ q, (w0.dir q).isSome → w'.dir q = w0.dir q
  files : ∀ g, g < w0.nextFid → w'.file g = w0.file g
  mtimes : w'.mtimes = w0.mtimes

theorem PreExisting.lookup {w0 w' : World} (h : PreExisting w0 w') {q n : Bytes} {fid : Nat} (hl : w0.lookup q n = some fid) :
    w'.lookup q n = some fid := by
  have hd := dir_isSome_of_lookup hl
  unfold World.lookup at hl ⊢
  rw [h.dirs q hd]
  exact hl

theorem PreExisting.mtime {w0 w' : World} (h : PreExisting w0 w') (g : Nat) : w'.mtime g = w0.mtime g := by
  unfold World.mtime; rw [h.mtimes]

theorem SameDisk.preExisting {w0 w' : World} (h : SameDisk w0 w') : PreExisting w0 w' :=
  ⟨fun q _ => h.dir q, fun g _ => h.file g, h.mtimes⟩

theorem DryCoh.preExisting {env : PEnv} {w0 w' : World} {pre : List (Call × Res)} (h : DryCoh env w0 pre w') : PreExisting w0 w' :=
  ⟨h.dirs, h.files, h.mtimes⟩

/-- **`-d -`, world level**: under every fault plan, after every call and at the end, everything that existed before
the run is unchanged. -/
theorem dry_stdin_world_unchanged (env : PEnv) (orc : EvalOracles) (ok : Bool) (conf : List ConfBlock) (files : Files)
    (input : Bytes) (w : World) (plan : Plan) (hd : env.dryrun = true) (hm : env.stdinMode = true) (hs : DryStart env w)
    (w' : World)
    (hw' : w' = (runPlan plan (mainP env orc ok conf files input) w 0 []).2.1 ∨
      w' ∈ (runPlan plan (mainP env orc ok conf files input) w 0 []).2.2) : PreExisting w w' := by
  have hcalls := dry_stdin_calls_plan env orc ok conf files input w plan hd hm
  rw [runPlan_eq] at hcalls hw'
  simp only [dry_run_trace, List.drop_left, List.nil_append] at hcalls hw'
  have h := dryCoh_run plan hs (mainP env orc ok conf files input) w 0 [] (DryCoh.start env w) (by
    intro j x hx
    simpa using hcalls j x.1 x.2 hx)
  rcases hw' with rfl | hw'
  · exact h.2.preExisting
  · obtain ⟨pre', hp⟩ := h.1 w' hw'
    exact hp.preExisting

/-- ... and when nothing is injected from the first call of the cleanup on, the set of directories at the end is
exactly the initial one, each with its initial entries: the spool the run made is gone. -/
theorem dry_stdin_world_restored (env : PEnv) (orc : EvalOracles) (conf : List ConfBlock) (files : Files) (input : Bytes)
    (expr : Expr) (w : World) (plan : Plan) (hd : env.dryrun = true) (hm : env.stdinMode = true) (hsx : env.syntaxOnly = false)
    (hc : stdinExprs conf = [expr]) (hin : StdinIs w input) (hs : DryStart env w)
    (hplan : ∀ j, stdinCleanupStart plan env orc expr files input w ≤ j → plan j = none) :
    ∀ q, (runPlan plan (mainP env orc true conf files input) w 0 []).2.1.dir q = w.dir q := by
  intro q
  have hfr := dry_stdin_world_unchanged env orc true conf files input w plan hd hm hs _ (.inl rfl)
  cases hq : w.dir q with
  | some es => rw [← hq]; exact hfr.dirs q (by rw [hq]; rfl)
  | none =>
    cases hq' : (runPlan plan (mainP env orc true conf files input) w 0 []).2.1.dir q with
    | none => rfl
    | some es =>
      have := stdin_spool_removed env orc conf files input expr w plan hm hsx hc hin hs.fresh hplan q (by rw [hq']; rfl)
      rw [hq] at this
      cases this

/-- Decidable form of `NoStreams`. -/
def noStreamsOk (w : World) : Bool :=
  w.handles.all fun o => match o with
    | .stream _ _ => false
    | _ => true

theorem noStreams_of_ok {w : World} (h : noStreamsOk w = true) : NoStreams w := by
  intro x fid buf ho
  unfold noStreamsOk at h
  rw [List.all_eq_true] at h
  unfold World.obj at ho
  rw [List.getD_eq_getElem?_getD] at ho
  cases hx : w.handles[x]? with
  | none => rw [hx] at ho; cases ho
  | some o =>
    rw [hx] at ho
    simp only [Option.getD_some] at ho
    have := h o (List.mem_of_getElem? hx)
    rw [ho] at this
    cases this

end Mdsort.Proofs.World
