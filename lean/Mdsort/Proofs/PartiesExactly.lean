import Mdsort.Proofs.PartiesInv

/-! Exactly-once delivery for movers + client under `H_iso`: the theorem on schedules. -/

namespace Mdsort.Proofs.Parties
set_option linter.unusedSimpArgs false
set_option linter.unusedVariables false
open Mdsort Mdsort.Model
open Mdsort.Proofs.World
open Mdsort.Proofs.Own

/-- An mdsort party whose action list delivers by renaming only (move / flag / flags). -/
def IsMoverParty (ps : PState) : Prop :=
  ∃ env ml st, (∀ mh ∈ ml, isMover mh) ∧ ps.prog = errOf (matchesExec env ml st)

/-- The external client. -/
def IsClientParty (ps : PState) : Prop := ∃ ops, ps.prog = clientProg ops

/-- What is assumed of the initial state: nobody has started, one device, every bound file id is
allocated, no file is bound twice (no hard links), the directory handles the parties hold refer to
existing directories, and every party is a mover or the client. -/
structure StartOK (s0 : Shared) : Prop where
  fresh : Fresh s0
  devs : s0.fs.devs = []
  boundLt : ∀ (p n : Bytes) (f : Nat), s0.fs.lookup p n = some f → f < s0.fs.nextFid
  inj : ∀ (p n p' n' : Bytes) (f : Nat), s0.fs.lookup p n = some f → s0.fs.lookup p' n' = some f → p = p' ∧ n = n'
  dirsOk : ∀ (i : Nat) (ps : PState) (d : Handle) (p : Bytes), s0.parties[i]? = some ps →
    handlesDirPath ps.handles d = some p → (s0.fs.dir p).isSome
  parties : ∀ (i : Nat) (ps : PState), s0.parties[i]? = some ps → IsMoverParty ps ∨ IsClientParty ps

theorem calls_clientProg (ops : List ClientOp) : Calls IsClientCall (clientProg ops) := by
  induction ops with
  | nil => exact True.intro
  | cons op rest ih =>
    refine ⟨?_, fun _ => ih⟩
    cases op <;> exact True.intro

theorem minv_init (s0 : Shared) (h : StartOK s0) : MInv s0 s0 := by
  have htr : ∀ (i : Nat) (ps : PState), s0.parties[i]? = some ps → ps.trace = [] :=
    fun i ps hp => h.fresh.2 ps (List.mem_of_getElem? hp)
  refine ⟨h.devs, Nat.le_refl _, h.boundLt, h.inj, ?_, ?_, ?_, fun _ _ => rfl, h.dirsOk, ?_, ?_⟩
  · intro i ps x hp hx
    simp [PState.inFlight, htr i ps hp, inFlightH] at hx
  · intro p n f hl
    exact .inl ⟨p, n, hl⟩
  · intro p0 n0 f hl
    exact .inl ⟨p0, n0, hl⟩
  · intro i ps x hp hx
    simp [htr i ps hp, inFlightH] at hx
  · intro i ps hp
    have ht := htr i ps hp
    refine ⟨by simp [ht, inFlightH], ?_⟩
    rcases h.parties i ps hp with ⟨env, ml, st, hml, hprog⟩ | ⟨ops, hprog⟩
    · left
      rw [hprog, ht]
      exact mover_party env ml hml st
    · right
      rw [hprog, ht]
      exact ⟨calls_clientProg ops, rfl⟩

theorem minv_run_aux (s0 : Shared) (h : StartOK s0) (sched : List Nat) :
    ∀ s, MInv s0 s → Hiso s sched = true → MInv s0 (runSched s sched) := by
  induction sched with
  | nil => intro s hs _; exact hs
  | cons a rest ih =>
    intro s hs hi
    simp only [Hiso, Bool.and_eq_true] at hi
    exact ih (stepParty s a) (minv_step s0 s h.boundLt a hs hi.1) hi.2

theorem minv_run (s0 : Shared) (h : StartOK s0) (sched : List Nat) (hiso : Hiso s0 sched = true) :
    MInv s0 (runSched s0 sched) :=
  minv_run_aux s0 h sched s0 (minv_init s0 h) hiso

/-- A finished party has nothing in flight. -/
theorem finished_inFlight {ps : PState} (h : LocalOK ps) (hf : ps.finished = true) : ps.inFlight = [] := by
  apply inFlight_of_nil
  rcases h.2 with hw | ⟨_, h0⟩
  · cases hp : ps.prog with
    | ret e => rw [hp] at hw; exact hw
    | call c k => simp [PState.finished, hp] at hf
  · exact h0

/-- Exactly once, for movers and the client, on every complete schedule that respects `H_iso`:
every initial file that was not removed outright (the client's delete, or a rename onto it) is
bound to exactly one entry; and every entry is bound to an initial file with its initial content
(no placeholder, no empty or partial file remains). -/
theorem exactly_once_movers (s0 : Shared) (h0 : StartOK s0) (sched : List Nat) (hiso : Hiso s0 sched = true)
    (hq : (runSched s0 sched).quiescent = true) :
    (∀ p0 n0 f, s0.fs.lookup p0 n0 = some f → (∀ e ∈ (runSched s0 sched).log, e.destroys f = false) →
      ∃ p n, (runSched s0 sched).fs.lookup p n = some f ∧
        ∀ p' n', (runSched s0 sched).fs.lookup p' n' = some f → p' = p ∧ n' = n) ∧
    (∀ p n f, (runSched s0 sched).fs.lookup p n = some f →
      (∃ p0 n0, s0.fs.lookup p0 n0 = some f) ∧ (runSched s0 sched).fs.file f = s0.fs.file f) := by
  have hinv := minv_run s0 h0 sched hiso
  refine ⟨?_, ?_⟩
  · intro p0 n0 f hl hnd
    rcases hinv.kept p0 n0 f hl with ⟨p, n, h⟩ | ⟨e, he, hd⟩
    · exact ⟨p, n, h, fun p' n' h' => hinv.inj p' n' p n f h' h⟩
    · rw [hnd e he] at hd; cases hd
  · intro p n f hl
    have hinit : ∃ p0 n0, s0.fs.lookup p0 n0 = some f := by
      rcases hinv.origin p n f hl with h | ⟨i, ps, hp, hx⟩
      · exact h
      · exfalso
        have hfin : ps.finished = true := by
          simp only [Shared.quiescent, List.all_eq_true] at hq
          exact hq ps (List.mem_of_getElem? hp)
        rw [finished_inFlight (hinv.localOk i ps hp) hfin] at hx
        cases hx
    obtain ⟨p0, n0, hl0⟩ := hinit
    exact ⟨⟨p0, n0, hl0⟩, hinv.files f (h0.boundLt p0 n0 f hl0)⟩

/-! ## `StartOK` from decidable checks on a concrete initial state -/

theorem lookup_mem_entries {w : World} {p n : Bytes} {f : Nat} (h : w.lookup p n = some f) : (p, n, f) ∈ w.entries := by
  unfold World.lookup World.dir at h
  simp only [Option.bind_eq_some_iff, Option.map_eq_some_iff] at h
  obtain ⟨es, ⟨d, hd, rfl⟩, e, he, rfl⟩ := h
  have hd1 := List.find?_some hd
  have hdm := List.mem_of_find?_eq_some hd
  have he1 := List.find?_some he
  have hem := List.mem_of_find?_eq_some he
  simp only [beq_iff_eq] at hd1 he1
  simp only [World.entries, List.mem_flatMap, List.mem_map]
  exact ⟨d, hdm, e, hem, by rw [hd1, he1]⟩

theorem eq_of_nodup_map {α β} (f : α → β) :
    ∀ (l : List α), (l.map f).Nodup → ∀ x y, x ∈ l → y ∈ l → f x = f y → x = y
  | [], _, x, _, hx, _, _ => by cases hx
  | a :: l, h, x, y, hx, hy, e => by
    simp only [List.map_cons, List.nodup_cons, List.mem_map, not_exists, not_and] at h
    rcases List.mem_cons.1 hx with hxa | hxl
    · rcases List.mem_cons.1 hy with hya | hyl
      · rw [hxa, hya]
      · rw [hxa] at e; exact absurd e.symm (h.1 y hyl)
    · rcases List.mem_cons.1 hy with hya | hyl
      · rw [hya] at e; exact absurd e (h.1 x hxl)
      · exact eq_of_nodup_map f l h.2 x y hxl hyl e

/-- The decidable part of `StartOK`. -/
def startChecks (s0 : Shared) : Bool :=
  s0.fs.devs.isEmpty && s0.fs.entries.all (fun e => e.2.2 < s0.fs.nextFid) &&
  decide ((s0.fs.entries.map (·.2.2)).Nodup) &&
  s0.parties.all fun ps => ps.handles.all fun o =>
    match o with
    | .dir p _ _ => (s0.fs.dir p).isSome
    | _ => true

theorem startOK_of_checks (s0 : Shared) (hf : Fresh s0) (hc : startChecks s0 = true)
    (hp : ∀ (i : Nat) (ps : PState), s0.parties[i]? = some ps → IsMoverParty ps ∨ IsClientParty ps) : StartOK s0 := by
  simp only [startChecks, Bool.and_eq_true, List.all_eq_true, decide_eq_true_eq, List.isEmpty_iff] at hc
  obtain ⟨⟨⟨hdev, hlt⟩, hnd⟩, hdirs⟩ := hc
  refine ⟨hf, hdev, ?_, ?_, ?_, hp⟩
  · intro p n f h
    have := hlt _ (lookup_mem_entries h)
    simpa using this
  · intro p n p' n' f h h'
    have := eq_of_nodup_map (fun e : Bytes × Bytes × Nat => e.2.2) _ hnd _ _ (lookup_mem_entries h) (lookup_mem_entries h') rfl
    simp only [Prod.mk.injEq] at this
    exact ⟨this.1, this.2.1⟩
  · intro i ps d p hps hd
    have hmem := hdirs ps (List.mem_of_getElem? hps)
    unfold handlesDirPath at hd
    split at hd
    · rename_i q sn pos heq
      cases hd
      have hlt : d < ps.handles.length := by
        by_cases hl : d < ps.handles.length
        · exact hl
        · simp [List.getD_eq_getElem?_getD, List.getElem?_eq_none (Nat.le_of_not_lt hl)] at heq
      have hin : Obj.dir p sn pos ∈ ps.handles := by
        rw [List.getD_eq_getElem?_getD, List.getElem?_eq_getElem hlt] at heq
        simp only [Option.getD_some] at heq
        rw [← heq]; exact List.getElem_mem hlt
      exact hmem _ hin
    · cases hd

end Mdsort.Proofs.Parties
