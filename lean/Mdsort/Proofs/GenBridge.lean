import Mdsort.Model.Start

/-!
# The regenerated constants, evaluated (package p15)

`tools/gen_tables.py` regenerates `Gen/Tables.lean` from the sources and the platform headers of the tree under check on
every run, and the executable model is DEFINED with those names (`Model.PATH_MAX := Gen.pathMax`, `Model.execStatus` with
`Gen.execFatalExit`, ...): the driver of the correspondence run follows the source.  The proofs, on the other hand, were
written for the numbers.  The lemmas below are the only place where the numbers are written down; each is closed by
evaluating the generated table (`decide`), is a `simp` lemma, and stops checking - and with it every theorem stated with
the number downstream - when the source or the platform changes the constant.  No executable definition depends on this
file, so a changed constant breaks theorems, not the driver.
-/

namespace Mdsort.Model
open Mdsort

/-! ## platform limits (`cc -E -dM` over config.h + extern.h of the tree) -/

@[simp] theorem Gen_nameMax_eq : Gen.nameMax = 255 := by decide
@[simp] theorem Gen_pathMax_eq : Gen.pathMax = 4096 := by decide

/-! ## util.c `exec()`: `int error = 1`, `_exit(127)` in the child, `if (error == 127) error = -1`,
`128 + WTERMSIG(status)`, `error = -1` on the three failure paths -/

@[simp] theorem Gen_execFatalExit_eq : Gen.execFatalExit = 127 := by decide
@[simp] theorem Gen_execFatalValue_eq : Gen.execFatalValue = -1 := by decide
@[simp] theorem Gen_execSignalBase_eq : Gen.execSignalBase = 128 := by decide
@[simp] theorem Gen_execInitialValue_eq : Gen.execInitialValue = 1 := by decide
@[simp] theorem Gen_execChildExit_eq : Gen.execChildExit = 127 := by decide
@[simp] theorem Gen_execCannotRunValue_eq : Gen.execCannotRunValue = -1 := by decide

/-! ## mdsort.c `defaultconf`, `readenv`; extern.h `struct environment` -/

/-- `"/.mdsort.conf"` (13 bytes): the literal part of the format of `defaultconf`. -/
@[simp] theorem confSuffix_eq : confSuffix = [47, 46, 109, 100, 115, 111, 114, 116, 46, 99, 111, 110, 102] := by decide

@[simp] theorem TZ_BUF_eq : TZ_BUF = 256 := by decide

/-- `ev_home`, `ev_tmpdir` (extern.h) and the static buffer of `defaultconf` are declared `[PATH_MAX]`: the sizes
regenerated from the declarations equal the platform limit (a buffer declared with another size breaks these and with
them every `C18_*` theorem about start-up). -/
@[simp] theorem Gen_evHomeSize_eq : Gen.evHomeSize = PATH_MAX := by decide
@[simp] theorem Gen_evTmpdirSize_eq : Gen.evTmpdirSize = PATH_MAX := by decide
@[simp] theorem Gen_defaultconfSize_eq : Gen.defaultconfSize = PATH_MAX := by decide
@[simp] theorem Gen_evHostnameSize_eq : Gen.evHostnameSize = 256 := by decide

end Mdsort.Model
