import Mdsort.Proofs.Qp

/-! Base64: finite facts about the alphabet and 6-bit arithmetic (checked by `decide`). -/

namespace Mdsort.Proofs
open Mdsort Model

/-! ### Alphabet -/

theorem b64idx_eq_b64val' : ∀ c : UInt8, Model.b64idx c = (Spec.b64val c).map UInt8.ofNat := by
  apply forall_u8; decide +kernel

theorem b64val_eq_b64idx : ∀ c : UInt8, Spec.b64val c = (Model.b64idx c).map UInt8.toNat := by
  apply forall_u8; decide +kernel

theorem b64idx_lt' : ∀ c : UInt8, (Model.b64idx c).all (fun v => decide (v.toNat < 64)) = true := by
  apply forall_u8; decide +kernel

theorem b64idx_lt {c v : UInt8} (h : Model.b64idx c = some v) : v.toNat < 64 := by
  have := b64idx_lt' c
  rw [h] at this
  simpa using this

/-! ### Byte identities (all pairs of 6-bit values) -/

theorem byte1_nat : ∀ a, a < 64 → ∀ b, b < 64 →
    (UInt8.ofNat a <<< 2) ||| (UInt8.ofNat b >>> 4) = Spec.byte (a * 4 + b / 16) := by decide +kernel
theorem byte2_nat : ∀ b, b < 64 → ∀ c, c < 64 →
    ((UInt8.ofNat b &&& 0x0f) <<< 4) ||| (UInt8.ofNat c >>> 2) = Spec.byte (b % 16 * 16 + c / 4) := by
  decide +kernel
theorem byte3_nat : ∀ c, c < 64 → ∀ d, d < 64 →
    ((UInt8.ofNat c &&& 0x03) <<< 6) ||| UInt8.ofNat d = Spec.byte (c % 4 * 64 + d) := by decide +kernel
theorem slop2_nat : ∀ b, b < 64 → (((UInt8.ofNat b &&& 0x0f) <<< 4) != 0) = decide (b % 16 ≠ 0) := by
  decide +kernel
theorem slop3_nat : ∀ c, c < 64 → (((UInt8.ofNat c &&& 0x03) <<< 6) != 0) = decide (c % 4 ≠ 0) := by
  decide +kernel

theorem byte1 {a b : UInt8} (ha : a.toNat < 64) (hb : b.toNat < 64) :
    (a <<< 2) ||| (b >>> 4) = Spec.byte (a.toNat * 4 + b.toNat / 16) := by
  simpa using byte1_nat _ ha _ hb
theorem byte2 {b c : UInt8} (hb : b.toNat < 64) (hc : c.toNat < 64) :
    ((b &&& 0x0f) <<< 4) ||| (c >>> 2) = Spec.byte (b.toNat % 16 * 16 + c.toNat / 4) := by
  simpa using byte2_nat _ hb _ hc
theorem byte3 {c d : UInt8} (hc : c.toNat < 64) (hd : d.toNat < 64) :
    ((c &&& 0x03) <<< 6) ||| d = Spec.byte (c.toNat % 4 * 64 + d.toNat) := by
  simpa using byte3_nat _ hc _ hd
theorem slop2 {b : UInt8} (hb : b.toNat < 64) :
    (((b &&& 0x0f) <<< 4) != 0) = decide (b.toNat % 16 ≠ 0) := by
  simpa using slop2_nat _ hb
theorem slop3 {c : UInt8} (hc : c.toNat < 64) :
    (((c &&& 0x03) <<< 6) != 0) = decide (c.toNat % 4 ≠ 0) := by
  simpa using slop3_nat _ hc

end Mdsort.Proofs
