import Mdsort.Proofs.WorldStdinMove

/-! `maildir_write` (label, add-header) with the spool watched. -/

namespace Mdsort.Proofs.World
open Mdsort Mdsort.Model

/-- Like `Inv`, but the handles in `X` (the descriptor of the message, which `message_set_file`
closes) may have changed. -/
structure InvX (S : Spool) (X : Handle → Prop) (w0 w : World) : Prop where
  objs : ∀ h, h < w0.handles.length → ¬ X h → w.obj h = w0.obj h
  len : w0.handles.length ≤ w.handles.length
  exist : ∀ q, (w.dir q).isSome = (w0.dir q).isSome
  root : w.dir S.sr = some []

theorem Inv.toX {S : Spool} {w0 w : World} (a : Inv S w0 w) (X : Handle → Prop) : InvX S X w0 w :=
  ⟨fun h hh _ => a.objs h hh, a.len, a.exist, a.root⟩

theorem InvX.dirPath {S : Spool} {X : Handle → Prop} {w0 w : World} (a : InvX S X w0 w) {h : Handle} {p : Bytes}
    (hp : w0.dirPath h = some p) (hx : ¬ X h) : w.dirPath h = some p := by
  rw [← hp]; exact dirPath_congr (a.objs h (lt_of_dirPath hp) hx)

theorem InvX.trans {S : Spool} {X : Handle → Prop} {w0 w1 w2 : World} (a : InvX S X w0 w1) (b : InvX S X w1 w2) :
    InvX S X w0 w2 :=
  ⟨fun h hh hx => (b.objs h (Nat.lt_of_lt_of_le hh a.len) hx).trans (a.objs h hh hx), Nat.le_trans a.len b.len,
   fun q => (b.exist q).trans (a.exist q), b.root⟩

/-- Closing a handle of `X`. -/
theorem InvX.close {S : Spool} {X : Handle → Prop} {w0 w : World} (a : InvX S X w0 w) (fd : Handle) (r : Res) (hx : X fd) :
    InvX S X w0 (stepWorld w (.close fd) r) := by
  have hd : (stepWorld w (.close fd) r).dirs = w.dirs := by rw [stepWorld_dirs]; exact core_dirs _ _ _ rfl
  refine ⟨?_, ?_, fun q => by rw [dir_of_dirs hd]; exact a.exist q, by rw [dir_of_dirs hd]; exact a.root⟩
  · intro h hh hxh
    have : h ≠ fd := fun e => hxh (e ▸ hx)
    rw [stepWorld_obj, core_close, obj_setObj]
    simp only [this, false_and, if_false]
    exact a.objs h hh hxh
  · rw [stepWorld_handles, core_close]; simpa using a.len

theorem openRd_ok_lt (ft : Option Fault) (w : World) (d : Handle) (n : Bytes) (v : Nat)
    (h : faultResult ft w (.openRd d n) = .ok v) : v < (stepWorld w (.openRd d n) (.ok v)).handles.length := by
  have hv := opener_result ft w _ v rfl h
  rcases faultResult_cases ft w (.openRd d n) (by intro _ e; cases e) (by intro _ _ e; cases e) with h' | ⟨e, h'⟩
  · rw [h'] at h
    simp only [predict] at h
    split at h
    · rename_i fid hx
      cases hp : w.dirPath d with
      | none => simp [hp] at hx
      | some p =>
        have hl : w.lookup p n = some fid := by simpa [hp] using hx
        rw [stepWorld_handles]
        simp [core, applyOk, hp, hl, hv, World.newHandle]
    · cases h
  · rw [h'] at h; cases h

theorem dirs_close (w : World) (fd : Handle) (r : Res) : (stepWorld w (.close fd) r).dirs = w.dirs := by
  rw [stepWorld_dirs]; exact core_dirs _ _ _ rfl

/-- `maildir_write`, with the spool `S` watched and (if `T`) the message tracked. -/
theorem spec_maildirWrite_sp (S : Spool) (T : Prop) (cs : List Bytes) (env : PEnv) (md : Maildir) (ms : MsgSt)
    {w : World} {d : Handle} {ns : List Bytes}
    (hd : md.dirH = some d) (hp : w.dirPath d = some md.path) (hdd : (w.dir md.path).isSome)
    (hsr : md.path ≠ S.sr) (hroot : w.dir S.sr = some []) (hns : NamesIn w S.sp ns)
    (hdfd : ms.fd ≠ some d)
    (htr : T → ∃ f0, GoodAt w cs md.path ms.name f0) (hm : (messageWrite ms.msg).1 ∈ cs) :
    wp (fun _ => True) (maildirWrite env md ms)
      (fun r w' => InvX S (fun h => ms.fd = some h) w w' ∧ r.1.msg = ms.msg ∧
        (∃ nm, (95 : UInt8) ∈ nm ∧ NamesIn w' S.sp (nm :: ns)) ∧
        (∀ f, r.1.fd = some f → ms.fd = some f ∨ (w.handles.length ≤ f ∧ f < w'.handles.length)) ∧
        (r.2 = false → (95 : UInt8) ∈ r.1.name ∧
          NamesIn w' S.sp (if md.path = S.sp then r.1.name :: ns.filter (· != ms.name) else ns) ∧
          (T → ∃ f, GoodAt w' cs md.path r.1.name f))) w := by
  have early : ∀ (m' : MsgSt) w', m'.msg = ms.msg → m'.fd = ms.fd → Inv S w w' → (∃ nm, (95 : UInt8) ∈ nm ∧ NamesIn w' S.sp (nm :: ns)) →
      (fun (r : MsgSt × Bool) w' => InvX S (fun h => ms.fd = some h) w w' ∧ r.1.msg = ms.msg ∧
        (∃ nm, (95 : UInt8) ∈ nm ∧ NamesIn w' S.sp (nm :: ns)) ∧
        (∀ f, r.1.fd = some f → ms.fd = some f ∨ (w.handles.length ≤ f ∧ f < w'.handles.length)) ∧
        (r.2 = false → (95 : UInt8) ∈ r.1.name ∧
          NamesIn w' S.sp (if md.path = S.sp then r.1.name :: ns.filter (· != ms.name) else ns) ∧
          (T → ∃ f, GoodAt w' cs md.path r.1.name f))) (m', true) w' :=
    fun m' w' h1 h2 i n => ⟨i.toX _, h1, n, fun f hf => .inl (h2 ▸ hf), by intro h; cases h⟩
  have plain : ∀ w', NamesIn w' S.sp ns → ∃ nm, (95 : UInt8) ∈ nm ∧ NamesIn w' S.sp (nm :: ns) :=
    fun w' n => ⟨[95], by simp, n.mono (fun x hx => List.mem_cons_of_mem _ hx)⟩
  unfold maildirWrite gennameStart maildirUnlink
  simp only [bind_eq, pure_eq, call_bind, hd]
  split
  · exact early ms w rfl rfl (Inv.refl hroot) (plain w hns)
  rename_i fl _
  refine wp_bind_mono (spec_genname_plain env md (some fl) gennameAttempts _) ?_
  rintro g w2 (⟨rfl, hsf2⟩ | ⟨fd, name, d', p', w3, rfl, hd', hsf3, hdp', hl', hfd', rfl, hname, -⟩)
  · exact early ms w2 rfl rfl (Inv.ofSameFs hsf2 hroot) (plain w2 (hns.congr (hsf2.dir _)))
  dsimp only
  have hdd' : d' = d := by rw [hd] at hd'; cases hd'; rfl
  subst hdd'
  have hp' : p' = md.path := by rw [hsf3.dirPath, hp] at hdp'; cases hdp'; rfl
  subst hp'
  have nf := newFile_of_openExcl hdp' hl'
  subst hfd'
  have inv3 : Inv S w w3 := Inv.ofSameFs hsf3 hroot
  have inv4 := inv3.step (.openExcl d' name) (.ok w3.handles.length) rfl (by intro h hh; cases hh)
    (dir_openExcl_other w3 d' name _ hdp' (Ne.symm hsr))
  have hns4 := (hns.congr (hsf3.dir _)).openExcl_ok hdp' hl' w3.handles.length
  have hdd4 : ((stepWorld w3 (.openExcl d' name) (.ok w3.handles.length)).dir md.path).isSome := by
    rw [inv4.exist]; exact hdd
  have hbound := nf.bound hdd4
  have htr4 : T → ∃ f0, GoodAt (stepWorld w3 (.openExcl d' name) (.ok w3.handles.length)) cs md.path ms.name f0 ∧
      f0 < w3.nextFid := by
    intro hT
    obtain ⟨f0, hg⟩ := htr hT
    have hg3 := hg.sameFs hsf3
    exact ⟨f0, hg3.step _ _ trivial trivial, hg3.2.1⟩
  have hfdge : w.handles.length ≤ w3.handles.length := by rw [hsf3.2.2.2]; exact Nat.le_refl _
  have hnfid : w3.nextFid < (stepWorld w3 (.openExcl d' name) (.ok w3.handles.length)).nextFid := nf.fidLt
  generalize hw4 : stepWorld w3 (.openExcl d' name) (.ok w3.handles.length) = w4 at inv4 hns4 hdd4 hbound htr4 nf hnfid ⊢
  -- all names the spool can have from here on
  have subAll : ∀ x, x ∈ (if md.path = S.sp then name :: ns else ns) → x ∈ name :: ns := by
    intro x hx
    split at hx
    · exact hx
    · exact List.mem_cons_of_mem _ hx
  -- message_write
  have hfresh := (fresh_messageWriteP w4.handles.length ms.msg w3.handles.length).wp (w := w4) (Nat.le_refl _)
  have htrk : wp (fun _ => True) (messageWriteP ms.msg w3.handles.length)
      (fun we w5 => T → ∃ f0 f, GoodAt w5 cs md.path ms.name f0 ∧ f0 < w3.nextFid ∧ w3.nextFid < w5.nextFid ∧
        w5.file w3.nextFid = some f ∧
        (we = false → f.data = (messageWrite ms.msg).1 ∧ f.durable = f.data)) w4 := by
    by_cases hT : T
    · obtain ⟨f0, hg, hlt⟩ := htr4 hT
      refine wp_mono (wp_true (spec_messageWriteP ms.msg w3.handles.length hg nf.obj (by omega) nf.file)) ?_
      rintro we w5 ⟨fr, f, hf, hc⟩ _
      exact ⟨f0, f, fr.good, hlt, Nat.lt_of_lt_of_le hnfid fr.nextFid, hf, fun h => by simpa using hc h⟩
    · exact wp_mono wp_triv (fun _ _ _ h => absurd h hT)
  refine wp_bind_mono (wp_and hfresh htrk) ?_
  rintro we w5 ⟨⟨-, hdirs5, hobjs5, hlen5⟩, htr5⟩
  have inv5 : Inv S w w5 := inv4.ofFresh hdirs5 hobjs5 hlen5
  have hns5 := hns4.congr (dir_of_dirs hdirs5 _)
  -- close fd
  refine wp_call_any fun rc => ⟨trivial, ?_⟩
  have inv6 := inv5.step_plain (.close w3.handles.length) rc rfl (by intro h hh; cases hh; exact hfdge)
  have hdirs6 := dirs_close w5 w3.handles.length rc
  have hns6 := hns5.congr (dir_of_dirs hdirs6 _)
  have hp6 : (stepWorld w5 (.close w3.handles.length) rc).dirPath d' = some md.path := inv6.dirPath hp
  have htr6 : T → ∃ f0 f, GoodAt (stepWorld w5 (.close w3.handles.length) rc) cs md.path ms.name f0 ∧ f0 < w3.nextFid ∧
      w3.nextFid < (stepWorld w5 (.close w3.handles.length) rc).nextFid ∧
      (stepWorld w5 (.close w3.handles.length) rc).file w3.nextFid = some f ∧
      (we = false → f.data = (messageWrite ms.msg).1 ∧ f.durable = f.data) := by
    intro hT
    obtain ⟨f0, f, hg, h1, h2, h3, h4⟩ := htr5 hT
    refine ⟨f0, f, hg.step _ _ trivial trivial, h1, ?_, ?_, h4⟩
    · rw [stepWorld_nextFid]; exact Nat.lt_of_lt_of_le h2 (core_nextFid _ _ _)
    · rw [file_close]; exact h3
  have hl6 : (stepWorld w5 (.close w3.handles.length) rc).lookup md.path name = some w3.nextFid := by
    rw [lookup_of_dirs hdirs6, lookup_of_dirs hdirs5]; exact hbound
  generalize stepWorld w5 (.close w3.handles.length) rc = w6 at inv6 hns6 hp6 htr6 hl6 ⊢
  -- the rollback
  have rollback : ∀ w7, Inv S w w7 → NamesIn w7 S.sp (if md.path = S.sp then name :: ns else ns) →
      w7.dirPath d' = some md.path →
      wp (fun _ => True) ((Prog.call (Call.unlinkat d' name) fun r => Prog.ret !isOk r).bind fun _ => Prog.ret (ms, true))
        (fun r w' => InvX S (fun h => ms.fd = some h) w w' ∧ r.1.msg = ms.msg ∧
          (∃ nm, (95 : UInt8) ∈ nm ∧ NamesIn w' S.sp (nm :: ns)) ∧
          (∀ f, r.1.fd = some f → ms.fd = some f ∨ (w.handles.length ≤ f ∧ f < w'.handles.length)) ∧
          (r.2 = false → (95 : UInt8) ∈ r.1.name ∧
            NamesIn w' S.sp (if md.path = S.sp then r.1.name :: ns.filter (· != ms.name) else ns) ∧
            (T → ∃ f, GoodAt w' cs md.path r.1.name f))) w7 := by
    intro w7 i7 n7 p7
    simp only [call_bind', ret_bind]
    refine wp_call_any fun r => ⟨trivial, ?_⟩
    have i8 := i7.step (.unlinkat d' name) r rfl (by intro h hh; cases hh) (dir_unlinkat_other w7 d' name r p7 (Ne.symm hsr))
    exact early ms _ rfl rfl i8 ⟨name, hname, (n7.unlinkat d' name r).mono subAll⟩
  cases we with
  | true =>
    simp only [if_true, ret_bind]
    exact rollback w6 inv6 hns6 hp6
  | false =>
    simp only [Bool.false_eq_true, if_false, call_bind']
    intro ft
    refine ⟨trivial, ?_⟩
    rcases unlinkat_results ft w6 d' ms.name with ⟨e, he⟩ | ⟨he, p, fidY, hpY, hlY⟩
    · rw [he]
      have hsf7 := sameFsS_err w6 (.unlinkat d' ms.name) e (by intro _ h; cases h) (by intro _ h; cases h) (by intro _ h; cases h)
      simp only [isOk, Bool.not_false, ret_bind, if_true]
      exact rollback _ (inv6.trans (Inv.ofSameFs hsf7 inv6.root)) (hns6.congr (hsf7.dir _)) (by rw [hsf7.dirPath]; exact hp6)
    · rw [he]
      have hpp : p = md.path := by rw [hp6] at hpY; cases hpY; rfl
      subst hpp
      simp only [isOk, Bool.not_true, ret_bind, Bool.false_eq_true, if_false]
      have inv7 := inv6.step (.unlinkat d' ms.name) (.ok 0) rfl (by intro h hh; cases hh)
        (dir_unlinkat_other w6 d' ms.name (.ok 0) hp6 (Ne.symm hsr))
      have hns7 := hns6.unlinkat_ok hp6 hlY 0
      have hc7 := core_unlinkat_okS hp6 hlY 0
      have hp7 : (stepWorld w6 (.unlinkat d' ms.name) (.ok 0)).dirPath d' = some md.path := inv7.dirPath hp
      have htr7 : T → ∃ f, GoodAt (stepWorld w6 (.unlinkat d' ms.name) (.ok 0)) cs md.path name f := by
        intro hT
        obtain ⟨f0, f, hg, h1, h2, h3, h4⟩ := htr6 hT
        obtain ⟨hdat, hdur⟩ := h4 rfl
        refine ⟨w3.nextFid, ?_, ?_, f, ?_, ?_, ?_⟩
        · rw [stepWorld_lookup, hc7, lookup_unbind]
          have hne : ¬ name = ms.name := by
            intro h
            rw [h, hg.1] at hl6
            cases hl6
            omega
          simp [hne, hl6]
        · rw [stepWorld_nextFid]; exact Nat.lt_of_lt_of_le h2 (core_nextFid _ _ _)
        · rw [stepWorld_file, hc7, file_unbind]; exact h3
        · rw [hdat]; exact hm
        · rw [hdur, hdat]; exact hm
      have hnsAll : NamesIn (stepWorld w6 (.unlinkat d' ms.name) (.ok 0)) S.sp (name :: ns) :=
        hns7.mono (fun x hx => subAll x (mem_filter_sub hx))
      have hnsOk : NamesIn (stepWorld w6 (.unlinkat d' ms.name) (.ok 0)) S.sp
          (if md.path = S.sp then name :: ns.filter (· != ms.name) else ns) := by
        refine hns7.mono ?_
        intro x hx
        by_cases hsp : md.path = S.sp
        · simp only [hsp, if_true] at hx ⊢
          obtain ⟨h1, h2⟩ := List.mem_filter.1 hx
          rcases List.mem_cons.1 h1 with h | h
          · rw [h]; exact List.mem_cons_self ..
          · exact List.mem_cons_of_mem _ (List.mem_filter.2 ⟨h, h2⟩)
        · simpa [hsp] using hx
      generalize stepWorld w6 (.unlinkat d' ms.name) (.ok 0) = w7 at inv7 hp7 htr7 hnsAll hnsOk ⊢
      -- open the new file for reading
      intro ft2
      refine ⟨trivial, ?_⟩
      have inv8 := inv7.step_plain (.openRd d' name) (faultResult ft2 w7 (.openRd d' name)) rfl (by intro h hh; cases hh)
      have hdirs8 : (stepWorld w7 (.openRd d' name) (faultResult ft2 w7 (.openRd d' name))).dirs = w7.dirs := by
        rw [stepWorld_dirs]; exact core_dirs _ _ _ rfl
      have hrd : ∀ v, faultResult ft2 w7 (.openRd d' name) = .ok v → w.handles.length ≤ v := by
        intro v hv
        rw [opener_result ft2 w7 _ v rfl hv]
        exact inv7.len
      have hrdlt : ∀ v, faultResult ft2 w7 (.openRd d' name) = .ok v →
          v < (stepWorld w7 (.openRd d' name) (faultResult ft2 w7 (.openRd d' name))).handles.length := by
        intro v hv
        rw [hv]
        exact openRd_ok_lt ft2 w7 d' name v hv
      have htr8 : T → ∃ f, GoodAt (stepWorld w7 (.openRd d' name) (faultResult ft2 w7 (.openRd d' name))) cs md.path name f := by
        intro hT
        obtain ⟨f, hf⟩ := htr7 hT
        exact ⟨f, hf.step _ _ trivial trivial⟩
      generalize hr8 : faultResult ft2 w7 (.openRd d' name) = r8 at inv8 hdirs8 hrd hrdlt htr8 ⊢
      generalize stepWorld w7 (.openRd d' name) r8 = w8 at inv8 hdirs8 hrdlt htr8 ⊢
      have hnsAll8 := hnsAll.congr (dir_of_dirs hdirs8 S.sp)
      have hnsOk8 := hnsOk.congr (dir_of_dirs hdirs8 S.sp)
      cases r8 with
      | ok rdfd =>
        have hrdge := hrd rdfd rfl
        dsimp only
        unfold messageSetFile
        dsimp only
        split
        · -- pathjoin failed
          try simp only [ret_bind, if_true]
          refine wp_call_any fun rc2 => ⟨trivial, ?_⟩
          have inv9 := inv8.step_plain (.close rdfd) rc2 rfl (by intro h hh; cases hh; exact hrdge)
          exact ⟨inv9.toX _, rfl, ⟨name, hname, hnsAll8.congr (dir_of_dirs (dirs_close _ _ _) _)⟩,
            fun f hf => .inl hf, by intro h; cases h⟩
        · split
          · try simp only [ret_bind, if_true]
            refine wp_call_any fun rc2 => ⟨trivial, ?_⟩
            have inv9 := inv8.step_plain (.close rdfd) rc2 rfl (by intro h hh; cases hh; exact hrdge)
            exact ⟨inv9.toX _, rfl, ⟨name, hname, hnsAll8.congr (dir_of_dirs (dirs_close _ _ _) _)⟩,
              fun f hf => .inl hf, by intro h; cases h⟩
          · rename_i n hn
            have hnn : n = name := by
              unfold strlcpyFits at hn
              split at hn
              · cases hn
              · cases hn; rfl
            subst hnn
            simp only [bind_eq, pure_eq, call_bind]
            split
            · rename_i old hold
              simp only [call_bind', ret_bind, Bool.false_eq_true, if_false]
              refine wp_call_any fun rc2 => ⟨trivial, ?_⟩
              have inv9 := (inv8.toX (fun h => ms.fd = some h)).close old rc2 hold
              have hd9 := dirs_close w8 old rc2
              refine ⟨inv9, rfl, ⟨n, hname, hnsAll8.congr (dir_of_dirs hd9 _)⟩, ?_, fun _ => ⟨hname, hnsOk8.congr (dir_of_dirs hd9 _), ?_⟩⟩
              · intro f hf
                simp only [Option.some.injEq] at hf
                subst hf
                refine .inr ⟨hrdge, ?_⟩
                rw [stepWorld_handles, core_close]
                simpa using hrdlt rdfd rfl
              · intro hT
                obtain ⟨f, hf⟩ := htr8 hT
                exact ⟨f, hf.step _ _ trivial trivial⟩
            · simp only [ret_bind, Bool.false_eq_true, if_false]
              refine ⟨inv8.toX _, rfl, ⟨n, hname, hnsAll8⟩, ?_, fun _ => ⟨hname, hnsOk8, htr8⟩⟩
              intro f hf
              simp only [Option.some.injEq] at hf
              subst hf
              exact .inr ⟨hrdge, hrdlt rdfd rfl⟩
      | err e =>
        exact ⟨inv8.toX _, rfl, ⟨name, hname, hnsAll8⟩, fun f hf => .inl hf, by intro h; cases h⟩
      | name x =>
        exact ⟨inv8.toX _, rfl, ⟨name, hname, hnsAll8⟩, fun f hf => .inl hf, by intro h; cases h⟩
      | eof =>
        exact ⟨inv8.toX _, rfl, ⟨name, hname, hnsAll8⟩, fun f hf => .inl hf, by intro h; cases h⟩

end Mdsort.Proofs.World
