import Mdsort.Model.Conf
import Mdsort.Proofs.Lex

/-!
# Reasoning about the parser monad of Model/Conf.lean

`wp p Q E F s`: running `p` from `s` ends in `ok a s'` with `Q a s'`, or reports a diagnostic in a
state satisfying `E`, or runs out of recursion budget and then `F` holds (`F := False`: it does not).
-/

namespace Mdsort.Proofs.Conf
open Mdsort Mdsort.Model

def wp {α : Type} (p : PM α) (Q : α → ParseSt → Prop) (E : ParseSt → Prop) (F : Prop) (s : ParseSt) : Prop :=
  match p s with
  | .ok a s' => Q a s'
  | .err _ s' => E s'
  | .fuel _ => F

variable {α β : Type} {Q : α → ParseSt → Prop} {E : ParseSt → Prop} {F : Prop} {s : ParseSt}

theorem wp_pure (a : α) : wp (pure a : PM α) Q E F s = Q a s := rfl

theorem wp_bind (m : PM α) (f : α → PM β) (R : β → ParseSt → Prop) :
    wp (m >>= f) R E F s = wp m (fun a s' => wp (f a) R E F s') E F s := by
  show wp (PM.bind m f) R E F s = _
  unfold wp PM.bind
  cases m s <;> rfl

theorem wp_failTok : wp (failTok : PM α) Q E F s = E s := rfl
theorem wp_failAt (l : Nat) : wp (failAt l : PM α) Q E F s = E s := rfl
theorem wp_outOfFuel : wp (outOfFuel : PM α) Q E F s = F := rfl
theorem wp_curLine (cx : PCtx) {Q : Nat → ParseSt → Prop} : wp (curLine cx) Q E F s = Q (lineOf cx.nl s.rest) s := rfl
theorem wp_getMacros {Q : List Macro → ParseSt → Prop} : wp getMacros Q E F s = Q s.macros s := rfl
theorem wp_setMacros (ms : List Macro) {Q : Unit → ParseSt → Prop} :
    wp (setMacros ms) Q E F s = Q () { s with macros := ms } := rfl

theorem wp_ite (c : Prop) [Decidable c] (a b : PM α) :
    wp (if c then a else b) Q E F s = if c then wp a Q E F s else wp b Q E F s := by
  split <;> rfl

theorem wp_mono {p : PM α} {Q Q' : α → ParseSt → Prop} {E E' : ParseSt → Prop}
    (h : wp p Q E F s) (hq : ∀ a s', Q a s' → Q' a s') (he : ∀ s', E s' → E' s') : wp p Q' E' F s := by
  unfold wp at *
  cases hp : p s <;> simp only [hp] at h ⊢
  · exact hq _ _ h
  · exact he _ h
  · exact h

/-! ## The measures -/

/-- Tokens still to be shifted: bounded by the unread bytes, plus the lookahead if it is a real token. -/
def mu (s : ParseSt) : Nat :=
  s.rest.length + (match s.la with | some .eof => 0 | some _ => 1 | none => 0)

/-- Potential bounding the number of lexer calls. -/
def phi (s : ParseSt) : Nat :=
  s.nlex + s.rest.length + (match s.la with | some .eof => 0 | _ => 1)

/-- The invariant carried through the parser: at most `n` tokens can still be shifted, potential at most `B`. -/
def Inv (n B : Nat) (s : ParseSt) : Prop := mu s ≤ n ∧ phi s ≤ B

theorem Inv.mono {n n' B : Nat} {s : ParseSt} (h : Inv n B s) (hn : n ≤ n') : Inv n' B s :=
  ⟨Nat.le_trans h.1 hn, h.2⟩

/-- States that only differ in the macro table have the same measures. -/
theorem mu_macros (s : ParseSt) (ms : List Macro) : mu { s with macros := ms } = mu s := rfl
theorem phi_macros (s : ParseSt) (ms : List Macro) : phi { s with macros := ms } = phi s := rfl
theorem Inv_macros {n B : Nat} (s : ParseSt) (ms : List Macro) : Inv n B { s with macros := ms } = Inv n B s := rfl

theorem ofToken_eof (t : Token) : Tk.ofToken t = .eof ↔ t = .eof := by
  cases t with
  | eof => simp [Tk.ofToken]
  | keyword k => simp only [Tk.ofToken]; cases Kw.ofName k <;> simp
  | char c =>
    simp only [Tk.ofToken]
    constructor
    · intro h
      repeat' (split at h)
      all_goals cases h
    · intro h; cases h
  | _ => simp [Tk.ofToken]

/-- `peek`: afterwards the lookahead is the returned token and the invariant still holds (also when
the lexer reported a diagnostic). -/
theorem wp_peek (cx : PCtx) (pf sf : Bool) {Q : Tk → ParseSt → Prop} {n B : Nat}
    (hs : Inv n B s) (hE : ∀ s', phi s' ≤ B → E s')
    (hQ : ∀ t s', Inv n B s' → s'.la = some t → s'.macros = s.macros → Q t s') :
    wp (peek cx pf sf) Q E F s := by
  unfold wp peek
  cases hla : s.la with
  | some t => simp only; exact hQ t s hs hla rfl
  | none =>
    simp only
    have hp := lex_progress pf sf s.afterMacro s.rest
    simp only at hp
    generalize lex1 pf sf s.afterMacro s.rest = r at hp ⊢
    obtain ⟨⟨pre, hpre⟩, hlt⟩ := hp
    have hlen : r.rest.length ≤ s.rest.length := by
      have := congrArg List.length hpre
      simp only [List.length_append] at this
      omega
    have hinv : Inv n B { s with rest := r.rest, la := some (Tk.ofToken r.tok), tokLine := tokLineOf cx.nl s.rest, afterMacro := (match r.tok with | .macro _ => true | _ => false), nlex := s.nlex + 1 } := by
      obtain ⟨h1, h2⟩ := hs
      simp only [mu, phi, hla] at h1 h2
      by_cases he : r.tok = .eof
      · have : Tk.ofToken r.tok = .eof := (ofToken_eof _).2 he
        refine ⟨?_, ?_⟩
        · simp only [mu, this]; omega
        · simp only [phi, this]; omega
      · have hne : Tk.ofToken r.tok ≠ .eof := fun h => he ((ofToken_eof _).1 h)
        have hl := hlt he
        generalize Tk.ofToken r.tok = tk at hne
        refine ⟨?_, ?_⟩
        · simp only [mu]
          cases tk <;> first | exact absurd rfl hne | (show r.rest.length + 1 ≤ n; omega)
        · simp only [phi]
          cases tk <;> first | exact absurd rfl hne | (show s.nlex + 1 + r.rest.length + 1 ≤ B; omega)
    by_cases herr : r.errors > 0
    · rw [if_pos herr]; exact hE _ hinv.2
    · rw [if_neg herr]; exact hQ _ _ hinv rfl rfl

/-- `shift` of a real token: one token fewer to go. -/
theorem wp_shift {Q : Unit → ParseSt → Prop} {n B : Nat} {t : Tk}
    (hs : Inv n B s) (hla : s.la = some t) (ht : t ≠ .eof)
    (hQ : ∀ s', Inv (n - 1) B s' → 0 < n → s'.la = none → s'.macros = s.macros → Q () s') :
    wp shift Q E F s := by
  have hsh : shift s = PRes.ok () { s with la := none } := by
    unfold shift
    simp only [hla]
    cases t <;> first | rfl | exact absurd rfl ht
  unfold wp
  rw [hsh]
  show Q () { s with la := none }
  obtain ⟨h1, h2⟩ := hs
  unfold mu at h1
  unfold phi at h2
  rw [hla] at h1 h2
  have h1' : s.rest.length + 1 ≤ n := by cases t <;> first | exact h1 | exact absurd rfl ht
  have h2' : s.nlex + s.rest.length + 1 ≤ B := by cases t <;> first | exact h2 | exact absurd rfl ht
  refine hQ _ ⟨?_, ?_⟩ (by omega) rfl rfl
  · show s.rest.length + 0 ≤ n - 1; omega
  · show s.nlex + s.rest.length + 1 ≤ B; omega

theorem wp_expandOne (cx : PCtx) (action : Bool) (str : Bytes) {Q : Bytes → ParseSt → Prop} {n B : Nat}
    (hs : Inv n B s) (hE : ∀ s', phi s' ≤ B → E s')
    (hQ : ∀ v ms, Inv n B { s with macros := ms } → Q v { s with macros := ms }) :
    wp (expandOne cx action str) Q E F s := by
  unfold wp expandOne
  cases expandStr cx.pathMax cx.home action s.macros str with
  | none => exact hE _ hs.2
  | some r => exact hQ r.1 r.2 hs

theorem wp_expandAll (cx : PCtx) (action : Bool) (strs : List Bytes) {Q : List Bytes → ParseSt → Prop} {n B : Nat}
    (hs : Inv n B s) (hE : ∀ s', phi s' ≤ B → E s')
    (hQ : ∀ v ms, Inv n B { s with macros := ms } → Q v { s with macros := ms }) :
    wp (expandAll cx action strs) Q E F s := by
  unfold wp expandAll
  cases expandStrs cx.pathMax cx.home action s.macros strs with
  | none => exact hE _ hs.2
  | some r => exact hQ r.1 r.2 hs

theorem wp_expandMac (action : Bool) (str : Bytes) {Q : Bytes → ParseSt → Prop} {n B : Nat}
    (hs : Inv n B s) (hE : ∀ s', phi s' ≤ B → E s')
    (hQ : ∀ v ms, Inv n B { s with macros := ms } → Q v { s with macros := ms }) :
    wp (expandMac action str) Q E F s := by
  unfold wp expandMac
  cases expandMacros action (str.length + 1) str s.macros [] with
  | none => exact hE _ hs.2
  | some r => exact hQ r.1 r.2 hs

/-- The action flags `CTree.countActions` uses are those `expr_alloc` sets (regenerated table). -/
theorem action_flags_table :
    (Gen.exprTable.filter (fun i => i.action)).map (fun i => i.name) =
      ["move", "flag", "flags", "discard", "break", "label", "pass", "reject", "exec", "attachment_block", "add_header"] := by
  decide +kernel

end Mdsort.Proofs.Conf
