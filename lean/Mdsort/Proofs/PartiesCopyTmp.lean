import Mdsort.Proofs.PartiesCopyWrite

/-! Preservation of `CInv` by one step: `WrOK` for every party (all cases together) and `TmpOK`. -/

namespace Mdsort.Proofs.Parties
set_option linter.unusedSimpArgs false
set_option linter.unusedVariables false
open Mdsort Mdsort.Model
open Mdsort.Proofs.World
open Mdsort.Proofs.Own

variable {M : Msg → Prop} {s0 s : Shared} {a : Nat} {ps : PState} {c : Call} {k : Res → Prog Bool}

theorem acts_cases {c : Call} {h : Handle} (hs : actsOn c = some h) :
    c = .fsync h ∨ c = .readdir h ∨ c = .rewinddir h ∨ c = .closedir h ∨ c = .read h ∨ (∃ d, c = .write h d) ∨ c = .close h ∨
      c = .fdopen h ∨ (∃ d, c = .fprintf h d) ∨ c = .fflush h ∨ c = .fclose h := by
  by_cases hf : ∃ h', c = .fsync h'
  · obtain ⟨h', rfl⟩ := hf
    simp [actsOn] at hs
    subst hs
    exact .inl rfl
  · have : Call.subject c = some h := by
      cases c <;> first | exact hs | exact absurd ⟨_, rfl⟩ hf
    exact .inr (subject_cases this)

theorem StepCtx.flight_ne (x : StepCtx M s0 s a ps c k) {y : Bytes × Bytes} (hy : y ∈ ps.inFlight) : inFlightH ps.trace ≠ [] := by
  intro e
  rw [inFlight_of_nil e] at hy
  cases hy

/-- A temporary descriptor does not refer to the file of an entry. -/
theorem StepCtx.tmp_other (x : StepCtx M s0 s a ps c k) {h : Handle} {p n : Bytes} {g : Nat} (hl : s.fs.lookup p n = some g)
    (hm : h ∈ (locOf ps.trace).tmp ∨ h ∈ (locOf ps.trace).tst) : objFid ((s.view ps).obj h) ≠ some g := by
  rcases hm with hm | hm
  · obtain ⟨g', off, wr, ho, _, _, hunb⟩ := (x.inv.tmpOk a ps x.hp).1 h hm
    rw [view_obj, ho]
    simp only [objFid, ne_eq, Option.some.injEq]
    rintro rfl
    exact hunb p n hl
  · obtain ⟨g', buf, ho, _, _, hunb⟩ := (x.inv.tmpOk a ps x.hp).2 h hm
    rw [view_obj, ho]
    simp only [objFid, ne_eq, Option.some.injEq]
    rintro rfl
    exact hunb p n hl

/-- The file of the name the issuing party keeps in flight: `WrOK` after the step. -/
theorem StepCtx.wr_own (x : StepCtx M s0 s a ps c k) {y : Bytes × Bytes} {g : Nat} (hy : y ∈ ps.inFlight)
    (hg : s.fs.lookup y.1 y.2 = some g)
    (hncr : ¬ (isCreate c = true ∧ isOk (predict (s.view ps) c) = true)) :
    WrOK (stepLocal s ps c k) g (stepCall s a ps c k).fs := by
  have hW := x.inv.writing a ps y g x.hp hy hg
  have hlt := x.inv.boundLt y.1 y.2 g hg
  have hne := x.flight_ne hy
  have hcr' : isCreate c = false ∨ isOk (predict (s.view ps) c) = false := by
    cases h1 : isCreate c with
    | false => exact .inl rfl
    | true =>
      cases h2 : isOk (predict (s.view ps) c) with
      | false => exact .inr rfl
      | true => exact absurd ⟨h1, h2⟩ hncr
  by_cases hA : ∃ h0, actsOn c = some h0 ∧ objFid ((s.view ps).obj h0) = some g ∧ c ≠ .readdir h0 ∧ c ≠ .rewinddir h0
  · obtain ⟨h0, ha, hg0, hn1, hn2⟩ := hA
    have hnot : ¬ (h0 ∈ (locOf ps.trace).tmp ∨ h0 ∈ (locOf ps.trace).tst) := fun hm => x.tmp_other hg hm hg0
    rcases x.proto with hI | ⟨hcl, _⟩
    · rcases acts_cases ha with rfl | rfl | rfl | rfl | rfl | ⟨d, rfl⟩ | rfl | rfl | ⟨d, rfl⟩ | rfl | rfl
      · -- fsync
        rcases hI with ⟨_, hst⟩ | hm
        · exact x.wr_fsync hW hst
        · exact absurd (.inr hm) hnot
      · exact absurd rfl hn1
      · exact absurd rfl hn2
      · exact absurd hI hne
      · exact hI.elim
      · exact absurd (.inl hI) hnot
      · -- close
        rcases hI with h0' | hfd
        · exact absurd h0' hne
        · exact x.wr_close hW hfd
      · -- fdopen
        rcases hI with ⟨_, hdup, hst⟩ | hm
        · exact x.wr_fdopen hW hdup hst
        · exact absurd (.inl hm) hnot
      · rcases hI with ⟨_, hst⟩ | hm
        · exact x.wr_fprintf hW hst
        · exact absurd (.inr hm) hnot
      · rcases hI with ⟨_, hst⟩ | hm
        · exact x.wr_fflush hW hst
        · exact absurd (.inr hm) hnot
      · rcases hI with ⟨_, hst⟩ | hm
        · exact x.wr_fclose hW hst
        · exact absurd (.inr hm) hnot
    · cases c <;> first | exact hcl.elim | (simp [actsOn, Call.subject] at ha)
  · have hact : ∀ h0, actsOn c = some h0 → objFid ((s.view ps).obj h0) ≠ some g ∨ c = .readdir h0 ∨ c = .rewinddir h0 := by
      intro h0 ha
      by_cases h1 : objFid ((s.view ps).obj h0) = some g
      · by_cases h2 : c = .readdir h0
        · exact .inr (.inl h2)
        · by_cases h3 : c = .rewinddir h0
          · exact .inr (.inr h3)
          · exact absurd ⟨h0, ha, h1, h2, h3⟩ hA
      · exact .inl h1
    by_cases hD : ∃ fd, c = .dupfd fd ∧ (locOf ps.trace).fd = some fd
    · obtain ⟨fd, rfl, hfd⟩ := hD
      exact x.wr_dupfd hW hfd
    · exact x.wr_passive hW hlt hact hcr' (fun fd e hfd => hD ⟨fd, e, hfd⟩)

theorem StepCtx.writing' (x : StepCtx M s0 s a ps c k) (i : Nat) (q : PState) (y : Bytes × Bytes) (g : Nat)
    (hq : (stepCall s a ps c k).parties[i]? = some q) (hy : y ∈ q.inFlight)
    (hl : (stepCall s a ps c k).fs.lookup y.1 y.2 = some g) : WrOK q g (stepCall s a ps c k).fs := by
  rw [x.hpar] at hq
  by_cases hi : i = a
  · simp only [hi, if_true, Option.some.injEq] at hq
    subst hq
    by_cases hcr : isCreate c = true ∧ isOk (predict (s.view ps) c) = true
    · obtain ⟨z, hz, hfl, _, hl'⟩ := x.flight_created hcr.1 hcr.2
      rw [hfl] at hy
      rw [List.mem_singleton.1 hy, hl'] at hl
      cases hl
      exact x.wr_created hcr.1 hcr.2
    · have hy0 : y ∈ ps.inFlight := by
        have := hy
        rw [x.flightAfter, if_neg hcr] at this
        split at this
        · cases this
        · exact this
      rw [x.own_flight_lookup hy0 hy hcr] at hl
      exact x.wr_own hy0 hl hcr
  · simp only [hi, if_false] at hq
    rw [x.foreign_lookup i q y hi hq hy] at hl
    obtain ⟨f, hf, h1, h2, h3, h4⟩ := x.inv.writing i q y g hq hy hl
    have hnf : (y.1, y.2) ∉ ps.inFlight := fun h => x.inv.disjoint i a q ps y hi hq x.hp hy h
    exact ⟨f, (x.file_same hl hnf).trans hf, h1, h2, h3, h4⟩

/-! ## temporary files -/

theorem mem_tmp_upd {l : Loc} {c : Call} {r : Res} {h : Handle} (hm : h ∈ (locUpd l (c, r)).tmp)
    (hr : ∀ h', c = .fdopen h' → ∃ v, r = .ok v) :
    (h ∈ l.tmp ∧ keepsHandle c h) ∨ (∃ t, c = .mkostemp t ∧ r = .ok h) ∨ (∃ fd, c = .dupfd fd ∧ r = .ok h ∧ fd ∈ l.tmp) := by
  cases c <;> first
    | exact .inl ⟨hm, by simp [keepsHandle]⟩
    | (cases r <;> exact .inl ⟨hm, by simp [keepsHandle]⟩)
    | skip
  · -- closedir
    rename_i h'
    have : h ∈ l.tmp ∧ h ≠ h' := by simpa [locUpd, Loc.drop] using hm
    exact .inl ⟨this.1, by simp [keepsHandle]; exact fun e => this.2 e.symm⟩
  · -- close
    rename_i h'
    have : h ∈ l.tmp ∧ h ≠ h' := by simpa [locUpd, Loc.drop] using hm
    exact .inl ⟨this.1, by simp [keepsHandle]; exact fun e => this.2 e.symm⟩
  · -- dupfd
    rename_i fd
    cases r with
    | ok v =>
      simp only [locUpd] at hm
      split at hm
      · rename_i hc
        rcases List.mem_cons.1 hm with rfl | hm
        · exact .inr (.inr ⟨fd, rfl, rfl, by simpa using hc⟩)
        · exact .inl ⟨hm, by simp [keepsHandle]⟩
      · exact .inl ⟨hm, by simp [keepsHandle]⟩
    | _ => exact .inl ⟨hm, by simp [keepsHandle]⟩
  · -- fdopen
    rename_i h'
    cases r with
    | ok v =>
      have : h ∈ l.tmp ∧ h ≠ h' := by simpa [locUpd] using hm
      exact .inl ⟨this.1, by simp [keepsHandle]; exact fun e => this.2 e.symm⟩
    | _ => obtain ⟨v, hv⟩ := hr h' rfl; cases hv
  · -- fprintf
    rename_i h' d
    cases r with
    | ok v =>
      simp only [locUpd] at hm
      split at hm <;> exact .inl ⟨hm, by simp [keepsHandle]⟩
    | _ => exact .inl ⟨hm, by simp [keepsHandle]⟩
  · -- fclose
    rename_i h'
    have : h ∈ l.tmp ∧ h ≠ h' := by simpa [locUpd, Loc.drop] using hm
    exact .inl ⟨this.1, by simp [keepsHandle]; exact fun e => this.2 e.symm⟩
  · -- mkostemp
    rename_i t
    cases r with
    | ok v =>
      simp only [locUpd] at hm
      rcases List.mem_cons.1 hm with rfl | hm
      · exact .inr (.inl ⟨t, rfl, rfl⟩)
      · exact .inl ⟨hm, by simp [keepsHandle]⟩
    | _ => exact .inl ⟨hm, by simp [keepsHandle]⟩

theorem mem_tst_upd {l : Loc} {c : Call} {r : Res} {h : Handle} (hm : h ∈ (locUpd l (c, r)).tst) :
    (h ∈ l.tst ∧ c ≠ .close h ∧ c ≠ .closedir h ∧ c ≠ .fclose h) ∨ (c = .fdopen h ∧ h ∈ l.tmp ∧ ∃ v, r = .ok v) := by
  cases c <;> first
    | exact .inl ⟨hm, by simp⟩
    | (cases r <;> exact .inl ⟨hm, by simp⟩)
    | skip
  · rename_i h'
    have : h ∈ l.tst ∧ h ≠ h' := by simpa [locUpd, Loc.drop] using hm
    exact .inl ⟨this.1, by simp; exact fun e => this.2 e.symm⟩
  · rename_i h'
    have : h ∈ l.tst ∧ h ≠ h' := by simpa [locUpd, Loc.drop] using hm
    exact .inl ⟨this.1, by simp; exact fun e => this.2 e.symm⟩
  · -- fdopen
    rename_i h'
    cases r with
    | ok v =>
      simp only [locUpd] at hm
      split at hm
      · rename_i hc
        rcases List.mem_cons.1 hm with rfl | hm
        · exact .inr ⟨rfl, by simpa using hc, v, rfl⟩
        · exact .inl ⟨hm, by simp⟩
      · exact .inl ⟨hm, by simp⟩
    | _ => exact .inl ⟨hm, by simp⟩
  · -- fprintf
    rename_i h' d
    cases r with
    | ok v =>
      simp only [locUpd] at hm
      split at hm <;> exact .inl ⟨hm, by simp⟩
    | _ => exact .inl ⟨hm, by simp⟩
  · rename_i h'
    have : h ∈ l.tst ∧ h ≠ h' := by simpa [locUpd, Loc.drop] using hm
    exact .inl ⟨this.1, by simp; exact fun e => this.2 e.symm⟩

theorem core_fdopen_stream (w : World) (h : Handle) (g : Nat) (buf : Bytes) (r : Res) (ho : w.obj h = .stream g buf) :
    core w (.fdopen h) r = w := by
  cases r <;> simp [core, applyOk, ho]

theorem StepCtx.tmpOk' (x : StepCtx M s0 s a ps c k) (i : Nat) (q : PState)
    (hq : (stepCall s a ps c k).parties[i]? = some q) : TmpOK s0 (stepCall s a ps c k) q := by
  rw [x.hpar] at hq
  by_cases hi : i = a
  · simp only [hi, if_true, Option.some.injEq] at hq
    subst hq
    have hr : ∀ h', c = .fdopen h' → ∃ v, predict (s.view ps) c = .ok v := by
      intro h' e; subst e; exact ⟨0, rfl⟩
    constructor
    · intro h hm
      rw [stepLocal_loc] at hm
      rcases mem_tmp_upd hm hr with ⟨hm0, hk⟩ | ⟨t, rfl, hres⟩ | ⟨fd, rfl, hres, hfd⟩
      · obtain ⟨g, off, wr, ho, hu⟩ := (x.inv.tmpOk a ps x.hp).1 h hm0
        obtain ⟨off', ho'⟩ := core_obj_file (s.view ps) c (predict (s.view ps) c) h g off wr (by rw [view_obj]; exact ho) hk
        exact ⟨g, off', wr, by rw [stepLocal_obj]; exact ho', x.unb_step hu⟩
      · -- mkostemp
        have hpr : predict (s.view ps) (.mkostemp t) = .ok (s.view ps).handles.length := rfl
        have hh : h = (s.view ps).handles.length := by
          rw [hpr] at hres; cases hres; rfl
        subst hh
        refine ⟨s.fs.nextFid, 0, true, ?_, x.inv.nextLe, ?_, ?_⟩
        · rw [stepLocal_obj, hpr, core_mkostemp_ok, obj_newHandle]; simp
        · show s.fs.nextFid < (core (s.view ps) (.mkostemp t) (predict (s.view ps) (.mkostemp t))).nextFid
          rw [hpr, core_mkostemp_ok]; simp
        · intro p n hl
          rw [x.hL] at hl
          simp only [callDst, callSrc, and_false, if_false, reduceCtorEq] at hl
          exact Nat.lt_irrefl _ (x.inv.boundLt p n _ hl)
      · -- dupfd
        have hpr : predict (s.view ps) (.dupfd fd) = .ok (s.view ps).handles.length := rfl
        have hh : h = (s.view ps).handles.length := by
          rw [hpr] at hres; cases hres; rfl
        subst hh
        obtain ⟨g, off, wr, ho, hu⟩ := (x.inv.tmpOk a ps x.hp).1 fd hfd
        refine ⟨g, off, wr, ?_, x.unb_step hu⟩
        rw [stepLocal_obj, hpr, core_dupfd_ok (w := s.view ps) (by rw [view_obj]; exact ho), obj_newHandle]; simp
    · intro h hm
      rw [stepLocal_loc] at hm
      rcases mem_tst_upd hm with ⟨hm0, hk1, hk2, hk3⟩ | ⟨rfl, hm0, v, hres⟩
      · obtain ⟨g, buf, ho, hu⟩ := (x.inv.tmpOk a ps x.hp).2 h hm0
        by_cases hfo : c = .fdopen h
        · subst hfo
          refine ⟨g, buf, ?_, x.unb_step hu⟩
          rw [stepLocal_obj, core_fdopen_stream _ h g buf _ (by rw [view_obj]; exact ho)]
          exact ho
        · obtain ⟨buf', ho'⟩ := core_obj_stream (s.view ps) c (predict (s.view ps) c) h g buf (by rw [view_obj]; exact ho)
            ⟨hk1, hk2, hk3, hfo⟩
          exact ⟨g, buf', by rw [stepLocal_obj]; exact ho', x.unb_step hu⟩
      · obtain ⟨g, off, wr, ho, hu⟩ := (x.inv.tmpOk a ps x.hp).1 h hm0
        have hl0 : h < (s.view ps).handles.length := lt_of_obj_ne_closed _ _ (by rw [view_obj, ho]; simp)
        refine ⟨g, [], ?_, x.unb_step hu⟩
        rw [stepLocal_obj, show predict (s.view ps) (.fdopen h) = .ok 0 from rfl,
          core_fdopen_ok (w := s.view ps) (by rw [view_obj]; exact ho) 0, obj_setObj, if_pos ⟨rfl, hl0⟩]
  · simp only [hi, if_false] at hq
    obtain ⟨h1, h2⟩ := x.inv.tmpOk i q hq
    constructor
    · intro h hm
      obtain ⟨g, off, wr, ho, hu⟩ := h1 h hm
      exact ⟨g, off, wr, ho, x.unb_step hu⟩
    · intro h hm
      obtain ⟨g, buf, ho, hu⟩ := h2 h hm
      exact ⟨g, buf, ho, x.unb_step hu⟩

end Mdsort.Proofs.Parties
