import Mdsort.Proofs.WorldSingleFrame

/-! Directory entries as a function, the state of the world in the middle of a script relative
to the world at its start (`Mid`), and the net effect of an action on the entries (`Delta`). -/

namespace Mdsort.Proofs.World
set_option linter.unusedSimpArgs false
open Mdsort Mdsort.Model

/-- A directory entry: directory path and name. -/
abbrev Ent := Bytes × Bytes

/-- The file id an entry is bound to. -/
def lk (w : World) (x : Ent) : Option Nat := w.lookup x.1 x.2

theorem lk_bind (w : World) (b : Ent) (fid : Nat) (x : Ent) (hp : (w.dir b.1).isSome) :
    lk (w.bind b.1 b.2 fid) x = if x = b then some fid else lk w x := by
  unfold lk
  rw [lookup_bind _ _ _ _ _ _ hp]
  obtain ⟨x1, x2⟩ := x
  obtain ⟨b1, b2⟩ := b
  simp only [Prod.mk.injEq]

theorem lk_unbind (w : World) (a x : Ent) : lk (w.unbind a.1 a.2) x = if x = a then none else lk w x := by
  unfold lk
  rw [lookup_unbind]
  obtain ⟨x1, x2⟩ := x
  obtain ⟨a1, a2⟩ := a
  simp only [Prod.mk.injEq]

theorem core_unlinkat_ok {w : World} {d : Handle} {n p : Bytes} {fid : Nat}
    (hp : w.dirPath d = some p) (hl : w.lookup p n = some fid) (v : Nat) :
    core w (.unlinkat d n) (.ok v) = w.unbind p n := by
  simp [core, applyOk, hp, hl]

/-- While a script runs: the world `w'` relative to the world `w` at its start.  The entries are
described by `L`; directories exist as before; files and handles that existed at the start are
untouched. -/
structure Mid (w w' : World) (L : Ent → Option Nat) : Prop where
  look : ∀ x, lk w' x = L x
  dirSome : ∀ q, (w'.dir q).isSome = (w.dir q).isSome
  objs : ∀ h, h < w.handles.length → w'.obj h = w.obj h
  len : w.handles.length ≤ w'.handles.length
  nextFid : w.nextFid ≤ w'.nextFid
  files : ∀ g, g < w.nextFid → w'.file g = w.file g

theorem Mid.refl (w : World) : Mid w w (lk w) :=
  ⟨fun _ => rfl, fun _ => rfl, fun _ _ => rfl, Nat.le_refl _, Nat.le_refl _, fun _ _ => rfl⟩

theorem Mid.congr {w w' : World} {L L' : Ent → Option Nat} (m : Mid w w' L) (h : ∀ x, L x = L' x) : Mid w w' L' :=
  ⟨fun x => (m.look x).trans (h x), m.dirSome, m.objs, m.len, m.nextFid, m.files⟩

theorem Mid.dirPath {w w' : World} {L : Ent → Option Nat} (m : Mid w w' L) {h : Handle} {p : Bytes}
    (hp : w.dirPath h = some p) : w'.dirPath h = some p := by
  rw [← hp]; exact dirPath_congr (m.objs h (lt_of_dirPath hp))

/-- A call that is no directory operation, acts on a handle created since the start (if on any),
and writes no file that existed at the start. -/
theorem Mid.step {w w' : World} {L : Ent → Option Nat} (m : Mid w w' L) (c : Call) (r : Res)
    (hd : Call.dirOp c = false) (hsub : ∀ h, Call.subject c = some h → w.handles.length ≤ h)
    (hfs : ∀ g, g < w.nextFid → fileSafe w' g c) : Mid w (stepWorld w' c r) L := by
  have hdirs : (stepWorld w' c r).dirs = w'.dirs := by rw [stepWorld_dirs]; exact core_dirs w' c r hd
  refine ⟨?_, ?_, ?_, ?_, ?_, ?_⟩
  · intro x
    rw [← m.look x]
    exact lookup_of_dirs hdirs x.1 x.2
  · intro q
    rw [← m.dirSome q, dir_of_dirs hdirs q]
  · intro h hh
    rw [stepWorld_obj, core_obj w' c r h (Nat.lt_of_lt_of_le hh m.len), m.objs h hh]
    intro hs
    have := hsub h hs
    omega
  · simpa using Nat.le_trans m.len (core_len w' c r)
  · simpa using Nat.le_trans m.nextFid (core_nextFid w' c r)
  · intro g hg
    rw [stepWorld_file, core_file w' c r g (Nat.lt_of_lt_of_le hg m.nextFid) (hfs g hg), m.files g hg]

/-- A failed call (other than the closing ones) changes nothing. -/
theorem Mid.err {w w' : World} {L : Ent → Option Nat} (m : Mid w w' L) (c : Call) (e : String)
    (h1 : ∀ d, c ≠ .closedir d) (h2 : ∀ d, c ≠ .close d) (h3 : ∀ d, c ≠ .fclose d) :
    Mid w (stepWorld w' c (.err e)) L := by
  have hc := core_err w' c e h1 h2 h3
  refine ⟨fun x => ?_, fun q => ?_, fun h hh => ?_, ?_, ?_, fun g hg => ?_⟩
  · simp only [lk, stepWorld_lookup, hc]; exact m.look x
  · simp only [stepWorld_dir, hc]; exact m.dirSome q
  · simp only [stepWorld_obj, hc]; exact m.objs h hh
  · simp only [stepWorld_handles, hc]; exact m.len
  · simp only [stepWorld_nextFid, hc]; exact m.nextFid
  · simp only [stepWorld_file, hc]; exact m.files g hg

/-- A script that changes no directory and writes new files only. -/
theorem Mid.frame {w w1 w2 : World} {L : Ent → Option Nat} {S : Nat → Prop} (m : Mid w w1 L) (fr : Fr1 S w1 w2)
    (hS : ∀ g, S g → w.nextFid ≤ g) : Mid w w2 L := by
  refine ⟨?_, ?_, ?_, ?_, ?_, ?_⟩
  · intro x
    rw [← m.look x]
    exact lookup_of_dirs fr.dirs x.1 x.2
  · intro q
    rw [← m.dirSome q, dir_of_dirs fr.dirs q]
  · intro h hh
    rw [fr.objs h (Nat.lt_of_lt_of_le hh m.len), m.objs h hh]
  · exact Nat.le_trans m.len fr.len
  · exact Nat.le_trans m.nextFid fr.nextFid
  · intro g hg
    rw [fr.files g (Nat.lt_of_lt_of_le hg m.nextFid) (fun hs => by have := hS g hs; omega), m.files g hg]

/-- A successful exclusive create. -/
theorem Mid.create {w w1 : World} {L : Ent → Option Nat} (m : Mid w w1 L) {d : Handle} {p name : Bytes}
    (hp : w1.dirPath d = some p) (hl : w1.lookup p name = none) (hdir : (w1.dir p).isSome) (v : Nat) :
    Mid w (stepWorld w1 (.openExcl d name) (.ok v)) (fun x => if x = (p, name) then some w1.nextFid else L x) := by
  have hc := core_openExcl_ok hp hl v
  refine ⟨?_, ?_, ?_, ?_, ?_, ?_⟩
  · intro x
    simp only [lk, stepWorld_lookup, hc, lookup_newHandle]
    rw [lookup_bind _ _ _ _ _ _ (by exact hdir)]
    obtain ⟨x1, x2⟩ := x
    simp only [Prod.mk.injEq, lookup_setFile]
    split
    · rfl
    · exact m.look (x1, x2)
  · intro q
    simp only [stepWorld_dir, hc, dir_newHandle, dir_bind_isSome, dir_setFile]
    exact m.dirSome q
  · intro h hh
    have hne : h ≠ w1.handles.length := by have := m.len; omega
    simp only [stepWorld_obj, hc, obj_newHandle, len_bind, len_setFile, obj_bind, obj_setFile, hne, if_false]
    exact m.objs h hh
  · simp only [stepWorld_handles, hc, len_newHandle, len_bind, len_setFile]
    have := m.len
    show w.handles.length ≤ w1.handles.length + 1
    omega
  · simp only [stepWorld_nextFid, hc, nextFid_newHandle, nextFid_bind, nextFid_setFile]
    have := m.nextFid
    show w.nextFid ≤ w1.nextFid + 1
    omega
  · intro g hg
    have hne : g ≠ w1.nextFid := by have := m.nextFid; omega
    simp only [stepWorld_file, hc, file_newHandle, file_bind, file_setFile, hne, if_false]
    exact m.files g hg

/-- A successful rename. -/
theorem Mid.rename {w w1 : World} {L : Ent → Option Nat} (m : Mid w w1 L) {d1 d2 : Handle} {n1 n2 p1 p2 : Bytes} {fid : Nat}
    (hp1 : w1.dirPath d1 = some p1) (hp2 : w1.dirPath d2 = some p2) (hl : w1.lookup p1 n1 = some fid)
    (hdir : (w1.dir p2).isSome) (v : Nat) :
    Mid w (stepWorld w1 (.renameat d1 n1 d2 n2) (.ok v))
      (fun x => if x = (p2, n2) then some fid else if x = (p1, n1) then none else L x) := by
  have hc := core_renameat_ok (n2 := n2) hp1 hp2 hl v
  refine ⟨?_, ?_, ?_, ?_, ?_, ?_⟩
  · intro x
    have h1 := lk_bind (w1.unbind p1 n1) (p2, n2) fid x (by rw [dir_unbind_isSome]; exact hdir)
    have h2 := lk_unbind w1 (p1, n1) x
    show lk (core w1 (.renameat d1 n1 d2 n2) (.ok v)) x = _
    rw [hc, h1, h2, m.look x]
  · intro q
    simp only [stepWorld_dir, hc, dir_bind_isSome, dir_unbind_isSome]
    exact m.dirSome q
  · intro h hh
    simp only [stepWorld_obj, hc, obj_bind, obj_unbind]
    exact m.objs h hh
  · simp only [stepWorld_handles, hc, len_bind, len_unbind]
    exact m.len
  · simp only [stepWorld_nextFid, hc, nextFid_bind, nextFid_unbind]
    exact m.nextFid
  · intro g hg
    simp only [stepWorld_file, hc, file_bind, file_unbind]
    exact m.files g hg

/-- A successful unlink. -/
theorem Mid.unlink {w w1 : World} {L : Ent → Option Nat} (m : Mid w w1 L) {d : Handle} {n p : Bytes} {fid : Nat}
    (hp : w1.dirPath d = some p) (hl : w1.lookup p n = some fid) (v : Nat) :
    Mid w (stepWorld w1 (.unlinkat d n) (.ok v)) (fun x => if x = (p, n) then none else L x) := by
  have hc := core_unlinkat_ok hp hl v
  refine ⟨?_, ?_, ?_, ?_, ?_, ?_⟩
  · intro x
    have h2 := lk_unbind w1 (p, n) x
    show lk (core w1 (.unlinkat d n) (.ok v)) x = _
    rw [hc, h2, m.look x]
  · intro q
    simp only [stepWorld_dir, hc, dir_unbind_isSome]
    exact m.dirSome q
  · intro h hh
    simp only [stepWorld_obj, hc, obj_unbind]
    exact m.objs h hh
  · simp only [stepWorld_handles, hc, len_unbind]
    exact m.len
  · simp only [stepWorld_nextFid, hc, nextFid_unbind]
    exact m.nextFid
  · intro g hg
    simp only [stepWorld_file, hc, file_unbind]
    exact m.files g hg

/-! ## the net effect of an action -/

/-- From world `w` to world `w'` the message's entry went from `a` to `b`: `b` is `a` or was
free, `a` is free now unless it is `b`, every other entry is bound as before; the files that
existed keep their contents; the directories are the same. -/
structure Delta (w w' : World) (a b : Ent) : Prop where
  len : w.handles.length ≤ w'.handles.length
  nextFid : w.nextFid ≤ w'.nextFid
  files : ∀ g, g < w.nextFid → w'.file g = w.file g
  dirSome : ∀ q, (w'.dir q).isSome = (w.dir q).isSome
  others : ∀ x, x ≠ a → x ≠ b → lk w' x = lk w x
  gone : a ≠ b → lk w' a = none
  fresh : a ≠ b → lk w b = none

theorem Delta.refl (w : World) (a : Ent) : Delta w w a a :=
  ⟨Nat.le_refl _, Nat.le_refl _, fun _ _ => rfl, fun _ => rfl, fun _ _ _ => rfl, fun h => absurd rfl h, fun h => absurd rfl h⟩

theorem Delta.trans {w0 w1 w2 : World} {a b c : Ent} (d01 : Delta w0 w1 a b) (d12 : Delta w1 w2 b c) : Delta w0 w2 a c := by
  refine ⟨Nat.le_trans d01.len d12.len, Nat.le_trans d01.nextFid d12.nextFid, ?_, ?_, ?_, ?_, ?_⟩
  · intro g hg
    rw [d12.files g (Nat.lt_of_lt_of_le hg d01.nextFid), d01.files g hg]
  · intro q; rw [d12.dirSome, d01.dirSome]
  · intro x hxa hxc
    by_cases hxb : x = b
    · subst hxb
      rw [d12.gone hxc, d01.fresh (Ne.symm hxa)]
    · rw [d12.others x hxb hxc, d01.others x hxa hxb]
  · intro hac
    by_cases hab : a = b
    · subst hab; exact d12.gone hac
    · rw [d12.others a hab hac]; exact d01.gone hab
  · intro hac
    by_cases hbc : b = c
    · subst hbc; exact d01.fresh hac
    · rw [← d01.others c (Ne.symm hac) (Ne.symm hbc)]; exact d12.fresh hbc

theorem Mid.delta_same {w w' : World} (m : Mid w w' (lk w)) (a : Ent) : Delta w w' a a :=
  ⟨m.len, m.nextFid, m.files, m.dirSome, fun x _ _ => m.look x, fun h => absurd rfl h, fun h => absurd rfl h⟩

theorem Mid.delta_moved {w w' : World} {a b : Ent} {fid : Nat}
    (m : Mid w w' (fun x => if x = b then some fid else if x = a then none else lk w x))
    (hfresh : a ≠ b → lk w b = none) : Delta w w' a b := by
  refine ⟨m.len, m.nextFid, m.files, m.dirSome, ?_, ?_, hfresh⟩
  · intro x hxa hxb
    rw [m.look x]; simp [hxa, hxb]
  · intro hab
    rw [m.look a]; simp [hab]

theorem Delta.step {w w' : World} {a b : Ent} (d : Delta w w' a b) (c : Call) (r : Res)
    (hd : Call.dirOp c = false) (hfs : ∀ g, g < w.nextFid → fileSafe w' g c) : Delta w (stepWorld w' c r) a b := by
  have hdirs : (stepWorld w' c r).dirs = w'.dirs := by rw [stepWorld_dirs]; exact core_dirs w' c r hd
  have hlk : ∀ x, lk (stepWorld w' c r) x = lk w' x := fun x => lookup_of_dirs hdirs x.1 x.2
  refine ⟨?_, ?_, ?_, ?_, ?_, ?_, d.fresh⟩
  · simpa using Nat.le_trans d.len (core_len w' c r)
  · simpa using Nat.le_trans d.nextFid (core_nextFid w' c r)
  · intro g hg
    rw [stepWorld_file, core_file w' c r g (Nat.lt_of_lt_of_le hg d.nextFid) (hfs g hg), d.files g hg]
  · intro q
    rw [← d.dirSome q, dir_of_dirs hdirs q]
  · intro x hxa hxb; rw [hlk, d.others x hxa hxb]
  · intro hab; rw [hlk, d.gone hab]

theorem Delta.frame {w w1 w2 : World} {a b : Ent} {S : Nat → Prop} (d : Delta w w1 a b) (fr : Fr1 S w1 w2)
    (hS : ∀ g, S g → w.nextFid ≤ g) : Delta w w2 a b := by
  have hlk : ∀ x, lk w2 x = lk w1 x := fun x => lookup_of_dirs fr.dirs x.1 x.2
  refine ⟨Nat.le_trans d.len fr.len, Nat.le_trans d.nextFid fr.nextFid, ?_, ?_, ?_, ?_, d.fresh⟩
  · intro g hg
    rw [fr.files g (Nat.lt_of_lt_of_le hg d.nextFid) (fun hs => by have := hS g hs; omega), d.files g hg]
  · intro q
    rw [← d.dirSome q, dir_of_dirs fr.dirs q]
  · intro x hxa hxb; rw [hlk, d.others x hxa hxb]
  · intro hab; rw [hlk, d.gone hab]

end Mdsort.Proofs.World
