import Mdsort.Model.Eval
import Mdsort.Spec.Interp

/-! Helper lemmas for C12 (interpolation = one pass of token substitution). -/

namespace Mdsort.Proofs
open Mdsort Mdsort.Model

/-- The capture lists available to an entry: the interpolating patterns (header / body
conditions) recorded after the last `match` sentinel that precedes it, in order; none if
there is no sentinel. -/
def ruleCaps (before : MatchList) : List (List Bytes) :=
  match (before.reverse.findIdx? (·.ty == .mtch)) with
  | none => []
  | some k => (((before.reverse.take k).reverse).filter (·.ty.isInterp)).map fun m => m.subs.map (·.str)

/-- Captured texts and macro values are C strings. -/
def NulFree (before : MatchList) (macros : Option (List (Bytes × Bytes))) : Prop :=
  (∀ m ∈ before, ∀ s ∈ m.subs, (0 : UInt8) ∉ s.str) ∧ (∀ ms, macros = some ms → ∀ kv ∈ ms, (0 : UInt8) ∉ kv.2)

theorem matchBackref_eq (before : MatchList) (br : Backref) :
    matchBackref before br = ((ruleCaps before)[br.mi]?).bind (fun gs => gs[br.si]?) := by
  unfold matchBackref ruleCaps
  dsimp only
  cases h : before.reverse.findIdx? (·.ty == .mtch) with
  | none => simp
  | some k =>
    simp only [List.getElem?_map]
    cases h2 : (List.filter (·.ty.isInterp) (List.take k before.reverse).reverse)[br.mi]? with
    | none => simp
    | some m =>
      simp only [Option.map_some, Option.bind_some, List.getElem?_map]
      cases m.subs[br.si]? <;> simp


/-! ## `strtoul` on a string that starts with a digit is `Spec.inumber` -/

theorem strtoulDigits_inumber (s : Bytes) (acc n : Nat) :
    ∃ k, strtoulDigits s acc n = ((Spec.inumber s acc).1, n + k) ∧ s.drop k = (Spec.inumber s acc).2 ∧
      (∀ d r, s = d :: r → isdigit d = true → 1 ≤ k) := by
  induction s generalizing acc n with
  | nil => exact ⟨0, by simp [strtoulDigits, Spec.inumber]⟩
  | cons c r ih =>
    by_cases hc : isdigit c = true
    · obtain ⟨k, h1, h2, _⟩ := ih (acc * 10 + (c.toNat - 48)) (n + 1)
      refine ⟨k + 1, ?_, ?_, ?_⟩
      · simp only [strtoulDigits, Spec.inumber, hc, if_true, h1]
        congr 1; omega
      · simp only [Spec.inumber, hc, if_true, List.drop_succ_cons, h2]
      · intros; omega
    · refine ⟨0, ?_, ?_, ?_⟩
      · simp [strtoulDigits, Spec.inumber, hc]
      · simp [Spec.inumber, hc]
      · intro d r' h hd
        cases h
        exact absurd hd hc

theorem digit_facts (d : UInt8) (h : isdigit d = true) : isspace d = false ∧ d ≠ 45 ∧ d ≠ 43 := by
  simp only [isdigit, Bool.and_eq_true, decide_eq_true_eq, UInt8.le_iff_toNat_le] at h
  have h1 : (48 : UInt8).toNat = 48 := rfl
  have h2 : (57 : UInt8).toNat = 57 := rfl
  rw [h1, h2] at h
  refine ⟨?_, ?_, ?_⟩
  · simp only [isspace, Bool.or_eq_false_iff, Bool.and_eq_false_iff, beq_eq_false_iff_ne, ne_eq,
      decide_eq_false_iff_not, UInt8.le_iff_toNat_le, ← UInt8.toNat_inj]
    have h3 : (32 : UInt8).toNat = 32 := rfl
    have h4 : (9 : UInt8).toNat = 9 := rfl
    have h5 : (13 : UInt8).toNat = 13 := rfl
    rw [h3, h4, h5]
    omega
  · intro e; subst e; simp at h
  · intro e; subst e; simp at h

theorem strtoul_digit (d : UInt8) (r : Bytes) (hd : isdigit d = true) :
    ∃ k, 1 ≤ k ∧ (d :: r).drop k = (Spec.inumber (d :: r) 0).2 ∧
      strtoul (d :: r) =
        (if (Spec.inumber (d :: r) 0).1 > 2147483647 then none else some (Spec.inumber (d :: r) 0).1, k) := by
  obtain ⟨k, h1, h2, h3⟩ := strtoulDigits_inumber (d :: r) 0 0
  have hk : 1 ≤ k := h3 d r rfl hd
  refine ⟨k, hk, h2, ?_⟩
  obtain ⟨hsp, h45, h43⟩ := digit_facts d hd
  have hk0 : (k == 0) = false := by cases k <;> simp at hk ⊢
  have hm : strtoul.match_1 (fun _ => Bool × Nat) (d :: r) (fun _ => (true, 1)) (fun _ => (false, 1))
      (fun _ => (false, 0)) = (false, 0) := by
    split
    · rename_i h; cases h; exact absurd rfl h45
    · rename_i h; cases h; exact absurd rfl h43
    · rfl
  unfold strtoul
  simp only [List.takeWhile_cons, hsp, Bool.false_eq_true, if_false, List.length_nil, List.drop_zero, hm, h1,
    Nat.zero_add, hk0]
  split <;> rfl

/-! ## one step of the C loop = one token of the specification -/

open Spec in
/-- What `isBackref` / `isMacro` say at the head of a non-empty template of the documented
syntax, in terms of its first token and the suffix that remains. -/
inductive Step (s : Bytes) : Prop
  | invalidRef : itokens s = .invalid → isBackref s = .inr true → Step s
  | invalidMacro : itokens s = .invalid → isBackref s = .inr false → isMacro s = .inr true → Step s
  | ref (n p g : Nat) : 1 ≤ n → isBackref s = .inl (n, ⟨p, g⟩) →
      itokens s = (itokens (s.drop n)).cons (.ref p g) → Step s
  | mac (n : Nat) (name : Bytes) : 1 ≤ n → isBackref s = .inr false → isMacro s = .inl (n, name) →
      itokens s = (itokens (s.drop n)).cons (.macro name) → Step s
  | lit (c : UInt8) (r : Bytes) : s = c :: r → isBackref s = .inr false → isMacro s = .inr false →
      itokens s = (itokens r).cons (.lit c) → Step s

theorem drop_add' (l : Bytes) (n m : Nat) : List.drop (n + m) l = List.drop m (List.drop n l) := by
  rw [List.drop_drop]

theorem step_digit (d : UInt8) (r1 : Bytes) (hd : isdigit d = true)
    (hdom : Spec.itokens (92 :: d :: r1) ≠ .undefined) : Step (92 :: d :: r1) := by
  obtain ⟨k, hk, hdrop, hst⟩ := strtoul_digit d r1 hd
  have e := Spec.itokens.eq_2 d r1
  rw [if_pos hd] at e
  simp only [] at e
  have hd1 : ∀ n, List.drop (1 + n) (92 :: d :: r1) = List.drop n (d :: r1) := by
    intro n; rw [Nat.add_comm, List.drop_succ_cons]
  by_cases hv' : (Spec.inumber (d :: r1) 0).fst > Spec.intMax
  · rw [if_pos hv'] at e
    have hv : (Spec.inumber (d :: r1) 0).fst > 2147483647 := hv'
    exact .invalidRef e (by simp [isBackref, hd, hst, hv])
  · rw [if_neg hv'] at e
    have hv : ¬ (Spec.inumber (d :: r1) 0).fst > 2147483647 := hv'
    split at e
    · rename_i d2 r2 heq
      split at e
      · rename_i hd2
        obtain ⟨k2, hk2, hdrop2, hst2⟩ := strtoul_digit d2 r2 hd2
        split at e
        · rename_i hv2'
          have hv2 : (Spec.inumber (d2 :: r2) 0).fst > 2147483647 := hv2'
          exact .invalidRef e (by simp [isBackref, hd, hst, hv, hd1, hdrop, heq, hst2, hv2])
        · rename_i hv2'
          have hv2 : ¬ (Spec.inumber (d2 :: r2) 0).fst > 2147483647 := hv2'
          refine .ref (1 + k + 1 + k2) (Spec.inumber (d :: r1) 0).fst (Spec.inumber (d2 :: r2) 0).fst (by omega) (by simp [isBackref, hd, hst, hv, hd1, hdrop, heq, hst2, hv2]) ?_
          rw [e]
          have : 1 + k + 1 + k2 = 1 + (k + (k2 + 1)) := by omega
          rw [this, hd1, drop_add', hdrop, heq, List.drop_succ_cons, hdrop2]
      · exact absurd e hdom
    · exact absurd e hdom
    · rename_i r2 heq
      refine .ref (1 + k + 1) 0 (Spec.inumber (d :: r1) 0).fst (by omega) (by simp [isBackref, hd, hst, hv, hd1, hdrop, heq]) ?_
      rw [e]
      have : 1 + k + 1 = 1 + (k + 1) := by omega
      rw [this, hd1, drop_add', hdrop, heq, List.drop_succ_cons, List.drop_zero]
    · rename_i h1 h2 h3
      refine .ref (1 + k) 0 (Spec.inumber (d :: r1) 0).fst (by omega) ?_ ?_
      · simp [isBackref, hd, hst, hv, hd1, hdrop]
        split
        · rename_i after heq
          cases after with
          | nil => exact absurd heq h2
          | cons d2 r2 => exact absurd heq (h1 d2 r2)
        · rename_i tl heq
          exact absurd heq (h3 tl)
        · rfl
      · rw [e, hd1, hdrop]

theorem isBackref_ne (c : UInt8) (r : Bytes) (hc : c ≠ 92) : isBackref (c :: r) = .inr false := by
  unfold isBackref
  split
  · rename_i h; cases h; exact absurd rfl hc
  · rfl

theorem isMacro_ne (c : UInt8) (r : Bytes) (hc : c ≠ 36) : isMacro (c :: r) = .inr false := by
  unfold isMacro
  split
  · rename_i h; cases h; exact absurd rfl hc
  · rfl

theorem isMacro_ne2 (c e : UInt8) (r : Bytes) (he : e ≠ 123) : isMacro (c :: e :: r) = .inr false := by
  unfold isMacro
  split
  · rename_i h; cases h; exact absurd rfl he
  · rfl

theorem step (s : Bytes) (hne : s ≠ []) (hdom : Spec.itokens s ≠ .undefined) : Step s := by
  cases s with
  | nil => exact absurd rfl hne
  | cons c r =>
    by_cases hc : c = 92
    · subst hc
      cases r with
      | nil => exact .lit 92 [] rfl rfl rfl (Spec.itokens.eq_4 _ _ (by intros; contradiction) (by intros; contradiction))
      | cons d r1 =>
        by_cases hd : isdigit d = true
        · exact step_digit d r1 hd hdom
        · refine .lit 92 (d :: r1) rfl (by simp [isBackref, hd]) (isMacro_ne _ _ (by decide)) ?_
          rw [Spec.itokens.eq_2, if_neg hd]
    · have hB := isBackref_ne c r hc
      by_cases hc2 : c = 36
      · subst hc2
        cases r with
        | nil => exact .lit 36 [] rfl hB rfl (Spec.itokens.eq_4 _ _ (by intros; contradiction) (by intros; contradiction))
        | cons e r1 =>
          by_cases he : e = 123
          · subst he
            have e := Spec.itokens.eq_3 r1
            split at e
            · rename_i hlen
              exact .invalidMacro e hB (by simp [isMacro, hlen])
            · rename_i hlen
              refine .mac ((List.takeWhile (fun x => x != 125) r1).length + 3) (List.takeWhile (fun x => x != 125) r1) (by omega) hB
                (by simp [isMacro, hlen]) ?_
              rw [e]
              simp only [List.drop_succ_cons]
          · exact .lit 36 (e :: r1) rfl hB (isMacro_ne2 _ _ _ he)
              (Spec.itokens.eq_4 _ _ (by intros; contradiction) (by intro r1 _ h; cases h; exact he rfl))
      · exact .lit c r rfl hB (isMacro_ne _ _ hc2)
          (Spec.itokens.eq_4 _ _ (by intro _ _ h _; exact hc h) (by intro _ h _; exact hc2 h))

/-! ## the loop -/

theorem matchBackref_mem (before : MatchList) (br : Backref) (sub : Bytes)
    (h : matchBackref before br = some sub) : ∃ m ∈ before, ∃ s ∈ m.subs, s.str = sub := by
  unfold matchBackref at h
  dsimp only at h
  split at h
  · cases h
  · rename_i k hk
    split at h
    · cases h
    · rename_i mi hmi
      split at h
      · cases h
      · rename_i sb hsb
        cases h
        have h1 := List.mem_of_getElem? hmi
        have h2 := (List.mem_filter.mp h1).1
        have h3 := List.mem_of_mem_take (List.mem_reverse.mp h2)
        exact ⟨mi, List.mem_reverse.mp h3, sb, List.mem_of_getElem? hsb, rfl⟩

/-- What a token list evaluates to (errors and the undocumented syntax: `none`). -/
def tokOut (caps : List (List Bytes)) (macros : Option (List (Bytes × Bytes))) : Spec.IToks → Option Bytes
  | .ok ts => (ts.mapM (Spec.isubst caps macros)).map List.flatten
  | _ => none

theorem cons_ne_undefined (t : Spec.ITok) (x : Spec.IToks) (h : x.cons t ≠ .undefined) : x ≠ .undefined := by
  cases x <;> simp_all [Spec.IToks.cons]

theorem tokOut_cons (caps : List (List Bytes)) (macros : Option (List (Bytes × Bytes))) (t : Spec.ITok)
    (x : Spec.IToks) (hx : x ≠ .undefined) :
    tokOut caps macros (x.cons t) =
      (Spec.isubst caps macros t).bind fun b => (tokOut caps macros x).map (b ++ ·) := by
  cases x with
  | ok ts =>
    simp only [Spec.IToks.cons, tokOut, List.mapM_cons]
    cases Spec.isubst caps macros t <;> cases List.mapM (Spec.isubst caps macros) ts <;> simp
  | invalid => cases Spec.isubst caps macros t <;> simp [Spec.IToks.cons, tokOut]
  | undefined => exact absurd rfl hx

theorem interp_eq_tokOut (caps : List (List Bytes)) (macros : Option (List (Bytes × Bytes))) (t : Bytes)
    (h : Spec.itokens t ≠ .undefined) :
    Spec.interp caps macros t = some (tokOut caps macros (Spec.itokens t)) := by
  unfold Spec.interp
  cases h' : Spec.itokens t with
  | ok ts => rfl
  | invalid => rfl
  | undefined => exact absurd h' h

theorem interp_go_eq (before : MatchList) (macros : Option (List (Bytes × Bytes))) (hn : NulFree before macros) :
    ∀ (n : Nat) (s : Bytes) (fuel : Nat) (out : Bytes), s.length ≤ n → s.length ≤ fuel →
      Spec.itokens s ≠ .undefined →
      interpolate.go before macros fuel s out =
        (tokOut (ruleCaps before) macros (Spec.itokens s)).map (out ++ ·) := by
  intro n
  induction n with
  | zero =>
    intro s fuel out h1 _ _
    have : s = [] := List.eq_nil_of_length_eq_zero (by omega)
    subst this
    cases fuel <;> simp [interpolate.go, Spec.itokens, tokOut]
  | succ n ih =>
    intro s fuel out h1 h2 hdom
    cases s with
    | nil => cases fuel <;> simp [interpolate.go, Spec.itokens, tokOut]
    | cons c r =>
      cases fuel with
      | zero => simp at h2
      | succ f =>
        simp only [List.length_cons] at h1 h2
        have hlen : ∀ k, 1 ≤ k → (List.drop k (c :: r)).length ≤ n ∧ (List.drop k (c :: r)).length ≤ f := by
          intro k hk; simp only [List.length_drop, List.length_cons]; omega
        unfold interpolate.go
        cases step (c :: r) (by simp) hdom with
        | invalidRef e hB => simp [hB, e, tokOut]
        | invalidMacro e hB hM => simp [hB, hM, e, tokOut]
        | ref k p g hk hB e =>
          have hd' := cons_ne_undefined _ _ (e ▸ hdom)
          simp only [hB, e, tokOut_cons _ _ _ _ hd', Spec.isubst, ← matchBackref_eq before ⟨p, g⟩]
          cases hm : matchBackref before ⟨p, g⟩ with
          | none => simp
          | some sub =>
            obtain ⟨m, hm1, sb, hm2, hm3⟩ := matchBackref_mem _ _ _ hm
            have hc : cstr sub = sub := cstr_of_no_nul (by
              intro b hb hb0; subst hb0; subst hm3; exact hn.1 m hm1 sb hm2 hb)
            simp only [Option.bind_some, Option.map_map, hc]
            rw [ih _ f _ (hlen k hk).1 (hlen k hk).2 hd']
            congr 1; funext x; simp
        | mac k name hk hB hM e =>
          have hd' := cons_ne_undefined _ _ (e ▸ hdom)
          simp only [hB, hM, e, tokOut_cons _ _ _ _ hd', Spec.isubst]
          cases macros with
          | none => simp
          | some ms =>
            simp only [Option.bind_some]
            cases hf : ms.find? (fun kv => kv.1 == name) with
            | none => simp
            | some kv =>
              obtain ⟨k', v⟩ := kv
              simp only [Option.map_some, Option.bind_some, Option.map_map]
              rw [ih _ f _ (hlen k hk).1 (hlen k hk).2 hd']
              congr 1; funext x; simp
        | lit c' r' hs hB hM e =>
          cases hs
          have hd' := cons_ne_undefined _ _ (e ▸ hdom)
          simp only [hB, hM, e, tokOut_cons _ _ _ _ hd', Spec.isubst, Option.bind_some, Option.map_map]
          rw [ih _ f _ (by omega) (by omega) hd']
          congr 1; funext x; simp

theorem interpolate_eq_spec (before : MatchList) (macros : Option (List (Bytes × Bytes))) (t : Bytes)
    (hdom : Spec.itokens t ≠ .undefined) (hn : NulFree before macros) :
    Spec.interp (ruleCaps before) macros t = some (interpolate before macros t) := by
  rw [interp_eq_tokOut _ _ _ hdom]
  unfold interpolate
  rw [interp_go_eq before macros hn t.length t t.length [] (Nat.le_refl _) (Nat.le_refl _) hdom]
  cases tokOut (ruleCaps before) macros (Spec.itokens t) <;> simp

theorem add_isSome (macros : Option (List (Bytes × Bytes))) (before : MatchList) (ss : List Bytes) (b1 b2 : Bytes) :
    (matchInterpolate.add macros before ss b1).isSome = (matchInterpolate.add macros before ss b2).isSome := by
  induction ss generalizing b1 b2 with
  | nil => simp [matchInterpolate.add]
  | cons s r ih =>
    simp only [matchInterpolate.add]
    cases interpolate before macros s with
    | none => rfl
    | some v => exact ih _ _

/-- Whether a label action can be interpolated does not depend on the message. -/
theorem label_interpolation_ignores_message (macros : Option (List (Bytes × Bytes))) (ml : MatchList) (i : Nat)
    (mh : Match) (hty : mh.ty = .label) (msgs1 msgs2 : Nat → Msg) :
    (matchInterpolate macros ml i mh msgs1).isSome = (matchInterpolate macros ml i mh msgs2).isSome := by
  unfold matchInterpolate
  simp only [hty]
  have := add_isSome macros (ml.take i) mh.strings
  have key : ∀ (b1 b2 : Bytes) (f1 f2 : Bytes → Match × Option (Nat × Msg)),
      (match matchInterpolate.add macros (ml.take i) mh.strings b1 with
        | none => none | some lab => some (f1 lab)).isSome =
      (match matchInterpolate.add macros (ml.take i) mh.strings b2 with
        | none => none | some lab => some (f2 lab)).isSome := by
    intro b1 b2 f1 f2
    have h := this b1 b2
    cases h1 : matchInterpolate.add macros (ml.take i) mh.strings b1 <;>
      cases h2 : matchInterpolate.add macros (ml.take i) mh.strings b2 <;>
      simp [h1, h2] at h ⊢
  exact key _ _ _ _

end Mdsort.Proofs
