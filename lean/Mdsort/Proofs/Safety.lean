import Mdsort.Model.Mime
import Mdsort.Model.Eval
import Mdsort.Proofs.Decode

/-! Lemmas for C07: bounds and progress facts the memory safety and termination of the C code rest on. -/

/-! ## auxiliary lemmas -/

namespace Mdsort.Proofs.SafetyAux
open Mdsort Mdsort.Model

theorem b64step_fits {n : Nat} {st st' : B64St} {v : UInt8} (h : b64step n st v = some st') :
    st'.out.length ≤ n := by
  unfold b64step at h
  simp only at h
  split at h <;> (repeat' split at h) <;> simp at h <;> subst h <;> simp <;> omega

def P1Fits (n : Nat) : B64P1 → Prop
  | .err => True
  | .eos st' => st'.out.length ≤ n
  | .pad st' _ => st'.out.length ≤ n

theorem b64loop_fits (n : Nat) (s : Bytes) (st : B64St) (h0 : st.out.length ≤ n) :
    P1Fits n (b64loop n s st) := by
  induction s generalizing st with
  | nil => simpa [b64loop, P1Fits] using h0
  | cons c r ih =>
    rw [b64loop]
    split
    · exact ih st h0
    · split
      · simpa [P1Fits] using h0
      · split
        · trivial
        · split
          · trivial
          · rename_i st' hst
            exact ih st' (b64step_fits hst)

theorem b64tail_out {n : Nat} {st : B64St} {r out : Bytes} (h : b64tail n st r = some out) : out = st.out := by
  unfold b64tail at h
  split at h
  · split at h
    · contradiction
    · cases h; rfl
  · contradiction

theorem qpLoop_len (d : Bool) (s out : Bytes) : (qpLoop d s out).length ≤ out.length + s.length := by
  fun_induction qpLoop d s out <;> simp_all <;> omega

theorem findSub_le {p s : Bytes} {k : Nat} (h : findSub p s = some k) : k + p.length ≤ s.length := by
  induction s generalizing k with
  | nil =>
    unfold findSub at h
    split at h
    · cases h; cases p <;> simp_all
    · contradiction
  | cons x r ih =>
    unfold findSub at h
    split at h
    · rename_i hp
      cases h
      have := (List.isPrefixOf_iff_prefix.mp hp).length_le
      simpa using this
    · simp only [Option.map_eq_some_iff] at h
      obtain ⟨a, ha, rfl⟩ := h
      have := ih ha
      simp; omega

theorem cstr_len (s : Bytes) : (cstr s).length ≤ s.length := by
  unfold cstr; exact (List.takeWhile_sublist _).length_le

theorem b64raw_fits (s out : Bytes) (h : base64DecodeRaw s = some out) : out.length ≤ s.length := by
  unfold base64DecodeRaw at h
  rw [b64pton_eq_spec s _ (Nat.lt_succ_self _)] at h
  have := b64_spec_len s out h
  omega

theorem rfc2047Word_len {es w rest : Bytes} (h : rfc2047Word es = some (w, rest)) :
    w.length + rest.length ≤ es.length := by
  unfold rfc2047Word at h
  split at h
  · contradiction
  · rename_i q hq
    have hq' := strchr_length_le hq
    split at h
    · contradiction
    · rename_i enc es2 hes2
      have h2 : es2.length < q.length := by
        have : (q.drop 1).length = (enc :: es2).length := by rw [hes2]
        simp at this; omega
      split at h
      · rename_i es3
        split at h
        · contradiction
        · rename_i len hl
          have hlen := findSub_le hl
          have htake : (es3.take len).length = len := by simp; simp at hlen; omega
          have hrest : (es3.drop (len + 2)).length = es3.length - (len + 2) := by simp
          have h3 : es3.length < (63 :: es3).length := by simp
          simp only at h
          split at h
          · split at h
            · contradiction
            · rename_i dst hd
              cases h
              unfold base64Decode at hd
              simp only [Option.map_eq_some_iff] at hd
              obtain ⟨raw, hraw, rfl⟩ := hd
              have := b64raw_fits _ _ hraw
              have := cstr_len raw
              simp at hlen; omega
          · cases h
            have := qpLoop_len true (es3.take len) []
            simp at hlen this; omega
          · contradiction
      · contradiction

theorem rfc2047Loop_len (es out r : Bytes) (h : rfc2047Loop es out = some r) :
    r.length ≤ out.length + es.length := by
  fun_induction rfc2047Loop es out
  case case1 out => cases h; simp
  case case2 out es' hw => contradiction
  case case3 out es' w rest hw _ _ ih =>
    have := ih h
    have := rfc2047Word_len hw
    have := rfc2047SkipSpace_le rest
    simp at *; omega
  case case4 out c r' hx ih =>
    have := ih h
    simp at *; omega

theorem scanBeg_le (hs : Array Hdr) (key : Bytes) (m : Nat) : scanBeg hs key m ≤ m := by
  induction m with
  | zero => simp [scanBeg]
  | succ b ih =>
    unfold scanBeg
    split
    · exact Nat.le_refl _
    · omega

theorem scanEnd_bounds (hs : Array Hdr) (key : Bytes) (e : Nat) (he : e ≤ hs.size) :
    e ≤ scanEnd hs key e ∧ scanEnd hs key e ≤ hs.size := by
  fun_induction scanEnd hs key e
  case case1 e h hne => omega
  case case2 e h heq ih => have := ih (by omega); omega
  case case3 e h => omega

theorem bsearch_bounds (hs : Array Hdr) (key : Bytes) (lo hi fuel i n : Nat) (hhi : hi < hs.size)
    (h : bsearch hs key lo hi fuel = some (i, n)) : 0 < n ∧ i + n ≤ hs.size := by
  induction fuel generalizing lo hi with
  | zero => simp [bsearch] at h
  | succ fuel ih =>
    unfold bsearch at h
    split at h
    · rename_i hle
      simp only at h
      have hmi : lo + (hi - lo) / 2 ≤ hi := by omega
      split at h
      · cases h
        have h1 := scanBeg_le hs key (lo + (hi - lo) / 2)
        have h2 := scanEnd_bounds hs key (lo + (hi - lo) / 2 + 1) (by omega)
        omega
      · exact ih _ _ hhi h
      · split at h
        · exact ih _ _ (by omega) h
        · contradiction
    · contradiction

theorem scanKey_split {s k rest : Bytes} (h : scanKey s = some (k, rest)) : s = k ++ 58 :: rest := by
  induction s generalizing k with
  | nil => simp [scanKey] at h
  | cons c r ih =>
    unfold scanKey at h
    split at h
    · rename_i hc
      cases h
      have : c = 58 := by simpa using hc
      simp [this]
    · split at h
      · contradiction
      · simp only [Option.map_eq_some_iff] at h
        obtain ⟨⟨a, b⟩, hab, heq⟩ := h
        cases heq
        rw [ih hab]; rfl

theorem scanValue_split {s v rest : Bytes} (h : scanValue s = some (v, rest)) : s = v ++ 10 :: rest := by
  induction s generalizing v with
  | nil => simp [scanValue] at h
  | cons c r ih =>
    unfold scanValue at h
    split at h
    · rename_i hc
      have hc' : c = 10 := by simpa using hc
      split at h
      · split at h
        · simp only [Option.map_eq_some_iff] at h
          obtain ⟨⟨a, b⟩, hab, heq⟩ := h
          cases heq
          rw [ih hab]; rfl
        · cases h; simp [hc']
      · cases h; simp [hc']
    · simp only [Option.map_eq_some_iff] at h
      obtain ⟨⟨a, b⟩, hab, heq⟩ := h
      cases heq
      rw [ih hab]; rfl

theorem skipLine_le (s : Bytes) : (skipLine s).length ≤ s.length := by
  induction s with
  | nil => simp [skipLine]
  | cons c r ih =>
    unfold skipLine
    split
    · simp
    · simp; omega

theorem skipLine_lt {s : Bytes} (h : s ≠ []) : (skipLine s).length < s.length := by
  cases s with
  | nil => contradiction
  | cons c r =>
    unfold skipLine
    split
    · simp
    · have := skipLine_le r
      simp; omega

theorem delimiterLine_skip {bnd s : Bytes} {t : Bool} (h : delimiterLine bnd s = some t) :
    (skipLine s).length + 3 ≤ s.length := by
  unfold delimiterLine at h
  split at h
  · contradiction
  · rename_i h1
    simp only at h
    split at h
    · contradiction
    · match s, h1 with
      | a :: b :: s1, h1 =>
        have hab : 45 = a ∧ 45 = b := by
          simpa [startsWith] using h1
        obtain ⟨rfl, rfl⟩ := hab
        have hs1 : s1 ≠ [] := by
          intro he
          subst he
          simp at h
        have := skipLine_lt hs1
        simp [skipLine]
        omega
      | [], h1 => simp [startsWith] at h1
      | [a], h1 => simp [startsWith] at h1

theorem findBoundaryAux_split {bnd s pre rest : Bytes} {n : Nat} {term : Bool}
    (h : findBoundaryAux bnd s n = some (pre, term, rest)) :
    s = pre ++ rest ∧ rest ≠ [] ∧ delimiterLine bnd rest = some term := by
  induction s generalizing pre n with
  | nil => cases n <;> simp [findBoundaryAux] at h
  | cons c r ih =>
    cases n with
    | succ n =>
      unfold findBoundaryAux at h
      simp only [Option.map_eq_some_iff] at h
      obtain ⟨⟨a, t, b'⟩, hab, heq⟩ := h
      cases heq
      obtain ⟨h1, h2, h3⟩ := ih hab
      exact ⟨by rw [h1]; rfl, h2, h3⟩
    | zero =>
      unfold findBoundaryAux at h
      split at h
      · rename_i t ht
        cases h
        exact ⟨rfl, by simp, ht⟩
      · simp only [Option.map_eq_some_iff] at h
        obtain ⟨⟨a, t, b'⟩, hab, heq⟩ := h
        cases heq
        obtain ⟨h1, h2, h3⟩ := ih hab
        exact ⟨by rw [h1]; rfl, h2, h3⟩

theorem strchr_suffix_len {s q : Bytes} {c : UInt8} (h : strchr s c = some q) : q.length ≤ s.length :=
  strchr_length_le h

theorem skipSeparator_le (s : Bytes) : (skipSeparator s).length ≤ s.length := by
  unfold skipSeparator
  split
  · split
    · exact Nat.le_refl _
    · rename_i p hp
      have := strchr_length_le hp
      simp; omega
  · exact Nat.le_refl _

theorem parseLoop_rest_le (s : Bytes) (n : Nat) (acc : List Hdr) : (parseLoop s n acc).2.length ≤ s.length := by
  fun_induction parseLoop s n acc
  case case1 => simp
  case case2 s n acc key h =>
    unfold findHeader at h
    split at h
    · contradiction
    · rename_i k ac hk
      split at h
      · cases h
        have := scanKey_split hk
        simp only
        rw [this]; simp
      · contradiction
  case case3 s n acc key val rest h hlt ih =>
    omega

theorem parseHeaders_body_le (t : Bytes) : (parseHeaders t).body.length ≤ t.length := by
  unfold parseHeaders
  have h1 := parseLoop_rest_le (skipSeparator t) 0 []
  have h2 := skipSeparator_le t
  have h3 := dropWhile_length_le' (· == 10) (parseLoop (skipSeparator t) 0 []).2
  simp only
  omega

theorem partsLoop_len (sub : Msg → Option (List Msg)) (bnd : Bytes)
    (hsub : ∀ part nested, sub part = some nested → nested.length ≤ part.body.length)
    (f : Nat) (text : Bytes) (ps : List Msg) (h : partsLoop sub bnd f text = some ps) :
    ps.length ≤ text.length := by
  induction f generalizing text ps with
  | zero => simp [partsLoop] at h
  | succ f ih =>
    unfold partsLoop at h
    split at h
    · contradiction
    · rename_i partText term fromLine hfb
      obtain ⟨hsplit, _, hdl⟩ := findBoundaryAux_split hfb
      have hskip := delimiterLine_skip hdl
      simp only at h
      split at h
      · contradiction
      · rename_i nested hn
        have h1 := hsub _ _ hn
        have h2 := parseHeaders_body_le partText
        split at h
        · cases h
          rw [hsplit]; simp; omega
        · simp only [Option.map_eq_some_iff] at h
          obtain ⟨more, hmore, rfl⟩ := h
          have := ih _ _ hmore
          rw [hsplit]; simp; omega

theorem parseAttachments_len (fuel : Nat) (m : Msg) (ps : List Msg) (h : parseAttachments fuel m = some ps) :
    ps.length ≤ m.body.length := by
  induction fuel generalizing m ps with
  | zero => simp [parseAttachments] at h
  | succ fuel ih =>
    unfold parseAttachments at h
    split at h
    · cases h; simp
    · split at h
      · cases h; simp
      · contradiction
      · split at h
        · contradiction
        · rename_i pre term fromLine hfb
          obtain ⟨hsplit, _, hdl⟩ := findBoundaryAux_split hfb
          split at h
          · cases h; simp
          · have := partsLoop_len (parseAttachments fuel) _ (fun p n hp => ih p n hp) _ _ _ h
            have := skipLine_le fromLine
            rw [hsplit]; simp; omega

end Mdsort.Proofs.SafetyAux

namespace Mdsort.Proofs
open Mdsort Mdsort.Model

/-! ## decoders: the output fits the buffer the caller allocated -/

/-- `base64_decode` allocates `strlen + 1` bytes and stores the terminator at `dec[n]`: `n ≤ strlen`. -/
theorem b64_fits (s out : Bytes) (h : base64DecodeRaw s = some out) : out.length ≤ s.length := by
  exact SafetyAux.b64raw_fits s out h

/-- With any target size the decoder never reports more bytes than the target holds. -/
theorem b64pton_fits (s out : Bytes) (n : Nat) (h : b64pton s n = some out) : out.length ≤ n := by
  have hl := SafetyAux.b64loop_fits n s B64St.init (by simp [B64St.init])
  unfold b64pton at h
  split at h
  · contradiction
  · rename_i st hst
    rw [hst] at hl
    simp only [SafetyAux.P1Fits] at hl
    split at h
    · contradiction
    · cases h; exact hl
  · rename_i st r hst
    rw [hst] at hl
    simp only [SafetyAux.P1Fits] at hl
    split at h
    · contradiction
    · contradiction
    · split at h
      · split at h
        · rw [SafetyAux.b64tail_out h]; exact hl
        · contradiction
      · contradiction
    · rw [SafetyAux.b64tail_out h]; exact hl

/-- `quoted_printable_decode`: never longer than the input. -/
theorem qp_fits (s : Bytes) : (qpDecodeRaw s).length ≤ s.length := by
  have := SafetyAux.qpLoop_len false s []
  simpa [qpDecodeRaw] using this

/-- `rfc2047_decode`: never longer than the input. -/
theorem rfc2047_fits (s : Bytes) : (rfc2047DecodeRaw s).length ≤ s.length := by
  unfold rfc2047DecodeRaw
  split
  · rename_i out h
    simpa using SafetyAux.rfc2047Loop_len s [] out h
  · exact Nat.le_refl _

/-! ## header table: every index read lies inside the table -/

/-- The indices `mi` at which `bsearch` reads the table, in order (ghost of `Model.bsearch`). -/
def bsearchProbes (hs : Array Hdr) (key : Bytes) (lo hi : Nat) : Nat → List Nat
  | 0 => []
  | fuel + 1 =>
    if lo ≤ hi then
      let mi := lo + (hi - lo) / 2
      mi :: (match strcasecmp key hs[mi]!.key with
        | .eq => []
        | .gt => bsearchProbes hs key (mi + 1) hi fuel
        | .lt => if mi > 0 then bsearchProbes hs key lo (mi - 1) fuel else [])
    else []

theorem bsearch_probes_in_bounds (hs : Array Hdr) (key : Bytes) (lo hi fuel : Nat) (h : hi < hs.size) :
    ∀ i ∈ bsearchProbes hs key lo hi fuel, i < hs.size := by
  induction fuel generalizing lo hi with
  | zero => simp [bsearchProbes]
  | succ fuel ih =>
    intro i hi'
    unfold bsearchProbes at hi'
    split at hi'
    · rename_i hle
      simp only [List.mem_cons] at hi'
      rcases hi' with rfl | hi'
      · omega
      · split at hi'
        · simp at hi'
        · exact ih _ _ h i hi'
        · split at hi'
          · exact ih _ _ (by omega) i hi'
          · simp at hi'
    · simp at hi'

/-- The binary search terminates by itself: the fuel `nmemb + 1` the model gives it is never what ends it. -/
theorem bsearch_fuel_irrelevant (hs : Array Hdr) (key : Bytes) (lo hi f1 f2 : Nat)
    (h1 : hi + 2 - lo ≤ f1) (h2 : hi + 2 - lo ≤ f2) : bsearch hs key lo hi f1 = bsearch hs key lo hi f2 := by
  induction f1 generalizing lo hi f2 with
  | zero =>
    cases f2 with
    | zero => rfl
    | succ f2 =>
      unfold bsearch
      rw [if_neg (by omega)]
  | succ f1 ih =>
    cases f2 with
    | zero =>
      unfold bsearch
      rw [if_neg (by omega)]
    | succ f2 =>
      unfold bsearch
      split
      · simp only
        split
        · rfl
        · exact ih _ _ _ (by omega) (by omega)
        · split
          · exact ih _ _ _ (by omega) (by omega)
          · rfl
      · rfl

/-- The slice `searchheader` hands to its callers lies inside the table - for ANY table, sorted or not. -/
theorem searchHeader_in_bounds (hs : List Hdr) (key : Bytes) (i n : Nat) (h : searchHeader hs key = some (i, n)) :
    0 < n ∧ i + n ≤ hs.length := by
  unfold searchHeader at h
  split at h
  · contradiction
  · rename_i hne
    have hne' : hs.length ≠ 0 := by simpa using hne
    have := SafetyAux.bsearch_bounds hs.toArray key 0 (hs.length - 1) (hs.length + 1) i n (by simp; omega) h
    simpa using this

/-! ## scanners over the NUL-terminated buffer: results are inside the buffer and loops make progress -/

/-- `findheader`: key, value and the continuation point are consecutive pieces of the text it was given
(the pointers it returns point into the buffer, before the terminator). -/
theorem findHeader_inside (s key val rest : Bytes) (h : findHeader s = .ok key val rest) :
    ∃ gap : Bytes, s = key ++ [58] ++ gap ++ val ++ [10] ++ rest := by
  unfold findHeader at h
  split at h
  · contradiction
  · rename_i k ac hk
    split at h
    · contradiction
    · rename_i v r hv
      cases h
      have h1 := SafetyAux.scanKey_split hk
      have h2 := SafetyAux.scanValue_split hv
      unfold afterColonDrop at h2
      have h3 : ∃ gap, ac = gap ++ (val ++ 10 :: rest) :=
        ⟨ac.take (nspaces ac), by rw [← h2]; exact (List.take_append_drop _ _).symm⟩
      obtain ⟨gap, hg⟩ := h3
      exact ⟨gap, by rw [h1, hg]; simp⟩

theorem skipLine_suffix (s : Bytes) : ∃ pre, s = pre ++ skipLine s := by
  induction s with
  | nil => exact ⟨[], rfl⟩
  | cons c r ih =>
    unfold skipLine
    split
    · exact ⟨[c], rfl⟩
    · obtain ⟨pre, hp⟩ := ih
      exact ⟨c :: pre, by rw [List.cons_append, ← hp]⟩

/-- `findboundary`: the text before the delimiter line and the text from it on make up the input. -/
theorem findBoundary_split (bnd s pre rest : Bytes) (term : Bool) (h : findBoundary bnd s = some (pre, term, rest)) :
    s = pre ++ rest ∧ rest ≠ [] := by
  obtain ⟨h1, h2, _⟩ := SafetyAux.findBoundaryAux_split h
  exact ⟨h1, h2⟩

/-- The `while (!term)` loop of `parseattachments` terminates by itself: every iteration consumes at least
the delimiter line, so the fuel `strlen(body) + 1` the model gives it is never what ends it. -/
theorem partsLoop_fuel_irrelevant (sub : Msg → Option (List Msg)) (bnd text : Bytes) (f1 f2 : Nat)
    (h1 : text.length < f1) (h2 : text.length < f2) : partsLoop sub bnd f1 text = partsLoop sub bnd f2 text := by
  induction f1 generalizing f2 text with
  | zero => omega
  | succ f1 ih =>
    cases f2 with
    | zero => omega
    | succ f2 =>
      unfold partsLoop
      split
      · rfl
      · rename_i partText term fromLine hfb
        obtain ⟨hsplit, hne⟩ := findBoundary_split _ _ _ _ _ hfb
        have hlt := SafetyAux.skipLine_lt hne
        have hlen : text.length = partText.length + fromLine.length := by rw [hsplit]; simp
        simp only
        split
        · rfl
        · split
          · rfl
          · rw [ih _ f2 (by omega) (by omega)]

/-- The attachment table cannot outgrow the text: at most one part per byte of the body, nested parts included. -/
theorem attachments_bounded (m : Msg) (ps : List Msg) (h : getAttachments m = some ps) : ps.length ≤ m.body.length := by
  exact SafetyAux.parseAttachments_len _ m ps h

end Mdsort.Proofs
