import Mdsort.Proofs.PartiesMoverLocal
import Mdsort.Proofs.WorldScripts

/-! The local protocol of EVERY action of `matches_exec` (C17): besides the rename-based deliveries
of `PartiesMoverLocal`, the copying ones (`maildir_write` for label / add-header, `maildir_move`
across devices: create a name exclusively, write the message through a stdio stream on a duplicate
of the descriptor, flush, sync, close, then remove the original - or, failing that, the new name),
`discard`, and `exec` with its unlinked temporary files.

What a party can know from its OWN calls and their results is a function of its trace:
`inFlightH` (the created name it has neither committed nor rolled back) and `locOf` (the descriptor
of that name, the stream on it, the bytes handed to the stream so far, the descriptors and streams
of its temporary files).  `CopyI M` says which calls may be issued in which such state; the results
quantified over are the ones the abstract file system can predict (`PredR`: no injected faults, a
party only ever sees what the others did). -/

namespace Mdsort.Proofs.Parties
set_option linter.unusedSimpArgs false
set_option linter.unusedVariables false
open Mdsort Mdsort.Model
open Mdsort.Proofs.World (bind_eq pure_eq ret_bind call_bind' call_bind bind_assoc Calls All hdrLine render_eq)
open Mdsort.Proofs.Own

/-! ## what a party knows about its descriptors -/

structure Loc where
  fd : Option Handle      -- descriptor returned by the exclusive create of the name in flight
  dup : Option Handle     -- its duplicate, before `fdopen`
  st : Option Handle      -- the stdio stream on the duplicate
  wr : Bytes              -- bytes handed to that stream so far
  tmp : List Handle       -- descriptors of unlinked temporary files (`mkostemp`, and duplicates)
  tst : List Handle       -- stdio streams on temporary files

def Loc.init : Loc := ⟨none, none, none, [], [], []⟩

def clr (o : Option Handle) (h : Handle) : Option Handle := if o = some h then none else o

/-- Handle `h` was released. -/
def Loc.drop (l : Loc) (h : Handle) : Loc :=
  { l with fd := clr l.fd h, dup := clr l.dup h, st := clr l.st h, tmp := l.tmp.filter (· != h), tst := l.tst.filter (· != h) }

def locUpd (l : Loc) : Call × Res → Loc
  | (.openExcl _ _, .ok h) => { l with fd := some h, dup := none, st := none, wr := [] }
  | (.close h, _) => l.drop h
  | (.closedir h, _) => l.drop h
  | (.fclose h, _) => { l.drop h with fd := l.fd }
  | (.dupfd fd, .ok h) =>
    { l with dup := if l.fd = some fd then some h else l.dup, tmp := if l.tmp.contains fd then h :: l.tmp else l.tmp }
  | (.fdopen h, .ok _) =>
    { l with st := if l.dup = some h then some h else l.st, dup := clr l.dup h,
             tmp := l.tmp.filter (· != h), tst := if l.tmp.contains h then h :: l.tst else l.tst }
  | (.fprintf h data, .ok _) => if l.st = some h then { l with wr := l.wr ++ data } else l
  | (.mkostemp _, .ok h) => { l with tmp := h :: l.tmp }
  | _ => l

def locOf (tr : Trace) : Loc := tr.foldl locUpd Loc.init

theorem locOf_snoc (tr : Trace) (e : Call × Res) : locOf (tr ++ [e]) = locUpd (locOf tr) e := by
  simp [locOf, List.foldl_append]

/-! ## results and the protocol -/

/-- The results a party can see: what the abstract file system predicts in some state. -/
def PredR (c : Call) (r : Res) : Prop := ∃ w : World, r = predict w c

/-- Which call may be issued when (`M`: the messages the party may write out). -/
def CopyI (M : Msg → Prop) (tr : Trace) : Call → Prop
  | .openExcl _ _ => inFlightH tr = []
  | .renameat _ _ d2 n2 => (d2, n2) ∈ inFlightH tr
  | .unlinkat d n => (d, n) ∈ inFlightH tr ∨ inFlightH tr = [] ∨
      ((locOf tr).st = none ∧ (locOf tr).dup = none ∧ ∃ m, M m ∧ (locOf tr).wr = (messageWrite m).1)
  | .close h => inFlightH tr = [] ∨ (locOf tr).fd = some h
  | .closedir _ => inFlightH tr = []
  | .fclose h | .fprintf h _ | .fflush h | .fsync h =>
    (inFlightH tr ≠ [] ∧ (locOf tr).st = some h) ∨ h ∈ (locOf tr).tst
  | .fdopen h => (inFlightH tr ≠ [] ∧ (locOf tr).dup = some h ∧ (locOf tr).st = none) ∨ h ∈ (locOf tr).tmp
  | .write h _ => h ∈ (locOf tr).tmp
  | .read _ | .fopen _ | .mkdtemp _ | .mkdir _ | .rmdir _ => False
  | _ => True

/-- Calls that are allowed with nothing in flight and leave it so. -/
def Quiet0 : Call → Prop
  | .openExcl .. | .renameat .. | .unlinkat .. | .fclose _ | .fprintf .. | .fflush _ | .fsync _ | .fdopen _ | .write ..
  | .read _ | .fopen _ | .mkdtemp _ | .mkdir _ | .rmdir _ => False
  | _ => True

theorem quiet0_upd {c : Call} {r : Res} (h : Quiet0 c) (acc : List (Handle × Bytes)) : inFlightUpd acc (c, r) = acc := by
  cases c <;> first | exact h.elim | rfl

theorem quiet0_I {M : Msg → Prop} {tr : Trace} {c : Call} (h : Quiet0 c) (h0 : inFlightH tr = []) : CopyI M tr c := by
  cases c <;> first | exact h.elim | exact h0 | exact .inl h0 | exact True.intro

variable {M : Msg → Prop}

theorem wp_quiet0 {α} {P : α → Prop} {p : Prog α} (hc : Calls Quiet0 p) (ha : All P p) (tr : Trace)
    (h0 : inFlightH tr = []) : wp PredR (CopyI M) p (fun a tr' => P a ∧ inFlightH tr' = []) tr := by
  induction p generalizing tr with
  | ret a => exact ⟨ha, h0⟩
  | call c k ih =>
    refine ⟨quiet0_I hc.1 h0, fun r _ => ih r (hc.2 r) (ha r) _ ?_⟩
    rw [inFlightH_snoc, quiet0_upd hc.1, h0]

theorem wp_quiet0' {α} {p : Prog α} (hc : Calls Quiet0 p) (tr : Trace) (h0 : inFlightH tr = []) :
    wp PredR (CopyI M) p (fun _ tr' => inFlightH tr' = []) tr :=
  wp_mono (wp_quiet0 hc (All.trivial p) tr h0) fun _ _ h => h.2

macro "quiet0_step" : tactic =>
  `(tactic| first
      | (with_reducible exact Calls.ret_intro _)
      | ((with_reducible show Quiet0 _); exact True.intro)
      | (with_reducible apply Calls.call_intro)
      | (intro _)
      | (with_reducible apply Calls.bind)
      | split
      | (dsimp only; split))

theorem q0_maildirClose (md : Maildir) : Calls Quiet0 (maildirClose md) := by
  unfold maildirClose
  simp only [bind_eq, pure_eq, call_bind]
  repeat' quiet0_step

theorem q0_maildirOpendir (md : Maildir) (path : Bytes) : Calls Quiet0 (maildirOpendir md path) := by
  unfold maildirOpendir
  simp only [bind_eq, pure_eq, call_bind]
  repeat' quiet0_step

theorem q0_maildirOpenDst (path : Bytes) : Calls Quiet0 (maildirOpenDst path) := by
  unfold maildirOpenDst
  simp only [bind_eq, pure_eq]
  repeat' (first | exact q0_maildirOpendir _ _ | quiet0_step)

theorem q0_messageSetFile (ms : MsgSt) (dir name : Bytes) (fd : Option Handle) : Calls Quiet0 (messageSetFile ms dir name fd) := by
  unfold messageSetFile
  simp only [bind_eq, pure_eq, call_bind]
  repeat' quiet0_step

theorem q0_messageSetFileMoved (ms : MsgSt) (s d : Subdir) (dir name : Bytes) :
    Calls Quiet0 (messageSetFileMoved ms s d dir name) := by
  unfold messageSetFileMoved
  simp only [bind_eq, pure_eq, call_bind]
  repeat' quiet0_step

theorem q0_execP (argv : List Bytes) (fdin : Option Handle) : Calls Quiet0 (execP argv fdin) := by
  unfold execP
  simp only [bind_eq, pure_eq, call_bind]
  repeat' quiet0_step

/-! ## predicted results, by call -/

theorem predR_ok0 {c : Call} {r : Res} (h : PredR c r)
    (hc : (∃ h, c = .fdopen h) ∨ (∃ h, c = .fflush h) ∨ (∃ h, c = .fsync h) ∨ (∃ h, c = .fclose h) ∨ (∃ h, c = .close h) ∨
      (∃ p, c = .unlink p) ∨ (∃ h, c = .lseek h)) : r = .ok 0 := by
  obtain ⟨w, rfl⟩ := h
  rcases hc with ⟨_, rfl⟩ | ⟨_, rfl⟩ | ⟨_, rfl⟩ | ⟨_, rfl⟩ | ⟨_, rfl⟩ | ⟨_, rfl⟩ | ⟨_, rfl⟩ <;> rfl

theorem predR_fprintf {h : Handle} {d : Bytes} {r : Res} (hr : PredR (.fprintf h d) r) : r = .ok d.length := by
  obtain ⟨w, rfl⟩ := hr; rfl

theorem predR_write {h : Handle} {d : Bytes} {r : Res} (hr : PredR (.write h d) r) : r = .ok d.length := by
  obtain ⟨w, rfl⟩ := hr; rfl

theorem predR_dupfd {h : Handle} {r : Res} (hr : PredR (.dupfd h) r) : ∃ v, r = .ok v := by
  obtain ⟨w, rfl⟩ := hr; exact ⟨_, rfl⟩

theorem predR_mkostemp {t : Bytes} {r : Res} (hr : PredR (.mkostemp t) r) : ∃ v, r = .ok v := by
  obtain ⟨w, rfl⟩ := hr; exact ⟨_, rfl⟩

theorem predR_openExcl {d : Handle} {n : Bytes} {r : Res} (hr : PredR (.openExcl d n) r) :
    (∃ v, r = .ok v) ∨ (∃ e, r = .err e) := by
  obtain ⟨w, rfl⟩ := hr
  simp only [predict]
  split
  · exact .inr ⟨_, rfl⟩
  · split
    · exact .inr ⟨_, rfl⟩
    · exact .inl ⟨_, rfl⟩

theorem predR_renameat {d1 d2 : Handle} {n1 n2 : Bytes} {r : Res} (hr : PredR (.renameat d1 n1 d2 n2) r) :
    (∃ v, r = .ok v) ∨ (∃ e, r = .err e) := by
  obtain ⟨w, rfl⟩ := hr
  simp only [predict]
  split
  · split
    · exact .inr ⟨_, rfl⟩
    · split
      · exact .inl ⟨_, rfl⟩
      · exact .inr ⟨_, rfl⟩
  · exact .inr ⟨_, rfl⟩

theorem predR_unlinkat {d : Handle} {n : Bytes} {r : Res} (hr : PredR (.unlinkat d n) r) :
    (∃ v, r = .ok v) ∨ (∃ e, r = .err e) := by
  obtain ⟨w, rfl⟩ := hr
  simp only [predict]
  split
  · exact .inl ⟨_, rfl⟩
  · exact .inr ⟨_, rfl⟩

/-! ## the state while a copy is being written -/

/-- A created name `x` is in flight, `fd` is its descriptor, nothing is open on it besides. -/
structure Fresh1 (tr : Trace) (x : Handle × Bytes) (fd : Handle) (wr : Bytes) : Prop where
  flight : inFlightH tr = [x]
  fd : (locOf tr).fd = some fd
  dup : (locOf tr).dup = none
  st : (locOf tr).st = none
  wr : (locOf tr).wr = wr

/-- ... and the stream `h` is open on it. -/
structure Streaming (tr : Trace) (x : Handle × Bytes) (fd h : Handle) (wr : Bytes) : Prop where
  flight : inFlightH tr = [x]
  fd : (locOf tr).fd = some fd
  dup : (locOf tr).dup = none
  st : (locOf tr).st = some h
  wr : (locOf tr).wr = wr

theorem flight_ne_nil {tr : Trace} {x : Handle × Bytes} (h : inFlightH tr = [x]) : inFlightH tr ≠ [] := by
  rw [h]; simp

theorem Streaming.I_stream {tr x fd h wr} (s : Streaming tr x fd h wr) :
    (inFlightH tr ≠ [] ∧ (locOf tr).st = some h) ∨ h ∈ (locOf tr).tst := .inl ⟨flight_ne_nil s.flight, s.st⟩

theorem Streaming.fprintf {tr x fd h wr} (s : Streaming tr x fd h wr) (data : Bytes) (v : Nat) :
    Streaming (tr ++ [(.fprintf h data, .ok v)]) x fd h (wr ++ data) := by
  have hl : locOf (tr ++ [(Call.fprintf h data, Res.ok v)]) = { locOf tr with wr := (locOf tr).wr ++ data } := by
    rw [locOf_snoc]; simp [locUpd, s.st]
  refine ⟨?_, ?_, ?_, ?_, ?_⟩
  · rw [inFlightH_snoc]; exact s.flight
  · rw [hl]; exact s.fd
  · rw [hl]; exact s.dup
  · rw [hl]; exact s.st
  · rw [hl]; simp [s.wr]

theorem Streaming.same {tr x fd h wr} (s : Streaming tr x fd h wr) (c : Call) (r : Res)
    (hc : (∃ h', c = .fflush h') ∨ (∃ h', c = .fsync h')) : Streaming (tr ++ [(c, r)]) x fd h wr := by
  have hl : locOf (tr ++ [(c, r)]) = locOf tr := by
    rw [locOf_snoc]; rcases hc with ⟨_, rfl⟩ | ⟨_, rfl⟩ <;> rfl
  have hf : inFlightH (tr ++ [(c, r)]) = inFlightH tr := by
    rw [inFlightH_snoc]; rcases hc with ⟨_, rfl⟩ | ⟨_, rfl⟩ <;> rfl
  exact ⟨hf ▸ s.flight, hl ▸ s.fd, hl ▸ s.dup, hl ▸ s.st, hl ▸ s.wr⟩

/-! ## `message_write` on the name in flight -/

theorem copy_hdrs (h : Handle) (hs : List Hdr) {tr : Trace} {x : Handle × Bytes} {fd : Handle} {wr : Bytes}
    (s : Streaming tr x fd h wr) :
    wp PredR (CopyI M) (messageWriteP.hdrs h hs)
      (fun err tr' => err = false ∧ Streaming tr' x fd h (wr ++ hs.flatMap hdrLine)) tr := by
  induction hs generalizing tr wr with
  | nil =>
    unfold messageWriteP.hdrs
    exact ⟨rfl, by simpa using s⟩
  | cons hd rest ih =>
    unfold messageWriteP.hdrs
    simp only [bind_eq, pure_eq, call_bind]
    refine wp_call s.I_stream fun r hr => ?_
    rw [predR_fprintf hr]
    simp only [isOk, if_true]
    refine wp_mono (ih (s.fprintf (hd.key ++ [58, 32] ++ hd.val ++ [10]) (hd.key ++ [58, 32] ++ hd.val ++ [10]).length)) ?_
    rintro err tr' ⟨he, hs'⟩
    refine ⟨he, ?_⟩
    simpa [List.flatMap_cons, hdrLine, List.append_assoc] using hs'

/-- `message_write` of `m` into the descriptor of the name in flight: afterwards the bytes handed to
the (closed) stream are the previous ones followed by the complete message. -/
theorem copy_messageWriteP (m : Msg) {tr : Trace} {x : Handle × Bytes} {fd : Handle} {wr : Bytes}
    (s : Fresh1 tr x fd wr) :
    wp PredR (CopyI M) (messageWriteP m fd)
      (fun err tr' => err = false ∧ Fresh1 tr' x fd (wr ++ (messageWrite m).1)) tr := by
  unfold messageWriteP
  simp only [bind_eq, pure_eq, call_bind]
  refine wp_call True.intro fun r hr => ?_
  obtain ⟨h, rfl⟩ := predR_dupfd hr
  dsimp only
  -- after the dup
  have hl1 : locOf (tr ++ [(Call.dupfd fd, Res.ok h)]) =
      { locOf tr with dup := some h, tmp := if (locOf tr).tmp.contains fd then h :: (locOf tr).tmp else (locOf tr).tmp } := by
    rw [locOf_snoc]; simp [locUpd, s.fd]
  have hf1 : inFlightH (tr ++ [(Call.dupfd fd, Res.ok h)]) = [x] := by rw [inFlightH_snoc]; exact s.flight
  refine wp_call (.inl ⟨flight_ne_nil hf1, by rw [hl1], by rw [hl1]; exact s.st⟩) fun r2 hr2 => ?_
  rw [predR_ok0 hr2 (.inl ⟨_, rfl⟩)]
  simp only [isOk, Bool.not_true, Bool.false_eq_true, if_false]
  generalize hT : tr ++ [(Call.dupfd fd, Res.ok h)] = T at hl1 hf1
  have s2 : Streaming (T ++ [(Call.fdopen h, Res.ok 0)]) x fd h wr := by
    have hl2 : locOf (T ++ [(Call.fdopen h, Res.ok 0)]) =
        { locOf T with st := some h, dup := none, tmp := (locOf T).tmp.filter (· != h),
                       tst := if (locOf T).tmp.contains h then h :: (locOf T).tst else (locOf T).tst } := by
      rw [locOf_snoc]
      have hd : (locOf T).dup = some h := by rw [hl1]
      simp [locUpd, hd, clr]
    refine ⟨?_, ?_, ?_, ?_, ?_⟩
    · rw [inFlightH_snoc]; exact hf1
    · rw [hl2, hl1]; exact s.fd
    · rw [hl2]
    · rw [hl2]
    · rw [hl2, hl1]; exact s.wr
  refine wp_bind_ext (copy_hdrs h (sortById m.headers) s2) ?_
  rintro herr L1 ⟨rfl, s3⟩
  simp only [Bool.false_eq_true, if_false]
  refine wp_call s3.I_stream fun r3 hr3 => ?_
  rw [predR_fprintf hr3]
  simp only [isOk, Bool.not_true, Bool.false_eq_true, if_false]
  have s4 := s3.fprintf ([10] ++ m.body) ([10] ++ m.body).length
  refine wp_call s4.I_stream fun r4 hr4 => ?_
  rw [predR_ok0 hr4 (.inr (.inl ⟨_, rfl⟩))]
  simp only [isOk, Bool.not_true, Bool.false_eq_true, if_false]
  have s5 := s4.same (.fflush h) (.ok 0) (.inl ⟨_, rfl⟩)
  refine wp_call s5.I_stream fun r5 hr5 => ?_
  rw [predR_ok0 hr5 (.inr (.inr (.inl ⟨_, rfl⟩)))]
  have s6 := s5.same (.fsync h) (.ok 0) (.inr ⟨_, rfl⟩)
  simp only [ret_bind]
  refine wp_call s6.I_stream fun r6 hr6 => ?_
  rw [predR_ok0 hr6 (.inr (.inr (.inr (.inl ⟨_, rfl⟩))))]
  refine ⟨by simp [isOk], ?_⟩
  generalize T ++ [(Call.fdopen h, Res.ok 0)] ++ L1 ++ [(Call.fprintf h ([10] ++ m.body), Res.ok ([10] ++ m.body).length)] ++
    [(Call.fflush h, Res.ok 0)] ++ [(Call.fsync h, Res.ok 0)] = T6 at s6
  have hl7 : locOf (T6 ++ [(Call.fclose h, Res.ok 0)]) = { (locOf T6).drop h with fd := (locOf T6).fd } := by
    rw [locOf_snoc]; rfl
  refine ⟨?_, ?_, ?_, ?_, ?_⟩
  · rw [inFlightH_snoc]; exact s6.flight
  · rw [hl7]; exact s6.fd
  · rw [hl7]; simp [Loc.drop, clr, s6.dup]
  · rw [hl7]; simp [Loc.drop, clr, s6.st]
  · rw [hl7]
    show (locOf T6).wr = _
    rw [s6.wr, render_eq]
    simp [List.append_assoc]

end Mdsort.Proofs.Parties
